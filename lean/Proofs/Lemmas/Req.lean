import Model.Req
/-!
Lemmas for C11 (`Model.Req`): a request's step is a function of its own state and the
cells it sees (by construction of `stepReq`); steps of other requests leave its state and
its per-request cells alone (frame); hence the projection of any schedule onto one
request whose remaining steps touch only per-request cells equals its solo run.
-/
namespace Proofs.Req
open Model.Req

/-- two cell tables agree on every kind stored per request -/
def AgreeP (w : World) (c c' : Cells) : Prop := ∀ k, w.scope k = .perRequest → c k = c' k

/-- every superglobal the remaining steps touch is stored per request -/
def PrivPc (w : World) (pc : List Step) : Prop := ∀ st ∈ pc, ∀ k ∈ st.kinds, w.scope k = .perRequest

theorem agree_refl (w : World) (c : Cells) : AgreeP w c c := fun _ _ => rfl

theorem agree_set {w : World} {c c' : Cells} (h : AgreeP w c c') (k : Kind) (v : Content) :
    AgreeP w (c.set k v) (c'.set k v) := by
  intro k' hk'
  unfold Cells.set
  split
  · rfl
  · exact h k' hk'

theorem ensureBasic_agree {w : World} (env : Content) (d : ReqData) (parsed : Bool) {c c' : Cells}
    (k : Kind) (h : AgreeP w c c') (hk : w.scope k = .perRequest) :
    (ensureBasic env d parsed c k).2 = (ensureBasic env d parsed c' k).2 ∧
    AgreeP w (ensureBasic env d parsed c k).1 (ensureBasic env d parsed c' k).1 := by
  have hkk := h k hk
  unfold ensureBasic
  rw [← hkk]
  cases c k with
  | some v => exact ⟨rfl, h⟩
  | none => exact ⟨rfl, agree_set h k _⟩

theorem ensure_agree {w : World} (env : Content) (d : ReqData) (parsed : Bool) {c c' : Cells}
    (k : Kind) (h : AgreeP w c c') (hk : ∀ k' ∈ (Step.readSG k 0).kinds, w.scope k' = .perRequest) :
    (ensure env d parsed c k).2 = (ensure env d parsed c' k).2 ∧
    AgreeP w (ensure env d parsed c k).1 (ensure env d parsed c' k).1 := by
  cases k
  case request =>
    have hr : w.scope .request = .perRequest := hk _ (by simp [Step.kinds])
    have hg : w.scope .get = .perRequest := hk _ (by simp [Step.kinds])
    have hp : w.scope .post = .perRequest := hk _ (by simp [Step.kinds])
    have hc : w.scope .cookie = .perRequest := hk _ (by simp [Step.kinds])
    have hrr := h _ hr
    unfold ensure
    simp only
    rw [← hrr]
    cases c .request with
    | some v => exact ⟨rfl, h⟩
    | none =>
      have h1 := ensureBasic_agree env d parsed .get h hg
      have h2 := ensureBasic_agree env d parsed .post h1.2 hp
      have h3 := ensureBasic_agree env d parsed .cookie h2.2 hc
      simp only
      rw [h1.1, h2.1, h3.1]
      exact ⟨rfl, agree_set h3.2 _ _⟩
  all_goals
    exact ensureBasic_agree env d parsed _ h (hk _ (by simp [Step.kinds]))

/-- the program counter after a step is the tail of the one before -/
theorem localStep_pc (env : Content) (d : ReqData) (q : ReqSt) (c : Cells) :
    (localStep env d q c).1.pc = q.pc.tail := by
  unfold localStep
  split
  · rename_i h; simp [h]
  · rename_i st rest h
    simp only [h, List.tail_cons]
    cases st <;> simp only [observe]
    case writeLocal slot s => cases s <;> rfl
    all_goals first | rfl | (split <;> rfl)

/-- **determinism in the visible cells**: if the cells two runs see agree on the per-request
kinds and the step only touches per-request kinds, both runs produce the same request state
and again agreeing cells -/
theorem localStep_agree {w : World} (env : Content) (d : ReqData) (q : ReqSt) {c c' : Cells}
    (h : AgreeP w c c') (hp : PrivPc w q.pc) :
    (localStep env d q c).1 = (localStep env d q c').1 ∧
    AgreeP w (localStep env d q c).2 (localStep env d q c').2 := by
  unfold localStep
  split
  · exact ⟨rfl, h⟩
  · rename_i st rest hpc
    have hst : ∀ k ∈ st.kinds, w.scope k = .perRequest := hp st (by simp [hpc])
    cases st with
    | reset => exact ⟨rfl, agree_refl w _⟩
    | parseForm => exact ⟨rfl, h⟩
    | readSG k key =>
      have he := ensure_agree env d q.parsed k h (by
        intro k' hk'
        apply hst
        cases k <;> simpa [Step.kinds] using hk')
      simp only
      rw [he.1]
      exact ⟨rfl, he.2⟩
    | writeSG k key v =>
      have he := ensure_agree env d q.parsed k h (by
        intro k' hk'
        apply hst
        cases k <;> simpa [Step.kinds] using hk')
      simp only
      rw [he.1]
      exact ⟨by trivial, agree_set he.2 _ _⟩
    | readReq a key => exact ⟨rfl, h⟩
    | writeLocal slot s => cases s <;> exact ⟨rfl, h⟩
    | readLocal slot => exact ⟨rfl, h⟩
    | gate => exact ⟨rfl, h⟩
    | write => exact ⟨rfl, h⟩

/-! ### global steps -/

theorem step_req_self (w : World) (s : State) (r : Rid) :
    (stepReq w s r).req r = (localStep w.env (w.data r) (s.req r) (cellView w s r)).1 := by
  simp [stepReq]

theorem step_view_self (w : World) (s : State) (r : Rid) :
    cellView w (stepReq w s r) r = (localStep w.env (w.data r) (s.req r) (cellView w s r)).2 := by
  funext k
  simp only [cellView, stepReq]
  cases w.scope k <;> simp

/-- **frame**: a step of another request does not change this request's state -/
theorem step_req_other (w : World) (s : State) {r r' : Rid} (h : r' ≠ r) :
    (stepReq w s r').req r = s.req r := by
  simp [stepReq, Ne.symm h]

/-- **frame**: nor the cells it stores per request -/
theorem step_view_other (w : World) (s : State) {r r' : Rid} (h : r' ≠ r) :
    AgreeP w (cellView w (stepReq w s r') r) (cellView w s r) := by
  intro k hk
  simp [cellView, stepReq, hk, Ne.symm h]

/-- request `r` cannot tell `s` from `s'` -/
def Sim (w : World) (r : Rid) (s s' : State) : Prop :=
  s.req r = s'.req r ∧ AgreeP w (cellView w s r) (cellView w s' r)

theorem sim_refl (w : World) (r : Rid) (s : State) : Sim w r s s := ⟨rfl, agree_refl w _⟩

theorem sim_step_self {w : World} {r : Rid} {s s' : State} (h : Sim w r s s')
    (hp : PrivPc w (s.req r).pc) : Sim w r (stepReq w s r) (stepReq w s' r) := by
  obtain ⟨h1, h2⟩ := h
  have := localStep_agree w.env (w.data r) (s.req r) h2 hp
  refine ⟨?_, ?_⟩
  · rw [step_req_self, step_req_self, ← h1]; exact this.1
  · rw [step_view_self, step_view_self, ← h1]; exact this.2

theorem sim_step_other {w : World} {r r' : Rid} {s s' : State} (h : Sim w r s s') (hne : r' ≠ r) :
    Sim w r (stepReq w s r') s' := by
  obtain ⟨h1, h2⟩ := h
  refine ⟨?_, ?_⟩
  · rw [step_req_other w s hne]; exact h1
  · intro k hk
    rw [step_view_other w s hne k hk]; exact h2 k hk

theorem privPc_tail {w : World} {pc : List Step} (h : PrivPc w pc) : PrivPc w pc.tail :=
  fun st hst => h st (List.mem_of_mem_tail hst)

/-- **projection**: for a request whose remaining steps touch only per-request cells, any
schedule is indistinguishable from running that request alone for as many steps as the
schedule gives it — from any two start states the request cannot tell apart. -/
theorem sim_run {w : World} {r : Rid} (sched : List Rid) :
    ∀ {s s' : State}, Sim w r s s' → PrivPc w (s.req r).pc →
      Sim w r (run w s sched) (run w s' (List.replicate (sched.count r) r)) := by
  induction sched with
  | nil => intro s s' h _; simpa [run] using h
  | cons a rest ih =>
    intro s s' h hp
    by_cases ha : a = r
    · subst ha
      have hs := sim_step_self h hp
      have hp' : PrivPc w ((stepReq w s a).req a).pc := by
        rw [step_req_self, localStep_pc]; exact privPc_tail hp
      have := ih hs hp'
      simpa [run, List.count_cons_self, List.replicate_succ] using this
    · have hs : Sim w r (stepReq w s a) s' := sim_step_other h ha
      have hp' : PrivPc w ((stepReq w s a).req r).pc := by
        rw [step_req_other w s ha]; exact hp
      have := ih hs hp'
      have hc : (a :: rest).count r = rest.count r := by
        simp [ha]
      simpa [run, hc] using this

/-! ### completion: extra turns after the last step change nothing -/

theorem step_done (w : World) (s : State) (r : Rid) (h : (s.req r).pc = []) :
    (stepReq w s r).req r = s.req r := by
  rw [step_req_self]; unfold localStep; simp [h]

theorem run_solo_pc_length (w : World) (r : Rid) : ∀ (n : Nat) (s : State),
    ((run w s (List.replicate n r)).req r).pc.length = (s.req r).pc.length - n := by
  intro n
  induction n with
  | zero => intro s; simp [run]
  | succ n ih =>
    intro s
    have := ih (stepReq w s r)
    simp only [run, List.replicate_succ, List.foldl_cons] at this ⊢
    rw [this, step_req_self, localStep_pc, List.length_tail]
    omega

theorem run_solo_done (w : World) (r : Rid) : ∀ (m : Nat) (s : State), (s.req r).pc = [] →
    (run w s (List.replicate m r)).req r = s.req r := by
  intro m
  induction m with
  | zero => intro s _; simp [run]
  | succ m ih =>
    intro s h
    have h1 := step_done w s r h
    have := ih (stepReq w s r) (by rw [h1]; exact h)
    simp only [run, List.replicate_succ, List.foldl_cons] at this ⊢
    rw [this, h1]

theorem run_append (w : World) (s : State) (a b : List Rid) : run w s (a ++ b) = run w (run w s a) b := by
  simp [run, List.foldl_append]

/-- running a request alone for at least as many turns as it has steps = running it to completion -/
theorem run_solo_saturate (w : World) (r : Rid) (s : State) (n : Nat) (h : (s.req r).pc.length ≤ n) :
    (run w s (List.replicate n r)).req r = (run w s (List.replicate (s.req r).pc.length r)).req r := by
  obtain ⟨m, rfl⟩ : ∃ m, n = (s.req r).pc.length + m := ⟨n - (s.req r).pc.length, by omega⟩
  rw [← List.replicate_append_replicate, run_append]
  apply run_solo_done
  have := run_solo_pc_length w r (s.req r).pc.length s
  simpa using this

/-! ### frame over whole schedules -/

theorem run_frame (w : World) (r : Rid) (sched : List Rid) : ∀ (s : State), r ∉ sched →
    (run w s sched).req r = s.req r := by
  induction sched with
  | nil => intro s _; rfl
  | cons a rest ih =>
    intro s h
    have ha : a ≠ r := fun e => h (by simp [e])
    have hr : r ∉ rest := fun e => h (by simp [e])
    have := ih (stepReq w s a) hr
    simp only [run, List.foldl_cons] at this ⊢
    rw [this, step_req_other w s ha]

end Proofs.Req
