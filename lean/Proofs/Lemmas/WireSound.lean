import Proofs.Lemmas.WireInv2
/-! Soundness of the primitives with respect to the grammar relations. -/
namespace Proofs.Wire
open Model.Wire Spec.Wire

theorem cvAux_sound (k : Nat) : ∀ (data : Bytes) (v : Nat) (rest : Bytes), k ≤ 10 →
    cvAux k data = some (v, rest) → ∃ pre, data = pre ++ rest ∧ Varint (10 - k) v pre := by
  induction k with
  | zero => intro data v rest _ h; simp [cvAux] at h
  | succ k ih =>
    intro data v rest hk h
    cases data with
    | nil => simp [cvAux] at h
    | cons b tl =>
      simp only [cvAux] at h
      split at h
      · rename_i hb
        split at h
        · simp at h
        · rename_i hnot
          simp only [Option.some.injEq, Prod.mk.injEq] at h
          obtain ⟨rfl, rfl⟩ := h
          refine ⟨[b], rfl, Varint.last hb (by omega) ?_⟩
          intro h9
          have : k = 0 := by omega
          omega
      · rename_i hb
        cases hr : cvAux k tl with
        | none => simp [hr] at h
        | some p =>
          obtain ⟨v', r'⟩ := p
          simp only [hr, Option.some.injEq, Prod.mk.injEq] at h
          obtain ⟨rfl, rfl⟩ := h
          have hk0 : k ≠ 0 := by intro h0; subst h0; simp [cvAux] at hr
          obtain ⟨pre, hpre, hv⟩ := ih tl v' r' (by omega) hr
          refine ⟨b :: pre, by rw [hpre]; rfl, Varint.more (by omega) (by omega) ?_⟩
          have : 10 - (k + 1) + 1 = 10 - k := by omega
          rw [this]; exact hv

theorem consumeVarint_sound {data : Bytes} {v : Nat} {rest : Bytes} (h : consumeVarint data = some (v, rest)) :
    ∃ pre, data = pre ++ rest ∧ Varint 0 v pre := cvAux_sound 10 data v rest (by omega) h

theorem consumeTag_sound {data : Bytes} {num wt : Nat} {rest : Bytes}
    (h : consumeTag data = some (num, wt, rest)) : ∃ tb, data = tb ++ rest ∧ TagRepr num wt tb := by
  unfold consumeTag at h
  cases hv : consumeVarint data with
  | none => simp [hv] at h
  | some p =>
    obtain ⟨x, r⟩ := p
    simp only [hv] at h
    split at h
    · simp at h
    · split at h
      · simp at h
      · simp only [Option.some.injEq, Prod.mk.injEq] at h
        obtain ⟨rfl, rfl, rfl⟩ := h
        obtain ⟨pre, hpre, hvr⟩ := consumeVarint_sound hv
        exact ⟨pre, hpre, x, hvr, rfl, rfl, by omega, by omega⟩

theorem consumeBytes_sound {data payload rest : Bytes} (h : consumeBytes data = some (payload, rest)) :
    ∃ lb, data = lb ++ payload ++ rest ∧ Varint 0 payload.length lb := by
  unfold consumeBytes at h
  cases hv : consumeVarint data with
  | none => simp [hv] at h
  | some p =>
    obtain ⟨m, r⟩ := p
    simp only [hv] at h
    split at h
    · simp at h
    · rename_i hm
      simp only [Option.some.injEq, Prod.mk.injEq] at h
      obtain ⟨rfl, rfl⟩ := h
      obtain ⟨pre, hpre, hvr⟩ := consumeVarint_sound hv
      refine ⟨pre, ?_, ?_⟩
      · rw [hpre, List.append_assoc, List.take_append_drop]
      · rw [List.length_take, Nat.min_eq_left (by omega)]; exact hvr

theorem unpackVarints_sound (fuel : Nat) : ∀ (data : Bytes) (vs : List Nat),
    unpackVarints fuel data = .ok vs → Elems 0 vs data := by
  induction fuel with
  | zero => intro data vs h; simp [unpackVarints] at h
  | succ f ih =>
    intro data vs h
    cases data with
    | nil => simp only [unpackVarints, Except.ok.injEq] at h; rw [← h]; exact Elems.nil (Or.inl rfl)
    | cons b tl =>
      simp only [unpackVarints] at h
      cases hv : consumeVarint (b :: tl) with
      | none => simp [hv] at h
      | some p =>
        obtain ⟨v, rest⟩ := p
        simp only [hv] at h
        cases hr : unpackVarints f rest with
        | error e => simp [hr] at h
        | ok vs' =>
          simp only [hr, Except.ok.injEq] at h
          obtain ⟨pre, hpre, hvr⟩ := consumeVarint_sound hv
          rw [← h, hpre]
          exact Elems.varint hvr (ih rest vs' hr)

theorem unpackFixed32_sound (fuel : Nat) : ∀ (data : Bytes) (vs : List Nat),
    unpackFixed32 fuel data = .ok vs → Elems 5 vs data := by
  induction fuel with
  | zero => intro data vs h; simp [unpackFixed32] at h
  | succ f ih =>
    intro data vs h
    match data, h with
    | [], h => simp only [unpackFixed32, Except.ok.injEq] at h; rw [← h]; exact Elems.nil (Or.inr (Or.inr rfl))
    | [_], h => simp [unpackFixed32, consumeFixed32] at h
    | [_, _], h => simp [unpackFixed32, consumeFixed32] at h
    | [_, _, _], h => simp [unpackFixed32, consumeFixed32] at h
    | b0 :: b1 :: b2 :: b3 :: rest, h =>
      simp only [unpackFixed32, consumeFixed32] at h
      cases hr : unpackFixed32 f rest with
      | error e => simp [hr] at h
      | ok vs' =>
        simp only [hr, Except.ok.injEq] at h
        rw [← h]
        exact Elems.fixed32 (ih rest vs' hr)

theorem unpackFixed64_sound (fuel : Nat) : ∀ (data : Bytes) (vs : List Nat),
    unpackFixed64 fuel data = .ok vs → Elems 1 vs data := by
  induction fuel with
  | zero => intro data vs h; simp [unpackFixed64] at h
  | succ f ih =>
    intro data vs h
    match data, h with
    | [], h => simp only [unpackFixed64, Except.ok.injEq] at h; rw [← h]; exact Elems.nil (Or.inr (Or.inl rfl))
    | [_], h => simp [unpackFixed64, consumeFixed64] at h
    | [_, _], h => simp [unpackFixed64, consumeFixed64] at h
    | [_, _, _], h => simp [unpackFixed64, consumeFixed64] at h
    | [_, _, _, _], h => simp [unpackFixed64, consumeFixed64] at h
    | [_, _, _, _, _], h => simp [unpackFixed64, consumeFixed64] at h
    | [_, _, _, _, _, _], h => simp [unpackFixed64, consumeFixed64] at h
    | [_, _, _, _, _, _, _], h => simp [unpackFixed64, consumeFixed64] at h
    | b0 :: b1 :: b2 :: b3 :: b4 :: b5 :: b6 :: b7 :: rest, h =>
      simp only [unpackFixed64, consumeFixed64] at h
      cases hr : unpackFixed64 f rest with
      | error e => simp [hr] at h
      | ok vs' =>
        simp only [hr, Except.ok.injEq] at h
        rw [← h]
        exact Elems.fixed64 (ih rest vs' hr)

theorem unpackPacked_sound {et : Nat} {data : Bytes} {vs : List Nat}
    (h : unpackPacked et data = .ok vs) : Elems et vs data := by
  unfold unpackPacked at h
  split at h
  · rename_i he; subst he; exact unpackVarints_sound _ _ _ h
  · split at h
    · rename_i _ he; subst he; exact unpackFixed32_sound _ _ _ h
    · split at h
      · rename_i _ _ he; subst he; exact unpackFixed64_sound _ _ _ h
      · simp at h

end Proofs.Wire
