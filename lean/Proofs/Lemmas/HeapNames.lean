import Proofs.Lemmas.HeapStep
/-!
C06 helper lemmas, part 7: the spec really has the user-level property (a write through
one name changes that name only), and `&` bindings are the only way two names become one.
-/
namespace Proofs.Heap
open Model.Heap

/-! ### spec level -/
section
open Spec.Val

theorem spec_onArray_var (s s' : Spec.Val.St) (c : Bool) (x : Nat) (g : List Entry → List Entry)
    (h : onArray s c (.var x) g = some s') :
    s'.objs = s.objs ∧ s'.names = s.names ∧ ∀ y, s.names[y]? ≠ s.names[x]? → s'.varVal? y = s.varVal? y := by
  simp only [Spec.Val.onArray, Spec.Val.modify] at h
  cases hv : s.varVal? x with
  | none => simp [hv] at h
  | some t =>
    cases t with
    | sc sc => simp [hv] at h
    | arr l =>
      simp only [hv, Option.map_some, Option.some.injEq] at h
      subst h
      simp only [Spec.Val.St.setVar]
      cases hc : s.names[x]? with
      | none => simp
      | some c =>
        refine ⟨rfl, rfl, ?_⟩
        intro y hy
        simp only [Spec.Val.St.varVal?]
        cases hcy : s.names[y]? with
        | none => rfl
        | some cy =>
          have : c ≠ cy := fun e => hy (by rw [hcy, e])
          simp [List.getElem?_set, this]

theorem spec_onArray_prop (s s' : Spec.Val.St) (c : Bool) (x p : Nat) (g : List Entry → List Entry)
    (h : onArray s c (.prop x p) g = some s') :
    s'.vars = s.vars ∧ s'.names = s.names ∧
      ∀ h0 p', (s.varObj? x ≠ some h0 ∨ p' ≠ p) → s'.propVal? h0 p' = s.propVal? h0 p' := by
  simp only [Spec.Val.onArray, Spec.Val.modify] at h
  cases hh : s.varObj? x with
  | none => simp [hh] at h
  | some hx =>
    simp only [hh] at h
    cases hv : s.propVal? hx p with
    | none => simp [hv] at h
    | some t =>
      cases t with
      | sc sc => simp [hv] at h
      | arr l =>
        simp only [hv, Option.map_some, Option.some.injEq] at h
        subst h
        simp only [Spec.Val.St.setProp]
        cases hps : s.objs[hx]? with
        | none => simp
        | some ps =>
          refine ⟨rfl, rfl, ?_⟩
          intro h0 p' hne
          simp only [Spec.Val.St.propVal?]
          by_cases e : hx = h0
          · subst e
            have hlt : hx < s.objs.length := (List.getElem?_eq_some_iff.mp hps).1
            have hp : p' ≠ p := by
              rcases hne with hne | hne
              · exact (hne rfl).elim
              · exact hne
            have hget : s.objs[hx] = ps := by
              have := List.getElem?_eq_getElem hlt
              rw [hps] at this; injection this with this; exact this.symm
            simp [List.getElem?_set, hlt, hps, Ne.symm hp, hget]
          · simp [List.getElem?_set, e]

end

/-! ### names are only rebound by `&` -/

theorem updArr_names (s : St) (a : Nat) (f : List Slot → List Slot) : (s.updArr a f).names = s.names := rfl
theorem mutCell_names (s : St) (c : Nat) (w : Val) : (s.mutCell c w).names = s.names := rfl
theorem applyAct_names (s : St) (a : Nat) (act : Act) : (s.applyAct a act).names = s.names := by
  cases act <;> rfl
theorem setVar_names (s : St) (x : Nat) (w : Val) : (s.setVar x w).names = s.names := by
  simp only [St.setVar]; cases s.names[x]? <;> rfl
theorem setProp_names (s : St) (h p : Nat) (w : Val) : (s.setProp h p w).names = s.names := by
  simp only [St.setProp]; cases s.objs[h]? <;> rfl

theorem writeBack_names (cfg : Cfg) : (b : Place) → (s : St) → (writeBack cfg s b).names = s.names
  | .var _, s => rfl
  | .prop x p, s => by
      simp only [writeBack]
      split
      · rfl
      · split
        · simp [setProp_names]
        · rfl
  | .idx b2 k2, s => by
      simp only [writeBack]
      split
      · rw [writeBack_names cfg b2]; simp [applyAct_names]
      · rfl

theorem storeAt_names (cfg : Cfg) (s s' : St) (b : Place) (k : Option IKey) (v : Val)
    (h : storeAt cfg s b k v = some s') : s'.names = s.names := by
  simp only [storeAt] at h
  split at h
  · injection h with h; subst h; rw [writeBack_names]; simp [applyAct_names]
  · cases h

theorem setIdx_names (cfg : Cfg) : (b : Place) → (s s' : St) → (k : Option IKey) → (v : Val) →
    setIdx cfg b s k v = some s' → s'.names = s.names
  | .idx b2 k2, s, s', k, v, h => by
      simp only [setIdx] at h
      have h' := storeAt_names cfg _ s' _ k _ h
      rw [h']
      split
      · split
        · rename_i s'' hs
          have := setIdx_names cfg b2 _ s'' _ _ hs
          simpa using this
        · rfl
      · rfl
  | .var x, s, s', k, v, h => by
      simp only [setIdx] at h
      have := storeAt_names cfg _ s' _ _ _ h
      simpa using this
  | .prop x p, s, s', k, v, h => by
      simp only [setIdx] at h
      have := storeAt_names cfg _ s' _ _ _ h
      simpa using this

theorem evalRV_names (cfg : Cfg) (s s1 : St) (r : RV) (v : Val) (h : evalRV cfg s r = some (v, s1)) :
    s1.names = s.names := by
  cases r with
  | int n => simp [evalRV] at h; rw [← h.2]
  | null => simp [evalRV] at h; rw [← h.2]
  | str cs => simp [evalRV] at h; rw [← h.2]
  | upd p u =>
    simp only [evalRV] at h
    cases hr : readPlace s p with
    | none => simp [hr] at h
    | some w =>
      cases w with
      | arr a kids => simp [hr] at h
      | sc sv =>
        cases hu : u.apply sv with
        | none => simp [hr, hu] at h
        | some r => simp [hr, hu] at h; rw [← h.2]
  | rd p =>
    simp only [evalRV] at h
    cases hr : readPlace s p with
    | none => simp [hr] at h
    | some w => simp [hr] at h; rw [← h.2]
  | call p =>
    simp only [evalRV] at h
    cases hr : readPlace s p with
    | none => simp [hr] at h
    | some w => simp [hr] at h; rw [← h.2]
  | lit l =>
    simp only [evalRV] at h
    cases ha : Lit.alloc cfg s l s.next with
    | none => simp [ha] at h
    | some vn => simp [ha] at h; rw [← h.2]

/-- a statement other than `$x = &$y` never changes which variable a name is -/
theorem stepOpt_names (cfg : Cfg) (s s' : St) (op : Op) (hr : op.isRef = false)
    (h : stepOpt cfg s op = some s') : s'.names = s.names := by
  cases op with
  | ref x y => simp [Op.isRef] at hr
  | setVar x r =>
    simp only [stepOpt] at h
    cases he : evalRV cfg s r with
    | none => simp [he] at h
    | some vs =>
      obtain ⟨v, s1⟩ := vs
      simp only [he] at h
      injection h with h; subst h
      split <;> simp [setVar_names, evalRV_names cfg s s1 r v he]
  | setProp x p r =>
    simp only [stepOpt] at h
    cases he : evalRV cfg s r with
    | none => simp [he] at h
    | some vs =>
      obtain ⟨v, s1⟩ := vs
      simp only [he] at h
      split at h
      · split at h
        · injection h with h; subst h
          simp [setProp_names, evalRV_names cfg s s1 r v he]
        · cases h
      · cases h
  | setIdx b k r =>
    simp only [stepOpt] at h
    cases he : evalRV cfg s r with
    | none => simp [he] at h
    | some vs =>
      obtain ⟨v, s1⟩ := vs
      simp only [he] at h
      rw [setIdx_names cfg b s1 s' k v h, evalRV_names cfg s s1 r v he]
  | unset b k =>
    simp only [stepOpt, unsetAt] at h
    split at h
    · injection h with h; subst h; rw [writeBack_names]; simp [updArr_names]
    · cases h
  | meth b m =>
    simp only [stepOpt, methAt] at h
    split at h
    · injection h with h; subst h; simp [updArr_names]
    · cases h
  | new x =>
    simp only [stepOpt] at h
    injection h with h; subst h; simp [setVar_names]
  | clone x y =>
    simp only [stepOpt] at h
    split at h
    · split at h
      · injection h with h; subst h; simp [setVar_names]
      · cases h
    · cases h

theorem step_names (cfg : Cfg) (s : St) (op : Op) (hr : op.isRef = false) : (step cfg s op).names = s.names := by
  unfold step
  cases h : stepOpt cfg s op with
  | none => rfl
  | some s' => exact stepOpt_names cfg s s' op hr h

theorem foldl_names (cfg : Cfg) (ops : List Op) (hr : ∀ op ∈ ops, op.isRef = false) (s : St) :
    (ops.foldl (step cfg) s).names = s.names := by
  induction ops generalizing s with
  | nil => rfl
  | cons op t ih =>
    simp only [List.foldl]
    rw [ih (fun o ho => hr o (List.mem_cons_of_mem _ ho)), step_names cfg s op (hr op (by simp))]

/-! ### spec level: one mutating statement changes the name it writes through, nothing else -/
section
open Spec.Val

theorem spec_onArray_prop_obj (s s' : Spec.Val.St) (c : Bool) (x p : Nat) (g : List Entry → List Entry)
    (h : Spec.Val.onArray s c (.prop x p) g = some s') :
    ∀ h0, s.varObj? x ≠ some h0 → s'.objs[h0]? = s.objs[h0]? := by
  simp only [Spec.Val.onArray, Spec.Val.modify] at h
  cases hh : s.varObj? x with
  | none => simp [hh] at h
  | some hx =>
    simp only [hh] at h
    cases hv : s.propVal? hx p with
    | none => simp [hv] at h
    | some t =>
      cases t with
      | sc sc => simp [hv] at h
      | arr l =>
        simp only [hv, Option.map_some, Option.some.injEq] at h
        subst h
        intro h0 hne
        simp only [Spec.Val.St.setProp]
        cases hps : s.objs[hx]? with
        | none => rfl
        | some ps =>
          have : hx ≠ h0 := fun e => hne (by rw [e])
          simp [List.getElem?_set, this]

/-- the three mutating statements are `onArray` at their target, or do nothing -/
theorem spec_step_target (s : Spec.Val.St) (w : Op) (b : Place) (hw : w.target = some b) :
    Spec.Val.step s w = s ∨ ∃ c g, Spec.Val.onArray s c b g = some (Spec.Val.step s w) := by
  cases w with
  | setIdx b' k r =>
    simp only [Op.target, Option.some.injEq] at hw; subst hw
    simp only [Spec.Val.step, Spec.Val.stepOpt]
    cases he : Spec.Val.evalRV s r with
    | none => left; rfl
    | some t =>
      cases ho : Spec.Val.onArray s true b' (fun l => store l k t) with
      | none => left; simp [ho]
      | some s' => right; exact ⟨true, fun l => store l k t, by simp [ho]⟩
  | unset b' k =>
    simp only [Op.target, Option.some.injEq] at hw; subst hw
    simp only [Spec.Val.step, Spec.Val.stepOpt]
    cases ho : Spec.Val.onArray s false b' (fun l => unsetK l k) with
    | none => left; rfl
    | some s' => right; exact ⟨false, fun l => unsetK l k, by simp [ho]⟩
  | meth b' m =>
    simp only [Op.target, Option.some.injEq] at hw; subst hw
    simp only [Spec.Val.step, Spec.Val.stepOpt]
    cases ho : Spec.Val.onArray s false b' (fun l => Spec.Val.applyMeth l m) with
    | none => left; rfl
    | some s' => right; exact ⟨false, fun l => Spec.Val.applyMeth l m, by simp [ho]⟩
  | setVar x r => simp [Op.target] at hw
  | setProp x p r => simp [Op.target] at hw
  | new x => simp [Op.target] at hw
  | clone x y => simp [Op.target] at hw
  | ref x y => simp [Op.target] at hw

theorem spec_write_var (s : Spec.Val.St) (w : Op) (x : Nat) (hw : w.target = some (.var x)) :
    (Spec.Val.step s w).objs = s.objs ∧
    ∀ y, s.names[y]? ≠ s.names[x]? → (Spec.Val.step s w).varVal? y = s.varVal? y := by
  rcases spec_step_target s w _ hw with h | ⟨c, g, h⟩
  · rw [h]; exact ⟨rfl, fun _ _ => rfl⟩
  · obtain ⟨h1, _, h3⟩ := spec_onArray_var s _ c x g h
    exact ⟨h1, h3⟩

theorem spec_write_prop (s : Spec.Val.St) (w : Op) (x p : Nat) (hw : w.target = some (.prop x p)) :
    (∀ y, (Spec.Val.step s w).varVal? y = s.varVal? y) ∧
    (∀ h0 p', (s.varObj? x ≠ some h0 ∨ p' ≠ p) → (Spec.Val.step s w).propVal? h0 p' = s.propVal? h0 p') ∧
    (∀ h0, s.varObj? x ≠ some h0 → (Spec.Val.step s w).objs[h0]? = s.objs[h0]?) := by
  rcases spec_step_target s w _ hw with h | ⟨c, g, h⟩
  · rw [h]; exact ⟨fun _ => rfl, fun _ _ _ => rfl, fun _ _ => rfl⟩
  · obtain ⟨h1, h2, h3⟩ := spec_onArray_prop s _ c x p g h
    refine ⟨?_, h3, spec_onArray_prop_obj s _ c x p g h⟩
    intro y
    simp only [Spec.Val.St.varVal?, h1, h2]

/-- `clone`: the new object lives at a new handle; the variable (if it exists) holds it -/
theorem spec_clone (s : Spec.Val.St) (x y h : Nat) (hy : s.varObj? y = some h) (hl : h < s.objs.length) :
    (Spec.Val.step s (.clone x y)).objs = s.objs ++ [s.objs[h]] ∧
    (Spec.Val.step s (.clone x y)).names = s.names ∧
    ((Spec.Val.step s (.clone x y)).varObj? x = some s.objs.length ∨ (Spec.Val.step s (.clone x y)).varObj? x = none) ∧
    (∀ z, s.names[z]? ≠ s.names[x]? → (Spec.Val.step s (.clone x y)).varVal? z = s.varVal? z) := by
  have hps : s.objs[h]? = some s.objs[h] := List.getElem?_eq_getElem hl
  simp only [Spec.Val.step, Spec.Val.stepOpt, hy, hps, Option.getD_some, Spec.Val.St.setVar]
  cases hc : s.names[x]? with
  | none =>
    refine ⟨rfl, rfl, Or.inr ?_, fun _ _ => rfl⟩
    simp [Spec.Val.St.varObj?, Spec.Val.St.varVal?, hc]
  | some c =>
    refine ⟨rfl, rfl, ?_, ?_⟩
    · simp only [Spec.Val.St.varObj?, Spec.Val.St.varVal?, hc, List.getElem?_set]
      by_cases hlt : c < s.vars.length
      · left; simp [hlt]
      · right; simp [hlt]
    · intro z hz
      simp only [Spec.Val.St.varVal?]
      cases hcz : s.names[z]? with
      | none => rfl
      | some cz =>
        have : c ≠ cz := fun e => hz (by rw [hcz, e])
        simp [List.getElem?_set, this]

end

/-! ### `$x = &$y` -/

theorem step_names_length (cfg : Cfg) (s : St) (op : Op) : (step cfg s op).names.length = s.names.length := by
  cases hr : op.isRef with
  | false => rw [step_names cfg s op hr]
  | true =>
    cases op with
    | ref x y =>
      simp only [step, stepOpt]
      cases s.names[y]? with
      | none => rfl
      | some c => simp only; split <;> simp
    | setVar x r => simp [Op.isRef] at hr
    | setProp x p r => simp [Op.isRef] at hr
    | setIdx b k r => simp [Op.isRef] at hr
    | unset b k => simp [Op.isRef] at hr
    | meth b m => simp [Op.isRef] at hr
    | new x => simp [Op.isRef] at hr
    | clone x y => simp [Op.isRef] at hr

theorem foldl_names_length (cfg : Cfg) (ops : List Op) (s : St) :
    (ops.foldl (step cfg) s).names.length = s.names.length := by
  induction ops generalizing s with
  | nil => rfl
  | cons op t ih => simp only [List.foldl]; rw [ih, step_names_length]

theorem ref_names (cfg : Cfg) (s : St) (x y : Nat) (hx : x < s.names.length) (hy : y < s.names.length) :
    (step cfg s (.ref x y)).names[x]? = (step cfg s (.ref x y)).names[y]? := by
  have hys : s.names[y]? = some s.names[y] := List.getElem?_eq_getElem hy
  simp only [step, stepOpt, hys, hx, if_true, Option.getD_some, List.getElem?_set]
  by_cases e : x = y
  · subst e; simp
  · simp [hx, e, hys]

end Proofs.Heap
