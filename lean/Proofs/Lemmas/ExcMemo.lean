import Model.ExcMemo
import Proofs.Lemmas.ExcShape
/-! C05: a node that memoises its clause dispatch — when the memo is invisible (iff), and that it is not for the class name. -/
namespace Proofs.ExcMemo
open Model.ExcMemo
open Model.Exc (Thrown Clause Catches clauseMatches sel)
open Model.Hier (Name Graph)

section
variable {X K C : Type} [DecidableEq K]

theorem faithful_nil (key : X → K) (m : C → X → Bool) (cs : List C) : Faithful key m cs ([] : Memo K) := by
  intro x r h; simp [List.lookup] at h

/-- a dispatch keeps the memo faithful when equal keys mean equal answers of the scan -/
theorem step_faithful (key : X → K) (m : C → X → Bool) (cs : List C)
    (hk : ∀ x y, key x = key y → firstIdx m cs x = firstIdx m cs y) (memo : Memo K) (hf : Faithful key m cs memo) (x : X) :
    (step key m cs memo x).1 = firstIdx m cs x ∧ Faithful key m cs (step key m cs memo x).2 := by
  unfold step
  cases hl : memo.lookup (key x) with
  | some r => exact ⟨hf x r hl, hf⟩
  | none =>
    refine ⟨rfl, ?_⟩
    intro y r hy
    rw [List.lookup_cons] at hy
    by_cases hxy : key y = key x
    · simp [hxy] at hy
      rw [← hy]; exact hk x y hxy.symm
    · have : (key y == key x) = false := by simpa using hxy
      rw [this] at hy
      exact hf y r hy

/-- from a faithful memo the node answers like the scan along every history -/
theorem runHist_faithful (key : X → K) (m : C → X → Bool) (cs : List C)
    (hk : ∀ x y, key x = key y → firstIdx m cs x = firstIdx m cs y) :
    ∀ (h : List X) (memo : Memo K), Faithful key m cs memo → runHist key m cs memo h = h.map (firstIdx m cs)
  | [], _, _ => rfl
  | x :: xs, memo, hf => by
    have hs := step_faithful key m cs hk memo hf x
    rw [runHist, List.map_cons, hs.1, runHist_faithful key m cs hk xs _ hs.2]

/-- **one clause list**: a node with a memo answers like the memo-free scan along every history iff thrown values
with equal keys get equal answers from the scan -/
theorem memo_invisible_iff (key : X → K) (m : C → X → Bool) (cs : List C) :
    (∀ h : List X, runHist key m cs [] h = h.map (firstIdx m cs)) ↔
    (∀ x y, key x = key y → firstIdx m cs x = firstIdx m cs y) := by
  constructor
  · intro hall x y hxy
    have h2 := hall [x, y]
    simp [runHist, step, List.lookup, hxy] at h2
    exact h2
  · intro hk h
    exact runHist_faithful key m cs hk h [] (faithful_nil key m cs)

theorem firstIdx_single (m : C → X → Bool) (c : C) (x : X) : firstIdx m [c] x = if m c x then some 0 else none := by
  simp [firstIdx]

theorem firstIdx_congr (m : C → X → Bool) (x y : X) (h : ∀ c, m c x = m c y) : ∀ cs : List C, firstIdx m cs x = firstIdx m cs y
  | [] => rfl
  | c :: cs => by simp [firstIdx, h c, firstIdx_congr m x y h cs]

/-- **every clause list**: the memo is invisible for all clause lists and all histories iff the key determines the
outcome of every clause test -/
theorem memo_key_sound_iff (key : X → K) (m : C → X → Bool) :
    (∀ (cs : List C) (h : List X), runHist key m cs [] h = h.map (firstIdx m cs)) ↔
    (∀ x y, key x = key y → ∀ c, m c x = m c y) := by
  constructor
  · intro hall x y hxy c
    have h1 := (memo_invisible_iff key m [c]).1 (hall [c]) x y hxy
    rw [firstIdx_single, firstIdx_single] at h1
    cases hx : m c x <;> cases hy : m c y <;> simp [hx, hy] at h1 ⊢
  · intro hk cs
    exact (memo_invisible_iff key m cs).2 (fun x y hxy => firstIdx_congr m x y (hk x y hxy) cs)

end

/-- the memo-free dispatch is the model's scan: `firstIdx` over the clauses of the statement is the index `sel` stops at -/
theorem firstIdx_sel (G : Graph) (x : Thrown) : ∀ cs : Catches,
    firstIdx (test G) cs.toList x = (sel G x cs).map (·.1)
  | .nil => rfl
  | .cons tys body rest => by
    rw [Catches.toList, firstIdx, sel, firstIdx_sel G x rest]
    by_cases h : clauseMatches G tys x = true
    · simp [test, h]
    · simp only [test, h, Bool.false_eq_true, if_false]
      cases sel G x rest <;> rfl

/-- the clause tests do not look at the throw site: the class of the object — object-less kept apart — decides them -/
theorem classKey_decides (G : Graph) (x y : Thrown) (h : classKey x = classKey y) (c : Clause) : test G c x = test G c y := by
  cases x <;> cases y <;> simp [classKey] at h
  · subst h
    simp only [test, clauseMatches, Model.Exc.singleMatches, Model.Exc.classIs]
  · rfl

end Proofs.ExcMemo
