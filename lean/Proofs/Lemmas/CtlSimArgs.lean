import Proofs.Lemmas.CtlSimE
set_option linter.unusedSimpArgs false
set_option linter.unusedVariables false
/-! Simulation: match arms, echo operands, expression lists evaluated for effect, argument binding. -/
namespace Proofs.Ctl
open Spec.Ctl Model.Ctl

variable {funs : List FunDecl}

theorem simArms_step {f : Nat} (ih : SimAt funs f) (sc : List Var) (cur : Cur) (v : Val) (arms : Arms) (d : Expr)
    (s : St) (m : MSt) (hc : CtxOK funs sc cur) (hr : Rel funs sc cur s m)
    (ca : Covers sc (varsArms arms)) (cd : Covers sc (varsE d))
    (ga : goodArms funs arms = true) (gd : goodE funs d = true) :
    RelV funs sc cur (evalArms funs (f+1) cur v arms d s)
      (evalArmsM (mfuns funs) (f+1) v (compArms sc arms) (compE sc d) m) := by
  cases arms with
  | nil =>
    simp only [evalArms, compArms, evalArmsM]
    exact ih.evalE sc cur d s m hc hr cd gd
  | cons c r rest =>
    simp only [varsArms] at ca
    simp only [goodArms, Bool.and_eq_true] at ga
    simp only [evalArms, compArms, evalArmsM]
    refine relR_bind (ih.evalE sc cur c s m hc hr ca.left ga.1) ?_
    intro vc vc' s1 m1 e1 h1
    subst e1
    cases strictEq v vc with
    | true => exact ih.evalE sc cur r s1 m1 hc h1 ca.right.left ga.2.1
    | false => exact ih.evalArms sc cur v rest d s1 m1 hc h1 ca.right.right cd ga.2.2 gd

theorem relO_normal {sc cur} {s : St} {m : MSt} {v : Val} (h : Rel funs sc cur s m) :
    RelO funs sc cur (.ok .normal s) (.ok v m) := h

theorem simEcho_step {f : Nat} (ih : SimAt funs f) (sc : List Var) (cur : Cur) (es : Args)
    (s : St) (m : MSt) (hc : CtxOK funs sc cur) (hr : Rel funs sc cur s m)
    (ce : Covers sc (varsArgs es)) (ge : goodArgs funs es = true) :
    RelO funs sc cur (echoArgs funs (f+1) cur es s) (echoM (mfuns funs) (f+1) (compArgs sc es) m) := by
  cases es with
  | nil => simp only [echoArgs, compArgs, echoM]; exact relO_normal hr
  | cons e rest =>
    simp only [varsArgs] at ce
    simp only [goodArgs, Bool.and_eq_true] at ge
    simp only [echoArgs, compArgs, echoM]
    refine relRO_bind (ih.evalE sc cur e s m hc hr ce.left ge.1) ?_
    intro v v' s1 m1 e1 h1
    subst e1
    exact ih.echo sc cur rest _ _ hc (rel_echo h1 v) ce.right ge.2

theorem simDiscard_step {f : Nat} (ih : SimAt funs f) (sc : List Var) (cur : Cur) (es : Args)
    (s : St) (m : MSt) (hc : CtxOK funs sc cur) (hr : Rel funs sc cur s m)
    (ce : Covers sc (varsArgs es)) (ge : goodArgs funs es = true) :
    RelR funs sc cur (fun _ _ => True) (evalDiscard funs (f+1) cur es s)
      (discardM (mfuns funs) (f+1) (compArgs sc es) m) := by
  cases es with
  | nil => simp only [evalDiscard, compArgs, discardM]; exact ⟨True.intro, hr⟩
  | cons e rest =>
    simp only [varsArgs] at ce
    simp only [goodArgs, Bool.and_eq_true] at ge
    simp only [evalDiscard, compArgs, discardM]
    refine relR_bind (ih.evalE sc cur e s m hc hr ce.left ge.1) ?_
    intro v v' s1 m1 e1 h1
    exact ih.discard sc cur rest s1 m1 hc h1 ce.right ge.2

/-- `toStmtIncr` changes the value of a node, never its effect -/
theorem toStmtIncr_effect {β : Type} (mf : List MFun) (f : Nat) (e : MExpr) (m : MSt) (k : MSt → MRes β) :
    (evalM mf (f+1) (toStmtIncr e) m).bind (fun _ m1 => k m1) = (evalM mf (f+1) e m).bind (fun _ m1 => k m1) := by
  cases e <;> simp only [toStmtIncr]
  simp only [evalM, incFused_postInc]
  exact stmtIncr_effect m _ k

theorem simDiscardIncs_step {f : Nat} (ih : SimAt funs f) (sc : List Var) (cur : Cur) (es : Args)
    (s : St) (m : MSt) (hc : CtxOK funs sc cur) (hr : Rel funs sc cur s m)
    (ce : Covers sc (varsArgs es)) (ge : goodArgs funs es = true) :
    RelR funs sc cur (fun _ _ => True) (evalDiscard funs (f+1) cur es s)
      (discardM (mfuns funs) (f+1) (mapIncs (compArgs sc es)) m) := by
  cases es with
  | nil => simp only [evalDiscard, compArgs, mapIncs, discardM]; exact ⟨True.intro, hr⟩
  | cons e rest =>
    simp only [varsArgs] at ce
    simp only [goodArgs, Bool.and_eq_true] at ge
    simp only [evalDiscard, compArgs, mapIncs, discardM]
    cases f with
    | zero =>
      simp only [evalE, Res.bind]; exact relR_timeout _
    | succ f =>
      rw [toStmtIncr_effect]
      refine relR_bind (ih.evalE sc cur e s m hc hr ce.left ge.1) ?_
      intro v v' s1 m1 e1 h1
      exact ih.discardIncs sc cur rest s1 m1 hc h1 ce.right ge.2

theorem simBindArgs_step {f : Nat} (ih : SimAt funs f) (sc : List Var) (cur : Cur) (args : Args) (ps : List MParam)
    (s : St) (m : MSt) (slots : List Val) (hc : CtxOK funs sc cur) (hr : Rel funs sc cur s m)
    (ca : Covers sc (varsArgs args)) (ga : goodArgs funs args = true)
    (hlen : args.length ≤ ps.length) (hidx : ∀ p ∈ ps, p.idx < slots.length) :
    RelR funs sc cur (fun vs sl => vs.length = args.length ∧ some sl = bindPure ps vs slots)
      (evalArgs funs (f+1) cur args s) (bindArgs (mfuns funs) (f+1) ps (compArgs sc args) m slots) := by
  cases args with
  | nil =>
    simp only [evalArgs, compArgs]
    cases ps with
    | nil => simp only [bindArgs]; exact ⟨⟨rfl, rfl⟩, hr⟩
    | cons p ps =>
      simp only [bindArgs]
      obtain ⟨sl, h1, _⟩ := fillDefaults_some (p :: ps) slots hidx
      rw [h1]
      exact ⟨⟨rfl, by simp [bindPure, h1]⟩, hr⟩
  | cons e rest =>
    simp only [varsArgs] at ca
    simp only [goodArgs, Bool.and_eq_true] at ga
    cases ps with
    | nil => simp [Args.length] at hlen
    | cons p ps =>
      simp only [Args.length, List.length_cons] at hlen
      simp only [evalArgs, compArgs, bindArgs]
      refine relR_bind (ih.evalE sc cur e s m hc hr ca.left ga.1) ?_
      intro v v' s1 m1 e1 h1
      subst e1
      have hp : p.idx < slots.length := hidx p List.mem_cons_self
      simp only [hp, if_true]
      refine relR_map_left (fun vs => v :: vs)
        (ih.bindArgs sc cur rest ps s1 m1 (slots.set p.idx v) hc h1 ca.right ga.2 (by omega)
          (by intro q hq; simpa using hidx q (List.mem_cons_of_mem _ hq))) ?_
      intro vs sl hq
      exact ⟨by simp [Args.length, hq.1], by simpa [bindPure] using hq.2⟩

end Proofs.Ctl
