import Proofs.Lemmas.WirePrim
/-! Packed payloads: `unpackPacked ∘ encElems = id`. -/
namespace Proofs.Wire
open Model.Wire Spec.Wire

theorem appendVarint_cons (v : Nat) : ∃ b l, appendVarint v = b :: l := by
  unfold appendVarint avAux
  split
  · exact ⟨_, _, rfl⟩
  · exact ⟨_, _, rfl⟩

theorem unpackVarints_enc (vs : List Nat) : ∀ fuel, (∀ v ∈ vs, v < 2 ^ 64) →
    (encElems 0 vs).length < fuel → unpackVarints fuel (encElems 0 vs) = .ok vs := by
  induction vs with
  | nil =>
    intro fuel _ hf
    cases fuel with
    | zero => simp at hf
    | succ f => simp [encElems, unpackVarints]
  | cons v vs ih =>
    intro fuel hv hf
    cases fuel with
    | zero => simp at hf
    | succ f =>
      simp only [encElems, if_true] at hf ⊢
      obtain ⟨b, l, hbl⟩ := appendVarint_cons v
      have hlen : (appendVarint v).length = l.length + 1 := by rw [hbl]; rfl
      have hd : appendVarint v ++ encElems 0 vs = b :: (l ++ encElems 0 vs) := by rw [hbl]; rfl
      rw [hd, unpackVarints, ← hd, varint_roundtrip v _ (hv v (by simp))]
      simp only
      rw [ih f (fun x hx => hv x (by simp [hx])) (by simp [List.length_append] at hf; omega)]

theorem unpackFixed32_enc (vs : List Nat) : ∀ fuel, (∀ v ∈ vs, v < 2 ^ 32) →
    (encElems 5 vs).length < fuel → unpackFixed32 fuel (encElems 5 vs) = .ok vs := by
  induction vs with
  | nil =>
    intro fuel _ hf
    cases fuel with
    | zero => simp at hf
    | succ f => simp [encElems, unpackFixed32]
  | cons v vs ih =>
    intro fuel hv hf
    cases fuel with
    | zero => simp at hf
    | succ f =>
      have he : encElems 5 (v :: vs) = appendFixed32 v ++ encElems 5 vs := by simp [encElems]
      rw [he] at hf ⊢
      have hd : appendFixed32 v ++ encElems 5 vs = (v % 256) :: ([v / 256 % 256, v / 65536 % 256, v / 16777216 % 256] ++ encElems 5 vs) := rfl
      rw [hd, unpackFixed32, ← hd, fixed32_roundtrip v _ (hv v (by simp))]
      simp only
      rw [ih f (fun x hx => hv x (by simp [hx])) (by simp [List.length_append, appendFixed32] at hf; omega)]

theorem unpackFixed64_enc (vs : List Nat) : ∀ fuel, (∀ v ∈ vs, v < 2 ^ 64) →
    (encElems 1 vs).length < fuel → unpackFixed64 fuel (encElems 1 vs) = .ok vs := by
  induction vs with
  | nil =>
    intro fuel _ hf
    cases fuel with
    | zero => simp at hf
    | succ f => simp [encElems, unpackFixed64]
  | cons v vs ih =>
    intro fuel hv hf
    cases fuel with
    | zero => simp at hf
    | succ f =>
      have he : encElems 1 (v :: vs) = appendFixed64 v ++ encElems 1 vs := by simp [encElems]
      rw [he] at hf ⊢
      have hd : appendFixed64 v ++ encElems 1 vs = (v % 256) :: ((appendFixed64 v).tail ++ encElems 1 vs) := rfl
      rw [hd, unpackFixed64, ← hd, fixed64_roundtrip v _ (hv v (by simp))]
      simp only
      rw [ih f (fun x hx => hv x (by simp [hx])) (by simp [List.length_append, appendFixed64] at hf; omega)]

theorem unpackPacked_enc (et : Nat) (vs : List Nat) (het : et = 0 ∨ et = 1 ∨ et = 5)
    (hv : ∀ v ∈ vs, v < (if et = 5 then 2 ^ 32 else 2 ^ 64)) :
    unpackPacked et (encElems et vs) = .ok vs := by
  unfold unpackPacked
  rcases het with rfl | rfl | rfl
  · simp only [if_true]
    exact unpackVarints_enc vs _ (by simpa using hv) (by omega)
  · simp only [show ¬ (1 : Nat) = 0 by decide, show ¬ (1 : Nat) = 5 by decide, if_false, if_true]
    exact unpackFixed64_enc vs _ (by simpa using hv) (by omega)
  · simp only [show ¬ (5 : Nat) = 0 by decide, if_false, if_true]
    exact unpackFixed32_enc vs _ (by simpa using hv) (by omega)

end Proofs.Wire
