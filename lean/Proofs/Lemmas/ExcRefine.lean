import Model.Exc
import Spec.Exc
import Proofs.Lemmas.HierIs
import Model.Cli
/-! C05: the model (repaired code) refines the PHP-level specification; `catchTypeMatches` decides the declared
subtype relation (through C08's `isThrown_spec` / `isClassValue_spec`). -/
namespace Proofs.Exc
open Model.Exc
open Model.Hier (Name Cls Graph getClass isThrown isClassValue R throwableName exceptionName errorName)
open Spec.Hier (IsA NoCycle csucc ThrowableOK)
open Spec.Exc (Rules TypeOk raise pick iterate afterCatch resume handlers returned ThrowableRooted ClauseOk FirstMatch NoMatch)

theorem yes_iff_of_decides {r : R} {P : Prop} (h : Proofs.Hier.Decides r P) : (r == R.yes) = true ↔ P := by
  rcases h with ⟨h1, h2⟩ | ⟨h1, h2⟩ <;> subst h1 <;> simp [h2] <;> decide

theorem internal_iff (ty : Name) :
    (ty == throwableName || ty == exceptionName || ty == errorName) = true ↔
      (ty = throwableName ∨ ty = exceptionName ∨ ty = errorName) := by
  simp [Bool.or_eq_true, or_assoc]

theorem classIs_iff (G : Graph) (hn : NoCycle (csucc G)) (ty : Name) (x : Thrown) :
    classIs G ty x = true ↔ TypeOk G x ty := by
  cases x with
  | internal => exact internal_iff ty
  | obj n s =>
    simp only [classIs, TypeOk]
    cases hc : getClass G n with
    | none => simp
    | some c =>
      simp only [Option.some.injEq, exists_eq_left']
      exact yes_iff_of_decides (Proofs.Hier.isClassValue_spec G hn ty c)

theorem singleMatches_iff (G : Graph) (hn : NoCycle (csucc G)) (hroot : ThrowableRooted G) (ty : Name) (x : Thrown) :
    singleMatches G ty x = true ↔ TypeOk G x ty := by
  cases x with
  | internal => exact internal_iff ty
  | obj n s =>
    simp only [singleMatches, TypeOk]
    cases hc : getClass G n with
    | none => simp
    | some c =>
      simp only [Option.some.injEq, exists_eq_left']
      exact yes_iff_of_decides (Proofs.Hier.isThrown_spec G hn ty c (hroot n c hc))

/-- `catchTypeMatches` answers "one of the clause's types is a type of the thrown value" -/
theorem clauseMatches_iff (G : Graph) (hn : NoCycle (csucc G)) (hroot : ThrowableRooted G) (tys : List Name) (x : Thrown) :
    clauseMatches G tys x = true ↔ ClauseOk G x tys := by
  unfold clauseMatches ClauseOk
  split
  · rename_i ty
    rw [singleMatches_iff G hn hroot]
    simp
  · rw [List.any_eq_true]
    constructor
    · rintro ⟨ty, hm, h⟩; exact ⟨ty, hm, (classIs_iff G hn ty x).1 h⟩
    · rintro ⟨ty, hm, h⟩; exact ⟨ty, hm, (classIs_iff G hn ty x).2 h⟩

theorem clauseMatches_eq_any (G : Graph) (hn : NoCycle (csucc G)) (hroot : ThrowableRooted G) (R : Rules)
    (hR : R.Decides G) (tys : List Name) (x : Thrown) : clauseMatches G tys x = tys.any (R.sub x) := by
  rw [Bool.eq_iff_iff, clauseMatches_iff G hn hroot, List.any_eq_true]
  constructor
  · rintro ⟨ty, hm, h⟩; exact ⟨ty, hm, (hR.sub x ty).2 h⟩
  · rintro ⟨ty, hm, h⟩; exact ⟨ty, hm, (hR.sub x ty).1 h⟩

/-! ### phases -/

theorem guard_eq (r : Res) : protect r = (raise r.1, r.2) := by
  rcases r with ⟨o, tr⟩; cases o <;> rfl

theorem loopN_eq_iterate {f g : List Ev → Res} (h : ∀ t, f t = g t) (k : Nat) (tr : List Ev) :
    loopN f k tr = iterate g k tr := by
  induction k generalizing tr with
  | zero => rfl
  | succ k ih =>
    rw [loopN, iterate, h tr]
    rcases hg : g tr with ⟨o, tr'⟩
    cases o <;> simp [ih]

theorem callResult_eq (r : Res) : callResult r = returned r := by
  rcases r with ⟨o, tr⟩; cases o <;> rfl

/-- the selected handler, as the model's catch loop computes it -/
def picked (sub : Thrown → Name → Bool) (hs : List (List Name × Spec.Exc.Handler)) (k : Nat) (x : Thrown) (tr : List Ev) : Res :=
  match pick sub x hs k with
  | some (k', h) => h k' x tr
  | none => (.thr x, tr)

theorem catchPhase_eq (sub : Thrown → Name → Bool) (hs : List (List Name × Spec.Exc.Handler))
    {cl : Thrown → List Ev → Res} (hc : ∀ x t, cl x t = picked sub hs 0 x t) (b : Res) :
    catchPhase (fun r => protect (tryValue cl r)) (protect b) = afterCatch sub hs b := by
  rcases b with ⟨o, tr1⟩
  have key : ∀ t, protect (cl t tr1) = afterCatch sub hs (.thr t, tr1) := by
    intro t
    rw [hc, guard_eq]
    unfold picked afterCatch
    simp only [raise]
    cases pick sub t hs 0 <;> simp
  cases o
  case normal => rfl
  case brk => rfl
  case cont => rfl
  case ret v => rfl
  case thr t => exact key t
  case panic => exact key .internal

theorem finallyPhase_eq (a i : Nat) (hasFin : Bool) (sf : List Ev → Res) (r2 : Res) :
    finallyPhase a i hasFin (fun t => protect (sf t)) r2 =
      if hasFin then resume r2.1 (sf (r2.2 ++ [.enterFinally a i])) else r2 := by
  unfold finallyPhase
  cases hasFin
  · simp
  · simp only [if_true, guard_eq, resume]
    generalize sf (r2.2 ++ [.enterFinally a i]) = f
    rcases f with ⟨o, tr3⟩
    cases o <;> simp [raise]

theorem tryStmt_eq (sub : Thrown → Name → Bool) (hs : List (List Name × Spec.Exc.Handler)) (a i : Nat) (hasFin : Bool)
    {runBody sb : List Ev → Res} {cl : Thrown → List Ev → Res} {runFin sf : List Ev → Res}
    (hb : ∀ t, runBody t = sb t) (hc : ∀ x t, cl x t = picked sub hs 0 x t) (hf : ∀ t, runFin t = sf t) (tr : List Ev) :
    tryStmt a i hasFin runBody cl runFin tr =
      (let pending := afterCatch sub hs (sb (tr ++ [.enterTry a i]))
       if hasFin then resume pending.1 (sf (pending.2 ++ [.enterFinally a i])) else pending) := by
  unfold tryStmt
  have : (fun t => protect (runFin t)) = (fun t => protect (sf t)) := by funext t; rw [hf]
  simp only [this, hb, catchPhase_eq sub hs hc, finallyPhase_eq]

/-! ### the refinement -/

mutual
theorem exec_refines (G : Graph) (hn : NoCycle (csucc G)) (hroot : ThrowableRooted G) (R : Rules) (hR : R.Decides G)
    (A : Act) :
    ∀ (s : Stmt) (cur : Option Thrown) (tr : List Ev), exec G Cfg.fixed cur A s tr = Spec.Exc.exec R cur A s tr
  | .echo m, cur, tr => by simp [exec, Spec.Exc.exec]
  | .throw c st, cur, tr => by simp [exec, Spec.Exc.exec, hR.newObj]
  | .rethrow, cur, tr => by cases cur <;> simp [exec, Spec.Exc.exec, rethrown, Cfg.fixed]
  | .gopanic, cur, tr => by simp [exec, Spec.Exc.exec]
  | .ret v, cur, tr => by simp [exec, Spec.Exc.exec]
  | .brk, cur, tr => by simp [exec, Spec.Exc.exec]
  | .cont, cur, tr => by simp [exec, Spec.Exc.exec]
  | .loop k b, cur, tr => by
    simp only [exec, Spec.Exc.exec]
    exact loopN_eq_iterate (fun t => execB_refines G hn hroot R hR A b cur t) k tr
  | .call b, cur, tr => by
    simp only [exec, Spec.Exc.exec]
    rw [execB_refines G hn hroot R hR A b none tr, callResult_eq]
  | .callf k, cur, tr => by
    simp only [exec, Spec.Exc.exec, callNamed, callResult_eq]
  | .try_ i b cs hasFin fin, cur, tr => by
    simp only [exec, Spec.Exc.exec, Cfg.fixed, if_true]
    exact tryStmt_eq R.sub (handlers R A i cs) A.lvl i hasFin
      (fun t => execB_refines G hn hroot R hR A b cur t)
      (fun x t => execC_refines G hn hroot R hR A cs i 0 x t)
      (fun t => execB_refines G hn hroot R hR A fin cur t) tr
theorem execB_refines (G : Graph) (hn : NoCycle (csucc G)) (hroot : ThrowableRooted G) (R : Rules) (hR : R.Decides G)
    (A : Act) :
    ∀ (b : Block) (cur : Option Thrown) (tr : List Ev), execB G Cfg.fixed cur A b tr = Spec.Exc.execB R cur A b tr
  | .nil, cur, tr => by simp [execB, Spec.Exc.execB]
  | .cons s rest, cur, tr => by
    rw [execB, Spec.Exc.execB, exec_refines G hn hroot R hR A s cur tr]
    rcases hs : Spec.Exc.exec R cur A s tr with ⟨o, tr'⟩
    cases o <;> simp [execB_refines G hn hroot R hR A rest cur tr']
theorem execC_refines (G : Graph) (hn : NoCycle (csucc G)) (hroot : ThrowableRooted G) (R : Rules) (hR : R.Decides G)
    (A : Act) :
    ∀ (cs : Catches) (i k : Nat) (x : Thrown) (tr : List Ev),
      execC G Cfg.fixed A i k x cs tr = picked R.sub (handlers R A i cs) k x tr
  | .nil, i, k, x, tr => by simp [execC, handlers, picked, pick]
  | .cons tys b rest, i, k, x, tr => by
    rw [execC, handlers, picked, pick, clauseMatches_eq_any G hn hroot R hR]
    split
    · simp [execB_refines G hn hroot R hR A b (some x)]
    · rw [execC_refines G hn hroot R hR A rest i (k+1) x tr, picked]
end

/-- calls refine calls, at every level: the knot of `envAt` is tied the same way on both sides -/
theorem envAt_refines (G : Graph) (hn : NoCycle (csucc G)) (hroot : ThrowableRooted G) (R : Rules) (hR : R.Decides G)
    (fns : List Block) : ∀ n, envAt G Cfg.fixed fns n = Spec.Exc.envAt R fns n
  | 0 => by funext k tr; simp [envAt, Spec.Exc.envAt]
  | n+1 => by
    funext k tr
    rw [envAt, Spec.Exc.envAt, envAt_refines G hn hroot R hR fns n]
    cases fns[k]? with
    | some b => exact execB_refines G hn hroot R hR _ b none tr
    | none => rfl

/-! ### first matching clause -/

theorem execC_first (G : Graph) (hn : NoCycle (csucc G)) (hroot : ThrowableRooted G) (cfg : Cfg) (A : Act) (i : Nat) (x : Thrown)
    {cs : Catches} {k₀ k : Nat} {body : Block} (h : FirstMatch G x cs k₀ k body) (tr : List Ev) :
    execC G cfg A i k₀ x cs tr = execB G cfg (some x) A body (tr ++ [.caught A.lvl i k x]) := by
  induction h with
  | here hok => rw [execC, if_pos ((clauseMatches_iff G hn hroot _ x).2 hok)]
  | later hno _ ih =>
    rw [execC, if_neg (fun hm => hno ((clauseMatches_iff G hn hroot _ x).1 hm))]
    exact ih

theorem execC_none (G : Graph) (hn : NoCycle (csucc G)) (hroot : ThrowableRooted G) (cfg : Cfg) (A : Act) (i : Nat) (x : Thrown) :
    ∀ (cs : Catches) (k₀ : Nat), NoMatch G x cs → ∀ tr, execC G cfg A i k₀ x cs tr = (.thr x, tr)
  | .nil, _, _, tr => by simp [execC]
  | .cons tys b rest, k₀, h, tr => by
    rw [execC, if_neg (fun hm => h.1 ((clauseMatches_iff G hn hroot _ x).1 hm))]
    exact execC_none G hn hroot cfg A i x rest (k₀+1) h.2 tr

/-- every clause list either has a first matching clause or none at all -/
theorem first_or_none (G : Graph) (x : Thrown) : ∀ (cs : Catches) (k₀ : Nat),
    (∃ k body, FirstMatch G x cs k₀ k body) ∨ NoMatch G x cs
  | .nil, _ => Or.inr trivial
  | .cons tys b rest, k₀ => by
    by_cases h : ClauseOk G x tys
    · exact Or.inl ⟨k₀, b, .here h⟩
    · rcases first_or_none G x rest (k₀+1) with ⟨k, body, hf⟩ | hn
      · exact Or.inl ⟨k, body, .later h hf⟩
      · exact Or.inr ⟨h, hn⟩

end Proofs.Exc

namespace Proofs.Exc
open Model.Exc
open Model.Hier (Name Cls Graph getClass isClassValue R throwableName exceptionName errorName)
open Spec.Hier (IsA NoCycle csucc ThrowableOK)
open Spec.Exc (ThrowableRooted)

/-- decidable sufficient condition for `ThrowableRooted` on a concrete class table -/
def rootedB (G : Graph) : Bool :=
  G.classes.all (fun c =>
    (isClassValue G exceptionName c != .yes || isClassValue G throwableName c == .yes) &&
    (isClassValue G errorName c != .yes || isClassValue G throwableName c == .yes))

theorem throwableRooted_of_rootedB (G : Graph) (hn : NoCycle (csucc G)) (h : rootedB G = true) : ThrowableRooted G := by
  intro n c hc
  have hmem : c ∈ G.classes := by
    unfold getClass at hc
    exact List.mem_of_find?_eq_some hc
  have hc' := (List.all_eq_true.1 h) c hmem
  simp only [Bool.and_eq_true, Bool.or_eq_true, bne_iff_ne, ne_eq, beq_iff_eq] at hc'
  have key : ∀ t, isClassValue G t c = .yes ↔ IsA G c t := by
    intro t
    rcases Proofs.Hier.isClassValue_spec G hn t c with ⟨h1, h2⟩ | ⟨h1, h2⟩ <;> rw [h1] <;> simp [h2]
  constructor
  · intro hE
    rcases hc'.1 with h1 | h1
    · exact absurd ((key _).2 hE) h1
    · exact (key _).1 h1
  · intro hE
    rcases hc'.2 with h1 | h1
    · exact absurd ((key _).2 hE) h1
    · exact (key _).1 h1

/-- how `Program.GetValue` / the VM handler turn the end of a run into the end of the process -/
def endOf : Final → Model.Cli.End
  | .ok => .normal
  | .returned _ => .normal
  | .uncaught _ => .uncaught
  | .stray => .uncaught
  | .goPanic => .goPanic

end Proofs.Exc
