import Model.Ops
import Spec.Ops
import Proofs.Lemmas.Ops
/-! C03: the one loose comparison (`data.LooseCompare`) — totality, antisymmetry, and what each
operator reads off its result. -/
namespace Proofs.Ops
open Model.Ops

theorem Ord4.rev_rev (o : Ord4) : o.rev.rev = o := by cases o <;> rfl

theorem slt_asymm' (x y : BitVec 64) : BitVec.slt x y = true → BitVec.slt y x = false := by
  simp [BitVec.slt_eq_decide]; omega

theorem slt_connex (x y : BitVec 64) (h1 : BitVec.slt x y = false) (h2 : BitVec.slt y x = false) : x = y := by
  simp [BitVec.slt_eq_decide] at h1 h2
  apply BitVec.eq_of_toInt_eq; omega

theorem strLt_connex : ∀ (a b : Str), strLt a b = false → strLt b a = false → a = b
  | [], [], _, _ => rfl
  | [], _ :: _, h, _ => by simp [strLt] at h
  | _ :: _, [], _, h => by simp [strLt] at h
  | x :: xs, y :: ys, h1, h2 => by
    unfold strLt at h1 h2
    by_cases hxy : x < y
    · simp [hxy] at h1
    · by_cases hyx : y < x
      · simp [hyx] at h2
      · simp only [hxy, hyx, if_false] at h1 h2
        have : x = y := UInt8.le_antisymm (UInt8.not_lt.mp hyx) (UInt8.not_lt.mp hxy)
        rw [this, strLt_connex xs ys h1 h2]

theorem ordInt_rev (x y : BitVec 64) : ordInt y x = (ordInt x y).rev := by
  unfold ordInt
  have := slt_asymm' x y
  cases h1 : BitVec.slt x y <;> cases h2 : BitVec.slt y x <;> simp_all [Ord4.rev]

theorem ordStr_rev (x y : Str) : ordStr y x = (ordStr x y).rev := by
  unfold ordStr
  have := strLt_asymm x y
  cases h1 : strLt x y <;> cases h2 : strLt y x <;> simp_all [Ord4.rev]

theorem ordBool_rev (x y : Bool) : ordBool y x = (ordBool x y).rev := by
  cases x <;> cases y <;> rfl

section
variable {F : Type} (P : Prim F)

theorem ordFloat_rev (h_eq_symm : ∀ x y : F, P.eq x y = P.eq y x)
    (h_lt_asymm : ∀ x y : F, P.lt x y = true → P.lt y x = false) (x y : F) :
    ordFloat P y x = (ordFloat P x y).rev := by
  unfold ordFloat
  have := h_lt_asymm x y
  rw [h_eq_symm y x]
  cases h1 : P.lt x y <;> cases h2 : P.lt y x <;> cases h3 : P.eq x y <;> simp_all [Ord4.rev]

/-- the helper always answers when the truthiness table is well formed -/
theorem looseCompare_some {T : TruthTable} (hT : wf T = true) (a b : Val F) :
    ∃ o, looseCompare P T a b = some o := by
  have ha := wf_asBool P hT a
  have hb := wf_asBool P hT b
  cases a <;> cases b <;> simp [looseCompare, isNullOrBool, ha, hb]

/-- **antisymmetry of the one comparison**: swapping the operands reverses the result
(unordered stays unordered), given float `==` symmetric and float `<` asymmetric -/
theorem looseCompare_rev {T : TruthTable}
    (h_eq_symm : ∀ x y : F, P.eq x y = P.eq y x)
    (h_lt_asymm : ∀ x y : F, P.lt x y = true → P.lt y x = false) (a b : Val F) :
    looseCompare P T b a = (looseCompare P T a b).map Ord4.rev := by
  have hf := ordFloat_rev P h_eq_symm h_lt_asymm
  cases a <;> cases b <;>
    simp only [looseCompare, isNullOrBool, Option.map_some, Bool.or_false, Bool.or_true,
      if_true, if_false, Bool.false_eq_true, Ord4.rev_rev]
  all_goals first
    | rfl
    | exact congrArg some (ordInt_rev _ _)
    | exact congrArg some (ordStr_rev _ _)
    | exact congrArg some (hf _ _)
    | (cases valAsBool P T _ <;> cases valAsBool P T _ <;> simp only [Option.map_none, Option.map_some] <;>
        exact congrArg some (ordBool_rev _ _))

/-! ## what each operator reads off the result -/

/-- the IEEE facts that tie Go's four float comparisons `<`, `<=`, `==` (and their mirror images)
together; hypotheses of the refinement theorems, true of IEEE doubles -/
structure FloatOrder (P : Prim F) : Prop where
  eq_symm : ∀ x y : F, P.eq x y = P.eq y x
  lt_asymm : ∀ x y : F, P.lt x y = true → P.lt y x = false
  eq_not_lt : ∀ x y : F, P.eq x y = true → P.lt x y = false
  le_iff : ∀ x y : F, P.le x y = (P.lt x y || P.eq x y)

end

/-- a three-way result built from a strict order -/
def ord3 (p q : Bool) : Ord4 := if p then .lt else if q then .gt else .eq

theorem ord3_tests (p q : Bool) (h : p = true → q = false) :
    (ord3 p q).isLt = p ∧ (ord3 p q).isGt = q ∧ (ord3 p q).isEq = (!p && !q) ∧
    (ord3 p q).isLe = !q ∧ (ord3 p q).isGe = !p ∧
    (ord3 p q).toInt = (if p then BitVec.ofInt 64 (-1) else if q then 1#64 else 0#64) := by
  cases p <;> cases q <;> simp_all [ord3, Ord4.toInt, Ord4.isLt, Ord4.isGt, Ord4.isEq, Ord4.isLe, Ord4.isGe] <;> decide

theorem ordInt_eq (x y : BitVec 64) : ordInt x y = ord3 (BitVec.slt x y) (BitVec.slt y x) := rfl
theorem ordStr_eq (x y : Str) : ordStr x y = ord3 (strLt x y) (strLt y x) := rfl

theorem slt_irrefl (x : BitVec 64) : BitVec.slt x x = false := by simp [BitVec.slt_eq_decide]

theorem int_eq_test (x y : BitVec 64) : (!BitVec.slt x y && !BitVec.slt y x) = (x == y) := by
  by_cases h : x = y
  · subst h; simp [slt_irrefl]
  · have : ¬ (BitVec.slt x y = false ∧ BitVec.slt y x = false) := fun ⟨a, b⟩ => h (slt_connex x y a b)
    cases h1 : BitVec.slt x y <;> cases h2 : BitVec.slt y x <;> simp_all

theorem str_eq_test (x y : Str) : (!strLt x y && !strLt y x) = (x == y) := by
  by_cases h : x = y
  · subst h; simp [strLt_irrefl]
  · have : ¬ (strLt x y = false ∧ strLt y x = false) := fun ⟨a, b⟩ => h (strLt_connex x y a b)
    cases h1 : strLt x y <;> cases h2 : strLt y x <;> simp_all

theorem ordBool_eq_test (x y : Bool) : (ordBool x y).isEq = (x == y) := by
  cases x <;> cases y <;> rfl

section
variable {F : Type} (P : Prim F)

theorem ordFloat_tests (hF : FloatOrder P) (x y : F) :
    (ordFloat P x y).isLt = P.lt x y ∧ (ordFloat P x y).isGt = P.lt y x ∧
    (ordFloat P x y).isEq = P.eq x y ∧
    (ordFloat P x y).isLe = P.le x y ∧
    (ordFloat P x y).isGe = P.le y x ∧
    (ordFloat P x y).toInt = (if P.lt x y then BitVec.ofInt 64 (-1) else if P.lt y x then 1#64 else 0#64) := by
  have h1 := hF.lt_asymm x y
  have h2 := hF.eq_not_lt x y
  have h3 := hF.eq_not_lt y x
  rw [hF.le_iff x y, hF.le_iff y x, hF.eq_symm y x] at *
  unfold ordFloat
  cases hp : P.lt x y <;> cases hq : P.lt y x <;> cases he : P.eq x y <;>
    simp_all [Ord4.toInt, Ord4.isLt, Ord4.isGt, Ord4.isEq, Ord4.isLe, Ord4.isGe] <;> decide

/-- the integer and string sides of the documented order, in terms of the strict orders -/
theorem int_lt_test (x y : BitVec 64) : decide (x.toInt < y.toInt) = BitVec.slt x y := by
  rw [BitVec.slt_eq_decide]
theorem int_le_test (x y : BitVec 64) : decide (x.toInt ≤ y.toInt) = !BitVec.slt y x := by
  rw [BitVec.slt_eq_decide]
  by_cases h : x.toInt ≤ y.toInt
  · have : ¬ y.toInt < x.toInt := by omega
    simp [h, this]
  · have : y.toInt < x.toInt := by omega
    simp [h, this]

/-! ## the specification's "convert, then compare like with like" against the helper -/

theorem Ord4.rev_tests (o : Ord4) : o.rev.isLt = o.isGt ∧ o.rev.isLe = o.isGe := by
  cases o <;> exact ⟨rfl, rfl⟩

theorem Ord4.rev_tests' (o : Ord4) : o.rev.isGt = o.isLt ∧ o.rev.isGe = o.isLe := by
  cases o <;> exact ⟨rfl, rfl⟩

theorem Ord4.toInt_tests (o : Ord4) :
    o.toInt = (if o.isLt then BitVec.ofInt 64 (-1) else if o.isGt then 1#64 else 0#64) := by
  cases o <;> rfl

/-- on a pair of the same kind (or an int/float pair) the helper answers what the documented
same-kind rules say -/
theorem base_compare {T : TruthTable} (hT : wf T = true) (hF : FloatOrder P) (a b : Val F) :
    (∀ p, Spec.Ops.baseOrder P a b = some p →
      ∃ o, looseCompare P T a b = some o ∧ o.isLt = p.1 ∧ o.isLe = p.2) ∧
    (∀ e, Spec.Ops.baseEq P a b = some e → ∃ o, looseCompare P T a b = some o ∧ o.isEq = e) := by
  have ha := wf_asBool P hT a
  have hb := wf_asBool P hT b
  have hf := fun x y => ordFloat_tests P hF x y
  have hi := fun x y => ord3_tests (BitVec.slt x y) (BitVec.slt y x) (slt_asymm' x y)
  have hs := fun x y => ord3_tests (strLt x y) (strLt y x) (strLt_asymm x y)
  refine ⟨?_, ?_⟩ <;> intro p hp <;> cases a <;> cases b <;>
    simp [Spec.Ops.baseOrder, Spec.Ops.baseEq, Spec.Ops.toF] at hp <;> subst hp <;>
    simp [looseCompare, isNullOrBool, ha, hb, Spec.Ops.truthy, ordInt_eq, ordStr_eq, hf, hi, hs,
      int_lt_test, int_le_test, int_eq_test, str_eq_test, ordBool_eq_test] <;>
    (try (rename_i x y; cases x <;> cases y <;> decide)) <;> (try decide)

/-- the helper gives the same answer on a pair and on its documented conversion -/
theorem conv_compare {T : TruthTable} (hT : wf T = true) (hF : FloatOrder P) (a b x y : Val F)
    (h : Spec.Ops.conv P a b = some (x, y)) : looseCompare P T a b = looseCompare P T x y := by
  have ha := wf_asBool P hT a
  have hb := wf_asBool P hT b
  have hbool := fun v : Bool => wf_asBool P hT (Val.bool v : Val F)
  have hfr := ordFloat_rev P hF.eq_symm hF.lt_asymm
  cases a <;> cases b <;>
    simp only [Spec.Ops.conv, Spec.Ops.convNumStr, Spec.Ops.strNumber, Spec.Ops.numString, Spec.Ops.isIntVal,
      Spec.Ops.isNullOrBool, Bool.or_false, Bool.or_true, Bool.false_or, if_true, if_false, Bool.false_eq_true,
      Option.some.injEq, Prod.mk.injEq] at h
  case int.str n s =>
    cases hai : P.atoi s <;> cases hpi : P.parse s <;>
      simp only [hai, hpi, Option.map_some, Option.map_none, Option.some.injEq, Prod.mk.injEq] at h <;>
      obtain ⟨h1, h2⟩ := h <;> subst h1 <;> subst h2 <;>
      simp only [looseCompare, ordIntStr, ordFloatStr, hai, hpi] <;>
      first
        | rfl
        | exact (congrArg some (ordInt_rev _ _)).symm
        | exact (congrArg some (ordStr_rev _ _)).symm
        | exact (congrArg some (hfr _ _)).symm
  case float.str n s =>
    cases hai : P.atoi s <;> cases hpi : P.parse s <;>
      simp only [hai, hpi, Option.map_some, Option.map_none, Option.some.injEq, Prod.mk.injEq] at h <;>
      obtain ⟨h1, h2⟩ := h <;> subst h1 <;> subst h2 <;>
      simp only [looseCompare, ordIntStr, ordFloatStr, hai, hpi] <;>
      first
        | rfl
        | exact (congrArg some (ordInt_rev _ _)).symm
        | exact (congrArg some (ordStr_rev _ _)).symm
        | exact (congrArg some (hfr _ _)).symm
  case str.int s n =>
    cases hai : P.atoi s <;> cases hpi : P.parse s <;>
      simp only [hai, hpi, Option.map_some, Option.map_none, Option.some.injEq, Prod.mk.injEq] at h <;>
      obtain ⟨h1, h2⟩ := h <;> subst h1 <;> subst h2 <;>
      simp only [looseCompare, ordIntStr, ordFloatStr, hai, hpi] <;>
      first
        | rfl
        | exact (congrArg some (ordInt_rev _ _)).symm
        | exact (congrArg some (ordStr_rev _ _)).symm
        | exact (congrArg some (hfr _ _)).symm
  case str.float s n =>
    cases hai : P.atoi s <;> cases hpi : P.parse s <;>
      simp only [hai, hpi, Option.map_some, Option.map_none, Option.some.injEq, Prod.mk.injEq] at h <;>
      obtain ⟨h1, h2⟩ := h <;> subst h1 <;> subst h2 <;>
      simp only [looseCompare, ordIntStr, ordFloatStr, hai, hpi] <;>
      first
        | rfl
        | exact (congrArg some (ordInt_rev _ _)).symm
        | exact (congrArg some (ordStr_rev _ _)).symm
        | exact (congrArg some (hfr _ _)).symm
  all_goals first
    | (obtain ⟨h1, h2⟩ := h; subst h1; subst h2;
       simp [looseCompare, isNullOrBool, ha, hb, hbool, Spec.Ops.truthy]; done)
    | (obtain ⟨h1, h2⟩ := h; subst h1; subst h2; rfl)
    | (obtain ⟨h1, h2⟩ := h; subst h1; subst h2;
       simp [looseCompare, isNullOrBool, ha, hb, hbool, Spec.Ops.truthy, ordBool]; done)

end
end Proofs.Ops
