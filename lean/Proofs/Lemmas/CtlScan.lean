import Model.CtlScan
/-! lemmas about body scans (C02) -/
namespace Proofs.CtlScan
open Spec.Ctl (Val FName aget aset)
open Model.Ctl Model.CtlScan

mutual
theorem scanSt_sound (o : List String) : ∀ t, scanSt o t = true → hasSt t = true
  | .hit, _ => rfl
  | .other, h => by simp [scanSt] at h
  | .node ps, h => by simp only [scanSt] at h; simp only [hasSt]; exact scanParts_sound o ps h
theorem scanParts_sound (o : List String) : ∀ t, scanParts o t = true → hasParts t = true
  | .nil, h => by simp [scanParts] at h
  | .cons f b rest, h => by
    simp only [scanParts, Bool.or_eq_true, Bool.and_eq_true] at h
    simp only [hasParts, Bool.or_eq_true]
    rcases h with ⟨_, h⟩ | h
    · exact Or.inl (scanBlk_sound o b h)
    · exact Or.inr (scanParts_sound o rest h)
theorem scanBlk_sound (o : List String) : ∀ t, scanBlk o t = true → hasBlk t = true
  | .nil, h => by simp [scanBlk] at h
  | .cons s rest, h => by
    simp only [scanBlk, Bool.or_eq_true] at h
    simp only [hasBlk, Bool.or_eq_true]
    rcases h with h | h
    · exact Or.inl (scanSt_sound o s h)
    · exact Or.inr (scanBlk_sound o rest h)
end

mutual
theorem scanSt_complete (o : List String) : ∀ t, (∀ f ∈ fieldsSt t, f ∈ o) → scanSt o t = hasSt t
  | .hit, _ => rfl
  | .other, _ => rfl
  | .node ps, h => by simp only [scanSt, hasSt]; exact scanParts_complete o ps (by simpa [fieldsSt] using h)
theorem scanParts_complete (o : List String) : ∀ t, (∀ f ∈ fieldsParts t, f ∈ o) → scanParts o t = hasParts t
  | .nil, _ => rfl
  | .cons f b rest, h => by
    simp only [fieldsParts, List.mem_cons, List.mem_append] at h
    have hf : f ∈ o := h f (Or.inl rfl)
    have hb := scanBlk_complete o b (fun x hx => h x (Or.inr (Or.inl hx)))
    have hr := scanParts_complete o rest (fun x hx => h x (Or.inr (Or.inr hx)))
    simp [scanParts, hasParts, hf, hb, hr]
theorem scanBlk_complete (o : List String) : ∀ t, (∀ f ∈ fieldsBlk t, f ∈ o) → scanBlk o t = hasBlk t
  | .nil, _ => rfl
  | .cons s rest, h => by
    simp only [fieldsBlk, List.mem_append] at h
    have hs := scanSt_complete o s (fun x hx => h x (Or.inl hx))
    have hr := scanBlk_complete o rest (fun x hx => h x (Or.inr hx))
    simp [scanBlk, hasBlk, hs, hr]
end

/-- the smallest body a scan that does not open `f` gets wrong: the construct alone inside `f` -/
def missBody (f : String) : Blk := .cons (.node (.cons f (.cons .hit .nil) .nil)) .nil

theorem missBody_fields (f : String) : fieldsBlk (missBody f) = [f] := by
  simp [missBody, fieldsBlk, fieldsSt, fieldsParts]

theorem missBody_has (f : String) : hasBlk (missBody f) = true := by
  simp [missBody, hasBlk, hasSt, hasParts]

theorem missBody_scan (o : List String) (f : String) (h : f ∉ o) : scanBlk o (missBody f) = false := by
  simp [missBody, scanBlk, scanSt, scanParts, h]

theorem mem_mustOpen {containers : List String} {name c : String} :
    c ∈ mustOpen containers name ↔ c ∈ containers ∧ c ∉ notInFunctionBody ∧ (name, c) ∉ knownUnopened := by
  simp [mustOpen, List.mem_filter]

end Proofs.CtlScan
