import Model.CtlTable
/-! lemmas about clause-list dispatch through a table (`Model.CtlTable`) -/
namespace Proofs.CtlTable
open Model.CtlTable

theorem scan_none_iff (ls : List Nat) (k : Nat) : scanDispatch ls k = none ↔ k ∉ ls := by
  induction ls with
  | nil => simp [scanDispatch]
  | cons l ls ih =>
    by_cases h : l = k
    · simp [scanDispatch, h]
    · have h' : ¬ k = l := fun e => h e.symm
      simp [scanDispatch, h, h', ih]

theorem last_none_iff (ls : List Nat) (k : Nat) : lastDispatch ls k = none ↔ k ∉ ls := by
  induction ls with
  | nil => simp [lastDispatch]
  | cons l ls ih =>
    rw [lastDispatch]
    cases hl : lastDispatch ls k with
    | some j =>
      have hk : k ∈ ls := by
        apply Classical.byContradiction
        intro hn
        rw [ih.mpr hn] at hl
        cases hl
      simp [hk]
    | none =>
      have hk : k ∉ ls := ih.mp hl
      by_cases h : l = k
      · simp [h]
      · have h' : ¬ k = l := fun e => h e.symm
        simp [h, h', hk]

theorem scan_eq_some_iff (ls : List Nat) (k i : Nat) :
    scanDispatch ls k = some i ↔ ls[i]? = some k ∧ ∀ j, j < i → ls[j]? ≠ some k := by
  induction ls generalizing i with
  | nil => simp [scanDispatch]
  | cons l ls ih =>
    by_cases h : l = k
    · cases i with
      | zero => simp [scanDispatch, h]
      | succ i =>
        simp only [scanDispatch, h, if_true]
        constructor
        · intro e; cases e
        · intro ⟨_, hj⟩
          exact absurd (by simp) (hj 0 (Nat.succ_pos i))
    · cases i with
      | zero => simp [scanDispatch, h]
      | succ i =>
        simp only [scanDispatch, h, if_false, List.getElem?_cons_succ]
        constructor
        · intro e
          have e' : scanDispatch ls k = some i := by
            cases hs : scanDispatch ls k with
            | none => rw [hs] at e; cases e
            | some x => rw [hs] at e; simp at e; rw [e]
          obtain ⟨h1, h2⟩ := (ih i).mp e'
          refine ⟨h1, fun j hj => ?_⟩
          cases j with
          | zero => simp [h]
          | succ j => simpa using h2 j (Nat.lt_of_succ_lt_succ hj)
        · intro ⟨h1, h2⟩
          have e' : scanDispatch ls k = some i :=
            (ih i).mpr ⟨h1, fun j hj => by simpa using h2 (j + 1) (Nat.succ_lt_succ hj)⟩
          simp [e']

theorem firstWins_iff (ls : List Nat) (t : Table) : FirstWins ls t ↔ ∀ k, t k = scanDispatch ls k := by
  constructor
  · intro h k
    have hk := h k
    cases ht : t k with
    | some i => rw [ht] at hk; exact ((scan_eq_some_iff ls k i).mpr hk).symm
    | none => rw [ht] at hk; exact ((scan_none_iff ls k).mpr hk).symm
  · intro h k
    rw [h k]
    cases hs : scanDispatch ls k with
    | some i => exact (scan_eq_some_iff ls k i).mp hs
    | none => exact (scan_none_iff ls k).mp hs

theorem buildBy_guarded (ls : List Nat) (i : Nat) (t : Table) (k : Nat) :
    buildBy true ls i t k = match t k with
      | some j => some j
      | none => (scanDispatch ls k).map (· + i) := by
  induction ls generalizing i t with
  | nil =>
    simp only [buildBy]
    cases t k <;> simp [scanDispatch]
  | cons l ls ih =>
    rw [buildBy, ih]
    by_cases hl : (t l).isSome
    · simp only [Bool.true_and, hl, if_true]
      cases htk : t k with
      | some j => rfl
      | none =>
        have : l ≠ k := by intro e; subst e; rw [htk] at hl; cases hl
        simp only [scanDispatch, this, if_false]
        cases scanDispatch ls k <;> simp [Nat.add_assoc, Nat.add_comm 1 i]
    · simp only [Bool.true_and, hl, Bool.false_eq_true, if_false]
      by_cases h : l = k
      · subst h
        have : t l = none := by cases htl : t l <;> simp [htl] at hl ⊢
        simp [Table.set, this, scanDispatch]
      · have h' : ¬ k = l := fun e => h e.symm
        simp only [Table.set, h', if_false, scanDispatch, h]
        cases t k with
        | some j => rfl
        | none => cases scanDispatch ls k <;> simp [Nat.add_assoc, Nat.add_comm 1 i]

theorem buildBy_overwrite (ls : List Nat) (i : Nat) (t : Table) (k : Nat) :
    buildBy false ls i t k = match lastDispatch ls k with
      | some j => some (j + i)
      | none => t k := by
  induction ls generalizing i t with
  | nil => simp [buildBy, lastDispatch]
  | cons l ls ih =>
    rw [buildBy, ih, lastDispatch]
    cases lastDispatch ls k with
    | some j => simp [Nat.add_assoc, Nat.add_comm 1 i]
    | none =>
      by_cases h : l = k
      · simp [Table.set, h]
      · have h' : ¬ k = l := fun e => h e.symm
        simp [Table.set, h, h']

theorem last_eq_scan_iff_nodup (ls : List Nat) : (∀ k, lastDispatch ls k = scanDispatch ls k) ↔ ls.Nodup := by
  induction ls with
  | nil => simp [lastDispatch, scanDispatch]
  | cons l ls ih =>
    rw [List.nodup_cons]
    constructor
    · intro h
      have hl : l ∉ ls := by
        have := h l
        rw [lastDispatch] at this
        cases hd : lastDispatch ls l with
        | none => exact (last_none_iff ls l).mp hd
        | some j => rw [hd] at this; simp [scanDispatch] at this
      refine ⟨hl, ih.mp fun k => ?_⟩
      by_cases hk : l = k
      · subst hk
        rw [(last_none_iff ls l).mpr hl, (scan_none_iff ls l).mpr hl]
      · have := h k
        rw [lastDispatch] at this
        simp only [scanDispatch, hk, if_false] at this
        cases hd : lastDispatch ls k with
        | none =>
          rw [hd] at this
          cases hs : scanDispatch ls k with
          | none => rfl
          | some x => rw [hs] at this; simp at this
        | some j =>
          rw [hd] at this
          cases hs : scanDispatch ls k with
          | none => rw [hs] at this; simp at this
          | some x => rw [hs] at this; simp at this; rw [this]
    · intro ⟨hl, hn⟩ k
      have hall := ih.mpr hn k
      rw [lastDispatch, hall]
      by_cases hk : l = k
      · subst hk
        simp [(scan_none_iff ls l).mpr hl, scanDispatch]
      · simp only [scanDispatch, hk, if_false]
        cases scanDispatch ls k <;> simp

theorem scanEffects_nil_iff (cs : List Clause) (i k : Nat) :
    scanEffects cs i k = [] ↔
      ∀ (n : Nat) (c : Clause), cs[n]? = some c →
        (∀ j : Nat, j < n → (cs[j]?.map Clause.key) ≠ some k) → c.effect = false := by
  induction cs generalizing i with
  | nil => simp [scanEffects]
  | cons c cs ih =>
    simp only [scanEffects, List.append_eq_nil_iff]
    constructor
    · intro ⟨h1, h2⟩ n d hn hpre
      cases n with
      | zero =>
        simp at hn; subst hn
        cases he : c.effect with
        | false => rfl
        | true => simp [he] at h1
      | succ n =>
        have hk : ¬ c.key = k := by
          intro e
          exact hpre 0 (Nat.succ_pos n) (by simp [e])
        simp only [hk, if_false] at h2
        refine (ih (i + 1)).mp h2 n d (by simpa using hn) fun j hj => ?_
        simpa using hpre (j + 1) (Nat.succ_lt_succ hj)
    · intro h
      refine ⟨?_, ?_⟩
      · have := h 0 c (by simp) (fun j hj => absurd hj (Nat.not_lt_zero j))
        simp [this]
      · by_cases hk : c.key = k
        · simp [hk]
        · simp only [hk, if_false]
          refine (ih (i + 1)).mpr fun n d hn hpre => ?_
          refine h (n + 1) d (by simpa using hn) fun j hj => ?_
          cases j with
          | zero => simp [hk]
          | succ j => simpa using hpre j (Nat.lt_of_succ_lt_succ hj)

end Proofs.CtlTable
