import Proofs.Lemmas.HierIs
import Model.HierShape
/-! C08: every well-shaped subtype decider (name test, a direct test and an interface walk over the WHOLE implements list,
then the parent chain examined by a well-shaped decider) decides `IsA` — whatever interface walk it calls, as long as that
walk decides reachability. Hence any two well-shaped deciders agree. -/
namespace Proofs.HierShape
open Model.Hier Spec.Hier Model.HierShape Proofs.Hier

structure DOK (D : Decider) : Prop where
  nameTest : D.nameTest = true
  direct : ∃ L ∈ D.impls, L.direct = true
  walks : ∃ L ∈ D.impls, L.walk ≠ "" ∧ L.argsOK = true
  all : ∀ L ∈ D.impls, L.onMiss = .next ∧ (L.walk = "" ∨ L.argsOK = true)
  chain : (∀ s, D.chain ≠ .other s) ∧ D.chain ≠ .none

theorem dok_of_ok {D : Decider} (h : D.ok = true) : DOK D := by
  simp only [Decider.ok, Bool.and_eq_true, List.any_eq_true, List.all_eq_true, Bool.or_eq_true, beq_iff_eq,
    ImplLoop.walks, bne_iff_ne, ne_eq] at h
  obtain ⟨⟨⟨⟨h1, h2⟩, h3⟩, h4⟩, h5⟩ := h
  refine ⟨h1, h2, ?_, h4, ?_⟩
  · obtain ⟨L, hL, a, b⟩ := h3; exact ⟨L, hL, a, b⟩
  · cases hc : D.chain <;> rw [hc] at h5 <;> simp at h5 ⊢

/-- the interface walk `w` answers for every implemented name, soundly, and completely for names other than the target (the
target itself is what the direct test is for: `checkClassIs` loads the interface before it walks, so an undeclared name that
IS the target is only found by the direct test) -/
def WalkDecides (G : Graph) (t : Name) (w : Name → Name → Option Bool) : Prop :=
  ∀ s, ∃ b, w s t = some b ∧ (b = true → IReach G s t) ∧ (s ≠ t → IReach G s t → b = true)

theorem scanLoop_spec (G : Graph) (t : Name) (walk : String → Name → Name → Option Bool) (L : ImplLoop)
    (hL : L.onMiss = .next ∧ (L.walk = "" ∨ L.argsOK = true)) (hw : L.walk ≠ "" → WalkDecides G t (walk L.walk)) :
    ∀ impl, (scanLoop L walk t impl = .hit ∧ ∃ s ∈ impl, IReach G s t) ∨
      (scanLoop L walk t impl = .dry ∧ ∀ s ∈ impl, ¬ (L.direct = true ∧ t = s) ∧ (L.walk ≠ "" → ¬ (s ≠ t ∧ IReach G s t))) := by
  intro impl
  induction impl with
  | nil => exact Or.inr ⟨rfl, by simp⟩
  | cons s r ih =>
    rw [scanLoop]
    by_cases hd : L.direct = true ∧ t = s
    · have : (L.direct && t == s) = true := by simp [hd.1, hd.2]
      rw [if_pos this]
      exact Or.inl ⟨rfl, s, by simp, hd.2 ▸ IReach.refl _⟩
    · have : ¬ (L.direct && t == s) = true := by simpa using hd
      rw [if_neg this]
      by_cases hwe : L.walk = ""
      · have : (L.walk == "") = true := by simp [hwe]
        rw [if_pos this, hL.1]
        rcases ih with ⟨h1, x, hx, hr⟩ | ⟨h1, h2⟩
        · exact Or.inl ⟨h1, x, List.mem_cons_of_mem _ hx, hr⟩
        · refine Or.inr ⟨h1, fun y hy => ?_⟩
          rcases List.mem_cons.1 hy with rfl | hy
          · exact ⟨hd, fun h => absurd hwe h⟩
          · exact h2 y hy
      · have hne : ¬ (L.walk == "") = true := by simpa using hwe
        rw [if_neg hne]
        have hargs : L.argsOK = true := by rcases hL.2 with h | h; exact absurd h hwe; exact h
        rw [if_pos hargs]
        obtain ⟨b, hb, hsound, hcomplete⟩ := hw hwe s
        rw [hb]
        cases b with
        | true => exact Or.inl ⟨rfl, s, by simp, hsound rfl⟩
        | false =>
          simp only [hL.1]
          rcases ih with ⟨h1, x, hx, hr⟩ | ⟨h1, h2⟩
          · exact Or.inl ⟨h1, x, List.mem_cons_of_mem _ hx, hr⟩
          · refine Or.inr ⟨h1, fun y hy => ?_⟩
            rcases List.mem_cons.1 hy with rfl | hy
            · refine ⟨hd, fun _ hh => ?_⟩
              have := hcomplete hh.1 hh.2
              cases this
            · exact h2 y hy

theorem scanAll_spec (G : Graph) (t : Name) (walk : String → Name → Name → Option Bool) (impl : List Name) :
    ∀ (Ls : List ImplLoop), (∀ L ∈ Ls, L.onMiss = .next ∧ (L.walk = "" ∨ L.argsOK = true)) →
      (∀ L ∈ Ls, L.walk ≠ "" → WalkDecides G t (walk L.walk)) →
      (scanAll walk t impl Ls = .hit ∧ ∃ s ∈ impl, IReach G s t) ∨
      (scanAll walk t impl Ls = .dry ∧ ∀ L ∈ Ls, scanLoop L walk t impl = .dry) := by
  intro Ls
  induction Ls with
  | nil => intro _ _; exact Or.inr ⟨rfl, by simp⟩
  | cons L r ih =>
    intro hall hw
    rw [scanAll]
    rcases scanLoop_spec G t walk L (hall L (by simp)) (hw L (by simp)) impl with ⟨h1, h2⟩ | ⟨h1, _⟩
    · rw [h1]; exact Or.inl ⟨rfl, h2⟩
    · rw [h1]
      rcases ih (fun X hX => hall X (List.mem_cons_of_mem _ hX)) (fun X hX => hw X (List.mem_cons_of_mem _ hX)) with
        ⟨g1, g2⟩ | ⟨g1, g2⟩
      · exact Or.inl ⟨g1, g2⟩
      · refine Or.inr ⟨g1, fun X hX => ?_⟩
        rcases List.mem_cons.1 hX with rfl | hX
        · exact h1
        · exact g2 X hX

/-- what a well-shaped decider does with one class: hit exactly when the class is the target or implements an interface that
reaches it; it never halts, never runs out of fuel -/
theorem visitD_spec {D : Decider} (h : DOK D) (G : Graph) (t : Name) (walk : String → Name → Name → Option Bool)
    (hw : ∀ L ∈ D.impls, L.walk ≠ "" → WalkDecides G t (walk L.walk)) (c : Cls) :
    (visitD D walk t c = .hit ∧ HitSpec G t c) ∨ (visitD D walk t c = .dry ∧ ¬ HitSpec G t c) := by
  unfold visitD
  rw [h.nameTest]
  by_cases hn : t = c.name
  · simp only [Bool.true_and, beq_iff_eq, hn, if_true]
    exact Or.inl ⟨trivial, Or.inl rfl⟩
  · have : ¬ (true && t == c.name) = true := by simpa using hn
    rw [if_neg this]
    rcases scanAll_spec G t walk c.impl D.impls h.all hw with ⟨h1, s, hs, hr⟩ | ⟨h1, h2⟩
    · exact Or.inl ⟨h1, Or.inr ⟨s, hs, hr⟩⟩
    · refine Or.inr ⟨h1, ?_⟩
      rintro (he | ⟨s, hs, hr⟩)
      · exact hn he
      · by_cases hst : s = t
        · obtain ⟨L, hL, hd⟩ := h.direct
          rcases scanLoop_spec G t walk L (h.all L hL) (hw L hL) c.impl with ⟨g1, _⟩ | ⟨_, g2⟩
          · rw [h2 L hL] at g1; cases g1
          · exact (g2 s hs).1 ⟨hd, hst.symm⟩
        · obtain ⟨L, hL, hwn, _⟩ := h.walks
          rcases scanLoop_spec G t walk L (h.all L hL) (hw L hL) c.impl with ⟨g1, _⟩ | ⟨_, g2⟩
          · rw [h2 L hL] at g1; cases g1
          · exact (g2 s hs).2 hwn ⟨hst, hr⟩

/-- the chain part of a well-shaped decider -/
theorem climbD_spec {D : Decider} (h : DOK D) (G : Graph) (t : Name) (walk : String → Name → Name → Option Bool)
    (hw : ∀ L ∈ D.impls, L.walk ≠ "" → WalkDecides G t (walk L.walk)) (miss : R) :
    ∀ f ext, climbD D walk G t miss f ext = .fuel ∨
      (climbD D walk G t miss f ext = .yes ∧ AboveIsA G t ext) ∨
      ((climbD D walk G t miss f ext = .no ∨ climbD D walk G t miss f ext = miss) ∧ ¬ AboveIsA G t ext) := by
  intro f
  induction f with
  | zero =>
    intro ext
    cases ext with
    | none =>
      refine Or.inr (Or.inr ⟨Or.inl (by simp [climbD]), ?_⟩)
      rintro ⟨p, d, hp, _⟩; cases hp
    | some e => exact Or.inl (by simp [climbD])
  | succ f ih =>
    intro ext
    cases ext with
    | none =>
      refine Or.inr (Or.inr ⟨Or.inl (by simp [climbD]), ?_⟩)
      rintro ⟨p, d, hp, _⟩; cases hp
    | some e =>
      rw [climbD]
      cases hc : getClass G e with
      | none =>
        refine Or.inr (Or.inr ⟨Or.inr rfl, ?_⟩)
        rintro ⟨p, d, hp, hd, _⟩
        cases hp; rw [hc] at hd; cases hd
      | some c =>
        simp only
        rcases visitD_spec h G t walk hw c with ⟨hv, hh⟩ | ⟨hv, hh⟩
        · rw [hv]
          exact Or.inr (Or.inl ⟨rfl, e, c, rfl, hc, (isA_iff G c t).2 (Or.inl hh)⟩)
        · rw [hv]
          simp only
          have key : AboveIsA G t (some e) ↔ AboveIsA G t c.ext := by
            constructor
            · rintro ⟨p, d, hp, hd, hr⟩
              cases hp; rw [hc] at hd; cases hd
              rcases (isA_iff G _ t).1 hr with h' | h'
              · exact absurd h' hh
              · exact h'
            · intro h'
              exact ⟨e, c, rfl, hc, (isA_iff G c t).2 (Or.inr h')⟩
          rcases ih c.ext with h1 | ⟨h1, h2⟩ | ⟨h1, h2⟩
          · exact Or.inl h1
          · exact Or.inr (Or.inl ⟨h1, key.2 h2⟩)
          · exact Or.inr (Or.inr ⟨h1, fun ha => h2 (key.1 ha)⟩)

/-- the chain loop of a decider never runs out of fuel on an acyclic class graph: it is a `walkUp` -/
theorem climbD_fuel {D : Decider} (h : DOK D) (G : Graph) (hn : NoCycle (csucc G)) (t : Name)
    (walk : String → Name → Name → Option Bool)
    (hw : ∀ L ∈ D.impls, L.walk ≠ "" → WalkDecides G t (walk L.walk)) (miss : R) (hm : miss ≠ .fuel) (ext : Option Name) :
    climbD D walk G t miss (classFuel G) ext ≠ .fuel := by
  -- the same walk as a `walkUp` whose visit never fails
  let visit : Cls → Option (Option Unit) := fun c =>
    match visitD D walk t c with
    | .hit => some (some ())
    | _ => some none
  have hv : ∀ c, visit c ≠ none := by
    intro c; simp only [visit]; split <;> simp
  have eq : ∀ f e, climbD D walk G t miss f e = .fuel → walkUp G visit f e = .fuel := by
    intro f
    induction f with
    | zero =>
      intro e
      cases e with
      | none => simp [climbD]
      | some e => simp [walkUp]
    | succ f ih =>
      intro e
      cases e with
      | none => simp [climbD]
      | some e =>
        rw [climbD, walkUp]
        cases hc : getClass G e with
        | none => simp only; intro h'; exact absurd h' hm
        | some c =>
          simp only
          rcases visitD_spec h G t walk hw c with ⟨hvd, _⟩ | ⟨hvd, _⟩
          · rw [hvd]; simp
          · have : visit c = some none := by simp only [visit, hvd]
            rw [hvd, this]
            exact ih c.ext
  intro hf
  exact walkUp_no_fuel G hn visit hv ext (eq _ _ hf)

/-- **a well-shaped decider decides `IsA`** on every hierarchy whose extends chain is acyclic: `yes` exactly when the object is
a `t`; otherwise `no`, or `miss` when a parent class on the way cannot be loaded -/
theorem decideD_spec {D Dc : Decider} (hD : DOK D) (hDc : DOK Dc) (G : Graph) (hn : NoCycle (csucc G)) (t : Name)
    (walk : String → Name → Name → Option Bool)
    (hw : ∀ L, L ∈ D.impls ∨ L ∈ Dc.impls → L.walk ≠ "" → WalkDecides G t (walk L.walk))
    (miss : R) (hm : miss ≠ .fuel) (c : Cls) :
    (IsA G c t → decideD D Dc walk G t miss c = .yes) ∧
    (¬ IsA G c t → decideD D Dc walk G t miss c = .no ∨ decideD D Dc walk G t miss c = miss) := by
  unfold decideD
  rcases visitD_spec hD G t walk (fun L hL => hw L (Or.inl hL)) c with ⟨hv, hh⟩ | ⟨hv, hh⟩
  · rw [hv]
    exact ⟨fun _ => rfl, fun hna => absurd ((isA_iff G c t).2 (Or.inl hh)) hna⟩
  · rw [hv]
    simp only
    have hcl := climbD_spec hDc G t walk (fun L hL => hw L (Or.inr hL)) miss (classFuel G) c.ext
    have hfu := climbD_fuel hDc G hn t walk (fun L hL => hw L (Or.inr hL)) miss hm c.ext
    have hch := hD.chain
    have body : (IsA G c t → climbD Dc walk G t miss (classFuel G) c.ext = .yes) ∧
        (¬ IsA G c t → climbD Dc walk G t miss (classFuel G) c.ext = .no ∨
          climbD Dc walk G t miss (classFuel G) c.ext = miss) := by
      rcases hcl with h1 | ⟨h1, h2⟩ | ⟨h1, h2⟩
      · exact absurd h1 hfu
      · exact ⟨fun _ => h1, fun hna => absurd ((isA_iff G c t).2 (Or.inr h2)) hna⟩
      · refine ⟨fun ha => ?_, fun _ => h1⟩
        rcases (isA_iff G c t).1 ha with h' | h'
        · exact absurd h' hh
        · exact absurd h' h2
    cases hc : D.chain with
    | none => exact absurd hc hch.2
    | other s => exact absurd hc (hch.1 s)
    | call f => exact body
    | loop => exact body
    | recurse => exact body

/-- any two well-shaped deciders give the same answer (with a parent that cannot be loaded read as `no` by both) -/
theorem deciders_agree {D Dc D' Dc' : Decider} (h1 : DOK D) (h2 : DOK Dc) (h3 : DOK D') (h4 : DOK Dc') (G : Graph)
    (hn : NoCycle (csucc G)) (t : Name) (walk walk' : String → Name → Name → Option Bool)
    (hw : ∀ L, L ∈ D.impls ∨ L ∈ Dc.impls → L.walk ≠ "" → WalkDecides G t (walk L.walk))
    (hw' : ∀ L, L ∈ D'.impls ∨ L ∈ Dc'.impls → L.walk ≠ "" → WalkDecides G t (walk' L.walk)) (c : Cls) :
    decideD D Dc walk G t .no c = decideD D' Dc' walk' G t .no c := by
  obtain ⟨a1, a2⟩ := decideD_spec h1 h2 G hn t walk hw .no (by simp) c
  obtain ⟨b1, b2⟩ := decideD_spec h3 h4 G hn t walk' hw' .no (by simp) c
  by_cases hi : IsA G c t
  · rw [a1 hi, b1 hi]
  · have x := a2 hi
    have y := b2 hi
    simp only [or_self] at x y
    rw [x, y]

end Proofs.HierShape
