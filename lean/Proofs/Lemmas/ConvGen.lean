import Proofs.Lemmas.Conv
/-!
Lemmas for the generic converter `utils.Convert[S]` / `utils.ConvertFromIndex[S]` (C17):
well-formedness of the regenerated clause tables and its consequences.
-/
namespace Proofs.Conv
open Model.Conv Spec.Conv

inductive Src | int | float | bool | str
  deriving DecidableEq, Repr

def Src.of : SVal → Option Src
  | .int _ => some .int
  | .float _ => some .float
  | .bool _ => some .bool
  | .str _ => some .str
  | .null => none

/-- a clause is well typed for its source class and asserts back the type it was selected for -/
def genArmOK (src : Src) (a : GenArm) : Bool :=
  a.exprTy == a.caseTy &&
  match src, a.form with
  | _, .err => true
  | .int, .cast => a.exprTy.isInt || a.exprTy.isFloat
  | .int, .narrow => a.exprTy.isInt
  | .int, .sprintf => a.exprTy == .string
  | .int, .ne0 => a.exprTy == .bool
  | .float, .cast => a.exprTy.isInt || a.exprTy.isFloat
  | .float, .sprintf => a.exprTy == .string
  | .float, .ne0 => a.exprTy == .bool
  | .bool, .boolConst => a.exprTy.isInt || a.exprTy.isFloat || a.exprTy == .string
  | .str, .ident => a.exprTy == .string
  | .str, .parseBool => a.exprTy == .bool
  | _, _ => false

def GenWF (g : GenTables) : Bool :=
  g.fromInt.all (genArmOK .int) && g.fromFloat.all (genArmOK .float) &&
  g.fromBool.all (genArmOK .bool) && g.fromStr.all (genArmOK .str)

def sizedInts : List Kind := [.int8, .int16, .int32, .int64, .uint, .uint8, .uint16, .uint32, .uint64]

/-- every integer type other than `int` is served by a range-checked clause -/
def GenIntChecked (g : GenTables) : Bool :=
  sizedInts.all fun k =>
    match g.fromInt.find? (fun a => a.caseTy == k) with
    | some a => a.form == .narrow
    | none => false

def genExact (g : GenTables) : Bool := GenWF g && GenIntChecked g

theorem forVal_ok {g : GenTables} (h : GenWF g = true) (v : SVal) (s : Src) (hs : Src.of v = some s)
    {a : GenArm} (ha : a ∈ g.forVal v) : genArmOK s a = true := by
  unfold GenWF at h
  simp only [Bool.and_eq_true, List.all_eq_true] at h
  obtain ⟨⟨⟨h1, h2⟩, h3⟩, h4⟩ := h
  cases v <;> simp [Src.of] at hs <;> subst hs <;> simp [GenTables.forVal] at ha
  · exact h3 a ha
  · exact h1 a ha
  · exact h2 a ha
  · exact h4 a ha

theorem castP_int_some (pr : Prim) (dst : Kind) (n : Int) (h : (dst.isInt || dst.isFloat) = true) :
    ∃ p, castP pr .int dst (.int n) = some p := by
  cases dst <;> simp [castP, Kind.isInt, Kind.isFloat, Kind.intRange] at h ⊢

theorem castP_flt_some (pr : Prim) (dst : Kind) (f : F) (h : (dst.isInt || dst.isFloat) = true) :
    ∃ p, castP pr .float64 dst (.flt f) = some p := by
  cases dst <;> simp [castP, Kind.isInt, Kind.isFloat, Kind.intRange] at h ⊢

/-- a well-typed clause computes a payload or reports an error -/
theorem genValue_ok (pr : Prim) (v : SVal) (s : Src) (hs : Src.of v = some s) (a : GenArm)
    (h : genArmOK s a = true) :
    (∃ p, genValue pr a v = .ok p) ∨ (∃ e, genValue pr a v = .throw e) := by
  unfold genArmOK at h
  simp only [Bool.and_eq_true, beq_iff_eq] at h
  obtain ⟨_, h⟩ := h
  cases v with
  | null => simp [Src.of] at hs
  | int n =>
    simp [Src.of] at hs; subst hs
    cases hf : a.form <;> rw [hf] at h <;> simp at h
    · obtain ⟨p, hp⟩ := castP_int_some pr a.exprTy n (by simpa using h)
      left; exact ⟨p, by simp [genValue, hf, hp]⟩
    · simp only [genValue, hf]; split
      · left; exact ⟨_, rfl⟩
      · right; exact ⟨_, rfl⟩
    · left; simp [genValue, hf]
    · left; simp [genValue, hf]
    · right; simp [genValue, hf]
  | float f =>
    simp [Src.of] at hs; subst hs
    cases hf : a.form <;> rw [hf] at h <;> simp at h
    · obtain ⟨p, hp⟩ := castP_flt_some pr a.exprTy f (by simpa using h)
      left; exact ⟨p, by simp [genValue, hf, hp]⟩
    · left; simp [genValue, hf]
    · left; simp [genValue, hf]
    · right; simp [genValue, hf]
  | bool b =>
    simp [Src.of] at hs; subst hs
    cases hf : a.form <;> rw [hf] at h <;> simp at h
    · left
      simp only [genValue, hf]
      rcases h with (h | h) | h
      · simp [h]
      · by_cases hi : a.exprTy.isInt = true
        · simp [hi]
        · simp [hi, h]
      · simp [h, Kind.isInt, Kind.isFloat, Kind.intRange]
    · right; simp [genValue, hf]
  | str st =>
    simp [Src.of] at hs; subst hs
    cases hf : a.form <;> rw [hf] at h <;> simp at h
    · left; simp [genValue, hf]
    · cases st with
      | lit b =>
        simp only [genValue, hf]
        cases parseBool b with
        | some r => left; exact ⟨_, rfl⟩
        | none => right; exact ⟨_, rfl⟩
      | _ => right; simp [genValue, hf]
    · right; simp [genValue, hf]

theorem typeAlias_no_panic (pr : Prim) (t : GoType) (v : SVal) :
    (typeAlias pr t v).isPanic = false := by
  unfold typeAlias
  split
  · cases access pr .asInt v <;> rfl
  · rfl

theorem convertValue_no_panic (pr : Prim) {g : GenTables} (hwf : GenWF g = true) (t : GoType) (v : SVal) :
    (convertValue pr g t v).isPanic = false := by
  unfold convertValue
  cases hd : v.direct with
  | none => rfl
  | some kp =>
    obtain ⟨k, p⟩ := kp
    simp only
    split
    · rfl
    · have hsrc : ∃ s, Src.of v = some s := by cases v <;> simp [SVal.direct] at hd <;> simp [Src.of]
      obtain ⟨s, hs⟩ := hsrc
      split
      · rename_i a hfind
        have hfa : (g.forVal v).find? (fun a => a.caseTy == t.kind) = some a := by
          split at hfind
          · exact hfind
          · simp at hfind
        have hmem := List.mem_of_find?_eq_some hfa
        have hcase : a.caseTy = t.kind := by simpa using List.find?_some hfa
        have hok := forVal_ok hwf v s hs hmem
        have hty : a.exprTy = t.kind := by
          unfold genArmOK at hok
          simp only [Bool.and_eq_true, beq_iff_eq] at hok
          rw [hok.1, hcase]
        rcases genValue_ok pr v s hs a hok with ⟨p', hp⟩ | ⟨e, he⟩
        · simp [hp, Outcome.bind, hty, Outcome.isPanic]
        · simp [he, Outcome.bind, Outcome.isPanic]
      · exact typeAlias_no_panic pr t v

theorem convertFromIndex_no_panic (pr : Prim) {g : GenTables} (hwf : GenWF g = true) (t : GoType) (v : SVal) :
    (convertFromIndex pr g t v).isPanic = false := by
  unfold convertFromIndex
  have h := convertValue_no_panic pr hwf t v
  cases hc : convertValue pr g t v with
  | ok a => rfl
  | throw e => exact typeAlias_no_panic pr t v
  | panic p => simp [hc, Outcome.isPanic] at h

theorem mem_sized {k : Kind} (hi : k.isInt = true) (hk : k ≠ .int) : k ∈ sizedInts := by
  cases k <;> simp [Kind.isInt, Kind.intRange] at hi <;> simp [sizedInts] at hk ⊢

/-- the clause serving a sized integer type -/
theorem narrow_arm {g : GenTables} (hwf : GenWF g = true) (hch : GenIntChecked g = true)
    {k : Kind} (hk : k ∈ sizedInts) :
    ∃ a, g.fromInt.find? (fun a => a.caseTy == k) = some a ∧ a.form = .narrow ∧ a.exprTy = k := by
  unfold GenIntChecked at hch
  have h := (List.all_eq_true.mp hch) k hk
  split at h
  · rename_i a hfa
    refine ⟨a, hfa, by simpa using h, ?_⟩
    have hmem := List.mem_of_find?_eq_some hfa
    have hcase : a.caseTy = k := by simpa using List.find?_some hfa
    have hok := forVal_ok hwf (.int 0) .int rfl (a := a) (by simpa [GenTables.forVal] using hmem)
    unfold genArmOK at hok
    simp only [Bool.and_eq_true, beq_iff_eq] at hok
    rw [hok.1, hcase]
  · simp at h

/-- a script value that denotes a Go value at a predeclared type is converted to exactly it -/
theorem convertValue_exact (pr : Prim) {g : GenTables} (hwf : GenWF g = true) (hch : GenIntChecked g = true)
    (t : GoType) (ht : t.name = 0) (v : SVal) (gv : GoVal) (hd : denote t v = some gv) :
    convertValue pr g t v = .ok gv := by
  obtain ⟨k, nm⟩ := t
  simp only at ht; subst ht
  cases v with
  | null => simp [denote] at hd
  | str s =>
    simp [denote] at hd; obtain ⟨hk, hg⟩ := hd; subst hk hg
    simp [convertValue, SVal.direct]
  | bool b =>
    simp [denote] at hd; obtain ⟨hk, hg⟩ := hd; subst hk hg
    simp [convertValue, SVal.direct]
  | float f =>
    simp [denote] at hd; obtain ⟨hk, hg⟩ := hd; subst hk hg
    simp [convertValue, SVal.direct]
  | int n =>
    simp [denote] at hd; obtain ⟨hfit, hg⟩ := hd; subst hg
    by_cases hk : k = .int
    · subst hk; simp [convertValue, SVal.direct]
    · have hi : k.isInt = true := by
        unfold Kind.fits at hfit; unfold Kind.isInt
        cases hr : k.intRange <;> simp [hr] at hfit ⊢
      obtain ⟨a, hfa, hform, hty⟩ := narrow_arm hwf hch (mem_sized hi hk)
      have hne : (⟨k, 0⟩ : GoType) ≠ ⟨.int, 0⟩ := by
        intro h; exact hk (by simpa using congrArg GoType.kind h)
      simp [convertValue, SVal.direct, hne, GenTables.forVal, hfa, genValue, hform, hty, hfit, Outcome.bind]

/-- an integer that the requested sized type cannot represent is refused, never wrapped -/
theorem convertValue_unrepresentable (pr : Prim) {g : GenTables} (hwf : GenWF g = true)
    (hch : GenIntChecked g = true) (k : Kind) (hk : k ∈ sizedInts) (n : Int) (hfit : k.fits n = false) :
    convertValue pr g ⟨k, 0⟩ (.int n) = .throw .outOfRange ∧
    ∃ e, convertFromIndex pr g ⟨k, 0⟩ (.int n) = .throw e := by
  obtain ⟨a, hfa, hform, hty⟩ := narrow_arm hwf hch hk
  have hne : (⟨k, 0⟩ : GoType) ≠ ⟨.int, 0⟩ := by
    intro h
    have : k = .int := by simpa using congrArg GoType.kind h
    subst this; simp [sizedInts] at hk
  have h1 : convertValue pr g ⟨k, 0⟩ (.int n) = .throw .outOfRange := by
    simp [convertValue, SVal.direct, hne, GenTables.forVal, hfa, genValue, hform, hty, hfit, Outcome.bind]
  refine ⟨h1, ?_⟩
  unfold convertFromIndex
  rw [h1]
  simp only
  unfold typeAlias
  split
  · rename_i hdur
    exfalso
    have := congrArg GoType.name (of_decide_eq_true hdur)
    simp [GoType.duration] at this
  · exact ⟨_, rfl⟩

/-! ### spec-level round trips, unsupported parameters -/

theorem reflectBack_denote {t : GoType} {v : SVal} {g : GoVal} (hk : supported.contains t.kind = true)
    (hd : denote t v = some g) : reflectBack g = some v := by
  cases v with
  | null => simp [denote] at hd
  | str s => simp [denote] at hd; obtain ⟨h1, h2⟩ := hd; subst h2; simp [reflectBack, h1]
  | bool b => simp [denote] at hd; obtain ⟨h1, h2⟩ := hd; subst h2; simp [reflectBack, h1]
  | float f => simp [denote] at hd; obtain ⟨h1, h2⟩ := hd; subst h2; simp [reflectBack, h1]
  | int n =>
    simp [denote] at hd; obtain ⟨h1, h2⟩ := hd; subst h2
    rcases mem_supported hk with h | h | h | h | h <;> rw [h] at h1 <;>
      simp [Kind.fits, Kind.intRange] at h1 <;>
      simp [reflectBack, h, Kind.isSigned, Kind.fits, Kind.intRange, h1]

theorem denote_reflectBack {g : GoVal} {v : SVal} (h : reflectBack g = some v) : denote g.ty v = some g := by
  obtain ⟨ty, val⟩ := g
  obtain ⟨k, nm⟩ := ty
  cases val <;> cases k <;> simp [reflectBack, Kind.isSigned] at h <;>
    (try (obtain ⟨h1, h2⟩ := h; subst h2; simp [denote, h1])) <;>
    (try (subst h; simp [denote]))

theorem wt_of_denote {t : GoType} {v : SVal} {g : GoVal} (hd : denote t v = some g) : g.wt = true ∧ g.ty = t := by
  cases v <;> simp [denote] at hd
  all_goals (obtain ⟨h1, h2⟩ := hd; subst h2; simp [GoVal.wt, h1])

/-- a parameter of an unsupported kind makes the whole argument conversion a catchable error -/
theorem convArgs_unsupported (pr : Prim) {tin : List InArm} (hwf : InWF tin = true) :
    ∀ (ps : List GoType) (as : List SVal), (∃ t ∈ ps, supported.contains t.kind = false) →
      ∃ e, convArgs pr tin ps as = .throw e := by
  intro ps
  induction ps with
  | nil => intro as h; simp at h
  | cons t ts ih =>
    intro as h
    have step : ∀ (v : SVal) (rest : List SVal),
        ∃ e, ((toGo pr tin t v).bind fun g => (convArgs pr tin ts rest).map (g :: ·)) = .throw e := by
      intro v rest
      by_cases hk : supported.contains t.kind = false
      · exact ⟨_, by rw [toGo_unsupported pr hwf t hk v]; rfl⟩
      · have hts : ∃ t' ∈ ts, supported.contains t'.kind = false := by
          obtain ⟨t', hm, hu⟩ := h
          rcases List.mem_cons.mp hm with rfl | hm
          · exact absurd hu hk
          · exact ⟨t', hm, hu⟩
        obtain ⟨e, he⟩ := ih rest hts
        rcases toGo_wf pr hwf t v with ⟨g, hg, _⟩ | ⟨e', he'⟩
        · exact ⟨e, by simp [hg, he, Outcome.bind, Outcome.map]⟩
        · exact ⟨e', by simp [he', Outcome.bind]⟩
    cases as with
    | nil => simpa [convArgs] using step .null []
    | cons a as => simpa [convArgs] using step a as

end Proofs.Conv
