import Proofs.Lemmas.LexScan
/-! The contract of one loop-body step (`scanTok`): progress, bounds, line accounting, literal. -/
namespace Proofs.Lex
open Model.Lex

/-! ### numbers -/

theorem signBreaks_ok (inp : Input) (start pos r : Nat) (h : pos < inp.size) :
    ∃ b, signBreaks inp start pos r = .ok b := by
  unfold signBreaks
  split
  · rw [rd_ok (by omega)]; exact ⟨_, rfl⟩
  · exact ⟨_, rfl⟩

theorem numLoop_spec {cfg : Cfg} (wf : WF cfg) (inp : Input) (start f p0 : Nat) (hp : p0 ≤ inp.size) :
    ∃ r, numLoop cfg inp start f p0 = .ok r ∧
      ∀ pos, r = some pos → p0 ≤ pos ∧ pos ≤ inp.size ∧ NoNL inp p0 pos := by
  induction f generalizing p0 with
  | zero => exact ⟨some p0, rfl, fun pos h => by cases h; exact ⟨Nat.le_refl _, hp, NoNL.empty _ _⟩⟩
  | succ f ih =>
    unfold numLoop
    split
    · rename_i hlt
      obtain ⟨hs1, hs2, _, _⟩ := decode_spec hlt
      have hnoNL : (decodeRune inp p0).1 ≠ 10 → NoNL inp p0 (p0 + (decodeRune inp p0).2) := decode_noNL hlt
      generalize hd : decodeRune inp p0 = d at hs1 hs2 hnoNL
      obtain ⟨r, size⟩ := d
      simp only [] at hs1 hs2 hnoNL ⊢
      split
      · exact ⟨none, rfl, fun pos h => by cases h⟩
      split
      · exact ⟨some p0, rfl, fun pos h => by cases h; exact ⟨Nat.le_refl _, hp, NoNL.empty _ _⟩⟩
      rename_i hnd
      -- the rune consumed below is not a newline
      have hr : r ≠ 10 := by
        intro hc; subst hc
        simp [isDelim_nl wf] at hnd
      have hno := hnoNL hr
      obtain ⟨b, hb⟩ := signBreaks_ok inp start p0 r hlt
      rw [hb]
      cases b with
      | true => exact ⟨some p0, rfl, fun pos h => by cases h; exact ⟨Nat.le_refl _, hp, NoNL.empty _ _⟩⟩
      | false =>
        simp only []
        split
        · exact ⟨some (p0 + size), rfl, fun pos h => by cases h; exact ⟨by omega, hs2, hno⟩⟩
        split
        · -- exponent: consumes the rune and possibly a sign
          rename_i he
          split
          · rename_i hsign
            simp only [Bool.and_eq_true, decide_eq_true_eq, Bool.or_eq_true, beq_iff_eq] at hsign
            obtain ⟨r', h1, h2⟩ := ih (p0 + size + 1) (by omega)
            refine ⟨r', h1, fun pos h => ?_⟩
            obtain ⟨a, b', c⟩ := h2 pos h
            refine ⟨by omega, b', (hno.append (NoNL.one ?_)).append c⟩
            rcases hsign.2 with h | h <;> omega
          · obtain ⟨r', h1, h2⟩ := ih (p0 + size) hs2
            refine ⟨r', h1, fun pos h => ?_⟩
            obtain ⟨a, b', c⟩ := h2 pos h
            exact ⟨by omega, b', hno.append c⟩
        · obtain ⟨r', h1, h2⟩ := ih (p0 + size) hs2
          refine ⟨r', h1, fun pos h => ?_⟩
          obtain ⟨a, b', c⟩ := h2 pos h
          exact ⟨by omega, b', hno.append c⟩
    · exact ⟨some p0, rfl, fun pos h => by cases h; exact ⟨Nat.le_refl _, hp, NoNL.empty _ _⟩⟩

theorem numBegin_spec {cfg : Cfg} (inp : Input) (start p0 : Nat) (hlt : start < inp.size)
    (h : numBegin cfg inp start = some p0) : start ≤ p0 ∧ p0 ≤ inp.size ∧ NoNL inp start p0 := by
  unfold numBegin at h
  simp only [] at h
  split at h
  · rename_i hminus
    split at h
    · cases h
    · rename_i hd
      cases h
      simp only [Bool.or_eq_true, decide_eq_true_eq, not_or] at hd
      have : bAt inp start = 45 := by simpa using hminus
      exact ⟨by omega, by omega, NoNL.one (by omega)⟩
  · split at h
    · cases h
    · cases h; exact ⟨Nat.le_refl _, by omega, NoNL.empty _ _⟩

theorem handleNumber_spec {cfg : Cfg} (wf : WF cfg) (inp : Input) (start : Nat) :
    ∃ r, handleNumber cfg inp start = .ok r ∧
      ∀ ty pos, r = some (ty, pos) → start < pos ∧ pos ≤ inp.size ∧ NoNL inp start pos := by
  unfold handleNumber
  split
  · exact ⟨none, rfl, fun _ _ h => by cases h⟩
  rename_i hlt
  cases hb : numBegin cfg inp start with
  | none => exact ⟨none, rfl, fun _ _ h => by cases h⟩
  | some p0 =>
    obtain ⟨h1, h2, h3⟩ := numBegin_spec inp start p0 (by omega) hb
    simp only []
    obtain ⟨r, hr, hs⟩ := numLoop_spec wf inp start (inp.size + 1) p0 h2
    rw [hr]
    cases r with
    | none => exact ⟨none, rfl, fun _ _ h => by cases h⟩
    | some pos =>
      obtain ⟨a, b, c⟩ := hs pos rfl
      simp only []
      split
      · exact ⟨none, rfl, fun _ _ h => by cases h⟩
      · exact ⟨_, rfl, fun ty p h => by cases h; exact ⟨by omega, b, h3.append c⟩⟩

/-! ### one step -/

/-- token types whose span may contain a newline -/
def ml (cfg : Cfg) : List Nat :=
  [cfg.tSTRING, cfg.tHEREDOC, cfg.tNOWDOC, cfg.tBYTE, cfg.tCOMMENT, cfg.tMCOMMENT, cfg.tHTML, cfg.tNEWLINE]

/-- the contract of a loop-body step at `pos` on line `line` -/
structure StepOK (cfg : Cfg) (inp : Input) (pos line : Nat) (s : Scan) : Prop where
  progress : pos < s.newPos
  bound : s.newPos ≤ inp.size
  lines : s.newLine = line + nlCount inp pos s.newPos
  lit_nl : 0 < nlCount inp pos s.newPos → 10 ∈ s.lit
  lit_ml : 10 ∈ s.lit → s.ty ∈ ml cfg
  lit_src : s.lit = slice inp pos s.newPos ∨ s.ty = cfg.tUNKNOWN

theorem handleString_ty {cfg : Cfg} {inp : Input} {start ty p : Nat}
    (h : handleString cfg inp start = some (ty, p)) : ty ∈ ml cfg := by
  have hS : cfg.tSTRING ∈ ml cfg := by simp [ml]
  unfold handleString at h
  simp only [] at h
  split at h
  · simp only [Option.map_eq_some_iff] at h
    obtain ⟨q, _, he⟩ := h; cases he; exact hS
  split at h
  · simp only [Option.map_eq_some_iff] at h
    obtain ⟨q, _, he⟩ := h; cases he; exact hS
  split at h
  · simp only [Option.map_eq_some_iff] at h
    obtain ⟨q, _, he⟩ := h; cases he; exact hS
  split at h
  · cases h
  · split at h
    · split at h
      · simp only [Option.map_eq_some_iff] at h
        obtain ⟨q, _, he⟩ := h; cases he; exact hS
      split at h
      · simp only [Option.map_eq_some_iff] at h
        obtain ⟨q, _, he⟩ := h; cases he; exact hS
      · simp only [Option.map_eq_some_iff] at h
        obtain ⟨q, _, he⟩ := h; cases he; exact hS
    · split at h
      · cases h
      · cases h
        split <;> simp [ml]

/-- a token whose literal is its source slice and whose type is multi-line -/
theorem stepOK_ml {cfg : Cfg} {inp : Input} {pos line ty p : Nat} (h1 : pos < p) (h2 : p ≤ inp.size)
    (hty : ty ∈ ml cfg) : StepOK cfg inp pos line ⟨ty, p, line + nlCount inp pos p, slice inp pos p⟩ :=
  ⟨h1, h2, rfl, nl_mem_slice, fun _ => hty, Or.inl rfl⟩

/-- a token whose literal is its source slice and whose span has no newline -/
theorem stepOK_sl {cfg : Cfg} {inp : Input} {pos line ty p : Nat} (h1 : pos < p) (h2 : p ≤ inp.size)
    (hno : NoNL inp pos p) : StepOK cfg inp pos line ⟨ty, p, line, slice inp pos p⟩ :=
  ⟨h1, h2, by simp [nlCount_zero h2 hno], fun h => by simp [nlCount_zero h2 hno] at h,
   fun h => absurd h (not_mem_slice_of_noNL hno), Or.inl rfl⟩

theorem handleSpecial_spec {cfg : Cfg} (wf : WF cfg) (inp : Input) (start line : Nat) (hlt : start < inp.size) :
    ∃ r, handleSpecial cfg inp start line = .ok r ∧ ∀ s, r = some s → StepOK cfg inp start line s := by
  unfold handleSpecial
  have hge : ¬ start ≥ inp.size := by omega
  simp only [hge, if_false]
  split
  · rename_i ty p hs
    obtain ⟨a, b⟩ := handleString_spec hs
    exact ⟨_, rfl, fun s h => by cases h; exact stepOK_ml a b (handleString_ty hs)⟩
  split
  · rename_i p hb
    obtain ⟨a, b⟩ := handleByte_spec hb
    exact ⟨_, rfl, fun s h => by cases h; exact stepOK_ml a b (by simp [ml])⟩
  split
  · rename_i hc
    simp only [Bool.and_eq_true, decide_eq_true_eq, beq_iff_eq, Bool.or_eq_true] at hc
    obtain ⟨⟨h1, h2⟩, h3⟩ := hc
    rw [rd_ok h1]
    simp only []
    have hhead : NoNL inp start (start + 2) := by
      intro i i1 i2
      have : i = start ∨ i = start + 1 := by omega
      rcases this with rfl | rfl
      · omega
      · rcases h3 with h | h <;> omega
    have hz := nlCount_zero (by omega) hhead
    split
    · obtain ⟨a, b, c⟩ := lineCommentLoop_spec inp inp.size (start+2) (by omega)
      refine ⟨_, rfl, fun s h => ?_⟩
      cases h
      have e := nlCount_split inp start (start+2) _ (by omega) a
      have := stepOK_ml (cfg := cfg) (inp := inp) (pos := start) (line := line) (ty := cfg.tCOMMENT)
        (p := (lineCommentLoop inp inp.size (start+2)).1) (by omega) b (by simp [ml])
      have hl : line + (lineCommentLoop inp inp.size (start+2)).2 =
          line + nlCount inp start (lineCommentLoop inp inp.size (start+2)).1 := by omega
      rw [hl]; exact this
    · obtain ⟨a, b, c⟩ := blockCommentLoop_spec inp inp.size (start+2) 0 (by omega)
      refine ⟨_, rfl, fun s h => ?_⟩
      cases h
      have e := nlCount_split inp start (start+2) _ (by omega) a
      have := stepOK_ml (cfg := cfg) (inp := inp) (pos := start) (line := line) (ty := cfg.tMCOMMENT)
        (p := (blockCommentLoop inp inp.size (start+2) 0).1) (by omega) b (by simp [ml])
      have hl : line + (blockCommentLoop inp inp.size (start+2) 0).2 =
          line + nlCount inp start (blockCommentLoop inp inp.size (start+2) 0).1 := by omega
      rw [hl]; exact this
  split
  · obtain ⟨r, hr, hs⟩ := handleNumber_spec wf inp start
    rw [hr]
    cases r with
    | none => exact ⟨none, rfl, fun s h => by cases h⟩
    | some tp =>
      obtain ⟨ty, p⟩ := tp
      obtain ⟨a, b, c⟩ := hs ty p rfl
      exact ⟨_, rfl, fun s h => by cases h; exact stepOK_sl a b c⟩
  · exact ⟨none, rfl, fun s h => by cases h⟩

theorem scanPlain_spec {cfg : Cfg} (wf : WF cfg) (inp : Input) (tmpl : Bool) (pos line : Nat)
    (hlt : pos < inp.size) (hnl : bAt inp pos ≠ 10) :
    StepOK cfg inp pos line (scanPlain cfg inp tmpl pos line) := by
  unfold scanPlain
  split
  · rename_i ty len hm
    obtain ⟨a, b, c⟩ := matchLongest_spec wf (by omega) hnl hm
    exact stepOK_sl (by omega) b c
  · obtain ⟨hs1, hs2, _, _⟩ := decode_spec hlt
    have hr := decode_first_byte hlt hnl
    have hno := decode_noNL hlt hr
    simp only []
    split
    · have hz := nlCount_zero (inp := inp) (a := pos) (b := pos+1) (by omega) (NoNL.one hnl)
      refine ⟨by simp, by simp; omega, by simp [hz], fun h => by simp [hz] at h, ?_, Or.inr rfl⟩
      intro h
      exfalso
      simp only [encodeLatin1] at h
      have hb := (bAt_lt_256_iff (inp := inp) (i := pos)).mpr hlt
      split at h
      · simp at h; omega
      · simp at h; omega
    split
    · obtain ⟨i1, i2, i3⟩ := identLoop_spec wf inp tmpl inp.size (pos + (decodeRune inp pos).2) hs2
      exact stepOK_sl (by omega) i2 (hno.append i3)
    · exact stepOK_sl (by omega) hs2 hno

theorem scanTok_spec {cfg : Cfg} (wf : WF cfg) (inp : Input) (tmpl : Bool) (pos line : Nat)
    (hlt : pos < inp.size) (hnl : bAt inp pos ≠ 10) :
    ∃ s, scanTok cfg inp tmpl pos line = .ok s ∧ StepOK cfg inp pos line s := by
  unfold scanTok
  obtain ⟨r, hr, hs⟩ := handleSpecial_spec wf inp pos line hlt
  rw [hr]
  cases r with
  | none => exact ⟨_, rfl, scanPlain_spec wf inp tmpl pos line hlt hnl⟩
  | some s => exact ⟨s, rfl, hs s rfl⟩

theorem fwAt_ok (inp : Input) (pos : Nat) (g : Bool) (hg : g = true → pos + 2 < inp.size) :
    ∃ b, fwAt inp pos g = .ok b ∧
      (b = true → pos + 3 ≤ inp.size ∧ bAt inp pos ≠ 10 ∧ bAt inp (pos+1) ≠ 10 ∧ bAt inp (pos+2) ≠ 10) := by
  unfold fwAt
  cases g with
  | false => exact ⟨false, rfl, fun h => by cases h⟩
  | true =>
    have := hg rfl
    simp only [if_true]
    rw [rd_ok (by omega), rd_ok (by omega), rd_ok this]
    refine ⟨_, rfl, fun h => ?_⟩
    simp only [Bool.and_eq_true, beq_iff_eq] at h
    obtain ⟨⟨h1, h2⟩, h3⟩ := h
    exact ⟨by omega, by omega, by omega, by omega⟩

end Proofs.Lex
