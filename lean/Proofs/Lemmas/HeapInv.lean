import Proofs.Lemmas.HeapBasic
/-!
C06 helper lemmas, part 2: the invariant `NoUnintendedSharing` and what an in-place
mutation of an array object does to a state that satisfies it.

A *holder* is a place that owns an array object directly: a variable cell or an object
property.  The invariant says: no two holders point at the same array object, no
holder's array object also occurs inside some (other or the same) value, and the
allocator is ahead of every identity in use.  Array objects *inside* values may be
shared freely — they are never written by a statement that writes at a root.
-/
namespace Proofs.Heap
open Model.Heap

inductive Pos
  | v (c : Nat)
  | p (h p : Nat)
deriving DecidableEq, Repr

def holder? (s : St) : Pos → Option Val
  | .v c => s.vcells[c]?
  | .p h p => s.propVal? h p

def setHolder (s : St) : Pos → Val → St
  | .v c, w => { s with vcells := s.vcells.set c w }
  | .p h p, w => s.setProp h p w

/-- array identity `i` occurs strictly inside the value of some holder -/
def InnerOf (s : St) (i : Nat) : Prop := ∃ Q w, holder? s Q = some w ∧ i ∈ innerAids w

/-- **NoUnintendedSharing** -/
structure Inv (s : St) : Prop where
  wf : ∀ (x c : Nat), s.names[x]? = some c → c < s.vcells.length
  uniq : ∀ P Q a k1 k2, holder? s P = some (.arr a k1) → holder? s Q = some (.arr a k2) → P = Q
  sep : ∀ P a k, holder? s P = some (.arr a k) → ¬ InnerOf s a
  bound : ∀ P w, holder? s P = some w → ∀ i ∈ w.aids, i < s.next

theorem InnerOf.lt {s : St} (h : Inv s) {i : Nat} (hi : InnerOf s i) : i < s.next := by
  obtain ⟨Q, w, hw, hm⟩ := hi
  exact h.bound Q w hw i (innerAids_sub w i hm)

/-! ### holders after an update -/

theorem propVal?_setProp (s : St) (h p : Nat) (w : Val) (h' p' : Nat) (old : Val)
    (hold : s.propVal? h p = some old) :
    (s.setProp h p w).propVal? h' p' = if h' = h ∧ p' = p then some w else s.propVal? h' p' := by
  unfold St.propVal? at hold
  unfold St.setProp
  cases hps : s.objs[h]? with
  | none => simp [hps] at hold
  | some ps =>
    simp only [hps] at hold
    have hlt : h < s.objs.length := by
      have := List.getElem?_eq_some_iff.mp hps; exact this.1
    have hpl : p < ps.length := by
      have := List.getElem?_eq_some_iff.mp hold; exact this.1
    simp only [St.propVal?]
    by_cases hh : h' = h
    · subst hh
      simp only [List.getElem?_set, hlt, if_true, true_and]
      by_cases hp : p' = p
      · subst hp; simp [hpl]
      · simp [hp, hps, List.getElem?_set, Ne.symm hp]
    · have : ¬ (h' = h ∧ p' = p) := fun c => hh c.1
      simp [this, List.getElem?_set, Ne.symm hh]

theorem holder?_setHolder (s : St) (P Q : Pos) (w old : Val) (hold : holder? s P = some old) :
    holder? (setHolder s P w) Q = if Q = P then some w else holder? s Q := by
  cases P with
  | v c =>
    have hlt : c < s.vcells.length := (List.getElem?_eq_some_iff.mp hold).1
    cases Q with
    | v c' =>
      simp only [holder?, setHolder, List.getElem?_set]
      by_cases hc : c = c'
      · subst hc; simp [hlt]
      · have : ¬ (Pos.v c' = Pos.v c) := fun e => hc (by injection e with e; exact e.symm)
        simp [hc, this]
    | p h p => simp [holder?, setHolder, St.propVal?]
  | p h p =>
    cases Q with
    | v c' =>
      simp only [holder?, setHolder, St.setProp]
      cases s.objs[h]? <;> simp
    | p h' p' =>
      simp only [holder?, setHolder]
      rw [propVal?_setProp s h p w h' p' old hold]
      by_cases e : h' = h ∧ p' = p
      · obtain ⟨e1, e2⟩ := e; subst e1; subst e2; simp
      · have : ¬ (Pos.p h' p' = Pos.p h p) := fun c => e (by injection c with c1 c2; exact ⟨c1, c2⟩)
        simp [e, this]

theorem holder?_next (s : St) (n : Nat) (P : Pos) : holder? { s with next := n } P = holder? s P := by
  cases P <;> rfl

/-! ### `updArr` on a value that does not contain the object is the identity -/

mutual
theorem Val.updArr_notin (a : Nat) (f : List Slot → List Slot) : (v : Val) → a ∉ v.aids → v.updArr a f = v
  | .sc s, _ => by simp [Val.updArr]
  | .arr b kids, h => by
      simp [Val.aids] at h
      have hb : ¬ b = a := fun e => h.1 e.symm
      simp [Val.updArr, hb, updArrL_notin a f kids h.2]
theorem updArrL_notin (a : Nat) (f : List Slot → List Slot) : (l : List Slot) → a ∉ aidsL l → updArrL a f l = l
  | [], _ => by simp [updArrL]
  | (c, k, v) :: r, h => by
      simp [aidsL] at h
      simp [updArrL, Val.updArr_notin a f v h.1, updArrL_notin a f r h.2]
end

theorem list_map_eq_set {α : Type} (g : α → α) (l : List α) (i : Nat) (x : α) (hx : l[i]? = some x)
    (hfix : ∀ (j : Nat) y, l[j]? = some y → j ≠ i → g y = y) : l.map g = l.set i (g x) := by
  apply List.ext_getElem?
  intro j
  simp only [List.getElem?_map, List.getElem?_set]
  have hlt : i < l.length := (List.getElem?_eq_some_iff.mp hx).1
  by_cases hj : i = j
  · subst hj; rw [hx]; simp [hlt]
  · simp only [hj, if_false]
    cases hy : l[j]? with
    | none => rfl
    | some y => simp [hfix j y hy (Ne.symm hj)]

theorem list_map_eq_self {α : Type} (g : α → α) (l : List α) (hfix : ∀ (j : Nat) y, l[j]? = some y → g y = y) :
    l.map g = l := by
  apply List.ext_getElem?
  intro j
  simp only [List.getElem?_map]
  cases hy : l[j]? with
  | none => rfl
  | some y => simp [hfix j y hy]

/-- a holder's own array object occurs nowhere else, so mutating it in place only
changes that holder -/
theorem updArr_eq_setHolder {s : St} (hinv : Inv s) (P : Pos) (a : Nat) (kids : List Slot)
    (hP : holder? s P = some (.arr a kids)) (f : List Slot → List Slot) :
    s.updArr a f = setHolder s P (.arr a (f kids)) := by
  -- every other holder is left alone
  have hfix : ∀ Q w, holder? s Q = some w → Q ≠ P → Val.updArr a f w = w := by
    intro Q w hw hne
    apply Val.updArr_notin
    intro hmem
    cases w with
    | sc sc => simp [Val.aids] at hmem
    | arr b k =>
      simp only [Val.aids, List.mem_cons] at hmem
      rcases hmem with e | e
      · subst e; exact hne (hinv.uniq Q P a k kids hw hP)
      · exact hinv.sep P a kids hP ⟨Q, _, hw, by simpa [innerAids] using e⟩
  have hself : Val.updArr a f (.arr a kids) = .arr a (f kids) := by simp [Val.updArr]
  cases P with
  | v c =>
    simp only [holder?] at hP
    have h1 : s.vcells.map (Val.updArr a f) = s.vcells.set c (.arr a (f kids)) := by
      rw [← hself]
      apply list_map_eq_set _ _ _ _ hP
      intro j y hy hj
      exact hfix (.v j) y hy (fun e => hj (by injection e))
    have h2 : s.objs.map (·.map (Val.updArr a f)) = s.objs := by
      apply list_map_eq_self
      intro h ps hps
      apply list_map_eq_self
      intro p y hy
      exact hfix (.p h p) y (by simp [holder?, St.propVal?, hps, hy]) (fun e => by cases e)
    simp only [St.updArr, setHolder, h1, h2]
  | p h p =>
    simp only [holder?, St.propVal?] at hP
    cases hps : s.objs[h]? with
    | none => simp [hps] at hP
    | some ps =>
      simp only [hps] at hP
      have h1 : s.vcells.map (Val.updArr a f) = s.vcells := by
        apply list_map_eq_self
        intro j y hy
        exact hfix (.v j) y hy (fun e => by cases e)
      have h2 : s.objs.map (·.map (Val.updArr a f)) = s.objs.set h (ps.set p (.arr a (f kids))) := by
        have hx : ps.map (Val.updArr a f) = ps.set p (.arr a (f kids)) := by
          rw [← hself]
          apply list_map_eq_set _ _ _ _ hP
          intro j y hy hj
          exact hfix (.p h j) y (by simp [holder?, St.propVal?, hps, hy]) (fun e => hj (by injection e))
        rw [← hx]
        apply list_map_eq_set (fun ps => ps.map (Val.updArr a f)) _ _ _ hps
        intro h' ps' hps' hne
        apply list_map_eq_self
        intro p' y hy
        exact hfix (.p h' p') y (by simp [holder?, St.propVal?, hps', hy]) (fun e => hne (by injection e))
      simp only [St.updArr, setHolder, St.setProp, hps, h1, h2]

/-! ### the invariant after a holder is overwritten -/

theorem setHolder_setHolder (s : St) (P : Pos) (w1 w2 old : Val) (hold : holder? s P = some old) :
    setHolder (setHolder s P w1) P w2 = setHolder s P w2 := by
  cases P with
  | v c => simp [setHolder, List.set_set]
  | p h p =>
    simp only [holder?, St.propVal?] at hold
    cases hps : s.objs[h]? with
    | none => simp [hps] at hold
    | some ps =>
      have hlt : h < s.objs.length := (List.getElem?_eq_some_iff.mp hps).1
      simp [setHolder, St.setProp, hps, hlt, List.set_set]

/-- Overwriting holder `P` with a value whose root is the old root or fresh (and
larger than everything inside it), and whose inner identities are inner identities
of the old state or fresh, keeps the invariant. -/
theorem Inv.overwrite {s : St} (hinv : Inv s) (P : Pos) (old w : Val) (n : Nat)
    (hold : holder? s P = some old) (hn : s.next ≤ n)
    (hroot : ∀ a k, w = .arr a k → (∃ k0, old = .arr a k0) ∨ (s.next ≤ a ∧ ∀ i ∈ aidsL k, i < a))
    (hinner : ∀ i ∈ innerAids w, InnerOf s i ∨ s.next ≤ i)
    (hbound : ∀ i ∈ w.aids, i < n) :
    Inv { (setHolder s P w) with next := n } := by
  have hh : ∀ Q, holder? { (setHolder s P w) with next := n } Q = if Q = P then some w else holder? s Q := by
    intro Q; rw [holder?_next, holder?_setHolder s P Q w old hold]
  -- inner identities of the new state
  have hin : ∀ i, InnerOf { (setHolder s P w) with next := n } i → InnerOf s i ∨ s.next ≤ i := by
    rintro i ⟨Q, x, hx, hm⟩
    rw [hh] at hx
    by_cases hq : Q = P
    · simp [hq] at hx; subst hx; exact hinner i hm
    · simp [hq] at hx; exact Or.inl ⟨Q, x, hx, hm⟩
  -- a root of the new state is an old root or fresh
  have hrt : ∀ Q a k, holder? { (setHolder s P w) with next := n } Q = some (.arr a k) →
      (∃ Q' k', holder? s Q' = some (.arr a k')) ∨ s.next ≤ a := by
    intro Q a k hx
    rw [hh] at hx
    by_cases hq : Q = P
    · simp [hq] at hx
      rcases hroot a k hx with ⟨k0, e⟩ | ⟨e, _⟩
      · exact Or.inl ⟨P, k0, by rw [hold, e]⟩
      · exact Or.inr e
    · simp [hq] at hx; exact Or.inl ⟨Q, k, hx⟩
  refine ⟨?_, ?_, ?_, ?_⟩
  · intro x c hx
    have := hinv.wf x c (by cases P <;> first | exact hx | (simp only [setHolder, St.setProp] at hx; split at hx <;> exact hx))
    cases P with
    | v c' => simpa [setHolder] using this
    | p h p => simp only [setHolder, St.setProp]; split <;> exact this
  · intro Q1 Q2 a k1 k2 h1 h2
    rw [hh] at h1 h2
    by_cases q1 : Q1 = P <;> by_cases q2 : Q2 = P
    · rw [q1, q2]
    · simp [q1] at h1; simp [q2] at h2
      rcases hroot a k1 h1 with ⟨k0, e⟩ | ⟨e, _⟩
      · exact (q2 (hinv.uniq Q2 P a k2 k0 h2 (by rw [hold, e]))).elim
      · have := hinv.bound Q2 _ h2 a (by simp [Val.aids]); omega
    · simp [q1] at h1; simp [q2] at h2
      rcases hroot a k2 h2 with ⟨k0, e⟩ | ⟨e, _⟩
      · exact (q1 (hinv.uniq Q1 P a k1 k0 h1 (by rw [hold, e]))).elim
      · have := hinv.bound Q1 _ h1 a (by simp [Val.aids]); omega
    · simp [q1] at h1; simp [q2] at h2; exact hinv.uniq Q1 Q2 a k1 k2 h1 h2
  · intro Q a k hx hI
    have hx' := hx
    rw [hh] at hx'
    by_cases hq : Q = P
    · simp [hq] at hx'
      -- the new value's own root
      rcases hroot a k hx' with ⟨k0, e⟩ | ⟨e, hlt⟩
      · -- old root: below next and not inner in the old state
        have hb : a < s.next := hinv.bound P _ hold a (by rw [e]; simp [Val.aids])
        rcases hin a hI with h | h
        · exact hinv.sep P a k0 (by rw [hold, e]) h
        · omega
      · -- fresh root: larger than everything old and everything inside the new value
        obtain ⟨Q', x, hx2, hm⟩ := hI
        rw [hh] at hx2
        by_cases hq' : Q' = P
        · simp [hq'] at hx2; subst hx2; subst hx'
          simp [innerAids] at hm
          have := hlt a hm; omega
        · simp [hq'] at hx2
          have := hinv.bound Q' x hx2 a (innerAids_sub x a hm); omega
    · simp [hq] at hx'
      have hb : a < s.next := hinv.bound Q _ hx' a (by simp [Val.aids])
      rcases hin a hI with h | h
      · exact hinv.sep Q a k hx' h
      · omega
  · intro Q x hx i hi
    rw [hh] at hx
    by_cases hq : Q = P
    · simp [hq] at hx; subst hx; exact hbound i hi
    · simp [hq] at hx
      have := hinv.bound Q x hx i hi
      show i < n
      omega

theorem Inv.next {s : St} (hinv : Inv s) (n : Nat) (hn : s.next ≤ n) : Inv { s with next := n } := by
  refine ⟨hinv.wf, ?_, ?_, ?_⟩
  · intro P Q a k1 k2 h1 h2; rw [holder?_next] at h1 h2; exact hinv.uniq P Q a k1 k2 h1 h2
  · intro P a k h1 ⟨Q, w, hw, hm⟩; rw [holder?_next] at h1 hw; exact hinv.sep P a k h1 ⟨Q, w, hw, hm⟩
  · intro P w hw i hi; rw [holder?_next] at hw; have := hinv.bound P w hw i hi; show i < n; omega

theorem InnerOf_next (s : St) (n : Nat) (i : Nat) : InnerOf { s with next := n } i ↔ InnerOf s i := by
  constructor
  · rintro ⟨Q, w, hw, hm⟩; rw [holder?_next] at hw; exact ⟨Q, w, hw, hm⟩
  · rintro ⟨Q, w, hw, hm⟩; exact ⟨Q, w, by rw [holder?_next]; exact hw, hm⟩

end Proofs.Heap
