import Proofs.Lemmas.HeapPath
/-!
C06 helper lemmas: the invariant `NoSharing` and what an in-place mutation of an array
object does to a state that satisfies it.

A *holder* is a place that owns a value directly: a variable cell or an object property.
The invariant says: every array identity occurs **at most once in the whole state** — no two
holders, and no two places inside one value, reach the same array object (every copy point
copies recursively) — and the allocator is ahead of every identity in use.  An in-place
mutation of an array object therefore changes one holder only (`updArr_eq_setHolder`).
-/
namespace Proofs.Heap
open Model.Heap

inductive Pos
  | v (c : Nat)
  | p (h p : Nat)
deriving DecidableEq, Repr

def holder? (s : St) : Pos → Option Val
  | .v c => s.vcells[c]?
  | .p h p => s.propVal? h p

def setHolder (s : St) : Pos → Val → St
  | .v c, w => { s with vcells := s.vcells.set c w }
  | .p h p, w => s.setProp h p w

/-! ### occurrences of an identity in a state -/

def cntVs (a : Nat) (l : List Val) : Nat := wsum (vcnt a) l
def cntOs (a : Nat) (os : List (List Val)) : Nat := wsum (cntVs a) os
/-- number of occurrences of array object `a` in the state -/
def scnt (s : St) (a : Nat) : Nat := cntVs a s.vcells + cntOs a s.objs

/-- **NoSharing** -/
structure Inv (s : St) : Prop where
  wf : ∀ (x c : Nat), s.names[x]? = some c → c < s.vcells.length
  uniq : ∀ a, scnt s a ≤ 1
  bound : ∀ a, 0 < scnt s a → a < s.next

theorem scnt_next (s : St) (n a : Nat) : scnt { s with next := n } a = scnt s a := rfl

theorem scnt_holder_le (s : St) (P : Pos) (w : Val) (a : Nat) (h : holder? s P = some w) :
    vcnt a w ≤ scnt s a := by
  cases P with
  | v c =>
    have := wsum_ge_get (vcnt a) s.vcells c w h
    simp only [scnt, cntVs]; omega
  | p hh p =>
    simp only [holder?, St.propVal?] at h
    cases hps : s.objs[hh]? with
    | none => simp [hps] at h
    | some ps =>
      simp only [hps] at h
      have h1 := wsum_ge_get (vcnt a) ps p w h
      have h2 := wsum_ge_get (cntVs a) s.objs hh ps hps
      simp only [scnt, cntOs, cntVs] at *; omega

/-- two different holders account for different occurrences -/
theorem scnt_two (s : St) (P Q : Pos) (w w' : Val) (a : Nat) (hne : P ≠ Q)
    (hP : holder? s P = some w) (hQ : holder? s Q = some w') : vcnt a w + vcnt a w' ≤ scnt s a := by
  cases P with
  | v c =>
    cases Q with
    | v c' =>
      have hcc : c ≠ c' := fun e => hne (by rw [e])
      have := wsum_two (vcnt a) s.vcells c c' w w' hcc hP hQ
      simp only [scnt, cntVs]; omega
    | p h' p' =>
      have h1 := wsum_ge_get (vcnt a) s.vcells c w hP
      simp only [holder?, St.propVal?] at hQ
      cases hps : s.objs[h']? with
      | none => simp [hps] at hQ
      | some ps =>
        simp only [hps] at hQ
        have h2 := wsum_ge_get (vcnt a) ps p' w' hQ
        have h3 := wsum_ge_get (cntVs a) s.objs h' ps hps
        simp only [scnt, cntOs, cntVs] at *; omega
  | p h p =>
    simp only [holder?, St.propVal?] at hP
    cases hps : s.objs[h]? with
    | none => simp [hps] at hP
    | some ps =>
      simp only [hps] at hP
      cases Q with
      | v c' =>
        have h1 := wsum_ge_get (vcnt a) s.vcells c' w' hQ
        have h2 := wsum_ge_get (vcnt a) ps p w hP
        have h3 := wsum_ge_get (cntVs a) s.objs h ps hps
        simp only [scnt, cntOs, cntVs] at *; omega
      | p h' p' =>
        simp only [holder?, St.propVal?] at hQ
        cases hps' : s.objs[h']? with
        | none => simp [hps'] at hQ
        | some ps' =>
          simp only [hps'] at hQ
          by_cases hh : h = h'
          · subst hh
            rw [hps] at hps'; injection hps' with hps'; subst hps'
            have hpp : p ≠ p' := fun e => hne (by rw [e])
            have h2 := wsum_two (vcnt a) ps p p' w w' hpp hP hQ
            have h3 := wsum_ge_get (cntVs a) s.objs h ps hps
            simp only [scnt, cntOs, cntVs] at *; omega
          · have h1 := wsum_ge_get (vcnt a) ps p w hP
            have h2 := wsum_ge_get (vcnt a) ps' p' w' hQ
            have h3 := wsum_two (cntVs a) s.objs h h' ps ps' hh hps hps'
            simp only [scnt, cntOs, cntVs] at *; omega

/-! ### holders after an update -/

theorem propVal?_setProp (s : St) (h p : Nat) (w : Val) (h' p' : Nat) (old : Val)
    (hold : s.propVal? h p = some old) :
    (s.setProp h p w).propVal? h' p' = if h' = h ∧ p' = p then some w else s.propVal? h' p' := by
  unfold St.propVal? at hold
  unfold St.setProp
  cases hps : s.objs[h]? with
  | none => simp [hps] at hold
  | some ps =>
    simp only [hps] at hold
    have hlt : h < s.objs.length := by
      have := List.getElem?_eq_some_iff.mp hps; exact this.1
    have hpl : p < ps.length := by
      have := List.getElem?_eq_some_iff.mp hold; exact this.1
    simp only [St.propVal?]
    by_cases hh : h' = h
    · subst hh
      simp only [List.getElem?_set, hlt, if_true, true_and]
      by_cases hp : p' = p
      · subst hp; simp [hpl]
      · simp [hp, hps, List.getElem?_set, Ne.symm hp]
    · have : ¬ (h' = h ∧ p' = p) := fun c => hh c.1
      simp [this, List.getElem?_set, Ne.symm hh]

theorem holder?_setHolder (s : St) (P Q : Pos) (w old : Val) (hold : holder? s P = some old) :
    holder? (setHolder s P w) Q = if Q = P then some w else holder? s Q := by
  cases P with
  | v c =>
    have hlt : c < s.vcells.length := (List.getElem?_eq_some_iff.mp hold).1
    cases Q with
    | v c' =>
      simp only [holder?, setHolder, List.getElem?_set]
      by_cases hc : c = c'
      · subst hc; simp [hlt]
      · have : ¬ (Pos.v c' = Pos.v c) := fun e => hc (by injection e with e; exact e.symm)
        simp [hc, this]
    | p h p => simp [holder?, setHolder, St.propVal?]
  | p h p =>
    cases Q with
    | v c' =>
      simp only [holder?, setHolder, St.setProp]
      cases s.objs[h]? <;> simp
    | p h' p' =>
      simp only [holder?, setHolder]
      rw [propVal?_setProp s h p w h' p' old hold]
      by_cases e : h' = h ∧ p' = p
      · obtain ⟨e1, e2⟩ := e; subst e1; subst e2; simp
      · have : ¬ (Pos.p h' p' = Pos.p h p) := fun c => e (by injection c with c1 c2; exact ⟨c1, c2⟩)
        simp [e, this]

theorem holder?_next (s : St) (n : Nat) (P : Pos) : holder? { s with next := n } P = holder? s P := by
  cases P <;> rfl

/-- overwriting a holder moves the counts accordingly -/
theorem scnt_setHolder (s : St) (P : Pos) (old nv : Val) (a : Nat) (hold : holder? s P = some old) :
    scnt (setHolder s P nv) a + vcnt a old = scnt s a + vcnt a nv := by
  cases P with
  | v c =>
    have := wsum_set (vcnt a) s.vcells c old nv hold
    simp only [scnt, setHolder, cntVs]; omega
  | p h p =>
    simp only [holder?, St.propVal?] at hold
    cases hps : s.objs[h]? with
    | none => simp [hps] at hold
    | some ps =>
      simp only [hps] at hold
      have h1 := wsum_set (vcnt a) ps p old nv hold
      have h2 := wsum_set (cntVs a) s.objs h ps (ps.set p nv) hps
      simp only [scnt, setHolder, St.setProp, hps, cntOs, cntVs] at *; omega

theorem list_map_eq_set {α : Type} (g : α → α) (l : List α) (i : Nat) (x : α) (hx : l[i]? = some x)
    (hfix : ∀ (j : Nat) y, l[j]? = some y → j ≠ i → g y = y) : l.map g = l.set i (g x) := by
  apply List.ext_getElem?
  intro j
  simp only [List.getElem?_map, List.getElem?_set]
  have hlt : i < l.length := (List.getElem?_eq_some_iff.mp hx).1
  by_cases hj : i = j
  · subst hj; rw [hx]; simp [hlt]
  · simp only [hj, if_false]
    cases hy : l[j]? with
    | none => rfl
    | some y => simp [hfix j y hy (Ne.symm hj)]

theorem list_map_eq_self {α : Type} (g : α → α) (l : List α) (hfix : ∀ (j : Nat) y, l[j]? = some y → g y = y) :
    l.map g = l := by
  apply List.ext_getElem?
  intro j
  simp only [List.getElem?_map]
  cases hy : l[j]? with
  | none => rfl
  | some y => simp [hfix j y hy]

/-- an array object that occurs once in the state, inside the value of holder `P`:
mutating it in place only changes that holder -/
theorem updArr_eq_setHolder {s : St} (P : Pos) (a : Nat) (w : Val) (hu : scnt s a ≤ 1)
    (hP : holder? s P = some w) (hw : 1 ≤ vcnt a w) (f : List Slot → List Slot) :
    s.updArr a f = setHolder s P (w.updArr a f) := by
  have hfix : ∀ Q w', holder? s Q = some w' → Q ≠ P → Val.updArr a f w' = w' := by
    intro Q w' hw' hne
    apply Val.updArr_cnt0
    have := scnt_two s Q P w' w a hne hw' hP
    omega
  cases P with
  | v c =>
    simp only [holder?] at hP
    have h1 : s.vcells.map (Val.updArr a f) = s.vcells.set c (w.updArr a f) := by
      apply list_map_eq_set _ _ _ _ hP
      intro j y hy hj
      exact hfix (.v j) y hy (fun e => hj (by injection e))
    have h2 : s.objs.map (·.map (Val.updArr a f)) = s.objs := by
      apply list_map_eq_self
      intro h ps hps
      apply list_map_eq_self
      intro p y hy
      exact hfix (.p h p) y (by simp [holder?, St.propVal?, hps, hy]) (fun e => by cases e)
    simp only [St.updArr, setHolder, h1, h2]
  | p h p =>
    simp only [holder?, St.propVal?] at hP
    cases hps : s.objs[h]? with
    | none => simp [hps] at hP
    | some ps =>
      simp only [hps] at hP
      have h1 : s.vcells.map (Val.updArr a f) = s.vcells := by
        apply list_map_eq_self
        intro j y hy
        exact hfix (.v j) y hy (fun e => by cases e)
      have h2 : s.objs.map (·.map (Val.updArr a f)) = s.objs.set h (ps.set p (w.updArr a f)) := by
        have hx : ps.map (Val.updArr a f) = ps.set p (w.updArr a f) := by
          apply list_map_eq_set _ _ _ _ hP
          intro j y hy hj
          exact hfix (.p h j) y (by simp [holder?, St.propVal?, hps, hy]) (fun e => hj (by injection e))
        rw [← hx]
        apply list_map_eq_set (fun ps => ps.map (Val.updArr a f)) _ _ _ hps
        intro h' ps' hps' hne
        apply list_map_eq_self
        intro p' y hy
        exact hfix (.p h' p') y (by simp [holder?, St.propVal?, hps', hy]) (fun e => hne (by injection e))
      simp only [St.updArr, setHolder, St.setProp, hps, h1, h2]

/-! ### the invariant after a holder is overwritten -/

theorem setHolder_setHolder (s : St) (P : Pos) (w1 w2 old : Val) (hold : holder? s P = some old) :
    setHolder (setHolder s P w1) P w2 = setHolder s P w2 := by
  cases P with
  | v c => simp [setHolder, List.set_set]
  | p h p =>
    simp only [holder?, St.propVal?] at hold
    cases hps : s.objs[h]? with
    | none => simp [hps] at hold
    | some ps =>
      have hlt : h < s.objs.length := (List.getElem?_eq_some_iff.mp hps).1
      simp [setHolder, St.setProp, hps, hlt, List.set_set]

/-- Overwriting holder `P` by a value whose identities are those of the old value plus
`e`, where `e` counts identities that do not occur in the state (each at most once), keeps
the invariant. -/
theorem Inv.replace {s : St} (hinv : Inv s) (P : Pos) (old nv : Val) (n : Nat) (e : Nat → Nat)
    (hold : holder? s P = some old) (hn : s.next ≤ n)
    (hc : ∀ i, vcnt i nv ≤ vcnt i old + e i)
    (he : ∀ i, e i ≤ 1 ∧ (0 < e i → scnt s i = 0 ∧ i < n)) :
    Inv { (setHolder s P nv) with next := n } := by
  have key : ∀ i, scnt (setHolder s P nv) i ≤ scnt s i + e i ∧ (scnt s i = 0 → scnt (setHolder s P nv) i ≤ e i) := by
    intro i
    have h1 := scnt_setHolder s P old nv i hold
    have h2 := scnt_holder_le s P old i hold
    have h3 := hc i
    constructor <;> omega
  refine ⟨?_, ?_, ?_⟩
  · intro x c hx
    have := hinv.wf x c (by cases P <;> first | exact hx | (simp only [setHolder, St.setProp] at hx; split at hx <;> exact hx))
    cases P with
    | v c' => simpa [setHolder] using this
    | p h p => simp only [setHolder, St.setProp]; split <;> exact this
  · intro i
    rw [scnt_next]
    obtain ⟨k1, k2⟩ := key i
    obtain ⟨e1, e2⟩ := he i
    have := hinv.uniq i
    rcases Nat.eq_zero_or_pos (e i) with h0 | hpos
    · omega
    · have := (e2 hpos).1; have := k2 this; omega
  · intro i hi
    rw [scnt_next] at hi
    obtain ⟨k1, k2⟩ := key i
    obtain ⟨e1, e2⟩ := he i
    show i < n
    rcases Nat.eq_zero_or_pos (e i) with h0 | hpos
    · have : 0 < scnt s i := by omega
      have := hinv.bound i this; omega
    · exact (e2 hpos).2

theorem Inv.next {s : St} (hinv : Inv s) (n : Nat) (hn : s.next ≤ n) : Inv { s with next := n } := by
  refine ⟨hinv.wf, hinv.uniq, ?_⟩
  intro a ha
  have := hinv.bound a ha
  show a < n
  omega

/-- a new object whose property values carry identities that do not occur in the state,
each at most once -/
theorem Inv.appendObj {s : St} (hinv : Inv s) (ps' : List Val) (n' : Nat) (hn : s.next ≤ n')
    (hfresh : ∀ i, cntVs i ps' ≤ 1 ∧ (0 < cntVs i ps' → scnt s i = 0 ∧ i < n')) :
    Inv { s with objs := s.objs ++ [ps'], next := n' } := by
  have hs : ∀ i, scnt { s with objs := s.objs ++ [ps'], next := n' } i = scnt s i + cntVs i ps' := by
    intro i
    simp only [scnt, cntOs, wsum_append, wsum]
    omega
  refine ⟨hinv.wf, ?_, ?_⟩
  · intro i
    rw [hs]
    obtain ⟨e1, e2⟩ := hfresh i
    have := hinv.uniq i
    rcases Nat.eq_zero_or_pos (cntVs i ps') with h0 | hpos
    · omega
    · have := (e2 hpos).1; omega
  · intro i hi
    rw [hs] at hi
    obtain ⟨e1, e2⟩ := hfresh i
    show i < n'
    rcases Nat.eq_zero_or_pos (cntVs i ps') with h0 | hpos
    · have := hinv.bound i (by omega); omega
    · exact (e2 hpos).2

/-- an identity at or beyond the allocator does not occur -/
theorem Inv.fresh {s : St} (hinv : Inv s) (i : Nat) (h : s.next ≤ i) : scnt s i = 0 := by
  rcases Nat.eq_zero_or_pos (scnt s i) with h0 | hpos
  · exact h0
  · have := hinv.bound i hpos; omega

end Proofs.Heap
