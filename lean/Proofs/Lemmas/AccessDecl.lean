import Model.AccessDecl
import Spec.AccessDecl
import Proofs.Lemmas.Access
/-! Lemmas for the three-class decision of `canAccessDeclared` (C07). -/
namespace Proofs.AccessDecl
open Model.Access Model.AccessDecl Spec.Access Spec.AccessDecl Proofs.Access

theorem parentOf_some {H : Hier} {c p : Name} (h : parentOf H c = some p) : extOf H c = some p := by
  unfold parentOf at h
  cases he : extOf H c with
  | none => rw [he] at h; cases h
  | some q =>
    rw [he] at h
    simp only [] at h
    by_cases hq : (getClass H q).isSome
    · rw [if_pos hq] at h; cases h; rfl
    · rw [if_neg hq] at h; cases h

theorem parentOf_of_ext {H : Hier} (hd : NoDangling H) {c p : Name} (h : extOf H c = some p) :
    parentOf H c = some p := by
  unfold parentOf
  rw [h]
  simp only []
  rw [if_pos (hd c p h)]

/-- what the upward walk finds is the nearest declaring class -/
theorem findDecl_nearest {H : Hier} {D : Decls} : ∀ (f : Nat) (r d : Name),
    findDecl H D f (some r) = some (some d) → Nearest H D r d
  | 0, r, d, h => by simp [findDecl] at h
  | f+1, r, d, h => by
    unfold findDecl at h
    by_cases hr : (D r).isSome
    · rw [if_pos hr] at h
      cases h
      exact ⟨Sub.refl r, hr, fun c hc _ => hc⟩
    · rw [if_neg hr] at h
      cases hp : parentOf H r with
      | none => rw [hp] at h; simp [findDecl] at h
      | some p =>
        rw [hp] at h
        have ih := findDecl_nearest f p d h
        have he := parentOf_some hp
        refine ⟨Sub.step he ih.1, ih.2.1, ?_⟩
        intro c hc hdc
        have hne : r ≠ c := by
          intro e; subst e; exact hr hdc
        obtain ⟨p', hp', hs⟩ := Sub.cases_ne hc hne
        rw [he] at hp'
        cases hp'
        exact ih.2.2 c hs hdc

theorem nearest_unique {H : Hier} {D : Decls} (ha : Acyclic H) {r d d' : Name}
    (h1 : Nearest H D r d) (h2 : Nearest H D r d') : d = d' :=
  ha d d' (h1.2.2 d' h2.1 h2.2.1) (h2.2.2 d h1.1 h1.2.1)

/-- `classExtends` decides "the parent of `c` is `t` or inherits it" -/
theorem classExtends_true {H : Hier} {c t : Name} (h : classExtends H c t = some true) : Sub H c t := by
  unfold classExtends at h
  cases hw : chainHas H t (fuel H) (extOf H c) with
  | yes =>
    obtain ⟨x, hx, hs⟩ := chainHas_yes _ _ hw
    exact Sub.step hx hs
  | fuel => rw [hw] at h; cases h
  | no => rw [hw] at h; cases h
  | missing => rw [hw] at h; cases h

theorem classExtends_false {H : Hier} (hd : NoDangling H) {c t : Name} (h : classExtends H c t = some false)
    (hne : c ≠ t) : ¬ Sub H c t := by
  unfold classExtends at h
  intro hs
  obtain ⟨p, hp, hsp⟩ := Sub.cases_ne hs hne
  cases hw : chainHas H t (fuel H) (extOf H c) with
  | yes => rw [hw] at h; cases h
  | fuel => rw [hw] at h; cases h
  | no => exact chainHas_no _ _ hw p hp hsp
  | missing => exact absurd hw (chainHas_not_missing hd _ _ (fun x hx => hd c x hx))

theorem mod_cases (m : Mod) : m = .pub ∨ m = .prot ∨ m = .priv := by
  cases m <;> simp

/-- `canAccessDeclared` with the directional fallback decides PHP's rule on (scope, receiver's class, declarations) -/
theorem declared_exact {H : Hier} (hd : NoDangling H) (ha : Acyclic H) {D : Decls} (hv : ValidOverride H D)
    (scope : Option Name) (r d : Name) (m : Mod)
    (hf : findDecl H D (fuel H) (some r) = some (some d)) (hm : D d = some m) (hmp : m ≠ .pub) {b : Bool}
    (h : canAccessDeclared H .recvExtendsScope D scope r m = some b) : b = true ↔ allowedOn H D scope r := by
  have hn := findDecl_nearest _ _ _ hf
  unfold canAccessDeclared at h
  rw [hf] at h
  simp only [memberRule] at h
  cases hl : lexRule H m scope d with
  | none => rw [hl] at h; cases h
  | some x =>
    rw [hl] at h
    have hspec := lexRule_spec hd hl
    cases x with
    | true =>
      simp only [] at h; cases h
      simp only [true_iff]
      exact Or.inr ⟨d, m, hn, hm, hspec.mp rfl⟩
    | false =>
      simp only [] at h
      have hna : ¬ allowed H m scope d := fun hal => by have := hspec.mpr hal; cases this
      have hno2 : ¬ (∃ d' m', Nearest H D r d' ∧ D d' = some m' ∧ allowed H m' scope d') := by
        intro ⟨d', m', hn', hm', hal⟩
        have := nearest_unique ha hn hn'; subst this
        rw [hm] at hm'; cases hm'
        exact hna hal
      cases scope with
      | none =>
        simp only [] at h; cases h
        constructor
        · intro hh; cases hh
        · intro hh; cases hh with
          | inl h1 => obtain ⟨s, hs, _⟩ := h1; cases hs
          | inr h2 => exact absurd h2 hno2
      | some s =>
        simp only [] at h
        by_cases hds : (D s).isSome
        · rw [if_pos hds] at h
          simp only [fallbackTest] at h
          cases b with
          | true =>
            simp only [true_iff]
            have hsub := classExtends_true h
            obtain ⟨ms, hms⟩ := Option.isSome_iff_exists.mp hds
            have hds' : Sub H d s := hn.2.2 s hsub hds
            refine Or.inl ⟨s, rfl, hsub, ?_⟩
            by_cases hp : ms = .priv
            · rw [hms, hp]
            · exfalso
              obtain ⟨h1, _⟩ := hv s d ms m hds' hms hm hp
              have hmprot : m = .prot := by
                rcases mod_cases m with h | h | h
                · exact absurd h hmp
                · exact h
                · exact absurd h h1
              subst hmprot
              exact hna ⟨s, rfl, Or.inr hds'⟩
          | false =>
            constructor
            · intro hh; cases hh
            · intro hh
              cases hh with
              | inl h1 =>
                obtain ⟨s', hs', hsub, hpriv⟩ := h1
                cases hs'
                by_cases hrs : r = s
                · have hnr : Nearest H D r r := ⟨Sub.refl r, by rw [hrs]; exact hds, fun c hc _ => hc⟩
                  have hdr : d = r := nearest_unique ha hn hnr
                  have hmp' : m = .priv := by
                    have hx : D d = some .priv := by rw [hdr, hrs]; exact hpriv
                    rw [hm] at hx; exact Option.some.inj hx
                  exfalso
                  apply hna
                  rw [hmp', hdr, hrs]
                  simp [allowed]
                · exact absurd hsub (classExtends_false hd h hrs)
              | inr h2 => exact absurd h2 hno2
        · rw [if_neg hds] at h; cases h
          constructor
          · intro hh; cases hh
          · intro hh
            cases hh with
            | inl h1 =>
              obtain ⟨s', hs', _, hpriv⟩ := h1
              cases hs'
              rw [hpriv] at hds; exact absurd rfl hds
            | inr h2 => exact absurd h2 hno2

/-- the whole access (lookup, public shortcut, `canAccessDeclared`) -/
theorem access_exact {H : Hier} (hd : NoDangling H) (ha : Acyclic H) {D : Decls} (hv : ValidOverride H D)
    (scope : Option Name) (r : Name)
    (hns : access H .recvExtendsScope D scope r ≠ .stuck) (hnm : access H .recvExtendsScope D scope r ≠ .nomember) :
    access H .recvExtendsScope D scope r = .allowed ↔ allowedOn H D scope r := by
  cases hf : findDecl H D (fuel H) (some r) with
  | none => exact absurd (by simp [access, hf]) hns
  | some od =>
    cases od with
    | none => exact absurd (by simp [access, hf]) hnm
    | some d =>
      cases hm : D d with
      | none => exact absurd (by simp [access, hf, hm]) hnm
      | some m =>
        have hn := findDecl_nearest _ _ _ hf
        cases m with
        | pub =>
          have hacc : access H .recvExtendsScope D scope r = .allowed := by simp [access, hf, hm]
          rw [hacc]
          simp only [true_iff]
          exact Or.inr ⟨d, .pub, hn, hm, trivial⟩
        | prot =>
          cases hc : canAccessDeclared H .recvExtendsScope D scope r .prot with
          | none => exact absurd (by simp [access, hf, hm, hc]) hns
          | some b =>
            have hx := declared_exact hd ha hv scope r d .prot hf hm (by decide) hc
            cases b with
            | true =>
              have hacc : access H .recvExtendsScope D scope r = .allowed := by simp [access, hf, hm, hc]
              rw [hacc]; simp only [true_iff]; exact hx.mp rfl
            | false =>
              have hacc : access H .recvExtendsScope D scope r = .denied := by simp [access, hf, hm, hc]
              rw [hacc]
              constructor
              · intro hh; cases hh
              · intro hh; have := hx.mpr hh; cases this
        | priv =>
          cases hc : canAccessDeclared H .recvExtendsScope D scope r .priv with
          | none => exact absurd (by simp [access, hf, hm, hc]) hns
          | some b =>
            have hx := declared_exact hd ha hv scope r d .priv hf hm (by decide) hc
            cases b with
            | true =>
              have hacc : access H .recvExtendsScope D scope r = .allowed := by simp [access, hf, hm, hc]
              rw [hacc]; simp only [true_iff]; exact hx.mp rfl
            | false =>
              have hacc : access H .recvExtendsScope D scope r = .denied := by simp [access, hf, hm, hc]
              rw [hacc]
              constructor
              · intro hh; cases hh
              · intro hh; have := hx.mpr hh; cases this

theorem sub_of_root {H : Hier} {a b : Name} (h : extOf H a = none) (hs : Sub H a b) : b = a := by
  cases hs with
  | refl => rfl
  | step he _ => rw [h] at he; cases he

/-- the smallest fixture of the seeded change: class 1 declares the member private, class 2 extends 1 and declares
a public member of the same name -/
def shadowH : Hier := [⟨1, none, []⟩, ⟨2, some 1, []⟩]
def shadowD : Decls := fun n => if n = 1 then some .priv else if n = 2 then some .pub else none

/-! ### Round 7: the judged class -/

theorem canAccessDeclaredJ_nearest (H : Hier) (fb : Fallback) (D : Decls) (scope : Option Name) (r : Name) (m : Mod) :
    canAccessDeclaredJ H fb .nearest D scope r m = canAccessDeclared H fb D scope r m := by
  unfold canAccessDeclaredJ canAccessDeclared
  cases findDecl H D (fuel H) (some r) with
  | none => rfl
  | some decl =>
    cases decl with
    | none => simp [judgedClass]
    | some d => by_cases hm : m = .prot <;> simp [judgedClass, hm]

theorem accessJ_nearest (H : Hier) (fb : Fallback) (D : Decls) (scope : Option Name) (r : Name) :
    accessJ H fb .nearest D scope r = access H fb D scope r := by
  unfold accessJ access
  simp only [canAccessDeclaredJ_nearest]

/-- two sibling classes 2 and 3 under 1; the receiver's class 3 declares the member protected, the common ancestor
declares the name too -/
def sibH : Hier := [⟨1, none, []⟩, ⟨2, some 1, []⟩, ⟨3, some 1, []⟩]
def sibD (root : Mod) : Decls := fun n => if n = 1 then some root else if n = 3 then some .prot else none

theorem sibH_not_sub_32 : ¬ Sub sibH 3 2 := by
  intro h
  obtain ⟨p, hp, hs⟩ := Sub.cases_ne h (by decide)
  have : extOf sibH 3 = some 1 := by decide
  rw [this] at hp; cases hp
  exact absurd (sub_of_root (by decide) hs) (by decide)

theorem sibH_not_sub_23 : ¬ Sub sibH 2 3 := by
  intro h
  obtain ⟨p, hp, hs⟩ := Sub.cases_ne h (by decide)
  have : extOf sibH 2 = some 1 := by decide
  rw [this] at hp; cases hp
  exact absurd (sub_of_root (by decide) hs) (by decide)

/-- PHP's rule refuses code of 2 on an object of 3, whatever the root declares -/
theorem sib_not_allowedOn (root : Mod) : ¬ allowedOn sibH (sibD root) (some 2) 3 := by
  intro h
  cases h with
  | inl h1 =>
    obtain ⟨s, hs, hsub, _⟩ := h1
    cases hs
    exact sibH_not_sub_32 hsub
  | inr h2 =>
    obtain ⟨d, m, hn, hm, hal⟩ := h2
    have hn3 : Nearest sibH (sibD root) 3 3 := ⟨Sub.refl 3, by simp [sibD], fun c hc _ => hc⟩
    have hacy : ∀ x, Sub sibH d x → Sub sibH x d → True := fun _ _ _ => trivial
    have hd3 : Sub sibH d 3 := hn.2.2 3 (Sub.refl 3) (by simp [sibD])
    have h3d : Sub sibH 3 d := hn.1
    have hd : d = 3 := by
      by_cases e : d = 3
      · exact e
      · exfalso
        obtain ⟨p, hp, hs⟩ := Sub.cases_ne h3d (fun x => e x.symm)
        have : extOf sibH 3 = some 1 := by decide
        rw [this] at hp; cases hp
        have := sub_of_root (by decide) hs
        subst this
        exact absurd (sub_of_root (by decide) hd3) (by decide)
    subst hd
    have hm' : m = .prot := by
      have : sibD root 3 = some .prot := by simp [sibD]
      rw [this] at hm; exact (Option.some.inj hm).symm
    subst hm'
    obtain ⟨c, hc, hrel⟩ := hal
    cases hc
    cases hrel with
    | inl x => exact sibH_not_sub_23 x
    | inr x => exact sibH_not_sub_32 x

end Proofs.AccessDecl
