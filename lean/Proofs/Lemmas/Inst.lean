import Model.Inst
import Spec.Inst
/-! Helper lemmas for C07: an empty list of missing methods means every requirement is provided. -/
namespace Proofs.Inst
open Model.Inst Spec.Inst

theorem append_nil {a b : Coll} (h : Coll.append a b = .got []) : a = .got [] ∧ b = .got [] := by
  cases a with
  | fuel => simp [Coll.append] at h
  | err => simp [Coll.append] at h
  | got x =>
    cases b with
    | fuel => simp [Coll.append] at h
    | err => simp [Coll.append] at h
    | got y =>
      simp only [Coll.append, Coll.got.injEq, List.append_eq_nil_iff] at h
      simp [h.1, h.2]

theorem collAll_nil {g : Name → Coll} : ∀ {l : List Name}, collAll g l = .got [] → ∀ x, x ∈ l → g x = .got []
  | [], _ => by intro x hx; cases hx
  | y :: r, h => by
    intro x hx
    unfold collAll at h
    cases hg : g y with
    | fuel => rw [hg] at h; cases h
    | err => rw [hg] at h; cases h
    | got a =>
      rw [hg] at h
      simp only [] at h
      obtain ⟨h1, h2⟩ := append_nil h
      cases List.mem_cons.mp hx with
      | inl e => rw [e, hg]; exact h1
      | inr m => exact collAll_nil h2 x m

theorem ownMissing_nil {impl : Name → Option Bool} {o : Name} :
    ∀ {ms : List Name}, ownMissing impl o ms = .got [] → ∀ m, m ∈ ms → impl m = some true
  | [], _ => by intro m hm; cases hm
  | y :: r, h => by
    intro m hm
    unfold ownMissing at h
    cases hi : impl y with
    | none => rw [hi] at h; cases h
    | some b =>
      rw [hi] at h
      cases b with
      | false =>
        simp only [] at h
        have := (append_nil h).1
        cases this
      | true =>
        simp only [] at h
        cases List.mem_cons.mp hm with
        | inl e => rw [e]; exact hi
        | inr m' => exact ownMissing_nil h m m'

theorem ifaceMissing_nil {W : World} {impl : Name → Option Bool} : ∀ (f : Nat) (i : Name),
    ifaceMissing W impl f i = .got [] →
    ∀ j e, IReach W i j → getIface W j = some e → ∀ m, m ∈ e.meths → impl m = some true
  | 0, _, h => by simp [ifaceMissing] at h
  | f+1, i, h => by
    intro j e hr he m hm
    unfold ifaceMissing at h
    cases hg : getIface W i with
    | none => rw [hg] at h; cases h
    | some d =>
      rw [hg] at h
      simp only [] at h
      obtain ⟨h1, h2⟩ := append_nil h
      cases hr with
      | refl =>
        rw [hg] at he; cases he
        exact ownMissing_nil h1 m hm
      | step hd hk hrest =>
        rw [hg] at hd; cases hd
        have := collAll_nil h2 _ hk
        exact ifaceMissing_nil f _ this j e hrest he m hm

theorem parentMissing_nil {W : World} {impl : Name → Option Bool} : ∀ (f : Nat) (p : ACls),
    parentMissing W impl f p = .got [] →
    ∀ a, Anc W p a →
      (∀ m, m ∈ a.abstr → impl m = some true) ∧
      (∀ i j e, i ∈ a.impl → IReach W i j → getIface W j = some e → ∀ m, m ∈ e.meths → impl m = some true)
  | 0, _, h => by simp [parentMissing] at h
  | f+1, p, h => by
    intro a ha
    unfold parentMissing at h
    obtain ⟨h1, h23⟩ := append_nil h
    obtain ⟨h2, h3⟩ := append_nil h23
    cases ha with
    | refl =>
      refine ⟨fun m hm => ownMissing_nil h1 m hm, ?_⟩
      intro i j e hi hr he m hm
      exact ifaceMissing_nil _ _ (collAll_nil h2 i hi) j e hr he m hm
    | step hext hget hrest =>
      rw [hext] at h3
      simp only [] at h3
      rw [hget] at h3
      simp only [] at h3
      exact parentMissing_nil f _ h3 a hrest

theorem implementsM_true {W : World} {m : Name} : ∀ (f : Nat) (c : ACls),
    implementsM W m f c = some true → Provides W c m
  | 0, _, h => by simp [implementsM] at h
  | f+1, c, h => by
    unfold implementsM at h
    by_cases hc : c.concrete.contains m = true
    · exact ⟨c, Anc.refl c, by simpa using hc⟩
    · rw [if_neg hc] at h
      cases hext : c.ext with
      | none => rw [hext] at h; cases h
      | some p =>
        rw [hext] at h
        simp only [] at h
        cases hg : getClass W p with
        | none => rw [hg] at h; cases h
        | some d =>
          rw [hg] at h
          simp only [] at h
          obtain ⟨a, ha, hm⟩ := implementsM_true f d h
          exact ⟨a, Anc.step hext hg ha, hm⟩

theorem collect_nil {W : World} {c : ACls} (h : collect W c = .got []) : Complete W c := by
  unfold collect at h
  simp only [] at h
  obtain ⟨h1, h2⟩ := append_nil h
  intro m hreq
  have key : implementsM W m (fuelC W) c = some true := by
    cases hreq with
    | inl hr =>
      obtain ⟨p, d, a, hext, hget, hanc, hm⟩ := hr
      rw [hext] at h2
      simp only [] at h2
      rw [hget] at h2
      simp only [] at h2
      exact (parentMissing_nil _ _ h2 a hanc).1 m hm
    | inr hr =>
      obtain ⟨a, i, j, e, hanc, hi, hreach, he, hm⟩ := hr
      cases hanc with
      | refl => exact ifaceMissing_nil _ _ (collAll_nil h1 i hi) j e hreach he m hm
      | step hext hget hrest =>
        rw [hext] at h2
        simp only [] at h2
        rw [hget] at h2
        simp only [] at h2
        exact (parentMissing_nil _ _ h2 a hrest).2 i j e hi hreach he m hm
  exact implementsM_true _ _ key

theorem validate_ok {W : World} {c : ACls} (h : validate W c = .ok) : c.abstr = [] ∧ Complete W c := by
  unfold validate at h
  by_cases ha : c.abstr ≠ []
  · rw [if_pos ha] at h; cases h
  · rw [if_neg ha] at h
    have ha' : c.abstr = [] := by simpa using ha
    refine ⟨ha', ?_⟩
    cases hc : collect W c with
    | fuel => rw [hc] at h; cases h
    | err => rw [hc] at h; cases h
    | got l =>
      rw [hc] at h
      cases l with
      | nil => exact collect_nil hc
      | cons _ _ => cases h

theorem instChain_ok_head {W : World} : ∀ (f : Nat) (c : ACls), instChain W f c = .ok →
    c.isAbstract = false → validate W c = .ok
  | 0, _, h, _ => by simp [instChain] at h
  | f+1, c, h, hna => by
    unfold instChain at h
    simp only [hna, Bool.false_eq_true, if_false] at h
    cases hv : validate W c with
    | ok => rfl
    | abstr => rw [hv] at h; cases h
    | noClass => rw [hv] at h; cases h
    | selfAbstract => rw [hv] at h; cases h
    | missing => rw [hv] at h; cases h
    | stuck => rw [hv] at h; cases h

theorem instantiate_ok {W : World} {n : Name} (h : instantiate W n = .ok) :
    ∃ c, getClass W n = some c ∧ c.isAbstract = false ∧ c.abstr = [] ∧ Complete W c := by
  unfold instantiate at h
  cases hg : getClass W n with
  | none => rw [hg] at h; cases h
  | some c =>
    rw [hg] at h
    simp only [] at h
    cases ha : c.isAbstract with
    | true => rw [ha] at h; simp at h
    | false =>
      rw [ha] at h
      simp only [Bool.false_eq_true, if_false] at h
      have := validate_ok (instChain_ok_head _ _ h ha)
      exact ⟨c, rfl, ha, this.1, this.2⟩

end Proofs.Inst
