import Model.Inst
import Spec.Inst
/-! Helper lemmas for C07: an empty list of missing methods means every requirement is provided. -/
namespace Proofs.Inst
open Model.Inst Spec.Inst

theorem append_nil {a b : Coll} (h : Coll.append a b = .got []) : a = .got [] ∧ b = .got [] := by
  cases a with
  | fuel => simp [Coll.append] at h
  | err => simp [Coll.append] at h
  | got x =>
    cases b with
    | fuel => simp [Coll.append] at h
    | err => simp [Coll.append] at h
    | got y =>
      simp only [Coll.append, Coll.got.injEq, List.append_eq_nil_iff] at h
      simp [h.1, h.2]

theorem collAll_nil {g : Name → Coll} : ∀ {l : List Name}, collAll g l = .got [] → ∀ x, x ∈ l → g x = .got []
  | [], _ => by intro x hx; cases hx
  | y :: r, h => by
    intro x hx
    unfold collAll at h
    cases hg : g y with
    | fuel => rw [hg] at h; cases h
    | err => rw [hg] at h; cases h
    | got a =>
      rw [hg] at h
      simp only [] at h
      obtain ⟨h1, h2⟩ := append_nil h
      cases List.mem_cons.mp hx with
      | inl e => rw [e, hg]; exact h1
      | inr m => exact collAll_nil h2 x m

theorem ownMissing_nil {impl : Name → Option Bool} {o : Name} :
    ∀ {ms : List Name}, ownMissing impl o ms = .got [] → ∀ m, m ∈ ms → impl m = some true
  | [], _ => by intro m hm; cases hm
  | y :: r, h => by
    intro m hm
    unfold ownMissing at h
    cases hi : impl y with
    | none => rw [hi] at h; cases h
    | some b =>
      rw [hi] at h
      cases b with
      | false =>
        simp only [] at h
        have := (append_nil h).1
        cases this
      | true =>
        simp only [] at h
        cases List.mem_cons.mp hm with
        | inl e => rw [e]; exact hi
        | inr m' => exact ownMissing_nil h m m'

theorem ifaceMissing_nil {W : World} {impl : Name → Option Bool} : ∀ (f : Nat) (i : Name),
    ifaceMissing W impl f i = .got [] →
    ∀ j e, IReach W i j → getIface W j = some e → ∀ m, m ∈ e.meths → impl m = some true
  | 0, _, h => by simp [ifaceMissing] at h
  | f+1, i, h => by
    intro j e hr he m hm
    unfold ifaceMissing at h
    cases hg : getIface W i with
    | none => rw [hg] at h; cases h
    | some d =>
      rw [hg] at h
      simp only [] at h
      obtain ⟨h1, h2⟩ := append_nil h
      cases hr with
      | refl =>
        rw [hg] at he; cases he
        exact ownMissing_nil h1 m hm
      | step hd hk hrest =>
        rw [hg] at hd; cases hd
        have := collAll_nil h2 _ hk
        exact ifaceMissing_nil f _ this j e hrest he m hm

theorem parentMissing_nil {W : World} {impl : Name → Option Bool} : ∀ (f : Nat) (p : ACls),
    parentMissing W impl f p = .got [] →
    ∀ a, Anc W p a →
      (∀ m, m ∈ a.abstr → impl m = some true) ∧
      (∀ i j e, i ∈ a.impl → IReach W i j → getIface W j = some e → ∀ m, m ∈ e.meths → impl m = some true)
  | 0, _, h => by simp [parentMissing] at h
  | f+1, p, h => by
    intro a ha
    unfold parentMissing at h
    obtain ⟨h1, h23⟩ := append_nil h
    obtain ⟨h2, h3⟩ := append_nil h23
    cases ha with
    | refl =>
      refine ⟨fun m hm => ownMissing_nil h1 m hm, ?_⟩
      intro i j e hi hr he m hm
      exact ifaceMissing_nil _ _ (collAll_nil h2 i hi) j e hr he m hm
    | step hext hget hrest =>
      rw [hext] at h3
      simp only [] at h3
      rw [hget] at h3
      simp only [] at h3
      exact parentMissing_nil f _ h3 a hrest

theorem implementsM_true {W : World} {m : Name} : ∀ (f : Nat) (c : ACls),
    implementsM W m f c = some true → Provides W c m
  | 0, _, h => by simp [implementsM] at h
  | f+1, c, h => by
    unfold implementsM at h
    by_cases hc : c.concrete.contains m = true
    · exact ⟨c, Anc.refl c, by simpa using hc⟩
    · rw [if_neg hc] at h
      cases hext : c.ext with
      | none => rw [hext] at h; cases h
      | some p =>
        rw [hext] at h
        simp only [] at h
        cases hg : getClass W p with
        | none => rw [hg] at h; cases h
        | some d =>
          rw [hg] at h
          simp only [] at h
          obtain ⟨a, ha, hm⟩ := implementsM_true f d h
          exact ⟨a, Anc.step hext hg ha, hm⟩

theorem collect_nil {W : World} {c : ACls} (h : collect W c = .got []) : Complete W c := by
  unfold collect at h
  simp only [] at h
  obtain ⟨h1, h2⟩ := append_nil h
  intro m hreq
  have key : implementsM W m (fuelC W) c = some true := by
    cases hreq with
    | inl hr =>
      obtain ⟨p, d, a, hext, hget, hanc, hm⟩ := hr
      rw [hext] at h2
      simp only [] at h2
      rw [hget] at h2
      simp only [] at h2
      exact (parentMissing_nil _ _ h2 a hanc).1 m hm
    | inr hr =>
      obtain ⟨a, i, j, e, hanc, hi, hreach, he, hm⟩ := hr
      cases hanc with
      | refl => exact ifaceMissing_nil _ _ (collAll_nil h1 i hi) j e hreach he m hm
      | step hext hget hrest =>
        rw [hext] at h2
        simp only [] at h2
        rw [hget] at h2
        simp only [] at h2
        exact (parentMissing_nil _ _ h2 a hrest).2 i j e hi hreach he m hm
  exact implementsM_true _ _ key

theorem validate_ok {W : World} {c : ACls} (h : validate W c = .ok) : c.abstr = [] ∧ Complete W c := by
  unfold validate at h
  by_cases ha : c.abstr ≠ []
  · rw [if_pos ha] at h; cases h
  · rw [if_neg ha] at h
    have ha' : c.abstr = [] := by simpa using ha
    refine ⟨ha', ?_⟩
    cases hc : collect W c with
    | fuel => rw [hc] at h; cases h
    | err => rw [hc] at h; cases h
    | got l =>
      rw [hc] at h
      cases l with
      | nil => exact collect_nil hc
      | cons _ _ => cases h

theorem instChain_ok_head {W : World} : ∀ (f : Nat) (c : ACls), instChain W f c = .ok →
    c.isAbstract = false → validate W c = .ok
  | 0, _, h, _ => by simp [instChain] at h
  | f+1, c, h, hna => by
    unfold instChain at h
    simp only [hna, Bool.false_eq_true, if_false] at h
    cases hv : validate W c with
    | ok => rfl
    | abstr => rw [hv] at h; cases h
    | noClass => rw [hv] at h; cases h
    | selfAbstract => rw [hv] at h; cases h
    | missing => rw [hv] at h; cases h
    | stuck => rw [hv] at h; cases h

theorem instantiate_ok {W : World} {n : Name} (h : instantiate W n = .ok) :
    ∃ c, getClass W n = some c ∧ c.isAbstract = false ∧ c.abstr = [] ∧ Complete W c := by
  unfold instantiate at h
  cases hg : getClass W n with
  | none => rw [hg] at h; cases h
  | some c =>
    rw [hg] at h
    simp only [] at h
    cases ha : c.isAbstract with
    | true => rw [ha] at h; simp at h
    | false =>
      rw [ha] at h
      simp only [Bool.false_eq_true, if_false] at h
      have := validate_ok (instChain_ok_head _ _ h ha)
      exact ⟨c, rfl, ha, this.1, this.2⟩

end Proofs.Inst

/-! ### the converse: a refusal names a real gap -/
namespace Proofs.Inst
open Model.Inst Spec.Inst

theorem append_got {a b : Coll} {l : List (Name × Name)} (h : Coll.append a b = .got l) :
    ∃ la lb, a = .got la ∧ b = .got lb ∧ l = la ++ lb := by
  cases a with
  | fuel => simp [Coll.append] at h
  | err => simp [Coll.append] at h
  | got x =>
    cases b with
    | fuel => simp [Coll.append] at h
    | err => simp [Coll.append] at h
    | got y =>
      simp only [Coll.append, Coll.got.injEq] at h
      exact ⟨x, y, rfl, rfl, h.symm⟩

theorem collAll_got {g : Name → Coll} : ∀ {xs : List Name} {l : List (Name × Name)}, collAll g xs = .got l →
    ∀ e, e ∈ l → ∃ x l', x ∈ xs ∧ g x = .got l' ∧ e ∈ l'
  | [], l, h => by
    simp only [collAll, Coll.got.injEq] at h
    subst h
    intro e he; cases he
  | y :: r, l, h => by
    intro e he
    unfold collAll at h
    cases hg : g y with
    | fuel => rw [hg] at h; cases h
    | err => rw [hg] at h; cases h
    | got a =>
      rw [hg] at h
      simp only [] at h
      obtain ⟨la, lb, h1, h2, h3⟩ := append_got h
      have hla : la = a := by cases h1; rfl
      subst h3
      cases List.mem_append.mp he with
      | inl h' => exact ⟨y, a, List.mem_cons_self, hg, hla ▸ h'⟩
      | inr h' =>
        obtain ⟨x, l', hx, hgx, hel⟩ := collAll_got h2 e h'
        exact ⟨x, l', List.mem_cons_of_mem _ hx, hgx, hel⟩

theorem ownMissing_got {impl : Name → Option Bool} {o : Name} :
    ∀ {ms : List Name} {l : List (Name × Name)}, ownMissing impl o ms = .got l →
      ∀ e, e ∈ l → e.2 ∈ ms ∧ impl e.2 = some false
  | [], l, h => by
    simp only [ownMissing, Coll.got.injEq] at h
    subst h
    intro e he; cases he
  | y :: r, l, h => by
    intro e he
    unfold ownMissing at h
    cases hi : impl y with
    | none => rw [hi] at h; cases h
    | some b =>
      rw [hi] at h
      cases b with
      | true =>
        simp only [] at h
        obtain ⟨h1, h2⟩ := ownMissing_got h e he
        exact ⟨List.mem_cons_of_mem _ h1, h2⟩
      | false =>
        simp only [] at h
        obtain ⟨la, lb, h1, h2, h3⟩ := append_got h
        cases h1
        subst h3
        cases List.mem_append.mp he with
        | inl h' =>
          simp only [List.mem_singleton] at h'
          subst h'
          exact ⟨List.mem_cons_self, hi⟩
        | inr h' =>
          obtain ⟨h1, h2⟩ := ownMissing_got h2 e h'
          exact ⟨List.mem_cons_of_mem _ h1, h2⟩

theorem ifaceMissing_got {W : World} {impl : Name → Option Bool} : ∀ (f : Nat) (i : Name) (l : List (Name × Name)),
    ifaceMissing W impl f i = .got l →
    ∀ e, e ∈ l → impl e.2 = some false ∧ ∃ j d, IReach W i j ∧ getIface W j = some d ∧ e.2 ∈ d.meths
  | 0, _, _, h => by simp [ifaceMissing] at h
  | f+1, i, l, h => by
    intro e he
    unfold ifaceMissing at h
    cases hg : getIface W i with
    | none => rw [hg] at h; cases h
    | some d =>
      rw [hg] at h
      simp only [] at h
      obtain ⟨la, lb, h1, h2, h3⟩ := append_got h
      subst h3
      cases List.mem_append.mp he with
      | inl h' =>
        obtain ⟨hm, hi⟩ := ownMissing_got h1 e h'
        exact ⟨hi, i, d, IReach.refl i, hg, hm⟩
      | inr h' =>
        obtain ⟨k, l', hk, hgk, hel⟩ := collAll_got h2 e h'
        obtain ⟨hi, j, d', hr, hj, hm⟩ := ifaceMissing_got f k l' hgk e hel
        exact ⟨hi, j, d', IReach.step hg hk hr, hj, hm⟩

/-- `m` is required of a class below `p` because of `p` or a class above it -/
def ReqFrom (W : World) (p : ACls) (m : Name) : Prop :=
  (∃ a, Anc W p a ∧ m ∈ a.abstr) ∨
  (∃ a i j d, Anc W p a ∧ i ∈ a.impl ∧ IReach W i j ∧ getIface W j = some d ∧ m ∈ d.meths)

theorem parentMissing_got {W : World} {impl : Name → Option Bool} : ∀ (f : Nat) (p : ACls) (l : List (Name × Name)),
    parentMissing W impl f p = .got l → ∀ e, e ∈ l → impl e.2 = some false ∧ ReqFrom W p e.2
  | 0, _, _, h => by simp [parentMissing] at h
  | f+1, p, l, h => by
    intro e he
    unfold parentMissing at h
    obtain ⟨la, lbc, h1, h23, h3⟩ := append_got h
    obtain ⟨lb, lc, h2, hc, h4⟩ := append_got h23
    subst h3; subst h4
    cases List.mem_append.mp he with
    | inl h' =>
      obtain ⟨hm, hi⟩ := ownMissing_got h1 e h'
      exact ⟨hi, Or.inl ⟨p, Anc.refl p, hm⟩⟩
    | inr h' =>
      cases List.mem_append.mp h' with
      | inl h'' =>
        obtain ⟨i, l', hi, hgi, hel⟩ := collAll_got h2 e h''
        obtain ⟨him, j, d, hr, hj, hm⟩ := ifaceMissing_got _ i l' hgi e hel
        exact ⟨him, Or.inr ⟨p, i, j, d, Anc.refl p, hi, hr, hj, hm⟩⟩
      | inr h'' =>
        cases hext : p.ext with
        | none =>
          rw [hext] at hc
          simp only [Coll.got.injEq] at hc
          subst hc
          cases h''
        | some g =>
          rw [hext] at hc
          simp only [] at hc
          cases hg : getClass W g with
          | none => rw [hg] at hc; cases hc
          | some gd =>
            rw [hg] at hc
            simp only [] at hc
            obtain ⟨him, hreq⟩ := parentMissing_got f gd lc hc e h''
            refine ⟨him, ?_⟩
            cases hreq with
            | inl hr =>
              obtain ⟨a, ha, hm⟩ := hr
              exact Or.inl ⟨a, Anc.step hext hg ha, hm⟩
            | inr hr =>
              obtain ⟨a, i, j, d, ha, hi, hrr, hj, hm⟩ := hr
              exact Or.inr ⟨a, i, j, d, Anc.step hext hg ha, hi, hrr, hj, hm⟩

theorem implementsM_false {W : World} {m : Name} : ∀ (f : Nat) (c : ACls),
    implementsM W m f c = some false → ¬ Provides W c m
  | 0, _, h => by simp [implementsM] at h
  | f+1, c, h => by
    unfold implementsM at h
    by_cases hc : c.concrete.contains m = true
    · rw [if_pos hc] at h; cases h
    · rw [if_neg hc] at h
      have hnm : m ∉ c.concrete := by simpa using hc
      intro ⟨a, ha, hm⟩
      cases ha with
      | refl => exact hnm hm
      | step hext hget hrest =>
        rw [hext] at h
        simp only [] at h
        rw [hget] at h
        simp only [] at h
        exact implementsM_false f _ h ⟨a, hrest, hm⟩

theorem validate_missing {W : World} {c : ACls} (h : validate W c = .missing) : ¬ Complete W c := by
  unfold validate at h
  by_cases ha : c.abstr ≠ []
  · rw [if_pos ha] at h; cases h
  · rw [if_neg ha] at h
    cases hc : collect W c with
    | fuel => rw [hc] at h; cases h
    | err => rw [hc] at h; cases h
    | got l =>
      rw [hc] at h
      cases l with
      | nil => cases h
      | cons e rest =>
        unfold collect at hc
        simp only [] at hc
        obtain ⟨la, lb, h1, h2, h3⟩ := append_got hc
        have he : e ∈ la ++ lb := by rw [← h3]; exact List.mem_cons_self
        intro hcomp
        have key : implementsM W e.2 (fuelC W) c = some false ∧ Requires W c e.2 := by
          cases List.mem_append.mp he with
          | inl h' =>
            obtain ⟨i, l', hi, hgi, hel⟩ := collAll_got h1 e h'
            obtain ⟨him, j, d, hr, hj, hm⟩ := ifaceMissing_got _ i l' hgi e hel
            exact ⟨him, Or.inr ⟨c, i, j, d, Anc.refl c, hi, hr, hj, hm⟩⟩
          | inr h' =>
            cases hext : c.ext with
            | none =>
              rw [hext] at h2
              simp only [Coll.got.injEq] at h2
              subst h2
              cases h'
            | some p =>
              rw [hext] at h2
              simp only [] at h2
              cases hg : getClass W p with
              | none => rw [hg] at h2; cases h2
              | some d =>
                rw [hg] at h2
                simp only [] at h2
                obtain ⟨him, hreq⟩ := parentMissing_got _ d lb h2 e h'
                refine ⟨him, ?_⟩
                cases hreq with
                | inl hr =>
                  obtain ⟨a, ha, hm⟩ := hr
                  exact Or.inl ⟨p, d, a, hext, hg, ha, hm⟩
                | inr hr =>
                  obtain ⟨a, i, j, d', ha, hi, hrr, hj, hm⟩ := hr
                  exact Or.inr ⟨a, i, j, d', Anc.step hext hg ha, hi, hrr, hj, hm⟩
        exact implementsM_false _ _ key.1 (hcomp _ key.2)

theorem validate_selfAbstract {W : World} {c : ACls} (h : validate W c = .selfAbstract) : c.abstr ≠ [] := by
  unfold validate at h
  by_cases ha : c.abstr ≠ []
  · exact ha
  · rw [if_neg ha] at h
    cases hc : collect W c with
    | fuel => rw [hc] at h; cases h
    | err => rw [hc] at h; cases h
    | got l => rw [hc] at h; cases l <;> cases h

/-- a refusal for incompleteness comes from a non-abstract class in the chain that fails its validation -/
theorem instChain_refusal {W : World} : ∀ (f : Nat) (c : ACls) (r : InstOut), instChain W f c = r →
    r = .missing ∨ r = .selfAbstract → ∃ a, Anc W c a ∧ a.isAbstract = false ∧ validate W a = r
  | 0, _, r, h, hr => by
    simp only [instChain] at h
    subst h
    cases hr with
    | inl h => cases h
    | inr h => cases h
  | f+1, c, r, h, hr => by
    unfold instChain at h
    cases ha : c.isAbstract with
    | true =>
      rw [ha] at h
      simp only [if_true] at h
      cases hext : c.ext with
      | none => rw [hext] at h; subst h; cases hr with | inl h => cases h | inr h => cases h
      | some p =>
        rw [hext] at h
        simp only [] at h
        cases hg : getClass W p with
        | none => rw [hg] at h; subst h; cases hr with | inl h => cases h | inr h => cases h
        | some d =>
          rw [hg] at h
          simp only [] at h
          obtain ⟨a, haa, hab, hv⟩ := instChain_refusal f d r h hr
          exact ⟨a, Anc.step hext hg haa, hab, hv⟩
    | false =>
      rw [ha] at h
      simp only [Bool.false_eq_true, if_false] at h
      cases hv : validate W c with
      | ok =>
        rw [hv] at h
        simp only [] at h
        cases hext : c.ext with
        | none => rw [hext] at h; subst h; cases hr with | inl h => cases h | inr h => cases h
        | some p =>
          rw [hext] at h
          simp only [] at h
          cases hg : getClass W p with
          | none => rw [hg] at h; subst h; cases hr with | inl h => cases h | inr h => cases h
          | some d =>
            rw [hg] at h
            simp only [] at h
            obtain ⟨a, haa, hab, hv'⟩ := instChain_refusal f d r h hr
            exact ⟨a, Anc.step hext hg haa, hab, hv'⟩
      | abstr => rw [hv] at h; subst h; exact ⟨c, Anc.refl c, ha, hv⟩
      | noClass => rw [hv] at h; subst h; exact ⟨c, Anc.refl c, ha, hv⟩
      | selfAbstract => rw [hv] at h; subst h; exact ⟨c, Anc.refl c, ha, hv⟩
      | missing => rw [hv] at h; subst h; exact ⟨c, Anc.refl c, ha, hv⟩
      | stuck => rw [hv] at h; subst h; exact ⟨c, Anc.refl c, ha, hv⟩

end Proofs.Inst
