import Proofs.Lemmas.WirePrim
/-! Progress of the primitives, fuel sufficiency of the parser, depth limit. -/
namespace Proofs.Wire
open Model.Wire Spec.Wire

theorem cvAux_lt (k : Nat) : ∀ (b : Bytes) (v : Nat) (rest : Bytes),
    cvAux k b = some (v, rest) → rest.length < b.length := by
  induction k with
  | zero => intro b v rest h; simp [cvAux] at h
  | succ k ih =>
    intro b v rest h
    cases b with
    | nil => simp [cvAux] at h
    | cons x xs =>
      simp only [cvAux] at h
      split at h
      · split at h
        · simp at h
        · simp only [Option.some.injEq, Prod.mk.injEq] at h
          rw [← h.2]; simp
      · cases hr : cvAux k xs with
        | none => simp [hr] at h
        | some p =>
          obtain ⟨v', r'⟩ := p
          simp only [hr, Option.some.injEq, Prod.mk.injEq] at h
          have := ih xs v' r' hr
          rw [← h.2]; simp; omega

theorem consumeVarint_lt {b : Bytes} {v : Nat} {rest : Bytes} (h : consumeVarint b = some (v, rest)) :
    rest.length < b.length := cvAux_lt 10 b v rest h

theorem consumeTag_lt {b : Bytes} {num wt : Nat} {rest : Bytes} (h : consumeTag b = some (num, wt, rest)) :
    rest.length < b.length := by
  unfold consumeTag at h
  cases hv : consumeVarint b with
  | none => simp [hv] at h
  | some p =>
    obtain ⟨x, r⟩ := p
    simp only [hv] at h
    split at h
    · simp at h
    · split at h
      · simp at h
      · simp only [Option.some.injEq, Prod.mk.injEq] at h
        rw [← h.2.2]; exact consumeVarint_lt hv

theorem consumeFixed32_lt {b : Bytes} {v : Nat} {rest : Bytes} (h : consumeFixed32 b = some (v, rest)) :
    rest.length < b.length := by
  match b, h with
  | b0 :: b1 :: b2 :: b3 :: r, h =>
    simp only [consumeFixed32, Option.some.injEq, Prod.mk.injEq] at h
    rw [← h.2]; simp; omega

theorem consumeFixed64_lt {b : Bytes} {v : Nat} {rest : Bytes} (h : consumeFixed64 b = some (v, rest)) :
    rest.length < b.length := by
  match b, h with
  | b0 :: b1 :: b2 :: b3 :: b4 :: b5 :: b6 :: b7 :: r, h =>
    simp only [consumeFixed64, Option.some.injEq, Prod.mk.injEq] at h
    rw [← h.2]; simp; omega

theorem consumeBytes_lt {b payload rest : Bytes} (h : consumeBytes b = some (payload, rest)) :
    payload.length + rest.length < b.length := by
  unfold consumeBytes at h
  cases hv : consumeVarint b with
  | none => simp [hv] at h
  | some p =>
    obtain ⟨m, r⟩ := p
    simp only [hv] at h
    split at h
    · simp at h
    · simp only [Option.some.injEq, Prod.mk.injEq] at h
      have := consumeVarint_lt hv
      rw [← h.1, ← h.2]
      simp [List.length_take, List.length_drop]
      omega

/-! packed loops never run out of fuel -/

theorem unpackVarints_fuel (fuel : Nat) : ∀ data : Bytes, data.length < fuel →
    unpackVarints fuel data ≠ .error .fuel := by
  induction fuel with
  | zero => intro d h; simp at h
  | succ f ih =>
    intro data h
    cases data with
    | nil => simp [unpackVarints]
    | cons b tl =>
      simp only [unpackVarints]
      cases hv : consumeVarint (b :: tl) with
      | none => simp
      | some p =>
        obtain ⟨v, rest⟩ := p
        have hl := consumeVarint_lt hv
        have := ih rest (by simp at hl h; omega)
        simp only
        cases hr : unpackVarints f rest with
        | ok vs => simp
        | error e => simp; intro he; exact this (by rw [hr, he])

theorem unpackFixed32_fuel (fuel : Nat) : ∀ data : Bytes, data.length < fuel →
    unpackFixed32 fuel data ≠ .error .fuel := by
  induction fuel with
  | zero => intro d h; simp at h
  | succ f ih =>
    intro data h
    cases data with
    | nil => simp [unpackFixed32]
    | cons b tl =>
      simp only [unpackFixed32]
      cases hv : consumeFixed32 (b :: tl) with
      | none => simp
      | some p =>
        obtain ⟨v, rest⟩ := p
        have hl := consumeFixed32_lt hv
        have := ih rest (by simp at hl h; omega)
        simp only
        cases hr : unpackFixed32 f rest with
        | ok vs => simp
        | error e => simp; intro he; exact this (by rw [hr, he])

theorem unpackFixed64_fuel (fuel : Nat) : ∀ data : Bytes, data.length < fuel →
    unpackFixed64 fuel data ≠ .error .fuel := by
  induction fuel with
  | zero => intro d h; simp at h
  | succ f ih =>
    intro data h
    cases data with
    | nil => simp [unpackFixed64]
    | cons b tl =>
      simp only [unpackFixed64]
      cases hv : consumeFixed64 (b :: tl) with
      | none => simp
      | some p =>
        obtain ⟨v, rest⟩ := p
        have hl := consumeFixed64_lt hv
        have := ih rest (by simp at hl h; omega)
        simp only
        cases hr : unpackFixed64 f rest with
        | ok vs => simp
        | error e => simp; intro he; exact this (by rw [hr, he])

theorem unpackPacked_fuel (et : Nat) (data : Bytes) : unpackPacked et data ≠ .error .fuel := by
  unfold unpackPacked
  split
  · exact unpackVarints_fuel _ _ (by omega)
  · split
    · exact unpackFixed32_fuel _ _ (by omega)
    · split
      · exact unpackFixed64_fuel _ _ (by omega)
      · simp

end Proofs.Wire
