import Proofs.Lemmas.HeapSim
/-!
C06 helper lemmas: the simulation step — **every** statement keeps `NoSharing` and denotes
the spec's step.
-/
namespace Proofs.Heap
open Model.Heap
open Spec.Val (abs eraseVal eraseL Tree Entry)

/-- assigning a scalar to a variable -/
theorem Inv.setVarScalar {s : St} (hinv : Inv s) (x : Nat) (sc : Scalar) : Inv (s.setVar x (.sc sc)) := by
  simp only [St.setVar]
  cases hc : s.names[x]? with
  | none => exact hinv
  | some c =>
    have hlt := hinv.wf x c hc
    have hold : holder? s (.v c) = some s.vcells[c] := by simp [holder?, hlt]
    exact Inv.replace hinv (.v c) _ (.sc sc) s.next (fun _ => 0) hold (Nat.le_refl _)
      (fun i => by simp [vcnt]) (fun i => ⟨by omega, fun h => by omega⟩)

theorem sim_setVar {s : St} (hinv : Inv s) (x : Nat) (r : RV) : SimOpt s (.setVar x r) := by
  unfold SimOpt
  rcases evalRV_cases s r with ⟨h1, h2⟩ | ⟨v, n1, h1, h2, hle⟩
  · simp [stepOpt, h1, Spec.Val.stepOpt, h2]
  · obtain ⟨ce, cn, cf⟩ := cloneOnStore_spec v n1
    have hstep : stepOpt .fixed s (.setVar x r) =
        some { (({ s with next := n1 } : St).setVar x (cloneOnStore .fixed v n1).1) with next := (cloneOnStore .fixed v n1).2 } := by
      simp [stepOpt, h1, show Cfg.fixed.copyCallResult = true from rfl]
    rw [hstep]
    refine ⟨?_, ?_⟩
    · cases hc : s.names[x]? with
      | none =>
        have : ({ s with next := n1 } : St).setVar x (cloneOnStore .fixed v n1).1 = { s with next := n1 } := by
          simp [St.setVar, hc]
        rw [this]
        exact Inv.next hinv _ (by omega)
      | some c =>
        have hlt := hinv.wf x c hc
        have hold : holder? s (.v c) = some s.vcells[c] := by simp [holder?, hlt]
        have : ({ (({ s with next := n1 } : St).setVar x (cloneOnStore .fixed v n1).1) with next := (cloneOnStore .fixed v n1).2 } : St) =
            { (setHolder s (.v c) (cloneOnStore .fixed v n1).1) with next := (cloneOnStore .fixed v n1).2 } := by
          simp [St.setVar, hc, setHolder]
        rw [this]
        exact Inv.replace hinv (.v c) _ _ _ (fun i => vcnt i (cloneOnStore .fixed v n1).1) hold (by omega)
          (fun i => by omega) (fresh_for hinv _ n1 _ _ cf hle (Nat.le_refl _))
    · simp only [Spec.Val.stepOpt, h2, Option.map_some]
      show some ((abs s).setVar x (eraseVal v)) = some (abs (({ s with next := n1 } : St).setVar x (cloneOnStore .fixed v n1).1))
      rw [abs_setVar, ce]; rfl

theorem sim_setProp {s : St} (hinv : Inv s) (x p : Nat) (r : RV) : SimOpt s (.setProp x p r) := by
  unfold SimOpt
  rcases evalRV_cases s r with ⟨h1, h2⟩ | ⟨v, n1, h1, h2, hle⟩
  · simp [stepOpt, h1, Spec.Val.stepOpt, h2]
  · obtain ⟨ce, cn, cf⟩ := cloneOnStore_spec v n1
    have hobj : ({ s with next := n1 } : St).varObj? x = s.varObj? x := rfl
    cases hh : s.varObj? x with
    | none => simp [stepOpt, h1, hobj, hh, Spec.Val.stepOpt, h2, abs_varObj?]
    | some h =>
      have hpv : ({ s with next := n1 } : St).propVal? h p = s.propVal? h p := rfl
      cases hold : s.propVal? h p with
      | none => simp [stepOpt, h1, hobj, hh, hpv, hold, Spec.Val.stepOpt, h2, abs_varObj?, abs_propVal?]
      | some old =>
        have hstep : stepOpt .fixed s (.setProp x p r) =
            some { (({ s with next := n1 } : St).setProp h p (cloneOnStore .fixed v n1).1) with next := (cloneOnStore .fixed v n1).2 } := by
          simp [stepOpt, h1, hobj, hh, hpv, hold]
        rw [hstep]
        refine ⟨?_, ?_⟩
        · have : ({ (({ s with next := n1 } : St).setProp h p (cloneOnStore .fixed v n1).1) with next := (cloneOnStore .fixed v n1).2 } : St) =
              { (setHolder s (.p h p) (cloneOnStore .fixed v n1).1) with next := (cloneOnStore .fixed v n1).2 } := by
            rw [setProp_next]; rfl
          rw [this]
          exact Inv.replace hinv (.p h p) old _ _ (fun i => vcnt i (cloneOnStore .fixed v n1).1) hold (by omega)
            (fun i => by omega) (fresh_for hinv _ n1 _ _ cf hle (Nat.le_refl _))
        · simp only [Spec.Val.stepOpt, h2, abs_varObj?, hh, abs_propVal?, hold, Option.map_some]
          show some ((abs s).setProp h p (eraseVal v)) = some (abs (({ s with next := n1 } : St).setProp h p (cloneOnStore .fixed v n1).1))
          rw [abs_setProp, ce]; rfl

theorem sim_ref {s : St} (hinv : Inv s) (x y : Nat) : SimOpt s (.ref x y) := by
  unfold SimOpt
  simp only [stepOpt, Spec.Val.stepOpt]
  have hn : (abs s).names = s.names := rfl
  rw [hn]
  cases hy : s.names[y]? with
  | none => simp
  | some c =>
    simp only
    by_cases hx : x < s.names.length
    · simp only [hx, if_true]
      refine ⟨⟨?_, hinv.uniq, hinv.bound⟩, rfl⟩
      intro x' c' h'
      simp only [List.getElem?_set] at h'
      split at h'
      · injection h' with e; subst e; exact hinv.wf y c hy
      · exact hinv.wf x' c' h'
    · simp [hx]

theorem setVar_objs (s : St) (x : Nat) (w : Val) : (s.setVar x w).objs = s.objs := by
  simp only [St.setVar]; cases s.names[x]? <;> rfl

theorem sim_new {s : St} (hinv : Inv s) (x : Nat) : SimOpt s (.new x) := by
  unfold SimOpt
  simp only [stepOpt, Spec.Val.stepOpt]
  have hcomm : ({ (s.setVar x (.sc (.inst s.objs.length))) with objs := s.objs ++ [List.replicate np (.sc .null)] } : St) =
      ({ s with objs := s.objs ++ [List.replicate np (.sc .null)], next := s.next } : St).setVar x (.sc (.inst s.objs.length)) := by
    simp only [St.setVar]; cases s.names[x]? <;> rfl
  refine ⟨?_, ?_⟩
  · rw [hcomm]
    apply Inv.setVarScalar
    apply Inv.appendObj hinv _ s.next (Nat.le_refl _)
    intro i
    have : cntVs i (List.replicate np (Val.sc Scalar.null)) = 0 := wsum_replicate _ _ _ rfl
    rw [this]
    exact ⟨by omega, fun h => by omega⟩
  · have hlen : (abs s).objs.length = s.objs.length := by simp [abs]
    rw [hlen]
    congr 1
    simp only [abs, Spec.Val.St.setVar, St.setVar]
    cases s.names[x]? <;> simp [eraseVal, List.map_set]

theorem sim_clone {s : St} (hinv : Inv s) (x y : Nat) : SimOpt s (.clone x y) := by
  unfold SimOpt
  simp only [stepOpt, Spec.Val.stepOpt, abs_varObj?]
  cases hh : s.varObj? y with
  | none => simp
  | some h =>
    simp only
    have hobjs : (abs s).objs[h]? = (s.objs[h]?).map (·.map eraseVal) := by simp [abs]
    rw [hobjs]
    cases hps : s.objs[h]? with
    | none => simp
    | some ps =>
      simp only [Option.map_some]
      obtain ⟨ce, cle, cfr⟩ := cloneProps_spec ps s.next
      refine ⟨?_, ?_⟩
      · have hcomm : ({ (({ s with objs := s.objs ++ [(cloneProps .fixed ps s.next).1] } : St).setVar x (.sc (.inst s.objs.length))) with
            next := (cloneProps .fixed ps s.next).2 } : St) =
            ({ s with objs := s.objs ++ [(cloneProps .fixed ps s.next).1], next := (cloneProps .fixed ps s.next).2 } : St).setVar x
              (.sc (.inst s.objs.length)) := by
          simp only [St.setVar]; cases s.names[x]? <;> rfl
        rw [hcomm]
        apply Inv.setVarScalar
        exact Inv.appendObj hinv _ _ cle (fresh_for hinv _ s.next _ _ cfr (Nat.le_refl _) (Nat.le_refl _))
      · have hlen : (abs s).objs.length = s.objs.length := by simp [abs]
        rw [hlen]
        congr 1
        simp only [abs, Spec.Val.St.setVar, St.setVar]
        cases s.names[x]? <;> simp [eraseVal, List.map_set, ce]

/-- **simulation step** -/
theorem sim_opt {s : St} (hinv : Inv s) (op : Op) : SimOpt s op := by
  cases op with
  | setVar x r => exact sim_setVar hinv x r
  | setProp x p r => exact sim_setProp hinv x p r
  | setIdx b k r => exact sim_setIdx hinv b k r
  | unset b k => exact sim_unset hinv b k
  | meth b m => exact sim_meth hinv b m
  | new x => exact sim_new hinv x
  | clone x y => exact sim_clone hinv x y
  | ref x y => exact sim_ref hinv x y

theorem step_sim {s : St} (hinv : Inv s) (op : Op) :
    Inv (step .fixed s op) ∧ abs (step .fixed s op) = Spec.Val.step (abs s) op := by
  have h := sim_opt hinv op
  unfold SimOpt at h
  unfold step Spec.Val.step
  cases hs : stepOpt .fixed s op with
  | none => simp only [hs] at h; simp [h, hinv]
  | some s' => simp only [hs] at h; simp [h.2, h.1]

theorem inv_init (nv : Nat) : Inv (init nv) := by
  refine ⟨?_, ?_, ?_⟩
  · intro x c h
    simp only [init, List.length_replicate] at h ⊢
    have := List.getElem?_eq_some_iff.mp h
    obtain ⟨h1, h2⟩ := this
    simp at h1 h2
    omega
  · intro a
    have : scnt (init nv) a = 0 := by
      simp only [scnt, init, cntOs, wsum, cntVs]
      rw [wsum_replicate (vcnt a) nv (.sc .null) rfl]
    omega
  · intro a ha
    have : scnt (init nv) a = 0 := by
      simp only [scnt, init, cntOs, wsum, cntVs]
      rw [wsum_replicate (vcnt a) nv (.sc .null) rfl]
    omega

theorem abs_init (nv : Nat) : abs (init nv) = Spec.Val.init nv := by
  simp [abs, init, Spec.Val.init, eraseVal]

end Proofs.Heap
