import Proofs.Lemmas.HeapSim
/-!
C06 helper lemmas, part 6: the simulation step — every statement that writes at a
root keeps `NoUnintendedSharing` and denotes the spec's step.
-/
namespace Proofs.Heap
open Model.Heap
open Spec.Val (abs eraseVal eraseL Tree Entry)

/-- the claim for one statement -/
def SimOpt (s : St) (op : Op) : Prop :=
  match stepOpt .fixed s op with
  | some s' => Inv s' ∧ Spec.Val.stepOpt (abs s) op = some (abs s')
  | none => Spec.Val.stepOpt (abs s) op = none

theorem sim_setVar {s : St} (hinv : Inv s) (x : Nat) (r : RV) : SimOpt s (.setVar x r) := by
  unfold SimOpt
  rcases evalRV_cases s r with ⟨h1, h2⟩ | ⟨v, n1, h1, h2, hle, hin⟩
  · simp [stepOpt, h1, Spec.Val.stepOpt, h2]
  · obtain ⟨ce, cn, ci, cr⟩ := cloneOnStore_spec v n1
    obtain ⟨ca, cb, cc⟩ := clone_aids hinv v n1 hle hin
    have hstep : stepOpt .fixed s (.setVar x r) =
        some { (({ s with next := n1 } : St).setVar x (cloneOnStore v n1).1) with next := (cloneOnStore v n1).2 } := by
      simp [stepOpt, h1, show Cfg.fixed.copyCallResult = true from rfl]
    rw [hstep]
    refine ⟨?_, ?_⟩
    · cases hc : s.names[x]? with
      | none =>
        have : ({ s with next := n1 } : St).setVar x (cloneOnStore v n1).1 = { s with next := n1 } := by
          simp [St.setVar, hc]
        rw [this]
        exact Inv.next hinv _ (by omega)
      | some c =>
        have hlt := hinv.wf x c hc
        have hold : holder? s (.v c) = some s.vcells[c] := by simp [holder?, hlt]
        have : ({ (({ s with next := n1 } : St).setVar x (cloneOnStore v n1).1) with next := (cloneOnStore v n1).2 } : St) =
            { (setHolder s (.v c) (cloneOnStore v n1).1) with next := (cloneOnStore v n1).2 } := by
          simp [St.setVar, hc, setHolder]
        rw [this]
        apply Inv.overwrite hinv (.v c) _ _ _ hold (by omega)
        · intro a k e; exact Or.inr (cc a k e)
        · intro i hi
          rcases ca i (innerAids_sub _ i hi) with h | h
          · exact Or.inl h
          · exact Or.inr h.1
        · exact cb
    · simp only [Spec.Val.stepOpt, h2, Option.map_some]
      show some ((abs s).setVar x (eraseVal v)) = some (abs (({ s with next := n1 } : St).setVar x (cloneOnStore v n1).1))
      rw [abs_setVar, ce]; rfl

theorem sim_setProp {s : St} (hinv : Inv s) (x p : Nat) (r : RV) : SimOpt s (.setProp x p r) := by
  unfold SimOpt
  rcases evalRV_cases s r with ⟨h1, h2⟩ | ⟨v, n1, h1, h2, hle, hin⟩
  · simp [stepOpt, h1, Spec.Val.stepOpt, h2]
  · obtain ⟨ce, cn, ci, cr⟩ := cloneOnStore_spec v n1
    obtain ⟨ca, cb, cc⟩ := clone_aids hinv v n1 hle hin
    have hobj : ({ s with next := n1 } : St).varObj? x = s.varObj? x := rfl
    cases hh : s.varObj? x with
    | none => simp [stepOpt, h1, hobj, hh, Spec.Val.stepOpt, h2, abs_varObj?]
    | some h =>
      have hpv : ({ s with next := n1 } : St).propVal? h p = s.propVal? h p := rfl
      cases hold : s.propVal? h p with
      | none => simp [stepOpt, h1, hobj, hh, hpv, hold, Spec.Val.stepOpt, h2, abs_varObj?, abs_propVal?]
      | some old =>
        have hstep : stepOpt .fixed s (.setProp x p r) =
            some { (({ s with next := n1 } : St).setProp h p (cloneOnStore v n1).1) with next := (cloneOnStore v n1).2 } := by
          simp [stepOpt, h1, hobj, hh, hpv, hold]
        rw [hstep]
        refine ⟨?_, ?_⟩
        · have : ({ (({ s with next := n1 } : St).setProp h p (cloneOnStore v n1).1) with next := (cloneOnStore v n1).2 } : St) =
              { (setHolder s (.p h p) (cloneOnStore v n1).1) with next := (cloneOnStore v n1).2 } := by
            rw [setProp_next]; rfl
          rw [this]
          apply Inv.overwrite hinv (.p h p) old _ _ hold (by omega)
          · intro a k e; exact Or.inr (cc a k e)
          · intro i hi
            rcases ca i (innerAids_sub _ i hi) with h' | h'
            · exact Or.inl h'
            · exact Or.inr h'.1
          · exact cb
        · simp only [Spec.Val.stepOpt, h2, abs_varObj?, hh, abs_propVal?, hold, Option.map_some]
          show some ((abs s).setProp h p (eraseVal v)) = some (abs (({ s with next := n1 } : St).setProp h p (cloneOnStore v n1).1))
          rw [abs_setProp, ce]; rfl

theorem sim_setIdx {s : St} (hinv : Inv s) (b : Place) (hb : b.isRoot = true) (k : Option IKey) (r : RV) :
    SimOpt s (.setIdx b k r) := by
  unfold SimOpt
  rcases evalRV_cases s r with ⟨h1, h2⟩ | ⟨v, n1, h1, h2, hle, hin⟩
  · simp [stepOpt, h1, Spec.Val.stepOpt, h2]
  · obtain ⟨ce, cn, ci, cr⟩ := cloneOnStore_spec v n1
    obtain ⟨ca, cb, cc⟩ := clone_aids hinv v n1 hle hin
    -- at a root place `setIdx` is: copy the value, then `storeAt`
    have hset : setIdx .fixed b { s with next := n1 } k v =
        storeAt .fixed { s with next := (cloneOnStore v n1).2 } b k (cloneOnStore v n1).1 := by
      cases b with
      | idx b k' => simp [Place.isRoot] at hb
      | var x => simp [setIdx, Cfg.fixed]
      | prop x p => simp [setIdx, Cfg.fixed]
    have hrd : readPlace ({ s with next := (cloneOnStore v n1).2 } : St) b = readPlace s b := readPlace_next s _ b
    simp only [stepOpt, h1, hset, storeAt, hrd, Spec.Val.stepOpt, h2]
    cases hr : readPlace s b with
    | none => simp only; exact onArray_none s b hb _ (by simp [hr])
    | some w =>
      cases w with
      | sc sc => simp only; exact onArray_none s b hb _ (by simp [hr])
      | arr a kids =>
        simp only
        obtain ⟨l', hact, herase⟩ := storeAct_fixed kids k (cloneOnStore v n1).2 (cloneOnStore v n1).1
        obtain ⟨P, _, hP⟩ := readPlace_root s b hb _ hr
        have hk : KidsOK s ((cloneOnStore v n1).2 + 1) l' := by
          apply kidsOK_of_valsFrom P a kids l' (cloneOnStore v n1).1 _ hP (valsFrom_storeAct _ _ _ _ _ hact)
          intro i hi
          rcases ca i hi with h | h
          · exact Or.inl h
          · exact Or.inr ⟨h.1, by omega⟩
        have hrw := root_write hinv b hb a kids l' hr ((cloneOnStore v n1).2 + 1) (by omega) hk
          (fun l => Spec.Val.store l k (eraseVal v)) (by rw [herase, ce])
        show Inv (writeBack .fixed { (({ s with next := (cloneOnStore v n1).2 } : St).applyAct a
            (storeAct .fixed kids k (cloneOnStore v n1).2 (cloneOnStore v n1).1)) with next := (cloneOnStore v n1).2 + 1 } b) ∧ _
        rw [hact]
        exact hrw

theorem sim_unset {s : St} (hinv : Inv s) (b : Place) (hb : b.isRoot = true) (k : IKey) :
    SimOpt s (.unset b k) := by
  unfold SimOpt
  simp only [stepOpt, unsetAt, Spec.Val.stepOpt]
  cases hr : readPlace s b with
  | none => simp only; exact onArray_none s b hb _ (by simp [hr])
  | some w =>
    cases w with
    | sc sc => simp only; exact onArray_none s b hb _ (by simp [hr])
    | arr a kids =>
      simp only
      obtain ⟨P, _, hP⟩ := readPlace_root s b hb _ hr
      have hk : KidsOK s (s.next + (unsetKey kids k s.next).2) (unsetKey kids k s.next).1 := by
        apply kidsOK_of_valsFrom P a kids _ (.sc .null) _ hP
          (valsFrom_of_sub _ _ _ (unsetKey_vals kids k s.next))
        simp [Val.aids]
      exact root_write hinv b hb a kids _ hr _ (by omega) hk (fun l => Spec.Val.unsetK l k)
        (erase_unsetKey kids k s.next)

theorem sim_meth {s : St} (hinv : Inv s) (b : Place) (hb : b.isRoot = true) (m : Meth) :
    SimOpt s (.meth b m) := by
  unfold SimOpt
  simp only [stepOpt, methAt, Spec.Val.stepOpt]
  cases hr : readPlace s b with
  | none => simp only; exact onArray_none s b hb _ (by simp [hr])
  | some w =>
    cases w with
    | sc sc => simp only; exact onArray_none s b hb _ (by simp [hr])
    | arr a kids =>
      simp only
      obtain ⟨P, _, hP⟩ := readPlace_root s b hb _ hr
      have hk : KidsOK s (s.next + 1) (Model.Heap.applyMeth kids m s.next) := by
        intro i hi
        obtain ⟨sl, hsl, hm⟩ := (mem_aidsL i _).mp hi
        rcases applyMeth_vals kids m s.next sl hsl with ⟨sl0, h0, e⟩ | ⟨n, e⟩
        · left
          refine ⟨P, _, hP, ?_⟩
          simp only [innerAids]
          exact (mem_aidsL i kids).mpr ⟨sl0, h0, by rw [← e]; exact hm⟩
        · rw [e] at hm; simp [Val.aids] at hm
      exact root_mutate hinv b hb a kids _ hr _ (by omega) hk (fun l => Spec.Val.applyMeth l m)
        (erase_applyMeth kids m s.next)

theorem sim_ref {s : St} (hinv : Inv s) (x y : Nat) : SimOpt s (.ref x y) := by
  unfold SimOpt
  simp only [stepOpt, Spec.Val.stepOpt]
  have hn : (abs s).names = s.names := rfl
  rw [hn]
  cases hy : s.names[y]? with
  | none => simp
  | some c =>
    simp only
    by_cases hx : x < s.names.length
    · simp only [hx, if_true]
      refine ⟨⟨?_, ?_, ?_, ?_⟩, rfl⟩
      · intro x' c' h'
        simp only [List.getElem?_set] at h'
        split at h'
        · injection h' with e; subst e; exact hinv.wf y c hy
        · exact hinv.wf x' c' h'
      · exact hinv.uniq
      · intro P a k h1 ⟨Q, w, hw, hm⟩; exact hinv.sep P a k h1 ⟨Q, w, hw, hm⟩
      · exact hinv.bound
    · simp [hx]

theorem setVar_objs (s : St) (x : Nat) (w : Val) : (s.setVar x w).objs = s.objs := by
  simp only [St.setVar]; cases s.names[x]? <;> rfl

theorem sim_new {s : St} (hinv : Inv s) (x : Nat) : SimOpt s (.new x) := by
  unfold SimOpt
  simp only [stepOpt, Spec.Val.stepOpt]
  have hcomm : ({ (s.setVar x (.sc (.inst s.objs.length))) with objs := s.objs ++ [List.replicate np (.sc .null)] } : St) =
      ({ s with objs := s.objs ++ [List.replicate np (.sc .null)], next := s.next } : St).setVar x (.sc (.inst s.objs.length)) := by
    simp only [St.setVar]; cases s.names[x]? <;> rfl
  refine ⟨?_, ?_⟩
  · rw [hcomm]
    apply Inv.setVarScalar
    apply Inv.appendObj hinv _ s.next (Nat.le_refl _)
    · intro j a k h
      have := List.mem_of_getElem? h
      simp [List.mem_replicate] at this
    · intro j1 j2 a k1 k2 h
      have := List.mem_of_getElem? h
      simp [List.mem_replicate] at this
  · have hlen : (abs s).objs.length = s.objs.length := by simp [abs]
    rw [hlen]
    congr 1
    simp only [abs, Spec.Val.St.setVar, St.setVar]
    cases s.names[x]? <;> simp [eraseVal, List.map_set]

theorem sim_clone {s : St} (hinv : Inv s) (x y : Nat) : SimOpt s (.clone x y) := by
  unfold SimOpt
  simp only [stepOpt, Spec.Val.stepOpt, abs_varObj?]
  cases hh : s.varObj? y with
  | none => simp
  | some h =>
    simp only
    have hobjs : (abs s).objs[h]? = (s.objs[h]?).map (·.map eraseVal) := by simp [abs]
    rw [hobjs]
    cases hps : s.objs[h]? with
    | none => simp
    | some ps =>
      simp only [Option.map_some]
      obtain ⟨ce, cle, crng, cinj⟩ := cloneProps_spec ps s.next
      refine ⟨?_, ?_⟩
      · have hcomm : ({ (({ s with objs := s.objs ++ [(cloneProps ps s.next).1] } : St).setVar x (.sc (.inst s.objs.length))) with
            next := (cloneProps ps s.next).2 } : St) =
            ({ s with objs := s.objs ++ [(cloneProps ps s.next).1], next := (cloneProps ps s.next).2 } : St).setVar x
              (.sc (.inst s.objs.length)) := by
          simp only [St.setVar]; cases s.names[x]? <;> rfl
        rw [hcomm]
        apply Inv.setVarScalar
        apply Inv.appendObj hinv _ _ cle
        · intro j a k hj
          obtain ⟨h1, h2, a0, h3⟩ := crng j a k hj
          refine ⟨h1, h2, ?_⟩
          intro i hi
          exact ⟨.p h j, .arr a0 k, by simp [holder?, St.propVal?, hps, h3], by simpa [innerAids] using hi⟩
        · exact cinj
      · have hlen : (abs s).objs.length = s.objs.length := by simp [abs]
        rw [hlen]
        congr 1
        simp only [abs, Spec.Val.St.setVar, St.setVar]
        cases s.names[x]? <;> simp [eraseVal, List.map_set, ce]

/-- **simulation step** -/
theorem sim_opt {s : St} (hinv : Inv s) (op : Op) (hf : op.flat = true) : SimOpt s op := by
  cases op with
  | setVar x r => exact sim_setVar hinv x r
  | setProp x p r => exact sim_setProp hinv x p r
  | setIdx b k r => exact sim_setIdx hinv b hf k r
  | unset b k => exact sim_unset hinv b hf k
  | meth b m => exact sim_meth hinv b hf m
  | new x => exact sim_new hinv x
  | clone x y => exact sim_clone hinv x y
  | ref x y => exact sim_ref hinv x y

theorem step_sim {s : St} (hinv : Inv s) (op : Op) (hf : op.flat = true) :
    Inv (step .fixed s op) ∧ abs (step .fixed s op) = Spec.Val.step (abs s) op := by
  have h := sim_opt hinv op hf
  unfold SimOpt at h
  unfold step Spec.Val.step
  cases hs : stepOpt .fixed s op with
  | none => simp only [hs] at h; simp [h, hinv]
  | some s' => simp only [hs] at h; simp [h.2, h.1]

theorem inv_init (nv : Nat) : Inv (init nv) := by
  refine ⟨?_, ?_, ?_, ?_⟩
  · intro x c h
    simp only [init, List.length_replicate] at h ⊢
    have := List.getElem?_eq_some_iff.mp h
    obtain ⟨h1, h2⟩ := this
    simp at h1 h2
    omega
  · intro P Q a k1 k2 h1 _
    cases P with
    | v c =>
      simp only [holder?, init] at h1
      have := List.mem_of_getElem? h1
      simp [List.mem_replicate] at this
    | p h p => simp [holder?, St.propVal?, init] at h1
  · intro P a k h1 _
    cases P with
    | v c =>
      simp only [holder?, init] at h1
      have := List.mem_of_getElem? h1
      simp [List.mem_replicate] at this
    | p h p => simp [holder?, St.propVal?, init] at h1
  · intro P w hw i hi
    cases P with
    | v c =>
      simp only [holder?, init] at hw
      have := List.mem_of_getElem? hw
      simp [List.mem_replicate] at this
      rw [this.2] at hi; simp [Val.aids] at hi
    | p h p => simp [holder?, St.propVal?, init] at hw

theorem abs_init (nv : Nat) : abs (init nv) = Spec.Val.init nv := by
  simp [abs, init, Spec.Val.init, eraseVal]

end Proofs.Heap
