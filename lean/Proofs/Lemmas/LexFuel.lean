import Proofs.Lemmas.LexLoop
/-! Fuel sufficiency: the main loop of `Tokenize` needs at most `size + 1` iterations. -/
namespace Proofs.Lex
open Model.Lex

theorem scriptLoop_fuel {cfg : Cfg} (wf : WF cfg) (inp : Input) :
    ∀ f g pos line lastNL acc, inp.size - pos < f → inp.size - pos < g →
      scriptLoop cfg inp f pos line lastNL acc = scriptLoop cfg inp g pos line lastNL acc := by
  intro f
  induction f with
  | zero => intro g pos line lastNL acc hf; omega
  | succ f ih =>
    intro g pos line lastNL acc hf hg
    cases g with
    | zero => omega
    | succ g =>
      unfold scriptLoop
      split
      · rename_i hlt
        simp only []
        split
        · exact ih g _ _ _ _ (by omega) (by omega)
        · obtain ⟨b, hb, hfw⟩ := fwAt_ok inp pos (decide (pos + 2 < inp.size)) (by simp)
          rw [hb]
          cases b with
          | true => exact ih g _ _ _ _ (by omega) (by omega)
          | false =>
            simp only []
            split
            · exact ih g _ _ _ _ (by omega) (by omega)
            · rename_i h10
              have h10' : bAt inp pos ≠ 10 := by simpa using h10
              obtain ⟨s, hs, hok⟩ := scanTok_spec wf inp false pos line hlt h10'
              rw [hs]
              have := hok.progress
              exact ih g _ _ _ _ (by omega) (by omega)
      · rfl

end Proofs.Lex
