import Proofs.Lemmas.CtlBasic
set_option linter.unusedSimpArgs false
/-! The fused nodes of `node/fused_assign.go` against the general nodes they replace
(model-level facts, no reference semantics involved). -/
namespace Proofs.Ctl
open Spec.Ctl Model.Ctl

/-- VarPostIncr / VarPostDecr = PostfixIncr / PostfixDecr on the same variable. -/
theorem incFused_postInc (s : MSt) (i : Nat) : incFused .postInc s i = incGeneral .postInc s i := by
  unfold incFused incGeneral
  cases hg : s.getSlot i with
  | none => rfl
  | some v =>
    cases v with
    | int n =>
      simp only [incVal]
      cases hs : s.setSlot i (.int (wrap64 (n + 1))) with
      | none => simp [hg, incVal, assignTo, hs]
      | some s1 => simp [assignTo, hs, MRes.bind]
    | _ => rfl

theorem incFused_postDec (s : MSt) (i : Nat) : incFused .postDec s i = incGeneral .postDec s i := by
  unfold incFused incGeneral
  cases hg : s.getSlot i with
  | none => rfl
  | some v =>
    cases v with
    | int n =>
      simp only [incVal]
      cases hs : s.setSlot i (.int (wrap64 (n - 1))) with
      | none => simp [hg, incVal, assignTo, hs]
      | some s1 => simp [assignTo, hs, MRes.bind]
    | _ => rfl

/-- VarStmtIncr has the effect of PostfixIncr; only the (discarded) value differs. -/
theorem stmtIncr_effect {β : Type} (s : MSt) (i : Nat) (k : MSt → MRes β) :
    (stmtIncrM s i).bind (fun _ s1 => k s1) = (incGeneral .postInc s i).bind (fun _ s1 => k s1) := by
  unfold stmtIncrM incGeneral
  cases hg : s.getSlot i with
  | none => rfl
  | some v =>
    cases v with
    | int n =>
      simp only [incVal]
      cases hs : s.setSlot i (.int (wrap64 (n + 1))) with
      | none => simp [hg, incVal, assignTo, hs]
      | some s1 => simp [assignTo, hs, MRes.bind]
    | _ => rfl

/-- VarFastAssign = BinaryAssignVariable whenever the integer path computes what the original
right-hand side evaluates to (`hslow`: the general node is out of fuel, or yields that integer
without changing the state). -/
theorem fastAssign_eq (mf : List MFun) (f : Nat) (op : FastOp) (dst : Nat) (l r : Opnd) (slow : MExpr) (s : MSt)
    (hslow : ∀ n, fastValue s op l r = some n →
      evalM mf f slow s = .timeout ∨ evalM mf f slow s = .ok (.int n) s) :
    evalM mf (f+1) (.assignVar dst slow) s = .timeout ∨
    evalM mf (f+1) (.fastAssign op dst l r slow) s = evalM mf (f+1) (.assignVar dst slow) s := by
  simp only [evalM]
  cases hd : (s.getSlot dst).isSome with
  | false => right; simp
  | true =>
    simp only [if_true]
    cases hv : fastValue s op l r with
    | none => right; rfl
    | some n =>
      simp only []
      cases hs : s.setSlot dst (.int n) with
      | none => right; rfl
      | some s1 =>
        simp only []
        cases hslow n hv with
        | inl h => left; rw [h]; rfl
        | inr h => right; rw [h]; simp [MRes.bind, assignTo, hs]

end Proofs.Ctl
