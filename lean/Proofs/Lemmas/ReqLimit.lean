import Model.ReqLimit
import Spec.ReqLimit
/-! Lemmas for the limits part of C11 (`Model.ReqLimit`). -/
namespace Proofs.ReqLimit
open Model.ReqLimit
open Model.Req (Rid)

/-! ### sums over the requests that exist -/

theorem sum_range_congr (f f' : Nat → Nat) : ∀ n, (∀ i, i < n → f' i = f i) →
    ((List.range n).map f').sum = ((List.range n).map f).sum := by
  intro n
  induction n with
  | zero => intro _; rfl
  | succ n ih =>
    intro h
    simp only [List.range_succ, List.map_append, List.sum_append, List.map_cons, List.map_nil, List.sum_cons, List.sum_nil]
    rw [ih (fun i hi => h i (by omega)), h n (by omega)]

theorem sum_range_update (f f' : Nat → Nat) (r : Nat) : ∀ n, r < n → (∀ i, i ≠ r → f' i = f i) →
    ((List.range n).map f').sum + f r = ((List.range n).map f).sum + f' r := by
  intro n
  induction n with
  | zero => intro h; omega
  | succ n ih =>
    intro hr h
    simp only [List.range_succ, List.map_append, List.sum_append, List.map_cons, List.map_nil, List.sum_cons, List.sum_nil]
    by_cases hn : r = n
    · subst hn
      rw [sum_range_congr f f' r (fun i hi => h i (by omega))]
      omega
    · have := ih (by omega) h
      rw [h n (by omega)]
      omega

theorem le_sum_range (f : Nat → Nat) (r : Nat) : ∀ n, r < n → f r ≤ ((List.range n).map f).sum := by
  intro n
  induction n with
  | zero => intro h; omega
  | succ n ih =>
    intro hr
    simp only [List.range_succ, List.map_append, List.sum_append, List.map_cons, List.map_nil, List.sum_cons, List.sum_nil]
    by_cases hn : r = n
    · subst hn; omega
    · have := ih (by omega); omega

theorem sum_range_zero (f : Nat → Nat) (h : ∀ i, f i = 0) : ∀ n, ((List.range n).map f).sum = 0 := by
  intro n
  induction n with
  | zero => rfl
  | succ n ih =>
    simp only [List.range_succ, List.map_append, List.sum_append, List.map_cons, List.map_nil, List.sum_cons, List.sum_nil]
    have := h n
    omega

theorem filter_length_mono {α : Type} (p q : α → Bool) (h : ∀ a, p a = true → q a = true) :
    ∀ l : List α, (l.filter p).length ≤ (l.filter q).length := by
  intro l
  induction l with
  | nil => simp
  | cons a rest ih =>
    simp only [List.filter_cons]
    by_cases hp : p a = true
    · simp only [hp, h a hp, if_true, List.length_cons]; omega
    · have hp' : p a = false := by simpa using hp
      simp only [hp']
      by_cases hq : q a = true
      · simp only [hq, if_true, List.length_cons]
        have : (List.filter p rest).length ≤ (List.filter q rest).length := ih
        simp; omega
      · have hq' : q a = false := by simpa using hq
        simp only [hq']
        simpa using ih

/-! ### guards whose decision is bounded by the request's own frames -/

/-- the refusal of the guard is decided by frames of the calling request: frames that are all
counted in the process-wide number, against a limit not below the process-wide one -/
def GuardOK (g : Guards) (gd : Guard) : Prop :=
  match gd.on with
  | .never => True
  | .shared => False
  | .own => gd.limit ≤ gd.ownLimit ∧ ∀ j, gd.ownCounts.contains j = true → counted g j = true

def GoodGuards (g : Guards) : Prop := ∀ k gd, g k = some gd → GuardOK g gd

/-- `c = Σ d_i` -/
def Inv (w : World) (s : State) : Prop := s.cnt = total w.guards s w.n

theorem ownDepth_le (g : Guards) (gd : Guard) (k : Callee) (q : ReqSt)
    (h : ∀ j, gd.ownCounts.contains j = true → counted g j = true) :
    ownDepth gd k q ≤ depth g q + 1 := by
  unfold ownDepth depth
  have := filter_length_mono (fun j => gd.ownCounts.contains j) (counted g) h q.stack
  split <;> omega

/-- **the decision of an `own` guard is a function of the request's own frames**: whatever the
process-wide number is, as long as it is at least the request's own depth (which `c = Σ d_i` gives) -/
theorem refuse_own (g : Guards) (gd : Guard) (k : Callee) (q : ReqSt) (c : Nat)
    (hon : gd.on = .own) (hok : GuardOK g gd) (hc : depth g q ≤ c) :
    refuse gd (c + 1) (ownDepth gd k q) = decide (ownDepth gd k q > gd.ownLimit) := by
  unfold GuardOK at hok
  rw [hon] at hok
  have hle := ownDepth_le g gd k q hok.2
  unfold refuse
  rw [hon]
  by_cases h : ownDepth gd k q > gd.ownLimit
  · have : c + 1 > gd.limit := by omega
    simp [h, this]
  · simp [h]

theorem localStep_nil {g : Guards} {q : ReqSt} {c : Nat} (h : q.pc = []) : localStep g q c = (q, c) := by
  simp [localStep, h]

theorem localStep_cons {g : Guards} {q : ReqSt} {c : Nat} {st : Step} {rest : List Step}
    (h : q.pc = st :: rest) : localStep g q c = exec g { q with pc := rest } c st := by
  simp [localStep, h]

theorem enter_own_indep (g : Guards) (hg : GoodGuards g) (k : Callee) (q : ReqSt) (c c' : Nat)
    (hc : depth g q ≤ c) (hc' : depth g q ≤ c') : (enter g k q c).1 = (enter g k q c').1 := by
  unfold enter
  cases hk : g k with
  | none => rfl
  | some gd =>
    have hok := hg k gd hk
    cases hon : gd.on with
    | own =>
      simp only [refuse_own g gd k q c hon hok hc, refuse_own g gd k q c' hon hok hc']
      split
      · simp [reported, hon]
      · rfl
    | shared => unfold GuardOK at hok; rw [hon] at hok; exact hok.elim
    | never => simp [refuse, hon]

/-- a step of a request under good guards: its own state does not depend on the counter -/
theorem localStep_indep (g : Guards) (hg : GoodGuards g) (q : ReqSt) (c c' : Nat)
    (hc : depth g q ≤ c) (hc' : depth g q ≤ c') : (localStep g q c).1 = (localStep g q c').1 := by
  cases hpc : q.pc with
  | nil => rw [localStep_nil hpc, localStep_nil hpc]
  | cons st rest =>
    rw [localStep_cons hpc, localStep_cons hpc]
    cases st with
    | enter k => exact enter_own_indep g hg k { q with pc := rest } c c' hc hc'
    | leave => simp only [exec, leave]; split <;> rfl
    | gate => rfl
    | write => rfl

/-- bookkeeping of one step, for **any** guard table: the counter moves by exactly what the
request's own depth moves -/
theorem localStep_cnt (g : Guards) (q : ReqSt) (c : Nat) (hc : depth g q ≤ c) :
    (localStep g q c).2 + depth g q = c + depth g (localStep g q c).1 := by
  cases hpc : q.pc with
  | nil => rw [localStep_nil hpc]
  | cons st rest =>
    rw [localStep_cons hpc]
    have hd : depth g { q with pc := rest } = depth g q := rfl
    cases st with
    | enter k =>
      simp only [exec, enter]
      cases hk : g k with
      | none =>
        have : counted g k = false := by simp [counted, hk]
        simp [depth, this]
      | some gd =>
        have hck : counted g k = true := by simp [counted, hk]
        simp only []
        split
        · simp only [depth, List.filter_nil, List.length_nil] at *
          omega
        · simp only [depth, List.filter_cons, hck, if_true, List.length_cons] at *
          omega
    | leave =>
      simp only [exec, leave]
      cases hst : q.stack with
      | nil => simp [depth, hst]
      | cons k rest' =>
        simp only [depth, hst, List.filter_cons] at *
        by_cases hck : counted g k = true
        · simp only [hck, if_true, List.length_cons] at *
          omega
        · have : counted g k = false := by simpa using hck
          simp only [this] at *
          simp
    | gate => simp [exec, depth]
    | write => simp [exec, depth]

theorem stepReq_other (w : World) (s : State) (a r : Rid) (h : a ≠ r) : (stepReq w s a).req r = s.req r := by
  unfold stepReq
  split
  · simp [Ne.symm h]
  · rfl

theorem stepReq_self (w : World) (s : State) (r : Rid) (hr : r < w.n) :
    (stepReq w s r).req r = (localStep w.guards (s.req r) s.cnt).1 := by
  simp [stepReq, hr]

theorem stepReq_absent (w : World) (s : State) (r : Rid) (hr : ¬ r < w.n) : stepReq w s r = s := by
  simp [stepReq, hr]

theorem depth_le_cnt (w : World) (s : State) (r : Rid) (hr : r < w.n) (hi : Inv w s) :
    depth w.guards (s.req r) ≤ s.cnt := by
  unfold Inv at hi
  rw [hi]
  exact le_sum_range (fun i => depth w.guards (s.req i)) r w.n hr

/-- **(i) the invariant is kept by every step of every request, whatever the guards decide on** -/
theorem inv_step (w : World) (s : State) (r : Rid) (hi : Inv w s) : Inv w (stepReq w s r) := by
  by_cases hr : r < w.n
  · have hle := depth_le_cnt w s r hr hi
    have hcnt := localStep_cnt w.guards (s.req r) s.cnt hle
    have hupd : total w.guards (stepReq w s r) w.n + depth w.guards (s.req r)
        = total w.guards s w.n + depth w.guards ((stepReq w s r).req r) :=
      sum_range_update (fun i => depth w.guards (s.req i))
        (fun i => depth w.guards ((stepReq w s r).req i)) r w.n hr
        (fun i hne => by rw [stepReq_other w s r i (Ne.symm hne)])
    have hfr : depth w.guards ((stepReq w s r).req r) = depth w.guards (localStep w.guards (s.req r) s.cnt).1 := by
      rw [stepReq_self w s r hr]
    have hc : (stepReq w s r).cnt = (localStep w.guards (s.req r) s.cnt).2 := by simp [stepReq, hr]
    unfold Inv at *
    omega
  · rw [stepReq_absent w s r hr]; exact hi

theorem inv_run (w : World) (sched : List Rid) : ∀ s, Inv w s → Inv w (run w s sched) := by
  induction sched with
  | nil => intro s h; exact h
  | cons a rest ih => intro s h; exact ih (stepReq w s a) (inv_step w s a h)

theorem inv_init (w : World) : Inv w (init w) := by
  unfold Inv total init
  exact (sum_range_zero _ (fun i => by simp [depth]) w.n).symm

/-- **Projection**: under good guards, from two states satisfying `c = Σ d_i` that agree on
request `r`, any schedule leaves `r` where its own turns alone leave it. -/
theorem sim_run (w : World) (hg : GoodGuards w.guards) (r : Rid) (sched : List Rid) :
    ∀ s s' : State, Inv w s → Inv w s' → s.req r = s'.req r →
      (run w s sched).req r = (run w s' (List.replicate (sched.count r) r)).req r := by
  induction sched with
  | nil => intro s s' _ _ h; simpa [run] using h
  | cons a rest ih =>
    intro s s' hi hi' h
    by_cases har : a = r
    · subst har
      have hcount : (a :: rest).count a = rest.count a + 1 := by simp
      rw [hcount, List.replicate_succ]
      show (run w (stepReq w s a) rest).req a = (run w (stepReq w s' a) (List.replicate (rest.count a) a)).req a
      apply ih _ _ (inv_step w s a hi) (inv_step w s' a hi')
      by_cases hr : a < w.n
      · rw [stepReq_self w s a hr, stepReq_self w s' a hr, ← h]
        exact localStep_indep w.guards hg (s.req a) s.cnt s'.cnt (depth_le_cnt w s a hr hi)
          (by rw [h]; exact depth_le_cnt w s' a hr hi')
      · rw [stepReq_absent w s a hr, stepReq_absent w s' a hr]; exact h
    · have hcount : (a :: rest).count r = rest.count r := by simp [har]
      rw [hcount]
      show (run w (stepReq w s a) rest).req r = _
      apply ih _ _ (inv_step w s a hi) hi'
      rw [stepReq_other w s a r har]; exact h

/-! ### finished requests, saturation -/

theorem localStep_done (g : Guards) (q : ReqSt) (c : Nat) (h : q.pc = []) : (localStep g q c).1 = q := by
  rw [localStep_nil h]

theorem run_self_done (w : World) (r : Rid) (n : Nat) :
    ∀ s : State, (s.req r).pc = [] → (run w s (List.replicate n r)).req r = s.req r := by
  induction n with
  | zero => intro s _; rfl
  | succ n ih =>
    intro s h
    rw [List.replicate_succ]
    show (run w (stepReq w s r) (List.replicate n r)).req r = s.req r
    have hs : (stepReq w s r).req r = s.req r := by
      by_cases hr : r < w.n
      · rw [stepReq_self w s r hr, localStep_nil h]
      · rw [stepReq_absent w s r hr]
    rw [ih (stepReq w s r) (by rw [hs]; exact h), hs]

theorem localStep_pc_length (g : Guards) (q : ReqSt) (c : Nat) :
    (localStep g q c).1.pc.length ≤ q.pc.length - 1 := by
  cases hpc : q.pc with
  | nil => rw [localStep_nil hpc]; simp [hpc]
  | cons st rest =>
    rw [localStep_cons hpc]
    cases st with
    | enter k =>
      simp only [exec, enter]
      split
      · simp
      · split <;> simp
    | leave => simp only [exec, leave]; split <;> simp
    | gate => simp [exec]
    | write => simp [exec]

/-- enough turns of `r` alone finish it: any two such numbers of turns give the same state of `r` -/
theorem run_saturate (w : World) (r : Rid) (hr : r < w.n) :
    ∀ (n m : Nat) (s : State), (s.req r).pc.length ≤ n → (s.req r).pc.length ≤ m →
      (run w s (List.replicate n r)).req r = (run w s (List.replicate m r)).req r := by
  intro n
  induction n with
  | zero =>
    intro m s h _
    have hnil : (s.req r).pc = [] := List.length_eq_zero_iff.mp (by omega)
    rw [run_self_done w r m s hnil]; rfl
  | succ n ih =>
    intro m s hn hm
    by_cases hz : (s.req r).pc.length = 0
    · have hnil : (s.req r).pc = [] := List.length_eq_zero_iff.mp hz
      rw [run_self_done w r m s hnil, run_self_done w r (n + 1) s hnil]
    · obtain ⟨m', rfl⟩ : ∃ m', m = m' + 1 := ⟨m - 1, by omega⟩
      rw [List.replicate_succ, List.replicate_succ]
      show (run w (stepReq w s r) (List.replicate n r)).req r = (run w (stepReq w s r) (List.replicate m' r)).req r
      have hlen := localStep_pc_length w.guards (s.req r) s.cnt
      have hl' : ((stepReq w s r).req r).pc.length ≤ (s.req r).pc.length - 1 := by
        rw [stepReq_self w s r hr]; exact hlen
      exact ih m' (stepReq w s r) (by omega) (by omega)

/-! ### solo run = specification -/

theorem solo_spec (w : World) (hg : GoodGuards w.guards) (r : Rid) (hr : r < w.n) :
    ∀ (prog : List Step) (s : State), (s.req r).pc = prog → Inv w s →
      ((run w s (List.replicate prog.length r)).req r).out
        = Spec.ReqLimit.go (Spec.ReqLimit.limitsOf w.guards) prog (s.req r).stack (s.req r).out := by
  intro prog
  induction prog with
  | nil => intro s _ _; simp [run, Spec.ReqLimit.go]
  | cons st rest ih =>
    intro s hpc hi
    rw [List.length_cons, List.replicate_succ]
    show ((run w (stepReq w s r) (List.replicate rest.length r)).req r).out = _
    have hself := stepReq_self w s r hr
    have hi' := inv_step w s r hi
    have hle := depth_le_cnt w s r hr hi
    rw [localStep_cons hpc] at hself
    cases st with
    | enter k =>
      simp only [exec, enter] at hself
      rw [Spec.ReqLimit.go]
      cases hk : w.guards k with
      | none =>
        simp only [hk] at hself
        have hlim : Spec.ReqLimit.limitsOf w.guards k = none := by simp [Spec.ReqLimit.limitsOf, hk]
        rw [hlim]
        have := ih (stepReq w s r) (by rw [hself]) hi'
        rw [this, hself]
      | some gd =>
        simp only [hk] at hself
        have hok := hg k gd hk
        cases hon : gd.on with
        | shared => unfold GuardOK at hok; rw [hon] at hok; exact hok.elim
        | never =>
          have hlim : Spec.ReqLimit.limitsOf w.guards k = none := by simp [Spec.ReqLimit.limitsOf, hk, hon]
          rw [hlim]
          have hrf : refuse gd (s.cnt + 1) (ownDepth gd k { s.req r with pc := rest }) = false := by simp [refuse, hon]
          simp only [hrf, Bool.false_eq_true, ↓reduceIte] at hself
          have := ih (stepReq w s r) (by rw [hself]) hi'
          rw [this, hself]
        | own =>
          have hlim : Spec.ReqLimit.limitsOf w.guards k = some ⟨gd.ownCounts, gd.ownLimit⟩ := by
            simp [Spec.ReqLimit.limitsOf, hk, hon]
          rw [hlim]
          have hrf := refuse_own w.guards gd k { s.req r with pc := rest } s.cnt hon hok hle
          rw [hrf] at hself
          simp only []
          by_cases hex : ownDepth gd k { s.req r with pc := rest } > gd.ownLimit
          · have hex' : (List.filter (fun j => gd.ownCounts.contains j) (s.req r).stack).length
                + (if gd.ownCounts.contains k = true then 1 else 0) > gd.ownLimit := hex
            simp only [hex, decide_true, ↓reduceIte] at hself
            rw [if_pos hex']
            rw [run_self_done w r rest.length (stepReq w s r) (by rw [hself]), hself]
            simp [reported, hon, ownDepth]
          · have hex' : ¬ ((List.filter (fun j => gd.ownCounts.contains j) (s.req r).stack).length
                + (if gd.ownCounts.contains k = true then 1 else 0) > gd.ownLimit) := hex
            simp only [hex, decide_false, Bool.false_eq_true, ↓reduceIte] at hself
            rw [if_neg hex']
            have := ih (stepReq w s r) (by rw [hself]) hi'
            rw [this, hself]
    | leave =>
      simp only [exec, leave] at hself
      rw [Spec.ReqLimit.go]
      cases hst : (s.req r).stack with
      | nil =>
        simp only [hst] at hself
        have := ih (stepReq w s r) (by rw [hself]) hi'
        rw [this, hself]
        simp
      | cons k rest' =>
        simp only [hst] at hself
        have := ih (stepReq w s r) (by rw [hself]) hi'
        rw [this, hself]
        simp
    | gate =>
      simp only [exec] at hself
      rw [Spec.ReqLimit.go]
      have := ih (stepReq w s r) (by rw [hself]) hi'
      rw [this, hself]
    | write =>
      simp only [exec] at hself
      rw [Spec.ReqLimit.go]
      have := ih (stepReq w s r) (by rw [hself]) hi'
      rw [this, hself]

/-! ### the guards of the analysed tree -/

/-- the decidable check on the regenerated guard facts gives `GoodGuards` for the guard table
the model is run with -/
theorem goodGuards_of_facts (f : Model.Req.Facts) (h : f.guardsIsolated = true) : GoodGuards (guardsOf f) := by
  intro k gd hk
  unfold guardsOf at hk
  cases hf : f.guardOf k with
  | none => rw [hf] at hk; simp at hk
  | some d =>
    rw [hf] at hk
    simp only [Option.map_some, Option.some.injEq] at hk
    subst hk
    have hmem : d ∈ f.depthGuards := by
      unfold Model.Req.Facts.guardOf at hf
      exact List.mem_of_find?_eq_some hf
    have hd : f.guardIsolated d = true := by
      unfold Model.Req.Facts.guardsIsolated at h
      exact List.all_eq_true.mp h d hmem
    unfold Model.Req.Facts.guardIsolated at hd
    unfold GuardOK guardOfFact
    by_cases h1 : (d.decidesOn == "own") = true
    · simp only [h1, if_true]
      simp only [h1, Bool.true_and, Bool.or_eq_true, Bool.and_eq_true, decide_eq_true_eq] at hd
      rcases hd with hn | ⟨hl, hall⟩
      · have e1 : d.decidesOn = "own" := by simpa using h1
        have e2 : d.decidesOn = "never" := by simpa using hn
        rw [e1] at e2
        exact absurd e2 (by decide)
      · refine ⟨hl, ?_⟩
        intro j hj
        have hjm : j ∈ d.ownCounts := List.contains_iff_mem.mp hj
        have := List.all_eq_true.mp hall j hjm
        simp only [counted, guardsOf, Option.isSome_map]
        exact this
    · have h1' : (d.decidesOn == "own") = false := by simpa using h1
      simp only [h1', Bool.false_and, Bool.or_false] at hd
      simp [h1', hd]

end Proofs.ReqLimit
