import Proofs.Lemmas.HierWalk
/-! C08: each of the four subtype tests of the implementation decides `IsA`. -/
namespace Proofs.Hier
open Model.Hier Spec.Hier

/-- the test answered (no fuel problem, no error) and its answer is `P` -/
def Decides (r : R) (P : Prop) : Prop := (r = .yes ∧ P) ∨ (r = .no ∧ ¬ P)

/-- an implements-list scan that answers and means "some implemented interface reaches `t`" -/
def HitDecides (G : Graph) (t : Name) (hit : List Name → Option Bool) : Prop :=
  ∀ impl, ∃ b, hit impl = some b ∧ (b = true ↔ ∃ i ∈ impl, IReach G i t)

theorem implHit_decides (G : Graph) (t : Name) : HitDecides G t (implHit G t) := by
  intro impl
  unfold implHit
  apply anyM_spec (P := fun s => IReach G s t)
  intro s _
  split
  · rename_i h; exact ⟨true, rfl, by simp [h, IReach.refl]⟩
  · exact interfaceExtends_spec G s t

theorem visitIs_decides (G : Graph) (t : Name) (hit : List Name → Option Bool) (hh : HitDecides G t hit) :
    VisitDecides (visitIs hit t) (HitSpec G t) := by
  intro c
  unfold visitIs HitSpec
  split
  · rename_i h; exact Or.inl ⟨rfl, Or.inl h⟩
  · rename_i hne
    obtain ⟨b, hb, hp⟩ := hh c.impl
    rw [hb]
    cases b with
    | true => exact Or.inl ⟨rfl, Or.inr (hp.1 rfl)⟩
    | false =>
      refine Or.inr ⟨rfl, ?_⟩
      rintro (h | h)
      · exact hne h
      · exact absurd (hp.2 h) (by simp)

theorem visit_ne_none {visit : Cls → Option (Option Unit)} {Hit : Cls → Prop} (hv : VisitDecides visit Hit) :
    ∀ c, visit c ≠ none := by
  intro c h
  rcases hv c with ⟨h1, _⟩ | ⟨h1, _⟩ <;> rw [h] at h1 <;> cases h1

/-- the generic shape: own class, then the walk -/
theorem walk_decides (G : Graph) (hn : NoCycle (csucc G)) (t : Name) (hit : List Name → Option Bool)
    (hh : HitDecides G t hit) (ext : Option Name) :
    (∃ r, walkUp G (visitIs hit t) (classFuel G) ext = .found r ∧ AboveIsA G t ext) ∨
    (walkUp G (visitIs hit t) (classFuel G) ext = .absent ∧ ¬ AboveIsA G t ext) ∨
    (∃ n, walkUp G (visitIs hit t) (classFuel G) ext = .missing n ∧ ¬ AboveIsA G t ext) := by
  have hv := visitIs_decides G t hit hh
  have hf := walkUp_no_fuel G hn (visitIs hit t) (visit_ne_none hv) ext
  obtain ⟨i1, i2, i3⟩ := walkUp_isA G t (visitIs hit t) hv (classFuel G) ext
  cases hw : walkUp G (visitIs hit t) (classFuel G) ext with
  | fuel => exact absurd hw hf
  | found r => exact Or.inl ⟨r, rfl, i1 r hw⟩
  | absent => exact Or.inr (Or.inl ⟨rfl, i2 hw⟩)
  | missing n => exact Or.inr (Or.inr ⟨n, rfl, i3 n hw⟩)

theorem extendISClass_spec (G : Graph) (hn : NoCycle (csucc G)) (t : Name) (ext : Option Name) :
    Decides (extendISClass G t ext) (AboveIsA G t ext) := by
  unfold extendISClass
  rcases walk_decides G hn t (implHit G t) (implHit_decides G t) ext with ⟨r, hw, ha⟩ | ⟨hw, ha⟩ | ⟨n, hw, ha⟩
  · rw [hw]; exact Or.inl ⟨rfl, ha⟩
  · rw [hw]; exact Or.inr ⟨rfl, ha⟩
  · rw [hw]; exact Or.inr ⟨rfl, ha⟩

/-- **typed parameter holding an object** -/
theorem isClassValue_spec (G : Graph) (hn : NoCycle (csucc G)) (t : Name) (c : Cls) :
    Decides (isClassValue G t c) (IsA G c t) := by
  unfold isClassValue
  rcases visitIs_decides G t _ (implHit_decides G t) c with ⟨hv, hh⟩ | ⟨hv, hh⟩
  · rw [hv]; exact Or.inl ⟨rfl, (isA_iff G c t).2 (Or.inl hh)⟩
  · rw [hv]
    rcases extendISClass_spec G hn t c.ext with ⟨h1, h2⟩ | ⟨h1, h2⟩
    · exact Or.inl ⟨h1, (isA_iff G c t).2 (Or.inr h2)⟩
    · refine Or.inr ⟨h1, ?_⟩
      intro h
      rcases (isA_iff G c t).1 h with h | h
      · exact hh h
      · exact h2 h

/-- **typed parameter holding `$this`** -/
theorem isThisValue_spec (G : Graph) (hn : NoCycle (csucc G)) (t : Name) (c : Cls) :
    Decides (isThisValue G t c) (IsA G c t) := by
  unfold isThisValue
  split
  · rename_i h; exact Or.inl ⟨rfl, h ▸ IsA.self c⟩
  · rename_i hne
    split
    · rename_i hc
      have : t ∈ c.impl := by simpa using hc
      exact Or.inl ⟨rfl, IsA.impl this (IReach.refl t)⟩
    · obtain ⟨b, hb, hp⟩ := anyM_spec (fun s => interfaceExtends G s t) (fun s => IReach G s t) c.impl
        (fun s _ => interfaceExtends_spec G s t)
      rw [hb]
      cases b with
      | true =>
        obtain ⟨i, hi, hr⟩ := hp.1 rfl
        exact Or.inl ⟨rfl, IsA.impl hi hr⟩
      | false =>
        have hnohit : ¬ HitSpec G t c := by
          rintro (h | h)
          · exact hne h
          · exact absurd (hp.2 h) (by simp)
        rcases extendISClass_spec G hn t c.ext with ⟨h1, h2⟩ | ⟨h1, h2⟩
        · exact Or.inl ⟨h1, (isA_iff G c t).2 (Or.inr h2)⟩
        · refine Or.inr ⟨h1, ?_⟩
          intro h
          rcases (isA_iff G c t).1 h with h | h
          · exact hnohit h
          · exact h2 h

/-- **catch (T)** -/
theorem isThrown_spec (G : Graph) (hn : NoCycle (csucc G)) (t : Name) (c : Cls) (hok : ThrowableOK G c) :
    Decides (isThrown G t c) (IsA G c t) := by
  unfold isThrown
  rcases isClassValue_spec G hn t c with ⟨h1, h2⟩ | ⟨h1, h2⟩
  · rw [h1]; exact Or.inl ⟨rfl, h2⟩
  · rw [h1]
    simp only
    split
    · rename_i ht
      subst ht
      rcases isClassValue_spec G hn exceptionName c with ⟨e1, e2⟩ | ⟨e1, e2⟩
      · exact absurd (hok.1 e2) h2
      · rw [e1]
        simp only
        rcases isClassValue_spec G hn errorName c with ⟨f1, f2⟩ | ⟨f1, f2⟩
        · exact absurd (hok.2 f2) h2
        · exact Or.inr ⟨f1, h2⟩
    · exact Or.inr ⟨rfl, h2⟩

/-! ### the `instanceof` operator -/

theorem implHitOp_decides (G : Graph) (hn : NoCycle (isucc G))
    (hwf : ∀ d ∈ G.ifaces, ∀ j ∈ d.ext, (getIface G j).isSome) (t : Name) : HitDecides G t (implHitOp G t) := by
  intro impl
  unfold implHitOp
  apply anyM_spec (P := fun s => IReach G s t)
  intro s _
  split
  · rename_i h; exact ⟨true, rfl, by simp [h, IReach.refl]⟩
  · rename_i hst
    split
    · rename_i hnone
      refine ⟨false, rfl, ?_⟩
      simp only [Bool.false_eq_true, false_iff]
      intro hr
      cases hr with
      | refl => exact hst rfl
      | step hd _ _ => rw [hnone] at hd; cases hd
    · rename_i i hi
      have hself := getIface_self hi
      cases hb : dfs G t (depthFuel G) i with
      | none => exact absurd hb (dfs_no_fuel G hn t i hself)
      | some b =>
        refine ⟨b, rfl, ?_⟩
        have := dfs_spec G hwf t _ i b hself hb
        rw [getIface_name hi] at this
        exact this

theorem ireach_declared (G : Graph) (hwf : ∀ d ∈ G.ifaces, ∀ j ∈ d.ext, (getIface G j).isSome) :
    ∀ i t, IReach G i t → (getIface G i).isSome → (getIface G t).isSome := by
  intro i t h
  induction h with
  | refl => exact id
  | step hd hj _ ih => intro _; exact ih (hwf _ (getIface_mem hd) _ hj)

theorem isA_declared (G : Graph) (hwf : WF G) : ∀ c t, IsA G c t → Declared G c →
    (getClass G t).isSome ∨ (getIface G t).isSome := by
  intro c t h
  induction h with
  | self c => intro hd; left; unfold Declared at hd; rw [hd]; rfl
  | impl hi hr =>
    intro hd
    right
    have hmem := getClass_mem hd
    exact ireach_declared G hwf.2 _ _ hr ((hwf.1 _ hmem).2 _ hi)
  | ext _ hd' _ ih => intro _; exact ih (getClass_declared hd')

/-- **`$o instanceof T`** -/
theorem instanceofOp_spec (G : Graph) (hwf : WF G) (hac : Acyclic G) (t : Name) (c : Cls) (hc : Declared G c) :
    Decides (instanceofOp G t c) (IsA G c t) := by
  unfold instanceofOp
  split
  · rename_i hund
    refine Or.inr ⟨rfl, ?_⟩
    intro h
    have := isA_declared G hwf c t h hc
    simp only [Bool.and_eq_true, Option.isNone_iff_eq_none] at hund
    rw [hund.1, hund.2] at this
    simp at this
  · unfold checkClassIs
    have hh := implHitOp_decides G hac.2 hwf.2 t
    rcases visitIs_decides G t _ hh c with ⟨hv, hhit⟩ | ⟨hv, hhit⟩
    · rw [hv]; exact Or.inl ⟨rfl, (isA_iff G c t).2 (Or.inl hhit)⟩
    · rw [hv]
      simp only
      rcases walk_decides G hac.1 t _ hh c.ext with ⟨r, hw, ha⟩ | ⟨hw, ha⟩ | ⟨n, hw, _⟩
      · rw [hw]; exact Or.inl ⟨rfl, (isA_iff G c t).2 (Or.inr ha)⟩
      · rw [hw]
        refine Or.inr ⟨rfl, ?_⟩
        intro h
        rcases (isA_iff G c t).1 h with h | h
        · exact hhit h
        · exact ha h
      · exfalso
        obtain ⟨hnone, hwho⟩ := walkUp_missing G _ _ _ _ hw
        rcases hwho with h | ⟨c', hc', hext⟩
        · have := (hwf.1 c (getClass_mem hc)).1 n h
          rw [hnone] at this; cases this
        · have := (hwf.1 c' hc').1 n hext
          rw [hnone] at this; cases this

theorem decides_of_kind (G : Graph) (hac : Acyclic G) (k : Kind) (c : Cls) (t : Name) (hok : KindOK G c k) :
    Decides (isInstanceOf G k c t) (IsA G c t) := by
  cases k with
  | op => exact instanceofOp_spec G hok.1 hac t c hok.2
  | param => exact isClassValue_spec G hac.1 t c
  | this => exact isThisValue_spec G hac.1 t c
  | thrown => exact isThrown_spec G hac.1 t c hok

end Proofs.Hier
