import Model.Ops
import Spec.Ops
import Proofs.Lemmas.Ops
import Proofs.Lemmas.OpsExact
/-! C03: the kind (type) of an operator's result — for **all** operand values, mixed kinds, arrays and
objects included. `Spec.Ops.fixedKind` names the kind the language fixes whatever the operands are;
these lemmas show the operator nodes as modelled never yield a value of another kind. -/
namespace Proofs.Ops
open Model.Ops
section
variable {F : Type} (P : Prim F)

theorem viaCompare_kind {T : TruthTable} (test : Ord4 → Bool) (a b : Val F) (v : Val F)
    (hv : viaCompare P T test a b = .val v) : v.kind = .bool := by
  unfold viaCompare at hv
  split at hv
  · cases hv; rfl
  · cases hv

theorem shiftWith_kind (f : BitVec 64 → Nat → BitVec 64) (a b : Val F) (v : Val F)
    (hv : shiftWith P f a b = .val v) : v.kind = .int := by
  unfold shiftWith at hv
  repeat' split at hv
  all_goals first | cases hv | skip
  all_goals rfl

theorem quo_kind (a b : Val F) (v : Val F) (hv : quo P a b = .val v) : v.kind = .float := by
  unfold quo at hv
  repeat' split at hv
  all_goals first | cases hv | skip
  all_goals rfl

theorem land_kind {T : TruthTable} (a b : Val F) (v : Val F) (hv : land P T a b = .val v) : v.kind = .bool := by
  unfold land at hv
  repeat' split at hv
  all_goals first | cases hv | skip
  all_goals rfl

theorem lor_kind {T : TruthTable} (a b : Val F) (v : Val F) (hv : lor P T a b = .val v) : v.kind = .bool := by
  unfold lor at hv
  repeat' split at hv
  all_goals first | cases hv | skip
  all_goals rfl

/-- **the result kind the language fixes**: whenever `a OP b` yields a value — on any operands — the
value has the kind `Spec.Ops.fixedKind OP` names (`.` a string, `== != === !== < <= > >= && ||` a
bool, `<=>` an int, `/` a float, `& | ^ << >>` an int). No hypothesis on the truthiness table. -/
theorem eval_fixed_kind {T : TruthTable} (op : BinOp) (same : Bool) (a b : Val F) (k : Kind)
    (hk : Spec.Ops.fixedKind op = some k) (v : Val F) (hv : eval P T op same a b = .val v) : v.kind = k := by
  cases op <;> simp [Spec.Ops.fixedKind] at hk <;> subst hk <;> simp only [eval] at hv
  · exact quo_kind P a b v hv
  · simp [band] at hv; subst hv; rfl
  · simp [bor] at hv; subst hv; rfl
  · simp [bxor] at hv; subst hv; rfl
  · exact shiftWith_kind P _ a b v hv
  · exact shiftWith_kind P _ a b v hv
  · unfold eqv at hv; split at hv
    · cases hv; rfl
    · exact viaCompare_kind P _ a b v hv
  · unfold nev at hv; split at hv
    · cases hv; rfl
    · exact viaCompare_kind P _ a b v hv
  · simp [seq] at hv; subst hv; rfl
  · simp [sne] at hv; subst hv; rfl
  · exact viaCompare_kind P _ a b v hv
  · exact viaCompare_kind P _ a b v hv
  · exact viaCompare_kind P _ a b v hv
  · exact viaCompare_kind P _ a b v hv
  · unfold cmp at hv; split at hv
    · cases hv; rfl
    · cases hv
  · exact land_kind P a b v hv
  · exact lor_kind P a b v hv
  · simp [dot] at hv; subst hv; rfl

theorem evalUn_fixed_kind {T : TruthTable} (op : UnOp) (a : Val F) (k : Kind)
    (hk : Spec.Ops.fixedKindUn op = some k) (v : Val F) (hv : evalUn P T op a = .val v) : v.kind = k := by
  cases op <;> simp [Spec.Ops.fixedKindUn] at hk <;> subst hk <;> simp only [evalUn] at hv
  · unfold bnot at hv; split at hv <;> cases hv; rfl
  · unfold lnot at hv; split at hv <;> cases hv; rfl
  · unfold castB at hv; split at hv <;> cases hv; rfl
  · unfold castI at hv
    repeat' split at hv
    all_goals first | cases hv | skip
    all_goals rfl
  · unfold castF at hv
    repeat' split at hv
    all_goals first | cases hv | skip
    all_goals rfl

/-- **operators defined on every operand pair**: `.`, the comparison and identity operators, `<=>`,
`&&`, `||` always yield a value (never an error) — for a well-formed truthiness table -/
theorem eval_always_value {T : TruthTable} (hT : wf T = true) (op : BinOp) (same : Bool) (a b : Val F)
    (h : Spec.Ops.alwaysValue op = true) : ∃ v, eval P T op same a b = .val v := by
  obtain ⟨o, ho⟩ := looseCompare_some P hT a b
  have hlL := wf_truthyAt P hT (ctx := "landL") (by decide) a
  have hlR := wf_truthyAt P hT (ctx := "landR") (by decide) b
  have hoL := wf_truthyAt P hT (ctx := "lorL") (by decide) a
  have hoR := wf_truthyAt P hT (ctx := "lorR") (by decide) b
  cases op <;> simp [Spec.Ops.alwaysValue] at h <;> simp only [eval]
  · unfold eqv; split
    · exact ⟨_, rfl⟩
    · simp [viaCompare, ho]
  · unfold nev; split
    · exact ⟨_, rfl⟩
    · simp [viaCompare, ho]
  · exact ⟨_, rfl⟩
  · exact ⟨_, rfl⟩
  · simp [lt, viaCompare, ho]
  · simp [le, viaCompare, ho]
  · simp [gt, viaCompare, ho]
  · simp [ge, viaCompare, ho]
  · simp [cmp, ho]
  · unfold land; rw [hlL, hlR]; cases Spec.Ops.truthy P a <;> simp
  · unfold lor; rw [hoL, hoR]; cases Spec.Ops.truthy P a <;> simp
  · exact ⟨_, rfl⟩

theorem evalUn_always_value {T : TruthTable} (hT : wf T = true) (op : UnOp) (a : Val F)
    (h : Spec.Ops.alwaysValueUn op = true) : ∃ v, evalUn P T op a = .val v := by
  have hn := wf_truthyAt P hT (ctx := "not") (by decide) a
  have hc := wf_truthyAt P hT (ctx := "castb") (by decide) a
  cases op <;> simp [Spec.Ops.alwaysValueUn] at h <;> simp only [evalUn]
  · simp [lnot, hn]
  · simp [castB, hc]

/-- `%`: the result is a number of the left operand's kind (an int for an int dividend, a float for a
float dividend); any other dividend is an error -/
theorem rem_kind (a b : Val F) (v : Val F) (hv : rem P a b = .val v) :
    (a.kind = .int ∧ v.kind = .int) ∨ (a.kind = .float ∧ v.kind = .float) := by
  unfold rem at hv
  repeat' split at hv
  all_goals first | cases hv | skip
  · exact .inl ⟨rfl, rfl⟩
  · exact .inr ⟨rfl, rfl⟩

theorem ofExcept_val {e : Except ErrKind (Val F)} {v : Val F} (h : Model.Ops.ofExcept e = .val v) : e = .ok v := by
  cases e <;> simp [Model.Ops.ofExcept] at h ⊢; exact h

/-- `- * ** %` yield a number whenever they yield a value -/
theorem numeric_kind {T : TruthTable} (op : BinOp) (same : Bool) (a b : Val F)
    (h : Spec.Ops.numericResult op = true) (v : Val F) (hv : eval P T op same a b = .val v) :
    Spec.Ops.isNumberKind v.kind = true := by
  cases op <;> simp [Spec.Ops.numericResult] at h <;> simp only [eval] at hv
  · -- sub
    unfold sub at hv
    repeat' split at hv
    all_goals first | cases hv | skip
    all_goals first
      | rfl
      | (have := ofExcept_val hv
         simp only [bind, Except.bind, pure, Except.pure] at this
         split at this <;> cases this <;> rfl)
  · -- mul
    unfold mul at hv
    repeat' split at hv
    all_goals first | cases hv | skip
    all_goals first
      | rfl
      | (have := ofExcept_val hv
         simp only [bind, Except.bind, pure, Except.pure] at this
         split at this <;> cases this <;> rfl)
  · -- rem
    rcases rem_kind P a b v hv with ⟨_, h2⟩ | ⟨_, h2⟩ <;> rw [h2] <;> rfl
  · -- pow
    unfold pow at hv
    repeat' split at hv
    all_goals first | cases hv | skip
    all_goals (simp only at hv; split at hv <;> cases hv <;> rfl)

theorem neg_kind (a : Val F) (v : Val F) (hv : neg P a = .val v) : Spec.Ops.isNumberKind v.kind = true := by
  unfold neg at hv
  repeat' split at hv
  all_goals first | cases hv | skip
  all_goals rfl

/-- `<=>` yields −1, 0 or 1 -/
theorem cmp_range {T : TruthTable} (a b : Val F) (v : Val F) (hv : cmp P T a b = .val v) :
    v = .int (BitVec.ofInt 64 (-1)) ∨ v = .int 0#64 ∨ v = .int 1#64 := by
  unfold cmp at hv
  split at hv
  · rename_i o _
    cases hv
    cases o <;> simp [Ord4.toInt]
  · cases hv

/-- the documented results themselves have the fixed kinds (sanity of `Spec.Ops`) -/
theorem map_mkBool_kind {o : Option Bool} {g : Bool → Bool} {v : Val F}
    (hs : o.map (fun e => (Spec.Ops.mkBool (g e) : Res F)) = some (.val v)) : v.kind = .bool := by
  cases o <;> simp [Spec.Ops.mkBool] at hs
  subst hs; rfl

theorem map_mkBool_kind2 {o : Option (Bool × Bool)} {g : Bool × Bool → Bool} {v : Val F}
    (hs : o.map (fun e => (Spec.Ops.mkBool (g e) : Res F)) = some (.val v)) : v.kind = .bool := by
  cases o <;> simp [Spec.Ops.mkBool] at hs
  subst hs; rfl

theorem bitop_kind (f : BitVec 64 → BitVec 64 → BitVec 64) (a b v : Val F)
    (hs : Spec.Ops.bitop f a b = some (.val v)) : v.kind = .int := by
  unfold Spec.Ops.bitop at hs
  split at hs <;> cases hs
  rfl

theorem shift_kind (l : Bool) (a b v : Val F)
    (hs : Spec.Ops.shift l a b = some (.val v)) : v.kind = .int := by
  unfold Spec.Ops.shift at hs
  split at hs
  · simp only [Option.some.injEq] at hs
    repeat' split at hs
    all_goals first | cases hs | skip
    all_goals rfl
  · cases hs

/-- the documented results themselves have the fixed kinds (sanity of `Spec.Ops`) -/
theorem spec_fixed_kind (op : BinOp) (a b : Val F) (k : Kind) (hk : Spec.Ops.fixedKind op = some k)
    (v : Val F) (hs : Spec.Ops.eval P op a b = some (.val v)) : v.kind = k := by
  cases op <;> simp [Spec.Ops.fixedKind] at hk <;> subst hk <;> simp only [Spec.Ops.eval] at hs
  · -- quo
    unfold Spec.Ops.quo at hs
    split at hs
    · simp only [Option.some.injEq] at hs
      split at hs <;> cases hs
      rfl
    · cases hs
  · exact bitop_kind _ a b v hs
  · exact bitop_kind _ a b v hs
  · exact bitop_kind _ a b v hs
  · exact shift_kind _ a b v hs
  · exact shift_kind _ a b v hs
  · exact map_mkBool_kind (g := id) hs
  · exact map_mkBool_kind (g := fun e => !e) hs
  · exact map_mkBool_kind (g := id) hs
  · exact map_mkBool_kind (g := fun e => !e) hs
  · exact map_mkBool_kind2 (g := fun o => o.1) hs
  · exact map_mkBool_kind2 (g := fun o => o.2) hs
  · exact map_mkBool_kind2 (g := fun o => o.1) hs
  · exact map_mkBool_kind2 (g := fun o => o.2) hs
  · unfold Spec.Ops.spaceship at hs
    split at hs <;> cases hs
    rfl
  · simp [Spec.Ops.mkBool] at hs; subst hs; rfl
  · simp [Spec.Ops.mkBool] at hs; subst hs; rfl
  · split at hs <;> cases hs
    rfl

end
end Proofs.Ops
