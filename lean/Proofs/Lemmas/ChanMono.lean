import Proofs.Lemmas.ChanObs
/-! What stays true once the flag is set / the Go channel is closed, and the pc ↔ program link. -/
namespace Proofs.Chan
open Model.Chan

/-- a thread in the middle of `Send` / `Close` has that operation at the head of its program -/
def WfPc (s : St) : Prop :=
  ∀ t, (s.pc t = .sendChecked → ∃ v, (s.prog t).head? = some (.send v)) ∧
       (isCloser (s.pc t) = true → (s.prog t).head? = some .close)

theorem wf_init (cap : Nat) (prog : Nat → List Op) : WfPc (init cap prog) := by
  intro t; simp [init, isCloser]

macro "wf_tac" t:term : tactic =>
  `(tactic| (intro x <;> have hw := ‹WfPc _› x <;> by_cases hx : x = $t <;>
      simp_all [St.finish, upd, isCloser] <;> (try grind)))

theorem wf_step (s s' : St) (h : WfPc s) (hp : Prim s s') : WfPc s' := by
  cases hp with
  | sendCheck t v hpc hpg =>
    unfold stepSendCheck
    split
    · wf_tac t
    · wf_tac t
  | sendDo t v s' hpc hs =>
    unfold stepSendDo at hs
    split at hs
    · cases hs; wf_tac t
    · split at hs
      · cases hs; wf_tac t
      · cases hs
  | abort t v s' hpc hs =>
    unfold stepAbort at hs
    split at hs
    · cases hs; wf_tac t
    · cases hs
  | recv r s' hpc hs =>
    unfold stepRecv at hs
    split at hs
    · cases hs; wf_tac r
    · split at hs
      · cases hs; wf_tac r
      · cases hs
  | closeCas t hpc hpg =>
    unfold stepCloseCas
    split
    · wf_tac t
    · wf_tac t
  | closeSignal t hpc =>
    unfold stepCloseSignal
    split
    · wf_tac t
    · wf_tac t
  | closeFinal t s' hpc hs =>
    unfold stepCloseFinal at hs
    split at hs
    · cases hs
    · split at hs
      · cases hs; wf_tac t
      · cases hs; wf_tac t
  | isClosed t hpc =>
    unfold stepIsClosed
    wf_tac t
  | hand t r v hpt hpr hc hcap hb =>
    unfold handSt
    intro x
    have hw := h x
    by_cases hx : x = t <;> by_cases hy : x = r <;> simp_all [St.finish, upd, isCloser] <;> (try grind)

theorem wf_exec (cap : Nat) (prog : Nat → List Op) (sched : List Act) : WfPc (exec (init cap prog) sched) :=
  exec_induct WfPc (fun s s' h _ hp => wf_step s s' h hp) sched _ (wf_init cap prog)

/-- the closed flag is never reset -/
theorem flag_step (s s' : St) (hp : Prim s s') (hf : s.flag = true) : s'.flag = true := by
  cases hp with
  | sendCheck t v hpc hpg => unfold stepSendCheck; split <;> simp_all [St.finish]
  | sendDo t v s' hpc hs =>
    unfold stepSendDo at hs
    split at hs
    · cases hs; simpa using hf
    · split at hs
      · cases hs; simpa [St.finish] using hf
      · cases hs
  | abort t v s' hpc hs =>
    unfold stepAbort at hs
    split at hs
    · cases hs; simpa [St.finish] using hf
    · cases hs
  | recv r s' hpc hs =>
    unfold stepRecv at hs
    split at hs
    · cases hs; simpa [St.finish] using hf
    · split at hs
      · cases hs; simpa [St.finish] using hf
      · cases hs
  | closeCas t hpc hpg => unfold stepCloseCas; split <;> simp_all [St.finish]
  | closeSignal t hpc => unfold stepCloseSignal; split <;> simp_all
  | closeFinal t s' hpc hs =>
    unfold stepCloseFinal at hs
    split at hs
    · cases hs
    · split at hs
      · cases hs; simpa using hf
      · cases hs; simpa [St.finish] using hf
  | isClosed t hpc => unfold stepIsClosed; simpa [St.finish] using hf
  | hand t r v hpt hpr hc hcap hb => unfold handSt; simpa [St.finish] using hf

theorem flag_exec (s : St) (sched : List Act) (hf : s.flag = true) : (exec s sched).flag = true :=
  exec_induct (fun s => s.flag = true) (fun s s' h _ hp => flag_step s s' hp h) sched s hf

/-- after the Go channel is closed nothing is added: what leaves the buffer is received, no send succeeds -/
structure ClosedRel (s0 s : St) : Prop where
  closed : s.chClosed = true
  same : msgs s ++ s.buf = msgs s0 ++ s0.buf
  log : s.sentLog = s0.sentLog
  ext : ∃ e, s.recvd = s0.recvd ++ e
  shrink : ∃ k, s.buf = s0.buf.drop k

theorem closed_step (s0 s s' : St) (hpr : Proto s) (h : ClosedRel s0 s) (hp : Prim s s') : ClosedRel s0 s' := by
  obtain ⟨hc, hs, hl, ⟨e, he⟩, ⟨k, hk⟩⟩ := h
  have hno : ∀ t, s.pc t ≠ .sendChecked := by
    intro t ht
    have := (hpr.hold t).2 ht
    rw [hpr.ch hc] at this
    cases this
  cases hp with
  | sendCheck t v hpc hpg =>
    have hf : s.flag = true := hpr.df (hpr.cd hc)
    unfold stepSendCheck
    simp only [hf, if_true]
    exact ⟨by simpa [St.finish] using hc, by simpa [St.finish, msgs] using hs, by simpa [St.finish] using hl,
      ⟨e, by simpa [St.finish] using he⟩, ⟨k, by simpa [St.finish] using hk⟩⟩
  | sendDo t v s' hpc hs' => exact absurd hpc (hno t)
  | abort t v s' hpc hs' => exact absurd hpc (hno t)
  | hand t r v hpt hpr' hc' hcap hb => exact absurd hpt (hno t)
  | recv r s' hpc hs' =>
    unfold stepRecv at hs'
    split at hs'
    · rename_i m rest hb
      cases hs'
      refine ⟨by simpa [St.finish] using hc, ?_, by simpa [St.finish] using hl, ⟨e ++ [(r, m)], by simp [St.finish, he]⟩,
        ⟨k + 1, ?_⟩⟩
      · simp only [St.finish, msgs, List.map_append, List.map_cons, List.map_nil, List.append_assoc,
          List.cons_append, List.nil_append]
        simpa [msgs, hb] using hs
      · simp only [St.finish]
        rw [← List.drop_drop, ← hk, hb]; rfl
    · simp only [hc, if_true, Option.some.injEq] at hs'
      subst hs'
      exact ⟨by simpa [St.finish] using hc, by simpa [St.finish, msgs] using hs, by simpa [St.finish] using hl,
        ⟨e, by simpa [St.finish] using he⟩, ⟨k, by simpa [St.finish] using hk⟩⟩
  | closeCas t hpc hpg =>
    have hf : s.flag = true := hpr.df (hpr.cd hc)
    unfold stepCloseCas
    simp only [hf, if_true]
    exact ⟨by simpa [St.finish] using hc, by simpa [St.finish, msgs] using hs, by simpa [St.finish] using hl,
      ⟨e, by simpa [St.finish] using he⟩, ⟨k, by simpa [St.finish] using hk⟩⟩
  | closeSignal t hpc =>
    have := hpr.cf t hpc
    have := hpr.cd hc
    simp_all
  | closeFinal t s' hpc hs' =>
    have := (hpr.cs t hpc).2
    simp_all
  | isClosed t hpc =>
    unfold stepIsClosed
    exact ⟨by simpa [St.finish] using hc, by simpa [St.finish, msgs] using hs, by simpa [St.finish] using hl,
      ⟨e, by simpa [St.finish] using he⟩, ⟨k, by simpa [St.finish] using hk⟩⟩

theorem closed_exec (s0 : St) (hi : Inv s0) (hc : s0.chClosed = true) (sched : List Act) :
    ClosedRel s0 (exec s0 sched) := by
  have := exec_induct (fun s => Inv s ∧ ClosedRel s0 s)
    (fun s s' h _ hp => ⟨⟨proto_step s s' h.1.proto hp, data_step s s' h.1.data hp, obs_step s s' h.1.proto h.1.obs hp⟩,
      closed_step s0 s s' h.1.proto h.2 hp⟩)
    sched s0 ⟨hi, ⟨hc, rfl, rfl, ⟨[], by simp⟩, ⟨0, by simp⟩⟩⟩
  exact this.2

end Proofs.Chan
