import Model.Cpm
/-! C10: sequential facts about the class-path manager `Model.Cpm` — the namespace tree stays
prefix-closed, no call ever removes a node or a path (memoisation only adds fresh nodes), so a
registered namespace directory stays visible to every later lookup. -/
namespace Proofs.Cpm
open Model.Cpm

theorem look_set_self (ns : Nodes) (k : Key) (v : List Dir) : look (put ns k v) k = some v := by
  induction ns with
  | nil => simp [put, look]
  | cons e rest ih =>
    obtain ⟨k', v'⟩ := e
    by_cases h : k' = k
    · simp [put, look, h]
    · simp [put, look, h, ih]

theorem look_set_ne (ns : Nodes) (k k' : Key) (v : List Dir) (h : k' ≠ k) :
    look (put ns k v) k' = look ns k' := by
  induction ns with
  | nil =>
    have : ¬ k = k' := fun e => h e.symm
    simp [put, look, this]
  | cons e rest ih =>
    obtain ⟨k₀, v₀⟩ := e
    by_cases h0 : k₀ = k
    · subst h0
      have : ¬ k₀ = k' := fun e => h e.symm
      simp [put, look, this]
    · by_cases h1 : k₀ = k'
      · subst h1
        simp [put, look, h0]
      · simp [put, look, h0, h1, ih]

/-- every prefix of a node's namespace is a node -/
def PC (ns : Nodes) : Prop := ∀ k ext, look ns (k ++ ext) ≠ none → look ns k ≠ none

/-- nothing is lost: every node is still there and has at least the paths it had -/
def Mono (ns ns' : Nodes) : Prop :=
  ∀ k ps, look ns k = some ps → ∃ ps', look ns' k = some ps' ∧ ∀ p ∈ ps, p ∈ ps'

theorem Mono.refl (ns : Nodes) : Mono ns ns := fun _ ps h => ⟨ps, h, fun _ hp => hp⟩

theorem Mono.trans {a b c : Nodes} (h1 : Mono a b) (h2 : Mono b c) : Mono a c := by
  intro k ps h
  obtain ⟨ps', h', hs'⟩ := h1 k ps h
  obtain ⟨ps'', h'', hs''⟩ := h2 k ps' h'
  exact ⟨ps'', h'', fun p hp => hs'' p (hs' p hp)⟩

theorem Mono.exists {a b : Nodes} (h : Mono a b) {k : Key} (hk : look a k ≠ none) : look b k ≠ none := by
  cases ha : look a k with
  | none => exact absurd ha hk
  | some ps =>
    obtain ⟨ps', h', _⟩ := h k ps ha
    simp [h']

theorem mono_set_fresh (ns : Nodes) (k : Key) (v : List Dir) (h : look ns k = none) : Mono ns (put ns k v) := by
  intro k' ps hk
  have : k' ≠ k := by
    intro e; subst e; rw [h] at hk; cases hk
  exact ⟨ps, by rw [look_set_ne _ _ _ _ this]; exact hk, fun _ hp => hp⟩

theorem mono_set_grow (ns : Nodes) (k : Key) (ps v : List Dir) (h : look ns k = some ps) (hv : ∀ p ∈ ps, p ∈ v) :
    Mono ns (put ns k v) := by
  intro k' ps' hk
  by_cases e : k' = k
  · subst e
    rw [h] at hk
    cases hk
    exact ⟨v, look_set_self _ _ _, hv⟩
  · exact ⟨ps', by rw [look_set_ne _ _ _ _ e]; exact hk, fun _ hp => hp⟩

/-- a proper prefix of `cur ++ [part]` is a prefix of `cur` -/
theorem prefix_of_snoc (k ext cur : Key) (part : String) (h : k ++ ext = cur ++ [part]) (hk : k ≠ cur ++ [part]) :
    ∃ ext', k ++ ext' = cur := by
  have hne : ext ≠ [] := by
    intro e; subst e; simp at h; exact hk h
  have hsplit := List.dropLast_concat_getLast hne
  rw [← hsplit, ← List.append_assoc] at h
  have := List.append_inj' h (by simp)
  exact ⟨ext.dropLast, this.1⟩

theorem pc_set (ns : Nodes) (cur : Key) (part : String) (v : List Dir) (hpc : PC ns) (hcur : look ns cur ≠ none) :
    PC (put ns (cur ++ [part]) v) := by
  intro k ext h
  by_cases hk : k = cur ++ [part]
  · subst hk; simp [look_set_self]
  · rw [look_set_ne _ _ _ _ hk]
    by_cases he : k ++ ext = cur ++ [part]
    · obtain ⟨ext', h'⟩ := prefix_of_snoc k ext cur part he hk
      exact hpc k ext' (by rw [h']; exact hcur)
    · rw [look_set_ne _ _ _ _ he] at h
      exact hpc k ext h

/-- no node at or below `k` -/
def Fresh (ns : Nodes) (k : Key) : Prop := ∀ ext, look ns (k ++ ext) = none

theorem fresh_of_pc (ns : Nodes) (k : Key) (hpc : PC ns) (h : look ns k = none) : Fresh ns k := by
  intro ext
  cases hx : look ns (k ++ ext) with
  | none => rfl
  | some v => exact absurd h (hpc k ext (by simp [hx]))

theorem ne_append_cons (k : Key) (x : String) (ext : List String) : k ++ x :: ext ≠ k := by
  intro h
  have := congrArg List.length h
  simp at this

/-- the inner loop of `findNamespaceNode`: it only ever inserts fresh nodes -/
theorem discover_spec (d : Disk) (part : String) (paths : List Dir) (ns : Nodes) (cur : Key) (found : Bool)
    (hpc : PC ns) (hcur : look ns cur ≠ none) (hfresh : Fresh ns (cur ++ [part])) :
    PC (discover d part paths (ns, cur, found)).1 ∧ Mono ns (discover d part paths (ns, cur, found)).1 ∧
    look (discover d part paths (ns, cur, found)).1 (discover d part paths (ns, cur, found)).2.1 ≠ none := by
  induction paths generalizing ns cur found with
  | nil => exact ⟨hpc, Mono.refl ns, hcur⟩
  | cons p ps ih =>
    simp only [discover]
    cases hs : d.sub p part with
    | none => exact ih ns cur found hpc hcur hfresh
    | some dir =>
      simp only []
      have hnone : look ns (cur ++ [part]) = none := by simpa using hfresh []
      have hpc' := pc_set ns cur part [dir] hpc hcur
      have hcur' : look (put ns (cur ++ [part]) [dir]) (cur ++ [part]) ≠ none := by simp [look_set_self]
      have hfresh' : Fresh (put ns (cur ++ [part]) [dir]) (cur ++ [part] ++ [part]) := by
        intro ext
        have hne : cur ++ [part] ++ [part] ++ ext ≠ cur ++ [part] := by
          rw [List.append_assoc (cur ++ [part])]
          exact ne_append_cons _ _ _
        rw [look_set_ne _ _ _ _ hne, List.append_assoc (cur ++ [part])]
        exact hfresh _
      obtain ⟨h1, h2, h3⟩ := ih (put ns (cur ++ [part]) [dir]) (cur ++ [part]) true hpc' hcur' hfresh'
      exact ⟨h1, (mono_set_fresh ns _ _ hnone).trans h2, h3⟩

/-- `findNamespaceNode`: the tree stays prefix-closed, nothing is lost, the returned node exists -/
theorem walk_spec (d : Disk) (parts : List String) (ns : Nodes) (cur : Key) (hpc : PC ns) (hcur : look ns cur ≠ none) :
    PC (walk d ns cur parts).1 ∧ Mono ns (walk d ns cur parts).1 ∧
    ∀ k, (walk d ns cur parts).2 = some k → look (walk d ns cur parts).1 k ≠ none := by
  induction parts generalizing ns cur with
  | nil => exact ⟨hpc, Mono.refl ns, fun k hk => by simp only [walk] at hk ⊢; cases hk; exact hcur⟩
  | cons part rest ih =>
    simp only [walk]
    cases hl : look ns (cur ++ [part]) with
    | some v => exact ih ns (cur ++ [part]) hpc (by simp [hl])
    | none =>
      simp only []
      cases hc : look ns cur with
      | none => exact absurd hc hcur
      | some paths =>
        simp only []
        obtain ⟨h1, h2, h3⟩ := discover_spec d part paths ns cur false hpc hcur (fresh_of_pc ns _ hpc hl)
        split
        · obtain ⟨g1, g2, g3⟩ := ih _ _ h1 h3
          exact ⟨g1, h2.trans g2, g3⟩
        · exact ⟨h1, h2, fun k hk => by cases hk⟩

/-- `addNamespaceToDAG`: prefix-closed, nothing lost, the node of the namespace has the path -/
theorem addWalk_spec (parts : List String) (path : Dir) (ns : Nodes) (cur : Key) (hpc : PC ns) (hcur : look ns cur ≠ none) :
    PC (addWalk ns cur parts path) ∧ Mono ns (addWalk ns cur parts path) ∧
    (parts ≠ [] → ∃ ps, look (addWalk ns cur parts path) (cur ++ parts) = some ps ∧ path ∈ ps) := by
  induction parts generalizing ns cur with
  | nil => exact ⟨hpc, Mono.refl ns, fun h => absurd rfl h⟩
  | cons part rest ih =>
    cases rest with
    | nil =>
      simp only [addWalk]
      refine ⟨pc_set ns cur part _ hpc hcur, ?_, fun _ => ⟨_, look_set_self _ _ _, ?_⟩⟩
      · cases hl : look ns (cur ++ [part]) with
        | none => exact mono_set_fresh ns _ _ hl
        | some ps =>
          simp only []
          apply mono_set_grow ns _ ps _ hl
          intro p hp
          split
          · exact hp
          · exact List.mem_append_left _ hp
      · split
        · split
          · assumption
          · simp
        · simp
    | cons part2 rest2 =>
      simp only [addWalk]
      have key : ∀ ns1 : Nodes, PC ns1 → Mono ns ns1 → look ns1 (cur ++ [part]) ≠ none →
          PC (addWalk ns1 (cur ++ [part]) (part2 :: rest2) path) ∧ Mono ns (addWalk ns1 (cur ++ [part]) (part2 :: rest2) path) ∧
          (part :: part2 :: rest2 ≠ [] → ∃ ps, look (addWalk ns1 (cur ++ [part]) (part2 :: rest2) path) (cur ++ part :: part2 :: rest2) = some ps ∧ path ∈ ps) := by
        intro ns1 hp1 hm1 hk1
        obtain ⟨g1, g2, g3⟩ := ih ns1 (cur ++ [part]) hp1 hk1
        refine ⟨g1, hm1.trans g2, fun _ => ?_⟩
        have := g3 (by simp)
        rw [List.append_assoc] at this
        exact this
      cases hl : look ns (cur ++ [part]) with
      | some v => exact key ns hpc (Mono.refl ns) (by simp [hl])
      | none =>
        exact key (put ns (cur ++ [part]) []) (pc_set ns cur part [] hpc hcur) (mono_set_fresh ns _ _ hl)
          (by simp [look_set_self])

/-- well-formed tree: the root is a node and the tree is prefix-closed -/
def WF (ns : Nodes) : Prop := look ns [] ≠ none ∧ PC ns

theorem wf_init : WF init := by
  refine ⟨by simp [init, look], ?_⟩
  intro k ext h
  cases k with
  | nil => simp [init, look]
  | cons x xs => simp [init, look] at h

theorem step_spec (d : Disk) (ns : Nodes) (op : Op) (h : WF ns) : WF (step d ns op).1 ∧ Mono ns (step d ns op).1 := by
  cases op with
  | add parts path =>
    simp only [step, addNamespace]
    split
    · exact ⟨h, Mono.refl ns⟩
    · split
      · obtain ⟨g1, g2, _⟩ := addWalk_spec parts path ns [] h.2 h.1
        exact ⟨⟨g2.exists h.1, g1⟩, g2⟩
      · exact ⟨h, Mono.refl ns⟩
  | find parts cls full =>
    obtain ⟨g1, g2, _⟩ := walk_spec d parts ns [] h.2 h.1
    have hfst : (step d ns (.find parts cls full)).1 = (walk d ns [] parts).1 := by
      simp only [step, find]
      split <;> rename_i heq <;> (split at heq <;> try split at heq) <;> simp_all
    rw [hfst]
    exact ⟨⟨g2.exists h.1, g1⟩, g2⟩

theorem runOps_spec (d : Disk) (ops : List Op) (ns : Nodes) (h : WF ns) : WF (runOps d ns ops) ∧ Mono ns (runOps d ns ops) := by
  induction ops generalizing ns with
  | nil => exact ⟨h, Mono.refl ns⟩
  | cons op rest ih =>
    obtain ⟨h1, h2⟩ := step_spec d ns op h
    obtain ⟨g1, g2⟩ := ih _ h1
    exact ⟨g1, h2.trans g2⟩

/-- every non-empty prefix of `parts` below `cur` is a node -/
def AllNodes (ns : Nodes) : Key → List String → Prop
  | _, [] => True
  | cur, part :: rest => look ns (cur ++ [part]) ≠ none ∧ AllNodes ns (cur ++ [part]) rest

theorem allNodes_mono {a b : Nodes} (h : Mono a b) (cur : Key) (parts : List String) (ha : AllNodes a cur parts) :
    AllNodes b cur parts := by
  induction parts generalizing cur with
  | nil => trivial
  | cons part rest ih => exact ⟨h.exists ha.1, ih _ ha.2⟩

/-- when every prefix is a node already, `findNamespaceNode` memoises nothing and returns the node -/
theorem walk_allNodes (d : Disk) (parts : List String) (ns : Nodes) (cur : Key) (h : AllNodes ns cur parts) :
    walk d ns cur parts = (ns, some (cur ++ parts)) := by
  induction parts generalizing cur with
  | nil => simp [walk]
  | cons part rest ih =>
    simp only [walk]
    cases hl : look ns (cur ++ [part]) with
    | none => exact absurd hl h.1
    | some v =>
      simp only []
      rw [ih _ h.2, List.append_assoc]
      rfl

theorem addWalk_allNodes (parts : List String) (path : Dir) (ns : Nodes) (cur : Key) (hpc : PC ns) (hcur : look ns cur ≠ none) :
    AllNodes (addWalk ns cur parts path) cur parts := by
  induction parts generalizing ns cur with
  | nil => trivial
  | cons part rest ih =>
    -- after the first step the node `cur ++ [part]` exists; the rest of the walk keeps it
    have step1 : ∀ ns1 : Nodes, PC ns1 → look ns1 (cur ++ [part]) ≠ none →
        AllNodes (addWalk ns1 (cur ++ [part]) rest path) cur (part :: rest) := by
      intro ns1 hp1 hk1
      obtain ⟨_, g2, _⟩ := addWalk_spec rest path ns1 (cur ++ [part]) hp1 hk1
      exact ⟨g2.exists hk1, ih ns1 (cur ++ [part]) hp1 hk1⟩
    cases rest with
    | nil =>
      simp only [addWalk]
      exact ⟨by simp [look_set_self], trivial⟩
    | cons part2 rest2 =>
      simp only [addWalk]
      cases hl : look ns (cur ++ [part]) with
      | some v => exact step1 ns hpc (by simp [hl])
      | none => exact step1 (put ns (cur ++ [part]) []) (pc_set ns cur part [] hpc hcur) (by simp [look_set_self])

theorem findFile_hit (d : Disk) (cls : String) (full : Option String) (ps : List Dir) (p : Dir) (f : String)
    (hp : p ∈ ps) (hf : d.file p cls = some f) : findFile d cls full ps ≠ none := by
  induction ps with
  | nil => cases hp
  | cons q qs ih =>
    simp only [findFile]
    cases hq : d.file q cls with
    | some g => simp
    | none =>
      simp only []
      cases hq2 : full.bind (d.file q) with
      | some g => simp
      | none =>
        simp only []
        rcases List.mem_cons.mp hp with e | e
        · subst e; rw [hf] at hq; cases hq
        · exact ih e

end Proofs.Cpm
