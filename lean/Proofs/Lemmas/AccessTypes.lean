import Model.Types
import Spec.Access
/-! Helper lemmas for C07: `Types.Is` decides `Spec.Types.Denotes`; the restricted `Class.Is` walk decides
`Spec.Types.IsA`. -/
namespace Proofs.AccessTypes
open Model.Access Model.Types Spec.Types

theorem getClass_name {H : Hier} {n : Name} {d : Cls} (h : getClass H n = some d) : d.name = n := by
  have := List.find?_some h
  simpa using this

/-- whenever the walk terminates it answers `IsA` -/
theorem isAChain_spec {H : Hier} {t : Name} : ∀ (f : Nat) (c : Name) (b : Bool),
    isAChain H t f (some c) = some b → (b = true ↔ IsA H c t)
  | 0, _, _, h => by simp [isAChain] at h
  | f+1, c, b, h => by
    unfold isAChain at h
    cases hg : getClass H c with
    | none =>
      rw [hg] at h; cases h
      constructor
      · intro hf; cases hf
      · intro hi
        cases hi with
        | self hd => rw [hg] at hd; cases hd
        | impl hd _ => rw [hg] at hd; cases hd
        | ext hd _ _ => rw [hg] at hd; cases hd
    | some d =>
      rw [hg] at h
      simp only [] at h
      by_cases hhit : (t = d.name || d.impl.contains t) = true
      · rw [if_pos hhit] at h
        cases h
        simp only [true_iff]
        simp only [Bool.or_eq_true, decide_eq_true_eq, List.contains_iff_mem] at hhit
        cases hhit with
        | inl he =>
          have hn := getClass_name hg
          rw [he, hn]
          exact IsA.self hg
        | inr hm => exact IsA.impl hg hm
      · rw [if_neg hhit] at h
        simp only [Bool.or_eq_true, decide_eq_true_eq, List.contains_iff_mem, not_or] at hhit
        cases hext : d.ext with
        | none =>
          rw [hext] at h
          simp [isAChain] at h
          subst h
          constructor
          · intro hf; cases hf
          · intro hi
            cases hi with
            | self hd' =>
              rw [hg] at hd'; cases hd'
              exact absurd (getClass_name hg).symm hhit.1
            | impl hd' hm => rw [hg] at hd'; cases hd'; exact absurd hm hhit.2
            | ext hd' he _ => rw [hg] at hd'; cases hd'; rw [hext] at he; cases he
        | some p =>
          rw [hext] at h
          have ih := isAChain_spec f p b h
          rw [ih]
          constructor
          · intro hp; exact IsA.ext hg hext hp
          · intro hi
            cases hi with
            | self hd' =>
              rw [hg] at hd'; cases hd'
              exact absurd (getClass_name hg).symm hhit.1
            | impl hd' hm => rw [hg] at hd'; cases hd'; exact absurd hm hhit.2
            | ext hd' he hp => rw [hg] at hd'; cases hd'; rw [hext] at he; cases he; exact hp

theorem isA_spec {H : Hier} {c t : Name} {b : Bool} (h : isA H c t = some b) : b = true ↔ IsA H c t :=
  isAChain_spec _ c b h

/-- `isA` as a total test, for hierarchies on which the walk terminates -/
def isAB (H : Hier) (c t : Name) : Bool := (isA H c t).getD false

mutual
theorem accepts_iff {H : Hier} {isA : Name → Name → Bool} (hi : ∀ c n, isA c n = true ↔ IsA H c n) :
    ∀ (t : Ty) (v : ValKind), accepts isA t v = true ↔ Denotes H t v
  | .int, v => by
    cases v <;> simp [accepts] <;> first | exact Denotes.int | (intro h; cases h)
  | .str, v => by
    cases v <;> simp [accepts] <;> first | exact Denotes.str | (intro h; cases h)
  | .arr, v => by
    cases v <;> simp [accepts] <;> first | exact Denotes.arr | exact Denotes.assoc | (intro h; cases h)
  | .cls n, v => by
    cases v with
    | obj c =>
      simp only [accepts]
      rw [hi]
      constructor
      · intro h; exact Denotes.cls h
      · intro h; cases h with | cls h => exact h
    | _ => simp [accepts]; intro h; cases h
  | .nullable t, v => by
    have ih := accepts_iff hi t v
    cases v with
    | null => simp [accepts]; exact Denotes.null
    | _ =>
      simp only [accepts]
      rw [ih]
      constructor
      · intro h; exact Denotes.some h
      · intro h; cases h with | some h => exact h
  | .union ts, v => by
    simp only [accepts]
    rw [acceptsAny_iff hi ts v]
    constructor
    · intro ⟨t, hm, hd⟩; exact Denotes.union hm hd
    · intro h; cases h with | union hm hd => exact ⟨_, hm, hd⟩
theorem acceptsAny_iff {H : Hier} {isA : Name → Name → Bool} (hi : ∀ c n, isA c n = true ↔ IsA H c n) :
    ∀ (ts : List Ty) (v : ValKind), acceptsAny isA ts v = true ↔ ∃ t, t ∈ ts ∧ Denotes H t v
  | [], v => by simp [acceptsAny]
  | t :: r, v => by
    simp only [acceptsAny, Bool.or_eq_true]
    rw [accepts_iff hi t v, acceptsAny_iff hi r v]
    constructor
    · intro h
      cases h with
      | inl h => exact ⟨t, List.mem_cons_self, h⟩
      | inr h => obtain ⟨u, hu, hd⟩ := h; exact ⟨u, List.mem_cons_of_mem _ hu, hd⟩
    · intro ⟨u, hu, hd⟩
      cases List.mem_cons.mp hu with
      | inl he => exact Or.inl (he ▸ hd)
      | inr hm => exact Or.inr ⟨u, hm, hd⟩
end

end Proofs.AccessTypes
