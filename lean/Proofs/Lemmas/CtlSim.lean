import Proofs.Lemmas.CtlSimS
set_option linter.unusedSimpArgs false
set_option linter.unusedVariables false
/-! Simulation: single statements, the induction on fuel, and whole programs. -/
namespace Proofs.Ctl
open Spec.Ctl Model.Ctl

variable {funs : List FunDecl}

theorem simS_step {f : Nat} (ih : SimAt funs f) (sc : List Var) (cur : Cur) (st : Stmt)
    (s : St) (m : MSt) (hc : CtxOK funs sc cur) (hr : Rel funs sc cur s m)
    (cs : Covers sc (varsS st)) (gs : goodS funs st = true) :
    RelO funs sc cur (execS funs (f+1) cur st s) (execM (mfuns funs) (f+1) (compS sc st) m) := by
  cases st with
  | echo es =>
    simp only [varsS] at cs
    simp only [goodS] at gs
    simp only [execS, compS, execM]
    exact ih.echo sc cur es s m hc hr cs gs
  | expr e =>
    simp only [varsS] at cs
    simp only [goodS] at gs
    simp only [execS, compS, execM]
    exact relO_of_relV (ih.evalE sc cur e s m hc hr cs gs)
  | ite c t elifs els =>
    simp only [varsS] at cs
    simp only [goodS, Bool.and_eq_true] at gs
    simp only [execS, compS, execM]
    refine relRO_bind (ih.evalE sc cur c s m hc hr cs.left gs.1) ?_
    intro v v' s1 m1 e1 h1
    subst e1
    cases v.truthy with
    | true => exact ih.execB sc cur t .null s1 m1 hc h1 cs.right.left gs.2.1
    | false => exact ih.elifs sc cur elifs els s1 m1 hc h1 cs.right.right.left cs.right.right.right gs.2.2.1 gs.2.2.2
  | while_ c b =>
    simp only [varsS] at cs
    simp only [goodS, Bool.and_eq_true] at gs
    simp only [execS, compS, execM]
    exact ih.while_ sc cur c b .null s m hc hr cs.left cs.right gs.1 gs.2
  | doWhile b c =>
    simp only [varsS] at cs
    simp only [goodS, Bool.and_eq_true] at gs
    simp only [execS, compS, execM]
    exact ih.do_ sc cur b c .null s m hc hr cs.right cs.left gs.2 gs.1
  | for_ inits cond incs b =>
    simp only [varsS] at cs
    simp only [goodS, Bool.and_eq_true] at gs
    simp only [execS, compS, execM]
    refine relRO_bind (ih.discard sc cur inits s m hc hr cs.left gs.1) ?_
    intro _ _ s1 m1 _ h1
    exact ih.for_ sc cur cond incs b .null s1 m1 hc h1 cs.right.left cs.right.right.left cs.right.right.right
      gs.2.1 gs.2.2.1 gs.2.2.2
  | foreach e k v b =>
    simp only [varsS] at cs
    simp only [goodS, Bool.and_eq_true] at gs
    simp only [execS, compS, execM]
    refine relRO_bind (ih.evalE sc cur e s m hc hr cs.left gs.1) ?_
    intro ve ve' s1 m1 e1 h1
    subst e1
    have hk : ∀ kv, k = some kv → kv ∈ sc := by
      intro kv hkv
      subst hkv
      exact cs.right.left kv (by simp)
    have hv : v ∈ sc := cs.right.right.head
    have cb : Covers sc (varsB b) := cs.right.right.tail
    cases ve with
    | list l => exact ih.foreach sc cur k v b l 0 .null s1 m1 hc h1 hk hv cb gs.2
    | null => exact h1
    | int _ => exact h1
    | bool _ => exact h1
    | str _ => exact h1
  | switch e cases dflt =>
    simp only [varsS] at cs
    simp only [goodS, Bool.and_eq_true] at gs
    simp only [execS, compS, execM]
    refine relRO_bind (ih.evalE sc cur e s m hc hr cs.left gs.1) ?_
    intro v v' s1 m1 e1 h1
    subst e1
    exact ih.switch sc cur v cases dflt s1 m1 hc h1 cs.right.left cs.right.right gs.2.1 gs.2.2
  | brk n =>
    simp only [goodS, beq_iff_eq] at gs
    subst gs
    simp only [execS, compS, execM]
    exact hr
  | cont n =>
    simp only [goodS, beq_iff_eq] at gs
    subst gs
    simp only [execS, compS, execM]
    exact hr
  | ret e =>
    cases e with
    | none =>
      simp only [execS, compS, execM]
      exact ⟨rfl, hr⟩
    | some e =>
      simp only [varsS] at cs
      simp only [goodS] at gs
      simp only [execS, compS, execM]
      refine relRO_bind (ih.evalE sc cur e s m hc hr cs gs) ?_
      intro v v' s1 m1 e1 h1
      subst e1
      exact ⟨rfl, h1⟩

theorem simAt_zero (funs : List FunDecl) : SimAt funs 0 := by
  constructor <;> intros <;>
    first
    | (simp only [evalE, evalArms, evalArgs, evalDiscard]; exact relR_timeout _)
    | (simp only [echoArgs, execS, execB, execElifs, execWhile, execDo, execFor, execForeach, execSwitch, runBodies]
       exact relO_timeout _)

theorem simAt_succ {f : Nat} (hgood : GoodFuns funs) (ih : SimAt funs f) : SimAt funs (f+1) where
  evalE := fun sc cur e s m hc hr ce ge =>
    simE_step_nocall ih sc cur e s m hc hr ce ge (fun g args he => by
      subst he
      exact simCall_step ih hgood sc cur g args s m hc hr (by simpa [varsE] using ce) ge)
  evalArms := fun sc cur v arms d s m hc hr ca cd ga gd => simArms_step ih sc cur v arms d s m hc hr ca cd ga gd
  echo := fun sc cur es s m hc hr ce ge => simEcho_step ih sc cur es s m hc hr ce ge
  discard := fun sc cur es s m hc hr ce ge => simDiscard_step ih sc cur es s m hc hr ce ge
  discardIncs := fun sc cur es s m hc hr ce ge => simDiscardIncs_step ih sc cur es s m hc hr ce ge
  bindArgs := fun sc cur args ps s m slots hc hr ca ga hl hi =>
    simBindArgs_step ih sc cur args ps s m slots hc hr ca ga hl hi
  execS := fun sc cur st s m hc hr cs gs => simS_step ih sc cur st s m hc hr cs gs
  execB := fun sc cur b v0 s m hc hr cb gb => simB_step ih sc cur b v0 s m hc hr cb gb
  elifs := fun sc cur el els s m hc hr ce cb ge gb => simElifs_step ih sc cur el els s m hc hr ce cb ge gb
  while_ := fun sc cur c b v0 s m hc hr cc cb gc gb => simWhile_step ih sc cur c b v0 s m hc hr cc cb gc gb
  do_ := fun sc cur b c v0 s m hc hr cc cb gc gb => simDo_step ih sc cur b c v0 s m hc hr cc cb gc gb
  for_ := fun sc cur c incs b v0 s m hc hr cc ci cb gc gi gb =>
    simFor_step ih sc cur c incs b v0 s m hc hr cc ci cb gc gi gb
  foreach := fun sc cur k v b l i v0 s m hc hr hk hv cb gb =>
    simForeach_step ih sc cur k v b l i v0 s m hc hr hk hv cb gb
  switch := fun sc cur v cs d s m hc hr cc cd gc gd => simSwitch_step ih sc cur v cs d s m hc hr cc cd gc gd
  runBodies := fun sc cur cs d s m hc hr cc cd gc gd => simRunBodies_step ih sc cur cs d s m hc hr cc cd gc gd

theorem simAt (hgood : GoodFuns funs) : ∀ f, SimAt funs f
  | 0 => simAt_zero funs
  | f+1 => simAt_succ hgood (simAt hgood f)

/-! ### whole programs -/

theorem rel_init (funs : List FunDecl) (sc : List Var) :
    Rel funs sc none St.init (MSt.init sc.length) := by
  refine ⟨rfl, by simp [MSt.init], rfl, ?_, ?_, ?_⟩
  · intro x hx
    simp only [MSt.init, List.not_mem_nil, false_iff]
    rintro ⟨g, sv, e, _⟩
    cases e
  · intro x hx _
    have := idx_lt hx
    simp [MSt.init, St.init, aget, this]
  · intro g d _ x _
    rfl

theorem inFragment_good {p : Prog} (h : inFragment p = true) : GoodFuns p.funs ∧ goodB p.funs p.main = true := by
  simp only [inFragment, Bool.and_eq_true, List.all_eq_true] at h
  exact ⟨h.1, h.2⟩

/-- Wherever the reference semantics gives an answer within the fuel, the model gives the
same answer with the same fuel. -/
theorem run_refines (p : Prog) (h : inFragment p = true) (fuel : Nat) (r : List String × Status)
    (hs : Spec.Ctl.run p fuel = some r) : Model.Ctl.run p fuel = some r := by
  obtain ⟨hg, hm⟩ := inFragment_good h
  have hsim := (simAt hg fuel).execB (mainScope p) none p.main .null St.init (MSt.init (mainScope p).length)
    (by intro g sv e; cases e) (rel_init p.funs _) (covers_mkScope _) hm
  unfold Spec.Ctl.run at hs
  unfold Model.Ctl.run runM
  simp only [compile]
  apply relO_cases hsim
  · intro e; rw [e] at hs; cases hs
  · intro s v m e1 e2 hr
    rw [e1] at hs; rw [e2]
    simp only [Option.some.injEq] at hs ⊢
    rw [← hs, hr.out]
  · intro s l m e1 e2 hr
    rw [e1] at hs; rw [e2]
    simp only [Option.some.injEq] at hs ⊢
    rw [← hs, hr.out]
  · intro s m e1 e2 hr
    rw [e1] at hs; rw [e2]
    simp only [Option.some.injEq] at hs ⊢
    rw [← hs, hr.out]
  · intro s v m e1 e2 hr
    rw [e1] at hs; rw [e2]
    simp only [Option.some.injEq] at hs ⊢
    rw [← hs, hr.out]
  · intro s m e1 e2 hr
    rw [e1] at hs; rw [e2]
    simp only [Option.some.injEq] at hs ⊢
    rw [← hs, hr.out]

end Proofs.Ctl
