import Model.ReqSite
import Spec.ReqSite
/-! Lemmas for the per-evaluation-value part of C11 (`Model.ReqSite`). -/
namespace Proofs.ReqSite
open Model.ReqSite
open Model.Req (Rid)

/-- every closure literal the program evaluates keeps its environment per evaluation -/
def PrivProg (scope : Site → SiteScope) (prog : List Step) : Prop :=
  ∀ s slot, Step.mk s slot ∈ prog → scope s = .perEvaluation

/-- the request holds only closures that carry their own environment -/
def OwnLocals (l : List (Nat × Clo)) : Prop :=
  ∀ slot c, l.lookup slot = some c → ∃ e, c = .own e

def Good (scope : Site → SiteScope) (q : ReqSt) : Prop := PrivProg scope q.pc ∧ OwnLocals q.locals

theorem privProg_tail {scope : Site → SiteScope} {st : Step} {rest : List Step}
    (h : PrivProg scope (st :: rest)) : PrivProg scope rest :=
  fun s slot hm => h s slot (List.mem_cons_of_mem _ hm)

theorem ownLocals_cons {l : List (Nat × Clo)} (slot : Nat) (e : Val) (h : OwnLocals l) :
    OwnLocals ((slot, .own e) :: l) := by
  intro k c hk
  simp only [List.lookup] at hk
  split at hk
  · exact ⟨e, by simpa using hk.symm⟩
  · exact h k c hk

theorem localStep_nil {scope : Site → SiteScope} {d : Val} {q : ReqSt} {f : Fields} (h : q.pc = []) :
    localStep scope d q f = (q, f) := by
  simp [localStep, h]

theorem localStep_cons {scope : Site → SiteScope} {d : Val} {q : ReqSt} {f : Fields} {st : Step} {rest : List Step}
    (h : q.pc = st :: rest) : localStep scope d q f = exec scope d { q with pc := rest } f st := by
  simp [localStep, h]

/-- a step of a `Good` request does not look at the node fields, does not change them, and
keeps the request `Good` -/
theorem localStep_good (scope : Site → SiteScope) (d : Val) (q : ReqSt) (f f' : Fields) (hg : Good scope q) :
    (localStep scope d q f).1 = (localStep scope d q f').1 ∧ (localStep scope d q f).2 = f ∧
      Good scope (localStep scope d q f).1 := by
  obtain ⟨hp, hl⟩ := hg
  cases hpc : q.pc with
  | nil =>
    rw [localStep_nil hpc, localStep_nil hpc]
    exact ⟨rfl, rfl, hp, hl⟩
  | cons st rest =>
    rw [localStep_cons hpc, localStep_cons hpc]
    have hp' : PrivProg scope (st :: rest) := hpc ▸ hp
    have ht : PrivProg scope rest := privProg_tail hp'
    cases st with
    | mk s slot =>
      have hs : scope s = .perEvaluation := hp' s slot (List.mem_cons_self ..)
      simp only [exec, hs]
      exact ⟨True.intro, True.intro, ht, ownLocals_cons slot d hl⟩
    | call slot =>
      simp only [exec]
      cases hlk : q.locals.lookup slot with
      | none => exact ⟨rfl, rfl, ht, hl⟩
      | some c =>
        obtain ⟨e, rfl⟩ := hl slot c hlk
        exact ⟨rfl, rfl, ht, hl⟩
    | gate => exact ⟨rfl, rfl, ht, hl⟩
    | write => exact ⟨rfl, rfl, ht, hl⟩

theorem stepReq_other (w : World) (s : State) (a r : Rid) (h : a ≠ r) : (stepReq w s a).req r = s.req r := by
  simp [stepReq, Ne.symm h]

theorem stepReq_self (w : World) (s : State) (r : Rid) :
    (stepReq w s r).req r = (localStep w.scope (w.env r) (s.req r) s.fields).1 := by
  simp [stepReq]

/-- **Projection**: from two states that agree on a `Good` request `r`, any schedule leaves `r`
where its own turns alone leave it. -/
theorem sim_run (w : World) (r : Rid) (sched : List Rid) :
    ∀ s s' : State, s.req r = s'.req r → Good w.scope (s.req r) →
      (run w s sched).req r = (run w s' (List.replicate (sched.count r) r)).req r := by
  induction sched with
  | nil => intro s s' h _; simpa [run] using h
  | cons a rest ih =>
    intro s s' h hg
    by_cases har : a = r
    · subst har
      have hcount : (a :: rest).count a = rest.count a + 1 := by simp
      rw [hcount, List.replicate_succ]
      show (run w (stepReq w s a) rest).req a = (run w (stepReq w s' a) (List.replicate (rest.count a) a)).req a
      have h1 := localStep_good w.scope (w.env a) (s.req a) s.fields s'.fields hg
      apply ih
      · rw [stepReq_self, stepReq_self, ← h]; exact h1.1
      · rw [stepReq_self]; exact h1.2.2
    · have hcount : (a :: rest).count r = rest.count r := by
        simp [har]
      rw [hcount]
      show (run w (stepReq w s a) rest).req r = _
      apply ih
      · rw [stepReq_other w s a r har]; exact h
      · rw [stepReq_other w s a r har]; exact hg

/-- running a finished request further changes nothing of it -/
theorem run_self_done (w : World) (r : Rid) (n : Nat) :
    ∀ s : State, (s.req r).pc = [] → (run w s (List.replicate n r)).req r = s.req r := by
  induction n with
  | zero => intro s _; rfl
  | succ n ih =>
    intro s h
    rw [List.replicate_succ]
    show (run w (stepReq w s r) (List.replicate n r)).req r = s.req r
    have hs : (stepReq w s r).req r = s.req r := by
      rw [stepReq_self]; rw [localStep_nil h]
    rw [ih (stepReq w s r) (by rw [hs]; exact h), hs]

theorem localStep_pc_length (scope : Site → SiteScope) (d : Val) (q : ReqSt) (f : Fields) :
    (localStep scope d q f).1.pc.length = q.pc.length - 1 := by
  cases hpc : q.pc with
  | nil => rw [localStep_nil hpc]; simp [hpc]
  | cons st rest =>
    rw [localStep_cons hpc]
    cases st with
    | mk s slot => simp only [exec]; cases scope s <;> simp
    | call slot => simp only [exec]; split <;> simp
    | gate => simp [exec]
    | write => simp [exec]

/-- `n ≥ |pc|` turns of `r` alone finish it: more turns give the same state of `r` -/
theorem run_saturate (w : World) (r : Rid) :
    ∀ (n : Nat) (s : State), (s.req r).pc.length ≤ n →
      (run w s (List.replicate n r)).req r = (run w s (List.replicate (s.req r).pc.length r)).req r := by
  intro n
  induction n with
  | zero =>
    intro s h
    have : (s.req r).pc.length = 0 := by omega
    rw [this]
  | succ n ih =>
    intro s h
    by_cases hz : (s.req r).pc.length = 0
    · have hnil : (s.req r).pc = [] := List.length_eq_zero_iff.mp hz
      rw [hz, run_self_done w r (n + 1) s hnil]
      rfl
    · have hlen := localStep_pc_length w.scope (w.env r) (s.req r) s.fields
      have hself := stepReq_self w s r
      have hl' : ((stepReq w s r).req r).pc.length = (s.req r).pc.length - 1 := by rw [hself]; exact hlen
      obtain ⟨m, hm⟩ : ∃ m, (s.req r).pc.length = m + 1 := ⟨(s.req r).pc.length - 1, by omega⟩
      rw [hm, List.replicate_succ, List.replicate_succ]
      show (run w (stepReq w s r) (List.replicate n r)).req r = (run w (stepReq w s r) (List.replicate m r)).req r
      have := ih (stepReq w s r) (by omega)
      rw [this, hl', hm]
      rfl

/-- the spec run and the model run of a `Good` request agree (generalised over the state) -/
theorem solo_spec (scope : Site → SiteScope) (d : Val) :
    ∀ (prog : List Step) (q : ReqSt) (made : List Nat), q.pc = prog → Good scope q →
      (∀ slot, (q.locals.lookup slot).isSome = decide (slot ∈ made)) →
      (∀ slot c, q.locals.lookup slot = some c → c = Clo.own d) →
      ∀ w : World, w.scope = scope → ∀ r, w.env r = d → ∀ s : State, s.req r = q →
        ((run w s (List.replicate prog.length r)).req r).body = Spec.ReqSite.go d prog made q.pending q.body := by
  intro prog
  induction prog with
  | nil =>
    intro q made hpc _ _ _ w _ r _ s hs
    simp [run, hs, Spec.ReqSite.go]
  | cons st rest ih =>
    intro q made hpc hg hmade hown w hw r hr s hs
    rw [List.length_cons, List.replicate_succ]
    show ((run w (stepReq w s r) (List.replicate rest.length r)).req r).body = _
    have hself := stepReq_self w s r
    rw [hs, hw, hr] at hself
    have hgood := (localStep_good scope d q s.fields s.fields hg).2.2
    cases st with
    | mk site slot =>
      have hsc : scope site = .perEvaluation := hg.1 site slot (by rw [hpc]; exact List.mem_cons_self ..)
      have hq : (localStep scope d q s.fields).1 = { q with pc := rest, locals := (slot, .own d) :: q.locals } := by
        rw [localStep_cons hpc]; simp [exec, hsc]
      rw [Spec.ReqSite.go]
      have := ih { q with pc := rest, locals := (slot, .own d) :: q.locals } (slot :: made) rfl (hq ▸ hgood)
        (by intro k; simp only [List.lookup]; split
            · rename_i heq; simp at heq; simp [heq]
            · rename_i hne; simp at hne; simp [hmade k, hne])
        (by intro k c hk; simp only [List.lookup] at hk; split at hk
            · simpa using hk.symm
            · exact hown k c hk)
        w hw r hr (stepReq w s r) (by rw [hself, hq])
      simpa using this
    | call slot =>
      rw [Spec.ReqSite.go]
      cases hlk : q.locals.lookup slot with
      | none =>
        have hq : (localStep scope d q s.fields).1 = { q with pc := rest, pending := q.pending ++ [none] } := by
          rw [localStep_cons hpc]; simp [exec, hlk]
        have hnm : slot ∉ made := by
          have := hmade slot; rw [hlk] at this; simpa using this
        have := ih { q with pc := rest, pending := q.pending ++ [none] } made rfl (hq ▸ hgood) hmade hown
          w hw r hr (stepReq w s r) (by rw [hself, hq])
        simpa [hnm] using this
      | some c =>
        have hc := hown slot c hlk
        subst hc
        have hq : (localStep scope d q s.fields).1 = { q with pc := rest, pending := q.pending ++ [some d] } := by
          rw [localStep_cons hpc]; simp [exec, hlk]
        have hm : slot ∈ made := by
          have := hmade slot; rw [hlk] at this; simpa using this
        have := ih { q with pc := rest, pending := q.pending ++ [some d] } made rfl (hq ▸ hgood) hmade hown
          w hw r hr (stepReq w s r) (by rw [hself, hq])
        simpa [hm] using this
    | gate =>
      have hq : (localStep scope d q s.fields).1 = { q with pc := rest } := by
        rw [localStep_cons hpc]; simp [exec]
      rw [Spec.ReqSite.go]
      have := ih { q with pc := rest } made rfl (hq ▸ hgood) hmade hown
        w hw r hr (stepReq w s r) (by rw [hself, hq])
      simpa using this
    | write =>
      have hq : (localStep scope d q s.fields).1 = { q with pc := rest, body := q.body ++ q.pending, pending := [] } := by
        rw [localStep_cons hpc]; simp [exec]
      rw [Spec.ReqSite.go]
      have := ih { q with pc := rest, body := q.body ++ q.pending, pending := [] } made rfl (hq ▸ hgood) hmade hown
        w hw r hr (stepReq w s r) (by rw [hself, hq])
      simpa using this

end Proofs.ReqSite
