import Model.Ops
import Spec.Ops
import Proofs.Lemmas.Ops
import Proofs.Lemmas.OpsCompare
/-! C03: no-crash, spaceship coherence and exactness of `Model.Ops` against `Spec.Ops`. -/
namespace Proofs.Ops
open Model.Ops

section
variable {F : Type} (P : Prim F)

/-! ## no crash -/

theorem ofExcept_ne_crash (e : Except ErrKind (Val F)) : Model.Ops.ofExcept e ≠ .crash := by
  cases e <;> simp [Model.Ops.ofExcept]

theorem add_ne_crash (a b : Val F) : add P a b ≠ .crash := by
  unfold add
  have h : addSwitch P a b ≠ .crash := by
    cases a <;> cases b <;> simp [addSwitch, asIntI] <;> (try split) <;> simp
  split
  · split <;> simp [h]
  · exact h

theorem sub_ne_crash (a b : Val F) : sub P a b ≠ .crash := by
  cases a <;> simp [sub] <;> (try split) <;> (try split) <;> simp [ofExcept_ne_crash]

theorem mul_ne_crash (a b : Val F) : mul P a b ≠ .crash := by
  cases a <;> simp [mul] <;> (try split) <;> simp [ofExcept_ne_crash]

theorem quo_ne_crash (a b : Val F) : quo P a b ≠ .crash := by
  cases a <;> simp [quo] <;> (try split) <;> (try split) <;> simp

theorem rem_ne_crash (a b : Val F) : rem P a b ≠ .crash := by
  cases a <;> simp [rem] <;> (try split) <;> (try split) <;> simp

theorem pow_ne_crash (a b : Val F) : pow P a b ≠ .crash := by
  unfold pow
  split
  · simp
  · split
    · simp
    · simp only []
      split <;> simp

theorem shift_ne_crash (f : BitVec 64 → Nat → BitVec 64) (a b : Val F) : shiftWith P f a b ≠ .crash := by
  unfold shiftWith
  split
  · simp
  · split
    · simp
    · split <;> simp

theorem viaCompare_ne_crash {T : TruthTable} (hT : wf T = true) (test : Ord4 → Bool) (a b : Val F) :
    viaCompare P T test a b ≠ .crash := by
  obtain ⟨o, ho⟩ := looseCompare_some P hT a b
  simp [viaCompare, ho]

theorem eval_ne_crash {T : TruthTable} (hT : wf T = true) (op : BinOp) (same : Bool) (a b : Val F) :
    eval P T op same a b ≠ .crash := by
  have hb := wf_asBool P hT b
  have hlL := wf_truthyAt P hT (ctx := "landL") (by decide) a
  have hlR := wf_truthyAt P hT (ctx := "landR") (by decide) b
  have hoL := wf_truthyAt P hT (ctx := "lorL") (by decide) a
  have hoR := wf_truthyAt P hT (ctx := "lorR") (by decide) b
  cases op <;> simp only [eval]
  · exact add_ne_crash P a b
  · exact sub_ne_crash P a b
  · exact mul_ne_crash P a b
  · exact quo_ne_crash P a b
  · exact rem_ne_crash P a b
  · exact pow_ne_crash P a b
  · simp [band]
  · simp [bor]
  · simp [bxor]
  · exact shift_ne_crash P _ a b
  · exact shift_ne_crash P _ a b
  · unfold eqv
    split
    · simp
    · exact viaCompare_ne_crash P hT _ a b
  · unfold nev
    split
    · simp
    · exact viaCompare_ne_crash P hT _ a b
  · simp [seq]
  · simp [sne]
  · exact viaCompare_ne_crash P hT _ a b
  · exact viaCompare_ne_crash P hT _ a b
  · exact viaCompare_ne_crash P hT _ a b
  · exact viaCompare_ne_crash P hT _ a b
  · obtain ⟨o, ho⟩ := looseCompare_some P hT a b
    simp [cmp, ho]
  · unfold land; rw [hlL, hlR]; cases Spec.Ops.truthy P a <;> simp
  · unfold lor; rw [hoL, hoR]; cases Spec.Ops.truthy P a <;> simp
  · simp [dot]

theorem evalUn_ne_crash {T : TruthTable} (hT : wf T = true) (op : UnOp) (a : Val F) :
    evalUn P T op a ≠ .crash := by
  have ha := wf_asBool P hT a
  have hn := wf_truthyAt P hT (ctx := "not") (by decide) a
  have hc := wf_truthyAt P hT (ctx := "castb") (by decide) a
  cases op <;> simp only [evalUn]
  · cases a <;> simp [neg, asFloatI] <;> (try split) <;> simp
  · unfold bnot; split <;> simp
  · simp [lnot, hn]
  · simp [castB, hc]
  · unfold castI
    split
    · simp
    · cases a <;> simp [ha] <;> (try split) <;> (try split) <;> simp
  · unfold castF
    split <;> simp [ha]

end

end Proofs.Ops
