import Model.MethStore
/-!
Lemmas about `Model.MethStore`: with a `fresh` result buffer the snapshot handed to
the callback is never written, so the storage-level loop is the list recursion of
`Model.Meth` with the receiver's elements as of the start as the array argument.
-/
namespace Proofs.MethStore
open Model.Meth Model.MethStore

/-! ## `fresh`: the snapshot is never written -/

theorem emit_fresh_snap (st : St) (v : Val) : (emit .fresh st v).snap = st.snap := rfl
theorem emit_fresh_recv (st : St) (v : Val) : (emit .fresh st v).recv = st.recv := rfl
theorem emit_fresh_out (st : St) (v : Val) : (emit .fresh st v).out = st.out ++ [v] := rfl

theorem emitAll_fresh_snap (vs : List Val) : ∀ st : St, (emitAll .fresh st vs).snap = st.snap := by
  induction vs with
  | nil => intro st; rfl
  | cons v r ih => intro st; simp only [emitAll, List.foldl_cons] at ih ⊢; rw [ih]; rfl

theorem emitAll_fresh_recv (vs : List Val) : ∀ st : St, (emitAll .fresh st vs).recv = st.recv := by
  induction vs with
  | nil => intro st; rfl
  | cons v r ih => intro st; simp only [emitAll, List.foldl_cons] at ih ⊢; rw [ih]; rfl

theorem emitAll_fresh_out (vs : List Val) : ∀ st : St, (emitAll .fresh st vs).out = st.out ++ vs := by
  induction vs with
  | nil => intro st; simp [emitAll]
  | cons v r ih =>
    intro st
    simp only [emitAll, List.foldl_cons] at ih ⊢
    rw [ih, emit_fresh_out]; simp

theorem consume_fresh_snap (kind : Kind) (st : St) (acc el : Val) (i : Nat) (r : Val) :
    (consume .fresh kind st acc el i r).st.snap = st.snap := by
  cases kind <;> simp only [consume] <;> (try split) <;>
    simp [Next.st, emit_fresh_snap, emitAll_fresh_snap]

theorem consume_fresh_recv (kind : Kind) (st : St) (acc el : Val) (i : Nat) (r : Val) :
    (consume .fresh kind st acc el i r).st.recv = st.recv := by
  cases kind <;> simp only [consume] <;> (try split) <;>
    simp [Next.st, emit_fresh_recv, emitAll_fresh_recv]

/-! ## what every invocation is given -/

/-- With a fresh result buffer every invocation gets, as its array argument, exactly what the
snapshot held when the loop was entered, and as its element the entry of that array at its index —
for every callback, whatever it does to the receiver. -/
theorem loop_fresh_args (kind : Kind) (cb : ECb) (xs : List Val) :
    ∀ (fuel i : Nat) (st : St) (acc : Val) (v : Val) (s : St) (t : List Ev),
      st.snap = xs → loop .fresh kind cb fuel i st acc = some (v, s, t) →
      ∀ ev ∈ t, ev.inv.arr = xs ∧ xs[ev.inv.idx]? = some ev.inv.el := by
  intro fuel
  induction fuel with
  | zero =>
    intro i st acc v s t _ h ev hev
    simp only [loop, Option.some.injEq, Prod.mk.injEq] at h
    rw [← h.2.2] at hev; cases hev
  | succ fuel ih =>
    intro i st acc v s t hs h ev hev
    unfold loop at h
    cases hel : st.snap[i]? with
    | none => rw [hel] at h; cases h
    | some el =>
      rw [hel] at h
      simp only at h
      generalize hc : consume .fresh kind { st with recv := (cb ⟨acc, el, i, st.snap⟩ st.recv).2 } acc el i
        (cb ⟨acc, el, i, st.snap⟩ st.recv).1 = nx at h
      have hsnap := consume_fresh_snap kind { st with recv := (cb ⟨acc, el, i, st.snap⟩ st.recv).2 } acc el i
        (cb ⟨acc, el, i, st.snap⟩ st.recv).1
      rw [hc] at hsnap
      cases nx with
      | stop st' ret =>
        simp only [Option.some.injEq, Prod.mk.injEq] at h
        rw [← h.2.2] at hev
        simp only [List.mem_singleton] at hev
        subst hev
        exact ⟨hs, by simpa [hs] using hel⟩
      | cont st' acc' =>
        simp only at h
        cases hl : loop .fresh kind cb fuel (i + 1) st' acc' with
        | none => rw [hl] at h; cases h
        | some r =>
          obtain ⟨v', s', t'⟩ := r
          rw [hl] at h
          simp only [Option.some.injEq, Prod.mk.injEq] at h
          rw [← h.2.2] at hev
          rcases List.mem_cons.mp hev with h1 | h1
          · subst h1; exact ⟨hs, by simpa [hs] using hel⟩
          · exact ih (i + 1) st' acc' v' s' t' (by simpa [Next.st, hs] using hsnap) hl ev h1

/-! ## the list recursion with a constant array argument -/

/-- the loop of a method over the remaining elements, the array argument fixed -/
def listLoop (kind : Kind) (cb : ECb) (arr : List Val) : List Val → Nat → St → Val → Val × St × List Ev
  | [], _, st, acc => (finish .fresh kind st acc, st, [])
  | el :: rest, i, st, acc =>
    match consume .fresh kind { st with recv := (cb ⟨acc, el, i, arr⟩ st.recv).2 } acc el i
        (cb ⟨acc, el, i, arr⟩ st.recv).1 with
    | .stop st' ret => (ret, st', [⟨⟨acc, el, i, arr⟩, st.recv⟩])
    | .cont st' acc' =>
      ((listLoop kind cb arr rest (i + 1) st' acc').1, (listLoop kind cb arr rest (i + 1) st' acc').2.1,
        ⟨⟨acc, el, i, arr⟩, st.recv⟩ :: (listLoop kind cb arr rest (i + 1) st' acc').2.2)

theorem loop_fresh_eq (kind : Kind) (cb : ECb) (xs : List Val) :
    ∀ (fuel i : Nat) (st : St) (acc : Val), st.snap = xs → i + fuel = xs.length →
      loop .fresh kind cb fuel i st acc = some (listLoop kind cb xs (xs.drop i) i st acc) := by
  intro fuel
  induction fuel with
  | zero =>
    intro i st acc _ hlen
    have : xs.drop i = [] := List.drop_eq_nil_of_le (by omega)
    rw [this]; rfl
  | succ fuel ih =>
    intro i st acc hs hlen
    obtain ⟨recv, snap, out, k⟩ := st
    simp only at hs
    subst hs
    have hi : i < snap.length := by omega
    have hd : snap.drop i = snap[i] :: snap.drop (i + 1) := List.drop_eq_getElem_cons hi
    have hel : snap[i]? = some snap[i] := List.getElem?_eq_getElem hi
    unfold loop
    simp only [hel, hd, listLoop]
    generalize hc : consume .fresh kind ⟨(cb ⟨acc, snap[i], i, snap⟩ recv).2, snap, out, k⟩ acc snap[i] i
      (cb ⟨acc, snap[i], i, snap⟩ recv).1 = nx
    have hsnap := consume_fresh_snap kind ⟨(cb ⟨acc, snap[i], i, snap⟩ recv).2, snap, out, k⟩ acc snap[i] i
      (cb ⟨acc, snap[i], i, snap⟩ recv).1
    rw [hc] at hsnap
    cases nx with
    | stop st' ret => rfl
    | cont st' acc' =>
      simp only
      rw [ih (i + 1) st' acc' (by simpa [Next.st] using hsnap) (by omega)]

/-- a callback that leaves the receiver alone -/
def Quiet (cb : ECb) : Prop := ∀ inv recv, (cb inv recv).2 = recv

theorem ofCb_quiet (f : Cb) : Quiet (ofCb f) := fun _ _ => rfl
theorem ofPred_quiet (p : Pred) : Quiet (ofPred p) := fun _ _ => rfl
theorem ofCb4_quiet (f : Cb4) : Quiet (ofCb4 f) := fun _ _ => rfl

/-- the method itself never writes the receiver: after a call with a quiet callback it is what it was -/
theorem listLoop_recv (kind : Kind) (cb : ECb) (hq : Quiet cb) (arr : List Val) :
    ∀ (rest : List Val) (i : Nat) (st : St) (acc : Val),
      (listLoop kind cb arr rest i st acc).2.1.recv = st.recv := by
  intro rest
  induction rest with
  | nil => intro i st acc; rfl
  | cons el rest ih =>
    intro i st acc
    simp only [listLoop]
    generalize hc : consume .fresh kind { st with recv := (cb ⟨acc, el, i, arr⟩ st.recv).2 } acc el i
      (cb ⟨acc, el, i, arr⟩ st.recv).1 = nx
    have hr := consume_fresh_recv kind { st with recv := (cb ⟨acc, el, i, arr⟩ st.recv).2 } acc el i
      (cb ⟨acc, el, i, arr⟩ st.recv).1
    rw [hc, hq] at hr
    cases nx with
    | stop st' ret => simpa [Next.st] using hr
    | cont st' acc' => simp only; rw [ih]; simpa [Next.st] using hr

/-! ## per method: the list recursion is the loop of `Model.Meth` -/

theorem listLoop_map (f : Cb) (arr : List Val) :
    ∀ (rest : List Val) (i : Nat) (st : St) (acc : Val),
      (listLoop .map (ofCb f) arr rest i st acc).1 = .list (st.out ++ mapLoop f arr i rest) := by
  intro rest
  induction rest with
  | nil => intro i st acc; simp [listLoop, finish, result, mapLoop]
  | cons el rest ih =>
    intro i st acc
    simp only [listLoop, consume, ofCb]
    rw [ih]
    simp [emit_fresh_out, mapLoop]

theorem listLoop_filter (p : Pred) (arr : List Val) :
    ∀ (rest : List Val) (i : Nat) (st : St) (acc : Val),
      (listLoop .filter (ofPred p) arr rest i st acc).1 = .list (filterLoop p arr i st.out rest) := by
  intro rest
  induction rest with
  | nil => intro i st acc; simp [listLoop, finish, result, filterLoop]
  | cons el rest ih =>
    intro i st acc
    simp only [listLoop, consume, ofPred]
    rw [ih]
    by_cases hp : p el i arr = true
    · simp [truthy, filterLoop, hp, emit_fresh_out]
    · have hp' : p el i arr = false := by simpa using hp
      simp [truthy, filterLoop, hp']

theorem listLoop_flatMap (f : Cb) (arr : List Val) :
    ∀ (rest : List Val) (i : Nat) (st : St) (acc : Val),
      (listLoop .flatMap (ofCb f) arr rest i st acc).1 = .list (flatMapLoop f arr i st.out rest) := by
  intro rest
  induction rest with
  | nil => intro i st acc; simp [listLoop, finish, result, flatMapLoop]
  | cons el rest ih =>
    intro i st acc
    simp only [listLoop, consume, ofCb]
    rw [ih]
    simp [flatMapLoop, emitAll_fresh_out]

theorem listLoop_forEach (cb : ECb) (arr : List Val) :
    ∀ (rest : List Val) (i : Nat) (st : St) (acc : Val),
      (listLoop .forEach cb arr rest i st acc).1 = .null ∧
      (listLoop .forEach cb arr rest i st acc).2.2.map (fun ev => (⟨ev.inv.el, ev.inv.idx, ev.inv.arr⟩ : CallEv))
        = forEachLoop arr i rest := by
  intro rest
  induction rest with
  | nil => intro i st acc; simp [listLoop, finish, forEachLoop]
  | cons el rest ih =>
    intro i st acc
    simp only [listLoop, consume]
    exact ⟨(ih _ _ _).1, by simp [forEachLoop, (ih _ _ _).2]⟩

theorem listLoop_find (p : Pred) (arr : List Val) :
    ∀ (rest : List Val) (i : Nat) (st : St) (acc : Val),
      (listLoop .find (ofPred p) arr rest i st acc).1 =
        (match findLoop p arr i rest with | some (_, v) => v | none => .null) := by
  intro rest
  induction rest with
  | nil => intro i st acc; simp [listLoop, finish, findLoop]
  | cons el rest ih =>
    intro i st acc
    simp only [listLoop, consume, ofPred]
    by_cases hp : p el i arr = true
    · simp [truthy, findLoop, hp]
    · have hp' : p el i arr = false := by simpa using hp
      simp [truthy, findLoop, hp', ih]

theorem listLoop_findIndex (p : Pred) (arr : List Val) :
    ∀ (rest : List Val) (i : Nat) (st : St) (acc : Val),
      (listLoop .findIndex (ofPred p) arr rest i st acc).1 =
        (match findLoop p arr i rest with | some (j, _) => .int j | none => .int (-1)) := by
  intro rest
  induction rest with
  | nil => intro i st acc; simp [listLoop, finish, findLoop]
  | cons el rest ih =>
    intro i st acc
    simp only [listLoop, consume, ofPred]
    by_cases hp : p el i arr = true
    · simp [truthy, findLoop, hp]
    · have hp' : p el i arr = false := by simpa using hp
      simp [truthy, findLoop, hp', ih]

theorem listLoop_every (p : Pred) (arr : List Val) :
    ∀ (rest : List Val) (i : Nat) (st : St) (acc : Val),
      (listLoop .every (ofPred p) arr rest i st acc).1 = .bool (everyLoop p arr i rest) := by
  intro rest
  induction rest with
  | nil => intro i st acc; simp [listLoop, finish, everyLoop]
  | cons el rest ih =>
    intro i st acc
    simp only [listLoop, consume, ofPred]
    by_cases hp : p el i arr = true
    · simp [truthy, everyLoop, hp, ih]
    · have hp' : p el i arr = false := by simpa using hp
      simp [truthy, everyLoop, hp']

theorem listLoop_some (p : Pred) (arr : List Val) :
    ∀ (rest : List Val) (i : Nat) (st : St) (acc : Val),
      (listLoop .someP (ofPred p) arr rest i st acc).1 = .bool (someLoop p arr i rest) := by
  intro rest
  induction rest with
  | nil => intro i st acc; simp [listLoop, finish, someLoop]
  | cons el rest ih =>
    intro i st acc
    simp only [listLoop, consume, ofPred]
    by_cases hp : p el i arr = true
    · simp [truthy, someLoop, hp]
    · have hp' : p el i arr = false := by simpa using hp
      simp [truthy, someLoop, hp', ih]

theorem listLoop_reduce (f : Cb4) (arr : List Val) :
    ∀ (rest : List Val) (i : Nat) (st : St) (acc : Val),
      (listLoop .reduce (ofCb4 f) arr rest i st acc).1 = reduceLoop f arr i acc rest := by
  intro rest
  induction rest with
  | nil => intro i st acc; simp [listLoop, finish, reduceLoop]
  | cons el rest ih =>
    intro i st acc
    simp only [listLoop, consume, ofCb4]
    rw [ih]
    simp [reduceLoop]

/-! ## whole calls -/

theorem run_fresh (kind : Kind) (hk : kind ≠ .reduce) (cb : ECb) (xs args : List Val) :
    run .fresh kind cb xs args = some (listLoop kind cb xs xs 0 ⟨xs, xs, [], 0⟩ .null) := by
  have h := loop_fresh_eq kind cb xs xs.length 0 ⟨xs, xs, [], 0⟩ .null rfl (by omega)
  simp only [List.drop_zero] at h
  cases kind <;> first | exact absurd rfl hk | exact h

theorem runRes_quiet (kind : Kind) (hk : kind ≠ .reduce) (cb : ECb) (hq : Quiet cb) (xs args : List Val) :
    runRes .fresh kind cb xs args = .ok ⟨(listLoop kind cb xs xs 0 ⟨xs, xs, [], 0⟩ .null).1, xs⟩ := by
  unfold runRes
  rw [run_fresh kind hk]
  simp only
  rw [listLoop_recv kind cb hq]

theorem run_reduce_init (cb : ECb) (xs args : List Val) (hg : given (slot args 0) = true) :
    run .fresh .reduce cb xs args = some (listLoop .reduce cb xs xs 0 ⟨xs, xs, [], 0⟩ (slot args 0)) := by
  have h := loop_fresh_eq .reduce cb xs xs.length 0 ⟨xs, xs, [], 0⟩ (slot args 0) rfl (by omega)
  simp only [List.drop_zero] at h
  simp only [Model.MethStore.run, hg, if_true]
  exact h

theorem run_reduce_noinit (cb : ECb) (a : Val) (r args : List Val) (hg : given (slot args 0) = false) :
    run .fresh .reduce cb (a :: r) args
      = some (listLoop .reduce cb (a :: r) r 1 ⟨a :: r, a :: r, [], 0⟩ a) := by
  have h := loop_fresh_eq .reduce cb (a :: r) r.length 1 ⟨a :: r, a :: r, [], 0⟩ a rfl (by simp; omega)
  simp only [List.drop_succ_cons, List.drop_zero] at h
  simp only [Model.MethStore.run, hg, Bool.false_eq_true, if_false, List.length_cons, Nat.add_sub_cancel]
  exact h


/-! ## whole calls: arguments, receiver, refinement of `Model.Meth` -/

theorem run_fresh_args (kind : Kind) (cb : ECb) (xs args : List Val) (v : Val) (s : St) (t : List Ev)
    (h : Model.MethStore.run .fresh kind cb xs args = some (v, s, t)) :
    ∀ ev ∈ t, ev.inv.arr = xs ∧ xs[ev.inv.idx]? = some ev.inv.el := by
  by_cases hk : kind = .reduce
  · subst hk
    simp only [Model.MethStore.run] at h
    split at h
    · exact loop_fresh_args .reduce cb xs _ _ _ _ v s t rfl h
    · cases xs with
      | nil =>
        simp only [Option.some.injEq, Prod.mk.injEq] at h
        intro ev hev; rw [← h.2.2] at hev; cases hev
      | cons a r => exact loop_fresh_args .reduce cb (a :: r) _ _ _ _ v s t rfl h
  · have h' : loop .fresh kind cb xs.length 0 ⟨xs, xs, [], 0⟩ .null = some (v, s, t) := by
      cases kind <;> first | exact absurd rfl hk | exact h
    exact loop_fresh_args kind cb xs _ _ _ _ v s t rfl h'

theorem runRes_recv_quiet (kind : Kind) (cb : ECb) (hq : Quiet cb) (xs args : List Val) (o : Out)
    (h : runRes .fresh kind cb xs args = .ok o) : o.recv = xs := by
  by_cases hk : kind = .reduce
  · subst hk
    unfold runRes at h
    by_cases hg : given (slot args 0) = true
    · rw [run_reduce_init cb xs args hg] at h
      simp only [Res.ok.injEq] at h
      rw [← h]; exact listLoop_recv .reduce cb hq xs xs 0 _ _
    · have hg' : given (slot args 0) = false := by simpa using hg
      cases xs with
      | nil =>
        simp only [Model.MethStore.run, hg', Bool.false_eq_true, if_false, Res.ok.injEq] at h
        rw [← h]
      | cons a r =>
        rw [run_reduce_noinit cb a r args hg'] at h
        simp only [Res.ok.injEq] at h
        rw [← h]; exact listLoop_recv .reduce cb hq (a :: r) r 1 _ _
  · rw [runRes_quiet kind hk cb hq] at h
    simp only [Res.ok.injEq] at h
    rw [← h]

theorem map_refines (f : Cb) (xs args : List Val) :
    runRes .fresh .map (ofCb f) xs args = Model.Meth.map xs f := by
  rw [runRes_quiet .map (by decide) _ (ofCb_quiet f), listLoop_map]; simp [Model.Meth.map]

theorem filter_refines (p : Pred) (xs args : List Val) :
    runRes .fresh .filter (ofPred p) xs args = Model.Meth.filter xs p := by
  rw [runRes_quiet .filter (by decide) _ (ofPred_quiet p), listLoop_filter]; simp [Model.Meth.filter]

theorem flatMap_refines (f : Cb) (xs args : List Val) :
    runRes .fresh .flatMap (ofCb f) xs args = Model.Meth.flatMap xs f := by
  rw [runRes_quiet .flatMap (by decide) _ (ofCb_quiet f), listLoop_flatMap]; simp [Model.Meth.flatMap]

theorem forEach_refines (cb : ECb) (hq : Quiet cb) (xs args : List Val) :
    runRes .fresh .forEach cb xs args = (Model.Meth.forEach xs).1 ∧
    (trace .fresh .forEach cb xs args).map (fun ev => (⟨ev.inv.el, ev.inv.idx, ev.inv.arr⟩ : CallEv))
      = (Model.Meth.forEach xs).2 := by
  constructor
  · rw [runRes_quiet .forEach (by decide) _ hq, (listLoop_forEach cb xs xs 0 _ _).1]; rfl
  · unfold trace
    rw [run_fresh .forEach (by decide)]
    exact (listLoop_forEach cb xs xs 0 _ _).2

theorem find_refines (p : Pred) (xs args : List Val) :
    runRes .fresh .find (ofPred p) xs args = Model.Meth.find xs p := by
  rw [runRes_quiet .find (by decide) _ (ofPred_quiet p), listLoop_find]
  unfold Model.Meth.find
  cases findLoop p xs 0 xs with
  | none => rfl
  | some r => rfl

theorem findIndex_refines (p : Pred) (xs args : List Val) :
    runRes .fresh .findIndex (ofPred p) xs args = Model.Meth.findIndex xs p := by
  rw [runRes_quiet .findIndex (by decide) _ (ofPred_quiet p), listLoop_findIndex]
  unfold Model.Meth.findIndex
  cases findLoop p xs 0 xs with
  | none => rfl
  | some r => rfl

theorem every_refines (p : Pred) (xs args : List Val) :
    runRes .fresh .every (ofPred p) xs args = Model.Meth.every xs p := by
  rw [runRes_quiet .every (by decide) _ (ofPred_quiet p), listLoop_every]; rfl

theorem some_refines (p : Pred) (xs args : List Val) :
    runRes .fresh .someP (ofPred p) xs args = Model.Meth.someP xs p := by
  rw [runRes_quiet .someP (by decide) _ (ofPred_quiet p), listLoop_some]; rfl

theorem reduce_refines (f : Cb4) (xs args : List Val) :
    runRes .fresh .reduce (ofCb4 f) xs args = Model.Meth.reduce xs f args := by
  unfold runRes Model.Meth.reduce
  by_cases hg : given (slot args 0) = true
  · rw [run_reduce_init _ xs args hg]
    simp only [hg, if_true]
    rw [listLoop_recv .reduce _ (ofCb4_quiet f), listLoop_reduce]
  · have hg' : given (slot args 0) = false := by simpa using hg
    cases xs with
    | nil => simp [Model.MethStore.run, hg']
    | cons a r =>
      rw [run_reduce_noinit _ a r args hg']
      simp only [hg', Bool.false_eq_true, if_false]
      rw [listLoop_recv .reduce _ (ofCb4_quiet f), listLoop_reduce]
      simp

end Proofs.MethStore
