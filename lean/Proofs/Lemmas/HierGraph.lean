import Model.Hier
import Spec.Hier
/-! C08 helper lemmas: table lookups, chains in a successor graph, the counting (pigeonhole) lemma. -/
namespace Proofs.Hier
open Model.Hier Spec.Hier

theorem getClass_name {G : Graph} {n : Name} {c : Cls} (h : getClass G n = some c) : c.name = n := by
  unfold getClass at h
  have := List.find?_some h
  simpa using this

theorem getClass_mem {G : Graph} {n : Name} {c : Cls} (h : getClass G n = some c) : c ∈ G.classes := by
  unfold getClass at h
  exact List.mem_of_find?_eq_some h

theorem getIface_name {G : Graph} {n : Name} {c : Ifc} (h : getIface G n = some c) : c.name = n := by
  unfold getIface at h
  have := List.find?_some h
  simpa using this

theorem getIface_mem {G : Graph} {n : Name} {c : Ifc} (h : getIface G n = some c) : c ∈ G.ifaces := by
  unfold getIface at h
  exact List.mem_of_find?_eq_some h

theorem getClass_declared {G : Graph} {n : Name} {c : Cls} (h : getClass G n = some c) : Declared G c := by
  unfold Declared; rw [getClass_name h]; exact h

theorem getIface_self {G : Graph} {n : Name} {c : Ifc} (h : getIface G n = some c) : getIface G c.name = some c := by
  rw [getIface_name h]; exact h

theorem findM_name {l : List Meth} {m : Name} {x : Meth} (h : findM l m = some x) : x.name = m := by
  unfold findM at h
  have := List.find?_some h
  simpa using this

/-! ### chains -/

/-- consecutive elements are related by `succ` -/
inductive Chain (succ : Name → List Name) : List Name → Prop
  | single (a : Name) : Chain succ [a]
  | cons {a b : Name} {l : List Name} : b ∈ succ a → Chain succ (b :: l) → Chain succ (a :: b :: l)

theorem chain_tc {succ : Name → List Name} : ∀ (l : List Name) (a : Name), Chain succ (a :: l) → ∀ b ∈ l, TC succ a b := by
  intro l
  induction l with
  | nil => intro a _ b hb; simp at hb
  | cons x l ih =>
    intro a h b hb
    cases h with
    | cons hx hrest =>
      rcases List.mem_cons.1 hb with rfl | hb
      · exact TC.one hx
      · exact TC.more hx (ih x hrest b hb)

theorem chain_nodup {succ : Name → List Name} (hn : NoCycle succ) : ∀ (l : List Name), Chain succ l → l.Nodup := by
  intro l
  induction l with
  | nil => intro _; exact List.nodup_nil
  | cons a l ih =>
    intro h
    have htail : l.Nodup := by
      cases h with
      | single => exact List.nodup_nil
      | cons _ hrest => exact ih hrest
    refine List.nodup_cons.2 ⟨?_, htail⟩
    intro ha
    exact hn a (chain_tc l a h a ha)

/-- counting: a duplicate-free list drawn from `L` is no longer than `L` -/
theorem nodup_subset_length : ∀ (l L : List Name), l.Nodup → (∀ x ∈ l, x ∈ L) → l.length ≤ L.length := by
  intro l
  induction l with
  | nil => intro L _ _; simp
  | cons a l ih =>
    intro L hnd hsub
    have ha : a ∈ L := hsub a (by simp)
    have hnd' := List.nodup_cons.1 hnd
    have hsub' : ∀ x ∈ l, x ∈ L.erase a := by
      intro x hx
      have hne : x ≠ a := by rintro rfl; exact hnd'.1 hx
      exact (List.mem_erase_of_ne hne).2 (hsub x (by simp [hx]))
    have := ih (L.erase a) hnd'.2 hsub'
    rw [List.length_erase_of_mem ha] at this
    have hpos : 0 < L.length := List.length_pos_of_mem ha
    simp only [List.length_cons]
    omega

/-- in an acyclic successor graph a chain whose elements (all but possibly the last) lie in `dom` has at most
`|dom| + 1` elements -/
theorem chain_length_le {succ : Name → List Name} (hn : NoCycle succ) (dom : List Name) (l : List Name) (z : Name)
    (h : Chain succ (l ++ [z])) (hd : ∀ x ∈ l, x ∈ dom) : l.length ≤ dom.length := by
  have hnd := chain_nodup hn _ h
  have : l.Nodup := (List.nodup_append.1 hnd).1
  exact nodup_subset_length l dom this hd

theorem chain_snoc {succ : Name → List Name} : ∀ (l : List Name) (y z : Name),
    Chain succ (l ++ [y]) → z ∈ succ y → Chain succ (l ++ [y] ++ [z]) := by
  intro l
  induction l with
  | nil => intro y z _ hz; exact Chain.cons hz (Chain.single z)
  | cons a l ih =>
    intro y z h hz
    cases l with
    | nil =>
      cases h with
      | cons hy _ => exact Chain.cons hy (Chain.cons hz (Chain.single z))
    | cons b l =>
      cases h with
      | cons hb hrest => exact Chain.cons hb (ih y z hrest hz)

theorem classNames_mem {G : Graph} {n : Name} {c : Cls} (h : getClass G n = some c) :
    n ∈ G.classes.map (·.name) := by
  have := getClass_mem h
  have hn := getClass_name h
  exact List.mem_map.2 ⟨c, this, hn⟩

theorem ifaceNames_mem {G : Graph} {n : Name} {c : Ifc} (h : getIface G n = some c) :
    n ∈ G.ifaces.map (·.name) := by
  have := getIface_mem h
  have hn := getIface_name h
  exact List.mem_map.2 ⟨c, this, hn⟩

/-! ### decidable sufficient conditions (used for concrete graphs) -/

theorem tc_rank {succ : Name → List Name} (rank : Name → Nat) (h : ∀ a b, b ∈ succ a → rank b < rank a) :
    ∀ a b, TC succ a b → rank b < rank a := by
  intro a b ht
  induction ht with
  | one hb => exact h _ _ hb
  | more hb _ ih => have := h _ _ hb; omega

theorem noCycle_of_rank {succ : Name → List Name} (rank : Name → Nat) (h : ∀ a b, b ∈ succ a → rank b < rank a) :
    NoCycle succ := by
  intro a ht
  have := tc_rank rank h a a ht
  omega

/-- every parent has a smaller number than its child (a numbering in declaration order) -/
def rankOK (G : Graph) : Bool :=
  G.classes.all (fun c => match c.ext with | some p => decide (p < c.name) | none => true) &&
  G.ifaces.all (fun d => d.ext.all (fun j => decide (j < d.name)))

theorem acyclic_of_rankOK (G : Graph) (h : rankOK G = true) : Acyclic G := by
  unfold rankOK at h
  simp only [Bool.and_eq_true, List.all_eq_true] at h
  constructor
  · apply noCycle_of_rank id
    intro a b hb
    unfold csucc at hb
    split at hb
    · rename_i c hc
      have h1 := h.1 c (getClass_mem hc)
      have hn := getClass_name hc
      cases hext : c.ext with
      | none => rw [hext] at hb; simp at hb
      | some p =>
        rw [hext] at hb h1
        simp at hb h1
        subst hb
        have h2 : b < a := hn ▸ h1
        exact h2
    · simp at hb
  · apply noCycle_of_rank id
    intro a b hb
    unfold isucc at hb
    split at hb
    · rename_i d hd
      have h1 := h.2 d (getIface_mem hd) b hb
      have hn := getIface_name hd
      simp at h1
      have h2 : b < a := hn ▸ h1
      exact h2
    · simp at hb

def wfB (G : Graph) : Bool :=
  G.classes.all (fun c => (match c.ext with | some p => (getClass G p).isSome | none => true) &&
                          c.impl.all (fun i => (getIface G i).isSome)) &&
  G.ifaces.all (fun d => d.ext.all (fun j => (getIface G j).isSome))

theorem wf_of_wfB (G : Graph) (h : wfB G = true) : WF G := by
  unfold wfB at h
  simp only [Bool.and_eq_true, List.all_eq_true] at h
  refine ⟨fun c hc => ⟨fun p hp => ?_, fun i hi => (h.1 c hc).2 i hi⟩, fun d hd j hj => h.2 d hd j hj⟩
  have := (h.1 c hc).1
  rw [hp] at this
  exact this

end Proofs.Hier
