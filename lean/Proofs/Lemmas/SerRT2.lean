import Proofs.Lemmas.SerRT
import Proofs.Lemmas.SerFuel
/-! Array reconstruction and the mutual round-trip induction. -/
namespace Proofs.Ser
open Model.Ser

def plAppend : PL → PL → PL
  | .nil, m => m
  | .cons k v rest, m => .cons k v (plAppend rest m)

theorem plAppend_nil : (l : PL) → plAppend l .nil = l
  | .nil => rfl
  | .cons k v rest => by simp [plAppend, plAppend_nil rest]

theorem keys_plAppend : (a b : PL) → PL.keys (plAppend a b) = PL.keys a ++ PL.keys b
  | .nil, b => rfl
  | .cons k v rest, b => by simp [plAppend, PL.keys, keys_plAppend rest b]

theorem plAppend_assoc : (a b c : PL) → plAppend (plAppend a b) c = plAppend a (plAppend b c)
  | .nil, b, c => rfl
  | .cons k v rest, b, c => by simp [plAppend, plAppend_assoc rest b c]

theorem setProp_fresh (k : Bytes) (v : PV) : (acc : PL) → k ∉ PL.keys acc →
    setProp k v acc = plAppend acc (.cons k v .nil)
  | .nil, _ => rfl
  | .cons k' v' rest, h => by
    simp only [PL.keys, List.mem_cons, not_or] at h
    simp only [setProp, plAppend]
    rw [if_neg (fun e => h.1 e.symm), setProp_fresh k v rest h.2]

theorem foldl_props : (l : PL) → ∀ acc : PL, (PL.keys l).Nodup → (∀ k ∈ PL.keys l, k ∉ PL.keys acc) →
    (propEntries l).foldl (fun acc e => setProp (keyString e.1) e.2 acc) acc = plAppend acc l
  | .nil, acc, _, _ => by simp [propEntries, plAppend_nil]
  | .cons k v rest, acc, hnd, hdis => by
    simp only [PL.keys, List.nodup_cons] at hnd
    show List.foldl (fun acc e => setProp (keyString e.1) e.2 acc) (setProp k v acc) (propEntries rest) = _
    rw [setProp_fresh k v acc (hdis k (by simp [PL.keys]))]
    rw [foldl_props rest _ hnd.2 (by
      intro k' hk'
      rw [keys_plAppend]
      simp only [PL.keys, List.mem_append, List.mem_cons, List.not_mem_nil, or_false, not_or]
      exact ⟨hdis k' (by simp [PL.keys, hk']), fun e => hnd.1 (e ▸ hk')⟩)]
    rw [plAppend_assoc]
    rfl

theorem seq_items : (l : PL) → ∀ idx, isSequential idx (itemEntries idx l) = true
  | .nil, idx => rfl
  | .cons k v rest, idx => by simp [itemEntries, isSequential, seq_items rest (idx + 1)]

theorem values_items : (l : PL) → ∀ idx, CanonItems l → valuesPL (itemEntries idx l) = l
  | .nil, idx, _ => rfl
  | .cons k v rest, idx, h => by
    obtain ⟨hk, _, hr⟩ := h
    simp [itemEntries, valuesPL, values_items rest (idx + 1) hr, hk]

theorem mkArray_items (l : PL) (h : CanonItems l) : mkArray (itemEntries 0 l) = .arr l := by
  simp [mkArray, seq_items, values_items l 0 h]

theorem mkArray_props (l : PL) (hne : l.len ≠ 0) (hnd : (PL.keys l).Nodup) :
    mkArray (propEntries l) = .obj l := by
  cases l with
  | nil => simp [PL.len] at hne
  | cons k v rest =>
    have hseq : isSequential 0 (propEntries (.cons k v rest)) = false := by simp [propEntries, isSequential]
    simp only [mkArray, hseq, Bool.false_eq_true, if_false]
    rw [foldl_props _ .nil hnd (by intro k _; simp [PL.keys])]
    rfl

theorem wrapArr_some {n : Nat} {r : Option Bytes} {bs : Bytes} (h : wrapArr n r = some bs) :
    ∃ body, r = some body ∧ bs = [97, 58] ++ dec n ++ [58, 123] ++ body ++ [125] := by
  cases r with
  | none => simp [wrapArr] at h
  | some body => simp only [wrapArr, Option.some.injEq] at h; exact ⟨body, rfl, h.symm⟩

theorem cat3_some {a b c : Option Bytes} {bs : Bytes} (h : cat3 a b c = some bs) :
    ∃ x y z, a = some x ∧ b = some y ∧ c = some z ∧ bs = x ++ y ++ z := by
  match a, b, c, h with
  | some x, some y, some z, h =>
    simp only [cat3, Option.some.injEq] at h
    exact ⟨x, y, z, rfl, rfl, rfl, h.symm⟩
  | none, _, _, h => simp [cat3] at h
  | some _, none, _, h => simp [cat3] at h
  | some _, some _, none, h => simp [cat3] at h

theorem pArrHead_ser (n : Nat) (hn : n ≤ maxInt) (body : Bytes) :
    pArrHead (58 :: (dec n ++ 58 :: 123 :: body)) = some (n, body) := by
  obtain ⟨h1, h2, h3⟩ := span_dec n hn 58 (Or.inr rfl) (123 :: body)
  simp only [pArrHead, h1, h2]
  rw [if_neg h3, if_neg (by omega)]

theorem pValue_arr (n : Nat) (hn : n ≤ maxInt) (body rest : Bytes) (fuel : Nat) :
    pValue (fuel + 1) ([97, 58] ++ dec n ++ [58, 123] ++ body ++ [125] ++ rest) =
      match pEntries fuel n (body ++ 125 :: rest) with
      | none => none
      | some (es, rest') => closeArr es rest' := by
  have : [97, 58] ++ dec n ++ [58, 123] ++ body ++ [125] ++ rest =
      97 :: 58 :: (dec n ++ 58 :: 123 :: (body ++ 125 :: rest)) := by simp
  rw [this, pValue]
  simp only [show ¬ (97 : Nat) = 78 by decide, show ¬ (97 : Nat) = 98 by decide,
    show ¬ (97 : Nat) = 105 by decide, show ¬ (97 : Nat) = 115 by decide,
    show ¬ (97 : Nat) = 100 by decide, if_false, if_true]
  rw [pArrHead_ser n hn]
  rfl

theorem pValue_int (i : Int) (h1 : -9223372036854775808 ≤ i) (h2 : i ≤ 9223372036854775807)
    (rest : Bytes) (fuel : Nat) :
    pValue (fuel + 1) ([105, 58] ++ itoa i ++ [59] ++ rest) = some (.int i, rest) := by
  have : [105, 58] ++ itoa i ++ [59] ++ rest = 105 :: 58 :: (itoa i ++ 59 :: rest) := by simp
  rw [this, pValue]
  simp only [show ¬ (105 : Nat) = 78 by decide, show ¬ (105 : Nat) = 98 by decide, if_false, if_true]
  exact pInt_ser i rest h1 h2

mutual
theorem rtV : (v : PV) → CanonV v → ∀ bs, ser v = some bs → ∀ fuel rest,
    2 * (bs ++ rest).length < fuel → pValue fuel (bs ++ rest) = some (v, rest)
  | .null, _, bs, hs, fuel, rest, hf => by
    simp only [ser, Option.some.injEq] at hs; subst hs
    cases fuel with
    | zero => simp at hf
    | succ f => simp [pValue, pNull]
  | .bool b, _, bs, hs, fuel, rest, hf => by
    simp only [ser, Option.some.injEq] at hs; subst hs
    cases fuel with
    | zero => simp at hf
    | succ f => cases b <;> simp [pValue, pBool]
  | .int i, hc, bs, hs, fuel, rest, hf => by
    simp only [ser, Option.some.injEq] at hs; subst hs
    cases fuel with
    | zero => simp at hf
    | succ f =>
      exact pValue_int i hc.1 hc.2 rest f
  | .str s, hc, bs, hs, fuel, rest, hf => by
    simp only [ser, Option.some.injEq] at hs; subst hs
    cases fuel with
    | zero => simp at hf
    | succ f => exact pValue_str s rest hc f
  | .float r, hc, bs, hs, fuel, rest, hf => by
    simp only [ser, Option.some.injEq] at hs; subst hs
    cases fuel with
    | zero => simp at hf
    | succ f => exact pValue_float r rest hc.1 hc.2 f
  | .arr items, hc, bs, hs, fuel, rest, hf => by
    obtain ⟨hci, hlen⟩ := hc
    simp only [ser] at hs
    obtain ⟨body, hb, hbs⟩ := wrapArr_some hs
    subst hbs
    cases fuel with
    | zero => simp at hf
    | succ f =>
      rw [pValue_arr _ hlen]
      have := rtItems items hci 0 body (by omega) hb f (125 :: rest) (by
        simp [List.length_append] at hf ⊢; omega)
      rw [this]
      simp [closeArr, mkArray_items items hci]
  | .obj props, hc, bs, hs, fuel, rest, hf => by
    obtain ⟨hcp, hlen, hne, hnd⟩ := hc
    simp only [ser] at hs
    obtain ⟨body, hb, hbs⟩ := wrapArr_some hs
    subst hbs
    cases fuel with
    | zero => simp at hf
    | succ f =>
      rw [pValue_arr _ hlen]
      have := rtProps props hcp body hb f (125 :: rest) (by
        simp [List.length_append] at hf ⊢; omega)
      rw [this]
      simp [closeArr, mkArray_props props hne hnd]
theorem rtItems : (l : PL) → CanonItems l → ∀ idx bs, idx + l.len ≤ maxInt → serItems idx l = some bs →
    ∀ fuel rest, 2 * (bs ++ rest).length + 1 < fuel →
    pEntries fuel l.len (bs ++ rest) = some (itemEntries idx l, rest)
  | .nil, _, idx, bs, _, hs, fuel, rest, _ => by
    simp only [serItems, Option.some.injEq] at hs; subst hs
    simp [PL.len, pEntries, itemEntries]
  | .cons k v tl, hc, idx, bs, hidx, hs, fuel, rest, hf => by
    obtain ⟨hk0, hcv, hct⟩ := hc
    subst hk0
    simp only [serItems, slotKey, if_true] at hs
    obtain ⟨x, y, z, hx, hy, hz, hbs⟩ := cat3_some hs
    simp only [Option.some.injEq] at hx
    subst hx hbs
    simp only [PL.len] at hidx ⊢
    cases fuel with
    | zero => simp at hf
    | succ f =>
      rw [pEntries]
      have hi : itoa (idx : Int) = dec idx := by simp [itoa]
      cases f with
      | zero => simp [List.length_append] at hf
      | succ f' =>
      have h1 : pValue (f' + 1) ([105, 58] ++ dec idx ++ [59] ++ y ++ z ++ rest) = some (.int idx, y ++ z ++ rest) := by
        have := pValue_int (idx : Int) (by omega) (by unfold maxInt at hidx; omega) (y ++ z ++ rest) f'
        rw [hi] at this
        simpa [List.append_assoc] using this
      rw [h1, keyFilter_of_ok (by rfl)]
      simp only
      have h2 := rtV v hcv y hy (f' + 1) (z ++ rest) (by simp [List.length_append] at hf ⊢; omega)
      rw [List.append_assoc y z rest, h2]
      simp only
      have h3 := rtItems tl hct (idx + 1) z (by omega) hz (f' + 1) rest (by simp [List.length_append] at hf ⊢; omega)
      rw [h3]
      simp [itemEntries]
theorem rtProps : (l : PL) → CanonProps l → ∀ bs, serProps l = some bs →
    ∀ fuel rest, 2 * (bs ++ rest).length + 1 < fuel →
    pEntries fuel l.len (bs ++ rest) = some (propEntries l, rest)
  | .nil, _, bs, hs, fuel, rest, _ => by
    simp only [serProps, Option.some.injEq] at hs; subst hs
    simp [PL.len, pEntries, propEntries]
  | .cons k v tl, hc, bs, hs, fuel, rest, hf => by
    obtain ⟨hk, hcv, hct⟩ := hc
    simp only [serProps] at hs
    obtain ⟨x, y, z, hx, hy, hz, hbs⟩ := cat3_some hs
    simp only [Option.some.injEq] at hx
    subst hx hbs
    simp only [PL.len]
    cases fuel with
    | zero => simp at hf
    | succ f =>
      rw [pEntries]
      cases f with
      | zero => simp [List.length_append, serStr] at hf
      | succ f' =>
        have h1 : pValue (f' + 1) (serStr k ++ (y ++ z ++ rest)) = some (.str k, y ++ z ++ rest) :=
          pValue_str k _ hk f'
        rw [show serStr k ++ y ++ z ++ rest = serStr k ++ (y ++ z ++ rest) by simp [List.append_assoc], h1,
          keyFilter_of_ok (by rfl)]
        simp only
        have h2 := rtV v hcv y hy (f' + 1) (z ++ rest) (by simp [List.length_append] at hf ⊢; omega)
        rw [List.append_assoc y z rest, h2]
        simp only
        have hk6 : (serStr k).length ≥ 6 := by simp [serStr]; omega
        have h3 := rtProps tl hct z hz (f' + 1) rest (by simp only [List.length_append] at hf ⊢; omega)
        rw [h3]
        simp [propEntries]
end

end Proofs.Ser
