import Model.Codec
import Spec.Codec
/-! Lemmas for the byte-level codecs (hex, base64, URL). -/
namespace Proofs.Codec
open Model.Codec

theorem isBytes_nil : IsBytes [] := by intro b h; cases h
theorem isBytes_cons {b : Nat} {l : Bytes} : IsBytes (b :: l) ↔ b < 256 ∧ IsBytes l := by
  simp [IsBytes]
theorem isBytes_append {l₁ l₂ : Bytes} : IsBytes (l₁ ++ l₂) ↔ IsBytes l₁ ∧ IsBytes l₂ := by
  simp only [IsBytes, List.mem_append]
  constructor
  · intro h; exact ⟨fun b hb => h b (Or.inl hb), fun b hb => h b (Or.inr hb)⟩
  · rintro ⟨h1, h2⟩ b (hb | hb); exact h1 b hb; exact h2 b hb

/-! ## hex -/

theorem hex_nibble : ∀ d, d < 16 →
    Spec.Codec.hexVal (hexDigit d) = some d ∧ Spec.Codec.isLowerHex (hexDigit d) = true := by decide

theorem hex_byte (b : Nat) (hb : b < 256) :
    Spec.Codec.hexVal (hexDigit (b / 16)) = some (b / 16) ∧
    Spec.Codec.hexVal (hexDigit (b % 16)) = some (b % 16) ∧
    Spec.Codec.isLowerHex (hexDigit (b / 16)) = true ∧
    Spec.Codec.isLowerHex (hexDigit (b % 16)) = true := by
  have h1 := hex_nibble (b / 16) (by omega)
  have h2 := hex_nibble (b % 16) (by omega)
  exact ⟨h1.1, h2.1, h1.2, h2.2⟩

theorem hex_roundtrip (bs : Bytes) (h : IsBytes bs) :
    Spec.Codec.hexDecode (hexEncode bs) = some bs := by
  induction bs with
  | nil => rfl
  | cons b rest ih =>
    obtain ⟨hb, hr⟩ := isBytes_cons.mp h
    obtain ⟨h1, h2, _, _⟩ := hex_byte b hb
    simp only [hexEncode, Spec.Codec.hexDecode, h1, h2, ih hr]
    congr 2; omega

theorem hex_length (bs : Bytes) : (hexEncode bs).length = 2 * bs.length := by
  induction bs with
  | nil => rfl
  | cons b rest ih => simp only [hexEncode, List.length_cons, ih]; omega

theorem hex_alphabet (bs : Bytes) (h : IsBytes bs) :
    ∀ c ∈ hexEncode bs, Spec.Codec.isLowerHex c = true := by
  induction bs with
  | nil => intro c hc; cases hc
  | cons b rest ih =>
    obtain ⟨hb, hr⟩ := isBytes_cons.mp h
    obtain ⟨_, _, h3, h4⟩ := hex_byte b hb
    intro c hc
    simp only [hexEncode, List.mem_cons] at hc
    rcases hc with rfl | rfl | hc
    · exact h3
    · exact h4
    · exact ih hr c hc

/-! ## base64 -/

set_option maxRecDepth 4000 in
theorem b64_char : ∀ v, v < 64 →
    b64Sextet (b64Char v) = some v ∧ Spec.Codec.sextet (b64Char v) = some v ∧ b64Char v ≠ 61 := by
  decide

theorem b64Sextet_61 : b64Sextet 61 = none := by decide

/-- one full quantum of alphabet characters -/
theorem b64_quantum (v0 v1 v2 v3 : Nat) (h0 : v0 < 64) (h1 : v1 < 64) (h2 : v2 < 64) (h3 : v3 < 64)
    (rest : Bytes) :
    b64DecodeAux (b64Char v0 :: b64Char v1 :: b64Char v2 :: b64Char v3 :: rest) [] =
      match b64DecodeAux rest [] with
      | some out => some (b64Emit [v0, v1, v2, v3] ++ out)
      | none => none := by
  simp only [b64DecodeAux, (b64_char v0 h0).1, (b64_char v1 h1).1, (b64_char v2 h2).1,
    (b64_char v3 h3).1, List.length_nil, List.length_cons, List.nil_append, List.cons_append]
  simp
  rfl

theorem b64_pad1 (v0 v1 v2 : Nat) (h0 : v0 < 64) (h1 : v1 < 64) (h2 : v2 < 64) :
    b64DecodeAux [b64Char v0, b64Char v1, b64Char v2, 61] [] = some (b64Emit [v0, v1, v2]) := by
  simp only [b64DecodeAux, (b64_char v0 h0).1, (b64_char v1 h1).1, (b64_char v2 h2).1, b64Sextet_61,
    List.length_nil, List.length_cons, List.nil_append, List.cons_append]
  simp [b64Padding, dropNL]

theorem b64_pad2 (v0 v1 : Nat) (h0 : v0 < 64) (h1 : v1 < 64) :
    b64DecodeAux [b64Char v0, b64Char v1, 61, 61] [] = some (b64Emit [v0, v1]) := by
  simp only [b64DecodeAux, (b64_char v0 h0).1, (b64_char v1 h1).1, b64Sextet_61,
    List.length_nil, List.length_cons, List.nil_append, List.cons_append]
  simp [b64Padding, dropNL]

theorem b64_emit4 (a b c : Nat) (ha : a < 256) (hb : b < 256) (hc : c < 256) :
    b64Emit [(a * 65536 + b * 256 + c) / 262144 % 64, (a * 65536 + b * 256 + c) / 4096 % 64,
      (a * 65536 + b * 256 + c) / 64 % 64, (a * 65536 + b * 256 + c) % 64] = [a, b, c] := by
  simp only [b64Emit]
  congr 1
  · omega
  · congr 1
    · omega
    · congr 1; omega

theorem b64_roundtrip (bs : Bytes) (h : IsBytes bs) : b64DecodeAux (b64Encode bs) [] = some bs := by
  fun_induction b64Encode bs with
  | case1 a b c rest val ih =>
    obtain ⟨ha, h⟩ := isBytes_cons.mp h
    obtain ⟨hb, h⟩ := isBytes_cons.mp h
    obtain ⟨hc, h⟩ := isBytes_cons.mp h
    rw [b64_quantum _ _ _ _ (by omega) (by omega) (by omega) (by omega), ih h]
    simp only [val, b64_emit4 a b c ha hb hc]
    rfl
  | case2 a b val =>
    obtain ⟨ha, h⟩ := isBytes_cons.mp h
    obtain ⟨hb, h⟩ := isBytes_cons.mp h
    rw [b64_pad1 _ _ _ (by omega) (by omega) (by omega)]
    simp only [val, b64Emit]
    congr 2
    · omega
    · congr 1; omega
  | case3 a val =>
    obtain ⟨ha, h⟩ := isBytes_cons.mp h
    rw [b64_pad2 _ _ (by omega) (by omega)]
    simp only [val, b64Emit]
    congr 2
    omega
  | case4 => rfl

/-- the strict RFC 4648 decoder reads the encoder's output back -/
theorem b64_spec_roundtrip (bs : Bytes) (h : IsBytes bs) :
    Spec.Codec.b64Decode (b64Encode bs) = some bs := by
  fun_induction b64Encode bs with
  | case1 a b c rest val ih =>
    obtain ⟨ha, h⟩ := isBytes_cons.mp h
    obtain ⟨hb, h⟩ := isBytes_cons.mp h
    obtain ⟨hc, h⟩ := isBytes_cons.mp h
    have h0 := b64_char (val / 262144 % 64) (by omega)
    have h1 := b64_char (val / 4096 % 64) (by omega)
    have h2 := b64_char (val / 64 % 64) (by omega)
    have h3 := b64_char (val % 64) (by omega)
    rw [Spec.Codec.b64Decode, if_neg (fun hh => h3.2.2 hh.2.2), if_neg (fun hh => h3.2.2 hh.2)]
    simp only [h0.2.1, h1.2.1, h2.2.1, h3.2.1, ih h]
    simp only [val]
    congr 2
    · omega
    · congr 1
      · omega
      · congr 1; omega
  | case2 a b val =>
    obtain ⟨ha, h⟩ := isBytes_cons.mp h
    obtain ⟨hb, h⟩ := isBytes_cons.mp h
    have h0 := b64_char (val / 262144 % 64) (by omega)
    have h1 := b64_char (val / 4096 % 64) (by omega)
    have h2 := b64_char (val / 64 % 64) (by omega)
    rw [Spec.Codec.b64Decode, if_neg (fun hh => h2.2.2 hh.2.1), if_pos ⟨rfl, rfl⟩]
    simp only [h0.2.1, h1.2.1, h2.2.1]
    simp only [val]
    congr 2
    · omega
    · congr 1; omega
  | case3 a val =>
    obtain ⟨ha, h⟩ := isBytes_cons.mp h
    have h0 := b64_char (val / 262144 % 64) (by omega)
    have h1 := b64_char (val / 4096 % 64) (by omega)
    rw [Spec.Codec.b64Decode, if_pos ⟨rfl, rfl, rfl⟩]
    simp only [h0.2.1, h1.2.1]
    simp only [val]
    congr 2
    omega
  | case4 => rfl

/-! ## URL -/

theorem upperHex_nibble : ∀ d, d < 16 →
    unhex (upperHexDigit d) = some d ∧ Spec.Codec.hexVal (upperHexDigit d) = some d ∧
    Spec.Codec.upperHex.getD d 0 = upperHexDigit d ∧ upperHexDigit d ≠ 43 ∧ upperHexDigit d ≠ 37 := by
  decide

set_option maxRecDepth 8000 in
theorem unreserved_agree : ∀ c, c < 256 → isUnreserved c = Spec.Codec.unreserved c := by decide

theorem unreserved_facts (c : Nat) (h : isUnreserved c = true) : c ≠ 37 ∧ c ≠ 43 ∧ c ≠ 32 := by
  refine ⟨?_, ?_, ?_⟩ <;> (rintro rfl; revert h; decide)

/-- `QueryUnescape ∘ QueryEscape = id`, `PathUnescape ∘ rawurlencode = id` -/
theorem query_roundtrip (bs : Bytes) (h : IsBytes bs) : unescape true (queryEscape bs) = some bs := by
  unfold unescape
  induction bs with
  | nil => rfl
  | cons c rest ih =>
    obtain ⟨hc, hr⟩ := isBytes_cons.mp h
    simp only [queryEscape]
    split
    · rename_i hu
      obtain ⟨h37, h43, _⟩ := unreserved_facts c hu
      simp [unescapeFrom, h37, h43, ih hr, consOpt]
    · split
      · rename_i _ h32
        subst h32
        simp [unescapeFrom, ih hr, consOpt]
      · have h1 := upperHex_nibble (c / 16) (by omega)
        have h2 := upperHex_nibble (c % 16) (by omega)
        simp only [unescapeFrom, if_true, h1.1, h2.1, ih hr, consOpt]
        congr 2; omega

theorem raw_roundtrip (bs : Bytes) (h : IsBytes bs) :
    unescape false (replacePlus (queryEscape bs)) = some bs := by
  unfold unescape
  induction bs with
  | nil => rfl
  | cons c rest ih =>
    obtain ⟨hc, hr⟩ := isBytes_cons.mp h
    simp only [queryEscape]
    split
    · rename_i hu
      obtain ⟨h37, h43, _⟩ := unreserved_facts c hu
      simp [replacePlus, unescapeFrom, h37, h43, ih hr, consOpt]
    · split
      · rename_i _ h32
        subst h32
        simp [replacePlus, unescapeFrom, ih hr, consOpt, unhex]
      · have h1 := upperHex_nibble (c / 16) (by omega)
        have h2 := upperHex_nibble (c % 16) (by omega)
        simp only [replacePlus, if_neg h1.2.2.2.1, if_neg h2.2.2.2.1, if_neg (by decide : ¬ (37 : Nat) = 43)]
        simp only [unescapeFrom, if_true, h1.1, h2.1, ih hr, consOpt]
        congr 2; omega

theorem pct_eq (c : Nat) (hc : c < 256) :
    Spec.Codec.pct c = [37, upperHexDigit (c / 16), upperHexDigit (c % 16)] := by
  have h1 := upperHex_nibble (c / 16) (by omega)
  have h2 := upperHex_nibble (c % 16) (by omega)
  unfold Spec.Codec.pct
  rw [h1.2.2.1, h2.2.2.1]

/-- model encoders = the RFC definitions -/
theorem raw_is_pctEncode (bs : Bytes) (h : IsBytes bs) :
    replacePlus (queryEscape bs) = Spec.Codec.pctEncode bs := by
  induction bs with
  | nil => rfl
  | cons c rest ih =>
    obtain ⟨hc, hr⟩ := isBytes_cons.mp h
    have hu := unreserved_agree c hc
    simp only [queryEscape, Spec.Codec.pctEncode, ← hu]
    split
    · rename_i hu'
      obtain ⟨_, h43, _⟩ := unreserved_facts c hu'
      simp [replacePlus, h43, ih hr]
    · split
      · rename_i _ h32
        subst h32
        rw [pct_eq 32 (by omega)]
        simp [replacePlus, ih hr, upperHexDigit]
      · have h1 := upperHex_nibble (c / 16) (by omega)
        have h2 := upperHex_nibble (c % 16) (by omega)
        rw [pct_eq c hc]
        simp [replacePlus, h1.2.2.2.1, h2.2.2.2.1, ih hr]

theorem query_is_formEncode (bs : Bytes) (h : IsBytes bs) :
    queryEscape bs = Spec.Codec.formEncode bs := by
  induction bs with
  | nil => rfl
  | cons c rest ih =>
    obtain ⟨hc, hr⟩ := isBytes_cons.mp h
    have hu := unreserved_agree c hc
    have h1 := upperHex_nibble (c / 16) (by omega)
    have h2 := upperHex_nibble (c % 16) (by omega)
    simp only [queryEscape, Spec.Codec.formEncode, ← hu, ih hr, pct_eq c hc]
    split
    · rfl
    · split <;> rfl

end Proofs.Codec
