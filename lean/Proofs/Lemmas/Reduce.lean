import Model.Reduce
import Proofs.Lemmas.Pattern
/-!
C20 — lemmas about the first-of-ties loop (`Model.Reduce.firstBest`): its result is a candidate that
nothing beats, and a candidate that nothing beats stays when it comes first.
-/
namespace Proofs.Reduce
open Model.Reduce

variable {α : Type}

/-- the strict comparisons a reduction uses (`>` / `<` on float64 — NaN included —, on integers, on
strings): nothing beats itself, and beating is transitive. Totality is *not* assumed: candidates
that do not beat each other tie. -/
structure StrictOrder (gt : α → α → Bool) : Prop where
  irrefl : ∀ a, gt a a = false
  trans : ∀ a b c, gt a b = true → gt b c = true → gt a c = true

theorem fold_mem (gt : α → α → Bool) : ∀ (l : List α) (m : α), l.foldl (step gt) m ∈ m :: l
  | [], m => by simp
  | v :: l, m => by
    have h := fold_mem gt l (step gt m v)
    simp only [List.foldl_cons]
    rcases List.mem_cons.mp h with e | h'
    · rw [e]; unfold step; split
      · exact List.mem_cons_of_mem _ List.mem_cons_self
      · exact List.mem_cons_self
    · exact List.mem_cons_of_mem _ (List.mem_cons_of_mem _ h')

/-- whatever beats the result beats the value the loop started from -/
theorem fold_dominates {gt : α → α → Bool} (h : StrictOrder gt) (x : α) :
    ∀ (l : List α) (m : α), gt x (l.foldl (step gt) m) = true → gt x m = true
  | [], _, hx => hx
  | v :: l, m, hx => by
    simp only [List.foldl_cons] at hx
    have h1 := fold_dominates h x l (step gt m v) hx
    unfold step at h1
    split at h1
    · next hv => exact h.trans x v m h1 hv
    · exact h1

/-- nothing the loop has seen beats its result -/
theorem fold_unbeaten {gt : α → α → Bool} (h : StrictOrder gt) :
    ∀ (l : List α) (m : α), ∀ x ∈ m :: l, gt x (l.foldl (step gt) m) = false
  | [], m, x, hx => by
    simp at hx; subst hx; exact h.irrefl x
  | v :: l, m, x, hx => by
    simp only [List.foldl_cons]
    have ih := fold_unbeaten h l (step gt m v)
    rcases List.mem_cons.mp hx with e | hx'
    · -- the start value
      subst e
      cases hg : gt x (l.foldl (step gt) (step gt x v)) with
      | false => rfl
      | true =>
        have h1 := fold_dominates h x l _ hg
        unfold step at h1
        split at h1
        · next hv =>
          have := h.trans x v x h1 hv
          rw [h.irrefl x] at this; exact absurd this (by simp)
        · rw [h.irrefl x] at h1; exact absurd h1 (by simp)
    · rcases List.mem_cons.mp hx' with e | hx''
      · subst e
        cases hg : gt x (l.foldl (step gt) (step gt m x)) with
        | false => rfl
        | true =>
          have h1 := fold_dominates h x l _ hg
          unfold step at h1
          split at h1
          · rw [h.irrefl x] at h1; exact absurd h1 (by simp)
          · next hv => rw [h1] at hv; exact absurd rfl hv
      · exact ih x (List.mem_cons_of_mem _ hx'')

/-- the result of the loop is a candidate that nothing beats -/
theorem firstBest_maximal {gt : α → α → Bool} (h : StrictOrder gt) {l : List α} {r : α}
    (hr : firstBest gt l = some r) : Maximal gt l r := by
  cases l with
  | nil => simp [firstBest] at hr
  | cons a l =>
    simp only [firstBest, Option.some.injEq] at hr
    subst hr
    exact ⟨fold_mem gt l a, fold_unbeaten h l a⟩

/-- a candidate that nothing beats is never replaced once the loop holds it -/
theorem fold_keeps (gt : α → α → Bool) (a : α) :
    ∀ l : List α, (∀ x ∈ l, gt x a = false) → l.foldl (step gt) a = a
  | [], _ => rfl
  | v :: l, hm => by
    simp only [List.foldl_cons]
    have hv : step gt a v = a := by
      unfold step; rw [hm v List.mem_cons_self]; simp
    rw [hv]
    exact fold_keeps gt a l (fun x hx => hm x (List.mem_cons_of_mem _ hx))

theorem firstBest_head (gt : α → α → Bool) (a : α) (l : List α) (hm : ∀ x ∈ l, gt x a = false) :
    firstBest gt (a :: l) = some a := by
  simp only [firstBest, fold_keeps gt a l hm]

theorem firstBest_isSome (gt : α → α → Bool) {l : List α} (h : l ≠ []) : ∃ r, firstBest gt l = some r := by
  cases l with
  | nil => exact absurd rfl h
  | cons a l => exact ⟨_, rfl⟩

theorem numGt_strict : StrictOrder numGt :=
  ⟨fun a => by simp [numGt], fun a b c h1 h2 => by simp [numGt] at *; omega⟩

theorem numLt_strict : StrictOrder numLt :=
  ⟨fun a => by simp [numLt], fun a b c h1 h2 => by simp [numLt] at *; omega⟩

/-- a comparison that looks at the candidates through a projection (`(key, value) ↦ value`) -/
theorem strict_comap {β : Type} {gt : β → β → Bool} (h : StrictOrder gt) (f : α → β) :
    StrictOrder (fun a b => gt (f a) (f b)) :=
  ⟨fun _ => h.irrefl _, fun _ _ _ => h.trans _ _ _⟩

end Proofs.Reduce
