import Model.InputFacts
/-!
# Lemmas about `Model.InputFacts` (C14): what a row of each regenerated table guarantees, for every row.
-/
namespace Proofs.InputFacts
open Model.InputFacts

/-! ## consume sites -/

theorem consume_refused (g : String) (n : Int) (len : Nat) (h : refuses g n = true) : consume g n len = .reject := by
  simp [consume, h]

theorem consume_passed (g : String) (n : Int) (len : Nat) (h : refuses g n = false) (h0 : 0 ≤ n) (hl : n ≤ len) :
    consume g n len = .ok (len - n.toNat) := by
  have h1 : ¬ (n < 0 ∨ n > (len : Int)) := by omega
  simp only [consume, h, Bool.false_eq_true, if_false, if_neg h1]

/-- a site whose test is `n <= 0` (or `n < 0`) never slices out of range and always makes progress, whatever the
primitive returns within its contract (`n ≠ 0`, `n ≤ len(data)`) -/
theorem consume_safe (s : ConsumeSite) (hs : s.ok = true) (n : Int) (len : Nat) (h0 : n ≠ 0) (hl : n ≤ len) :
    consume s.guard n len ≠ .panic ∧ ∀ r, consume s.guard n len = .ok r → r < len := by
  simp only [ConsumeSite.ok, Bool.or_eq_true, decide_eq_true_eq] at hs
  have hr : refuses s.guard n = decide (n < 0) := by
    cases hs with
    | inl h => rw [h]; simp [refuses]; omega
    | inr h => rw [h]; simp [refuses]
  by_cases hn : n < 0
  · rw [consume_refused _ _ _ (by rw [hr]; simp [hn])]
    exact ⟨by simp, by intro r hr; cases hr⟩
  · rw [consume_passed _ _ _ (by rw [hr]; simp [hn]) (by omega) hl]
    refine ⟨by simp, ?_⟩
    intro r hr
    injection hr with hr
    omega

/-- without a test, or with `n == 0`, a malformed input (the primitive answers -1) is sliced with a negative bound -/
theorem consume_unguarded_panics : consume "none" (-1) 4 = .panic ∧ consume "eq0" (-1) 4 = .panic := by decide

/-! ## loops -/

theorem nonempty_exits_empty (rem : Nat) (h : exitsWith "nonempty" rem = true) : rem = 0 := by
  simpa [exitsWith] using h

/-! ## lengths -/

theorem wrap64_id (x : Int) (h0 : 0 ≤ x) (h1 : x < 9223372036854775808) : wrap64 x = x := by
  unfold wrap64
  omega

/-- a declared length that was held against the input length cannot wrap the position it is added to: the access
that follows the `end+2 > len` test is in range (inputs shorter than 2^62 - 1 bytes) -/
theorem strAccess_bounded_safe (len b n : Nat) (hlen : len < 4611686018427387903) (hb : b ≤ len) :
    strAccess true len b n ≠ .panic := by
  by_cases hn : n > len
  · simp [strAccess, hn]
  · have he : wrap64 ((b : Int) + (n : Int)) = (b : Int) + (n : Int) := wrap64_id _ (by omega) (by omega)
    have he2 : wrap64 ((b : Int) + (n : Int) + 2) = (b : Int) + (n : Int) + 2 := wrap64_id _ (by omega) (by omega)
    have h3 : ¬ ((b : Int) + (n : Int) < 0) := by omega
    simp only [strAccess, hn, decide_false, Bool.and_false, Bool.false_eq_true, if_false, he, he2]
    by_cases h1 : (b : Int) + (n : Int) + 2 > (len : Int)
    · simp [h1]
    · have h2 : ¬ ((b : Int) + (n : Int) < 0 ∨ (b : Int) + (n : Int) ≥ (len : Int)) := by omega
      simp [h1, h2]

/-- without that test a length near 2^63 wraps `begin + n` negative, the `end+2 > len` test passes, `s[end]` panics -/
theorem strAccess_unbounded_panics : strAccess false 10 5 9223372036854775803 = .panic := by decide

/-! ## index sites -/

/-- a covered site is in range wherever the test in force holds: for an index `s[base+c]` the need is `c+1`, so
`base + c < len`; for a slice bound `base+c` the need is `c`, so `base + c ≤ len` -/
theorem covered_in_range (s : IndexSite) (hc : s.covered = true) (base len h : Nat) (hr : s.room = some h)
    (ht : base + h ≤ len) : base + s.need ≤ len := by
  simp only [IndexSite.covered, hr, decide_eq_true_eq] at hc
  omega

/-- an index one past what the test guarantees: the test passes at the last position and the access is out of range -/
theorem uncovered_out_of_range :
    let s : IndexSite := ⟨"parsePhpValue", "s[end+1]", "end", 2, some 1⟩
    s.covered = false ∧ ∃ base len, base + 1 ≤ len ∧ ¬ (base + 1 < len) := by
  exact ⟨by decide, 3, 4, by omega, by omega⟩

/-! ## the serialize reader's dispatch -/

open Model.Ser in
/-- a first byte that is none of the reader's tags is refused -/
theorem reader_refuses_other_tags (fuel c : Nat) (rest : Bytes)
    (h : [c] ∉ readerTags.map bytesOf) : pValue (fuel + 1) (c :: rest) = none := by
  have hb : readerTags.map bytesOf = [[78], [98], [105], [100], [115], [97]] := by decide
  rw [hb] at h
  simp only [List.mem_cons, List.cons.injEq, and_true, List.not_mem_nil, or_false, not_or] at h
  obtain ⟨h1, h2, h3, h4, h5, h6⟩ := h
  unfold pValue
  simp [h1, h2, h3, h4, h5, h6]

open Model.Ser in
/-- `knownPrefix` is the gate -/
theorem gate_is_knownPrefix (s : Bytes) : knownPrefix s = (gate.map bytesOf).any (fun p => startsWith p s) := by
  have hb : gate.map bytesOf = [[78, 59], [98, 58], [105, 58], [100, 58], [115, 58], [97, 58]] := by decide
  rw [hb]
  simp [knownPrefix, List.any, Bool.or_assoc]

/-! ## the wire parser's dispatch -/

open Model.Wire in
/-- a wire type outside the dispatch table is refused -/
theorem value_refuses_other_types (o : Opts) (rf : Bytes → Nat → Except Err FT)
    (rg : Bytes → Nat → Nat → Except Err (FT × Bytes)) (num wt : Nat) (data : Bytes) (depth : Nat)
    (h : wt ∉ fieldDispatch.map (·.1)) : valueWith o rf rg num wt data depth = .error .wireType := by
  simp only [fieldDispatch, List.map, List.mem_cons, List.not_mem_nil, or_false, not_or] at h
  obtain ⟨h0, h1, h2, h3, h4, h5⟩ := h
  unfold valueWith
  simp [h0, h1, h2, h3, h4, h5]

open Model.Wire in
/-- an element type outside the packed table is refused -/
theorem packed_refuses_other_types (et : Nat) (data : Bytes) (h : et ∉ packedDispatch.map (·.1)) :
    unpackPacked et data = .error .packedType := by
  simp only [packedDispatch, List.map, List.mem_cons, List.not_mem_nil, or_false, not_or] at h
  obtain ⟨h0, h1, h5⟩ := h
  unfold unpackPacked
  simp [h0, h1, h5]

/-- every writer tag outside `known` is a reader tag -/
theorem writer_covered (writer : List (String × String)) (reader known : List String)
    (h : writerCovered writer reader known = true) :
    ∀ w ∈ writer, w.2 ∉ known → w.2 ∈ reader := by
  intro w hw hk
  simp only [writerCovered, List.all_eq_true, Bool.or_eq_true, List.contains_iff_mem] at h
  cases h w hw with
  | inl h => exact h
  | inr h => exact absurd h hk

end Proofs.InputFacts
