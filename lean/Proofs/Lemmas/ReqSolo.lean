import Proofs.Lemmas.Req
import Spec.Req
/-!
Solo runs of `Model.Req`: a request served with nothing else in flight is an iteration
of `localStep` on (its state, the cells it sees); that iteration refines `Spec.Req.exec`;
and if the first step is `reset` the outcome does not depend on what the caches held
before (sequential service is fresh whatever the scope of the caches).
-/
namespace Proofs.Req
open Model.Req

def iter (env : Content) (d : ReqData) : Nat → ReqSt × Cells → ReqSt × Cells
  | 0, x => x
  | n + 1, x => iter env d n (localStep env d x.1 x.2)

theorem run_solo_iter (w : World) (r : Rid) : ∀ (n : Nat) (s : State),
    ((run w s (List.replicate n r)).req r, cellView w (run w s (List.replicate n r)) r)
      = iter w.env (w.data r) n (s.req r, cellView w s r) := by
  intro n
  induction n with
  | zero => intro s; rfl
  | succ n ih =>
    intro s
    have := ih (stepReq w s r)
    simp only [run, List.replicate_succ, List.foldl_cons] at this ⊢
    rw [this, step_req_self, step_view_self]
    rfl

/-! ### refinement of the specification -/

def abs (q : ReqSt) (c : Cells) : Spec.Req.Own :=
  { arr := c, parsed := q.parsed, locals := q.locals, last := q.last, pending := q.pending, body := q.body }

theorem arrayOf_abs (env : Content) (d : ReqData) (q : ReqSt) (c : Cells) (k : Kind) (hk : k ≠ .request) :
    Spec.Req.arrayOf env d (abs q c) k
      = (abs q (ensureBasic env d q.parsed c k).1, (ensureBasic env d q.parsed c k).2) := by
  unfold Spec.Req.arrayOf ensureBasic
  simp only [abs]
  cases hc : c k with
  | some v => rfl
  | none =>
    have : Spec.Req.source env d q.parsed k = fillBasic env d q.parsed k := by
      cases k <;> first | rfl | exact absurd rfl hk
    simp only [this, Spec.Req.setArr]
    rfl

theorem superglobal_abs (env : Content) (d : ReqData) (q : ReqSt) (c : Cells) (k : Kind) :
    Spec.Req.superglobal env d (abs q c) k
      = (abs q (ensure env d q.parsed c k).1, (ensure env d q.parsed c k).2) := by
  unfold Spec.Req.superglobal
  by_cases hk : k = .request
  · subst hk
    simp only [if_true, Spec.Req.requestOf, ensure]
    cases hc : c .request with
    | some v => simp [abs, hc]
    | none =>
      have e1 := arrayOf_abs env d q c .get (by decide)
      have e2 := arrayOf_abs env d q (ensureBasic env d q.parsed c .get).1 .post (by decide)
      have e3 := arrayOf_abs env d q (ensureBasic env d q.parsed (ensureBasic env d q.parsed c .get).1 .post).1 .cookie (by decide)
      have hc' : (abs q c).arr .request = none := hc
      simp only [hc', e1, e2, e3]
      simp [abs, Spec.Req.setArr]
      rfl
  · rw [if_neg hk, arrayOf_abs env d q c k hk]
    cases k <;> first | rfl | exact absurd rfl hk

theorem abs_observe (q : ReqSt) (c : Cells) (o : Obs) :
    abs (observe q o) c = Spec.Req.see (abs q c) o := rfl

/-- one model step = one specification step -/
theorem localStep_abs (env : Content) (d : ReqData) (q : ReqSt) (c : Cells) (st : Step) (rest : List Step)
    (h : q.pc = st :: rest) :
    abs (localStep env d q c).1 (localStep env d q c).2 = Spec.Req.exec env d (abs q c) st := by
  unfold localStep
  simp only [h]
  cases st with
  | reset => rfl
  | parseForm => rfl
  | readSG k key =>
    simp only [Spec.Req.exec]
    have := superglobal_abs env d { q with pc := rest } c k
    simp only [abs] at this ⊢
    rw [this]
    rfl
  | writeSG k key v =>
    simp only [Spec.Req.exec]
    have := superglobal_abs env d { q with pc := rest } c k
    simp only [abs] at this ⊢
    rw [this]
    rfl
  | readReq a key => rfl
  | writeLocal slot s => cases s <;> rfl
  | readLocal slot => rfl
  | gate => rfl
  | write => rfl

theorem iter_abs (env : Content) (d : ReqData) : ∀ (pc : List Step) (q : ReqSt) (c : Cells), q.pc = pc →
    abs (iter env d pc.length (q, c)).1 (iter env d pc.length (q, c)).2
      = pc.foldl (Spec.Req.exec env d) (abs q c) := by
  intro pc
  induction pc with
  | nil => intro q c _; rfl
  | cons st rest ih =>
    intro q c h
    have hpc : (localStep env d q c).1.pc = rest := by rw [localStep_pc, h]; rfl
    have := ih (localStep env d q c).1 (localStep env d q c).2 hpc
    simp only [List.length_cons, iter, List.foldl_cons]
    rw [this, localStep_abs env d q c st rest h]

/-! ### a leading `reset` makes a solo run independent of the caches' previous content -/

theorem iter_reset_first (env : Content) (d : ReqData) (q : ReqSt) (rest : List Step) (h : q.pc = .reset :: rest)
    (c c' : Cells) (n : Nat) : iter env d (n + 1) (q, c) = iter env d (n + 1) (q, c') := by
  have : ∀ c, localStep env d q c = ({ q with pc := rest }, Cells.empty) := by
    intro c; unfold localStep; simp [h]
  simp only [iter, this]

theorem iter_fst_zero (env : Content) (d : ReqData) (q : ReqSt) (c : Cells) : (iter env d 0 (q, c)).1 = q := rfl

end Proofs.Req
