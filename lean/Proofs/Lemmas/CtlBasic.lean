import Model.Ctl
import Spec.Ctl
import Spec.CtlFrag
/-! Helper lemmas for C02: association lists, the scope table (`idx`, `mkScope`), and the
simulation relation between a `Spec.Ctl` state and a `Model.Ctl` state. -/
namespace Proofs.Ctl
open Spec.Ctl Model.Ctl

/-! ### association lists -/

theorem aget_aset {κ α : Type} [DecidableEq κ] (l : List (κ × α)) (k k' : κ) (a : α) :
    aget (aset l k a) k' = if k' = k then some a else aget l k' := by
  induction l with
  | nil =>
    simp only [aset, aget]
  | cons h t ih =>
    obtain ⟨k0, a0⟩ := h
    simp only [aset]
    by_cases hk : k = k0
    · subst hk
      simp only [if_true, aget]
      by_cases h2 : k' = k <;> simp [h2]
    · simp only [hk, if_false, aget, ih]
      by_cases h2 : k' = k0
      · subst h2
        have : ¬ k' = k := fun e => hk e.symm
        simp [this]
      · simp [h2]

theorem aget_aset_self {κ α : Type} [DecidableEq κ] (l : List (κ × α)) (k : κ) (a : α) :
    aget (aset l k a) k = some a := by simp [aget_aset]

theorem aget_aset_ne {κ α : Type} [DecidableEq κ] (l : List (κ × α)) (k k' : κ) (a : α) (h : k' ≠ k) :
    aget (aset l k a) k' = aget l k' := by simp [aget_aset, h]

/-! ### the scope table -/

theorem idx_lt {sc : List Var} {x : Var} (h : x ∈ sc) : idx sc x < sc.length := by
  induction sc with
  | nil => cases h
  | cons y ys ih =>
    simp only [idx]
    by_cases e : x = y
    · simp [e]
    · simp only [e, if_false, List.length_cons]
      have : x ∈ ys := by
        cases h with
        | head => exact absurd rfl e
        | tail _ h => exact h
      have := ih this
      omega

theorem getElem?_idx {sc : List Var} {x : Var} (h : x ∈ sc) : sc[idx sc x]? = some x := by
  induction sc with
  | nil => cases h
  | cons y ys ih =>
    simp only [idx]
    by_cases e : x = y
    · simp [e]
    · simp only [e, if_false]
      have : x ∈ ys := by
        cases h with
        | head => exact absurd rfl e
        | tail _ h => exact h
      simpa using ih this

theorem idx_inj {sc : List Var} {x y : Var} (hx : x ∈ sc) (hy : y ∈ sc) (h : idx sc x = idx sc y) : x = y := by
  have h1 := getElem?_idx hx
  have h2 := getElem?_idx hy
  rw [h] at h1
  rw [h1] at h2
  exact Option.some.inj h2

theorem mem_foldl_addVar (xs acc : List Var) (x : Var) (h : x ∈ acc ∨ x ∈ xs) : x ∈ xs.foldl addVar acc := by
  induction xs generalizing acc with
  | nil =>
    cases h with
    | inl h => exact h
    | inr h => cases h
  | cons y ys ih =>
    simp only [List.foldl_cons]
    apply ih
    cases h with
    | inl h =>
      left
      unfold addVar
      split
      · exact h
      · exact List.mem_append_left _ h
    | inr h =>
      cases h with
      | head =>
        left
        unfold addVar
        split
        · assumption
        · simp
      | tail _ h => exact Or.inr h

theorem mem_mkScope {xs : List Var} {x : Var} (h : x ∈ xs) : x ∈ mkScope xs :=
  mem_foldl_addVar xs [] x (Or.inr h)

/-- every name in `xs` has a slot in the table `sc` -/
def Covers (sc : List Var) (xs : List Var) : Prop := ∀ x ∈ xs, x ∈ sc

theorem covers_mkScope (xs : List Var) : Covers (mkScope xs) xs := fun _ h => mem_mkScope h

theorem Covers.left {sc a b : List Var} (h : Covers sc (a ++ b)) : Covers sc a :=
  fun x hx => h x (List.mem_append_left _ hx)

theorem Covers.right {sc a b : List Var} (h : Covers sc (a ++ b)) : Covers sc b :=
  fun x hx => h x (List.mem_append_right _ hx)

theorem Covers.head {sc : List Var} {x : Var} {b : List Var} (h : Covers sc (x :: b)) : x ∈ sc :=
  h x (List.mem_cons_self)

theorem Covers.tail {sc : List Var} {x : Var} {b : List Var} (h : Covers sc (x :: b)) : Covers sc b :=
  fun y hy => h y (List.mem_cons_of_mem _ hy)

end Proofs.Ctl
