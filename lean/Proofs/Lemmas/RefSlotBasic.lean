import Model.RefSlot
/-!
C06 — list and heap facts used by `Proofs.Lemmas.RefSlot` (nothing here mentions `WF` / `Sim`).
-/
namespace Proofs.RefSlot
open Model.RefSlot

/-! ### lists -/

theorem countP_set_add {α : Type} (p : α → Bool) (l : List α) (i : Nat) (a old : α)
    (h : l[i]? = some old) :
    (l.set i a).countP p + (if p old then 1 else 0) = l.countP p + (if p a then 1 else 0) := by
  induction l generalizing i with
  | nil => simp at h
  | cons b l ih =>
    cases i with
    | zero =>
      simp at h
      subst h
      simp [List.countP_cons]
      omega
    | succ i =>
      simp at h
      have := ih i h
      simp [List.countP_cons]
      omega

theorem set_self_of_getElem? {α : Type} (l : List α) (i : Nat) (a : α) (h : l[i]? = some a) :
    l.set i a = l := by
  apply List.ext_getElem?
  intro j
  rw [List.getElem?_set]
  split
  · next hij =>
    subst hij
    split
    · exact h.symm
    · next hl =>
      have : l[i]? = none := by simp; omega
      rw [this] at h; cases h
  · rfl

theorem lt_of_getElem?_eq_some {α : Type} (l : List α) (i : Nat) (a : α) (h : l[i]? = some a) :
    i < l.length := by
  apply Classical.byContradiction
  intro hn
  have : l[i]? = none := by simp; omega
  rw [this] at h; cases h

/-- values of all arrays agree when the two valuations agree on every slot in use -/
theorem vals_congr (arrs : List (List Nat)) (f f' : Nat → Int)
    (h : ∀ (x : Nat) (a : List Nat) (i c : Nat), arrs[x]? = some a → a[i]? = some c → f' c = f c) :
    arrs.map (fun a => a.map f') = arrs.map (fun a => a.map f) := by
  apply List.ext_getElem?
  intro x
  simp only [List.getElem?_map]
  cases hx : arrs[x]? with
  | none => rfl
  | some a =>
    simp only [Option.map_some]
    congr 1
    apply List.ext_getElem?
    intro i
    simp only [List.getElem?_map]
    cases hi : a[i]? with
    | none => rfl
    | some c => simp only [Option.map_some]; rw [h x a i c hx hi]

/-- the cell `c` occurs at `(x, i)` only: revaluing it is a `set` at `(x, i)` -/
theorem vals_set_unique (arrs : List (List Nat)) (f f' : Nat → Int) (x i c : Nat) (a : List Nat) (v : Int)
    (hx : arrs[x]? = some a) (hi : a[i]? = some c) (hv : f' c = v)
    (hne : ∀ c', c' ≠ c → f' c' = f c')
    (hu : ∀ (x' : Nat) (a' : List Nat) (i' : Nat), arrs[x']? = some a' → a'[i']? = some c → x' = x ∧ i' = i) :
    arrs.map (fun a => a.map f') = (arrs.map (fun a => a.map f)).set x ((a.map f).set i v) := by
  apply List.ext_getElem?
  intro x'
  rw [List.getElem?_set]
  simp only [List.getElem?_map, List.length_map]
  by_cases hxx : x = x'
  · subst hxx
    have hlt := lt_of_getElem?_eq_some _ _ _ hx
    simp only [hx, Option.map_some, if_true, hlt]
    congr 1
    apply List.ext_getElem?
    intro i'
    rw [List.getElem?_set]
    simp only [List.getElem?_map, List.length_map]
    by_cases hii : i = i'
    · subst hii
      have hlt' := lt_of_getElem?_eq_some _ _ _ hi
      simp only [hi, Option.map_some, if_true, hlt', hv]
    · simp only [hii, if_false]
      cases hc : a[i']? with
      | none => rfl
      | some c' =>
        simp only [Option.map_some]
        by_cases hcc : c' = c
        · subst hcc
          exact absurd (hu x a i' hx hc).2.symm hii
        · rw [hne c' hcc]
  · simp only [hxx, if_false]
    cases hx' : arrs[x']? with
    | none => rfl
    | some a' =>
      simp only [Option.map_some]
      congr 1
      apply List.ext_getElem?
      intro i'
      simp only [List.getElem?_map]
      cases hc : a'[i']? with
      | none => rfl
      | some c' =>
        simp only [Option.map_some]
        by_cases hcc : c' = c
        · subst hcc
          exact absurd (hu x' a' i' hx' hc).1.symm hxx
        · rw [hne c' hcc]

/-- a slot of the arrays after `(x, i)` got the cell `n`: unless it holds `n`, it is an old slot -/
theorem slot_set_old (arrs : List (List Nat)) (x i n : Nat) (a : List Nat) (hx : arrs[x]? = some a)
    (x1 i1 d : Nat) (a1 : List Nat)
    (h1 : (arrs.set x (a.set i n))[x1]? = some a1) (h2 : a1[i1]? = some d) (hd : d ≠ n) :
    ∃ a0, arrs[x1]? = some a0 ∧ a0[i1]? = some d := by
  rw [List.getElem?_set] at h1
  split at h1
  · next hxx =>
    subst hxx
    split at h1
    · cases h1
      rw [List.getElem?_set] at h2
      split at h2
      · split at h2
        · cases h2; exact absurd rfl hd
        · cases h2
      · exact ⟨a, hx, h2⟩
    · cases h1
  · exact ⟨a1, h1, h2⟩

/-- an old slot other than `(x, i)` is still there after `(x, i)` got another cell -/
theorem slot_set_new (arrs : List (List Nat)) (x i n : Nat) (a : List Nat) (hx : arrs[x]? = some a)
    (x0 i0 d : Nat) (a0 : List Nat) (h1 : arrs[x0]? = some a0) (h2 : a0[i0]? = some d)
    (hne : ¬ (x0 = x ∧ i0 = i)) :
    ∃ a1, (arrs.set x (a.set i n))[x0]? = some a1 ∧ a1[i0]? = some d := by
  rw [List.getElem?_set]
  by_cases hxx : x = x0
  · subst hxx
    have hlt := lt_of_getElem?_eq_some _ _ _ hx
    simp only [if_true, hlt]
    rw [hx] at h1; cases h1
    refine ⟨_, rfl, ?_⟩
    rw [List.getElem?_set]
    have : ¬ i = i0 := fun h => hne ⟨rfl, h.symm⟩
    simp only [this, if_false]
    exact h2
  · simp only [hxx, if_false]
    exact ⟨a0, h1, h2⟩

/-- the fresh cell `n` sits at `(x, i)` only -/
theorem slot_set_fresh (arrs : List (List Nat)) (x i n : Nat) (a : List Nat)
    (hold : ∀ (x0 : Nat) (a0 : List Nat) (i0 : Nat), arrs[x0]? = some a0 → a0[i0]? ≠ some n)
    (hx : arrs[x]? = some a)
    (x1 i1 : Nat) (a1 : List Nat)
    (h1 : (arrs.set x (a.set i n))[x1]? = some a1) (h2 : a1[i1]? = some n) :
    x1 = x ∧ i1 = i := by
  rw [List.getElem?_set] at h1
  split at h1
  · next hxx =>
    subst hxx
    split at h1
    · cases h1
      rw [List.getElem?_set] at h2
      split at h2
      · next hii => exact ⟨rfl, hii.symm⟩
      · exact absurd h2 (hold x a i1 hx)
    · cases h1
  · exact absurd h2 (hold x1 a1 i1 h1)

/-- the slot `(x, i)` itself after it got the cell `n` -/
theorem slot_set_self (arrs : List (List Nat)) (x i n c : Nat) (a : List Nat) (hx : arrs[x]? = some a)
    (hi : a[i]? = some c) :
    (arrs.set x (a.set i n))[x]? = some (a.set i n) ∧ (a.set i n)[i]? = some n := by
  have hlt := lt_of_getElem?_eq_some _ _ _ hx
  have hlt' := lt_of_getElem?_eq_some _ _ _ hi
  constructor
  · rw [List.getElem?_set]; simp only [if_true, hlt]
  · rw [List.getElem?_set]; simp only [if_true, hlt']

/-! ### cells -/

theorem cellVal_append_left (h e : List Cell) (c : Nat) (hc : c < h.length) :
    cellVal (h ++ e) c = cellVal h c := by
  unfold cellVal
  rw [List.getElem?_append_left hc]

theorem cellVal_append_new (h : List Cell) (v : Int) (n : Nat) :
    cellVal (h ++ [⟨v, n⟩]) h.length = v := by
  unfold cellVal
  rw [List.getElem?_append_right (Nat.le_refl _)]
  simp

theorem cellVal_of_get (h : List Cell) (c : Nat) (cl : Cell) (hc : h[c]? = some cl) :
    cellVal h c = cl.val := by
  unfold cellVal; rw [hc]

theorem map_cellVal_range' (vs : List Int) : ∀ (h : List Cell),
    (List.range' h.length vs.length).map (cellVal (h ++ vs.map (fun v => ⟨v, 0⟩))) = vs := by
  induction vs with
  | nil => intro h; rfl
  | cons v vs ih =>
    intro h
    have := ih (h ++ [⟨v, 0⟩])
    simp only [List.length_append, List.length_cons, List.length_nil, List.append_assoc,
      List.cons_append, List.nil_append] at this
    simp only [List.length_cons, List.range'_succ, List.map_cons]
    rw [this]
    congr 1
    unfold cellVal
    rw [List.getElem?_append_right (Nat.le_refl _)]
    simp

theorem length_setVal (h : List Cell) (c : Nat) (v : Int) : (setVal h c v).length = h.length := by
  unfold setVal; split <;> simp

theorem length_incCnt (h : List Cell) (c : Nat) : (incCnt h c).length = h.length := by
  unfold incCnt; split <;> simp

theorem length_decCnt (h : List Cell) (c : Nat) : (decCnt h c).length = h.length := by
  unfold decCnt; split <;> simp

theorem incCnt_of_get (h : List Cell) (c : Nat) (cl : Cell) (hc : h[c]? = some cl) :
    incCnt h c = h.set c ⟨cl.val, cl.cnt + 1⟩ := by
  unfold incCnt; rw [hc]

theorem decCnt_of_get (h : List Cell) (c : Nat) (cl : Cell) (hc : h[c]? = some cl) :
    decCnt h c = h.set c ⟨cl.val, cl.cnt - 1⟩ := by
  unfold decCnt; rw [hc]

theorem setVal_of_get (h : List Cell) (c : Nat) (cl : Cell) (v : Int) (hc : h[c]? = some cl) :
    setVal h c v = h.set c ⟨v, cl.cnt⟩ := by
  unfold setVal; rw [hc]

/-- a cell of the heap after cell `c` was rewritten keeping its value -/
theorem cellVal_set_same (h : List Cell) (c : Nat) (cl : Cell) (n : Nat) (hc : h[c]? = some cl) (d : Nat) :
    cellVal (h.set c ⟨cl.val, n⟩) d = cellVal h d := by
  unfold cellVal
  rw [List.getElem?_set]
  by_cases hcd : c = d
  · subst hcd
    have hlt := lt_of_getElem?_eq_some _ _ _ hc
    simp only [hlt, if_true, hc]
  · simp only [hcd, if_false]

theorem cellVal_set_self (h : List Cell) (c : Nat) (cl cl' : Cell) (hc : h[c]? = some cl) :
    cellVal (h.set c cl') c = cl'.val := by
  unfold cellVal
  have hlt := lt_of_getElem?_eq_some _ _ _ hc
  rw [List.getElem?_set]
  simp only [hlt, if_true]

theorem cellVal_set_ne (h : List Cell) (c d : Nat) (cl' : Cell) (hne : d ≠ c) :
    cellVal (h.set c cl') d = cellVal h d := by
  unfold cellVal
  rw [List.getElem?_set]
  have : ¬ c = d := fun e => hne e.symm
  simp only [this, if_false]

theorem cellVal_incCnt (h : List Cell) (c d : Nat) : cellVal (incCnt h c) d = cellVal h d := by
  cases hc : h[c]? with
  | none => unfold incCnt; rw [hc]
  | some cl => rw [incCnt_of_get h c cl hc]; exact cellVal_set_same h c cl _ hc d

theorem cellVal_decCnt (h : List Cell) (c d : Nat) : cellVal (decCnt h c) d = cellVal h d := by
  cases hc : h[c]? with
  | none => unfold decCnt; rw [hc]
  | some cl => rw [decCnt_of_get h c cl hc]; exact cellVal_set_same h c cl _ hc d

/-- the cells of `h.set c cl'` -/
theorem get_set_cell (h : List Cell) (c : Nat) (cl cl' : Cell) (hc : h[c]? = some cl) (d : Nat) (cd : Cell)
    (hd : (h.set c cl')[d]? = some cd) :
    (d = c ∧ cd = cl') ∨ (d ≠ c ∧ h[d]? = some cd) := by
  rw [List.getElem?_set] at hd
  split at hd
  · next hcd =>
    subst hcd
    have hlt := lt_of_getElem?_eq_some _ _ _ hc
    simp only [hlt, if_true] at hd
    cases hd
    exact Or.inl ⟨rfl, rfl⟩
  · next hcd => exact Or.inr ⟨fun e => hcd e.symm, hd⟩

/-- the cells of `h ++ [cl']` -/
theorem get_append_cell (h : List Cell) (cl' : Cell) (d : Nat) (cd : Cell)
    (hd : (h ++ [cl'])[d]? = some cd) :
    (d = h.length ∧ cd = cl') ∨ (d < h.length ∧ h[d]? = some cd) := by
  by_cases hlt : d < h.length
  · rw [List.getElem?_append_left hlt] at hd
    exact Or.inr ⟨hlt, hd⟩
  · have hlen := lt_of_getElem?_eq_some _ _ _ hd
    simp only [List.length_append, List.length_cons, List.length_nil] at hlen
    have : d = h.length := by omega
    subst this
    rw [List.getElem?_append_right (Nat.le_refl _)] at hd
    simp at hd
    exact Or.inl ⟨rfl, hd.symm⟩

/-! ### binders -/

/-- the predicate counted by `binders` -/
def bpred (d : Nat) (b : Option (Nat × Kind)) : Bool :=
  match b with
  | some (c', _) => c' == d
  | none => false

theorem binders_def (s : St) (d : Nat) : binders s d = s.bnd.countP (bpred d) := rfl

theorem binders_congr (s s' : St) (h : s'.bnd = s.bnd) (c : Nat) : binders s' c = binders s c := by
  unfold binders; rw [h]

theorem binders_eq_zero (s : St) (c : Nat) (h : ∀ (r : Nat) (k : Kind), s.bnd[r]? ≠ some (some (c, k))) :
    binders s c = 0 := by
  unfold binders
  rw [List.countP_eq_zero]
  intro b hb
  obtain ⟨r, hr⟩ := List.getElem?_of_mem hb
  cases b with
  | none => simp
  | some p =>
    obtain ⟨c', k⟩ := p
    simp only [beq_iff_eq]
    intro hc
    subst hc
    exact h r k hr

theorem binders_pos (s : St) (r c : Nat) (k : Kind) (h : s.bnd[r]? = some (some (c, k))) :
    0 < binders s c := by
  unfold binders
  rw [List.countP_pos_iff]
  exact ⟨some (c, k), List.mem_of_getElem? h, by simp⟩

theorem binders_release (s s' : St) (r c : Nat) (k : Kind) (hb : s'.bnd = s.bnd.set r none)
    (h : s.bnd[r]? = some (some (c, k))) (d : Nat) :
    binders s' d + (if c = d then 1 else 0) = binders s d := by
  rw [binders_def, binders_def, hb]
  have := countP_set_add (bpred d) s.bnd r none _ h
  simp only [bpred, beq_iff_eq, Bool.false_eq_true, if_false] at this
  omega

theorem binders_bind (s s' : St) (r c : Nat) (k : Kind) (hb : s'.bnd = s.bnd.set r (some (c, k)))
    (h : s.bnd[r]? = some none) (d : Nat) :
    binders s' d = binders s d + (if c = d then 1 else 0) := by
  rw [binders_def, binders_def, hb]
  have := countP_set_add (bpred d) s.bnd r (some (c, k)) _ h
  simp only [bpred, beq_iff_eq, Bool.false_eq_true, if_false] at this
  omega

/-! ### the slot operations, case by case -/

theorem slots_set (arrs : List (List Nat)) (x : Nat) (a' : List Nat) (n : Nat)
    (h1 : ∀ (x : Nat) (a : List Nat) (i c : Nat), arrs[x]? = some a → a[i]? = some c → c < n)
    (h2 : ∀ (i c : Nat), a'[i]? = some c → c < n) :
    ∀ (x1 : Nat) (a : List Nat) (i c : Nat), (arrs.set x a')[x1]? = some a → a[i]? = some c → c < n := by
  intro x1 a i c hx hi
  rw [List.getElem?_set] at hx
  split at hx
  · split at hx
    · cases hx; exact h2 i c hi
    · cases hx
  · exact h1 x1 a i c hx hi

theorem slots_set_elem (a : List Nat) (i n m : Nat) (h1 : ∀ (j c : Nat), a[j]? = some c → c < m) (hn : n < m) :
    ∀ (j c : Nat), (a.set i n)[j]? = some c → c < m := by
  intro j c hj
  rw [List.getElem?_set] at hj
  split at hj
  · split at hj
    · cases hj; exact hn
    · cases hj
  · exact h1 j c hj

theorem ownSlot_some (s s1 : St) (x i c : Nat) (h : ownSlot s x i = some (s1, c)) :
    ∃ (a : List Nat) (c0 : Nat) (cl : Cell), s.arrs[x]? = some a ∧ a[i]? = some c0 ∧ s.heap[c0]? = some cl ∧
      ((0 < cl.cnt ∧ s1 = s ∧ c = c0) ∨
       (cl.cnt = 0 ∧ s1 = ⟨s.heap ++ [⟨cl.val, 0⟩], s.arrs.set x (a.set i s.heap.length), s.bnd⟩ ∧
         c = s.heap.length)) := by
  unfold ownSlot at h
  split at h
  · cases h
  · next a hx =>
    split at h
    · cases h
    · next c0 hi =>
      split at h
      · cases h
      · next cl hc =>
        refine ⟨a, c0, cl, hx, hi, hc, ?_⟩
        split at h
        · next hpos =>
          cases h
          exact Or.inl ⟨hpos, rfl, rfl⟩
        · next hpos =>
          cases h
          exact Or.inr ⟨by omega, rfl, rfl⟩

theorem ownSlot_none (s : St) (x i : Nat) (h : ownSlot s x i = none) :
    s.arrs[x]? = none ∨ (∃ a, s.arrs[x]? = some a ∧ a[i]? = none) ∨
      (∃ a c, s.arrs[x]? = some a ∧ a[i]? = some c ∧ s.heap[c]? = none) := by
  unfold ownSlot at h
  split at h
  · next hx => exact Or.inl hx
  · next a hx =>
    split at h
    · next hi => exact Or.inr (Or.inl ⟨a, hx, hi⟩)
    · next c0 hi =>
      split at h
      · next hc => exact Or.inr (Or.inr ⟨a, c0, hx, hi, hc⟩)
      · split at h <;> cases h

theorem storeSlot_some (s s1 : St) (x i : Nat) (v : Int) (h : storeSlot s x i v = some s1) :
    ∃ (a : List Nat) (c0 : Nat) (cl : Cell), s.arrs[x]? = some a ∧ a[i]? = some c0 ∧ s.heap[c0]? = some cl ∧
      ((0 < cl.cnt ∧ s1 = ⟨s.heap.set c0 ⟨v, cl.cnt⟩, s.arrs, s.bnd⟩) ∨
       (cl.cnt = 0 ∧ s1 = ⟨s.heap ++ [⟨v, 0⟩], s.arrs.set x (a.set i s.heap.length), s.bnd⟩)) := by
  unfold storeSlot at h
  split at h
  · cases h
  · next a hx =>
    split at h
    · cases h
    · next c0 hi =>
      split at h
      · cases h
      · next cl hc =>
        refine ⟨a, c0, cl, hx, hi, hc, ?_⟩
        split at h
        · next hpos =>
          cases h
          exact Or.inl ⟨hpos, rfl⟩
        · next hpos =>
          cases h
          exact Or.inr ⟨by omega, rfl⟩

theorem storeSlot_none (s : St) (x i : Nat) (v : Int) (h : storeSlot s x i v = none) :
    s.arrs[x]? = none ∨ (∃ a, s.arrs[x]? = some a ∧ a[i]? = none) ∨
      (∃ a c, s.arrs[x]? = some a ∧ a[i]? = some c ∧ s.heap[c]? = none) := by
  unfold storeSlot at h
  split at h
  · next hx => exact Or.inl hx
  · next a hx =>
    split at h
    · next hi => exact Or.inr (Or.inl ⟨a, hx, hi⟩)
    · next c0 hi =>
      split at h
      · next hc => exact Or.inr (Or.inr ⟨a, c0, hx, hi, hc⟩)
      · split at h <;> cases h

theorem release_unbound (cfg : Cfg) (s : St) (r : Nat) (h : s.bnd[r]? = some none) : release cfg s r = s := by
  unfold release; rw [h]

theorem release_bound (s : St) (r c : Nat) (k : Kind) (cl : Cell) (h : s.bnd[r]? = some (some (c, k)))
    (hc : s.heap[c]? = some cl) :
    release .counted s r = ⟨s.heap.set c ⟨cl.val, cl.cnt - 1⟩, s.arrs, s.bnd.set r none⟩ := by
  unfold release; rw [h]
  simp only [Cfg.counted, if_true]
  rw [decCnt_of_get _ _ _ hc]

theorem release_bnd_self (cfg : Cfg) (s : St) (r : Nat) (h : r < s.bnd.length) :
    (release cfg s r).bnd[r]? = some none := by
  unfold release
  split
  · simp only [List.getElem?_set, if_true, h]
  · next hn =>
    cases hb : s.bnd[r]? with
    | none =>
      have : s.bnd[r]? ≠ none := by simp; omega
      exact absurd hb this
    | some b =>
      cases b with
      | none => rfl
      | some p => exact absurd hb (hn p.1 p.2)

end Proofs.RefSlot
