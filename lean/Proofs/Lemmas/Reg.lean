import Model.Reg
/-! Helper lemmas for C10 on the sequential registry `Model.Reg`: bindings are
never removed or replaced by any call. -/
namespace Proofs.Reg
open Model.Reg

theorem look_append {α : Type} (m : List (Name × α)) (k : Name) (v : α) (n : Name) :
    look (m ++ [(k, v)]) n = match look m n with
      | some x => some x
      | none => if k = n then some v else none := by
  induction m with
  | nil => simp [look]
  | cons p rest ih =>
    obtain ⟨k', v'⟩ := p
    simp only [List.cons_append, look]
    split
    · rfl
    · exact ih

theorem look_append_some {α : Type} (m : List (Name × α)) (k : Name) (v x : α) (n : Name)
    (h : look m n = some x) : look (m ++ [(k, v)]) n = some x := by
  rw [look_append, h]

theorem look_append_new {α : Type} (m : List (Name × α)) (k : Name) (v : α)
    (h : look m k = none) : look (m ++ [(k, v)]) k = some v := by
  rw [look_append, h]; simp

/-- what a call can do to the five maps: each is unchanged or extended at the end -/
structure Ext (s s' : State) : Prop where
  classes : s'.classes = s.classes ∨ ∃ k v, s'.classes = s.classes ++ [(k, v)]
  ifaces : s'.ifaces = s.ifaces ∨ ∃ k v, s'.ifaces = s.ifaces ++ [(k, v)]
  funcs : s'.funcs = s.funcs ∨ ∃ k v, s'.funcs = s.funcs ++ [(k, v)]
  consts : s'.consts = s.consts ∨ ∃ k v, s'.consts = s.consts ++ [(k, v)]
  globals : s'.globals = s.globals ∨ ∃ k v, s'.globals = s.globals ++ [(k, v)]

theorem Ext.rfl' (s : State) : Ext s s := ⟨.inl rfl, .inl rfl, .inl rfl, .inl rfl, .inl rfl⟩

theorem step_ext (s : State) (op : Op) : Ext s (step s op).1 := by
  cases op with
  | addClass d =>
    simp only [step, addClass]
    split
    · split <;> exact Ext.rfl' s
    · split
      · split <;> exact Ext.rfl' s
      · exact ⟨.inr ⟨_, _, rfl⟩, .inl rfl, .inl rfl, .inl rfl, .inl rfl⟩
  | addIface d =>
    simp only [step, addIface]
    split
    · split <;> exact Ext.rfl' s
    · split
      · split <;> exact Ext.rfl' s
      · exact ⟨.inl rfl, .inr ⟨_, _, rfl⟩, .inl rfl, .inl rfl, .inl rfl⟩
  | addFunc n id =>
    simp only [step, addFunc]
    split
    · exact Ext.rfl' s
    · exact ⟨.inl rfl, .inl rfl, .inr ⟨_, _, rfl⟩, .inl rfl, .inl rfl⟩
  | setConst n v =>
    simp only [step, setConst]
    split
    · exact Ext.rfl' s
    · exact ⟨.inl rfl, .inl rfl, .inl rfl, .inr ⟨_, _, rfl⟩, .inl rfl⟩
  | ensureGlobal n =>
    simp only [step, ensureGlobal]
    split
    · exact Ext.rfl' s
    · exact ⟨.inl rfl, .inl rfl, .inl rfl, .inl rfl, .inr ⟨_, _, rfl⟩⟩
  | setFile f =>
    simp only [step, setFile]
    split
    · exact Ext.rfl' s
    · split
      · exact Ext.rfl' s
      · exact ⟨.inl rfl, .inl rfl, .inl rfl, .inl rfl, .inl rfl⟩
  | getClass n => exact Ext.rfl' s
  | getOrLoadClass n => exact Ext.rfl' s
  | getIface n => exact Ext.rfl' s
  | getOrLoadIface n => exact Ext.rfl' s
  | loadPkg n => exact Ext.rfl' s
  | lookPkg n => exact Ext.rfl' s
  | getFunc n => exact Ext.rfl' s
  | getConst n => exact Ext.rfl' s
  | getFile f => exact Ext.rfl' s

theorem look_of_ext {α : Type} (m m' : List (Name × α)) (h : m' = m ∨ ∃ k v, m' = m ++ [(k, v)])
    (n : Name) (x : α) (hl : look m n = some x) : look m' n = some x := by
  rcases h with h | ⟨k, v, h⟩
  · rw [h]; exact hl
  · rw [h]; exact look_append_some m k v x n hl

/-- bindings present in `s` are present, unchanged, after any further calls -/
structure Keeps (s s' : State) : Prop where
  classes : ∀ n x, look s.classes n = some x → look s'.classes n = some x
  ifaces : ∀ n x, look s.ifaces n = some x → look s'.ifaces n = some x
  funcs : ∀ n x, look s.funcs n = some x → look s'.funcs n = some x
  consts : ∀ n x, look s.consts n = some x → look s'.consts n = some x
  globals : ∀ n x, look s.globals n = some x → look s'.globals n = some x

theorem keeps_step (s : State) (op : Op) : Keeps s (step s op).1 :=
  have e := step_ext s op
  ⟨fun n x => look_of_ext _ _ e.classes n x, fun n x => look_of_ext _ _ e.ifaces n x,
   fun n x => look_of_ext _ _ e.funcs n x, fun n x => look_of_ext _ _ e.consts n x,
   fun n x => look_of_ext _ _ e.globals n x⟩

theorem keeps_run (s : State) (ops : List Op) : Keeps s (runOps s ops) := by
  induction ops generalizing s with
  | nil => exact ⟨fun _ _ h => h, fun _ _ h => h, fun _ _ h => h, fun _ _ h => h, fun _ _ h => h⟩
  | cons op rest ih =>
    have h1 := keeps_step s op
    have h2 := ih (step s op).1
    simp only [runOps, List.foldl] at h2 ⊢
    exact ⟨fun n x h => h2.classes n x (h1.classes n x h), fun n x h => h2.ifaces n x (h1.ifaces n x h),
      fun n x h => h2.funcs n x (h1.funcs n x h), fun n x h => h2.consts n x (h1.consts n x h),
      fun n x h => h2.globals n x (h1.globals n x h)⟩

/-- a call that is not a write leaves the registry as it is -/
theorem step_read (s : State) (op : Op) (h : op.writes = false) : (step s op).1 = s := by
  cases op <;> simp [Op.writes] at h <;> rfl

end Proofs.Reg
