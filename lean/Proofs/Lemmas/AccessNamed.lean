import Model.ArgNames
import Proofs.Lemmas.AccessPos
/-!
# C07 — lemmas about `resolveNamedArguments` (`Model.ArgNames`)

What a parameter receives (`recv`) after one more named argument is placed; placing two named arguments commutes
up to `recv`; hence any permutation of the named arguments of a call yields the same binding or is refused as well.
-/
namespace Proofs.AccessNamed
open Model.Types Model.ArgNames
open Model.Access (Name)

/-- two resolved argument lists hand every parameter the same thing -/
def Same (o₁ o₂ : List (Option ArgV)) : Prop := ∀ i, recv o₁ i = recv o₂ i

theorem Same.rfl' (o : List (Option ArgV)) : Same o o := fun _ => rfl
theorem Same.symm' {o₁ o₂ : List (Option ArgV)} (h : Same o₁ o₂) : Same o₂ o₁ := fun i => (h i).symm
theorem Same.trans' {o₁ o₂ o₃ : List (Option ArgV)} (h : Same o₁ o₂) (h' : Same o₂ o₃) : Same o₁ o₃ :=
  fun i => (h i).trans (h' i)

/-- padding with placeholders changes nothing a parameter receives -/
theorem recv_pad (out : List (Option ArgV)) (k i : Nat) :
    recv (out ++ List.replicate k none) i = recv out i := by
  unfold recv
  by_cases h : i < out.length
  · rw [List.getElem?_append_left h]
  · have hle : out.length ≤ i := Nat.le_of_not_lt h
    rw [List.getElem?_append_right hle, List.getElem?_eq_none hle]
    rw [List.getElem?_replicate]
    by_cases hk : i - out.length < k <;> simp [hk]

theorem recv_none_of_len {out : List (Option ArgV)} {i : Nat} (h : out.length ≤ i) : recv out i = none := by
  unfold recv
  rw [List.getElem?_eq_none h]

/-- the padded list is long enough: `out[idx]` never indexes out of range -/
theorem pad_len (out : List (Option ArgV)) (idx : Nat) :
    idx < (out ++ List.replicate (idx + 1 - out.length) none).length := by
  simp only [List.length_append, List.length_replicate]
  omega

/-- what is at `idx` in the padded list: the placeholder iff parameter `idx` has received nothing so far -/
theorem pad_at (out : List (Option ArgV)) (idx : Nat) :
    (out ++ List.replicate (idx + 1 - out.length) none)[idx]? =
      some (recv out idx) := by
  have hr := recv_pad out (idx + 1 - out.length) idx
  have hl := pad_len out idx
  unfold recv at hr
  rw [List.getElem?_eq_getElem hl] at hr ⊢
  cases hx : (out ++ List.replicate (idx + 1 - out.length) none)[idx] with
  | none =>
    rw [hx] at hr
    simp only at hr
    unfold recv
    rw [← hr]
  | some a =>
    rw [hx] at hr
    simp only at hr
    unfold recv
    rw [← hr]

/-- after `set idx (some a)`: parameter `idx` receives `a`, every other parameter what it received before -/
theorem recv_set (out : List (Option ArgV)) (idx : Nat) (a : ArgV) (h : idx < out.length) (i : Nat) :
    recv (out.set idx (some a)) i = if i = idx then some a else recv out i := by
  unfold recv
  rw [List.getElem?_set]
  by_cases hi : idx = i
  · subst hi
    simp [h]
  · have : ¬ i = idx := fun e => hi e.symm
    simp [hi, this]

/-- **placing a named argument**: refused when the name is unknown or the parameter has received an argument
already; otherwise the parameter it names receives it and nothing else changes. `crash` never. -/
theorem place_named (names : List PName) (out : List (Option ArgV)) (n : PName) (a : ArgV) :
    (indexOf n names = none ∧ place names out (.named n a) = .error (.unknown n)) ∨
    (∃ idx b, indexOf n names = some idx ∧ recv out idx = some b ∧
        place names out (.named n a) = .error (.duplicate n)) ∨
    (∃ idx o, indexOf n names = some idx ∧ recv out idx = none ∧ place names out (.named n a) = .ok o ∧
        ∀ i, recv o i = if i = idx then some a else recv out i) := by
  cases hi : indexOf n names with
  | none => exact .inl ⟨rfl, by simp [place, hi]⟩
  | some idx =>
    right
    have hp : place names out (.named n a) = placeAt out n a idx := by simp [place, hi]
    rw [hp]
    unfold placeAt
    rw [pad_at out idx]
    cases hr : recv out idx with
    | some b => exact .inl ⟨idx, b, rfl, hr, rfl⟩
    | none =>
      refine .inr ⟨idx, _, rfl, hr, rfl, ?_⟩
      intro i
      rw [recv_set _ idx a (pad_len out idx) i, recv_pad]

theorem place_no_crash (names : List PName) (out : List (Option ArgV)) (c : CallArg) :
    place names out c ≠ .error .crash := by
  cases c with
  | pos a => simp [place]
  | named n a =>
    rcases place_named names out n a with ⟨_, h⟩ | ⟨_, _, _, _, h⟩ | ⟨_, _, _, _, h, _⟩ <;> simp [h]

/-- `place` of a named argument looks at what the parameters received only -/
theorem place_named_congr (names : List PName) (o₁ o₂ : List (Option ArgV)) (hs : Same o₁ o₂) (n : PName) (a : ArgV) :
    (∃ e₁ e₂, place names o₁ (.named n a) = .error e₁ ∧ place names o₂ (.named n a) = .error e₂) ∨
    (∃ r₁ r₂, place names o₁ (.named n a) = .ok r₁ ∧ place names o₂ (.named n a) = .ok r₂ ∧ Same r₁ r₂) := by
  rcases place_named names o₁ n a with ⟨hi, h⟩ | ⟨idx, b, hi, hr, h⟩ | ⟨idx, r₁, hi, hr, h, hrecv⟩
  · rcases place_named names o₂ n a with ⟨_, h'⟩ | ⟨idx', _, hi', _, _⟩ | ⟨idx', _, hi', _, _, _⟩
    · exact .inl ⟨_, _, h, h'⟩
    · rw [hi] at hi'; cases hi'
    · rw [hi] at hi'; cases hi'
  · rcases place_named names o₂ n a with ⟨hi', _⟩ | ⟨idx', _, hi', _, h'⟩ | ⟨idx', _, hi', hr', _, _⟩
    · rw [hi] at hi'; cases hi'
    · exact .inl ⟨_, _, h, h'⟩
    · rw [hi] at hi'; cases hi'
      rw [hs idx, hr'] at hr; cases hr
  · rcases place_named names o₂ n a with ⟨hi', _⟩ | ⟨idx', b, hi', hr', _⟩ | ⟨idx', r₂, hi', _, h', hrecv'⟩
    · rw [hi] at hi'; cases hi'
    · rw [hi] at hi'; cases hi'
      rw [hs idx, hr'] at hr; cases hr
    · rw [hi] at hi'; cases hi'
      refine .inr ⟨r₁, r₂, h, h', ?_⟩
      intro i
      rw [hrecv i, hrecv' i, hs i]

/-- the rest of the loop over named arguments respects `Same` -/
def Agree (x y : Except ResErr (List (Option ArgV))) : Prop :=
  (∃ e₁ e₂, x = .error e₁ ∧ y = .error e₂) ∨ (∃ r₁ r₂, x = .ok r₁ ∧ y = .ok r₂ ∧ Same r₁ r₂)

theorem Agree.trans' {x y z : Except ResErr (List (Option ArgV))} (h : Agree x y) (h' : Agree y z) : Agree x z := by
  rcases h with ⟨e₁, e₂, hx, hy⟩ | ⟨r₁, r₂, hx, hy, hs⟩
  · rcases h' with ⟨e₃, e₄, hy', hz⟩ | ⟨r₃, r₄, hy', _, _⟩
    · exact .inl ⟨e₁, e₄, hx, hz⟩
    · rw [hy] at hy'; cases hy'
  · rcases h' with ⟨e₃, e₄, hy', _⟩ | ⟨r₃, r₄, hy', hz, hs'⟩
    · rw [hy] at hy'; cases hy'
    · rw [hy] at hy'; cases hy'
      exact .inr ⟨r₁, r₄, hx, hz, hs.trans' hs'⟩

/-- the named arguments of a call -/
def mkNamed (l : List (PName × ArgV)) : List CallArg := l.map fun p => .named p.1 p.2

theorem resolveFrom_congr (names : List PName) :
    ∀ (l : List (PName × ArgV)) (o₁ o₂ : List (Option ArgV)), Same o₁ o₂ →
      Agree (resolveFrom names o₁ (mkNamed l)) (resolveFrom names o₂ (mkNamed l))
  | [], o₁, o₂, hs => .inr ⟨o₁, o₂, rfl, rfl, hs⟩
  | (n, a) :: r, o₁, o₂, hs => by
    simp only [mkNamed, List.map_cons, resolveFrom]
    rcases place_named_congr names o₁ o₂ hs n a with ⟨e₁, e₂, h₁, h₂⟩ | ⟨r₁, r₂, h₁, h₂, hs'⟩
    · rw [h₁, h₂]; exact .inl ⟨e₁, e₂, rfl, rfl⟩
    · rw [h₁, h₂]; exact resolveFrom_congr names r r₁ r₂ hs'

/-- **two named arguments commute**: placed in either order they are refused both ways, or every parameter
receives the same thing both ways -/
theorem place_swap (names : List PName) (out : List (Option ArgV)) (n₁ n₂ : PName) (a₁ a₂ : ArgV) :
    Agree (resolveFrom names out [.named n₁ a₁, .named n₂ a₂]) (resolveFrom names out [.named n₂ a₂, .named n₁ a₁]) := by
  simp only [resolveFrom]
  rcases place_named names out n₁ a₁ with ⟨hi₁, h₁⟩ | ⟨i₁, b₁, hi₁, hr₁, h₁⟩ | ⟨i₁, r₁, hi₁, hr₁, h₁, hv₁⟩
  · -- n₁ unknown: refused first, or second
    rw [h₁]
    rcases place_named names out n₂ a₂ with ⟨_, h₂⟩ | ⟨_, _, _, _, h₂⟩ | ⟨i₂, r₂, _, _, h₂, _⟩
    · rw [h₂]; exact .inl ⟨_, _, rfl, rfl⟩
    · rw [h₂]; exact .inl ⟨_, _, rfl, rfl⟩
    · rw [h₂]
      simp only
      rcases place_named names r₂ n₁ a₁ with ⟨_, h⟩ | ⟨_, _, hi, _, _⟩ | ⟨_, _, hi, _, _, _⟩
      · rw [h]; exact .inl ⟨_, _, rfl, rfl⟩
      · rw [hi₁] at hi; cases hi
      · rw [hi₁] at hi; cases hi
  · -- n₁'s parameter is taken already
    rw [h₁]
    rcases place_named names out n₂ a₂ with ⟨_, h₂⟩ | ⟨_, _, _, _, h₂⟩ | ⟨i₂, r₂, _, _, h₂, hv₂⟩
    · rw [h₂]; exact .inl ⟨_, _, rfl, rfl⟩
    · rw [h₂]; exact .inl ⟨_, _, rfl, rfl⟩
    · rw [h₂]
      simp only
      rcases place_named names r₂ n₁ a₁ with ⟨hi, _⟩ | ⟨_, _, _, _, h⟩ | ⟨j, _, hi, hr, _, _⟩
      · rw [hi₁] at hi; cases hi
      · rw [h]; exact .inl ⟨_, _, rfl, rfl⟩
      · rw [hi₁] at hi; cases hi
        rw [hv₂ i₁] at hr
        split at hr
        · cases hr
        · rw [hr₁] at hr; cases hr
  · rw [h₁]
    simp only
    rcases place_named names out n₂ a₂ with ⟨hi₂, h₂⟩ | ⟨i₂, b₂, hi₂, hr₂, h₂⟩ | ⟨i₂, r₂, hi₂, hr₂, h₂, hv₂⟩
    · rw [h₂]
      rcases place_named names r₁ n₂ a₂ with ⟨_, h⟩ | ⟨_, _, hi, _, _⟩ | ⟨_, _, hi, _, _, _⟩
      · rw [h]; exact .inl ⟨_, _, rfl, rfl⟩
      · rw [hi₂] at hi; cases hi
      · rw [hi₂] at hi; cases hi
    · rw [h₂]
      rcases place_named names r₁ n₂ a₂ with ⟨hi, _⟩ | ⟨_, _, _, _, h⟩ | ⟨j, _, hi, hr, _, _⟩
      · rw [hi₂] at hi; cases hi
      · rw [h]; exact .inl ⟨_, _, rfl, rfl⟩
      · rw [hi₂] at hi; cases hi
        rw [hv₁ i₂] at hr
        split at hr
        · cases hr
        · rw [hr₂] at hr; cases hr
    · rw [h₂]
      simp only
      by_cases he : i₁ = i₂
      · -- both name the same parameter: the second one is refused, whichever it is
        subst he
        rcases place_named names r₁ n₂ a₂ with ⟨hi, _⟩ | ⟨_, _, _, _, h⟩ | ⟨j, _, hi, hr, _, _⟩
        · rw [hi₂] at hi; cases hi
        · rw [h]
          rcases place_named names r₂ n₁ a₁ with ⟨hi', _⟩ | ⟨_, _, _, _, h'⟩ | ⟨j', _, hi', hr', _, _⟩
          · rw [hi₁] at hi'; cases hi'
          · rw [h']; exact .inl ⟨_, _, rfl, rfl⟩
          · rw [hi₁] at hi'; cases hi'
            rw [hv₂ i₁] at hr'
            simp at hr'
        · rw [hi₂] at hi; cases hi
          rw [hv₁ i₁] at hr
          simp at hr
      · rcases place_named names r₁ n₂ a₂ with ⟨hi, _⟩ | ⟨j, b, hi, hr, _⟩ | ⟨j, s₁, hi, _, h, hw₁⟩
        · rw [hi₂] at hi; cases hi
        · rw [hi₂] at hi; cases hi
          rw [hv₁ i₂] at hr
          have : ¬ i₂ = i₁ := fun e => he e.symm
          simp only [this, if_false] at hr
          rw [hr₂] at hr; cases hr
        · rw [hi₂] at hi; cases hi
          rw [h]
          rcases place_named names r₂ n₁ a₁ with ⟨hi', _⟩ | ⟨j', b', hi', hr', _⟩ | ⟨j', s₂, hi', _, h', hw₂⟩
          · rw [hi₁] at hi'; cases hi'
          · rw [hi₁] at hi'; cases hi'
            rw [hv₂ i₁] at hr'
            simp only [he, if_false] at hr'
            rw [hr₁] at hr'; cases hr'
          · rw [hi₁] at hi'; cases hi'
            rw [h']
            refine .inr ⟨s₁, s₂, rfl, rfl, ?_⟩
            intro i
            rw [hw₁ i, hw₂ i, hv₁ i, hv₂ i]
            by_cases e₁ : i = i₁
            · subst e₁
              simp [he]
            · by_cases e₂ : i = i₂
              · subst e₂
                simp [e₁]
              · simp [e₁, e₂]

theorem resolveFrom_cons (names : List PName) (out : List (Option ArgV)) (c : CallArg) (r : List CallArg) :
    resolveFrom names out (c :: r) =
      (match place names out c with | .ok o => resolveFrom names o r | .error e => .error e) := rfl

/-- the loop over a list is the loop over its first part, then over the rest -/
theorem resolveFrom_append (names : List PName) :
    ∀ (l₁ l₂ : List CallArg) (out : List (Option ArgV)),
      resolveFrom names out (l₁ ++ l₂) =
        (match resolveFrom names out l₁ with | .ok o => resolveFrom names o l₂ | .error e => .error e)
  | [], l₂, out => rfl
  | c :: r, l₂, out => by
    simp only [List.cons_append, resolveFrom]
    cases place names out c with
    | error e => rfl
    | ok o => exact resolveFrom_append names r l₂ o

/-- **any permutation of the named arguments**: refused both ways, or every parameter receives the same thing -/
theorem resolveFrom_perm (names : List PName) {l₁ l₂ : List (PName × ArgV)} (hp : l₁.Perm l₂) :
    ∀ (o₁ o₂ : List (Option ArgV)), Same o₁ o₂ →
      Agree (resolveFrom names o₁ (mkNamed l₁)) (resolveFrom names o₂ (mkNamed l₂)) := by
  induction hp with
  | nil => intro o₁ o₂ hs; exact .inr ⟨o₁, o₂, rfl, rfl, hs⟩
  | cons x _ ih =>
    intro o₁ o₂ hs
    obtain ⟨n, a⟩ := x
    simp only [mkNamed, List.map_cons, resolveFrom]
    rcases place_named_congr names o₁ o₂ hs n a with ⟨e₁, e₂, h₁, h₂⟩ | ⟨r₁, r₂, h₁, h₂, hs'⟩
    · rw [h₁, h₂]; exact .inl ⟨e₁, e₂, rfl, rfl⟩
    · rw [h₁, h₂]; exact ih r₁ r₂ hs'
  | swap x y l =>
    intro o₁ o₂ hs
    obtain ⟨n₁, a₁⟩ := x
    obtain ⟨n₂, a₂⟩ := y
    -- first the two in front (swapped, from the same list), then the common rest from `Same` lists
    have hsw := place_swap names o₁ n₂ n₁ a₂ a₁
    have e₁ : mkNamed ((n₂, a₂) :: (n₁, a₁) :: l) = [CallArg.named n₂ a₂, .named n₁ a₁] ++ mkNamed l := rfl
    have e₂ : mkNamed ((n₁, a₁) :: (n₂, a₂) :: l) = [CallArg.named n₁ a₁, .named n₂ a₂] ++ mkNamed l := rfl
    rw [e₁, e₂, resolveFrom_append, resolveFrom_append]
    have hcg := resolveFrom_congr names [(n₁, a₁), (n₂, a₂)] o₁ o₂ hs
    have hboth : Agree (resolveFrom names o₁ [.named n₂ a₂, .named n₁ a₁]) (resolveFrom names o₂ [.named n₁ a₁, .named n₂ a₂]) :=
      hsw.trans' hcg
    rcases hboth with ⟨e₁, e₂, h₁, h₂⟩ | ⟨r₁, r₂, h₁, h₂, hs'⟩
    · rw [h₁, h₂]; exact .inl ⟨e₁, e₂, rfl, rfl⟩
    · rw [h₁, h₂]; exact resolveFrom_congr names l r₁ r₂ hs'
  | trans _ _ ih₁ ih₂ =>
    intro o₁ o₂ hs
    exact (ih₁ o₁ o₂ hs).trans' (ih₂ o₂ o₂ (Same.rfl' o₂))

/-- a call without names: the arguments stay where they are (`hasNamedArgument` returns the list untouched) -/
theorem resolveFrom_positional (names : List PName) :
    ∀ (l : List ArgV) (out : List (Option ArgV)),
      resolveFrom names out (l.map .pos) = .ok (out ++ l.map some)
  | [], out => by simp [resolveFrom]
  | a :: r, out => by
    simp only [List.map_cons, resolveFrom, place]
    rw [resolveFrom_positional names r (out ++ [some a])]
    simp

/-- the slots depend on what the parameters receive only -/
theorem slotsFrom_congr (isA : Name → Name → Bool) (o₁ o₂ : List (Option ArgV)) (hs : Same o₁ o₂) :
    ∀ (ps : List Param) (i : Nat), slotsFrom isA o₁ i ps = slotsFrom isA o₂ i ps
  | [], _ => rfl
  | p :: r, i => by
    simp only [slotsFrom]
    rw [hs i, slotsFrom_congr isA o₁ o₂ hs r (i+1)]

/-- membership in the slots: the slot of the `j`-th parameter -/
theorem slotsFrom_getElem (isA : Name → Name → Bool) (out : List (Option ArgV)) :
    ∀ (ps : List Param) (i j : Nat),
      (slotsFrom isA out i ps)[j]? = (ps[j]?).map fun p => slotOf isA p (recv out (i + j))
  | [], _, _ => by simp [slotsFrom]
  | p :: r, i, 0 => by simp [slotsFrom]
  | p :: r, i, j+1 => by
    simp only [slotsFrom, List.getElem?_cons_succ]
    rw [slotsFrom_getElem isA out r (i+1) j]
    have : i + 1 + j = i + (j + 1) := by omega
    rw [this]

/-- when is the slot of a parameter fine: it received a value its boundary lets in; or it received nothing and
has a default, or accepts `null` -/
theorem slotOf_fine (isA : Name → Name → Bool) (p : Param) (x : Option ArgV) :
    (slotOf isA p x).fine isA = true ↔
      match x with
      | some (.val v) => admits isA p.k p.t v = true
      | some .throws => False
      | none => p.dflt.isSome = true ∨ admits isA p.k p.t .null = true := by
  cases x with
  | some a =>
    cases a with
    | val v => simp [slotOf, Slot.fine]
    | throws => simp [slotOf, Slot.fine]
  | none =>
    simp only [slotOf]
    cases hd : p.dflt with
    | some d => simp [Slot.fine, admits]
    | none =>
      by_cases hn : admits isA p.k p.t .null = true
      · simp [hn, Slot.fine]
      · simp [hn, Slot.fine]

/-- the loop never indexes out of range -/
theorem resolveFrom_no_crash (names : List PName) :
    ∀ (args : List CallArg) (out : List (Option ArgV)), resolveFrom names out args ≠ .error .crash
  | [], out => by simp [resolveFrom]
  | c :: r, out => by
    rw [resolveFrom_cons]
    cases hp : place names out c with
    | error e =>
      simp only
      intro h
      cases h
      exact place_no_crash names out c hp
    | ok o => exact resolveFrom_no_crash names r o

/-- an argument that names no parameter: the call is refused, wherever the argument stands -/
theorem resolveFrom_unknown (names : List PName) :
    ∀ (args : List CallArg) (out : List (Option ArgV)) (n : PName) (a : ArgV),
      CallArg.named n a ∈ args → indexOf n names = none → ∃ e, resolveFrom names out args = .error e
  | [], _, _, _, hm, _ => by cases hm
  | c :: r, out, n, a, hm, hi => by
    rw [resolveFrom_cons]
    cases hp : place names out c with
    | error e => exact ⟨e, rfl⟩
    | ok o =>
      simp only
      rcases List.mem_cons.mp hm with h | h
      · subst h
        simp [place, hi] at hp
      · exact resolveFrom_unknown names r o n a h hi

/-- what a parameter has received it keeps -/
theorem place_keeps (names : List PName) (out o : List (Option ArgV)) (c : CallArg) (hp : place names out c = .ok o)
    (i : Nat) (b : ArgV) (h : recv out i = some b) : recv o i = some b := by
  cases c with
  | pos a =>
    have hlt : i < out.length := by
      apply Nat.lt_of_not_le
      intro hc
      rw [recv_none_of_len hc] at h
      cases h
    have ho : o = out ++ [some a] := by
      simp only [place] at hp
      cases hp
      rfl
    subst ho
    unfold recv at h ⊢
    rw [List.getElem?_append_left hlt]
    exact h
  | named n a =>
    rcases place_named names out n a with ⟨_, he⟩ | ⟨_, _, _, _, he⟩ | ⟨idx, o', _, hr, he, hv⟩
    · rw [he] at hp; cases hp
    · rw [he] at hp; cases hp
    · rw [he] at hp
      cases hp
      rw [hv i]
      by_cases e : i = idx
      · subst e
        rw [hr] at h
        cases h
      · simp [e, h]

/-- an argument that names a parameter which has received an argument already: the call is refused, wherever
the argument stands in the rest of the list -/
theorem resolveFrom_taken (names : List PName) :
    ∀ (args : List CallArg) (out : List (Option ArgV)) (idx : Nat) (b : ArgV) (n : PName) (a : ArgV),
      recv out idx = some b → CallArg.named n a ∈ args → indexOf n names = some idx →
        ∃ e, resolveFrom names out args = .error e
  | [], _, _, _, _, _, _, hm, _ => by cases hm
  | c :: r, out, idx, b, n, a, hr, hm, hi => by
    rw [resolveFrom_cons]
    cases hp : place names out c with
    | error e => exact ⟨e, rfl⟩
    | ok o =>
      simp only
      rcases List.mem_cons.mp hm with h | h
      · subst h
        rcases place_named names out n a with ⟨hi', _⟩ | ⟨_, _, _, _, he⟩ | ⟨idx', _, hi', hr', _, _⟩
        · rw [hi] at hi'; cases hi'
        · rw [he] at hp; cases hp
        · rw [hi] at hi'; cases hi'
          rw [hr] at hr'; cases hr'
      · exact resolveFrom_taken names r o idx b n a (place_keeps names out o c hp idx b hr) h hi

/-- what the parameters receive from positional arguments: the `i`-th one -/
theorem recv_positional (l : List ArgV) (i : Nat) : recv (l.map some) i = l[i]? := by
  unfold recv
  rw [List.getElem?_map]
  cases l[i]? <;> rfl

end Proofs.AccessNamed
