import Model.Split
/-! Invariant of Model.Split under the one-lock discipline. -/
namespace Model.Split

@[simp] theorem upd_same {α : Type} (f : Nat → α) (k : Nat) (v : α) : upd f k v k = v := by simp [upd]
theorem upd_other {α : Type} (f : Nat → α) (k : Nat) (v : α) {x : Nat} (h : x ≠ k) : upd f k v x = f x := by
  simp [upd, h]

structure Inv (ℓ : Lock) (s : State) : Prop where
  disc : ∀ t sec, sec ∈ s.prog t → sec.lk = ℓ
  own : ∀ t, s.pc t ≠ .idle → s.owner ℓ = some t
  hheld : ∀ t sec, s.pc t = .held sec → sec.lk = ℓ
  hchk : ∀ t sec seen, s.pc t = .checked sec seen → sec.lk = ℓ ∧ s.store sec.name = seen
  hdone : ∀ t sec r, s.pc t = .done sec r → sec.lk = ℓ ∧ s.store sec.name = some r
  logged : ∀ e ∈ s.log, s.store e.1 = some e.2

theorem inv_init (ℓ : Lock) (prog : Tid → List Sec) (h : ∀ t sec, sec ∈ prog t → sec.lk = ℓ) : Inv ℓ (init prog) where
  disc := h
  own := by intro t ht; simp [init] at ht
  hheld := by intro t sec ht; simp [init] at ht
  hchk := by intro t sec seen ht; simp [init] at ht
  hdone := by intro t sec r ht; simp [init] at ht
  logged := by intro e he; simp [init] at he

/-- mutual exclusion: while `t` is inside a section every other goroutine is idle -/
theorem others_idle {ℓ : Lock} {s : State} (inv : Inv ℓ s) {t t' : Tid} (ht : s.pc t ≠ .idle) (hne : t' ≠ t) :
    s.pc t' = .idle := by
  by_cases h : s.pc t' = .idle
  · exact h
  · have h1 := inv.own t ht
    have h2 := inv.own t' h
    rw [h1] at h2
    exact absurd (Option.some.inj h2).symm hne

theorem inv_step {ℓ : Lock} {s : State} (inv : Inv ℓ s) (t : Tid) : Inv ℓ (step s t) := by
  cases hpc : s.pc t with
  | idle =>
    cases hpr : s.prog t with
    | nil => simp [step, hpc, hpr]; exact inv
    | cons sec more =>
      have hl : sec.lk = ℓ := inv.disc t sec (by simp [hpr])
      by_cases hfree : s.owner sec.lk = none
      · have allidle : ∀ t', s.pc t' = .idle := by
          intro t'
          by_cases h : s.pc t' = .idle
          · exact h
          · have := inv.own t' h; rw [hl] at hfree; rw [hfree] at this; cases this
        simp only [step, hpc, hpr, hfree, if_true]
        refine ⟨?_, ?_, ?_, ?_, ?_, ?_⟩
        · intro t' sec' hm
          by_cases e : t' = t
          · subst e; simp at hm; exact inv.disc t' sec' (by simp [hpr, hm])
          · simp [upd_other _ _ _ e] at hm; exact inv.disc t' sec' hm
        · intro t' hn
          by_cases e : t' = t
          · subst e; simp [hl]
          · simp [upd_other _ _ _ e, allidle t'] at hn
        · intro t' sec' h
          by_cases e : t' = t
          · subst e; simp at h; subst h; exact hl
          · simp [upd_other _ _ _ e, allidle t'] at h
        · intro t' sec' seen h
          by_cases e : t' = t
          · subst e; simp at h
          · simp [upd_other _ _ _ e, allidle t'] at h
        · intro t' sec' r h
          by_cases e : t' = t
          · subst e; simp at h
          · simp [upd_other _ _ _ e, allidle t'] at h
        · exact inv.logged
      · simp [step, hpc, hpr, hfree]; exact inv
  | held sec =>
    have hn : s.pc t ≠ .idle := by simp [hpc]
    have hl := inv.hheld t sec hpc
    simp only [step, hpc]
    refine ⟨inv.disc, ?_, ?_, ?_, ?_, inv.logged⟩
    · intro t' hn'
      by_cases e : t' = t
      · subst e; exact inv.own t' hn
      · simp [upd_other _ _ _ e, others_idle inv hn e] at hn'
    · intro t' sec' h
      by_cases e : t' = t
      · subst e; simp at h
      · simp [upd_other _ _ _ e, others_idle inv hn e] at h
    · intro t' sec' seen h
      by_cases e : t' = t
      · subst e; simp at h; obtain ⟨h1, h2⟩ := h; subst h1; exact ⟨hl, h2⟩
      · simp [upd_other _ _ _ e, others_idle inv hn e] at h
    · intro t' sec' r h
      by_cases e : t' = t
      · subst e; simp at h
      · simp [upd_other _ _ _ e, others_idle inv hn e] at h
  | checked sec seen =>
    have hn : s.pc t ≠ .idle := by simp [hpc]
    obtain ⟨hl, hst⟩ := inv.hchk t sec seen hpc
    cases seen with
    | none =>
      simp only [step, hpc]
      refine ⟨inv.disc, ?_, ?_, ?_, ?_, ?_⟩
      · intro t' hn'
        by_cases e : t' = t
        · subst e; exact inv.own t' hn
        · simp [upd_other _ _ _ e, others_idle inv hn e] at hn'
      · intro t' sec' h
        by_cases e : t' = t
        · subst e; simp at h
        · simp [upd_other _ _ _ e, others_idle inv hn e] at h
      · intro t' sec' seen' h
        by_cases e : t' = t
        · subst e; simp at h
        · simp [upd_other _ _ _ e, others_idle inv hn e] at h
      · intro t' sec' r h
        by_cases e : t' = t
        · subst e; simp at h; obtain ⟨h1, h2⟩ := h; subst h1; subst h2; exact ⟨hl, by simp⟩
        · simp [upd_other _ _ _ e, others_idle inv hn e] at h
      · intro e he
        have := inv.logged e he
        have hne : e.1 ≠ sec.name := by
          intro heq; rw [heq, hst] at this; cases this
        simp [upd_other _ _ _ hne, this]
    | some w =>
      simp only [step, hpc]
      refine ⟨inv.disc, ?_, ?_, ?_, ?_, inv.logged⟩
      · intro t' hn'
        by_cases e : t' = t
        · subst e; exact inv.own t' hn
        · simp [upd_other _ _ _ e, others_idle inv hn e] at hn'
      · intro t' sec' h
        by_cases e : t' = t
        · subst e; simp at h
        · simp [upd_other _ _ _ e, others_idle inv hn e] at h
      · intro t' sec' seen' h
        by_cases e : t' = t
        · subst e; simp at h
        · simp [upd_other _ _ _ e, others_idle inv hn e] at h
      · intro t' sec' r h
        by_cases e : t' = t
        · subst e; simp at h; obtain ⟨h1, h2⟩ := h; subst h1; subst h2; exact ⟨hl, hst⟩
        · simp [upd_other _ _ _ e, others_idle inv hn e] at h
  | done sec r =>
    have hn : s.pc t ≠ .idle := by simp [hpc]
    obtain ⟨hl, hst⟩ := inv.hdone t sec r hpc
    simp only [step, hpc]
    refine ⟨inv.disc, ?_, ?_, ?_, ?_, ?_⟩
    · intro t' hn'
      by_cases e : t' = t
      · subst e; simp at hn'
      · simp [upd_other _ _ _ e, others_idle inv hn e] at hn'
    · intro t' sec' h
      by_cases e : t' = t
      · subst e; simp at h
      · simp [upd_other _ _ _ e, others_idle inv hn e] at h
    · intro t' sec' seen' h
      by_cases e : t' = t
      · subst e; simp at h
      · simp [upd_other _ _ _ e, others_idle inv hn e] at h
    · intro t' sec' r' h
      by_cases e : t' = t
      · subst e; simp at h
      · simp [upd_other _ _ _ e, others_idle inv hn e] at h
    · intro e he
      simp at he
      rcases he with rfl | he
      · exact hst
      · exact inv.logged e he

theorem inv_run {ℓ : Lock} (sched : List Tid) : ∀ {s : State}, Inv ℓ s → Inv ℓ (run s sched) := by
  induction sched with
  | nil => intro s h; exact h
  | cons t ts ih => intro s h; exact ih (inv_step h t)

/-- under the discipline a binding, once made, is never replaced -/
theorem store_stable {ℓ : Lock} {s : State} (inv : Inv ℓ s) (t : Tid) {n : Name} {v : Val}
    (h : s.store n = some v) : (step s t).store n = some v := by
  cases hpc : s.pc t with
  | idle =>
    cases hpr : s.prog t with
    | nil => simp [step, hpc, hpr, h]
    | cons sec more =>
      by_cases hfree : s.owner sec.lk = none <;> simp [step, hpc, hpr, hfree, h]
  | held sec => simp [step, hpc, h]
  | checked sec seen =>
    cases seen with
    | none =>
      have hst := (inv.hchk t sec none hpc).2
      have hne : n ≠ sec.name := by intro e; rw [e, hst] at h; cases h
      simp [step, hpc, upd_other _ _ _ hne, h]
    | some w => simp [step, hpc, h]
  | done sec r => simp [step, hpc, h]

theorem store_stable_run {ℓ : Lock} (sched : List Tid) : ∀ {s : State}, Inv ℓ s → ∀ {n : Name} {v : Val},
    s.store n = some v → (run s sched).store n = some v := by
  induction sched with
  | nil => intro s _ n v h; exact h
  | cons t ts ih => intro s inv n v h; exact ih (inv_step inv t) (store_stable inv t h)

end Model.Split
