/-!
Lemmas for C20 (ii): order-independence patterns of loops over a Go map.

`for k, v := range m` visits the entries of `m` in an order the runtime picks anew on every
execution. The adversary is modelled as *any permutation*: a loop is order independent when its
result is the same for every two lists `l₁ ~ l₂` (`List.Perm`) of the same entries.
-/
namespace Proofs.Pattern

variable {α β : Type}

/-- a left fold whose steps commute pairwise on the visited entries gives the same result for
every order of the entries -/
theorem foldl_perm (f : β → α → β) {l₁ l₂ : List α} (hp : l₁.Perm l₂) :
    ∀ (b : β), (∀ x ∈ l₁, ∀ y ∈ l₁, ∀ s, f (f s x) y = f (f s y) x) → l₁.foldl f b = l₂.foldl f b := by
  induction hp with
  | nil => intro b _; rfl
  | cons x _ ih =>
    intro b hc
    simp only [List.foldl_cons]
    exact ih (f b x) (fun a ha c hc' s => hc a (List.mem_cons_of_mem _ ha) c (List.mem_cons_of_mem _ hc') s)
  | swap x y l =>
    intro b hc
    simp only [List.foldl_cons]
    rw [hc y (by simp) x (by simp) b]
  | trans h₁ _ ih₁ ih₂ =>
    intro b hc
    rw [ih₁ b hc]
    exact ih₂ b (fun a ha c hc' s => hc a (h₁.mem_iff.2 ha) c (h₁.mem_iff.2 hc') s)

/-- two sorted arrangements of the same entries are the same list when the order is
antisymmetric on them (a total key without ties) -/
theorem sorted_perm_unique {le : α → α → Prop} {l₁ l₂ r₁ r₂ : List α}
    (hanti : ∀ a b, a ∈ l₁ → b ∈ l₁ → le a b → le b a → a = b)
    (hp : l₁.Perm l₂) (h₁ : r₁.Perm l₁) (s₁ : r₁.Pairwise le) (h₂ : r₂.Perm l₂) (s₂ : r₂.Pairwise le) :
    r₁ = r₂ := by
  have hr : r₁.Perm r₂ := h₁.trans (hp.trans h₂.symm)
  apply List.Perm.eq_of_pairwise _ s₁ s₂ hr
  intro a b ha hb hab hba
  exact hanti a b (h₁.mem_iff.1 ha) (h₁.mem_iff.1 (hr.mem_iff.2 hb)) hab hba

/-- `find?` (first match, early exit) over entries of which at most one matches -/
theorem find?_perm_of_unique (p : α → Bool) {l₁ l₂ : List α} (hp : l₁.Perm l₂)
    (hu : ∀ a ∈ l₁, ∀ b ∈ l₁, p a = true → p b = true → a = b) : l₁.find? p = l₂.find? p := by
  induction hp with
  | nil => rfl
  | cons x _ ih =>
    simp only [List.find?_cons]
    cases p x with
    | true => rfl
    | false => exact ih (fun a ha b hb => hu a (List.mem_cons_of_mem _ ha) b (List.mem_cons_of_mem _ hb))
  | swap x y l =>
    simp only [List.find?_cons]
    cases hx : p x <;> cases hy : p y <;> simp
    exact (hu x (by simp) y (by simp) hx hy).symm
  | trans h₁ _ ih₁ ih₂ =>
    rw [ih₁ hu]
    exact ih₂ (fun a ha b hb => hu a (h₁.mem_iff.2 ha) b (h₁.mem_iff.2 hb))

/-- a function whose image list has no duplicates is injective on the list -/
theorem inj_of_nodup_map {γ : Type} (f : α → γ) {l : List α} (h : (l.map f).Nodup) {x y : α}
    (hx : x ∈ l) (hy : y ∈ l) (e : f x = f y) : x = y := by
  induction l with
  | nil => simp at hx
  | cons a l ih =>
    simp only [List.map_cons, List.nodup_cons, List.mem_map, not_exists, not_and] at h
    simp only [List.mem_cons] at hx hy
    rcases hx with rfl | hx <;> rcases hy with rfl | hy
    · rfl
    · exact absurd e.symm (h.1 y hy)
    · exact absurd e (h.1 x hx)
    · exact ih h.2 hx hy

/-- an entry can be moved to the front -/
theorem perm_front [DecidableEq α] {a : α} {l : List α} (h : a ∈ l) : (a :: l.erase a).Perm l :=
  (List.perm_cons_erase h).symm

/-- `find?` on a list whose head matches -/
theorem find?_head (p : α → Bool) (a : α) (l : List α) (h : p a = true) : (a :: l).find? p = some a := by
  simp [List.find?_cons, h]

end Proofs.Pattern
