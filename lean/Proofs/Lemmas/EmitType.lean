import Model.EmitType
namespace Proofs.EmitType
open Model.EmitType

theorem indexBar_prefix (p rest : List Char) (h : barFree p) :
    indexBar (p ++ '|' :: rest) = some p.length := by
  induction p with
  | nil => simp [indexBar]
  | cons c cs ih =>
    have hc : c ≠ '|' := h c (by simp)
    have hcs : barFree cs := fun d hd => h d (by simp [hd])
    simp [indexBar, hc, ih hcs]

theorem splits_join (p q : List Char) (r : List (List Char)) (h : barFree p) :
    splits (joinBar (p :: q :: r)) = decide (p.length > 1) := by
  unfold splits
  rw [joinBar, indexBar_prefix p _ h]
  by_cases hp : p.length > 1
  · simp [hp]; omega
  · simp [hp]

end Proofs.EmitType
