import Proofs.Lemmas.WirePacked
/-! The parser inverts the tree encoder (`loopF`/`loopG` on `encode t`). -/
namespace Proofs.Wire
open Model.Wire Spec.Wire

theorem loopF_step (o : Opts) (fuel num wt d : Nat) (X : Bytes) (hn : validNum num) (hw : wt < 8)
    (h4 : wt ≠ 4) :
    loopF o (fuel + 1) (appendTag num wt ++ X) d =
      match valueWith o (loopF o fuel) (loopG o fuel) num wt X d with
      | .error e => .error e
      | .ok (v, rest) => consF num v (loopF o fuel rest d) := by
  obtain ⟨b, l, hbl⟩ := appendTag_cons num wt
  have hd : appendTag num wt ++ X = b :: (l ++ X) := by rw [hbl]; rfl
  rw [hd, loopF, ← hd, tag_roundtrip num wt X hn hw]
  simp only [if_neg h4]
  rfl

theorem loopG_step (o : Opts) (fuel num wt g d : Nat) (X : Bytes) (hn : validNum num) (hw : wt < 8)
    (h4 : wt ≠ 4) :
    loopG o (fuel + 1) (appendTag num wt ++ X) g d =
      match valueWith o (loopF o fuel) (loopG o fuel) num wt X (d + 1) with
      | .error e => .error e
      | .ok (v, rest) => consG num v (loopG o fuel rest g d) := by
  obtain ⟨b, l, hbl⟩ := appendTag_cons num wt
  have hd : appendTag num wt ++ X = b :: (l ++ X) := by rw [hbl]; rfl
  rw [hd, loopG, ← hd, tag_roundtrip num wt X hn hw]
  simp only [if_neg h4]
  rfl

theorem loopG_end (o : Opts) (fuel g d : Nat) (X : Bytes) (hn : validNum g) :
    loopG o (fuel + 1) (appendTag g 4 ++ X) g d = .ok (.nil, X) := by
  obtain ⟨b, l, hbl⟩ := appendTag_cons g 4
  have hd : appendTag g 4 ++ X = b :: (l ++ X) := by rw [hbl]; rfl
  rw [hd, loopG, ← hd, tag_roundtrip g 4 X hn (by omega)]
  simp

theorem tag_pos (num wt : Nat) : 0 < (appendTag num wt).length := av_length_pos 9 _

theorem leafWt_lt (v : Leaf) : leafWt v < 8 ∧ leafWt v ≠ 4 ∧ leafWt v ≠ 3 := by
  cases v <;> simp [leafWt]

/-- `consumeFieldValue` on the value bytes of a valid leaf -/
theorem value_leaf (o : Opts) (rf : Bytes → Nat → Except Err FT)
    (rg : Bytes → Nat → Nat → Except Err (FT × Bytes)) (num d : Nat) (v : Leaf) (X : Bytes)
    (hv : ValidLeaf o num v) :
    valueWith o rf rg num (leafWt v) (encVal v ++ X) d = .ok (.leaf v, X) := by
  cases v with
  | varint v =>
    simp only [ValidLeaf] at hv
    simp [valueWith, leafWt, encVal, varint_roundtrip v X hv, okV]
  | fixed64 v =>
    simp only [ValidLeaf] at hv
    simp [valueWith, leafWt, encVal, fixed64_roundtrip v X hv, okV]
  | fixed32 v =>
    simp only [ValidLeaf] at hv
    simp [valueWith, leafWt, encVal, fixed32_roundtrip v X hv, okV]
  | bytes bs =>
    obtain ⟨_, hl, hp, hm⟩ := hv
    have hp' : num ∉ o.packed := by simpa using hp
    have hm' : num ∉ o.msg := by simpa using hm
    simp [valueWith, leafWt, encVal, bytes_roundtrip bs X hl, hp', hm']
  | packed et vs =>
    obtain ⟨hp, he, het, hr, hl⟩ := hv
    have hp : num ∈ o.packed := by simpa using hp
    simp [valueWith, leafWt, encVal, bytes_roundtrip _ X hl, hp, he, unpackPacked_enc et vs het hr,
      packedOf]

theorem roundtrip_core (o : Opts) (t : FT) :
    (∀ d fuel, Valid o t → Fits o.max t d → (encode t).length < fuel →
        loopF o fuel (encode t) d = .ok t) ∧
    (∀ d fuel g tail, validNum g → Valid o t → Fits o.max t (d + 1) →
        (encode t ++ (appendTag g 4 ++ tail)).length < fuel →
        loopG o fuel (encode t ++ (appendTag g 4 ++ tail)) g d = .ok (t, tail)) := by
  induction t with
  | nil =>
    constructor
    · intro d fuel _ _ hf
      cases fuel with
      | zero => simp at hf
      | succ f => simp [encode, loopF]
    · intro d fuel g tail hg _ _ hf
      cases fuel with
      | zero => simp at hf
      | succ f => simpa [encode] using loopG_end o f g d tail hg
  | leaf num v rest ih =>
    obtain ⟨ihF, ihG⟩ := ih
    obtain ⟨hw8, hw4, _⟩ := leafWt_lt v
    constructor
    · intro d fuel hv hfit hf
      obtain ⟨hn, hl, hr⟩ := hv
      cases fuel with
      | zero => simp at hf
      | succ f =>
        simp only [encode, List.append_assoc] at hf ⊢
        rw [loopF_step o f num _ d _ hn hw8 hw4, value_leaf o _ _ num d v _ hl]
        simp only
        rw [ihF d f hr hfit (by simp [List.length_append] at hf; have := tag_pos num (leafWt v); omega)]
        rfl
    · intro d fuel g tail hg hv hfit hf
      obtain ⟨hn, hl, hr⟩ := hv
      cases fuel with
      | zero => simp at hf
      | succ f =>
        simp only [encode, List.append_assoc] at hf ⊢
        rw [loopG_step o f num _ g d _ hn hw8 hw4, value_leaf o _ _ num (d + 1) v _ hl]
        simp only
        rw [ihG d f g tail hg hr hfit (by simp [List.length_append] at hf ⊢; have := tag_pos num (leafWt v); omega)]
        rfl
  | sub num grp kids rest ihk ihr =>
    obtain ⟨ihkF, ihkG⟩ := ihk
    obtain ⟨ihrF, ihrG⟩ := ihr
    cases grp with
    | false =>
      constructor
      · intro d fuel hv hfit hf
        obtain ⟨hn, hp, hm, hl, hk, hr⟩ := hv
        obtain ⟨hd, hfk, hfr⟩ := hfit
        cases fuel with
        | zero => simp at hf
        | succ f =>
          simp only [encode, List.append_assoc] at hf ⊢
          rw [loopF_step o f num 2 d _ hn (by omega) (by omega)]
          have htp := tag_pos num 2
          have hlen : (encode kids).length < f := by
            simp [List.length_append, appendBytes] at hf
            omega
          simp only [valueWith, show ¬ (2 : Nat) = 0 by decide, show ¬ (2 : Nat) = 1 by decide, if_false,
            if_true, bytes_roundtrip _ _ hl, hp, hm, Bool.false_eq_true]
          rw [if_neg (by omega), ihkF (d + 1) f hk hfk hlen]
          simp only [subOf]
          rw [ihrF d f hr hfr (by simp [List.length_append] at hf; omega)]
          rfl
      · intro d fuel g tail hg hv hfit hf
        obtain ⟨hn, hp, hm, hl, hk, hr⟩ := hv
        obtain ⟨hd, hfk, hfr⟩ := hfit
        cases fuel with
        | zero => simp at hf
        | succ f =>
          simp only [encode, List.append_assoc] at hf ⊢
          rw [loopG_step o f num 2 g d _ hn (by omega) (by omega)]
          have htp := tag_pos num 2
          have hlen : (encode kids).length < f := by
            simp [List.length_append, appendBytes] at hf
            omega
          simp only [valueWith, show ¬ (2 : Nat) = 0 by decide, show ¬ (2 : Nat) = 1 by decide, if_false,
            if_true, bytes_roundtrip _ _ hl, hp, hm, Bool.false_eq_true]
          rw [if_neg (by omega), ihkF (d + 1 + 1) f hk hfk hlen]
          simp only [subOf]
          rw [ihrG d f g tail hg hr hfr (by simp [List.length_append] at hf ⊢; omega)]
          rfl
    | true =>
      constructor
      · intro d fuel hv hfit hf
        obtain ⟨hn, hk, hr⟩ := hv
        obtain ⟨hd, hfk, hfr⟩ := hfit
        cases fuel with
        | zero => simp at hf
        | succ f =>
          simp only [encode, List.append_assoc] at hf ⊢
          rw [loopF_step o f num 3 d _ hn (by omega) (by omega)]
          simp only [valueWith, show ¬ (3 : Nat) = 0 by decide, show ¬ (3 : Nat) = 1 by decide,
            show ¬ (3 : Nat) = 2 by decide, if_false, if_true]
          have htp := tag_pos num 3
          rw [if_neg (by omega), ihkG d f num _ hn hk hfk (by
            simp [List.length_append] at hf ⊢
            omega)]
          simp only [subOfG]
          rw [ihrF d f hr hfr (by simp [List.length_append] at hf; omega)]
          rfl
      · intro d fuel g tail hg hv hfit hf
        obtain ⟨hn, hk, hr⟩ := hv
        obtain ⟨hd, hfk, hfr⟩ := hfit
        cases fuel with
        | zero => simp at hf
        | succ f =>
          simp only [encode, List.append_assoc] at hf ⊢
          rw [loopG_step o f num 3 g d _ hn (by omega) (by omega)]
          simp only [valueWith, show ¬ (3 : Nat) = 0 by decide, show ¬ (3 : Nat) = 1 by decide,
            show ¬ (3 : Nat) = 2 by decide, if_false, if_true]
          have htp := tag_pos num 3
          rw [if_neg (by omega), ihkG (d + 1) f num _ hn hk hfk (by
            simp [List.length_append] at hf ⊢
            omega)]
          simp only [subOfG]
          rw [ihrG d f g tail hg hr hfr (by simp [List.length_append] at hf ⊢; omega)]
          rfl

end Proofs.Wire
