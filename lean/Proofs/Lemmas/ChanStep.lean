import Model.Chan
/-! Primitive transitions of `Model.Chan` as a relation, so invariants are proved by one `cases`. -/
namespace Proofs.Chan
open Model.Chan

@[simp] theorem upd_same {α : Type} (f : Nat → α) (t : Nat) (v : α) : upd f t v t = v := by simp [upd]
theorem upd_other {α : Type} (f : Nat → α) (t x : Nat) (v : α) (h : x ≠ t) : upd f t v x = f x := by simp [upd, h]

/-- the state after the rendezvous of sender `t` (payload `v`) with receiver `r` -/
def handSt (s : St) (t r v : Nat) : St :=
  (({ s with recvd := s.recvd ++ [(r, s.newMsg t v)],
             sentLog := upd s.sentLog t (s.sentLog t ++ [s.newMsg t v]),
             holders := s.release t }.finish t (.send v) (.ok true))).finish r .recv (.got (s.newMsg t v))

/-- one atomic step of the implementation, with the control-state guard that enabled it -/
inductive Prim (s : St) : St → Prop
  | sendCheck (t v : Nat) : s.pc t = .idle → (s.prog t).head? = some (.send v) → Prim s (stepSendCheck s t v)
  | sendDo (t v : Nat) (s' : St) : s.pc t = .sendChecked → stepSendDo s t v = some s' → Prim s s'
  | abort (t v : Nat) (s' : St) : s.pc t = .sendChecked → stepAbort s t v = some s' → Prim s s'
  | recv (r : Nat) (s' : St) : s.pc r = .idle → stepRecv s r = some s' → Prim s s'
  | closeCas (t : Nat) : s.pc t = .idle → (s.prog t).head? = some .close → Prim s (stepCloseCas s t)
  | closeSignal (t : Nat) : s.pc t = .closeFlagged → Prim s (stepCloseSignal s t)
  | closeFinal (t : Nat) (s' : St) : s.pc t = .closeSignalled → stepCloseFinal s t = some s' → Prim s s'
  | isClosed (t : Nat) : s.pc t = .idle → Prim s (stepIsClosed s t)
  | hand (t r v : Nat) : s.pc t = .sendChecked → s.pc r = .idle → s.chClosed = false → s.cap = 0 →
      s.buf = [] → Prim s (handSt s t r v)

theorem prim_of_stepRun (s s' : St) (t : Nat) (h : stepRun s t = some s') : Prim s s' := by
  unfold stepRun at h
  split at h
  · cases h; exact .sendCheck _ _ ‹_› (by simp [*])
  · exact .recv _ _ ‹_› h
  · cases h; exact .closeCas _ ‹_› (by simp [*])
  · cases h; exact .isClosed _ ‹_›
  · exact .sendDo _ _ _ ‹_› h
  · cases h; exact .closeSignal _ ‹_›
  · exact .closeFinal _ _ ‹_› h
  · cases h

theorem prim_of_step (s s' : St) (a : Act) (h : step s a = some s') : s.panicked = false ∧ Prim s s' := by
  unfold step at h
  split at h
  · cases h
  · rename_i hp
    refine ⟨by simpa using hp, ?_⟩
    cases a with
    | run t => exact prim_of_stepRun s s' t h
    | abort t =>
      simp only [stepAbortT] at h
      split at h
      · exact .abort _ _ _ ‹_› h
      · cases h
    | hand t r =>
      simp only [stepHand] at h
      split at h
      · split at h
        · cases h
        · split at h
          · rename_i hc hcb
            cases h
            exact .hand _ _ _ ‹_› ‹_› (by simpa using hc) hcb.1 hcb.2
          · cases h
      · cases h

/-- an invariant preserved by every primitive step holds after any schedule -/
theorem exec_induct (P : St → Prop) (hstep : ∀ s s', P s → s.panicked = false → Prim s s' → P s')
    (sched : List Act) (s : St) (h : P s) : P (exec s sched) := by
  induction sched generalizing s with
  | nil => exact h
  | cons a as ih =>
    simp only [exec]
    split
    · rename_i s' hs
      have := prim_of_step s s' a hs
      exact ih _ (hstep s s' h this.1 this.2)
    · exact ih _ h

end Proofs.Chan
