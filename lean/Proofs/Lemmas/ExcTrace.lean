import Model.Exc
import Spec.Exc
/-! C05: every phase extends the trace; shape of what a `try` statement adds; the two trace invariants
("a statement that does not mention try `i` emits no event of try `i`", "the events of try `i` alternate"). -/
namespace Proofs.Exc
open Model.Exc
open Spec.Exc (mentionsS mentionsB mentionsC goodS goodB goodC isTryEv proj Alternates)

/-- `f` only ever appends to the trace, and what it appends satisfies `P` -/
def Extends (P : List Ev → Prop) (f : List Ev → Res) : Prop :=
  ∀ tr, ∃ ext, (f tr).2 = tr ++ ext ∧ P ext

/-- predicates on trace extensions that compose -/
structure Mon (P : List Ev → Prop) : Prop where
  nil : P []
  app : ∀ {a b}, P a → P b → P (a ++ b)

theorem guard_snd (r : Res) : (protect r).2 = r.2 := by
  rcases r with ⟨o, tr⟩; cases o <;> rfl

theorem guard_extends {P : List Ev → Prop} {f : List Ev → Res} (h : Extends P f) :
    Extends P (fun t => protect (f t)) := by
  intro tr; obtain ⟨e, h1, h2⟩ := h tr; exact ⟨e, by simp [guard_snd, h1], h2⟩

theorem loopN_extends {P : List Ev → Prop} (hP : Mon P) {step : List Ev → Res} (h : Extends P step) (k : Nat) :
    Extends P (loopN step k) := by
  induction k with
  | zero => intro tr; exact ⟨[], by simp [loopN], hP.nil⟩
  | succ k ih =>
    intro tr
    obtain ⟨e1, h1, p1⟩ := h tr
    have again : ∀ tr', (step tr).2 = tr' → ∃ ext, (loopN step k tr').2 = tr ++ ext ∧ P ext := by
      intro tr' ht
      obtain ⟨e2, h2, p2⟩ := ih tr'
      refine ⟨e1 ++ e2, ?_, hP.app p1 p2⟩
      rw [h2, ← ht, h1, List.append_assoc]
    rw [loopN]
    split
    · rename_i tr' heq; exact again tr' (by rw [heq])
    · rename_i tr' heq; exact again tr' (by rw [heq])
    · rename_i tr' heq; exact ⟨e1, by rw [← h1, heq], p1⟩
    · exact ⟨e1, h1, p1⟩

theorem callResult_ext {P : List Ev → Prop} (hP : Mon P) (hres : ∀ v, P [.result v]) (r : Res) :
    ∃ e, (callResult r).2 = r.2 ++ e ∧ P e := by
  rcases r with ⟨o, tr⟩
  cases o <;> simp only [callResult]
  case normal => exact ⟨[.result none], rfl, hres _⟩
  case ret v => exact ⟨[.result (some v)], rfl, hres _⟩
  all_goals exact ⟨[], by simp, hP.nil⟩

theorem callResult_extends {P : List Ev → Prop} (hP : Mon P) (hres : ∀ v, P [.result v]) {f : List Ev → Res}
    (h : Extends P f) : Extends P (fun t => callResult (f t)) := by
  intro tr
  obtain ⟨e, h1, p1⟩ := h tr
  obtain ⟨e2, h2, p2⟩ := callResult_ext hP hres (f tr)
  exact ⟨e ++ e2, by rw [h2, h1, List.append_assoc], hP.app p1 p2⟩

theorem tryValue_ext {P : List Ev → Prop} (hP : Mon P) {cl : Thrown → List Ev → Res} (h : ∀ x, Extends P (cl x)) (r : Res) :
    ∃ e, (tryValue cl r).2 = r.2 ++ e ∧ P e := by
  rcases r with ⟨o, tr⟩
  cases o <;> simp only [tryValue]
  case thr t => exact h t tr
  all_goals exact ⟨[], by simp, hP.nil⟩

theorem catchPhase_ext {P : List Ev → Prop} (hP : Mon P) {cl : Thrown → List Ev → Res} (h : ∀ x, Extends P (cl x)) (r : Res) :
    ∃ e, (catchPhase (fun r => protect (tryValue cl r)) r).2 = r.2 ++ e ∧ P e := by
  rcases r with ⟨o, tr⟩
  cases o <;> simp only [catchPhase, guard_snd]
  case normal => exact ⟨[], by simp, hP.nil⟩
  all_goals exact tryValue_ext hP h _

theorem finallyPhase_snd (i : Nat) (hasFin : Bool) (runFin : List Ev → Res) (r2 : Res) :
    (finallyPhase i hasFin runFin r2).2 = if hasFin then (runFin (r2.2 ++ [.enterFinally i])).2 else r2.2 := by
  unfold finallyPhase
  cases hasFin
  · simp
  · simp only [if_true]
    split <;> simp_all

/-- what a (repaired) `try` statement appends: `enterTry`, the body's events, the handler's events, and — iff
there is a finally block — `enterFinally` and the finally block's events -/
theorem tryStmt_shape {P : List Ev → Prop} (hP : Mon P) (i : Nat) (hasFin : Bool)
    {runBody : List Ev → Res} {cl : Thrown → List Ev → Res} {runFin : List Ev → Res}
    (hb : Extends P runBody) (hc : ∀ x, Extends P (cl x)) (hf : Extends P runFin) (tr : List Ev) :
    ∃ e1 e2 e3, P e1 ∧ P e2 ∧ P e3 ∧
      (tryStmt i hasFin runBody cl runFin tr).2 =
        tr ++ [.enterTry i] ++ e1 ++ e2 ++ (if hasFin then [.enterFinally i] ++ e3 else []) := by
  obtain ⟨e1, h1, p1⟩ := hb (tr ++ [.enterTry i])
  obtain ⟨e2, h2, p2⟩ := catchPhase_ext hP hc (protect (runBody (tr ++ [.enterTry i])))
  rw [guard_snd, h1] at h2
  unfold tryStmt
  simp only [finallyPhase_snd]
  cases hasFin
  · exact ⟨e1, e2, [], p1, p2, hP.nil, by simp [h2]⟩
  · obtain ⟨e3, h3, p3⟩ := guard_extends hf
      ((catchPhase (fun r => protect (tryValue cl r)) (protect (runBody (tr ++ [.enterTry i])))).2 ++ [.enterFinally i])
    refine ⟨e1, e2, e3, p1, p2, p3, ?_⟩
    simp only [if_true]
    rw [h3, h2]
    simp [List.append_assoc]

/-! ### projection onto the events of one try -/

theorem proj_append (i : Nat) (a b : List Ev) : proj i (a ++ b) = proj i a ++ proj i b := by
  simp [proj]

theorem mon_noEv (i : Nat) : Mon (fun e => proj i e = []) :=
  ⟨rfl, fun {a b} ha hb => by simp only [proj_append]; rw [ha, hb]; rfl⟩

theorem alternates_nil (i : Nat) : Alternates i [] := ⟨0, rfl⟩

theorem alternates_append {i : Nat} {a b : List Ev} (ha : Alternates i a) (hb : Alternates i b) :
    Alternates i (a ++ b) := by
  obtain ⟨n, rfl⟩ := ha
  obtain ⟨m, rfl⟩ := hb
  refine ⟨n + m, ?_⟩
  induction n with
  | zero => simp
  | succ n ih => rw [Nat.succ_add, List.replicate_succ, List.replicate_succ, List.flatten_cons, List.flatten_cons,
      List.append_assoc, ih]

theorem mon_alt (i : Nat) : Mon (fun e => Alternates i (proj i e)) :=
  ⟨alternates_nil i, fun {a b} ha hb => by simp only [proj_append]; exact alternates_append ha hb⟩

theorem proj_single_other {i : Nat} {e : Ev} (h : isTryEv i e = false) : proj i [e] = [] := by
  simp [proj, h]

/-! ### a statement that does not mention try `i` emits no event of try `i` -/

mutual
theorem exec_noEv (G : Model.Hier.Graph) (cfg : Cfg) (hg : cfg.guarded = true) (i : Nat) :
    ∀ (s : Stmt), mentionsS i s = false → ∀ cur, Extends (fun e => proj i e = []) (exec G cfg cur s)
  | .echo m, _, cur => fun tr => ⟨[.echo m], by simp [exec], proj_single_other rfl⟩
  | .throw c st, _, cur => fun tr => ⟨[], by simp [exec], rfl⟩
  | .rethrow, _, cur => fun tr => ⟨[], by simp [exec], rfl⟩
  | .gopanic, _, cur => fun tr => ⟨[], by simp [exec], rfl⟩
  | .ret v, _, cur => fun tr => ⟨[], by simp [exec], rfl⟩
  | .brk, _, cur => fun tr => ⟨[], by simp [exec], rfl⟩
  | .cont, _, cur => fun tr => ⟨[], by simp [exec], rfl⟩
  | .loop k b, h, cur => by
    have hb := execB_noEv G cfg hg i b (by simpa [mentionsS] using h) cur
    intro tr
    simp only [exec]
    exact loopN_extends (mon_noEv i) hb k tr
  | .call b, h, cur => by
    have hb := execB_noEv G cfg hg i b (by simpa [mentionsS] using h) none
    intro tr
    simp only [exec]
    exact callResult_extends (mon_noEv i) (fun v => proj_single_other rfl) hb tr
  | .try_ j b cs hasFin fin, h, cur => by
    simp only [mentionsS, Bool.or_eq_false_iff] at h
    obtain ⟨⟨⟨hj, hb⟩, hc⟩, hf⟩ := h
    have hb' := execB_noEv G cfg hg i b hb cur
    have hc' : ∀ x, Extends (fun e => proj i e = []) (fun t => execC G cfg j 0 x cs t) :=
      fun x => execC_noEv G cfg hg i cs hc j 0 x
    have hf' := execB_noEv G cfg hg i fin hf cur
    intro tr
    simp only [exec, hg, if_true]
    obtain ⟨e1, e2, e3, p1, p2, p3, hs⟩ := tryStmt_shape (mon_noEv i) j hasFin hb' hc' hf' tr
    have hj' : isTryEv i (.enterTry j) = false := by simpa [isTryEv] using hj
    have hj'' : isTryEv i (.enterFinally j) = false := by simpa [isTryEv] using hj
    refine ⟨[.enterTry j] ++ e1 ++ e2 ++ (if hasFin then [.enterFinally j] ++ e3 else []), by rw [hs]; simp [List.append_assoc], ?_⟩
    cases hasFin
    · simp only [proj_append, p1, p2, proj_single_other hj']; rfl
    · simp only [if_true, proj_append, p1, p2, p3, proj_single_other hj', proj_single_other hj'']; rfl
theorem execB_noEv (G : Model.Hier.Graph) (cfg : Cfg) (hg : cfg.guarded = true) (i : Nat) :
    ∀ (b : Block), mentionsB i b = false → ∀ cur, Extends (fun e => proj i e = []) (execB G cfg cur b)
  | .nil, _, cur => fun tr => ⟨[], by simp [execB], rfl⟩
  | .cons s rest, h, cur => by
    simp only [mentionsB, Bool.or_eq_false_iff] at h
    have hs := exec_noEv G cfg hg i s h.1 cur
    have hr := execB_noEv G cfg hg i rest h.2 cur
    intro tr
    obtain ⟨e1, h1, p1⟩ := hs tr
    rw [execB]
    split
    · rename_i tr' heq
      obtain ⟨e2, h2, p2⟩ := hr tr'
      have : tr' = tr ++ e1 := by rw [← h1, heq]
      exact ⟨e1 ++ e2, by rw [h2, this, List.append_assoc], (mon_noEv i).app p1 p2⟩
    · exact ⟨e1, h1, p1⟩
theorem execC_noEv (G : Model.Hier.Graph) (cfg : Cfg) (hg : cfg.guarded = true) (i : Nat) :
    ∀ (cs : Catches), mentionsC i cs = false → ∀ j k x, Extends (fun e => proj i e = []) (execC G cfg j k x cs)
  | .nil, _, j, k, x => fun tr => ⟨[], by simp [execC], rfl⟩
  | .cons tys b rest, h, j, k, x => by
    simp only [mentionsC, Bool.or_eq_false_iff] at h
    have hb := execB_noEv G cfg hg i b h.1 (some x)
    have hr := execC_noEv G cfg hg i rest h.2 j (k+1) x
    intro tr
    rw [execC]
    split
    · obtain ⟨e, h1, p1⟩ := hb (tr ++ [.caught j k x])
      exact ⟨[.caught j k x] ++ e, by rw [h1]; simp [List.append_assoc],
        (mon_noEv i).app (proj_single_other rfl) p1⟩
    · exact hr tr
end

end Proofs.Exc
