import Model.Exc
import Spec.Exc
/-! C05: every phase extends the trace; shape of what a `try` statement adds; the two trace invariants
("a statement that does not mention try `i` emits no event of try `i`", "the events of try `i` alternate"). -/
namespace Proofs.Exc
open Model.Exc
open Spec.Exc (mentionsS mentionsB mentionsC goodS goodB goodC isTryEv proj Alternates)

/-- `f` only ever appends to the trace, and what it appends satisfies `P` -/
def Extends (P : List Ev → Prop) (f : List Ev → Res) : Prop :=
  ∀ tr, ∃ ext, (f tr).2 = tr ++ ext ∧ P ext

/-- predicates on trace extensions that compose -/
structure Mon (P : List Ev → Prop) : Prop where
  nil : P []
  app : ∀ {a b}, P a → P b → P (a ++ b)

theorem guard_snd (r : Res) : (protect r).2 = r.2 := by
  rcases r with ⟨o, tr⟩; cases o <;> rfl

theorem guard_extends {P : List Ev → Prop} {f : List Ev → Res} (h : Extends P f) :
    Extends P (fun t => protect (f t)) := by
  intro tr; obtain ⟨e, h1, h2⟩ := h tr; exact ⟨e, by simp [guard_snd, h1], h2⟩

theorem loopN_extends {P : List Ev → Prop} (hP : Mon P) {step : List Ev → Res} (h : Extends P step) (k : Nat) :
    Extends P (loopN step k) := by
  induction k with
  | zero => intro tr; exact ⟨[], by simp [loopN], hP.nil⟩
  | succ k ih =>
    intro tr
    obtain ⟨e1, h1, p1⟩ := h tr
    have again : ∀ tr', (step tr).2 = tr' → ∃ ext, (loopN step k tr').2 = tr ++ ext ∧ P ext := by
      intro tr' ht
      obtain ⟨e2, h2, p2⟩ := ih tr'
      refine ⟨e1 ++ e2, ?_, hP.app p1 p2⟩
      rw [h2, ← ht, h1, List.append_assoc]
    rw [loopN]
    split
    · rename_i tr' heq; exact again tr' (by rw [heq])
    · rename_i tr' heq; exact again tr' (by rw [heq])
    · rename_i tr' heq; exact ⟨e1, by rw [← h1, heq], p1⟩
    · exact ⟨e1, h1, p1⟩

theorem callResult_ext {P : List Ev → Prop} (hP : Mon P) (hres : ∀ v, P [.result v]) (r : Res) :
    ∃ e, (callResult r).2 = r.2 ++ e ∧ P e := by
  rcases r with ⟨o, tr⟩
  cases o <;> simp only [callResult]
  case normal => exact ⟨[.result none], rfl, hres _⟩
  case ret v => exact ⟨[.result (some v)], rfl, hres _⟩
  all_goals exact ⟨[], by simp, hP.nil⟩

theorem callResult_extends {P : List Ev → Prop} (hP : Mon P) (hres : ∀ v, P [.result v]) {f : List Ev → Res}
    (h : Extends P f) : Extends P (fun t => callResult (f t)) := by
  intro tr
  obtain ⟨e, h1, p1⟩ := h tr
  obtain ⟨e2, h2, p2⟩ := callResult_ext hP hres (f tr)
  exact ⟨e ++ e2, by rw [h2, h1, List.append_assoc], hP.app p1 p2⟩

theorem tryValue_ext {P : List Ev → Prop} (hP : Mon P) {cl : Thrown → List Ev → Res} (h : ∀ x, Extends P (cl x)) (r : Res) :
    ∃ e, (tryValue cl r).2 = r.2 ++ e ∧ P e := by
  rcases r with ⟨o, tr⟩
  cases o <;> simp only [tryValue]
  case thr t => exact h t tr
  all_goals exact ⟨[], by simp, hP.nil⟩

theorem catchPhase_ext {P : List Ev → Prop} (hP : Mon P) {cl : Thrown → List Ev → Res} (h : ∀ x, Extends P (cl x)) (r : Res) :
    ∃ e, (catchPhase (fun r => protect (tryValue cl r)) r).2 = r.2 ++ e ∧ P e := by
  rcases r with ⟨o, tr⟩
  cases o <;> simp only [catchPhase, guard_snd]
  case normal => exact ⟨[], by simp, hP.nil⟩
  all_goals exact tryValue_ext hP h _

theorem finallyPhase_snd (a i : Nat) (hasFin : Bool) (runFin : List Ev → Res) (r2 : Res) :
    (finallyPhase a i hasFin runFin r2).2 = if hasFin then (runFin (r2.2 ++ [.enterFinally a i])).2 else r2.2 := by
  unfold finallyPhase
  cases hasFin
  · simp
  · simp only [if_true]
    split <;> simp_all

/-- what a (repaired) `try` statement appends: `enterTry`, the body's events, the handler's events, and — iff
there is a finally block — `enterFinally` and the finally block's events -/
theorem tryStmt_shape {P : List Ev → Prop} (hP : Mon P) (a i : Nat) (hasFin : Bool)
    {runBody : List Ev → Res} {cl : Thrown → List Ev → Res} {runFin : List Ev → Res}
    (hb : Extends P runBody) (hc : ∀ x, Extends P (cl x)) (hf : Extends P runFin) (tr : List Ev) :
    ∃ e1 e2 e3, P e1 ∧ P e2 ∧ P e3 ∧
      (tryStmt a i hasFin runBody cl runFin tr).2 =
        tr ++ [.enterTry a i] ++ e1 ++ e2 ++ (if hasFin then [.enterFinally a i] ++ e3 else []) := by
  obtain ⟨e1, h1, p1⟩ := hb (tr ++ [.enterTry a i])
  obtain ⟨e2, h2, p2⟩ := catchPhase_ext hP hc (protect (runBody (tr ++ [.enterTry a i])))
  rw [guard_snd, h1] at h2
  unfold tryStmt
  simp only [finallyPhase_snd]
  cases hasFin
  · exact ⟨e1, e2, [], p1, p2, hP.nil, by simp [h2]⟩
  · obtain ⟨e3, h3, p3⟩ := guard_extends hf
      ((catchPhase (fun r => protect (tryValue cl r)) (protect (runBody (tr ++ [.enterTry a i])))).2 ++ [.enterFinally a i])
    refine ⟨e1, e2, e3, p1, p2, p3, ?_⟩
    simp only [if_true]
    rw [h3, h2]
    simp [List.append_assoc]

/-- the guarded call of a named function extends the trace like the callee does -/
theorem callNamed_extends {P : List Ev → Prop} (hP : Mon P) (hres : ∀ v, P [.result v]) (A : Act) (k : Nat)
    (h : Extends P (A.env k)) : Extends P (callNamed A k) := by
  intro tr
  unfold callNamed
  split
  · exact ⟨[], by simp, hP.nil⟩
  · exact callResult_extends hP hres h tr

/-! ### projection onto the events of one try in the activations of one level -/

theorem proj_append (L i : Nat) (a b : List Ev) : proj L i (a ++ b) = proj L i a ++ proj L i b := by
  simp [proj]

/-- no event of try `i` at level `L` -/
def NoEv (L i : Nat) (e : List Ev) : Prop := proj L i e = []

/-- the events of try `i` at level `L` are `enterTry, enterFinally` repeated -/
def Alt (L i : Nat) (e : List Ev) : Prop := Alternates L i (proj L i e)

theorem mon_noEv (L i : Nat) : Mon (NoEv L i) :=
  ⟨rfl, fun {a b} ha hb => by unfold NoEv at *; simp only [proj_append]; rw [ha, hb]; rfl⟩

theorem alternates_nil (L i : Nat) : Alternates L i [] := ⟨0, rfl⟩

theorem alternates_append {L i : Nat} {a b : List Ev} (ha : Alternates L i a) (hb : Alternates L i b) :
    Alternates L i (a ++ b) := by
  obtain ⟨n, rfl⟩ := ha
  obtain ⟨m, rfl⟩ := hb
  refine ⟨n + m, ?_⟩
  induction n with
  | zero => simp
  | succ n ih => rw [Nat.succ_add, List.replicate_succ, List.replicate_succ, List.flatten_cons, List.flatten_cons,
      List.append_assoc, ih]

theorem mon_alt (L i : Nat) : Mon (Alt L i) :=
  ⟨alternates_nil L i, fun {a b} ha hb => by unfold Alt at *; simp only [proj_append]; exact alternates_append ha hb⟩

theorem proj_single_other {L i : Nat} {e : Ev} (h : isTryEv L i e = false) : proj L i [e] = [] := by
  simp [proj, h]

theorem noEv_single {L i : Nat} {e : Ev} (h : isTryEv L i e = false) : NoEv L i [e] := proj_single_other h

theorem alt_of_noEv {L i : Nat} {e : List Ev} (h : NoEv L i e) : Alt L i e := by
  unfold Alt; rw [h]; exact alternates_nil L i

/-- the try events of activation level `a`, try `j` are not events of (`L`, `i`) unless `a = L` and `j = i` -/
theorem isTryEv_enterTry_false {L i a j : Nat} (h : ¬ (a = L ∧ j = i)) : isTryEv L i (.enterTry a j) = false := by
  simp only [isTryEv, Bool.and_eq_false_iff, beq_eq_false_iff_ne, ne_eq]
  by_cases ha : a = L
  · exact Or.inr (fun hj => h ⟨ha, hj⟩)
  · exact Or.inl ha

theorem isTryEv_enterFinally_false {L i a j : Nat} (h : ¬ (a = L ∧ j = i)) : isTryEv L i (.enterFinally a j) = false := by
  simp only [isTryEv, Bool.and_eq_false_iff, beq_eq_false_iff_ne, ne_eq]
  by_cases ha : a = L
  · exact Or.inr (fun hj => h ⟨ha, hj⟩)
  · exact Or.inl ha

/-! ### a statement emits no event of (`L`, `i`) when it runs at another level or does not mention try `i`, and its
callees emit none -/

mutual
theorem exec_noEv (G : Model.Hier.Graph) (cfg : Cfg) (hg : cfg.guarded = true) (L i : Nat) (A : Act)
    (henv : ∀ k, Extends (NoEv L i) (A.env k)) :
    ∀ (s : Stmt), (A.lvl = L → mentionsS i s = false) → ∀ cur, Extends (NoEv L i) (exec G cfg cur A s)
  | .echo m, _, cur => fun tr => ⟨[.echo A.lvl m], by simp [exec], noEv_single rfl⟩
  | .throw c st, _, cur => fun tr => ⟨[], by simp [exec], rfl⟩
  | .rethrow, _, cur => fun tr => ⟨[], by simp [exec], rfl⟩
  | .gopanic, _, cur => fun tr => ⟨[], by simp [exec], rfl⟩
  | .ret v, _, cur => fun tr => ⟨[], by simp [exec], rfl⟩
  | .brk, _, cur => fun tr => ⟨[], by simp [exec], rfl⟩
  | .cont, _, cur => fun tr => ⟨[], by simp [exec], rfl⟩
  | .loop k b, h, cur => by
    have hb := execB_noEv G cfg hg L i A henv b (fun e => by simpa [mentionsS] using h e) cur
    intro tr
    simp only [exec]
    exact loopN_extends (mon_noEv L i) hb k tr
  | .call b, h, cur => by
    have hb := execB_noEv G cfg hg L i A henv b (fun e => by simpa [mentionsS] using h e) none
    intro tr
    simp only [exec]
    exact callResult_extends (mon_noEv L i) (fun v => noEv_single rfl) hb tr
  | .callf k, _, cur => by
    intro tr
    simp only [exec]
    exact callNamed_extends (mon_noEv L i) (fun v => noEv_single rfl) A k (henv k) tr
  | .try_ j b cs hasFin fin, h, cur => by
    have h' : A.lvl = L → ((j ≠ i ∧ mentionsB i b = false) ∧ mentionsC i cs = false) ∧ mentionsB i fin = false :=
      fun e => by simpa [mentionsS, Bool.or_eq_false_iff] using h e
    have hb' := execB_noEv G cfg hg L i A henv b (fun e => (h' e).1.1.2) cur
    have hc' : ∀ x, Extends (NoEv L i) (fun t => execC G cfg A j 0 x cs t) :=
      fun x => execC_noEv G cfg hg L i A henv cs (fun e => (h' e).1.2) j 0 x
    have hf' := execB_noEv G cfg hg L i A henv fin (fun e => (h' e).2) cur
    intro tr
    simp only [exec, hg, if_true]
    obtain ⟨e1, e2, e3, p1, p2, p3, hs⟩ := tryStmt_shape (mon_noEv L i) A.lvl j hasFin hb' hc' hf' tr
    have hne : ¬ (A.lvl = L ∧ j = i) := fun ⟨e, ej⟩ => (h' e).1.1.1 ej
    have hj' := isTryEv_enterTry_false hne
    have hj'' := isTryEv_enterFinally_false hne
    refine ⟨[.enterTry A.lvl j] ++ e1 ++ e2 ++ (if hasFin then [.enterFinally A.lvl j] ++ e3 else []), by rw [hs]; simp [List.append_assoc], ?_⟩
    unfold NoEv at *
    cases hasFin
    · simp only [proj_append, p1, p2, proj_single_other hj']; rfl
    · simp only [if_true, proj_append, p1, p2, p3, proj_single_other hj', proj_single_other hj'']; rfl
theorem execB_noEv (G : Model.Hier.Graph) (cfg : Cfg) (hg : cfg.guarded = true) (L i : Nat) (A : Act)
    (henv : ∀ k, Extends (NoEv L i) (A.env k)) :
    ∀ (b : Block), (A.lvl = L → mentionsB i b = false) → ∀ cur, Extends (NoEv L i) (execB G cfg cur A b)
  | .nil, _, cur => fun tr => ⟨[], by simp [execB], rfl⟩
  | .cons s rest, h, cur => by
    have h' : A.lvl = L → mentionsS i s = false ∧ mentionsB i rest = false :=
      fun e => by simpa [mentionsB, Bool.or_eq_false_iff] using h e
    have hs := exec_noEv G cfg hg L i A henv s (fun e => (h' e).1) cur
    have hr := execB_noEv G cfg hg L i A henv rest (fun e => (h' e).2) cur
    intro tr
    obtain ⟨e1, h1, p1⟩ := hs tr
    rw [execB]
    split
    · rename_i tr' heq
      obtain ⟨e2, h2, p2⟩ := hr tr'
      have : tr' = tr ++ e1 := by rw [← h1, heq]
      exact ⟨e1 ++ e2, by rw [h2, this, List.append_assoc], (mon_noEv L i).app p1 p2⟩
    · exact ⟨e1, h1, p1⟩
theorem execC_noEv (G : Model.Hier.Graph) (cfg : Cfg) (hg : cfg.guarded = true) (L i : Nat) (A : Act)
    (henv : ∀ k, Extends (NoEv L i) (A.env k)) :
    ∀ (cs : Catches), (A.lvl = L → mentionsC i cs = false) → ∀ j k x, Extends (NoEv L i) (execC G cfg A j k x cs)
  | .nil, _, j, k, x => fun tr => ⟨[], by simp [execC], rfl⟩
  | .cons tys b rest, h, j, k, x => by
    have h' : A.lvl = L → mentionsB i b = false ∧ mentionsC i rest = false :=
      fun e => by simpa [mentionsC, Bool.or_eq_false_iff] using h e
    have hb := execB_noEv G cfg hg L i A henv b (fun e => (h' e).1) (some x)
    have hr := execC_noEv G cfg hg L i A henv rest (fun e => (h' e).2) j (k+1) x
    intro tr
    rw [execC]
    split
    · obtain ⟨e, h1, p1⟩ := hb (tr ++ [.caught A.lvl j k x])
      exact ⟨[.caught A.lvl j k x] ++ e, by rw [h1]; simp [List.append_assoc],
        (mon_noEv L i).app (noEv_single rfl) p1⟩
    · exact hr tr
end

/-! ### levels only go down: the callees of an activation of level `n` run at levels below `n` -/

/-- a call made from an activation of level `n ≤ L` emits no try event of level `L` -/
theorem envAt_noEv_above (G : Model.Hier.Graph) (cfg : Cfg) (hg : cfg.guarded = true) (fns : List Block) (i : Nat) :
    ∀ (n L : Nat), n ≤ L → ∀ k, Extends (NoEv L i) (envAt G cfg fns n k)
  | 0, L, _, k => fun tr => ⟨[], by simp [envAt], rfl⟩
  | n+1, L, hl, k => by
    intro tr
    rw [envAt]
    split
    · rename_i b _
      exact execB_noEv G cfg hg L i ⟨n, envAt G cfg fns n⟩ (envAt_noEv_above G cfg hg fns i n L (by omega)) b
        (fun e => by simp at e; omega) none tr
    · exact ⟨[], by simp, rfl⟩

/-- no function mentions try `i`: no call emits an event of try `i`, at any level -/
theorem envAt_noEv_unmentioned (G : Model.Hier.Graph) (cfg : Cfg) (hg : cfg.guarded = true) (fns : List Block) (i : Nat)
    (hf : ∀ b ∈ fns, mentionsB i b = false) : ∀ (n L : Nat) k, Extends (NoEv L i) (envAt G cfg fns n k)
  | 0, L, k => fun tr => ⟨[], by simp [envAt], rfl⟩
  | n+1, L, k => by
    intro tr
    rw [envAt]
    split
    · rename_i b hb
      exact execB_noEv G cfg hg L i ⟨n, envAt G cfg fns n⟩ (envAt_noEv_unmentioned G cfg hg fns i hf n L) b
        (fun _ => hf b (List.mem_of_getElem? hb)) none tr
    · exact ⟨[], by simp, rfl⟩

end Proofs.Exc
