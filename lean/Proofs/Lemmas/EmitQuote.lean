import Model.EmitQuote
import Proofs.Lemmas.EmitQuoteUtf8
/-! Round trip of `quote` / `unquote`, `printf` safety, integers (`Model.EmitQuote`). -/
namespace Proofs.EmitQuote
open Model.EmitQuote

def IsBytes (s : Bytes) : Prop := ∀ b ∈ s, b < 256

theorem decode_ascii_iff (b0 : Nat) (r : Bytes) : decodeRune (b0 :: r) = .ascii ↔ b0 < 0x80 := by
  rw [decodeRune_cons]
  unfold decodeCons
  constructor
  · intro h
    by_cases hlo : b0 < 0x80
    · exact hlo
    · rw [if_neg hlo] at h
      repeat' split at h
      all_goals first | cases h | omega
  · intro h; rw [if_pos h]

/-- the text of a `\xNN` escape reads back as the byte -/
theorem unqTok_hex (b : Nat) (hb : b < 256) (tail : Bytes) :
    unqTok (92 :: 120 :: hex2 b ++ tail) = some ([b], tail) := by
  have := hexN_hex2 b hb
  simp only [hex2] at this
  simp [unqTok, unescape, hex2, this]

theorem unqTok_u4 (c : Nat) (hc : c < 0x10000) (hv : validCp c) (tail : Bytes) :
    unqTok (92 :: 117 :: hex4 c ++ tail) = some (encodeRune c, tail) := by
  have := hexN_hex4 c hc
  simp only [hex4] at this
  simp [unqTok, unescape, hex4, this, hv]

theorem unqTok_u8 (c : Nat) (hc : c < 4294967296) (hv : validCp c) (tail : Bytes) :
    unqTok (92 :: 85 :: hex8 c ++ tail) = some (encodeRune c, tail) := by
  have := hexN_hex8 c hc
  simp only [hex8, hex4, List.cons_append, List.nil_append] at this
  simp [unqTok, unescape, hex8, hex4, this, hv]

/-- what `escByte` writes for a byte below 0x80 reads back as that byte; it does not start with a
double quote and contains no newline -/
theorem unqTok_escByte (b : Nat) (hb : b < 0x80) (tail : Bytes) :
    unqTok (escByte b ++ tail) = some ([b], tail) ∧
    (∃ c t, escByte b = c :: t ∧ c ≠ 34) ∧ 10 ∉ escByte b := by
  unfold escByte
  by_cases h1 : b = 34 ∨ b = 92
  · rw [if_pos h1]
    rcases h1 with h | h <;> subst h <;> simp [unqTok, unescape]
  rw [if_neg h1]
  by_cases h2 : 32 ≤ b ∧ b < 127
  · rw [if_pos h2]
    have hd : decodeRune (b :: tail) = .ascii := (decode_ascii_iff b tail).mpr hb
    refine ⟨?_, ⟨b, [], rfl, by omega⟩, by simp; omega⟩
    simp only [List.cons_append, List.nil_append, unqTok]
    rw [if_neg (by omega), if_neg (by omega), hd]
  rw [if_neg h2]
  by_cases h7 : b = 7
  · subst h7; simp [unqTok, unescape]
  rw [if_neg h7]
  by_cases h8 : b = 8
  · subst h8; simp [unqTok, unescape]
  rw [if_neg h8]
  by_cases h12 : b = 12
  · subst h12; simp [unqTok, unescape]
  rw [if_neg h12]
  by_cases h10 : b = 10
  · subst h10; simp [unqTok, unescape]
  rw [if_neg h10]
  by_cases h13 : b = 13
  · subst h13; simp [unqTok, unescape]
  rw [if_neg h13]
  by_cases h9 : b = 9
  · subst h9; simp [unqTok, unescape]
  rw [if_neg h9]
  by_cases h11 : b = 11
  · subst h11; simp [unqTok, unescape]
  rw [if_neg h11]
  refine ⟨unqTok_hex b (by omega) tail, ⟨92, _, rfl, by omega⟩, ?_⟩
  simp [hex2, ten_ne_hexDigit]

/-- a valid multi-byte sequence written as itself reads back as itself -/
theorem unqTok_rune (b : Nat) (t' tail : Bytes) (cp w : Nat) (hb : 0xC2 ≤ b)
    (hd : decodeRune ((b :: t') ++ tail) = .rune cp w) (hl : (b :: t').length = w) :
    unqTok ((b :: t') ++ tail) = some (b :: t', tail) := by
  have e : (b :: t') ++ tail = b :: (t' ++ tail) := rfl
  unfold unqTok
  rw [e] at hd ⊢
  simp only
  rw [if_neg (by omega), if_neg (by omega), hd]
  simp only
  rw [← e, ← hl]
  simp

/-- **one token**: what `quoteTok` writes for the first rune of `s` reads back as exactly the bytes it
consumed -/
theorem unqTok_quoteTok (pr : Nat → Bool) (b0 : Nat) (r : Bytes) (hs : IsBytes (b0 :: r)) (tail : Bytes) :
    unqTok ((quoteTok pr (b0 :: r)).1 ++ tail) = some ((b0 :: r).take (quoteTok pr (b0 :: r)).2, tail) ∧
    (∃ c t, (quoteTok pr (b0 :: r)).1 = c :: t ∧ c ≠ 34) ∧ 10 ∉ (quoteTok pr (b0 :: r)).1 ∧
    1 ≤ (quoteTok pr (b0 :: r)).2 ∧ (quoteTok pr (b0 :: r)).2 ≤ (b0 :: r).length := by
  have hb0 : b0 < 256 := hs b0 (List.mem_cons_self ..)
  unfold quoteTok
  simp only
  cases hd : decodeRune (b0 :: r) with
  | ascii =>
    have hlt := (decode_ascii_iff b0 r).mp hd
    obtain ⟨h1, h2, h3⟩ := unqTok_escByte b0 hlt tail
    simp only [List.take_succ_cons, List.take_zero]
    exact ⟨h1, h2, h3, by omega, by simp⟩
  | bad =>
    simp only [List.take_succ_cons, List.take_zero]
    refine ⟨unqTok_hex b0 hb0 tail, ⟨92, _, rfl, by omega⟩, ?_, by omega, by simp⟩
    simp [hex2, ten_ne_hexDigit]
  | rune cp w =>
    obtain ⟨henc, hv, hge, hle, hw2, hwl, hdec, ⟨b0', r', hsr, hb0'⟩⟩ := decode_rune (b0 :: r) cp w hd
    injection hsr with e1 e2
    subst e1; subst e2
    simp only
    refine ⟨?_, ?_, ?_, by omega, hwl⟩
    · cases hp : pr cp with
      | true =>
        simp only [if_true]
        have hlen : ((b0 :: r).take w).length = w := by rw [List.length_take]; exact Nat.min_eq_left hwl
        obtain ⟨w', rfl⟩ : ∃ w', w = w' + 1 := ⟨w - 1, by omega⟩
        have hdt := hdec tail
        simp only [List.take_succ_cons] at hdt hlen ⊢
        exact unqTok_rune b0 (r.take w') tail cp (w' + 1) hb0' hdt hlen
      | false =>
        simp only [Bool.false_eq_true, if_false]
        unfold uEsc
        by_cases h16 : cp < 0x10000
        · rw [if_pos h16, ← henc]; exact unqTok_u4 cp h16 hv tail
        · rw [if_neg h16, ← henc]; exact unqTok_u8 cp (by omega) hv tail
    · cases hp : pr cp with
      | true =>
        simp only [if_true]
        obtain ⟨w', rfl⟩ : ∃ w', w = w' + 1 := ⟨w - 1, by omega⟩
        exact ⟨b0, r.take w', by simp [List.take_succ_cons], by omega⟩
      | false =>
        simp only [Bool.false_eq_true, if_false]
        unfold uEsc
        split
        · exact ⟨92, _, rfl, by omega⟩
        · exact ⟨92, _, rfl, by omega⟩
    · cases hp : pr cp with
      | true =>
        simp only [if_true]
        rw [← henc]
        intro hmem
        have := encodeRune_ge cp hge 10 hmem
        omega
      | false =>
        simp only [Bool.false_eq_true, if_false]
        unfold uEsc
        split
        · simp [hex4, ten_ne_hexDigit]
        · simp [hex8, hex4, ten_ne_hexDigit]

theorem isBytes_drop (s : Bytes) (h : IsBytes s) (w : Nat) : IsBytes (s.drop w) :=
  fun b hb => h b (List.mem_of_mem_drop hb)

/-- the body: `quoteGo` followed by the closing quote reads back as `s` -/
theorem unqGo_quoteGo (pr : Nat → Bool) : ∀ (f : Nat) (s : Bytes), s.length ≤ f → IsBytes s →
    ∀ fuel, (quoteGo pr f s).length + 1 ≤ fuel → unqGo fuel (quoteGo pr f s ++ [34]) = some s := by
  intro f
  induction f with
  | zero =>
    intro s hl _ fuel hf
    have : s = [] := List.eq_nil_of_length_eq_zero (by omega)
    subst this
    obtain ⟨k, rfl⟩ : ∃ k, fuel = k + 1 := ⟨fuel - 1, by simp [quoteGo] at hf; omega⟩
    simp [quoteGo, unqGo]
  | succ f ih =>
    intro s hl hs fuel hf
    match s, hl, hs, hf with
    | [], _, _, hf =>
      obtain ⟨k, rfl⟩ : ∃ k, fuel = k + 1 := ⟨fuel - 1, by simp [quoteGo] at hf; omega⟩
      simp [quoteGo, unqGo]
    | b0 :: r, hl, hs, hf =>
      simp only [quoteGo] at hf ⊢
      obtain ⟨htok, ⟨c, t, hct, hc34⟩, _, hw1, hwl⟩ :=
        unqTok_quoteTok pr b0 r hs (quoteGo pr f ((b0 :: r).drop (quoteTok pr (b0 :: r)).2) ++ [34])
      obtain ⟨k, rfl⟩ : ∃ k, fuel = k + 1 := ⟨fuel - 1, by omega⟩
      rw [List.append_assoc]
      have hlen : ((quoteTok pr (b0 :: r)).1).length ≥ 1 := by rw [hct]; simp
      have ih' := ih ((b0 :: r).drop (quoteTok pr (b0 :: r)).2)
        (by simp only [List.length_drop, List.length_cons] at hl ⊢; omega)
        (isBytes_drop _ hs _) k (by simp only [List.length_append] at hf; omega)
      -- expose the first byte of the token text
      have hstep : unqGo (k + 1) ((quoteTok pr (b0 :: r)).1 ++ (quoteGo pr f ((b0 :: r).drop (quoteTok pr (b0 :: r)).2) ++ [34]))
          = (unqGo k (quoteGo pr f ((b0 :: r).drop (quoteTok pr (b0 :: r)).2) ++ [34])).map
              (((b0 :: r).take (quoteTok pr (b0 :: r)).2) ++ ·) := by
        generalize hrest : (quoteGo pr f ((b0 :: r).drop (quoteTok pr (b0 :: r)).2) ++ [34]) = rest at htok ⊢
        rw [hct] at htok ⊢
        simp only [List.cons_append] at htok ⊢
        conv => lhs; unfold unqGo
        simp only
        rw [if_neg hc34, htok]
      rw [hstep, ih']
      simp only [Option.map_some, List.take_append_drop]

/-- **`unquote (quote s) = s` for every byte string** -/
theorem unquote_quote (pr : Nat → Bool) (s : Bytes) (hs : IsBytes s) : unquote (quote pr s) = some s := by
  unfold quote unquote
  simp only [if_true]
  exact unqGo_quoteGo pr s.length s (Nat.le_refl _) hs _ (by simp)

/-! ### no newline in the quoted text, `printf` -/

theorem quoteGo_no_nl (pr : Nat → Bool) : ∀ (f : Nat) (s : Bytes), IsBytes s → 10 ∉ quoteGo pr f s := by
  intro f
  induction f with
  | zero => intro s _; simp [quoteGo]
  | succ f ih =>
    intro s hs
    match s, hs with
    | [], _ => simp [quoteGo]
    | b0 :: r, hs =>
      simp only [quoteGo, List.mem_append, not_or]
      exact ⟨(unqTok_quoteTok pr b0 r hs []).2.2.1, ih _ (isBytes_drop _ hs _)⟩

theorem quote_no_nl (pr : Nat → Bool) (s : Bytes) (hs : IsBytes s) : 10 ∉ quote pr s := by
  unfold quote
  simp only [List.mem_cons, List.mem_append, List.mem_nil_iff, or_false, not_or]
  exact ⟨by omega, quoteGo_no_nl pr _ s hs, by omega⟩

theorem splitNL_no_nl (t : Bytes) (h : 10 ∉ t) : splitNL t = [t] := by
  induction t with
  | nil => rfl
  | cons b r ih =>
    simp only [List.mem_cons, not_or] at h
    simp only [splitNL]
    rw [if_neg (fun e => h.1 e.symm), ih h.2]

/-- a message without newline is appended as it is, after the indentation -/
theorem printfOut_no_nl (k : Nat) (t : Bytes) (h : 10 ∉ t) (hne : t ≠ []) : printfOut k t = tabs k ++ t := by
  unfold printfOut
  by_cases hk : k = 0
  · subst hk; simp [tabs]
  · rw [if_neg hk, splitNL_no_nl t h]
    simp [joinNL, padLine, hne]

theorem dropTabs_tabs (k : Nat) (t : Bytes) (h : t.head? ≠ some 9) : dropTabs (tabs k ++ t) = t := by
  induction k with
  | zero =>
    simp only [tabs, List.replicate_zero, List.nil_append]
    cases t with
    | nil => rfl
    | cons b r =>
      simp only [List.head?_cons, ne_eq, Option.some.injEq] at h
      simp [dropTabs, h]
  | succ k ih =>
    simp only [tabs, List.replicate_succ, List.cons_append, dropTabs, if_true] at ih ⊢
    exact ih

/-! ### raw literals -/

theorem unqRaw_append (s : Bytes) (h : 96 ∉ s) : unqRaw (s ++ [96]) = some (s.filter (· ≠ 13)) := by
  induction s with
  | nil => simp [unqRaw]
  | cons b r ih =>
    simp only [List.mem_cons, not_or] at h
    simp only [List.cons_append, unqRaw]
    rw [if_neg (fun e => h.1 e.symm), ih h.2]
    by_cases h13 : b = 13
    · subst h13; simp
    · simp [h13]

/-! ### integers -/

theorem readAux_digitsAux : ∀ (fuel n : Nat) (acc : Bytes), n < fuel →
    readAux 0 (digitsAux fuel n acc) = readAux n acc := by
  intro fuel
  induction fuel with
  | zero => intro n _ h; omega
  | succ fuel ih =>
    intro n acc h
    unfold digitsAux
    by_cases h10 : n < 10
    · rw [if_pos h10]
      simp only [readAux]
      rw [if_pos (by omega)]
      congr 1; omega
    · rw [if_neg h10, ih (n / 10) _ (by omega)]
      simp only [readAux]
      rw [if_pos (by omega)]
      congr 1; omega

theorem digitsAux_head : ∀ (fuel n : Nat) (acc : Bytes), n < fuel →
    ∃ c t, digitsAux fuel n acc = c :: t ∧ 48 ≤ c ∧ c ≤ 57 := by
  intro fuel
  induction fuel with
  | zero => intro n _ h; omega
  | succ fuel ih =>
    intro n acc h
    unfold digitsAux
    by_cases h10 : n < 10
    · rw [if_pos h10]; exact ⟨48 + n, acc, rfl, by omega, by omega⟩
    · rw [if_neg h10]; exact ih (n / 10) _ (by omega)

theorem readNat_showNat (n : Nat) : readNat (showNat n) = some n := by
  unfold readNat showNat
  obtain ⟨c, t, h, _, _⟩ := digitsAux_head (n + 1) n [] (by omega)
  rw [if_neg (by rw [h]; simp), readAux_digitsAux (n + 1) n [] (by omega)]
  rfl

/-- **`%d` reads back exactly**, for every integer (Go constants are exact) -/
theorem readInt_showInt (i : Int) : readInt (showInt i) = some i := by
  unfold showInt
  by_cases hneg : i < 0
  · rw [if_pos hneg]
    unfold readInt
    simp only [if_true]
    rw [readNat_showNat]
    simp only [Option.map_some]
    have := Int.ofNat_natAbs_of_nonpos (Int.le_of_lt hneg)
    congr 1
    show -(i.natAbs : Int) = i
    omega
  · rw [if_neg hneg]
    obtain ⟨c, t, h, h48, _⟩ := digitsAux_head (i.natAbs + 1) i.natAbs [] (by omega)
    have hs : showNat i.natAbs = c :: t := h
    unfold readInt
    rw [hs]
    simp only
    rw [if_neg (by omega), ← hs, readNat_showNat]
    have := Int.natAbs_of_nonneg (Int.not_lt.mp hneg)
    simp only [Option.map_some]
    congr 1

/-! ### floats -/

theorem evalFloat_mag (m : Bytes) (h : magOk m) : evalFloat m = some (.fin false m) ∧ evalFloat (45 :: m) = some (.fin true m) := by
  match m, h with
  | c :: r, h =>
    obtain ⟨hd, hne⟩ := h
    unfold isDigit at hd
    have hm : magOk (c :: r) := ⟨hd, hne⟩
    constructor
    · unfold evalFloat
      rw [if_neg (by simp [txtCopysign]; omega), if_neg (by simp [txtInfPos]; omega), if_neg (by simp [txtInfNeg]; omega),
        if_neg (by simp [txtNaN]; omega)]
      simp only
      rw [if_neg (by omega), if_neg hne, if_pos hm]
    · unfold evalFloat
      rw [if_neg (by simp [txtCopysign]), if_neg (by simp [txtInfPos]), if_neg (by simp [txtInfNeg]), if_neg (by simp [txtNaN])]
      simp only [if_true]
      rw [if_neg hne, if_pos hm]

theorem readBool_showBool (b : Bool) : readBool (showBool b) = some b := by
  cases b <;> simp [showBool, readBool]

end Proofs.EmitQuote
