import Model.DeclMods
import Spec.DeclMods
/-! Lemmas for the modifier-resolution part of C07: a parser whose keyword branches assign their own variable
resolves the keywords it consumes by a left fold of `stepKw`, and that fold is what `Spec.DeclMods.Resolved`
describes. -/
namespace Proofs.DeclMods
open Model.Access (Mod)
open Model.DeclMods Spec.DeclMods

/-- what one keyword means -/
def stepKw (m : Mods) (k : Kw) : Mods := applyActs m (canon k)

theorem findBranch_some {bs : List Branch} {k : Kw} {b : Branch} (h : findBranch bs k = some b) :
    b ∈ bs ∧ b.tok = k := by
  induction bs with
  | nil => simp [findBranch] at h
  | cons x xs ih =>
    unfold findBranch at h
    by_cases hx : x.tok = k
    · rw [if_pos hx] at h
      cases h
      exact ⟨List.mem_cons_self, hx⟩
    · rw [if_neg hx] at h
      have := ih h
      exact ⟨List.mem_cons_of_mem _ this.1, this.2⟩

theorem findBranch_none {bs : List Branch} {k : Kw} (h : findBranch bs k = none) :
    ∀ b ∈ bs, b.tok ≠ k := by
  induction bs with
  | nil => intro b hb; cases hb
  | cons x xs ih =>
    unfold findBranch at h
    by_cases hx : x.tok = k
    · rw [if_pos hx] at h; cases h
    · rw [if_neg hx] at h
      intro b hb
      cases hb with
      | head => exact hx
      | tail _ hb => exact ih h b hb

theorem wfBranch_acts {b : Branch} (h : wfBranch b = true) : b.acts = canon b.tok := by
  unfold wfBranch at h
  simp at h
  exact h.1

theorem runRep_nil (bs : List Branch) (m : Mods) : runRep bs [] m = (m, []) := rfl

theorem runRep_cons (bs : List Branch) (k : Kw) (ks : List Kw) (m : Mods) :
    runRep bs (k :: ks) m =
      match findBranch bs k with
      | some b => runRep bs ks (applyActs m b.acts)
      | none => (m, k :: ks) := rfl

/-- a repeated stage of well-formed branches consumes a prefix and folds `stepKw` over it -/
theorem runRep_split (bs : List Branch) (hw : ∀ b ∈ bs, wfBranch b = true) :
    ∀ (ks : List Kw) (m : Mods),
      ∃ pre, pre ++ (runRep bs ks m).2 = ks ∧ (runRep bs ks m).1 = pre.foldl stepKw m := by
  intro ks
  induction ks with
  | nil => intro m; exact ⟨[], rfl, rfl⟩
  | cons k ks ih =>
    intro m
    rw [runRep_cons]
    cases hf : findBranch bs k with
    | none => exact ⟨[], rfl, rfl⟩
    | some b =>
      obtain ⟨hb, ht⟩ := findBranch_some hf
      obtain ⟨pre, h1, h2⟩ := ih (applyActs m b.acts)
      refine ⟨k :: pre, ?_, ?_⟩
      · show k :: (pre ++ _) = k :: ks
        rw [h1]
      · show (runRep bs ks (applyActs m b.acts)).1 = List.foldl stepKw (stepKw m k) pre
        rw [h2, stepKw, ← ht, wfBranch_acts (hw b hb)]

theorem runOnce_split (bs : List Branch) (hw : ∀ b ∈ bs, wfBranch b = true) (ks : List Kw) (m : Mods) :
    ∃ pre, pre ++ (runOnce bs ks m).2 = ks ∧ (runOnce bs ks m).1 = pre.foldl stepKw m := by
  cases ks with
  | nil => exact ⟨[], rfl, rfl⟩
  | cons k ks =>
    show ∃ pre, pre ++ (match findBranch bs k with
        | some b => (applyActs m b.acts, ks)
        | none => (m, k :: ks)).2 = k :: ks ∧
      (match findBranch bs k with
        | some b => (applyActs m b.acts, ks)
        | none => (m, k :: ks)).1 = pre.foldl stepKw m
    cases hf : findBranch bs k with
    | none => exact ⟨[], rfl, rfl⟩
    | some b =>
      obtain ⟨hb, ht⟩ := findBranch_some hf
      refine ⟨[k], rfl, ?_⟩
      show applyActs m b.acts = stepKw m k
      rw [stepKw, ← ht, wfBranch_acts (hw b hb)]

theorem runStage_split (st : Stage) (hw : wfStage st = true) (ks : List Kw) (m : Mods) :
    ∃ pre, pre ++ (runStage st ks m).2 = ks ∧ (runStage st ks m).1 = pre.foldl stepKw m := by
  have hb : ∀ b ∈ st.branches, wfBranch b = true := by
    unfold wfStage at hw
    exact List.all_eq_true.mp hw
  unfold runStage
  cases st.rep with
  | true => simpa using runRep_split st.branches hb ks m
  | false => simpa using runOnce_split st.branches hb ks m

theorem runStages_split (sts : List Stage) (hw : ∀ st ∈ sts, wfStage st = true) :
    ∀ (ks : List Kw) (m : Mods),
      ∃ pre, pre ++ (runStages sts ks m).2 = ks ∧ (runStages sts ks m).1 = pre.foldl stepKw m := by
  induction sts with
  | nil => intro ks m; exact ⟨[], rfl, rfl⟩
  | cons st sts ih =>
    intro ks m
    obtain ⟨p1, a1, b1⟩ := runStage_split st (hw st List.mem_cons_self) ks m
    obtain ⟨p2, a2, b2⟩ := ih (fun s hs => hw s (List.mem_cons_of_mem _ hs)) (runStage st ks m).2 (runStage st ks m).1
    refine ⟨p1 ++ p2, ?_, ?_⟩
    · show p1 ++ p2 ++ (runStages sts (runStage st ks m).2 (runStage st ks m).1).2 = ks
      rw [List.append_assoc, a2, a1]
    · show (runStages sts (runStage st ks m).2 (runStage st ks m).1).1 = List.foldl stepKw m (p1 ++ p2)
      rw [b2, b1, List.foldl_append]

/-- an accepted declaration is resolved by folding `stepKw` over ALL its keywords -/
theorem parse_fold {p : Parser} (hw : wf p = true) {kws : List Kw} {m : Mods} (h : parse p kws = some m) :
    m = kws.foldl stepKw p.init := by
  have hs : ∀ st ∈ p.stages, wfStage st = true := by
    unfold wf at hw
    exact List.all_eq_true.mp hw
  obtain ⟨pre, a, b⟩ := runStages_split p.stages hs kws p.init
  unfold parse at h
  by_cases hr : (runStages p.stages kws p.init).2 = []
  · simp only [hr, if_true] at h
    rw [hr, List.append_nil] at a
    rw [a] at b
    split at h
    · cases h
    · cases h; exact b
  · simp only [hr, if_false] at h
    cases h

/-! ### the fold is what the specification says -/

theorem stepKw_vis (m : Mods) (v : Mod) : (stepKw m (.vis v)).vis = some v := rfl

theorem stepKw_vis_flag (m : Mods) (f : Flag) : (stepKw m (.flag f)).vis = m.vis := by
  cases f <;> rfl

theorem stepKw_vis_var (m : Mods) : (stepKw m .var).vis = m.vis := rfl

theorem stepKw_flag (m : Mods) (k : Kw) (f : Flag) :
    (stepKw m k).flag f = (m.flag f || decide (k = .flag f)) := by
  cases k with
  | vis v => cases f <;> simp [stepKw, canon, applyActs, applyAct, Mods.flag]
  | var => cases f <;> simp [stepKw, canon, applyActs, Mods.flag]
  | flag g =>
    cases g <;> cases f <;> simp [stepKw, canon, applyActs, applyAct, Mods.flag, Mods.setFlag]

theorem fold_flag (ks : List Kw) (m : Mods) (f : Flag) :
    (ks.foldl stepKw m).flag f = (m.flag f || decide (Kw.flag f ∈ ks)) := by
  induction ks generalizing m with
  | nil => simp
  | cons k ks ih =>
    rw [List.foldl_cons, ih, stepKw_flag]
    by_cases hk : k = .flag f
    · subst hk; simp
    · have : ¬ (Kw.flag f = k) := fun e => hk e.symm
      simp [hk, List.mem_cons, this]

theorem fold_vis_none (ks : List Kw) (m : Mods) (h : ∀ v, Kw.vis v ∉ ks) :
    (ks.foldl stepKw m).vis = m.vis := by
  induction ks generalizing m with
  | nil => rfl
  | cons k ks ih =>
    rw [List.foldl_cons, ih _ (fun v hv => h v (List.mem_cons_of_mem _ hv))]
    cases k with
    | vis v => exact absurd List.mem_cons_self (h v)
    | flag f => exact stepKw_vis_flag m f
    | var => rfl

theorem fold_vis_some (ks : List Kw) (m : Mods) (v : Mod)
    (h1 : ∀ w, Kw.vis w ∈ ks → w = v) (h2 : m.vis = some v ∨ Kw.vis v ∈ ks) :
    (ks.foldl stepKw m).vis = some v := by
  induction ks generalizing m with
  | nil =>
    cases h2 with
    | inl h => exact h
    | inr h => cases h
  | cons k ks ih =>
    rw [List.foldl_cons]
    apply ih
    · intro w hw; exact h1 w (List.mem_cons_of_mem _ hw)
    · cases k with
      | vis w =>
        left
        rw [stepKw_vis, h1 w List.mem_cons_self]
      | flag f =>
        rw [stepKw_vis_flag]
        cases h2 with
        | inl h => exact .inl h
        | inr h =>
          cases h with
          | tail _ h => exact .inr h
      | var =>
        rw [stepKw_vis_var]
        cases h2 with
        | inl h => exact .inl h
        | inr h =>
          cases h with
          | tail _ h => exact .inr h

theorem fold_resolved (dflt : Mods) (kws : List Kw) : Resolved dflt kws (kws.foldl stepKw dflt) where
  explicit := fun v hv ho => fold_vis_some kws dflt v (fun w hw => ho w v hw hv) (.inr hv)
  default := fold_vis_none kws dflt
  flags := fold_flag kws dflt

theorem Mods.ext' {a b : Mods} (hv : a.vis = b.vis) (hf : ∀ f, a.flag f = b.flag f) : a = b := by
  cases a; cases b
  have h1 := hf .static
  have h2 := hf .readonly
  have h3 := hf .final
  have h4 := hf .abstract
  have h5 := hf .other
  simp only [Mods.flag] at h1 h2 h3 h4 h5
  simp only at hv
  subst hv h1 h2 h3 h4 h5
  rfl

/-- two keyword lists with the same members and at most one visibility resolve to the same modifiers -/
theorem resolved_unique {dflt : Mods} {k1 k2 : List Kw} {m1 m2 : Mods}
    (hm : ∀ k, k ∈ k1 ↔ k ∈ k2) (ho : VisOnce k1)
    (r1 : Resolved dflt k1 m1) (r2 : Resolved dflt k2 m2) : m1 = m2 := by
  have ho2 : VisOnce k2 := fun v w hv hw => ho v w ((hm _).mpr hv) ((hm _).mpr hw)
  apply Mods.ext'
  · by_cases hex : ∃ v, Kw.vis v ∈ k1
    · obtain ⟨v, hv⟩ := hex
      rw [r1.explicit v hv ho, r2.explicit v ((hm _).mp hv) ho2]
    · have n1 : ∀ v, Kw.vis v ∉ k1 := fun v hv => hex ⟨v, hv⟩
      have n2 : ∀ v, Kw.vis v ∉ k2 := fun v hv => hex ⟨v, (hm _).mpr hv⟩
      rw [r1.default n1, r2.default n2]
  · intro f
    rw [r1.flags f, r2.flags f]
    have : decide (Kw.flag f ∈ k1) = decide (Kw.flag f ∈ k2) := by
      rw [decide_eq_decide]; exact hm _
    rw [this]

/-! ### a keyword loop (one repeated stage) takes the keywords in every order -/

theorem runRep_rest_nil (bs : List Branch) :
    ∀ (ks : List Kw) (m : Mods), (runRep bs ks m).2 = [] ↔ ∀ k ∈ ks, (findBranch bs k).isSome = true := by
  intro ks
  induction ks with
  | nil => intro m; simp [runRep_nil]
  | cons k ks ih =>
    intro m
    rw [runRep_cons]
    cases hf : findBranch bs k with
    | none =>
      simp only [List.mem_cons, forall_eq_or_imp, hf, Option.isSome_none]
      constructor
      · intro h; cases h
      · intro h; cases h.1
    | some b =>
      simp only [List.mem_cons, forall_eq_or_imp, hf, Option.isSome_some, true_and]
      exact ih _

end Proofs.DeclMods
