import Proofs.Lemmas.ExcTrace
/-! C05: "finally exactly once" — one `try` statement executed by one activation, and the alternation invariant over
whole runs of re-entrant programs (per activation level). -/
namespace Proofs.Exc
open Model.Exc
open Spec.Exc (mentionsS mentionsB mentionsC goodS goodB goodC isTryEv proj Alternates)

theorem proj_enterTry (L i : Nat) : proj L i [.enterTry L i] = [.enterTry L i] := by simp [proj, isTryEv]
theorem proj_enterFinally (L i : Nat) : proj L i [.enterFinally L i] = [.enterFinally L i] := by simp [proj, isTryEv]

/-- One `try` statement numbered `i` with a finally block, whose parts contain no other `try` numbered `i`, executed
by activation `A` whose callees emit no event of try `i` at `A`'s level (they run at lower levels): whatever the
parts and the callees do and however control leaves, the statement adds exactly `enterTry, enterFinally` to the
events of try `i` of that level. -/
theorem try_once (G : Model.Hier.Graph) (cfg : Cfg) (hg : cfg.guarded = true) (A : Act) (i : Nat) (b : Block)
    (cs : Catches) (fin : Block) (hb : mentionsB i b = false) (hc : mentionsC i cs = false)
    (hf : mentionsB i fin = false) (henv : ∀ k, Extends (NoEv A.lvl i) (A.env k))
    (cur : Option Thrown) (tr : List Ev) :
    ∃ ext, (exec G cfg cur A (.try_ i b cs true fin) tr).2 = tr ++ ext ∧
      proj A.lvl i ext = [.enterTry A.lvl i, .enterFinally A.lvl i] := by
  have hb' := execB_noEv G cfg hg A.lvl i A henv b (fun _ => hb) cur
  have hc' : ∀ x, Extends (NoEv A.lvl i) (fun t => execC G cfg A i 0 x cs t) :=
    fun x => execC_noEv G cfg hg A.lvl i A henv cs (fun _ => hc) i 0 x
  have hf' := execB_noEv G cfg hg A.lvl i A henv fin (fun _ => hf) cur
  simp only [exec, hg, if_true]
  obtain ⟨e1, e2, e3, p1, p2, p3, hs⟩ := tryStmt_shape (mon_noEv A.lvl i) A.lvl i true hb' hc' hf' tr
  refine ⟨[.enterTry A.lvl i] ++ e1 ++ e2 ++ ([.enterFinally A.lvl i] ++ e3), by rw [hs]; simp [List.append_assoc], ?_⟩
  unfold NoEv at p1 p2 p3
  simp only [proj_append, p1, p2, p3, proj_enterTry, proj_enterFinally]
  rfl

theorem alternates_one (L i : Nat) : Alternates L i [.enterTry L i, .enterFinally L i] := ⟨1, rfl⟩

mutual
theorem exec_alt (G : Model.Hier.Graph) (cfg : Cfg) (hg : cfg.guarded = true) (L i : Nat) (A : Act)
    (henv : ∀ k, Extends (Alt L i) (A.env k)) (hlow : A.lvl = L → ∀ k, Extends (NoEv L i) (A.env k)) :
    ∀ (s : Stmt), goodS i s = true → ∀ cur, Extends (Alt L i) (exec G cfg cur A s)
  | .echo m, _, cur => fun tr => ⟨[.echo A.lvl m], by simp [exec], alt_of_noEv (noEv_single rfl)⟩
  | .throw c st, _, cur => fun tr => ⟨[], by simp [exec], alternates_nil L i⟩
  | .rethrow, _, cur => fun tr => ⟨[], by simp [exec], alternates_nil L i⟩
  | .gopanic, _, cur => fun tr => ⟨[], by simp [exec], alternates_nil L i⟩
  | .ret v, _, cur => fun tr => ⟨[], by simp [exec], alternates_nil L i⟩
  | .brk, _, cur => fun tr => ⟨[], by simp [exec], alternates_nil L i⟩
  | .cont, _, cur => fun tr => ⟨[], by simp [exec], alternates_nil L i⟩
  | .loop k b, h, cur => by
    have hb := execB_alt G cfg hg L i A henv hlow b (by simpa [goodS] using h) cur
    intro tr
    simp only [exec]
    exact loopN_extends (mon_alt L i) hb k tr
  | .call b, h, cur => by
    have hb := execB_alt G cfg hg L i A henv hlow b (by simpa [goodS] using h) none
    intro tr
    simp only [exec]
    exact callResult_extends (mon_alt L i) (fun v => alt_of_noEv (noEv_single rfl)) hb tr
  | .callf k, _, cur => by
    intro tr
    simp only [exec]
    exact callNamed_extends (mon_alt L i) (fun v => alt_of_noEv (noEv_single rfl)) A k (henv k) tr
  | .try_ j b cs hasFin fin, h, cur => by
    simp only [goodS, Bool.and_eq_true] at h
    obtain ⟨⟨⟨hj, hb⟩, hc⟩, hf⟩ := h
    by_cases hji : A.lvl = L ∧ j = i
    · obtain ⟨hl, hji⟩ := hji
      subst hji
      simp only [BEq.rfl, if_true, Bool.and_eq_true, Bool.not_eq_true'] at hj
      obtain ⟨⟨⟨hfin, nb⟩, nc⟩, nf⟩ := hj
      subst hfin
      intro tr
      obtain ⟨ext, h1, h2⟩ := try_once G cfg hg A j b cs fin nb nc nf (by rw [hl]; exact hlow hl) cur tr
      refine ⟨ext, h1, ?_⟩
      show Alternates L j (proj L j ext)
      rw [← hl, h2]; exact alternates_one A.lvl j
    · have hb' := execB_alt G cfg hg L i A henv hlow b hb cur
      have hc' : ∀ x, Extends (Alt L i) (fun t => execC G cfg A j 0 x cs t) :=
        fun x => execC_alt G cfg hg L i A henv hlow cs hc j 0 x
      have hf' := execB_alt G cfg hg L i A henv hlow fin hf cur
      intro tr
      simp only [exec, hg, if_true]
      obtain ⟨e1, e2, e3, p1, p2, p3, hs⟩ := tryStmt_shape (mon_alt L i) A.lvl j hasFin hb' hc' hf' tr
      have hj' := isTryEv_enterTry_false hji
      have hj'' := isTryEv_enterFinally_false hji
      refine ⟨[.enterTry A.lvl j] ++ e1 ++ e2 ++ (if hasFin then [.enterFinally A.lvl j] ++ e3 else []),
        by rw [hs]; simp [List.append_assoc], ?_⟩
      unfold Alt at *
      cases hasFin
      · simp only [proj_append, proj_single_other hj', Bool.false_eq_true, if_false, List.nil_append]
        have : proj L i ([] : List Ev) = [] := rfl
        rw [this, List.append_nil]
        exact alternates_append p1 p2
      · simp only [if_true, proj_append, proj_single_other hj', proj_single_other hj'', List.nil_append]
        exact alternates_append (alternates_append p1 p2) p3
theorem execB_alt (G : Model.Hier.Graph) (cfg : Cfg) (hg : cfg.guarded = true) (L i : Nat) (A : Act)
    (henv : ∀ k, Extends (Alt L i) (A.env k)) (hlow : A.lvl = L → ∀ k, Extends (NoEv L i) (A.env k)) :
    ∀ (b : Block), goodB i b = true → ∀ cur, Extends (Alt L i) (execB G cfg cur A b)
  | .nil, _, cur => fun tr => ⟨[], by simp [execB], alternates_nil L i⟩
  | .cons s rest, h, cur => by
    simp only [goodB, Bool.and_eq_true] at h
    have hs := exec_alt G cfg hg L i A henv hlow s h.1 cur
    have hr := execB_alt G cfg hg L i A henv hlow rest h.2 cur
    intro tr
    obtain ⟨e1, h1, p1⟩ := hs tr
    rw [execB]
    split
    · rename_i tr' heq
      obtain ⟨e2, h2, p2⟩ := hr tr'
      have : tr' = tr ++ e1 := by rw [← h1, heq]
      exact ⟨e1 ++ e2, by rw [h2, this, List.append_assoc], (mon_alt L i).app p1 p2⟩
    · exact ⟨e1, h1, p1⟩
theorem execC_alt (G : Model.Hier.Graph) (cfg : Cfg) (hg : cfg.guarded = true) (L i : Nat) (A : Act)
    (henv : ∀ k, Extends (Alt L i) (A.env k)) (hlow : A.lvl = L → ∀ k, Extends (NoEv L i) (A.env k)) :
    ∀ (cs : Catches), goodC i cs = true → ∀ j k x, Extends (Alt L i) (execC G cfg A j k x cs)
  | .nil, _, j, k, x => fun tr => ⟨[], by simp [execC], alternates_nil L i⟩
  | .cons tys b rest, h, j, k, x => by
    simp only [goodC, Bool.and_eq_true] at h
    have hb := execB_alt G cfg hg L i A henv hlow b h.1 (some x)
    have hr := execC_alt G cfg hg L i A henv hlow rest h.2 j (k+1) x
    intro tr
    rw [execC]
    split
    · obtain ⟨e, h1, p1⟩ := hb (tr ++ [.caught A.lvl j k x])
      refine ⟨[.caught A.lvl j k x] ++ e, by rw [h1]; simp [List.append_assoc], ?_⟩
      exact (mon_alt L i).app (alt_of_noEv (noEv_single rfl)) p1
    · exact hr tr
end

/-- every call, from every level, adds an alternating sequence to the events of try `i` of level `L`: the nested
activations that re-enter the same `try` statement run at other levels -/
theorem envAt_alt (G : Model.Hier.Graph) (cfg : Cfg) (hg : cfg.guarded = true) (fns : List Block) (i : Nat)
    (hf : ∀ b ∈ fns, goodB i b = true) : ∀ (n L : Nat) k, Extends (Alt L i) (envAt G cfg fns n k)
  | 0, L, k => fun tr => ⟨[], by simp [envAt], alternates_nil L i⟩
  | n+1, L, k => by
    intro tr
    rw [envAt]
    split
    · rename_i b hb
      exact execB_alt G cfg hg L i ⟨n, envAt G cfg fns n⟩ (envAt_alt G cfg hg fns i hf n L)
        (fun e => envAt_noEv_above G cfg hg fns i n L (by simp at e; omega)) b
        (hf b (List.mem_of_getElem? hb)) none tr
    · exact ⟨[], by simp, alternates_nil L i⟩

end Proofs.Exc
