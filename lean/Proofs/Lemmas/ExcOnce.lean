import Proofs.Lemmas.ExcTrace
/-! C05: "finally exactly once" — one `try` statement, and the alternation invariant over whole runs. -/
namespace Proofs.Exc
open Model.Exc
open Spec.Exc (mentionsS mentionsB mentionsC goodS goodB goodC isTryEv proj Alternates)

theorem proj_enterTry (i : Nat) : proj i [.enterTry i] = [.enterTry i] := by simp [proj, isTryEv]
theorem proj_enterFinally (i : Nat) : proj i [.enterFinally i] = [.enterFinally i] := by simp [proj, isTryEv]

/-- One `try` statement numbered `i` with a finally block, whose parts contain no other `try` numbered `i`:
whatever the parts do and however control leaves, the statement adds exactly `enterTry i, enterFinally i`
to the events of try `i`. -/
theorem try_once (G : Model.Hier.Graph) (cfg : Cfg) (hg : cfg.guarded = true) (i : Nat) (b : Block) (cs : Catches)
    (fin : Block) (hb : mentionsB i b = false) (hc : mentionsC i cs = false) (hf : mentionsB i fin = false)
    (cur : Option Thrown) (tr : List Ev) :
    ∃ ext, (exec G cfg cur (.try_ i b cs true fin) tr).2 = tr ++ ext ∧
      proj i ext = [.enterTry i, .enterFinally i] := by
  have hb' := execB_noEv G cfg hg i b hb cur
  have hc' : ∀ x, Extends (fun e => proj i e = []) (fun t => execC G cfg i 0 x cs t) :=
    fun x => execC_noEv G cfg hg i cs hc i 0 x
  have hf' := execB_noEv G cfg hg i fin hf cur
  simp only [exec, hg, if_true]
  obtain ⟨e1, e2, e3, p1, p2, p3, hs⟩ := tryStmt_shape (mon_noEv i) i true hb' hc' hf' tr
  refine ⟨[.enterTry i] ++ e1 ++ e2 ++ ([.enterFinally i] ++ e3), by rw [hs]; simp [List.append_assoc], ?_⟩
  simp only [proj_append, p1, p2, p3, proj_enterTry, proj_enterFinally]
  rfl

theorem alternates_one (i : Nat) : Alternates i [.enterTry i, .enterFinally i] := ⟨1, rfl⟩

mutual
theorem exec_alt (G : Model.Hier.Graph) (cfg : Cfg) (hg : cfg.guarded = true) (i : Nat) :
    ∀ (s : Stmt), goodS i s = true → ∀ cur, Extends (fun e => Alternates i (proj i e)) (exec G cfg cur s)
  | .echo m, _, cur => fun tr => ⟨[.echo m], by simp [exec], by show Alternates i (proj i [.echo m]); rw [proj_single_other rfl]; exact alternates_nil i⟩
  | .throw c st, _, cur => fun tr => ⟨[], by simp [exec], alternates_nil i⟩
  | .rethrow, _, cur => fun tr => ⟨[], by simp [exec], alternates_nil i⟩
  | .gopanic, _, cur => fun tr => ⟨[], by simp [exec], alternates_nil i⟩
  | .ret v, _, cur => fun tr => ⟨[], by simp [exec], alternates_nil i⟩
  | .brk, _, cur => fun tr => ⟨[], by simp [exec], alternates_nil i⟩
  | .cont, _, cur => fun tr => ⟨[], by simp [exec], alternates_nil i⟩
  | .loop k b, h, cur => by
    have hb := execB_alt G cfg hg i b (by simpa [goodS] using h) cur
    intro tr
    simp only [exec]
    exact loopN_extends (mon_alt i) hb k tr
  | .call b, h, cur => by
    have hb := execB_alt G cfg hg i b (by simpa [goodS] using h) none
    intro tr
    simp only [exec]
    exact callResult_extends (mon_alt i)
      (fun v => by show Alternates i (proj i [.result v]); rw [proj_single_other rfl]; exact alternates_nil i) hb tr
  | .try_ j b cs hasFin fin, h, cur => by
    simp only [goodS, Bool.and_eq_true] at h
    obtain ⟨⟨⟨hj, hb⟩, hc⟩, hf⟩ := h
    by_cases hji : j = i
    · subst hji
      simp only [BEq.rfl, if_true, Bool.and_eq_true, Bool.not_eq_true'] at hj
      obtain ⟨⟨⟨hfin, nb⟩, nc⟩, nf⟩ := hj
      subst hfin
      intro tr
      obtain ⟨ext, h1, h2⟩ := try_once G cfg hg j b cs fin nb nc nf cur tr
      exact ⟨ext, h1, by show Alternates j (proj j ext); rw [h2]; exact alternates_one j⟩
    · have hb' := execB_alt G cfg hg i b hb cur
      have hc' : ∀ x, Extends (fun e => Alternates i (proj i e)) (fun t => execC G cfg j 0 x cs t) :=
        fun x => execC_alt G cfg hg i cs hc j 0 x
      have hf' := execB_alt G cfg hg i fin hf cur
      intro tr
      simp only [exec, hg, if_true]
      obtain ⟨e1, e2, e3, p1, p2, p3, hs⟩ := tryStmt_shape (mon_alt i) j hasFin hb' hc' hf' tr
      have hj' : isTryEv i (.enterTry j) = false := by simpa [isTryEv] using hji
      have hj'' : isTryEv i (.enterFinally j) = false := by simpa [isTryEv] using hji
      refine ⟨[.enterTry j] ++ e1 ++ e2 ++ (if hasFin then [.enterFinally j] ++ e3 else []),
        by rw [hs]; simp [List.append_assoc], ?_⟩
      cases hasFin
      · simp only [proj_append, proj_single_other hj', Bool.false_eq_true, if_false, List.nil_append]
        have : proj i ([] : List Ev) = [] := rfl
        rw [this, List.append_nil]
        exact alternates_append p1 p2
      · simp only [if_true, proj_append, proj_single_other hj', proj_single_other hj'', List.nil_append]
        exact alternates_append (alternates_append p1 p2) p3
theorem execB_alt (G : Model.Hier.Graph) (cfg : Cfg) (hg : cfg.guarded = true) (i : Nat) :
    ∀ (b : Block), goodB i b = true → ∀ cur, Extends (fun e => Alternates i (proj i e)) (execB G cfg cur b)
  | .nil, _, cur => fun tr => ⟨[], by simp [execB], alternates_nil i⟩
  | .cons s rest, h, cur => by
    simp only [goodB, Bool.and_eq_true] at h
    have hs := exec_alt G cfg hg i s h.1 cur
    have hr := execB_alt G cfg hg i rest h.2 cur
    intro tr
    obtain ⟨e1, h1, p1⟩ := hs tr
    rw [execB]
    split
    · rename_i tr' heq
      obtain ⟨e2, h2, p2⟩ := hr tr'
      have : tr' = tr ++ e1 := by rw [← h1, heq]
      exact ⟨e1 ++ e2, by rw [h2, this, List.append_assoc], (mon_alt i).app p1 p2⟩
    · exact ⟨e1, h1, p1⟩
theorem execC_alt (G : Model.Hier.Graph) (cfg : Cfg) (hg : cfg.guarded = true) (i : Nat) :
    ∀ (cs : Catches), goodC i cs = true → ∀ j k x, Extends (fun e => Alternates i (proj i e)) (execC G cfg j k x cs)
  | .nil, _, j, k, x => fun tr => ⟨[], by simp [execC], alternates_nil i⟩
  | .cons tys b rest, h, j, k, x => by
    simp only [goodC, Bool.and_eq_true] at h
    have hb := execB_alt G cfg hg i b h.1 (some x)
    have hr := execC_alt G cfg hg i rest h.2 j (k+1) x
    intro tr
    rw [execC]
    split
    · obtain ⟨e, h1, p1⟩ := hb (tr ++ [.caught j k x])
      refine ⟨[.caught j k x] ++ e, by rw [h1]; simp [List.append_assoc], ?_⟩
      show Alternates i (proj i ([.caught j k x] ++ e))
      rw [proj_append, proj_single_other rfl]
      exact p1
    · exact hr tr
end

end Proofs.Exc
