import Proofs.Lemmas.RefSlot
/-!
C06 — `Model.RefSlot`: in a state without marked cells a store changes the written array only,
and a copy neither marks nor binds anything.
-/
namespace Proofs.RefSlot
open Model.RefSlot

theorem copy_heap_bnd (cfg : Cfg) (s : St) (x y : Nat) :
    (step cfg s (.copy x y)).heap = s.heap ∧ (step cfg s (.copy x y)).bnd = s.bnd := by
  simp only [step, stepOpt]
  by_cases hx : x < s.arrs.length
  · simp only [hx, if_true]
    cases s.arrs[y]? <;> simp
  · simp [hx]

theorem store_local_of_unmarked (s : St) (hw : WF s)
    (hu : ∀ (c : Nat) (cl : Cell), s.heap[c]? = some cl → cl.cnt = 0)
    (z i : Nat) (v : Int) (w : Nat) (hwz : w ≠ z) :
    (vals (step .counted s (.store z i v)))[w]? = (vals s)[w]? := by
  simp only [step, stepOpt]
  cases h : storeSlot s z i v with
  | none => simp
  | some s1 =>
    simp only [Option.getD_some]
    obtain ⟨a, c0, cl, hx, hi, hc, hbr⟩ := storeSlot_some s s1 z i v h
    rcases hbr with ⟨hpos, _⟩ | ⟨_, rfl⟩
    · have := hu c0 cl hc; omega
    · unfold vals
      simp only [List.getElem?_map, List.getElem?_set_ne (Ne.symm hwz)]
      cases hw' : s.arrs[w]? with
      | none => rfl
      | some b =>
        simp only [Option.map_some]
        congr 1
        apply List.map_congr_left
        intro c hcmem
        obtain ⟨j, hj⟩ := List.getElem?_of_mem hcmem
        exact cellVal_append_left _ _ _ (hw.slots w b j c hw' hj)

end Proofs.RefSlot
