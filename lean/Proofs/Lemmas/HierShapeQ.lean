import Proofs.Lemmas.HierBfs
import Model.HierShape
/-! C08: every well-shaped `Worklist` (queue or stack, the target test before or after the lookup) decides reachability in
the interface graph, on every graph — the three lemmas of `HierBfs` (soundness, closedness invariant, counting) redone for the
interpreter `runW` of an arbitrary fact record that passes `Worklist.ok`. -/
namespace Proofs.HierShape
open Model.Hier Spec.Hier Model.HierShape Proofs.Hier

structure WOK (S : Worklist) : Prop where
  startHit : S.startHit = true
  seed : S.seed = .all
  loop : S.loop = .live
  take : S.take = .head ∨ S.take = .last
  hitOnTake : S.hitOnTake = true
  onSeen : S.onSeen = .skip
  marks : S.marks = true
  onMissing : S.onMissing = .next
  push : S.push = .all
  dry : S.dry = false

theorem wok_of_ok {S : Worklist} (h : S.ok = true) : WOK S := by
  simp only [Worklist.ok, Bool.and_eq_true, Bool.or_eq_true, beq_iff_eq, Bool.not_eq_true'] at h
  obtain ⟨⟨⟨⟨⟨⟨⟨⟨⟨h1, h2⟩, h3⟩, h4⟩, h5⟩, h6⟩, h7⟩, h8⟩, h9⟩, h10⟩ := h
  exact ⟨h1, h2, h3, h4, h5, h6, h7, h8, h9, h10⟩

theorem mem_pushed {S : Worklist} (h : WOK S) (q ps : List Name) (x : Name) :
    x ∈ S.pushed q ps ↔ x ∈ q ∨ x ∈ ps := by
  unfold Worklist.pushed
  rw [h.loop, h.push]
  simp only [Sel.of]
  split
  · simp [List.mem_append, List.mem_reverse, or_comm]
  · simp [List.mem_append]

theorem length_pushed {S : Worklist} (h : WOK S) (q ps : List Name) :
    (S.pushed q ps).length = q.length + ps.length := by
  unfold Worklist.pushed
  rw [h.loop, h.push]
  simp only [Sel.of]
  split
  · simp [List.length_append, List.length_reverse]; omega
  · simp [List.length_append]

theorem mem_seedQ {S : Worklist} (h : WOK S) (ps : List Name) (x : Name) : x ∈ S.seedQ ps ↔ x ∈ ps := by
  unfold Worklist.seedQ
  rw [h.seed]
  simp only [Sel.of]
  split <;> simp

theorem length_seedQ {S : Worklist} (h : WOK S) (ps : List Name) : (S.seedQ ps).length = ps.length := by
  unfold Worklist.seedQ
  rw [h.seed]
  simp only [Sel.of]
  split <;> simp

/-- one trip of a well-shaped loop -/
theorem runW_step {S : Worklist} (h : WOK S) (G : Graph) (t : Name) (f : Nat) (n : Name) (q vis : List Name) :
    runW S G t (f+1) (n :: q) vis =
      if n = t then some true
      else if n ∈ vis then runW S G t f q vis
      else
        match getIface G n with
        | none => runW S G t f q (n :: vis)
        | some p => if (S.hitOnLoad && p.name == t) = true then some true else runW S G t f (S.pushed q p.ext) (n :: vis) := by
  rw [runW]
  simp only [h.hitOnTake, h.onSeen, h.marks, h.onMissing, Bool.true_and, beq_iff_eq, if_true]
  by_cases hnt : n = t
  · simp [hnt]
  · simp only [hnt, if_false]
    by_cases hv : n ∈ vis
    · simp [hv]
    · cases getIface G n <;> simp [hv]

theorem runW_nil (S : Worklist) (G : Graph) (t : Name) (f : Nat) (vis : List Name) : runW S G t f [] vis = some S.dry := by
  cases f <;> simp [runW]

theorem runW_zero (S : Worklist) (G : Graph) (t : Name) (n : Name) (q vis : List Name) : runW S G t 0 (n :: q) vis = none := by
  simp [runW]

/-- soundness: `true` only if some queued name reaches the target -/
theorem runW_sound {S : Worklist} (h : WOK S) (G : Graph) (t : Name) :
    ∀ f q vis, runW S G t f q vis = some true → ∃ x ∈ q, IReach G x t := by
  intro f
  induction f with
  | zero =>
    intro q vis hr
    cases q with
    | nil => rw [runW_nil, h.dry] at hr; cases hr
    | cons n q => rw [runW_zero] at hr; cases hr
  | succ f ih =>
    intro q vis hr
    cases q with
    | nil => rw [runW_nil, h.dry] at hr; cases hr
    | cons n q =>
      rw [runW_step h] at hr
      split at hr
      · rename_i hn; exact ⟨n, by simp, hn ▸ IReach.refl _⟩
      · split at hr
        · obtain ⟨x, hx, hxr⟩ := ih _ _ hr; exact ⟨x, by simp [hx], hxr⟩
        · split at hr
          · obtain ⟨x, hx, hxr⟩ := ih _ _ hr; exact ⟨x, by simp [hx], hxr⟩
          · rename_i p hp
            split at hr
            · rename_i hpt
              simp only [Bool.and_eq_true, beq_iff_eq] at hpt
              have := getIface_name hp
              exact ⟨n, by simp, by rw [← this, hpt.2]; exact IReach.refl _⟩
            · obtain ⟨x, hx, hxr⟩ := ih _ _ hr
              rcases (mem_pushed h _ _ _).1 hx with hx | hx
              · exact ⟨x, by simp [hx], hxr⟩
              · exact ⟨n, by simp, IReach.step hp hx hxr⟩

/-- completeness: `false` means nothing queued or visited reaches the target -/
theorem runW_complete {S : Worklist} (h : WOK S) (G : Graph) (t : Name) :
    ∀ f q vis, runW S G t f q vis = some false → Closed G t q vis → ∀ x, x ∈ q ∨ x ∈ vis → ¬ IReach G x t := by
  intro f
  induction f with
  | zero =>
    intro q vis hr hc x hx hxr
    cases q with
    | nil =>
      have hxv : x ∈ vis := by simpa using hx
      exact (hc _ (closed_final hc _ _ hxr hxv)).1 rfl
    | cons n q => rw [runW_zero] at hr; cases hr
  | succ f ih =>
    intro q vis hr hc x hx hxr
    cases q with
    | nil =>
      have hxv : x ∈ vis := by simpa using hx
      exact (hc _ (closed_final hc _ _ hxr hxv)).1 rfl
    | cons n q =>
      rw [runW_step h] at hr
      split at hr
      · cases hr
      · rename_i hnt
        split at hr
        · rename_i hv
          have hc' : Closed G t q vis := by
            intro v hvv
            refine ⟨(hc v hvv).1, fun w hw => ?_⟩
            rcases (hc v hvv).2 w hw with h1 | h1
            · exact Or.inl h1
            · rcases List.mem_cons.1 h1 with rfl | h2
              · exact Or.inl hv
              · exact Or.inr h2
          refine ih _ _ hr hc' x ?_ hxr
          rcases hx with hx | hx
          · rcases List.mem_cons.1 hx with rfl | hx
            · exact Or.inr hv
            · exact Or.inl hx
          · exact Or.inr hx
        · split at hr
          · rename_i hnone
            have hc' : Closed G t q (n :: vis) := by
              intro v hvv
              rcases List.mem_cons.1 hvv with rfl | hvv
              · refine ⟨hnt, fun w hw => ?_⟩
                unfold isucc at hw; rw [hnone] at hw; simp at hw
              · refine ⟨(hc v hvv).1, fun w hw => ?_⟩
                rcases (hc v hvv).2 w hw with h1 | h1
                · exact Or.inl (List.mem_cons_of_mem _ h1)
                · rcases List.mem_cons.1 h1 with rfl | h2
                  · exact Or.inl (by simp)
                  · exact Or.inr h2
            refine ih _ _ hr hc' x ?_ hxr
            rcases hx with hx | hx
            · rcases List.mem_cons.1 hx with rfl | hx
              · exact Or.inr (by simp)
              · exact Or.inl hx
            · exact Or.inr (List.mem_cons_of_mem _ hx)
          · rename_i p hp
            split at hr
            · cases hr
            · have hc' : Closed G t (S.pushed q p.ext) (n :: vis) := by
                intro v hvv
                rcases List.mem_cons.1 hvv with rfl | hvv
                · refine ⟨hnt, fun w hw => ?_⟩
                  unfold isucc at hw; rw [hp] at hw
                  exact Or.inr ((mem_pushed h _ _ _).2 (Or.inr hw))
                · refine ⟨(hc v hvv).1, fun w hw => ?_⟩
                  rcases (hc v hvv).2 w hw with h1 | h1
                  · exact Or.inl (List.mem_cons_of_mem _ h1)
                  · rcases List.mem_cons.1 h1 with rfl | h2
                    · exact Or.inl (by simp)
                    · exact Or.inr ((mem_pushed h _ _ _).2 (Or.inl h2))
              refine ih _ _ hr hc' x ?_ hxr
              rcases hx with hx | hx
              · rcases List.mem_cons.1 hx with rfl | hx
                · exact Or.inr (by simp)
                · exact Or.inl ((mem_pushed h _ _ _).2 (Or.inl hx))
              · exact Or.inr (List.mem_cons_of_mem _ hx)

/-- the loop never runs out of fuel when `fuel > |queue| + (extends entries of unvisited interfaces)` -/
theorem runW_fuel {S : Worklist} (h : WOK S) (G : Graph) (t : Name) :
    ∀ f q vis, q.length + rem vis G.ifaces < f → runW S G t f q vis ≠ none := by
  intro f
  induction f with
  | zero => intro q vis hlt; omega
  | succ f ih =>
    intro q vis hlt
    cases q with
    | nil => simp [runW_nil]
    | cons n q =>
      rw [runW_step h]
      simp only [List.length_cons] at hlt
      split
      · simp
      · split
        · exact ih _ _ (by omega)
        · rename_i hv
          split
          · have := rem_mono n vis G.ifaces
            exact ih _ _ (by omega)
          · rename_i p hp
            split
            · simp
            · have := rem_visit n vis hv G.ifaces p (getIface_mem hp) (getIface_name hp)
              exact ih _ _ (by rw [length_pushed h]; omega)

/-- **a well-shaped worklist always answers, and its answer is reachability in the interface graph — on every graph** -/
theorem runIE_spec {S : Worklist} (hok : S.ok = true) (G : Graph) (s t : Name) :
    ∃ b, runIE S G s t = some b ∧ (b = true ↔ IReach G s t) := by
  have h := wok_of_ok hok
  unfold runIE
  simp only [h.startHit, Bool.true_and, beq_iff_eq]
  split
  · rename_i hst; exact ⟨true, rfl, by simp [hst, IReach.refl]⟩
  · rename_i hst
    split
    · rename_i hnone
      refine ⟨false, rfl, ?_⟩
      simp only [Bool.false_eq_true, false_iff]
      intro hr
      cases hr with
      | refl => exact hst rfl
      | step hd _ _ => rw [hnone] at hd; cases hd
    · rename_i i hi
      have hf : runW S G t (bfsFuel G) (S.seedQ i.ext) [] ≠ none := by
        apply runW_fuel h
        have h1 := ext_le_total G.ifaces i (getIface_mem hi)
        have h2 := rem_le_total [] G.ifaces
        rw [length_seedQ h]
        unfold bfsFuel; omega
      cases hb : runW S G t (bfsFuel G) (S.seedQ i.ext) [] with
      | none => exact absurd hb hf
      | some b =>
        refine ⟨b, rfl, ?_⟩
        cases b with
        | true =>
          simp only [true_iff]
          obtain ⟨x, hx, hr⟩ := runW_sound h G t _ _ _ hb
          exact IReach.step hi ((mem_seedQ h _ _).1 hx) hr
        | false =>
          simp only [Bool.false_eq_true, false_iff]
          intro hr
          cases hr with
          | refl => exact hst rfl
          | step hd hj hr' =>
            rw [hi] at hd; cases hd
            exact runW_complete h G t _ _ _ hb (by intro v hv; simp at hv) _ (Or.inl ((mem_seedQ h _ _).2 hj)) hr'

/-- `true` from a well-shaped worklist is a path -/
theorem reach_of_ok {S : Worklist} (hok : S.ok = true) {G : Graph} {s t : Name} (h : runIE S G s t = some true) :
    IReach G s t := by
  obtain ⟨b, hb, hiff⟩ := runIE_spec hok G s t
  rw [h] at hb; cases hb; exact hiff.1 rfl

/-- a well-shaped worklist that takes from the head and tests the loaded name too IS `Model.Hier.bfs` -/
theorem runW_eq_bfs {S : Worklist} (h : WOK S) (hh : S.take = .head) (hl : S.hitOnLoad = true) (G : Graph) (t : Name) :
    ∀ f q vis, runW S G t f q vis = bfs G t f q vis := by
  intro f
  induction f with
  | zero =>
    intro q vis
    cases q with
    | nil => rw [runW_nil, h.dry]; simp [bfs]
    | cons n q => rw [runW_zero]; simp [bfs]
  | succ f ih =>
    intro q vis
    cases q with
    | nil => rw [runW_nil, h.dry]; simp [bfs]
    | cons n q =>
      rw [runW_step h, bfs]
      have hp : ∀ ps, S.pushed q ps = q ++ ps := by
        intro ps
        unfold Worklist.pushed Worklist.lifo
        rw [h.loop, h.push, hh]; simp [Sel.of]
      simp only [hl, Bool.true_and, beq_iff_eq, ih, hp]
      cases getIface G n <;> rfl

end Proofs.HierShape
