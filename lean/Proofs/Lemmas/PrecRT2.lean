import Proofs.Lemmas.PrecRT
/-! The round-trip induction. -/
namespace Proofs.Prec
open Model.Prec

/-- (A) the text of `e` printed for context `k`, followed by `R`, parses at level `k` back to `e`, leaving `R` -/
def StA (T : Table) (X : Expr → Bool) (e : Expr) : Prop :=
  ∀ k R, Follow T k R → ∃ f, parse T f k (pr T X k e ++ R) = .ok e R

/-- (B) at a left-associative level `j`, reading the text of `e` puts the loop in state `(e, R)` -/
def StB (T : Table) (X : Expr → Bool) (e : Expr) : Prop :=
  ∀ j L R e' R' f0, levelAt T j = some L → L.shape = .binL → Follow T (j+1) R →
    loopL T f0 j L.ops e R = .ok e' R' →
    ∃ f, (parse T f (j+1) (pr T X j e ++ R)).bind (fun l rest => loopL T f j L.ops l rest) = .ok e' R'

theorem stB_closed {T : Table} {X} {e : Expr} (hA : StA T X e) (j : Nat)
    (hc : pr T X j e = pr T X (j+1) e) (L : Level) (R : List Tok) (e' : Expr) (R' : List Tok) (f0 : Nat)
    (hF : Follow T (j+1) R) (hl : loopL T f0 j L.ops e R = .ok e' R') :
    ∃ f, (parse T f (j+1) (pr T X j e ++ R)).bind (fun l rest => loopL T f j L.ops l rest) = .ok e' R' := by
  obtain ⟨f1, hf1⟩ := hA (j+1) R hF
  refine ⟨max f1 f0, ?_⟩
  rw [hc, parse_mono_le T hf1 (Nat.le_max_left _ _), bind_ok]
  exact loopL_mono_le T hl (Nat.le_max_right _ _)

theorem levelAt_none_add {T : Table} {k d : Nat} (h : levelAt T k = none) : levelAt T (k + d) = none := by
  simp only [levelAt] at h ⊢
  rw [List.getElem?_eq_none_iff] at h ⊢; omega

/-- parenthesised text parses as a primary at any level -/
theorem paren_parse {T : Table} {e : Expr} {body : List Tok} {j : Nat}
    (core : ∀ R, Follow T j R → ∃ f, parse T f j (body ++ R) = .ok e R)
    (hH : ∀ R p L, p < j → levelAt T p = some L → L.shape = .prefix → headOp L.ops (body ++ R) = none)
    (k : Nat) (R : List Tok) (hF : Follow T k R) :
    ∃ f, parse T f k ([Tok.lp] ++ body ++ [Tok.rp] ++ R) = .ok e R := by
  obtain ⟨f, hf⟩ := core (.rp :: R) (follow_rp _ _ _)
  obtain ⟨f', hf'⟩ := climb (T := T) j 0 f (body ++ .rp :: R) e (.rp :: R) (by simpa using hf) (follow_rp _ _ _)
    (fun p L _ hp hL hs => hH _ p L (by omega) hL hs)
  -- a level beyond the table
  let K := k + (T.levels.length - k)
  have hK : levelAt T K = none := by
    simp only [levelAt, K]; rw [List.getElem?_eq_none_iff]; omega
  have h0 : parse T (f'+1) K ([Tok.lp] ++ body ++ [Tok.rp] ++ R) = .ok e R := by
    rw [parse_prim hK]
    simp only [List.append_assoc, List.cons_append, List.nil_append, primary]
    rw [hf']; rfl
  refine climb (T := T) (T.levels.length - k) k (f'+1) _ _ _ h0 hF ?_
  intro p L _ _ _ _
  simp [headOp]

/-- from the parse at the node's own level to `StA` (with or without parentheses) -/
theorem wrap {T : Table} {X} {e : Expr} {body : List Tok} {j : Nat}
    (core : ∀ R, Follow T j R → ∃ f, parse T f j (body ++ R) = .ok e R)
    (hH : ∀ R p L, p < j → levelAt T p = some L → L.shape = .prefix → headOp L.ops (body ++ R) = none)
    (hpr : ∀ k, pr T X k e = paren (decide (j < k) || X e) body) : StA T X e := by
  intro k R hF
  rw [hpr]
  by_cases hb : (decide (j < k) || X e) = true
  · rw [hb, paren_true]
    exact paren_parse core hH k R hF
  · have hb' : (decide (j < k) || X e) = false := by simpa using hb
    rw [hb', paren_false]
    have hk : k ≤ j := by
      simp only [Bool.or_eq_false_iff, decide_eq_false_iff_not] at hb'; omega
    obtain ⟨f, hf⟩ := core R (hF.mono hk)
    have hke : k + (j - k) = j := by omega
    refine climb (T := T) (j - k) k f _ _ _ (by rw [hke]; exact hf) hF ?_
    intro p L _ hp hL hs
    exact hH R p L (by omega) hL hs

/-- the assignment re-entry: `atom op rest'` parsed at a level tighter than the assignment level `m` -/
theorem asg_desc {T : Table} (wf : WF T) {m n o : Nat} {Lm : Level} {r : Expr} {rest' R : List Tok}
    (hLm : levelAt T m = some Lm) (hsm : Lm.shape = .binR) (ho : o ∈ Lm.ops) (hre : T.reenter = some m)
    (hr : ∃ f, parse T f m rest' = .ok r R) (hF : Follow T m R) :
    ∀ d k, T.levels.length ≤ k + d → m < k →
      (∃ f, parse T f k (.atom n :: .op o :: rest') = .ok (.bin o (.atom n) r) R) ∨
      (∃ f, parse T f k (.atom n :: .op o :: rest') = .ok (.atom n) (.op o :: rest')) := by
  intro d
  induction d with
  | zero =>
    intro k hk _
    right
    have : levelAt T k = none := by simp only [levelAt]; rw [List.getElem?_eq_none_iff]; omega
    exact ⟨1, by rw [parse_prim this]; rfl⟩
  | succ d ih =>
    intro k hk hmk
    cases hL : levelAt T k with
    | none => right; exact ⟨1, by rw [parse_prim hL]; rfl⟩
    | some L =>
      have hnotin : L.shape ≠ .prefix → o ∉ L.ops := by
        intro hs hin
        have h1 := wf.uniqC o k L hL hs hin
        have h2 := wf.uniqC o m Lm hLm (by rw [hsm]; decide) ho
        omega
      rcases ih (k+1) (by omega) (by omega) with ⟨f, hf⟩ | ⟨f, hf⟩
      · left
        exact climb1 hf (hF.mono (by omega)) (fun _ _ _ => by simp [headOp])
      · obtain ⟨fr, hfr⟩ := hr
        have hf' := parse_mono_le T hf (Nat.le_max_left f fr)
        have hfr' := parse_mono_le T hfr (Nat.le_max_right f fr)
        cases hs : L.shape with
        | binL =>
          right
          refine ⟨max f fr + 1 + 1, ?_⟩
          rw [parse_binL hL hs, parse_mono_le T hf' (by omega : max f fr ≤ max f fr + 1), bind_ok]
          exact loopL_none (headOp_not (hnotin (by rw [hs]; decide)))
        | binR =>
          right
          refine ⟨max f fr + 1, ?_⟩
          rw [parse_binR hL hs, hf', bind_ok]
          simp [headOp_not (hnotin (by rw [hs]; decide))]
        | tern =>
          right
          refine ⟨max f fr + 1, ?_⟩
          rw [parse_tern hL hs, hf', bind_ok]
          simp [headOp_not (hnotin (by rw [hs]; decide))]
        | «prefix» =>
          left
          refine ⟨max f fr + 1, ?_⟩
          rw [parse_prefix hL hs]
          have h1 : headOp L.ops (Tok.atom n :: Tok.op o :: rest') = none := by simp [headOp]
          simp only [h1]
          rw [hf', bind_ok]
          have h2 : headOp (reenterOps T) (Tok.op o :: rest') = some (o, rest') := by
            rw [reenterOps_of hre hLm]; exact headOp_self ho
          simp only [h2]
          have h3 : reenterLevel T = m := by simp [reenterLevel, hre]
          rw [h3, hfr', bind_ok]

theorem shape_ne_of_level {T : Table} {j m : Nat} {L Lm : Level} (hL : levelAt T j = some L)
    (hLm : levelAt T m = some Lm) (h : L.shape ≠ Lm.shape) : m ≠ j := by
  intro he; subst he; rw [hL] at hLm; cases hLm; exact h rfl

theorem roundtrip_aux {T : Table} (wf : WF T) (X : Expr → Bool) :
    ∀ e, InLang T e → StA T X e ∧ StB T X e := by
  intro e
  induction e with
  | atom n =>
    intro _
    have hA : StA T X (.atom n) := by
      intro k R hF
      let K := k + (T.levels.length - k)
      have hK : levelAt T K = none := by
        simp only [levelAt, K]; rw [List.getElem?_eq_none_iff]; omega
      have h0 : parse T 1 K (pr T X k (.atom n) ++ R) = .ok (.atom n) R := by
        rw [parse_prim hK, pr_atom]; rfl
      refine climb (T.levels.length - k) k 1 _ _ _ h0 hF ?_
      intro p L _ _ _ _
      simp [pr_atom, headOp]
    refine ⟨hA, ?_⟩
    intro j L R e' R' f0 _ _ hF hl
    exact stB_closed hA j (by simp [pr_atom]) L R e' R' f0 hF hl
  | un o e ihe =>
    intro hin
    obtain ⟨Lo, hLo, hmem, hso, hine⟩ := hin
    obtain ⟨Ae, _⟩ := ihe hine
    have core : ∀ R, Follow T (levelOfP T o) R →
        ∃ f, parse T f (levelOfP T o) (([Tok.op o] ++ pr T X (levelOfP T o) e) ++ R) = .ok (.un o e) R := by
      intro R hF
      obtain ⟨f, hf⟩ := Ae (levelOfP T o) R hF
      refine ⟨f+1, ?_⟩
      rw [parse_prefix hLo hso]
      simp only [List.append_assoc, List.cons_append, List.nil_append]
      simp only [headOp_self hmem]
      rw [hf, bind_ok]
    have hH : ∀ R p L, p < levelOfP T o → levelAt T p = some L → L.shape = .prefix →
        headOp L.ops (([Tok.op o] ++ pr T X (levelOfP T o) e) ++ R) = none := by
      intro R p L hp hL hs
      simp only [List.append_assoc, List.cons_append, List.nil_append]
      apply headOp_not
      intro hm
      have := wf.uniqP o p L hL hs hm
      omega
    have hA : StA T X (.un o e) := wrap core hH (fun k => pr_un T X k o e)
    refine ⟨hA, ?_⟩
    intro j L R e' R' f0 hL hs hF hl
    refine stB_closed hA j (pr_ctx T X _ j (j+1) (Or.inr ?_)) L R e' R' f0 hF hl
    have hne : levelOfP T o ≠ j := shape_ne_of_level hL hLo (by rw [hs, hso]; decide)
    simp only [lvl]; omega
  | tern q c t f ihc iht ihf =>
    intro hin
    obtain ⟨Lq, hLq, hmem, hsq, hinc, hint, hinf⟩ := hin
    obtain ⟨Ac, _⟩ := ihc hinc
    obtain ⟨At, _⟩ := iht hint
    obtain ⟨Af, _⟩ := ihf hinf
    have hsep : sepAt T (levelOfC T q) = Lq.sep := by simp [sepAt, hLq]
    have hre : T.reenter ≠ some (levelOfC T q) := by
      intro h
      obtain ⟨La, hLa, hsa⟩ := wf.reenterOK _ h
      rw [hLq] at hLa; cases hLa; rw [hsq] at hsa; cases hsa
    have core : ∀ R, Follow T (levelOfC T q) R →
        ∃ f', parse T f' (levelOfC T q)
          ((pr T X (levelOfC T q + 1) c ++ [Tok.op q] ++ pr T X (levelOfC T q) t ++
            [Tok.op (sepAt T (levelOfC T q))] ++ pr T X (levelOfC T q) f) ++ R) = .ok (.tern q c t f) R := by
      intro R hF
      obtain ⟨f1, hf1⟩ := Ac (levelOfC T q + 1)
        (Tok.op q :: (pr T X (levelOfC T q) t ++ (Tok.op Lq.sep :: (pr T X (levelOfC T q) f ++ R))))
        (follow_op wf hLq (by rw [hsq]; decide) hmem hre)
      obtain ⟨f2, hf2⟩ := At (levelOfC T q) (Tok.op Lq.sep :: (pr T X (levelOfC T q) f ++ R))
        (follow_sep wf hLq hsq)
      obtain ⟨f3, hf3⟩ := Af (levelOfC T q) R hF
      let F := max f1 (max f2 f3)
      refine ⟨F + 1, ?_⟩
      rw [parse_tern hLq hsq, hsep]
      simp only [List.append_assoc, List.cons_append, List.nil_append]
      rw [parse_mono_le T hf1 (Nat.le_max_left _ _), bind_ok]
      simp only [headOp_self hmem]
      rw [parse_mono_le T hf2 (Nat.le_trans (Nat.le_max_left _ _) (Nat.le_max_right _ _)), bind_ok]
      simp only [ternRest, if_true]
      rw [parse_mono_le T hf3 (Nat.le_trans (Nat.le_max_right _ _) (Nat.le_max_right _ _)), bind_ok]
    have hH : ∀ R p L, p < levelOfC T q → levelAt T p = some L → L.shape = .prefix →
        headOp L.ops ((pr T X (levelOfC T q + 1) c ++ [Tok.op q] ++ pr T X (levelOfC T q) t ++
            [Tok.op (sepAt T (levelOfC T q))] ++ pr T X (levelOfC T q) f) ++ R) = none := by
      intro R p L hp hL hs
      simp only [List.append_assoc]
      exact pr_head wf X c hinc (levelOfC T q + 1) _ p L (by omega) hL hs
    have hA : StA T X (.tern q c t f) := wrap core hH (fun k => pr_tern T X k q c t f)
    refine ⟨hA, ?_⟩
    intro j L R e' R' f0 hL hs hF hl
    refine stB_closed hA j (pr_ctx T X _ j (j+1) (Or.inr ?_)) L R e' R' f0 hF hl
    have hne : levelOfC T q ≠ j := shape_ne_of_level hL hLq (by rw [hs, hsq]; decide)
    simp only [lvl]; omega
  | bin o l r ihl ihr =>
    intro hin
    obtain ⟨Lm, hLm, hmem, hshape, hinl, hinr, hatom⟩ := hin
    obtain ⟨Al, Bl⟩ := ihl hinl
    obtain ⟨Ar, _⟩ := ihr hinr
    have hnp : Lm.shape ≠ .prefix := by rcases hshape with h | h <;> rw [h] <;> decide
    have hsh : shapeAt T (levelOfC T o) = some Lm.shape := by simp [shapeAt, hLm]
    -- the body printed without parentheses, and its parse at the operator's own level
    have key : ∃ body, (∀ k, pr T X k (.bin o l r) =
          paren (decide (levelOfC T o < k) || X (.bin o l r)) body) ∧
        (∀ R, Follow T (levelOfC T o) R → ∃ f, parse T f (levelOfC T o) (body ++ R) = .ok (.bin o l r) R) ∧
        (∀ R p L, p < levelOfC T o → levelAt T p = some L → L.shape = .prefix → headOp L.ops (body ++ R) = none) ∧
        (Lm.shape = .binL → body = pr T X (levelOfC T o) l ++ [Tok.op o] ++ pr T X (levelOfC T o + 1) r) := by
      rcases hshape with hsl | hsr
      · -- left-associative level
        have hre : T.reenter ≠ some (levelOfC T o) := by
          intro h
          obtain ⟨La, hLa, hsa⟩ := wf.reenterOK _ h
          rw [hLm] at hLa; cases hLa; rw [hsl] at hsa; cases hsa
        refine ⟨pr T X (levelOfC T o) l ++ [Tok.op o] ++ pr T X (levelOfC T o + 1) r, ?_, ?_, ?_, fun _ => rfl⟩
        · intro k; rw [pr_bin, hsh, hsl]
        · intro R hF
          obtain ⟨f2, hf2⟩ := Ar (levelOfC T o + 1) R (hF.mono (by omega))
          have hloop : loopL T (f2+1+1) (levelOfC T o) Lm.ops l
              (Tok.op o :: (pr T X (levelOfC T o + 1) r ++ R)) = .ok (.bin o l r) R := by
            rw [loopL_some (headOp_self hmem), parse_mono_le T hf2 (by omega : f2 ≤ f2+1), bind_ok]
            exact loopL_none (hF.cont _ Lm (Nat.le_refl _) hLm hnp)
          obtain ⟨f, hf⟩ := Bl (levelOfC T o) Lm _ _ _ _ hLm hsl (follow_op wf hLm hnp hmem hre) hloop
          refine ⟨f+1, ?_⟩
          rw [parse_binL hLm hsl]
          simp only [List.append_assoc, List.cons_append, List.nil_append] at hf ⊢
          exact hf
        · intro R p L hp hL hs
          simp only [List.append_assoc]
          exact pr_head wf X l hinl (levelOfC T o) _ p L hp hL hs
      · -- right-associative level
        refine ⟨pr T X (levelOfC T o + 1) l ++ [Tok.op o] ++ pr T X (levelOfC T o) r, ?_, ?_, ?_, ?_⟩
        · intro k; rw [pr_bin, hsh, hsr]
        · intro R hF
          obtain ⟨f2, hf2⟩ := Ar (levelOfC T o) R hF
          by_cases hre : T.reenter = some (levelOfC T o)
          · -- assignment: the left operand is an atom; it may be consumed by the re-entry
            obtain ⟨n, rfl⟩ := hatom hre
            simp only [pr_atom, List.append_assoc, List.cons_append, List.nil_append]
            rcases asg_desc wf (n := n) hLm hsr hmem hre ⟨f2, hf2⟩ hF (T.levels.length) (levelOfC T o + 1)
              (by omega) (by omega) with ⟨f1, hf1⟩ | ⟨f1, hf1⟩
            · refine ⟨f1 + 1, ?_⟩
              rw [parse_binR hLm hsr, hf1, bind_ok]
              simp [hF.cont _ Lm (Nat.le_refl _) hLm hnp]
            · refine ⟨max f1 f2 + 1, ?_⟩
              rw [parse_binR hLm hsr, parse_mono_le T hf1 (Nat.le_max_left _ _), bind_ok]
              simp only [headOp_self hmem]
              rw [parse_mono_le T hf2 (Nat.le_max_right _ _), bind_ok]
          · obtain ⟨f1, hf1⟩ := Al (levelOfC T o + 1) (Tok.op o :: (pr T X (levelOfC T o) r ++ R))
              (follow_op wf hLm hnp hmem hre)
            refine ⟨max f1 f2 + 1, ?_⟩
            rw [parse_binR hLm hsr]
            simp only [List.append_assoc, List.cons_append, List.nil_append]
            rw [parse_mono_le T hf1 (Nat.le_max_left _ _), bind_ok]
            simp only [headOp_self hmem]
            rw [parse_mono_le T hf2 (Nat.le_max_right _ _), bind_ok]
        · intro R p L hp hL hs
          simp only [List.append_assoc]
          exact pr_head wf X l hinl (levelOfC T o + 1) _ p L (by omega) hL hs
        · intro h; rw [hsr] at h; cases h
    obtain ⟨body, hpr, core, hH, hbodyL⟩ := key
    have hA : StA T X (.bin o l r) := wrap core hH hpr
    refine ⟨hA, ?_⟩
    intro j L R e' R' f0 hL hs hF hl
    by_cases hclosed : X (.bin o l r) = true ∨ levelOfC T o ≠ j
    · refine stB_closed hA j (pr_ctx T X _ j (j+1) ?_) L R e' R' f0 hF hl
      rcases hclosed with h | h
      · exact Or.inl h
      · right; simp only [lvl]; omega
    · -- same left-associative level, no parentheses: extend the loop through `l`
      have hX : X (.bin o l r) = false := by
        cases hx : X (.bin o l r) with
        | true => exact absurd (Or.inl hx) hclosed
        | false => rfl
      have hj : levelOfC T o = j := by
        by_cases h : levelOfC T o = j
        · exact h
        · exact absurd (Or.inr h) hclosed
      subst hj
      rw [hLm] at hL; cases hL
      have hbody := hbodyL hs
      have hre : T.reenter ≠ some (levelOfC T o) := by
        intro h
        obtain ⟨La, hLa, hsa⟩ := wf.reenterOK _ h
        rw [hLm] at hLa; cases hLa; rw [hs] at hsa; cases hsa
      obtain ⟨f2, hf2⟩ := Ar (levelOfC T o + 1) R hF
      have hloop : loopL T (max f2 f0 + 1) (levelOfC T o) Lm.ops l
          (Tok.op o :: (pr T X (levelOfC T o + 1) r ++ R)) = .ok e' R' := by
        rw [loopL_some (headOp_self hmem), parse_mono_le T hf2 (Nat.le_max_left _ _), bind_ok]
        exact loopL_mono_le T hl (Nat.le_max_right _ _)
      obtain ⟨f, hf⟩ := Bl (levelOfC T o) Lm _ _ _ _ hLm hs (follow_op wf hLm hnp hmem hre) hloop
      refine ⟨f, ?_⟩
      rw [hpr, hX]
      have : (decide (levelOfC T o < levelOfC T o) || false) = false := by simp
      rw [this, paren_false, hbody]
      simp only [List.append_assoc, List.cons_append, List.nil_append] at hf ⊢
      exact hf

/-- **Round trip.** For every well-formed table, every tree of its language and every
choice of redundant parentheses, parsing the printed text gives the tree back. -/
theorem roundtrip {T : Table} (wf : WF T) (X : Expr → Bool) (e : Expr) (h : InLang T e) :
    ∃ f, parse T f 0 (pr T X 0 e) = .ok e [] := by
  obtain ⟨f, hf⟩ := (roundtrip_aux wf X e h).1 0 [] (follow_nil T 0)
  exact ⟨f, by simpa using hf⟩

end Proofs.Prec
