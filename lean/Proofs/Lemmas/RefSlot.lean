import Model.RefSlot
import Spec.RefVal
import Proofs.Lemmas.RefSlotBasic
/-!
C06 — lemmas about `Model.RefSlot` under `Cfg.counted` (the mark on a slot counts its live binders).

* `WF`: cell ids in use are allocated, and the mark of every cell IS the number of live binders —
  an invariant of every program (`wf_run`).
* `Sim L`: the simulation of `Spec.RefVal` for programs that keep the discipline `disc`
  (`sim_run`): a marked cell sits at exactly one position of one array, the position its binders name.
-/
namespace Proofs.RefSlot
open Model.RefSlot

/-- the invariant of every reachable state (every program, `Cfg.counted`) -/
structure WF (s : St) : Prop where
  slots : ∀ (x : Nat) (a : List Nat) (i c : Nat), s.arrs[x]? = some a → a[i]? = some c → c < s.heap.length
  bound : ∀ (r c : Nat) (k : Kind), s.bnd[r]? = some (some (c, k)) → c < s.heap.length
  count : ∀ (c : Nat) (cl : Cell), s.heap[c]? = some cl → cl.cnt = binders s c

theorem wf_init (nv nr : Nat) : WF (init nv nr) := by
  refine ⟨?_, ?_, ?_⟩
  · intro x a i c hx hi
    simp only [init, List.getElem?_replicate] at hx
    split at hx
    · cases hx; simp at hi
    · cases hx
  · intro r c k hr
    simp only [init, List.getElem?_replicate] at hr
    split at hr <;> cases hr
  · intro c cl hc
    simp [init] at hc

/-- fresh unmarked cells, any slot lists over the extended heap -/
theorem wf_grow (s : St) (h : WF s) (extra : List Cell) (arrs' : List (List Nat))
    (hex : ∀ cl, cl ∈ extra → cl.cnt = 0)
    (hsl : ∀ (x : Nat) (a : List Nat) (i c : Nat), arrs'[x]? = some a → a[i]? = some c →
      c < s.heap.length + extra.length) :
    WF ⟨s.heap ++ extra, arrs', s.bnd⟩ := by
  refine ⟨?_, ?_, ?_⟩
  · intro x a i c hx hi
    show c < (s.heap ++ extra).length
    rw [List.length_append]
    exact hsl x a i c hx hi
  · intro r c k hr
    have := h.bound r c k hr
    show c < (s.heap ++ extra).length
    rw [List.length_append]; omega
  · intro c cl hc
    have hc' : (s.heap ++ extra)[c]? = some cl := hc
    by_cases hlt : c < s.heap.length
    · rw [List.getElem?_append_left hlt] at hc'
      rw [h.count c cl hc']
      exact (binders_congr _ _ rfl c).symm
    · rw [List.getElem?_append_right (by omega)] at hc'
      rw [hex cl (List.mem_of_getElem? hc')]
      symm
      apply binders_eq_zero
      intro r k hr
      have := h.bound r c k hr
      omega

/-- the heap rewritten cell by cell, marks kept -/
theorem wf_heap_upd (s : St) (h : WF s) (heap' : List Cell) (hlen : heap'.length = s.heap.length)
    (hc : ∀ (c : Nat) (cl' : Cell), heap'[c]? = some cl' → ∃ cl, s.heap[c]? = some cl ∧ cl.cnt = cl'.cnt) :
    WF ⟨heap', s.arrs, s.bnd⟩ := by
  refine ⟨?_, ?_, ?_⟩
  · intro x a i c hx hi
    show c < heap'.length
    rw [hlen]; exact h.slots x a i c hx hi
  · intro r c k hr
    show c < heap'.length
    rw [hlen]; exact h.bound r c k hr
  · intro c cl' hcl
    obtain ⟨cl, h1, h2⟩ := hc c cl' hcl
    rw [← h2, h.count c cl h1]
    exact (binders_congr _ _ rfl c).symm

/-- slot `(x, i)` gets a fresh unmarked cell -/
theorem wf_replace (s : St) (h : WF s) (x i : Nat) (a : List Nat) (v : Int) (hx : s.arrs[x]? = some a) :
    WF ⟨s.heap ++ [⟨v, 0⟩], s.arrs.set x (a.set i s.heap.length), s.bnd⟩ := by
  apply wf_grow s h
  · intro cl hcl
    simp only [List.mem_singleton] at hcl
    subst hcl; rfl
  · apply slots_set
    · intro x1 a1 i1 c1 h1 h2
      have := h.slots x1 a1 i1 c1 h1 h2
      simp only [List.length_cons, List.length_nil]; omega
    · apply slots_set_elem
      · intro j c hj
        have := h.slots x a j c hx hj
        simp only [List.length_cons, List.length_nil]; omega
      · simp only [List.length_cons, List.length_nil]; omega

theorem wf_inplace (s : St) (h : WF s) (c : Nat) (cl : Cell) (v : Int) (hc : s.heap[c]? = some cl) :
    WF ⟨s.heap.set c ⟨v, cl.cnt⟩, s.arrs, s.bnd⟩ := by
  apply wf_heap_upd s h
  · simp
  · intro d cd hd
    rcases get_set_cell _ _ _ _ hc _ _ hd with ⟨h1, h2⟩ | ⟨_, h2⟩
    · subst h1; subst h2; exact ⟨cl, hc, rfl⟩
    · exact ⟨cd, h2, rfl⟩

theorem wf_release (s : St) (r : Nat) (h : WF s) : WF (release .counted s r) := by
  cases hb : s.bnd[r]? with
  | none => unfold release; rw [hb]; exact h
  | some b =>
    cases b with
    | none => rw [release_unbound _ _ _ hb]; exact h
    | some p =>
      obtain ⟨c, k⟩ := p
      have hlt := h.bound r c k hb
      obtain ⟨cl, hcl⟩ : ∃ cl, s.heap[c]? = some cl := ⟨s.heap[c], by simp [hlt]⟩
      rw [release_bound s r c k cl hb hcl]
      refine ⟨?_, ?_, ?_⟩
      · intro x a i c1 hx hi
        show c1 < (s.heap.set c _).length
        rw [List.length_set]; exact h.slots x a i c1 hx hi
      · intro r1 c1 k1 hr1
        show c1 < (s.heap.set c _).length
        rw [List.length_set]
        have hr1' : (s.bnd.set r none)[r1]? = some (some (c1, k1)) := hr1
        rw [List.getElem?_set] at hr1'
        split at hr1'
        · split at hr1' <;> cases hr1'
        · exact h.bound r1 c1 k1 hr1'
      · intro d cd hd
        have hbr := binders_release s ⟨s.heap.set c ⟨cl.val, cl.cnt - 1⟩, s.arrs, s.bnd.set r none⟩ r c k rfl hb d
        rcases get_set_cell _ _ _ _ hcl _ _ hd with ⟨h1, h2⟩ | ⟨h1, h2⟩
        · subst h1; subst h2
          have := h.count d cl hcl
          simp only [if_true] at hbr
          show cl.cnt - 1 = _
          omega
        · have := h.count d cd h2
          have hne : ¬ c = d := fun e => h1 e.symm
          simp only [hne, if_false] at hbr
          omega

/-- the binding itself: `r` (unbound) is bound to the allocated cell `c` -/
theorem wf_bind_final (s1 : St) (r c : Nat) (k : Kind) (h : WF s1) (hr : s1.bnd[r]? = some none)
    (hc : c < s1.heap.length) :
    WF ⟨incCnt s1.heap c, s1.arrs, s1.bnd.set r (some (c, k))⟩ := by
  obtain ⟨cl, hcl⟩ : ∃ cl, s1.heap[c]? = some cl := ⟨s1.heap[c], by simp [hc]⟩
  rw [incCnt_of_get _ _ _ hcl]
  refine ⟨?_, ?_, ?_⟩
  · intro x a i c1 hx hi
    show c1 < (s1.heap.set c _).length
    rw [List.length_set]; exact h.slots x a i c1 hx hi
  · intro r1 c1 k1 hr1
    show c1 < (s1.heap.set c _).length
    rw [List.length_set]
    have hr1' : (s1.bnd.set r (some (c, k)))[r1]? = some (some (c1, k1)) := hr1
    rw [List.getElem?_set] at hr1'
    split at hr1'
    · split at hr1'
      · cases hr1'; exact hc
      · cases hr1'
    · exact h.bound r1 c1 k1 hr1'
  · intro d cd hd
    have hbb := binders_bind s1 ⟨s1.heap.set c ⟨cl.val, cl.cnt + 1⟩, s1.arrs, s1.bnd.set r (some (c, k))⟩ r c k rfl hr d
    rcases get_set_cell _ _ _ _ hcl _ _ hd with ⟨h1, h2⟩ | ⟨h1, h2⟩
    · subst h1; subst h2
      have := h.count d cl hcl
      simp only [if_true] at hbb
      show cl.cnt + 1 = _
      omega
    · have := h.count d cd h2
      have hne : ¬ c = d := fun e => h1 e.symm
      simp only [hne, if_false] at hbb
      omega

theorem wf_ownSlot (s s1 : St) (x i c : Nat) (h : WF s) (ho : ownSlot s x i = some (s1, c)) :
    WF s1 ∧ c < s1.heap.length ∧ s1.bnd = s.bnd := by
  obtain ⟨a, c0, cl, hx, hi, hcl, hcase⟩ := ownSlot_some _ _ _ _ _ ho
  rcases hcase with ⟨_, h1, h2⟩ | ⟨_, h1, h2⟩
  · subst h1; subst h2
    exact ⟨h, h.slots x a i c hx hi, rfl⟩
  · subst h1; subst h2
    refine ⟨wf_replace s h x i a cl.val hx, ?_, rfl⟩
    show s.heap.length < (s.heap ++ [_]).length
    simp

theorem wf_stepOpt (s s' : St) (op : Op) (h : WF s) (hs : stepOpt .counted s op = some s') : WF s' := by
  cases op with
  | lit x vs =>
    simp only [stepOpt] at hs
    split at hs
    · cases hs
      apply wf_grow s h
      · intro cl hcl
        simp only [List.mem_map] at hcl
        obtain ⟨v, _, hv⟩ := hcl
        subst hv; rfl
      · apply slots_set
        · intro x1 a1 i1 c1 h1 h2
          have := h.slots x1 a1 i1 c1 h1 h2
          omega
        · intro j c hj
          have := List.mem_of_getElem? hj
          simp only [List.mem_range'_1, List.length_map] at this ⊢
          omega
    · cases hs
  | copy x y =>
    simp only [stepOpt] at hs
    split at hs
    · split at hs
      · next a hy =>
        cases hs
        refine ⟨?_, h.bound, h.count⟩
        apply slots_set _ _ _ _ h.slots
        intro j c hj
        exact h.slots y a j c hy hj
      · cases hs
    · cases hs
  | store x i v =>
    simp only [stepOpt] at hs
    obtain ⟨a, c0, cl, hx, hi, hcl, hcase⟩ := storeSlot_some _ _ _ _ _ hs
    rcases hcase with ⟨_, h1⟩ | ⟨_, h1⟩
    · subst h1; exact wf_inplace s h c0 cl v hcl
    · subst h1; exact wf_replace s h x i a v hx
  | bind k r x i =>
    simp only [stepOpt] at hs
    split at hs
    · next hr =>
      split at hs
      · cases hs
      · next s1 c ho =>
        cases hs
        obtain ⟨hw1, hc1, hb1⟩ := wf_ownSlot _ _ _ _ _ (wf_release s r h) ho
        have hrn : s1.bnd[r]? = some none := by rw [hb1]; exact release_bnd_self _ s r hr
        exact wf_bind_final s1 r c k hw1 hrn hc1
    · cases hs
  | wr r v =>
    simp only [stepOpt] at hs
    split at hs
    · next c k hb =>
      cases hs
      have hlt := h.bound r c k hb
      obtain ⟨cl, hcl⟩ : ∃ cl, s.heap[c]? = some cl := ⟨s.heap[c], by simp [hlt]⟩
      rw [setVal_of_get _ _ _ _ hcl]
      exact wf_inplace s h c cl v hcl
    · cases hs; exact h
    · cases hs
  | release r =>
    simp only [stepOpt] at hs
    split at hs
    · cases hs; exact wf_release s r h
    · cases hs

theorem wf_step (s : St) (op : Op) (h : WF s) : WF (step .counted s op) := by
  unfold step
  cases hs : stepOpt .counted s op with
  | none => exact h
  | some s' => exact wf_stepOpt s s' op h hs

theorem wf_fold (ops : List Op) (s : St) (h : WF s) : WF (ops.foldl (step .counted) s) := by
  induction ops generalizing s with
  | nil => exact h
  | cons op r ih => exact ih _ (wf_step s op h)

theorem wf_run (nv nr : Nat) (ops : List Op) : WF (run .counted nv nr ops) :=
  wf_fold ops _ (wf_init nv nr)

/-- no live binder: no cell is marked -/
theorem unmarked_of_no_binder (s : St) (h : WF s)
    (hb : ∀ (r c : Nat) (k : Kind), s.bnd[r]? ≠ some (some (c, k))) :
    ∀ (c : Nat) (cl : Cell), s.heap[c]? = some cl → cl.cnt = 0 := by
  intro c cl hc
  rw [h.count c cl hc]
  exact binders_eq_zero s c (fun r k => hb r c k)

/-- the simulation relation; `L` = the reference variables that may be live -/
structure Sim (L : List Nat) (s : St) (t : Spec.RefVal.St) : Prop where
  arrs : t.arrs = vals s
  len : t.bnd.length = s.bnd.length
  live : ∀ (r c : Nat) (k : Kind), s.bnd[r]? = some (some (c, k)) →
    r ∈ L ∧ ∃ (x i : Nat) (a : List Nat), t.bnd[r]? = some (some (x, i)) ∧ s.arrs[x]? = some a ∧ a[i]? = some c
  dead : ∀ (r : Nat), s.bnd[r]? = some none → t.bnd[r]? = some none
  uniq : ∀ (c : Nat) (cl : Cell), s.heap[c]? = some cl → 0 < cl.cnt →
    ∀ (x : Nat) (a : List Nat) (i x' : Nat) (a' : List Nat) (i' : Nat), s.arrs[x]? = some a → a[i]? = some c → s.arrs[x']? = some a' → a'[i']? = some c →
      x = x' ∧ i = i'

theorem sim_init (nv nr : Nat) : Sim [] (init nv nr) (Spec.RefVal.init nv nr) := by
  refine ⟨?_, ?_, ?_, ?_, ?_⟩
  · simp [vals, init, Spec.RefVal.init]
  · simp [init, Spec.RefVal.init]
  · intro r c k hr
    simp only [init, List.getElem?_replicate] at hr
    split at hr <;> cases hr
  · intro r hr
    simp only [init, Spec.RefVal.init, List.getElem?_replicate] at hr ⊢
    split at hr
    · next hlt => simp only [hlt, if_true]
    · cases hr
  · intro c cl hc
    simp [init] at hc

/-! ### what the spec sees -/

theorem spec_arrs_get {L : List Nat} {s : St} {t : Spec.RefVal.St} (hs : Sim L s t) (x : Nat) :
    t.arrs[x]? = (s.arrs[x]?).map (fun a => a.map (cellVal s.heap)) := by
  rw [hs.arrs]; simp [vals]

theorem spec_arrs_len {L : List Nat} {s : St} {t : Spec.RefVal.St} (hs : Sim L s t) :
    t.arrs.length = s.arrs.length := by
  rw [hs.arrs]; simp [vals]

theorem spec_bnd_none {L : List Nat} {s : St} {t : Spec.RefVal.St} (hs : Sim L s t) (r : Nat)
    (h : s.bnd[r]? = none) : t.bnd[r]? = none := by
  have hl := hs.len
  simp only [List.getElem?_eq_none_iff] at h ⊢
  omega

theorem spec_store_some {L : List Nat} {s : St} {t : Spec.RefVal.St} (hs : Sim L s t)
    (x i c : Nat) (a : List Nat) (v : Int) (hx : s.arrs[x]? = some a) (hi : a[i]? = some c) :
    Spec.RefVal.store t x i v = some ⟨t.arrs.set x ((a.map (cellVal s.heap)).set i v), t.bnd⟩ := by
  have h1 := spec_arrs_get hs x
  rw [hx] at h1
  have hlt := lt_of_getElem?_eq_some _ _ _ hi
  unfold Spec.RefVal.store
  rw [h1]
  simp only [Option.map_some, List.length_map, hlt, if_true]

theorem spec_store_none1 {L : List Nat} {s : St} {t : Spec.RefVal.St} (hs : Sim L s t)
    (x i : Nat) (v : Int) (hx : s.arrs[x]? = none) :
    Spec.RefVal.store t x i v = none := by
  have h1 := spec_arrs_get hs x
  rw [hx] at h1
  unfold Spec.RefVal.store
  rw [h1]; rfl

theorem spec_store_none2 {L : List Nat} {s : St} {t : Spec.RefVal.St} (hs : Sim L s t)
    (x i : Nat) (a : List Nat) (v : Int) (hx : s.arrs[x]? = some a) (hi : a[i]? = none) :
    Spec.RefVal.store t x i v = none := by
  have h1 := spec_arrs_get hs x
  rw [hx] at h1
  have hlt : ¬ i < a.length := by
    simp only [List.getElem?_eq_none_iff] at hi; omega
  unfold Spec.RefVal.store
  rw [h1]
  simp only [Option.map_some, List.length_map, hlt, if_false]

/-! ### the simulation, piece by piece -/

theorem sim_mono (L L' : List Nat) (s : St) (t : Spec.RefVal.St) (hs : Sim L s t)
    (hsub : ∀ r, r ∈ L → (∃ c k, s.bnd[r]? = some (some (c, k))) → r ∈ L') : Sim L' s t := by
  refine ⟨hs.arrs, hs.len, ?_, hs.dead, hs.uniq⟩
  intro r c k hr
  obtain ⟨h1, h2⟩ := hs.live r c k hr
  exact ⟨hsub r h1 ⟨c, k, hr⟩, h2⟩

/-- no binder is live and none appears: only the values matter -/
theorem sim_nobinder (s s' : St) (t t' : Spec.RefVal.St) (hs : Sim [] s t) (hw' : WF s')
    (hb : s'.bnd = s.bnd) (hb' : t'.bnd = t.bnd) (ha : t'.arrs = vals s') : Sim [] s' t' := by
  have hno : ∀ (r c : Nat) (k : Kind), s'.bnd[r]? ≠ some (some (c, k)) := by
    intro r c k hr
    rw [hb] at hr
    have := (hs.live r c k hr).1
    cases this
  refine ⟨ha, ?_, ?_, ?_, ?_⟩
  · rw [hb, hb']; exact hs.len
  · intro r c k hr; exact absurd hr (hno r c k)
  · intro r hr; rw [hb] at hr; rw [hb']; exact hs.dead r hr
  · intro c cl hc hpos
    have := unmarked_of_no_binder s' hw' hno c cl hc
    omega

/-- a marked cell is written in place: the spec's store at the one slot it occupies -/
theorem sim_inplace (L : List Nat) (s : St) (t : Spec.RefVal.St) (hs : Sim L s t)
    (x i c : Nat) (a : List Nat) (cl : Cell) (v : Int)
    (hx : s.arrs[x]? = some a) (hi : a[i]? = some c) (hc : s.heap[c]? = some cl) (hpos : 0 < cl.cnt) :
    Sim L ⟨s.heap.set c ⟨v, cl.cnt⟩, s.arrs, s.bnd⟩
      ⟨t.arrs.set x ((a.map (cellVal s.heap)).set i v), t.bnd⟩ := by
  refine ⟨?_, hs.len, hs.live, hs.dead, ?_⟩
  · show t.arrs.set x _ = s.arrs.map (fun a => a.map (cellVal (s.heap.set c ⟨v, cl.cnt⟩)))
    rw [hs.arrs]
    symm
    apply vals_set_unique s.arrs _ _ x i c a v hx hi
    · exact cellVal_set_self _ _ _ _ hc
    · intro c' hne; exact cellVal_set_ne _ _ _ _ hne
    · intro x' a' i' h1 h2
      exact hs.uniq c cl hc hpos x' a' i' x a i h1 h2 hx hi
  · intro d cd hd hp x1 a1 i1 x2 a2 i2 h1 h2 h3 h4
    rcases get_set_cell _ _ _ _ hc _ _ hd with ⟨e1, _⟩ | ⟨_, e2⟩
    · subst e1
      exact hs.uniq d cl hc hpos x1 a1 i1 x2 a2 i2 h1 h2 h3 h4
    · exact hs.uniq d cd e2 hp x1 a1 i1 x2 a2 i2 h1 h2 h3 h4

/-- an unmarked cell at `(x, i)` is replaced by a fresh one holding `v` -/
theorem sim_replace (L : List Nat) (s : St) (t : Spec.RefVal.St) (hw : WF s) (hs : Sim L s t)
    (x i c : Nat) (a : List Nat) (cl : Cell) (v : Int)
    (hx : s.arrs[x]? = some a) (hi : a[i]? = some c) (hc : s.heap[c]? = some cl) (h0 : cl.cnt = 0) :
    Sim L ⟨s.heap ++ [⟨v, 0⟩], s.arrs.set x (a.set i s.heap.length), s.bnd⟩
      ⟨t.arrs.set x ((a.map (cellVal s.heap)).set i v), t.bnd⟩ := by
  refine ⟨?_, hs.len, ?_, hs.dead, ?_⟩
  · show t.arrs.set x _ =
      (s.arrs.set x (a.set i s.heap.length)).map (fun a => a.map (cellVal (s.heap ++ [⟨v, 0⟩])))
    have e1 : s.arrs.map (fun a => a.map (cellVal (s.heap ++ [⟨v, 0⟩]))) = vals s := by
      apply vals_congr
      intro x1 a1 i1 c1 h1 h2
      exact cellVal_append_left _ _ _ (hw.slots x1 a1 i1 c1 h1 h2)
    have e2 : a.map (cellVal (s.heap ++ [⟨v, 0⟩])) = a.map (cellVal s.heap) := by
      apply List.map_congr_left
      intro c1 hc1
      obtain ⟨i1, hi1⟩ := List.getElem?_of_mem hc1
      exact cellVal_append_left _ _ _ (hw.slots x a i1 c1 hx hi1)
    simp only [List.map_set]
    rw [e1, e2, cellVal_append_new, hs.arrs]
  · intro r c' k hr
    obtain ⟨hrL, x0, i0, a0, ht, h1, h2⟩ := hs.live r c' k hr
    refine ⟨hrL, x0, i0, ?_⟩
    have hne : ¬ (x0 = x ∧ i0 = i) := by
      rintro ⟨e1, e2⟩
      subst e1; subst e2
      rw [hx] at h1; cases h1
      rw [hi] at h2; cases h2
      have := binders_pos s r c k hr
      have := hw.count c cl hc
      omega
    obtain ⟨a1, h3, h4⟩ := slot_set_new s.arrs x i s.heap.length a hx x0 i0 c' a0 h1 h2 hne
    exact ⟨a1, ht, h3, h4⟩
  · intro d cd hd hp x1 a1 i1 x2 a2 i2 h1 h2 h3 h4
    rcases get_append_cell _ _ _ _ hd with ⟨_, e2⟩ | ⟨e1, e2⟩
    · subst e2; cases hp
    · have hne : d ≠ s.heap.length := by omega
      obtain ⟨b1, g1, g2⟩ := slot_set_old s.arrs x i s.heap.length a hx x1 i1 d a1 h1 h2 hne
      obtain ⟨b2, g3, g4⟩ := slot_set_old s.arrs x i s.heap.length a hx x2 i2 d a2 h3 h4 hne
      exact hs.uniq d cd e2 hp x1 b1 i1 x2 b2 i2 g1 g2 g3 g4

/-- the binding itself -/
theorem sim_bind_final (L : List Nat) (s1 : St) (t : Spec.RefVal.St) (hw : WF s1) (hs : Sim L s1 t)
    (r c x i : Nat) (k : Kind) (a : List Nat) (hr : s1.bnd[r]? = some none)
    (hx : s1.arrs[x]? = some a) (hi : a[i]? = some c)
    (hu : ∀ (x' : Nat) (a' : List Nat) (i' : Nat), s1.arrs[x']? = some a' → a'[i']? = some c → x' = x ∧ i' = i) :
    Sim (r :: L) ⟨incCnt s1.heap c, s1.arrs, s1.bnd.set r (some (c, k))⟩
      ⟨t.arrs, t.bnd.set r (some (x, i))⟩ := by
  have hrlt := lt_of_getElem?_eq_some _ _ _ hr
  have hlen := hs.len
  refine ⟨?_, ?_, ?_, ?_, ?_⟩
  · show t.arrs = s1.arrs.map (fun a => a.map (cellVal (incCnt s1.heap c)))
    have : cellVal (incCnt s1.heap c) = cellVal s1.heap := funext (cellVal_incCnt _ _)
    rw [this]; exact hs.arrs
  · show (t.bnd.set r _).length = (s1.bnd.set r _).length
    rw [List.length_set, List.length_set]; exact hlen
  · intro r1 c1 k1 hr1
    have hr1' : (s1.bnd.set r (some (c, k)))[r1]? = some (some (c1, k1)) := hr1
    show r1 ∈ r :: L ∧ ∃ x0 i0 a0, (t.bnd.set r (some (x, i)))[r1]? = some (some (x0, i0)) ∧ _
    rw [List.getElem?_set] at hr1'
    rw [List.getElem?_set]
    by_cases hrr : r = r1
    · subst hrr
      simp only [if_true, hrlt] at hr1'
      cases hr1'
      have : r < t.bnd.length := by omega
      simp only [if_true, this]
      exact ⟨List.mem_cons_self, x, i, a, rfl, hx, hi⟩
    · simp only [hrr, if_false] at hr1' ⊢
      obtain ⟨h1, h2⟩ := hs.live r1 c1 k1 hr1'
      exact ⟨List.mem_cons_of_mem _ h1, h2⟩
  · intro r1 hr1
    have hr1' : (s1.bnd.set r (some (c, k)))[r1]? = some none := hr1
    show (t.bnd.set r (some (x, i)))[r1]? = some none
    rw [List.getElem?_set] at hr1'
    rw [List.getElem?_set]
    by_cases hrr : r = r1
    · subst hrr
      simp only [if_true, hrlt] at hr1'
      cases hr1'
    · simp only [hrr, if_false] at hr1' ⊢
      exact hs.dead r1 hr1'
  · intro d cd hd hp x1 a1 i1 x2 a2 i2 h1 h2 h3 h4
    have hclt := hw.slots x a i c hx hi
    obtain ⟨cl, hcl⟩ : ∃ cl, s1.heap[c]? = some cl := ⟨s1.heap[c], by simp [hclt]⟩
    have hd' : (incCnt s1.heap c)[d]? = some cd := hd
    rw [incCnt_of_get _ _ _ hcl] at hd'
    rcases get_set_cell _ _ _ _ hcl _ _ hd' with ⟨e1, _⟩ | ⟨_, e2⟩
    · subst e1
      obtain ⟨g1, g2⟩ := hu x1 a1 i1 h1 h2
      obtain ⟨g3, g4⟩ := hu x2 a2 i2 h3 h4
      exact ⟨g1.trans g3.symm, g2.trans g4.symm⟩
    · exact hs.uniq d cd e2 hp x1 a1 i1 x2 a2 i2 h1 h2 h3 h4

theorem sim_release (L : List Nat) (s : St) (t : Spec.RefVal.St) (hw : WF s) (hs : Sim L s t)
    (r : Nat) (hr : r < s.bnd.length) :
    Sim (L.filter (· != r)) (release .counted s r) ⟨t.arrs, t.bnd.set r none⟩ := by
  have hrt : r < t.bnd.length := by have := hs.len; omega
  cases hb : s.bnd[r]? with
  | none =>
    simp only [List.getElem?_eq_none_iff] at hb; omega
  | some b =>
    cases b with
    | none =>
      rw [release_unbound _ _ _ hb, set_self_of_getElem? _ _ _ (hs.dead r hb)]
      apply sim_mono L _ s t hs
      intro r1 h1 ⟨c, k, h2⟩
      have hne : r1 ≠ r := by
        intro e; subst e; rw [hb] at h2; cases h2
      simp only [List.mem_filter, bne_iff_ne, ne_eq]
      exact ⟨h1, hne⟩
    | some p =>
      obtain ⟨c, k⟩ := p
      have hlt := hw.bound r c k hb
      obtain ⟨cl, hcl⟩ : ∃ cl, s.heap[c]? = some cl := ⟨s.heap[c], by simp [hlt]⟩
      rw [release_bound s r c k cl hb hcl]
      refine ⟨?_, ?_, ?_, ?_, ?_⟩
      · show t.arrs = s.arrs.map (fun a => a.map (cellVal (s.heap.set c ⟨cl.val, cl.cnt - 1⟩)))
        have : cellVal (s.heap.set c ⟨cl.val, cl.cnt - 1⟩) = cellVal s.heap :=
          funext (cellVal_set_same _ _ _ _ hcl)
        rw [this]; exact hs.arrs
      · show (t.bnd.set r _).length = (s.bnd.set r _).length
        rw [List.length_set, List.length_set]; exact hs.len
      · intro r1 c1 k1 hr1
        have hr1' : (s.bnd.set r none)[r1]? = some (some (c1, k1)) := hr1
        show r1 ∈ L.filter (· != r) ∧ ∃ x0 i0 a0, (t.bnd.set r none)[r1]? = some (some (x0, i0)) ∧ _
        rw [List.getElem?_set] at hr1'
        rw [List.getElem?_set]
        by_cases hrr : r = r1
        · subst hrr
          simp only [if_true, hr] at hr1'
          cases hr1'
        · simp only [hrr, if_false] at hr1' ⊢
          obtain ⟨h1, h2⟩ := hs.live r1 c1 k1 hr1'
          refine ⟨?_, h2⟩
          simp only [List.mem_filter, bne_iff_ne, ne_eq]
          exact ⟨h1, fun e => hrr e.symm⟩
      · intro r1 hr1
        have hr1' : (s.bnd.set r none)[r1]? = some none := hr1
        show (t.bnd.set r none)[r1]? = some none
        rw [List.getElem?_set] at hr1'
        rw [List.getElem?_set]
        by_cases hrr : r = r1
        · subst hrr
          simp only [if_true, hrt]
        · simp only [hrr, if_false] at hr1' ⊢
          exact hs.dead r1 hr1'
      · intro d cd hd hp x1 a1 i1 x2 a2 i2 h1 h2 h3 h4
        rcases get_set_cell _ _ _ _ hcl _ _ hd with ⟨e1, e2⟩ | ⟨_, e2⟩
        · subst e1; subst e2
          have hp' : 0 < cl.cnt - 1 := hp
          exact hs.uniq d cl hcl (by omega) x1 a1 i1 x2 a2 i2 h1 h2 h3 h4
        · exact hs.uniq d cd e2 hp x1 a1 i1 x2 a2 i2 h1 h2 h3 h4

/-! ### one statement -/

theorem sim_lit (L : List Nat) (s : St) (t : Spec.RefVal.St) (x : Nat) (vs : List Int) (rest : List Op)
    (hw : WF s) (hs : Sim L s t) (hd : disc L (.lit x vs :: rest) = true) :
    ∃ L', Sim L' (step .counted s (.lit x vs)) (Spec.RefVal.step t (.lit x vs)) ∧ disc L' rest = true := by
  simp only [disc, Bool.and_eq_true, List.isEmpty_iff] at hd
  obtain ⟨hL, hd⟩ := hd
  subst hL
  refine ⟨[], ?_, hd⟩
  have hw' := wf_step s (.lit x vs) hw
  have hlen := spec_arrs_len hs
  by_cases hx : x < s.arrs.length
  · have hx' : x < t.arrs.length := by omega
    have e1 : step .counted s (.lit x vs) =
        ⟨s.heap ++ vs.map (fun v => ⟨v, 0⟩), s.arrs.set x (List.range' s.heap.length vs.length), s.bnd⟩ := by
      simp only [step, stepOpt, hx, ↓reduceIte, Option.getD_some]
    have e2 : Spec.RefVal.step t (.lit x vs) = ⟨t.arrs.set x vs, t.bnd⟩ := by
      simp only [Spec.RefVal.step, Spec.RefVal.stepOpt, hx', ↓reduceIte, Option.getD_some]
    rw [e1] at hw' ⊢
    rw [e2]
    apply sim_nobinder s _ t ⟨t.arrs.set x vs, t.bnd⟩ hs hw' rfl rfl
    show t.arrs.set x vs = (s.arrs.set x (List.range' s.heap.length vs.length)).map
      (fun a => a.map (cellVal (s.heap ++ vs.map (fun v => ⟨v, 0⟩))))
    have e3 : s.arrs.map (fun a => a.map (cellVal (s.heap ++ vs.map (fun v => ⟨v, 0⟩)))) = vals s := by
      apply vals_congr
      intro x1 a1 i1 c1 h1 h2
      exact cellVal_append_left _ _ _ (hw.slots x1 a1 i1 c1 h1 h2)
    simp only [List.map_set]
    rw [e3, map_cellVal_range', hs.arrs]
  · have hx' : ¬ x < t.arrs.length := by omega
    have e1 : step .counted s (.lit x vs) = s := by
      simp only [step, stepOpt, hx, ↓reduceIte, Option.getD_none]
    have e2 : Spec.RefVal.step t (.lit x vs) = t := by
      simp only [Spec.RefVal.step, Spec.RefVal.stepOpt, hx', ↓reduceIte, Option.getD_none]
    rw [e1, e2]; exact hs

theorem sim_copy (L : List Nat) (s : St) (t : Spec.RefVal.St) (x y : Nat) (rest : List Op)
    (hw : WF s) (hs : Sim L s t) (hd : disc L (.copy x y :: rest) = true) :
    ∃ L', Sim L' (step .counted s (.copy x y)) (Spec.RefVal.step t (.copy x y)) ∧ disc L' rest = true := by
  simp only [disc, Bool.and_eq_true, List.isEmpty_iff] at hd
  obtain ⟨hL, hd⟩ := hd
  subst hL
  refine ⟨[], ?_, hd⟩
  have hw' := wf_step s (.copy x y) hw
  have hlen := spec_arrs_len hs
  have hy' := spec_arrs_get hs y
  by_cases hx : x < s.arrs.length
  · have hx' : x < t.arrs.length := by omega
    cases hy : s.arrs[y]? with
    | none =>
      rw [hy] at hy'
      have e1 : step .counted s (.copy x y) = s := by
        simp only [step, stepOpt, hx, hy, ↓reduceIte, Option.getD_none]
      have e2 : Spec.RefVal.step t (.copy x y) = t := by
        simp only [Spec.RefVal.step, Spec.RefVal.stepOpt, hx', hy', Option.map_none, ↓reduceIte, Option.getD_none]
      rw [e1, e2]; exact hs
    | some a =>
      rw [hy] at hy'
      have e1 : step .counted s (.copy x y) = ⟨s.heap, s.arrs.set x a, s.bnd⟩ := by
        simp only [step, stepOpt, hx, hy, ↓reduceIte, Option.getD_some]
      have e2 : Spec.RefVal.step t (.copy x y) = ⟨t.arrs.set x (a.map (cellVal s.heap)), t.bnd⟩ := by
        simp only [Spec.RefVal.step, Spec.RefVal.stepOpt, hx', hy', Option.map_some, ↓reduceIte, Option.getD_some]
      rw [e1] at hw' ⊢
      rw [e2]
      apply sim_nobinder s _ t ⟨t.arrs.set x (a.map (cellVal s.heap)), t.bnd⟩ hs hw' rfl rfl
      show t.arrs.set x _ = (s.arrs.set x a).map (fun a => a.map (cellVal s.heap))
      simp only [List.map_set]
      rw [hs.arrs]; rfl
  · have hx' : ¬ x < t.arrs.length := by omega
    have e1 : step .counted s (.copy x y) = s := by
      simp only [step, stepOpt, hx, ↓reduceIte, Option.getD_none]
    have e2 : Spec.RefVal.step t (.copy x y) = t := by
      simp only [Spec.RefVal.step, Spec.RefVal.stepOpt, hx', ↓reduceIte, Option.getD_none]
    rw [e1, e2]; exact hs

theorem sim_store (L : List Nat) (s : St) (t : Spec.RefVal.St) (x i : Nat) (v : Int) (rest : List Op)
    (hw : WF s) (hs : Sim L s t) (hd : disc L (.store x i v :: rest) = true) :
    ∃ L', Sim L' (step .counted s (.store x i v)) (Spec.RefVal.step t (.store x i v)) ∧
      disc L' rest = true := by
  simp only [disc] at hd
  refine ⟨L, ?_, hd⟩
  cases hst : storeSlot s x i v with
  | none =>
    have e1 : step .counted s (.store x i v) = s := by
      simp only [step, stepOpt, hst, Option.getD_none]
    have e2 : Spec.RefVal.step t (.store x i v) = t := by
      simp only [Spec.RefVal.step, Spec.RefVal.stepOpt]
      rcases storeSlot_none _ _ _ _ hst with h1 | ⟨a, h1, h2⟩ | ⟨a, c, h1, h2, h3⟩
      · rw [spec_store_none1 hs x i v h1]; rfl
      · rw [spec_store_none2 hs x i a v h1 h2]; rfl
      · have := hw.slots x a i c h1 h2
        simp only [List.getElem?_eq_none_iff] at h3; omega
    rw [e1, e2]; exact hs
  | some s' =>
    have e1 : step .counted s (.store x i v) = s' := by
      simp only [step, stepOpt, hst, Option.getD_some]
    obtain ⟨a, c, cl, hx, hi, hc, hcase⟩ := storeSlot_some _ _ _ _ _ hst
    have e2 : Spec.RefVal.step t (.store x i v) =
        ⟨t.arrs.set x ((a.map (cellVal s.heap)).set i v), t.bnd⟩ := by
      simp only [Spec.RefVal.step, Spec.RefVal.stepOpt]
      rw [spec_store_some hs x i c a v hx hi]; rfl
    rw [e1, e2]
    rcases hcase with ⟨hp, h1⟩ | ⟨h0, h1⟩
    · subst h1; exact sim_inplace L s t hs x i c a cl v hx hi hc hp
    · subst h1; exact sim_replace L s t hw hs x i c a cl v hx hi hc h0

theorem sim_wr (L : List Nat) (s : St) (t : Spec.RefVal.St) (r : Nat) (v : Int) (rest : List Op)
    (hw : WF s) (hs : Sim L s t) (hd : disc L (.wr r v :: rest) = true) :
    ∃ L', Sim L' (step .counted s (.wr r v)) (Spec.RefVal.step t (.wr r v)) ∧ disc L' rest = true := by
  simp only [disc] at hd
  refine ⟨L, ?_, hd⟩
  cases hb : s.bnd[r]? with
  | none =>
    have hb' := spec_bnd_none hs r hb
    have e1 : step .counted s (.wr r v) = s := by
      simp only [step, stepOpt, hb, Option.getD_none]
    have e2 : Spec.RefVal.step t (.wr r v) = t := by
      simp only [Spec.RefVal.step, Spec.RefVal.stepOpt, hb', Option.getD_none]
    rw [e1, e2]; exact hs
  | some b =>
    cases b with
    | none =>
      have hb' := hs.dead r hb
      have e1 : step .counted s (.wr r v) = s := by
        simp only [step, stepOpt, hb, Option.getD_some]
      have e2 : Spec.RefVal.step t (.wr r v) = t := by
        simp only [Spec.RefVal.step, Spec.RefVal.stepOpt, hb', Option.getD_some]
      rw [e1, e2]; exact hs
    | some p =>
      obtain ⟨c, k⟩ := p
      obtain ⟨_, x, i, a, hb', hx, hi⟩ := hs.live r c k hb
      have hlt := hw.bound r c k hb
      obtain ⟨cl, hcl⟩ : ∃ cl, s.heap[c]? = some cl := ⟨s.heap[c], by simp [hlt]⟩
      have hp : 0 < cl.cnt := by
        have := binders_pos s r c k hb
        have := hw.count c cl hcl
        omega
      have e1 : step .counted s (.wr r v) = ⟨s.heap.set c ⟨v, cl.cnt⟩, s.arrs, s.bnd⟩ := by
        simp only [step, stepOpt, hb, Option.getD_some, setVal_of_get _ _ _ _ hcl]
      have e2 : Spec.RefVal.step t (.wr r v) =
          ⟨t.arrs.set x ((a.map (cellVal s.heap)).set i v), t.bnd⟩ := by
        simp only [Spec.RefVal.step, Spec.RefVal.stepOpt, hb']
        rw [spec_store_some hs x i c a v hx hi]; rfl
      rw [e1, e2]
      exact sim_inplace L s t hs x i c a cl v hx hi hcl hp

theorem sim_release_step (L : List Nat) (s : St) (t : Spec.RefVal.St) (r : Nat) (rest : List Op)
    (hw : WF s) (hs : Sim L s t) (hd : disc L (.release r :: rest) = true) :
    ∃ L', Sim L' (step .counted s (.release r)) (Spec.RefVal.step t (.release r)) ∧ disc L' rest = true := by
  simp only [disc] at hd
  refine ⟨L.filter (· != r), ?_, hd⟩
  by_cases hr : r < s.bnd.length
  · have hr' : r < t.bnd.length := by have := hs.len; omega
    have e1 : step .counted s (.release r) = release .counted s r := by
      simp only [step, stepOpt, hr, ↓reduceIte, Option.getD_some]
    have e2 : Spec.RefVal.step t (.release r) = ⟨t.arrs, t.bnd.set r none⟩ := by
      simp only [Spec.RefVal.step, Spec.RefVal.stepOpt, hr', ↓reduceIte, Option.getD_some]
    rw [e1, e2]
    exact sim_release L s t hw hs r hr
  · have hr' : ¬ r < t.bnd.length := by have := hs.len; omega
    have e1 : step .counted s (.release r) = s := by
      simp only [step, stepOpt, hr, ↓reduceIte, Option.getD_none]
    have e2 : Spec.RefVal.step t (.release r) = t := by
      simp only [Spec.RefVal.step, Spec.RefVal.stepOpt, hr', ↓reduceIte, Option.getD_none]
    rw [e1, e2]
    apply sim_mono L _ s t hs
    intro r1 h1 ⟨c, k, h2⟩
    have := lt_of_getElem?_eq_some _ _ _ h2
    simp only [List.mem_filter, bne_iff_ne, ne_eq]
    exact ⟨h1, by omega⟩

theorem sim_bind (L : List Nat) (s : St) (t : Spec.RefVal.St) (k : Kind) (r x i : Nat) (rest : List Op)
    (hw : WF s) (hs : Sim L s t) (hd : disc L (.bind k r x i :: rest) = true) :
    ∃ L', Sim L' (step .counted s (.bind k r x i)) (Spec.RefVal.step t (.bind k r x i)) ∧
      disc L' rest = true := by
  simp only [disc, Bool.and_eq_true, Bool.not_eq_true', List.contains_eq_mem, decide_eq_false_iff_not] at hd
  obtain ⟨hrL, hd⟩ := hd
  refine ⟨r :: L, ?_, hd⟩
  have hmono : Sim (r :: L) s t :=
    sim_mono L _ s t hs (fun r1 h1 _ => List.mem_cons_of_mem _ h1)
  by_cases hr : r < s.bnd.length
  · have hr' : r < t.bnd.length := by have := hs.len; omega
    have hb : s.bnd[r]? = some none := by
      cases hb : s.bnd[r]? with
      | none => simp only [List.getElem?_eq_none_iff] at hb; omega
      | some b =>
        cases b with
        | none => rfl
        | some p => exact absurd (hs.live r p.1 p.2 hb).1 hrL
    have hrel := release_unbound .counted s r hb
    have hx' := spec_arrs_get hs x
    cases ho : ownSlot s x i with
    | none =>
      have e1 : step .counted s (.bind k r x i) = s := by
        simp only [step, stepOpt, hr, hrel, ho, ↓reduceIte, Option.getD_none]
      have e2 : Spec.RefVal.step t (.bind k r x i) = t := by
        rcases ownSlot_none _ _ _ ho with h1 | ⟨a, h1, h2⟩ | ⟨a, c, h1, h2, h3⟩
        · rw [h1] at hx'
          simp only [Spec.RefVal.step, Spec.RefVal.stepOpt, hr', hx', Option.map_none, ↓reduceIte,
            Option.getD_none]
        · rw [h1] at hx'
          have hlt : ¬ i < a.length := by
            simp only [List.getElem?_eq_none_iff] at h2; omega
          simp only [Spec.RefVal.step, Spec.RefVal.stepOpt, hr', hx', Option.map_some, List.length_map,
            hlt, ↓reduceIte, Option.getD_none]
        · have := hw.slots x a i c h1 h2
          simp only [List.getElem?_eq_none_iff] at h3; omega
      rw [e1, e2]; exact hmono
    | some q =>
      obtain ⟨s1, c⟩ := q
      have e1 : step .counted s (.bind k r x i) =
          ⟨incCnt s1.heap c, s1.arrs, s1.bnd.set r (some (c, k))⟩ := by
        have hinc : Cfg.counted.incr k = true := rfl
        simp only [step, stepOpt, hr, hrel, ho, hinc, ↓reduceIte, Option.getD_some]
      obtain ⟨a, c0, cl, hx, hi, hcl, hcase⟩ := ownSlot_some _ _ _ _ _ ho
      rw [hx] at hx'
      have hlt := lt_of_getElem?_eq_some _ _ _ hi
      have e2 : Spec.RefVal.step t (.bind k r x i) = ⟨t.arrs, t.bnd.set r (some (x, i))⟩ := by
        simp only [Spec.RefVal.step, Spec.RefVal.stepOpt, hr', hx', Option.map_some, List.length_map,
          hlt, ↓reduceIte, Option.getD_some]
      rw [e1, e2]
      rcases hcase with ⟨hp, h1, h2⟩ | ⟨h0, h1, h2⟩
      · subst h1; subst h2
        apply sim_bind_final L s1 t hw hs r c x i k a hb hx hi
        intro x1 a1 i1 g1 g2
        exact hs.uniq c cl hcl hp x1 a1 i1 x a i g1 g2 hx hi
      · subst h2
        have hs1 := sim_replace L s t hw hs x i c0 a cl cl.val hx hi hcl h0
        have ea : (a.map (cellVal s.heap)).set i cl.val = a.map (cellVal s.heap) := by
          apply set_self_of_getElem?
          rw [List.getElem?_map, hi, Option.map_some, cellVal_of_get _ _ _ hcl]
        rw [ea, set_self_of_getElem? _ _ _ hx'] at hs1
        have hw1 := wf_replace s hw x i a cl.val hx
        rw [← h1] at hs1 hw1
        have hb1 : s1.bnd[r]? = some none := by rw [h1]; exact hb
        obtain ⟨g1, g2⟩ := slot_set_self s.arrs x i s.heap.length c0 a hx hi
        have hx1 : s1.arrs[x]? = some (a.set i s.heap.length) := by rw [h1]; exact g1
        apply sim_bind_final L s1 t hw1 hs1 r s.heap.length x i k _ hb1 hx1 g2
        intro x1 a1 i1 g3 g4
        rw [h1] at g3
        apply slot_set_fresh s.arrs x i s.heap.length a _ hx x1 i1 a1 g3 g4
        intro x0 a0 i0 f1 f2
        have := hw.slots x0 a0 i0 _ f1 f2
        omega
  · have hr' : ¬ r < t.bnd.length := by have := hs.len; omega
    have e1 : step .counted s (.bind k r x i) = s := by
      simp only [step, stepOpt, hr, ↓reduceIte, Option.getD_none]
    have e2 : Spec.RefVal.step t (.bind k r x i) = t := by
      simp only [Spec.RefVal.step, Spec.RefVal.stepOpt, hr', ↓reduceIte, Option.getD_none]
    rw [e1, e2]; exact hmono

/-- one statement of a disciplined program -/
theorem sim_step (L : List Nat) (s : St) (t : Spec.RefVal.St) (op : Op) (rest : List Op)
    (hw : WF s) (hs : Sim L s t) (hd : disc L (op :: rest) = true) :
    ∃ L', Sim L' (step .counted s op) (Spec.RefVal.step t op) ∧ disc L' rest = true := by
  cases op with
  | lit x vs => exact sim_lit L s t x vs rest hw hs hd
  | copy x y => exact sim_copy L s t x y rest hw hs hd
  | store x i v => exact sim_store L s t x i v rest hw hs hd
  | bind k r x i => exact sim_bind L s t k r x i rest hw hs hd
  | wr r v => exact sim_wr L s t r v rest hw hs hd
  | release r => exact sim_release_step L s t r rest hw hs hd

theorem sim_fold (ops : List Op) (L : List Nat) (s : St) (t : Spec.RefVal.St)
    (hw : WF s) (hs : Sim L s t) (hd : disc L ops = true) :
    ∃ L', Sim L' (ops.foldl (step .counted) s) (ops.foldl Spec.RefVal.step t) := by
  induction ops generalizing L s t with
  | nil => exact ⟨L, hs⟩
  | cons op r ih =>
    obtain ⟨L', hs', hd'⟩ := sim_step L s t op r hw hs hd
    exact ih L' _ _ (wf_step s op hw) hs' hd'

theorem sim_run (nv nr : Nat) (ops : List Op) (hd : disc [] ops = true) :
    ∃ L, Sim L (run .counted nv nr ops) (Spec.RefVal.run nv nr ops) :=
  sim_fold ops [] _ _ (wf_init nv nr) (sim_init nv nr) hd

end Proofs.RefSlot
