import Model.RefSlot
import Spec.RefVal
/-!
C06 — lemmas about `Model.RefSlot` under `Cfg.counted` (the mark on a slot counts its live binders).

* `WF`: cell ids in use are allocated, and the mark of every cell IS the number of live binders —
  an invariant of every program (`wf_run`).
* `Sim L`: the simulation of `Spec.RefVal` for programs that keep the discipline `disc`
  (`sim_run`): a marked cell sits at exactly one position of one array, the position its binders name.
-/
namespace Proofs.RefSlot
open Model.RefSlot

/-- the invariant of every reachable state (every program, `Cfg.counted`) -/
structure WF (s : St) : Prop where
  slots : ∀ (x : Nat) (a : List Nat) (i c : Nat), s.arrs[x]? = some a → a[i]? = some c → c < s.heap.length
  bound : ∀ (r c : Nat) (k : Kind), s.bnd[r]? = some (some (c, k)) → c < s.heap.length
  count : ∀ (c : Nat) (cl : Cell), s.heap[c]? = some cl → cl.cnt = binders s c

theorem wf_init (nv nr : Nat) : WF (init nv nr) := by
  sorry

theorem wf_step (s : St) (op : Op) (h : WF s) : WF (step .counted s op) := by
  sorry

theorem wf_fold (ops : List Op) (s : St) (h : WF s) : WF (ops.foldl (step .counted) s) := by
  induction ops generalizing s with
  | nil => exact h
  | cons op r ih => exact ih _ (wf_step s op h)

theorem wf_run (nv nr : Nat) (ops : List Op) : WF (run .counted nv nr ops) :=
  wf_fold ops _ (wf_init nv nr)

/-- no live binder: no cell is marked -/
theorem unmarked_of_no_binder (s : St) (h : WF s)
    (hb : ∀ (r c : Nat) (k : Kind), s.bnd[r]? ≠ some (some (c, k))) :
    ∀ (c : Nat) (cl : Cell), s.heap[c]? = some cl → cl.cnt = 0 := by
  sorry

/-- the simulation relation; `L` = the reference variables that may be live -/
structure Sim (L : List Nat) (s : St) (t : Spec.RefVal.St) : Prop where
  arrs : t.arrs = vals s
  len : t.bnd.length = s.bnd.length
  live : ∀ (r c : Nat) (k : Kind), s.bnd[r]? = some (some (c, k)) →
    r ∈ L ∧ ∃ (x i : Nat) (a : List Nat), t.bnd[r]? = some (some (x, i)) ∧ s.arrs[x]? = some a ∧ a[i]? = some c
  dead : ∀ (r : Nat), s.bnd[r]? = some none → t.bnd[r]? = some none
  uniq : ∀ (c : Nat) (cl : Cell), s.heap[c]? = some cl → 0 < cl.cnt →
    ∀ (x : Nat) (a : List Nat) (i x' : Nat) (a' : List Nat) (i' : Nat), s.arrs[x]? = some a → a[i]? = some c → s.arrs[x']? = some a' → a'[i']? = some c →
      x = x' ∧ i = i'

theorem sim_init (nv nr : Nat) : Sim [] (init nv nr) (Spec.RefVal.init nv nr) := by
  sorry

/-- one statement of a disciplined program -/
theorem sim_step (L : List Nat) (s : St) (t : Spec.RefVal.St) (op : Op) (rest : List Op)
    (hw : WF s) (hs : Sim L s t) (hd : disc L (op :: rest) = true) :
    ∃ L', Sim L' (step .counted s op) (Spec.RefVal.step t op) ∧ disc L' rest = true := by
  sorry

theorem sim_fold (ops : List Op) (L : List Nat) (s : St) (t : Spec.RefVal.St)
    (hw : WF s) (hs : Sim L s t) (hd : disc L ops = true) :
    ∃ L', Sim L' (ops.foldl (step .counted) s) (ops.foldl Spec.RefVal.step t) := by
  induction ops generalizing L s t with
  | nil => exact ⟨L, hs⟩
  | cons op r ih =>
    obtain ⟨L', hs', hd'⟩ := sim_step L s t op r hw hs hd
    exact ih L' _ _ (wf_step s op hw) hs' hd'

theorem sim_run (nv nr : Nat) (ops : List Op) (hd : disc [] ops = true) :
    ∃ L, Sim L (run .counted nv nr ops) (Spec.RefVal.run nv nr ops) :=
  sim_fold ops [] _ _ (wf_init nv nr) (sim_init nv nr) hd

end Proofs.RefSlot
