import Model.SortKeys
import Proofs.Lemmas.Pattern
/-!
Lemmas for C20 (ii), round 5: a sort over a slice collected in map order.

* a comparator that is a strict weak order makes `sortSlice` a sort (`leOf` transitive and total);
* without a tie on the collected elements the result is the same for every collection order;
* with a tie on two different elements there are two collection orders with different results
  (stability of the merge sort: a tied pair keeps its input order);
* a comparator through a sort key over a strict total order ties exactly on equal keys.
-/
namespace Proofs.SortTie
open Model.SortKeys

variable {α ν : Type}

/-- what a Go comparator has to be for `sort.Slice` to sort: asymmetric, and incomparability is
transitive (stated contrapositively) -/
structure StrictWeak (less : α → α → Bool) : Prop where
  asymm : ∀ a b, less a b = true → less b a = false
  negtrans : ∀ a b c, less a c = true → less a b = true ∨ less b c = true

/-- a strict total order on the sort keys (`<` on integers, on strings, on lengths) -/
structure StrictTotal (lt : ν → ν → Bool) : Prop where
  asymm : ∀ a b, lt a b = true → lt b a = false
  trans : ∀ a b c, lt a b = true → lt b c = true → lt a c = true
  connected : ∀ a b, a ≠ b → lt a b = true ∨ lt b a = true

theorem StrictTotal.irrefl {lt : ν → ν → Bool} (h : StrictTotal lt) (a : ν) : lt a a = false := by
  cases e : lt a a with
  | false => rfl
  | true => have := h.asymm a a e; rw [e] at this; exact this

theorem StrictTotal.flip {lt : ν → ν → Bool} (h : StrictTotal lt) : StrictTotal (fun a b => lt b a) :=
  ⟨fun a b e => h.asymm b a e, fun a b c e₁ e₂ => h.trans c b a e₂ e₁,
   fun a b ne => (h.connected a b ne).symm⟩

/-- comparing through a key over a strict total order is a strict weak order -/
theorem byKey_strictWeak {lt : ν → ν → Bool} (h : StrictTotal lt) (f : α → ν) : StrictWeak (byKey lt f) := by
  refine ⟨fun a b e => h.asymm _ _ e, fun a b c e => ?_⟩
  simp only [byKey] at e ⊢
  by_cases hb : f a = f b
  · right; rw [← hb]; exact e
  · rcases h.connected _ _ hb with h₁ | h₁
    · left; exact h₁
    · right; exact h.trans _ _ _ h₁ e

theorem strictTotal_strictWeak {lt : ν → ν → Bool} (h : StrictTotal lt) : StrictWeak lt :=
  byKey_strictWeak h id

/-- a key comparator ties exactly on equal keys -/
theorem byKey_tie_iff {lt : ν → ν → Bool} (h : StrictTotal lt) (f : α → ν) (a b : α) :
    tie (byKey lt f) a b ↔ f a = f b := by
  constructor
  · intro ⟨t₁, t₂⟩
    simp only [byKey] at t₁ t₂
    by_cases e : f a = f b
    · exact e
    · rcases h.connected _ _ e with h₁ | h₁
      · rw [h₁] at t₁; cases t₁
      · rw [h₁] at t₂; cases t₂
  · intro e
    simp only [tie, byKey, e, h.irrefl, and_self]

theorem leOf_trans {less : α → α → Bool} (h : StrictWeak less) :
    ∀ a b c, leOf less a b = true → leOf less b c = true → leOf less a c = true := by
  intro a b c h₁ h₂
  simp only [leOf, Bool.not_eq_true'] at h₁ h₂ ⊢
  cases e : less c a with
  | false => rfl
  | true =>
    rcases h.negtrans c b a e with h' | h'
    · rw [h'] at h₂; cases h₂
    · rw [h'] at h₁; cases h₁

theorem leOf_total {less : α → α → Bool} (h : StrictWeak less) :
    ∀ a b, (leOf less a b || leOf less b a) = true := by
  intro a b
  simp only [leOf]
  cases e : less b a with
  | false => simp
  | true => simp [h.asymm b a e]

theorem sortSlice_perm (less : α → α → Bool) (l : List α) : (sortSlice less l).Perm l :=
  List.mergeSort_perm l _

theorem sortSlice_sorted {less : α → α → Bool} (h : StrictWeak less) (l : List α) :
    (sortSlice less l).Pairwise (fun a b => leOf less a b = true) :=
  List.pairwise_mergeSort (leOf_trans h) (leOf_total h) l

/-- no tie between different collected elements ⇒ one result for every collection order -/
theorem sortSlice_perm_of_no_tie {less : α → α → Bool} (h : StrictWeak less) {l₁ l₂ : List α}
    (hp : l₁.Perm l₂) (hnt : ∀ a ∈ l₁, ∀ b ∈ l₁, tie less a b → a = b) :
    sortSlice less l₁ = sortSlice less l₂ := by
  apply Proofs.Pattern.sorted_perm_unique (le := fun a b => leOf less a b = true) _ hp
    (sortSlice_perm less l₁) (sortSlice_sorted h l₁) (sortSlice_perm less l₂) (sortSlice_sorted h l₂)
  intro a b ha hb h₁ h₂
  apply hnt a ha b hb
  simp only [leOf, Bool.not_eq_true'] at h₁ h₂
  exact ⟨h₂, h₁⟩

/-- in a duplicate-free list two different elements occur in one order only -/
theorem not_both_orders {a b : α} (hab : a ≠ b) : ∀ {r : List α}, r.Nodup → [a, b].Sublist r → [b, a].Sublist r → False := by
  intro r
  induction r with
  | nil => intro _ h _; cases h
  | cons x r ih =>
    intro hn h₁ h₂
    have hx : x ∉ r := (List.nodup_cons.1 hn).1
    have hr : r.Nodup := (List.nodup_cons.1 hn).2
    rcases List.sublist_cons_iff.1 h₁ with h₁' | ⟨t₁, e₁, s₁⟩
    · rcases List.sublist_cons_iff.1 h₂ with h₂' | ⟨t₂, e₂, s₂⟩
      · exact ih hr h₁' h₂'
      · -- x = b, and b occurs again in r
        have hb : b = x := (List.cons.inj e₂).1
        have : b ∈ r := h₁'.subset (by simp)
        exact hx (hb ▸ this)
    · have ha : a = x := (List.cons.inj e₁).1
      rcases List.sublist_cons_iff.1 h₂ with h₂' | ⟨t₂, e₂, s₂⟩
      · have : a ∈ r := h₂'.subset (by simp)
        exact hx (ha ▸ this)
      · have hb : b = x := (List.cons.inj e₂).1
        exact hab (ha.trans hb.symm)

/-- **a tie shows the collection order**: two different collected elements the comparator cannot
tell apart ⇒ two collection orders of the same elements whose sorted results differ -/
theorem sortSlice_tie_depends [DecidableEq α] {less : α → α → Bool} (h : StrictWeak less) {l : List α}
    (hn : l.Nodup) {a b : α} (ha : a ∈ l) (hb : b ∈ l) (hab : a ≠ b) (ht : tie less a b) :
    ∃ l₁ l₂ : List α, l₁.Perm l ∧ l₂.Perm l ∧ sortSlice less l₁ ≠ sortSlice less l₂ := by
  have hb' : b ∈ l.erase a := (List.mem_erase_of_ne (Ne.symm hab)).2 hb
  have p₁ : (a :: b :: (l.erase a).erase b).Perm l :=
    ((List.perm_cons_erase hb').symm.cons a).trans (List.perm_cons_erase ha).symm
  have p₂ : (b :: a :: (l.erase a).erase b).Perm l := (List.Perm.swap a b _).trans p₁
  refine ⟨_, _, p₁, p₂, fun e => ?_⟩
  have s₁ : [a, b].Sublist (sortSlice less (a :: b :: (l.erase a).erase b)) :=
    List.pair_sublist_mergeSort (leOf_trans h) (leOf_total h) (by simp [leOf, ht.2]) (by simp)
  have s₂ : [b, a].Sublist (sortSlice less (b :: a :: (l.erase a).erase b)) :=
    List.pair_sublist_mergeSort (leOf_trans h) (leOf_total h) (by simp [leOf, ht.1]) (by simp)
  rw [← e] at s₂
  exact not_both_orders hab (((sortSlice_perm less _).trans p₁).nodup_iff.2 hn) s₁ s₂

/-! ### Go's `<` on strings -/

theorem bytesLt_irrefl : ∀ a : List Nat, bytesLt a a = false
  | [] => rfl
  | x :: xs => by simp [bytesLt, bytesLt_irrefl xs]

theorem bytesLt_asymm : ∀ a b : List Nat, bytesLt a b = true → bytesLt b a = false
  | [], [], _ => rfl
  | [], _ :: _, _ => rfl
  | _ :: _, [], h => by simp [bytesLt] at h
  | x :: xs, y :: ys, h => by
    simp only [bytesLt] at h ⊢
    by_cases h₁ : x < y
    · have : ¬ y < x := by omega
      simp [this, h₁]
    · by_cases h₂ : y < x
      · simp [h₁, h₂] at h
      · simp only [h₁, h₂, if_false] at h ⊢
        exact bytesLt_asymm xs ys h

theorem bytesLt_trans : ∀ a b c : List Nat, bytesLt a b = true → bytesLt b c = true → bytesLt a c = true
  | [], [], _, h, _ => by simp [bytesLt] at h
  | [], _ :: _, [], _, h => by simp [bytesLt] at h
  | [], _ :: _, _ :: _, _, _ => rfl
  | _ :: _, [], _, h, _ => by simp [bytesLt] at h
  | _ :: _, _ :: _, [], _, h => by simp [bytesLt] at h
  | x :: xs, y :: ys, z :: zs, h₁, h₂ => by
    simp only [bytesLt] at h₁ h₂ ⊢
    by_cases a₁ : x < y
    · by_cases b₁ : y < z
      · have : x < z := by omega
        simp [this]
      · by_cases b₂ : z < y
        · simp [b₁, b₂] at h₂
        · have : x < z := by omega
          simp [this]
    · by_cases a₂ : y < x
      · simp [a₁, a₂] at h₁
      · simp only [a₁, a₂, if_false] at h₁
        by_cases b₁ : y < z
        · have : x < z := by omega
          simp [this]
        · by_cases b₂ : z < y
          · simp [b₁, b₂] at h₂
          · simp only [b₁, b₂, if_false] at h₂
            have c₁ : ¬ x < z := by omega
            have c₂ : ¬ z < x := by omega
            simp only [c₁, c₂, if_false]
            exact bytesLt_trans xs ys zs h₁ h₂

theorem bytesLt_connected : ∀ a b : List Nat, a ≠ b → bytesLt a b = true ∨ bytesLt b a = true
  | [], [], h => absurd rfl h
  | [], _ :: _, _ => Or.inl rfl
  | _ :: _, [], _ => Or.inr rfl
  | x :: xs, y :: ys, h => by
    simp only [bytesLt]
    by_cases h₁ : x < y
    · left; simp [h₁]
    · by_cases h₂ : y < x
      · right; simp [h₂]
      · have e : x = y := by omega
        subst e
        have : xs ≠ ys := fun e' => h (by rw [e'])
        simpa [h₁] using bytesLt_connected xs ys this

theorem bytesLt_strictTotal : StrictTotal bytesLt :=
  ⟨bytesLt_asymm, bytesLt_trans, bytesLt_connected⟩

theorem rawLess_strictTotal (desc : Bool) : StrictTotal (rawLess desc) := by
  cases desc with
  | false =>
    have e : rawLess false = bytesLt := by funext a b; simp [rawLess]
    rw [e]; exact bytesLt_strictTotal
  | true =>
    have e : rawLess true = fun a b => bytesLt b a := by funext a b; simp [rawLess]
    rw [e]; exact bytesLt_strictTotal.flip

theorem natLt_strictTotal : StrictTotal (fun a b : Nat => decide (a < b)) :=
  ⟨fun a b h => by simp at h ⊢; omega, fun a b c h₁ h₂ => by simp at h₁ h₂ ⊢; omega,
   fun a b h => by simp; omega⟩

end Proofs.SortTie
