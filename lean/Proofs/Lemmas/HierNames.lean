import Proofs.Lemmas.HierIs
import Model.HierNames
/-!
Lemmas for the name-based special case of `catchTypeMatches` (`Model.Hier.isThrownP`) and for the kinds of
comparison the translator records (`Model.Hier.NameKind`).
-/
namespace Proofs.Hier
open Model.Hier Spec.Hier

theorem decides_no {r : R} {P : Prop} (h : Decides r P) (hp : ¬ P) : r = .no := by
  rcases h with ⟨_, h2⟩ | ⟨h1, _⟩
  · exact absurd h2 hp
  · exact h1

theorem decides_yes {r : R} {P : Prop} (h : Decides r P) (hp : P) : r = .yes := by
  rcases h with ⟨h1, _⟩ | ⟨_, h2⟩
  · exact h1
  · exact absurd hp h2

/-- the pinned decider is the abstract one with "the name IS `Throwable`" -/
theorem isThrownP_eq (G : Graph) (t : Name) (c : Cls) :
    isThrown G t c = isThrownP (fun t => decide (t = throwableName)) G t c := by
  unfold isThrown isThrownP
  by_cases h : t = throwableName <;> cases isClassValue G t c <;> simp [h] <;>
    (cases isClassValue G exceptionName c <;> rfl)

/-- **catch (T) with a special-name test that holds for the root interface's name only** -/
theorem isThrownP_spec (p : Name → Bool) (hp : ∀ t, p t = true → t = throwableName)
    (G : Graph) (hn : NoCycle (csucc G)) (t : Name) (c : Cls) (hok : ThrowableOK G c) :
    Decides (isThrownP p G t c) (IsA G c t) := by
  unfold isThrownP
  rcases isClassValue_spec G hn t c with ⟨h1, h2⟩ | ⟨h1, h2⟩
  · rw [h1]; exact Or.inl ⟨rfl, h2⟩
  · rw [h1]
    simp only
    cases hpt : p t with
    | false => exact Or.inr ⟨by simp, h2⟩
    | true =>
      have ht := hp t hpt
      subst ht
      simp only [if_true]
      rcases isClassValue_spec G hn exceptionName c with ⟨e1, e2⟩ | ⟨e1, e2⟩
      · exact absurd (hok.1 e2) h2
      · rw [e1]
        simp only
        rcases isClassValue_spec G hn errorName c with ⟨f1, f2⟩ | ⟨f1, f2⟩
        · exact absurd (hok.2 f2) h2
        · exact Or.inr ⟨f1, h2⟩

/-! ### a special-name test that holds for any other name is wrong on the std hierarchy itself -/

/-- `Exception implements Throwable`, `Error implements Throwable`, nothing else -/
def nmExc : Cls := ⟨exceptionName, none, [throwableName], [], []⟩
def nmErr : Cls := ⟨errorName, none, [throwableName], [], []⟩
def nmG : Graph := { classes := [nmExc, nmErr], ifaces := [⟨throwableName, [], []⟩] }

theorem nmG_acyclic : Acyclic nmG := acyclic_of_rankOK nmG (by decide)

theorem not_iReach_leaf (G : Graph) (i t : Name) (d : Ifc) (hg : getIface G i = some d) (hd : d.ext = [])
    (hne : t ≠ i) : ¬ IReach G i t := by
  intro h
  cases h with
  | refl => exact hne rfl
  | step hgi hj _ =>
    rw [hg] at hgi
    cases hgi
    rw [hd] at hj
    cases hj

theorem not_isA_leaf (G : Graph) (c : Cls) (t : Name) (hext : c.ext = none) (hname : t ≠ c.name)
    (himpl : ∀ i ∈ c.impl, ¬ IReach G i t) : ¬ IsA G c t := by
  intro h
  cases h with
  | self => exact hname rfl
  | impl hi hr => exact himpl _ hi hr
  | ext he _ _ => rw [hext] at he; cases he

theorem nm_throwableOK (c : Cls) (hc : throwableName ∈ c.impl) : ThrowableOK nmG c :=
  ⟨fun _ => IsA.impl hc (IReach.refl _), fun _ => IsA.impl hc (IReach.refl _)⟩

/-- **if the test holds for ANY name other than the root interface's, catch is wrong**: on the std hierarchy alone
there is an object that is not a `t` and is caught by `catch (t)` -/
theorem isThrownP_loose (p : Name → Bool) (t : Name) (hpt : p t = true) (hne : t ≠ throwableName) :
    ∃ c, c ∈ nmG.classes ∧ ThrowableOK nmG c ∧ ¬ IsA nmG c t ∧ isThrownP p nmG t c = .yes := by
  have hn := nmG_acyclic.1
  by_cases h1 : t = exceptionName
  · subst h1
    have hnot : ¬ IsA nmG nmErr exceptionName :=
      not_isA_leaf nmG nmErr _ rfl (by decide) (by
        intro i hi
        have : i = throwableName := by simpa [nmErr] using hi
        subst this
        exact not_iReach_leaf nmG _ _ ⟨throwableName, [], []⟩ rfl rfl (by decide))
    refine ⟨nmErr, by simp [nmG], nm_throwableOK nmErr (by simp [nmErr]), hnot, ?_⟩
    unfold isThrownP
    rw [decides_no (isClassValue_spec nmG hn exceptionName nmErr) hnot, hpt]
    decide
  · have hnot : ¬ IsA nmG nmExc t :=
      not_isA_leaf nmG nmExc _ rfl h1 (by
        intro i hi
        have : i = throwableName := by simpa [nmExc] using hi
        subst this
        exact not_iReach_leaf nmG _ _ ⟨throwableName, [], []⟩ rfl rfl hne)
    refine ⟨nmExc, by simp [nmG], nm_throwableOK nmExc (by simp [nmExc]), hnot, ?_⟩
    unfold isThrownP
    rw [decides_no (isClassValue_spec nmG hn t nmExc) hnot, hpt]
    have : isClassValue nmG exceptionName nmExc = .yes := by decide
    simp [this]

/-! ### what the kinds of comparison mean on spellings -/

theorem stripLead_eq (n s : List Char) (h : stripLead n = s) : n = s ∨ n = '\\' :: s := by
  cases n with
  | nil => left; simpa [stripLead] using h
  | cons ch r =>
    by_cases hc : ch = '\\'
    · simp only [stripLead, if_pos hc] at h
      right; rw [hc, h]
    · simp only [stripLead, if_neg hc] at h
      left; exact h

/-- an exact comparison holds only for the special name's own spelling, bare or with one leading backslash -/
theorem holds_exact (k : NameKind) (hk : k.exact = true) (s n : List Char) (h : k.holds s n = some true) :
    n = s ∨ n = '\\' :: s := by
  cases k <;> simp [NameKind.exact] at hk
  · simp [NameKind.holds] at h
    exact Or.inl h
  · simp [NameKind.holds] at h
    exact stripLead_eq n s h

/-- … and it does hold for it -/
theorem holds_self (k : NameKind) (hk : k.exact = true) (s : List Char) (hs : stripLead s = s) :
    k.holds s s = some true := by
  cases k <;> simp [NameKind.exact] at hk
  · simp [NameKind.holds]
  · simp [NameKind.holds, hs]

end Proofs.Hier
