import Model.Ser
/-! Fuel of `pValue`/`pEntries`: more fuel never changes an answer, and `2·len + 1` is enough. -/
namespace Proofs.Ser
open Model.Ser

theorem spanDigits_len (b : Bytes) : (spanDigits b).1.length + (spanDigits b).2.length = b.length := by
  induction b with
  | nil => rfl
  | cons c rest ih =>
    simp only [spanDigits]
    split <;> simp [List.cons] <;> omega

theorem pNull_lt {rest : Bytes} {v : PV} {r : Bytes} (h : pNull rest = some (v, r)) :
    r.length + 1 ≤ rest.length := by
  match rest, h with
  | c :: tl, h =>
    simp only [pNull] at h
    split at h
    · simp only [Option.some.injEq, Prod.mk.injEq] at h; rw [← h.2]; simp_all
    · simp at h

theorem pBool_lt {rest : Bytes} {v : PV} {r : Bytes} (h : pBool rest = some (v, r)) :
    r.length + 1 ≤ rest.length := by
  unfold pBool at h
  split at h
  · split at h
    · simp only [Option.some.injEq, Prod.mk.injEq] at h; rw [← h.2]; simp
    · split at h
      · simp only [Option.some.injEq, Prod.mk.injEq] at h; rw [← h.2]; simp
      · simp at h
  · simp at h

theorem withRest_some {o : Option PV} {rest : Bytes} {v : PV} {r : Bytes}
    (h : withRest o rest = some (v, r)) : r = rest := by
  cases o with
  | none => simp [withRest] at h
  | some x => simp only [withRest, Option.some.injEq, Prod.mk.injEq] at h; exact h.2.symm

theorem pInt_lt {rest : Bytes} {v : PV} {r : Bytes} (h : pInt rest = some (v, r)) :
    r.length + 1 ≤ rest.length := by
  unfold pInt at h
  split at h
  · rename_i tl
    simp only at h
    split at h
    · rename_i rest' hsp
      have hl := spanDigits_len (if tl.head? = some 45 ∨ tl.head? = some 43 then tl.tail else tl)
      rw [hsp] at hl
      have htl : (if tl.head? = some 45 ∨ tl.head? = some 43 then tl.tail else tl).length ≤ tl.length := by
        split <;> simp
      have hr := withRest_some h
      subst hr
      simp at hl ⊢; omega
    · simp at h
  · simp at h

theorem pStr_lt {rest : Bytes} {v : PV} {r : Bytes} (h : pStr rest = some (v, r)) :
    r.length + 1 ≤ rest.length := by
  unfold pStr at h
  split at h
  · rename_i tl
    simp only at h
    split at h
    · rename_i body hsp
      have hl := spanDigits_len tl
      rw [hsp] at hl
      split at h
      · simp at h
      · split at h
        · simp at h
        · split at h
          · rename_i rest' hd
            simp only [Option.some.injEq, Prod.mk.injEq] at h
            rw [← h.2]
            have : (body.drop (digitsVal (spanDigits tl).1)).length ≤ body.length := by simp
            rw [hd] at this
            simp at hl this ⊢; omega
          · simp at h
    · simp at h
  · simp at h

theorem pArrHead_lt {rest : Bytes} {n : Nat} {body : Bytes} (h : pArrHead rest = some (n, body)) :
    body.length + 1 ≤ rest.length := by
  unfold pArrHead at h
  split at h
  · rename_i tl
    simp only at h
    split at h
    · rename_i body' hsp
      have hl := spanDigits_len tl
      rw [hsp] at hl
      split at h
      · simp at h
      · split at h
        · simp at h
        · simp only [Option.some.injEq, Prod.mk.injEq] at h
          rw [← h.2]; simp at hl ⊢; omega
    · simp at h
  · simp at h

theorem splitSemi_len : (b : Bytes) → ∀ t r, splitSemi b = some (t, r) → t.length + r.length + 1 = b.length
  | [], t, r, h => by simp [splitSemi] at h
  | c :: rest, t, r, h => by
    simp only [splitSemi] at h
    split at h
    · simp only [Option.some.injEq, Prod.mk.injEq] at h
      rw [← h.1, ← h.2]; simp
    · cases hs : splitSemi rest with
      | none => simp [hs] at h
      | some p =>
        obtain ⟨a, b⟩ := p
        simp only [hs, Option.some.injEq, Prod.mk.injEq] at h
        have := splitSemi_len rest a b hs
        rw [← h.1, ← h.2]; simp; omega

theorem pFloat_lt {rest : Bytes} {v : PV} {r : Bytes} (h : pFloat rest = some (v, r)) :
    r.length + 1 ≤ rest.length := by
  unfold pFloat at h
  split at h
  · rename_i tl
    cases hs : splitSemi tl with
    | none => simp [hs] at h
    | some p =>
      obtain ⟨t, r'⟩ := p
      simp only [hs] at h
      split at h
      · simp only [Option.some.injEq, Prod.mk.injEq] at h
        have := splitSemi_len tl t r' hs
        rw [← h.2]; simp; omega
      · simp at h
  · simp at h

theorem keyFilter_some {o : Option (PV × Bytes)} {p : PV × Bytes} (h : keyFilter o = some p) : o = some p := by
  match o, h with
  | some (k, s), h =>
    simp only [keyFilter] at h
    split at h
    · exact h
    · simp at h

theorem keyFilter_ok {o : Option (PV × Bytes)} {k : PV} {s : Bytes} (h : keyFilter o = some (k, s)) :
    keyOk k = true := by
  match o, h with
  | some (k', s'), h =>
    simp only [keyFilter] at h
    split at h
    · rename_i hk
      simp only [Option.some.injEq, Prod.mk.injEq] at h
      rw [← h.1]; exact hk
    · simp at h

theorem keyFilter_of_ok {k : PV} {s : Bytes} (h : keyOk k = true) : keyFilter (some (k, s)) = some (k, s) := by
  simp [keyFilter, h]

theorem closeArr_lt {es : List (PV × PV)} {s : Bytes} {v : PV} {r : Bytes}
    (h : closeArr es s = some (v, r)) : r.length + 1 ≤ s.length := by
  unfold closeArr at h
  split at h
  · simp only [Option.some.injEq, Prod.mk.injEq] at h; rw [← h.2]; simp
  · simp at h

/-- more fuel keeps every answer; a value consumes at least two bytes -/
theorem fuel_mono (f : Nat) :
    (∀ s v r, pValue f s = some (v, r) → pValue (f + 1) s = some (v, r) ∧ r.length + 2 ≤ s.length) ∧
    (∀ n s es r, pEntries f n s = some (es, r) → pEntries (f + 1) n s = some (es, r) ∧ r.length ≤ s.length) := by
  induction f with
  | zero =>
    refine ⟨by intro s v r h; simp [pValue] at h, ?_⟩
    intro n s es r h
    cases n with
    | zero => simp only [pEntries, Option.some.injEq, Prod.mk.injEq] at h ⊢; exact ⟨h, by rw [← h.2]; exact Nat.le_refl _⟩
    | succ n => simp [pEntries] at h
  | succ f ih =>
    obtain ⟨ihV, ihE⟩ := ih
    constructor
    · intro s v r h
      cases s with
      | nil => simp [pValue] at h
      | cons c rest =>
        rw [pValue] at h ⊢
        split
        · rename_i hc; rw [if_pos hc] at h; exact ⟨h, by have := pNull_lt h; simp; omega⟩
        · rename_i hc; rw [if_neg hc] at h
          split
          · rename_i hc2; rw [if_pos hc2] at h; exact ⟨h, by have := pBool_lt h; simp; omega⟩
          · rename_i hc2; rw [if_neg hc2] at h
            split
            · rename_i hc3; rw [if_pos hc3] at h; exact ⟨h, by have := pInt_lt h; simp; omega⟩
            · rename_i hc3; rw [if_neg hc3] at h
              split
              · rename_i hc4; rw [if_pos hc4] at h; exact ⟨h, by have := pStr_lt h; simp; omega⟩
              · rename_i hc4; rw [if_neg hc4] at h
                split
                · rename_i hc6; rw [if_pos hc6] at h; exact ⟨h, by have := pFloat_lt h; simp; omega⟩
                · rename_i hc6; rw [if_neg hc6] at h
                  split
                  · rename_i hc5; rw [if_pos hc5] at h
                    cases hh : pArrHead rest with
                    | none => simp [hh] at h
                    | some p =>
                      obtain ⟨n, body⟩ := p
                      simp only [hh] at h ⊢
                      cases he : pEntries f n body with
                      | none => simp [he] at h
                      | some q =>
                        obtain ⟨es, rest'⟩ := q
                        simp only [he] at h
                        obtain ⟨h1, h2⟩ := ihE n body es rest' he
                        rw [h1]
                        refine ⟨h, ?_⟩
                        have := closeArr_lt h
                        have := pArrHead_lt hh
                        simp; omega
                  · rename_i hc5; rw [if_neg hc5] at h; simp at h
    · intro n s es r h
      cases n with
      | zero => simp only [pEntries, Option.some.injEq, Prod.mk.injEq] at h ⊢; exact ⟨h, by rw [← h.2]; exact Nat.le_refl _⟩
      | succ n =>
        rw [pEntries] at h ⊢
        cases hk1 : keyFilter (pValue f s) with
        | none => simp [hk1] at h
        | some p1 =>
          obtain ⟨k, s1⟩ := p1
          have h1 := keyFilter_some hk1
          have hok := keyFilter_ok hk1
          simp only [hk1] at h
          cases h2 : pValue f s1 with
          | none => simp [h2] at h
          | some p2 =>
            obtain ⟨v, s2⟩ := p2
            simp only [h2] at h
            cases h3 : pEntries f n s2 with
            | none => simp [h3] at h
            | some p3 =>
              obtain ⟨es', s3⟩ := p3
              simp only [h3, Option.some.injEq, Prod.mk.injEq] at h
              obtain ⟨a1, a2⟩ := ihV s k s1 h1
              obtain ⟨b1, b2⟩ := ihV s1 v s2 h2
              obtain ⟨c1, c2⟩ := ihE n s2 es' s3 h3
              rw [a1, keyFilter_of_ok hok]; simp only; rw [b1]; simp only; rw [c1]
              simp only [Option.some.injEq, Prod.mk.injEq]
              exact ⟨h, by rw [← h.2]; omega⟩

end Proofs.Ser
