import Proofs.Lemmas.SerDec
/-! `unserialize ∘ serialize = id` on canonical values. -/
namespace Proofs.Ser
open Model.Ser

def PL.keys : PL → List Bytes
  | .nil => []
  | .cons k _ rest => k :: PL.keys rest

mutual
/-- values `serialize` supports and `unserialize` returns unchanged -/
def CanonV : PV → Prop
  | .null => True
  | .bool _ => True
  | .int i => -9223372036854775808 ≤ i ∧ i ≤ 9223372036854775807
  | .str s => s.length ≤ maxInt
  | .float r => floatLex r = true ∧ 59 ∉ r
  | .arr items => CanonItems items ∧ items.len ≤ maxInt
  | .obj props => CanonProps props ∧ props.len ≤ maxInt ∧ props.len ≠ 0 ∧ (PL.keys props).Nodup
def CanonItems : PL → Prop
  | .nil => True
  | .cons k v rest => k = [] ∧ CanonV v ∧ CanonItems rest
def CanonProps : PL → Prop
  | .nil => True
  | .cons k v rest => k.length ≤ maxInt ∧ CanonV v ∧ CanonProps rest
end

def itemEntries : Nat → PL → List (PV × PV)
  | _, .nil => []
  | idx, .cons _ v rest => (.int idx, v) :: itemEntries (idx + 1) rest

def propEntries : PL → List (PV × PV)
  | .nil => []
  | .cons k v rest => (.str k, v) :: propEntries rest

theorem isDigit_false_of {c : Nat} (h : c = 59 ∨ c = 58) : isDigit c = false := by
  rcases h with rfl | rfl <;> decide

/-- scanning a rendered number followed by `:` or `;` -/
theorem span_dec (n : Nat) (hn : n ≤ maxInt) (c : Nat) (hc : c = 59 ∨ c = 58) (rest : Bytes) :
    spanDigits (dec n ++ c :: rest) = (dec n, c :: rest) ∧ digitsVal (dec n) = n ∧ dec n ≠ [] := by
  have hlt : n < 100000000000000000000 := by unfold maxInt at hn; omega
  obtain ⟨h1, h2, h3⟩ := dec_spec n hlt
  exact ⟨spanDigits_append _ _ _ h2 (isDigit_false_of hc), h1, h3⟩

theorem pStr_ser (s rest : Bytes) (hs : s.length ≤ maxInt) :
    pStr (58 :: (dec s.length ++ 58 :: 34 :: (s ++ 34 :: 59 :: rest))) = some (.str s, rest) := by
  obtain ⟨h1, h2, h3⟩ := span_dec s.length hs 58 (Or.inr rfl) (34 :: (s ++ 34 :: 59 :: rest))
  simp only [pStr, h1, h2]
  rw [if_neg h3, if_neg (by omega)]
  simp

theorem pValue_str (s rest : Bytes) (hs : s.length ≤ maxInt) (fuel : Nat) :
    pValue (fuel + 1) (serStr s ++ rest) = some (.str s, rest) := by
  have : serStr s ++ rest = 115 :: 58 :: (dec s.length ++ 58 :: 34 :: (s ++ 34 :: 59 :: rest)) := by
    simp [serStr]
  rw [this, pValue]
  simp only [show ¬ (115 : Nat) = 78 by decide, show ¬ (115 : Nat) = 98 by decide,
    show ¬ (115 : Nat) = 105 by decide, if_false, if_true]
  exact pStr_ser s rest hs

theorem pInt_ser (i : Int) (rest : Bytes) (h1 : -9223372036854775808 ≤ i) (h2 : i ≤ 9223372036854775807) :
    pInt (58 :: (itoa i ++ 59 :: rest)) = some (.int i, rest) := by
  unfold itoa
  split
  · rename_i hneg
    have hn : i.natAbs ≤ maxInt + 1 := by unfold maxInt; omega
    have hlt : i.natAbs < 100000000000000000000 := by unfold maxInt at hn; omega
    obtain ⟨d1, d2, d3⟩ := dec_spec i.natAbs hlt
    have hsp := spanDigits_append (dec i.natAbs) 59 rest d2 (by decide)
    simp only [pInt, List.cons_append, List.head?_cons, List.tail_cons, true_or, if_true, hsp, intOf, d1,
      beq_self_eq_true]
    rw [if_neg d3, if_pos hn]
    have : (-(i.natAbs : Int)) = i := by omega
    rw [this]; rfl
  · rename_i hneg
    have hn : i.toNat ≤ maxInt := by unfold maxInt; omega
    obtain ⟨s1, s2, s3⟩ := span_dec i.toNat hn 59 (Or.inl rfl) rest
    obtain ⟨d, tl, hd, hdig⟩ := dec_head_digit i.toNat (by unfold maxInt at hn; omega)
    have h45 : d ≠ 45 := by intro h; subst h; simp [isDigit] at hdig
    have h43 : d ≠ 43 := by intro h; subst h; simp [isDigit] at hdig
    have hhead : (dec i.toNat ++ 59 :: rest).head? = some d := by rw [hd]; rfl
    have hbeq : ((some d : Option Nat) == some 45) = false := by simp [h45]
    simp only [pInt, hhead, Option.some.injEq, h45, h43, or_self, if_false, s1, intOf, s2, hbeq]
    rw [if_neg s3]
    simp only [Bool.false_eq_true, if_false]
    rw [if_pos hn]
    have : ((i.toNat : Nat) : Int) = i := by omega
    rw [this]; rfl

theorem splitSemi_append : (t : Bytes) → ∀ rest, 59 ∉ t → splitSemi (t ++ 59 :: rest) = some (t, rest)
  | [], rest, _ => by simp [splitSemi]
  | c :: tl, rest, h => by
    simp only [List.mem_cons, not_or] at h
    have := splitSemi_append tl rest h.2
    simp only [List.cons_append, splitSemi, this]
    rw [if_neg (fun e => h.1 e.symm)]

theorem pFloat_ser (t rest : Bytes) (hl : floatLex t = true) (h59 : 59 ∉ t) :
    pFloat (58 :: (t ++ 59 :: rest)) = some (.float t, rest) := by
  simp [pFloat, splitSemi_append t rest h59, hl]

theorem pValue_float (t rest : Bytes) (hl : floatLex t = true) (h59 : 59 ∉ t) (fuel : Nat) :
    pValue (fuel + 1) ([100, 58] ++ t ++ [59] ++ rest) = some (.float t, rest) := by
  have : [100, 58] ++ t ++ [59] ++ rest = 100 :: 58 :: (t ++ 59 :: rest) := by simp
  rw [this, pValue]
  simp only [show ¬ (100 : Nat) = 78 by decide, show ¬ (100 : Nat) = 98 by decide,
    show ¬ (100 : Nat) = 105 by decide, show ¬ (100 : Nat) = 115 by decide, if_false, if_true]
  exact pFloat_ser t rest hl h59

end Proofs.Ser
