import Model.TempShared
/-! Lemmas for the shared-body model of C12: an implementation that keeps no state on the
declaration node is noninterfering (unwinding proof over the purged history). -/
namespace Model.TempShared

theorem declExec_noflag (ib : Bool) (b l : Tab) (fl fl' : Nat → Bool) (d : Decl) :
    (declExec ⟨false⟩ ib b l fl d).b = (declExec ⟨false⟩ ib b l fl' d).b ∧
    (declExec ⟨false⟩ ib b l fl d).l = (declExec ⟨false⟩ ib b l fl' d).l ∧
    (declExec ⟨false⟩ ib b l fl d).ok = (declExec ⟨false⟩ ib b l fl' d).ok := by
  unfold declExec
  simp only [Bool.false_and, Bool.false_eq_true, if_false]
  split
  · simp
  · split
    · split <;> simp
    · simp

theorem bodyExec_noflag (ib : Bool) (body : List Decl) : ∀ (b l : Tab) (fl fl' : Nat → Bool),
    (bodyExec ⟨false⟩ ib b l fl body).b = (bodyExec ⟨false⟩ ib b l fl' body).b ∧
    (bodyExec ⟨false⟩ ib b l fl body).l = (bodyExec ⟨false⟩ ib b l fl' body).l := by
  induction body with
  | nil => intro b l fl fl'; simp [bodyExec]
  | cons d ds ih =>
    intro b l fl fl'
    obtain ⟨hb, hl, hok⟩ := declExec_noflag ib b l fl fl' d
    simp only [bodyExec]
    rw [← hok]
    by_cases h : (declExec ⟨false⟩ ib b l fl d).ok = true
    · simp only [h, if_true]
      rw [← hb, ← hl]
      exact ih _ _ _ _
    · simp only [h]
      exact ⟨hb, hl⟩

/-- the part of the state `v` can see: the base's table and its own -/
def Sees (v : VM) (s t : State) : Prop := s.base = t.base ∧ s.loc v = t.loc v

theorem sees_resolve {v : VM} {s t : State} (h : Sees v s t) (n : Nat) : resolve s v n = resolve t v n := by
  unfold resolve; rw [h.1, h.2]

theorem upd_same (f : Nat → Tab) (i : Nat) (t : Tab) : upd f i t i = t := by simp [upd]

theorem upd_other (f : Nat → Tab) (i j : Nat) (t : Tab) (h : j ≠ i) : upd f i t j = f j := by simp [upd, h]

theorem keeps_temp {v : VM} {i : Nat} (h : keeps v (.run (.temp i) body) = true ∨ keeps v (.discard i) = true) :
    v = .temp i := by
  rcases h with h | h <;> (simp [keeps, Op.vm] at h; exact h.symm)

/-- an operation `v` keeps acts on what `v` sees as a function of what `v` sees -/
theorem step_keep {v : VM} {o : Op} (hk : keeps v o = true) {s t : State} (h : Sees v s t) :
    Sees v (step ⟨false⟩ s o) (step ⟨false⟩ t o) := by
  obtain ⟨hb, hl⟩ := h
  cases o with
  | run w body =>
    cases w with
    | base =>
      refine ⟨?_, ?_⟩
      · simp only [step]; rw [hb]; exact (bodyExec_noflag true body _ _ _ _).1
      · cases v with
        | base => rfl
        | temp j => simpa [step, State.loc] using hl
    | temp i =>
      have hv : v = .temp i := keeps_temp (Or.inl hk)
      subst hv
      refine ⟨by simpa [step] using hb, ?_⟩
      simp only [step, State.loc, upd_same]
      simp only [State.loc] at hl
      rw [hb, hl]
      exact (bodyExec_noflag false body _ _ _ _).2
  | discard i =>
    have hv : v = .temp i := keeps_temp (body := []) (Or.inr hk)
    subst hv
    exact ⟨by simpa [step] using hb, by simp [step, State.loc, upd_same]⟩

/-- an operation `v` does not keep (another TempVM's) changes nothing `v` sees — whatever the implementation keeps on nodes -/
theorem step_drop (impl : Impl) {v : VM} {o : Op} (hk : keeps v o = false) (s : State) :
    Sees v (step impl s o) s := by
  cases o with
  | run w body =>
    cases w with
    | base => simp [keeps, Op.vm] at hk
    | temp i =>
      refine ⟨by simp [step], ?_⟩
      cases v with
      | base => rfl
      | temp j =>
        have hji : j ≠ i := by
          intro e; subst e; simp [keeps, Op.vm] at hk
        simp [step, State.loc, upd_other _ _ _ _ hji]
  | discard i =>
    refine ⟨by simp [step], ?_⟩
    cases v with
    | base => rfl
    | temp j =>
      have hji : j ≠ i := by
        intro e; subst e; simp [keeps, Op.vm] at hk
      simp [step, State.loc, upd_other _ _ _ _ hji]

theorem sees_trans {v : VM} {a b c : State} (h₁ : Sees v a b) (h₂ : Sees v b c) : Sees v a c :=
  ⟨h₁.1.trans h₂.1, h₁.2.trans h₂.2⟩

theorem runH_purge (v : VM) : ∀ (h : List Op) (s t : State), Sees v s t →
    Sees v (runH ⟨false⟩ s h) (runH ⟨false⟩ t (purge v h)) := by
  intro h
  induction h with
  | nil => intro s t hs; simpa [purge, runH] using hs
  | cons o os ih =>
    intro s t hs
    by_cases hk : keeps v o = true
    · have : purge v (o :: os) = o :: purge v os := by simp [purge, List.filter, hk]
      rw [this]
      simp only [runH]
      exact ih _ _ (step_keep hk hs)
    · have hk' : keeps v o = false := by simpa using hk
      have : purge v (o :: os) = purge v os := by simp [purge, List.filter, hk']
      rw [this]
      simp only [runH]
      exact ih _ _ (sees_trans (step_drop _ hk' s) hs)

theorem noflag_nonInterfering : NonInterfering ⟨false⟩ := by
  intro h v n
  exact sees_resolve (runH_purge v h {} {} ⟨rfl, rfl⟩) n

end Model.TempShared
