import Model.Memo
import Proofs.Lemmas.RW
/-! C10: lemmas for `Model.Memo` — the invariant that makes a lookup memo kept under the
discipline `Disc.ok` linearizable. -/
namespace Proofs.Memo
open Model.RW (Tid upd)
open Model.Memo Proofs.RW

theorem specRun_snoc (reg : List Name) (ops : List Op) (op : Op) :
    specRun reg (ops ++ [op]) =
      ((specStep (specRun reg ops).1 op).1, (specRun reg ops).2 ++ [(specStep (specRun reg ops).1 op).2]) := by
  induction ops generalizing reg with
  | nil => simp [specRun]
  | cons o rest ih => simp [specRun, ih]

theorem logOf_snoc (log : List (Tid × Op × Res)) (t u : Tid) (op : Op) (r : Res) :
    logOf (log ++ [(t, op, r)]) u = if t = u then logOf log u ++ [(op, r)] else logOf log u := by
  unfold logOf
  by_cases h : t = u
  · subst h; simp [List.filter_append]
  · have : (t == u) = false := by simpa using h
    simp [List.filter_append, this, h]

theorem spec_add_dup {reg : List Name} {x : Name} (h : reg.contains x = true) :
    specStep reg (.add x) = (reg, .dup) := by simp only [specStep, h, ↓reduceIte]
theorem spec_add_ok {reg : List Name} {x : Name} (h : ¬ reg.contains x = true) :
    specStep reg (.add x) = (x :: reg, .ok) := by simp only [specStep, if_neg h]
theorem spec_get_hit {reg : List Name} {x : Name} (h : reg.contains x = true) :
    specStep reg (.get x) = (reg, .hit) := by simp only [specStep, h, ↓reduceIte]
theorem spec_get_miss {reg : List Name} {x : Name} (h : ¬ reg.contains x = true) :
    specStep reg (.get x) = (reg, .miss) := by simp only [specStep, if_neg h]
theorem and_right {a b : Bool} (h : (a && b) = true) : b = true := by cases a <;> cases b <;> simp_all

/-- the invariant of every reachable state under a discipline that is `ok` -/
structure Inv (progs : Tid → List Op) (s : State) : Prop where
  /-- what the memo says is true of the registry -/
  memoOk : ∀ x, s.memo.contains x = true → s.reg.contains x = false
  /-- the log, read as a sequential history, produces the registry and the logged results -/
  lin : specRun [] (s.log.map (·.2.1)) = (s.reg, s.log.map (·.2.2))
  /-- every thread has received exactly the results logged for it -/
  outs : ∀ t, (s.thr t).out = (logOf s.log t).map (·.2)
  /-- the log is an interleaving of the programs -/
  order : ∀ t, (logOf s.log t).map (·.1) ++ (s.thr t).pc.pending ++ (s.thr t).prog = progs t
  noStore : ∀ t x, (s.thr t).pc ≠ .store x
  /-- a registration that reported success is in the registry -/
  added : ∀ t x, (t, Op.add x, Res.ok) ∈ s.log → s.reg.contains x = true

theorem inv_init (progs : Tid → List Op) : Inv progs (init progs) where
  memoOk := by intro x h; simp [init] at h
  lin := by simp [init, specRun]
  outs := by intro t; simp [init, logOf]
  order := by intro t; simp [init, logOf, Pc.pending]
  noStore := by intro t x; simp [init]
  added := by intro t x h; simp [init] at h

/-- a step at which the call of thread `t` takes effect: it is logged with the result the sequential
registry gives, and the thread receives that result -/
theorem inv_logged (progs : Tid → List Op) (s : State) (t : Tid) (hi : Inv progs s)
    (op : Op) (r : Res) (reg' memo' : List Name) (th' : Thread)
    (hspec : specStep s.reg op = (reg', r))
    (hmemo : ∀ x, memo'.contains x = true → reg'.contains x = false)
    (hout : th'.out = (s.thr t).out ++ [r])
    (hord : (s.thr t).pc.pending ++ (s.thr t).prog = op :: (th'.pc.pending ++ th'.prog))
    (hpc : ∀ x, th'.pc ≠ .store x) :
    Inv progs (logged s t op r reg' memo' th') where
  memoOk := hmemo
  lin := by
    show specRun [] ((s.log ++ [(t, op, r)]).map (·.2.1)) = (reg', (s.log ++ [(t, op, r)]).map (·.2.2))
    simp only [List.map_append, List.map_cons, List.map_nil]
    rw [specRun_snoc, hi.lin]
    simp [hspec]
  outs := by
    intro u
    show (upd s.thr t th' u).out = (logOf (s.log ++ [(t, op, r)]) u).map (·.2)
    rw [logOf_snoc]
    by_cases h : t = u
    · subst h; simp [hout, hi.outs t]
    · have hu : u ≠ t := fun e => h e.symm
      simp [h, upd_other _ hu, hi.outs u]
  order := by
    intro u
    show (logOf (s.log ++ [(t, op, r)]) u).map (·.1) ++ (upd s.thr t th' u).pc.pending ++ (upd s.thr t th' u).prog = progs u
    rw [logOf_snoc]
    by_cases h : t = u
    · subst h
      have := hi.order t
      simp only [upd_same, if_true, List.map_append, List.map_cons, List.map_nil]
      rw [← this, List.append_assoc, List.append_assoc, List.append_assoc, hord]
      simp
    · have hu : u ≠ t := fun e => h e.symm
      simp [h, upd_other _ hu, hi.order u]
  noStore := by
    intro u x
    show (upd s.thr t th' u).pc ≠ .store x
    by_cases h : u = t
    · subst h; simpa using hpc x
    · simpa [upd_other _ h] using hi.noStore u x
  added := by
    intro u x h
    have h : (u, Op.add x, Res.ok) ∈ s.log ++ [(t, op, r)] := h
    show reg'.contains x = true
    simp only [List.mem_append, List.mem_singleton] at h
    rcases h with h | h
    · have h0 := hi.added u x h
      cases op with
      | add y =>
        simp only [specStep] at hspec
        split at hspec
        · cases hspec; exact h0
        · cases hspec
          have : x ∈ s.reg := by simpa using h0
          simp [this]
      | get y => simp only [specStep] at hspec; cases hspec; exact h0
    · cases h
      simp only [specStep] at hspec
      split at hspec
      · cases hspec
      · cases hspec; simp

/-- a step that neither reads nor changes the registry and delivers nothing -/
theorem inv_silent (progs : Tid → List Op) (s : State) (t : Tid) (hi : Inv progs s) (th' : Thread)
    (hout : th'.out = (s.thr t).out)
    (hord : th'.pc.pending ++ th'.prog = (s.thr t).pc.pending ++ (s.thr t).prog)
    (hpc : ∀ x, th'.pc ≠ .store x) :
    Inv progs (silent s t th') where
  memoOk := hi.memoOk
  lin := hi.lin
  outs := by
    intro u
    show (upd s.thr t th' u).out = (logOf s.log u).map (·.2)
    by_cases h : u = t
    · subst h; simp [hout, hi.outs u]
    · simp [upd_other _ h, hi.outs u]
  order := by
    intro u
    show (logOf s.log u).map (·.1) ++ (upd s.thr t th' u).pc.pending ++ (upd s.thr t th' u).prog = progs u
    by_cases h : u = t
    · subst h
      have := hi.order u
      simp only [upd_same]
      rw [List.append_assoc, hord, ← List.append_assoc]
      exact this
    · simp [upd_other _ h, hi.order u]
  noStore := by
    intro u x
    show (upd s.thr t th' u).pc ≠ .store x
    by_cases h : u = t
    · subst h; simpa using hpc x
    · simpa [upd_other _ h] using hi.noStore u x
  added := hi.added

theorem inv_stepOp (d : Disc) (progs : Tid → List Op) (s : State) (t : Tid) (hi : Inv progs s)
    (op : Op) (more : List Op) (hpc : (s.thr t).pc = .idle) (hpr : (s.thr t).prog = op :: more) :
    Inv progs (stepOp d s t (s.thr t) more op) := by
  cases op with
  | add x =>
    simp only [stepOp]
    by_cases hx : s.reg.contains x = true
    · rw [if_pos hx]
      exact inv_logged progs s t hi (.add x) .dup s.reg s.memo _ (spec_add_dup hx) hi.memoOk rfl
        (by simp [hpc, hpr, Pc.pending]) (by intro y; simp [hpc])
    · rw [if_neg hx]
      exact inv_logged progs s t hi (.add x) .ok (x :: s.reg) [] _ (spec_add_ok hx)
        (by intro y h; simp at h) rfl (by simp [hpc, hpr, Pc.pending]) (by intro y; simp [hpc])
  | get x =>
    simp only [stepOp]
    by_cases hm : (d.memo && s.memo.contains x) = true
    · rw [if_pos hm]
      have hx : s.reg.contains x = false := hi.memoOk x (and_right hm)
      exact inv_logged progs s t hi (.get x) .miss s.reg s.memo _ (spec_get_miss (by rw [hx]; simp)) hi.memoOk rfl
        (by simp [hpc, hpr, Pc.pending]) (by intro y; simp [hpc])
    · rw [if_neg hm]
      exact inv_silent progs s t hi _ rfl (by simp [hpc, hpr, Pc.pending]) (by intro y; simp)

theorem inv_stepScan (d : Disc) (hd : d.ok = true) (progs : Tid → List Op) (s : State) (t : Tid)
    (hi : Inv progs s) (x : Name) (hpc : (s.thr t).pc = .scan x) :
    Inv progs (stepScan d s t (s.thr t) x) := by
  have hpend : (s.thr t).pc.pending = [.get x] := by rw [hpc]; rfl
  simp only [stepScan]
  by_cases hx : s.reg.contains x = true
  · rw [if_pos hx]
    exact inv_logged progs s t hi (.get x) .hit s.reg s.memo _ (spec_get_hit hx) hi.memoOk rfl
      (by rw [hpend]; rfl) (by intro y; simp)
  · rw [if_neg hx]
    have hout : ¬ ((d.memo && !d.storeInside) = true) := by
      simp only [Disc.ok] at hd
      cases hm : d.memo <;> cases hs : d.storeInside <;> simp_all
    rw [if_neg hout]
    have hx' : s.reg.contains x = false := by simpa using hx
    refine inv_logged progs s t hi (.get x) .miss s.reg _ _ (spec_get_miss hx) ?_ rfl
      (by rw [hpend]; rfl) (by intro y; simp)
    intro y hy
    cases hm : d.memo
    · simp only [hm] at hy; exact hi.memoOk y (by simpa using hy)
    · simp only [hm, if_true, List.contains_cons, Bool.or_eq_true, beq_iff_eq] at hy
      rcases hy with rfl | hy
      · exact hx'
      · exact hi.memoOk y hy

theorem inv_step (d : Disc) (hd : d.ok = true) (progs : Tid → List Op) (s : State) (t : Tid)
    (hi : Inv progs s) : Inv progs (step d s t) := by
  cases hpc : (s.thr t).pc with
  | idle =>
    cases hpr : (s.thr t).prog with
    | nil => simp only [step, hpc, hpr]; exact hi
    | cons op more => simp only [step, hpc, hpr]; exact inv_stepOp d progs s t hi op more hpc hpr
  | scan x => simp only [step, hpc]; exact inv_stepScan d hd progs s t hi x hpc
  | store x => exact absurd hpc (hi.noStore t x)

theorem inv_run (d : Disc) (hd : d.ok = true) (progs : Tid → List Op) (s : State) (sched : List Tid)
    (hi : Inv progs s) : Inv progs (run d s sched) := by
  induction sched generalizing s with
  | nil => exact hi
  | cons t rest ih => exact ih (step d s t) (inv_step d hd progs s t hi)

/-! ## Visibility: once a name is registered, every lookup that takes effect later hits -/

/-- what one step may add to the log when `x` is registered -/
def Vis (x : Name) (s s' : State) : Prop :=
  s'.reg.contains x = true ∧ ∃ ext, s'.log = s.log ++ ext ∧ ∀ e ∈ ext, e.2.1 = .get x → e.2.2 = .hit

theorem vis_refl (x : Name) (s : State) (hx : s.reg.contains x = true) : Vis x s s :=
  ⟨hx, [], by simp, by simp⟩

theorem vis_logged (x : Name) (s : State) (t : Tid) (op : Op) (r : Res) (reg' memo' : List Name) (th' : Thread)
    (hreg : reg'.contains x = true) (hres : op = .get x → r = .hit) :
    Vis x s (logged s t op r reg' memo' th') :=
  ⟨hreg, [(t, op, r)], rfl, by intro e he; simp only [List.mem_singleton] at he; subst he; exact hres⟩

/-- one step: the log only grows; if `x` is registered, every `get x` logged by the step hits and `x` stays -/
theorem visible_step (d : Disc) (progs : Tid → List Op) (s : State) (t : Tid) (hi : Inv progs s) (x : Name)
    (hx : s.reg.contains x = true) : Vis x s (step d s t) := by
  cases hpc : (s.thr t).pc with
  | idle =>
    cases hpr : (s.thr t).prog with
    | nil => simp only [step, hpc, hpr]; exact vis_refl x s hx
    | cons op more =>
      simp only [step, hpc, hpr]
      cases op with
      | add y =>
        simp only [stepOp]
        split
        · exact vis_logged x s t _ _ _ _ _ hx (by intro h; cases h)
        · exact vis_logged x s t _ _ _ _ _ (by have : x ∈ s.reg := by simpa using hx
                                               simp [this]) (by intro h; cases h)
      | get y =>
        simp only [stepOp]
        by_cases hm : (d.memo && s.memo.contains y) = true
        · rw [if_pos hm]
          refine vis_logged x s t _ _ _ _ _ hx ?_
          intro hop
          simp only [Op.get.injEq] at hop; subst hop
          have := hi.memoOk y (and_right hm)
          rw [hx] at this; cases this
        · rw [if_neg hm]; exact ⟨hx, [], by simp [silent], by simp⟩
  | scan y =>
    simp only [step, hpc, stepScan]
    by_cases hy : s.reg.contains y = true
    · rw [if_pos hy]; exact vis_logged x s t _ _ _ _ _ hx (by intro _; rfl)
    · rw [if_neg hy]
      have hne : Op.get y ≠ Op.get x := by
        intro e; simp only [Op.get.injEq] at e; subst e; exact hy hx
      split
      · exact vis_logged x s t _ _ _ _ _ hx (fun h => absurd h hne)
      · exact vis_logged x s t _ _ _ _ _ hx (fun h => absurd h hne)
  | store y => exact absurd hpc (hi.noStore t y)

theorem visible_run (d : Disc) (hd : d.ok = true) (progs : Tid → List Op) (s : State) (sched : List Tid)
    (hi : Inv progs s) (x : Name) (hx : s.reg.contains x = true) :
    ∃ ext, (run d s sched).log = s.log ++ ext ∧ ∀ e ∈ ext, e.2.1 = .get x → e.2.2 = .hit := by
  induction sched generalizing s with
  | nil => exact ⟨[], by simp [run], by simp⟩
  | cons t rest ih =>
    obtain ⟨hx', ext1, h1, h1'⟩ := visible_step d progs s t hi x hx
    obtain ⟨ext2, h2, h2'⟩ := ih (step d s t) (inv_step d hd progs s t hi) hx'
    refine ⟨ext1 ++ ext2, ?_, ?_⟩
    · show (run d (step d s t) rest).log = _
      rw [h2, h1, List.append_assoc]
    · intro e he
      rcases List.mem_append.mp he with h | h
      · exact h1' e h
      · exact h2' e h

theorem run_append (d : Disc) (s : State) (a b : List Tid) : run d s (a ++ b) = run d (run d s a) b := by
  simp [run, List.foldl_append]

end Proofs.Memo
