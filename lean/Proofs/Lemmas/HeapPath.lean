import Proofs.Lemmas.HeapCount
import Proofs.Lemmas.TreePath
/-!
C06 helper lemmas: one heap value along a path.

`walk` is `readPlace` below the root name, root first; `setAt` replaces the value at the
end of a path (following the keys, no identities involved).  When the array object `a`
occurs only once in a value, the in-place mutation `updArr a f` — "rewrite every
occurrence of `a`" — is `setAt` at the path where `a` sits (`updArr_eq_setAt`); `setAt`
commutes with forgetting identities (`modPath_setAt`) and moves counts as expected
(`cnt_setAt`).
-/
namespace Proofs.Heap
open Model.Heap
open Spec.Val (eraseVal eraseL Tree Entry tkeys)

/-- `readPlace` below the root name, root first (a missing key reads as null) -/
def walk : List IKey → Val → Option Val
  | [], v => some v
  | k :: π, .arr _ kids =>
    (match Keys.find k (keys kids) with
     | some j => (getVal? kids j).bind (walk π)
     | none => walk π (.sc .null))
  | _ :: _, .sc _ => none

/-- the value with the sub-value at the end of the path replaced (keys that are not there
are not created) -/
def setAt : List IKey → Val → Val → Val
  | [], nv, _ => nv
  | k :: π, nv, .arr a kids =>
    (match Keys.find k (keys kids) with
     | some j =>
       (match kids[j]? with
        | some (c, kk, child) => .arr a (kids.set j (c, kk, setAt π nv child))
        | none => .arr a kids)
     | none => .arr a kids)
  | _ :: _, _, .sc s => .sc s

theorem list_set_same {α : Type} (l : List α) (j : Nat) (x : α) (h : l[j]? = some x) : l.set j x = l := by
  apply List.ext_getElem?
  intro m
  simp only [List.getElem?_set]
  by_cases e : j = m
  · subst e
    obtain ⟨hlt, hx⟩ := List.getElem?_eq_some_iff.mp h
    simp [hlt, hx]
  · simp [e]

theorem walk_sc (π : List IKey) (s : Scalar) (a : Nat) (kids : List Slot) :
    walk π (.sc s) ≠ some (.arr a kids) := by
  cases π with
  | nil => simp [walk]
  | cons k π => simp [walk]

theorem walk_snoc (π : List IKey) (k : IKey) (v : Val) :
    walk (π ++ [k]) v = (walk π v).bind (walk [k]) := by
  induction π generalizing v with
  | nil => simp [walk]
  | cons k' π ih =>
    cases v with
    | sc s => simp [walk]
    | arr a kids =>
      simp only [List.cons_append, walk]
      cases Keys.find k' (keys kids) with
      | none => exact ih _
      | some j =>
        dsimp only
        generalize getVal? kids j = o
        cases o with
        | none => simp
        | some c => simp [ih c]

theorem readPlace_idx (s : St) (b : Place) (k : IKey) :
    readPlace s (.idx b k) = (readPlace s b).bind (walk [k]) := by
  simp only [readPlace]
  cases readPlace s b with
  | none => rfl
  | some v =>
    cases v with
    | sc sc => simp [walk]
    | arr a kids =>
      simp only [Option.bind_some, walk]
      cases Keys.find k (keys kids) with
      | none => rfl
      | some j => cases getVal? kids j <;> simp

/-- reading a place = reading its root name, then walking down the path -/
theorem readPlace_root_path (s : St) (b : Place) :
    readPlace s b = (readPlace s b.root).bind (walk (pathOf b)) := by
  induction b with
  | var x => simp [Place.root, pathOf, walk]
  | prop x p => simp [Place.root, pathOf, walk]
  | idx b k ih =>
    rw [readPlace_idx, ih]
    simp only [Place.root, pathOf]
    cases readPlace s b.root with
    | none => rfl
    | some w => simp [walk_snoc]

theorem getVal?_eraseL (kids : List Slot) (j : Nat) :
    ((eraseL kids)[j]?).map (·.2) = (getVal? kids j).map eraseVal := by
  simp [eraseL_getElem?, getVal?, Option.map_map, Function.comp_def]

/-- walking commutes with forgetting identities -/
theorem walk_erase (π : List IKey) (v : Val) : walkT π (eraseVal v) = (walk π v).map eraseVal := by
  induction π generalizing v with
  | nil => simp [walk, walkT]
  | cons k π ih =>
    cases v with
    | sc s => simp [walk, walkT, eraseVal]
    | arr a kids =>
      simp only [eraseVal, walkT, walk, tkeys_eraseL]
      cases Keys.find k (keys kids) with
      | none => have := ih (.sc .null); simpa [eraseVal] using this
      | some j =>
        simp only [getVal?_eraseL]
        cases getVal? kids j with
        | none => simp
        | some c => simpa using ih c

/-- the array found at the end of a path occurs in the value -/
theorem walk_cnt (π : List IKey) (v : Val) (a : Nat) (kids : List Slot)
    (h : walk π v = some (.arr a kids)) : 1 ≤ vcnt a v := by
  induction π generalizing v with
  | nil =>
    simp only [walk, Option.some.injEq] at h
    subst h; simp [vcnt]
  | cons k π ih =>
    cases v with
    | sc s => exact (walk_sc _ _ _ _ h).elim
    | arr r ks =>
      simp only [walk] at h
      cases hf : Keys.find k (keys ks) with
      | none => rw [hf] at h; exact (walk_sc _ _ _ _ h).elim
      | some j =>
        rw [hf] at h
        cases hg : getVal? ks j with
        | none => simp [hg] at h
        | some child =>
          simp only [hg, Option.bind_some] at h
          have h1 := ih child h
          simp only [getVal?] at hg
          cases hs : ks[j]? with
          | none => simp [hs] at hg
          | some sl =>
            simp only [hs, Option.map_some, Option.some.injEq] at hg
            have h2 := cntL_ge_get a ks j sl hs
            rw [hg] at h2
            simp only [vcnt]
            omega

/-- **an object that occurs once is mutated where it sits** -/
theorem updArr_eq_setAt (a : Nat) (f : List Slot → List Slot) (π : List IKey) (w : Val) (kids : List Slot)
    (hu : vcnt a w ≤ 1) (h : walk π w = some (.arr a kids)) :
    w.updArr a f = setAt π (.arr a (f kids)) w := by
  induction π generalizing w with
  | nil =>
    simp only [walk, Option.some.injEq] at h
    subst h; simp [Val.updArr, setAt]
  | cons k π ih =>
    cases w with
    | sc s => exact (walk_sc _ _ _ _ h).elim
    | arr r ks =>
      simp only [walk] at h
      cases hf : Keys.find k (keys ks) with
      | none => rw [hf] at h; exact (walk_sc _ _ _ _ h).elim
      | some j =>
        rw [hf] at h
        cases hs : ks[j]? with
        | none => simp [getVal?, hs] at h
        | some sl =>
          obtain ⟨c, kk, child⟩ := sl
          simp only [getVal?, hs, Option.map_some, Option.bind_some] at h
          have h1 := walk_cnt π child a kids h
          have h2 := cntL_ge_get a ks j _ hs
          simp only [vcnt] at hu
          have hr : ¬ r = a := by
            intro e; simp only [e, if_true] at hu; simp only at h2; omega
          have hcnt : cntL a ks = vcnt a child := by
            simp only [hr, if_false] at hu; simp only at h2; omega
          have hchild : vcnt a child ≤ 1 := by simp only at h2; omega
          simp only [Val.updArr, hr, if_false, setAt, hf, hs]
          rw [updArrL_single a f ks j c kk child hs hcnt, ih child hchild h]

/-- counts after `setAt` -/
theorem cnt_setAt (i : Nat) (π : List IKey) (nv w : Val) (a : Nat) (kids : List Slot)
    (h : walk π w = some (.arr a kids)) :
    vcnt i (setAt π nv w) + vcnt i (.arr a kids) = vcnt i w + vcnt i nv := by
  induction π generalizing w with
  | nil =>
    simp only [walk, Option.some.injEq] at h
    subst h; simp only [setAt]; omega
  | cons k π ih =>
    cases w with
    | sc s => exact (walk_sc _ _ _ _ h).elim
    | arr r ks =>
      simp only [walk] at h
      cases hf : Keys.find k (keys ks) with
      | none => rw [hf] at h; exact (walk_sc _ _ _ _ h).elim
      | some j =>
        rw [hf] at h
        cases hs : ks[j]? with
        | none => simp [getVal?, hs] at h
        | some sl =>
          obtain ⟨c, kk, child⟩ := sl
          simp only [getVal?, hs, Option.map_some, Option.bind_some] at h
          have h1 := ih child h
          have h2 := cntL_set i ks j (c, kk, child) (c, kk, setAt π nv child) hs
          simp only [setAt, hf, hs]
          simp only [vcnt] at h1 h2 ⊢
          omega

/-- reading back what `setAt` wrote -/
theorem walk_setAt (π : List IKey) (nv w : Val) (a : Nat) (kids : List Slot)
    (h : walk π w = some (.arr a kids)) : walk π (setAt π nv w) = some nv := by
  induction π generalizing w with
  | nil => simp [walk, setAt]
  | cons k π ih =>
    cases w with
    | sc s => exact (walk_sc _ _ _ _ h).elim
    | arr r ks =>
      simp only [walk] at h
      cases hf : Keys.find k (keys ks) with
      | none => rw [hf] at h; exact (walk_sc _ _ _ _ h).elim
      | some j =>
        rw [hf] at h
        cases hs : ks[j]? with
        | none => simp [getVal?, hs] at h
        | some sl =>
          obtain ⟨c, kk, child⟩ := sl
          simp only [getVal?, hs, Option.map_some, Option.bind_some] at h
          have hlt : j < ks.length := (List.getElem?_eq_some_iff.mp hs).1
          have hkeys : keys (ks.set j (c, kk, setAt π nv child)) = keys ks := by
            simp only [keys, List.map_set]
            exact list_set_same _ _ _ (by simp [hs])
          simp only [setAt, hf, hs, walk, hkeys, getVal?, List.getElem?_set, hlt, if_true,
            Option.map_some, Option.bind_some]
          exact ih child h

/-- `setAt` with the same value up to identities leaves the denoted tree alone -/
theorem erase_setAt_same (π : List IKey) (nv w : Val) (a : Nat) (kids : List Slot)
    (h : walk π w = some (.arr a kids)) (he : eraseVal nv = eraseVal (.arr a kids)) :
    eraseVal (setAt π nv w) = eraseVal w := by
  induction π generalizing w with
  | nil =>
    simp only [walk, Option.some.injEq] at h
    subst h; simpa [setAt] using he
  | cons k π ih =>
    cases w with
    | sc s => exact (walk_sc _ _ _ _ h).elim
    | arr r ks =>
      simp only [walk] at h
      cases hf : Keys.find k (keys ks) with
      | none => rw [hf] at h; exact (walk_sc _ _ _ _ h).elim
      | some j =>
        rw [hf] at h
        cases hs : ks[j]? with
        | none => simp [getVal?, hs] at h
        | some sl =>
          obtain ⟨c, kk, child⟩ := sl
          simp only [getVal?, hs, Option.map_some, Option.bind_some] at h
          have h1 := ih child h
          simp only [setAt, hf, hs, eraseVal, eraseL_set, h1]
          congr 1
          exact list_set_same _ _ _ (by simp [eraseL_getElem?, hs])

/-- **the spec's rewrite along the path is `setAt`** (all keys of the path are there) -/
theorem modPath_setAt (c : Bool) (F : Tree → Option Tree) (π : List IKey) (nv w : Val) (a : Nat)
    (kids : List Slot) (h : walk π w = some (.arr a kids))
    (hF : F (eraseVal (.arr a kids)) = some (eraseVal nv)) :
    modPath c π F (eraseVal w) = some (eraseVal (setAt π nv w)) := by
  induction π generalizing w with
  | nil =>
    simp only [walk, Option.some.injEq] at h
    subst h; simpa [modPath, setAt] using hF
  | cons k π ih =>
    cases w with
    | sc s => exact (walk_sc _ _ _ _ h).elim
    | arr r ks =>
      simp only [walk] at h
      cases hf : Keys.find k (keys ks) with
      | none => rw [hf] at h; exact (walk_sc _ _ _ _ h).elim
      | some j =>
        rw [hf] at h
        cases hs : ks[j]? with
        | none => simp [getVal?, hs] at h
        | some sl =>
          obtain ⟨cc, kk, child⟩ := sl
          simp only [getVal?, hs, Option.map_some, Option.bind_some] at h
          have h1 := ih child h
          simp only [modPath, eraseVal, Spec.Val.Tree.modifyAt, tkeys_eraseL, hf, eraseL_getElem?, hs,
            Option.map_some, h1, setAt, eraseL_set]

end Proofs.Heap
