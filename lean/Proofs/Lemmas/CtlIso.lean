import Proofs.Lemmas.CtlSimDefs
set_option linter.unusedSimpArgs false
set_option linter.unusedVariables false
/-! Model-level facts: a call's result and effects do not depend on the caller's slots and leave
them alone; the fused assignment / comparison nodes the parser emits equal the general nodes. -/
namespace Proofs.Ctl
open Spec.Ctl Model.Ctl

/-- a result with the slot vector (the running Context) left out: what a call can pass on -/
def noFrame : MRes Val → Option ((Val ⊕ Ctl) × List ((FName × Nat) × Val) × List String)
  | .ok v s => some (.inl v, s.statics, s.out)
  | .ctl c s => some (.inr c, s.statics, s.out)
  | .timeout => none

/-- the Context a result leaves behind -/
def frameOf : MRes Val → Option Frame
  | .ok _ s => some s.fr
  | .ctl _ s => some s.fr
  | .timeout => none

theorem callResultM_frame (caller : Frame) (r : MRes Val) (fr : Frame) (h : frameOf (callResultM caller r) = some fr) :
    fr = caller := by
  cases r with
  | timeout => simp [callResultM, frameOf] at h
  | ok v s => simp [callResultM, frameOf] at h; exact h.symm
  | ctl c s => cases c <;> simp [callResultM, frameOf] at h <;> exact h.symm

theorem callResultM_noFrame (c1 c2 : Frame) (r : MRes Val) :
    noFrame (callResultM c1 r) = noFrame (callResultM c2 r) := by
  cases r with
  | timeout => rfl
  | ok v s => rfl
  | ctl c s => cases c <;> rfl

/-- What a call is, with the caller's Context factored out. -/
theorem call_unfold (mf : List MFun) (f : Nat) (g : FName) (args : MArgs) (s : MSt) (d : MFun)
    (hd : Model.Ctl.lookupFun mf g = some d) :
    evalM mf (f+1) (.call g args) s =
      (bindArgs mf f d.params args s (List.replicate d.nvars .null)).bind fun slots s1 =>
        callResultM s1.fr (execMB mf f d.body .null
          (bindStatics g d.statics
            { fr := { slots := slots, bound := [], fn := some g }, statics := s1.statics, out := s1.out })) := by
  simp only [evalM, hd]

/-- the caller's slots after a call are the ones argument evaluation left -/
theorem call_frame (mf : List MFun) (f : Nat) (g : FName) (args : MArgs) (s : MSt) (d : MFun)
    (hd : Model.Ctl.lookupFun mf g = some d) (slots : List Val) (s1 : MSt)
    (hb : bindArgs mf f d.params args s (List.replicate d.nvars .null) = .ok slots s1) (fr : Frame)
    (h : frameOf (evalM mf (f+1) (.call g args) s) = some fr) : fr = s1.fr := by
  rw [call_unfold mf f g args s d hd, hb] at h
  exact callResultM_frame _ _ _ h

/-- result, static cells and output of a call are a function of the argument values, the static
cells and the output so far -/
theorem call_depends (mf : List MFun) (f : Nat) (g : FName) (argsA argsB : MArgs) (sA sB : MSt) (d : MFun)
    (hd : Model.Ctl.lookupFun mf g = some d) (slots : List Val) (sA1 sB1 : MSt)
    (hA : bindArgs mf f d.params argsA sA (List.replicate d.nvars .null) = .ok slots sA1)
    (hB : bindArgs mf f d.params argsB sB (List.replicate d.nvars .null) = .ok slots sB1)
    (hst : sA1.statics = sB1.statics) (hout : sA1.out = sB1.out) :
    noFrame (evalM mf (f+1) (.call g argsA) sA) = noFrame (evalM mf (f+1) (.call g argsB) sB) := by
  rw [call_unfold mf f g argsA sA d hd, call_unfold mf f g argsB sB d hd, hA, hB]
  simp only [MRes.bind, hst, hout]
  exact callResultM_noFrame _ _ _

/-! ### the fused nodes the parser emits -/

theorem opnd_evalM (mf : List MFun) (sc : List Var) (a : Expr) (m : MSt) {n : Int}
    (h : readOpnd m (preOpnd sc a) = some n) (f : Nat) :
    evalM mf (f+1) (compE sc a) m = .ok (.int n) m := by
  cases a with
  | var y =>
    simp only [preOpnd, readOpnd] at h
    simp only [compE, evalM]
    cases hg : m.getSlot (idx sc y) with
    | none => simp [hg] at h
    | some v =>
      cases v <;> simp [hg] at h
      subst h
      rfl
  | lit v =>
    cases v <;> simp [preOpnd, readOpnd] at h
    subst h
    simp [compE, evalM]
  | _ => simp [preOpnd, readOpnd] at h

theorem mkBin_not_le (sc : List Var) (op : BinOp) (a b : Expr) (ca cb : MExpr) (h : op ≠ .le) :
    mkBin sc op a b ca cb = .bin op ca cb := by
  cases mkBin_cases sc op a b ca cb with
  | inl h' => exact h'
  | inr h' => obtain ⟨_, _, e, _⟩ := h'; exact absurd e h

/-- the right-hand side of a compiled fast assignment evaluates to what the integer path stores -/
theorem fast_slow (mf : List MFun) (sc : List Var) {op l r} {e : Expr} (hok : FastOK sc op l r e) (m : MSt)
    {n : Int} (h : fastValue m op l r = some n) (f : Nat) :
    evalM mf f (compE sc e) m = .timeout ∨ evalM mf f (compE sc e) m = .ok (.int n) m := by
  cases f with
  | zero => left; simp [evalM]
  | succ f =>
    cases hok with
    | copyVar y r =>
      right
      simp only [fastValue] at h
      exact opnd_evalM mf sc (.var y) m (by simpa [preOpnd] using h) f
    | copyLit k r =>
      right
      simp only [fastValue] at h
      cases h
      simp [compE, evalM]
    | mul a b =>
      cases f with
      | zero => left; simp [compE, mkBin_not_le, evalM, binM, MRes.bind]
      | succ f =>
        right
        simp only [fastValue] at h
        cases ha : readOpnd m (preOpnd sc a) with
        | none => simp [ha] at h
        | some x =>
          cases hb : readOpnd m (preOpnd sc b) with
          | none => simp [ha, hb] at h
          | some y =>
            simp [ha, hb] at h
            subst h
            simp only [compE, mkBin_not_le sc .mul a b _ _ (by decide), evalM, binM,
              opnd_evalM mf sc a m ha f, opnd_evalM mf sc b m hb f, MRes.bind, binop]
    | add a b =>
      cases f with
      | zero => left; simp [compE, mkBin_not_le, evalM, binM, MRes.bind]
      | succ f =>
        right
        simp only [fastValue] at h
        cases ha : readOpnd m (preOpnd sc a) with
        | none => simp [ha] at h
        | some x =>
          cases hb : readOpnd m (preOpnd sc b) with
          | none => simp [ha, hb] at h
          | some y =>
            simp [ha, hb] at h
            subst h
            simp only [compE, mkBin_not_le sc .add a b _ _ (by decide), evalM, binM,
              opnd_evalM mf sc a m ha f, opnd_evalM mf sc b m hb f, MRes.bind, binop]

/-- VarFastAssign as emitted for `$x = e` equals BinaryAssignVariable on the same operands
(unless the latter is out of fuel) -/
theorem compiled_assign_eq (mf : List MFun) (sc : List Var) (x : Var) (e : Expr) (m : MSt) (f : Nat) :
    evalM mf (f+1) (.assignVar (idx sc x) (compE sc e)) m = .timeout ∨
    evalM mf (f+1) (mkAssign sc x e (compE sc e)) m = evalM mf (f+1) (.assignVar (idx sc x) (compE sc e)) m := by
  cases mkAssign_cases sc x e (compE sc e) with
  | inl h => right; rw [h]
  | inr h =>
    obtain ⟨op, l, r, h, hok⟩ := h
    rw [h]
    exact fastAssign_eq mf f op (idx sc x) l r (compE sc e) m (fun n hn => fast_slow mf sc hok m hn f)

/-- VarIntLe (`$x <= n`) gives the boolean of what the BinaryLe it replaces gives (unless that one
is out of fuel) -/
theorem varIntLe_eq (mf : List MFun) (i : Nat) (n : Int) (m : MSt) (f : Nat) :
    let le := MExpr.bin .le (.var i) (.lit (.int n))
    evalM mf (f+1) le m = .timeout ∨
    evalM mf (f+1) (.varIntLe i n le) m = (evalM mf (f+1) le m).bind fun v s => .ok (.bool v.truthy) s := by
  intro le
  cases f with
  | zero => left; simp [le, evalM, binM, MRes.bind]
  | succ f =>
    right
    simp only [le, evalM, binM]
    cases hg : m.getSlot i with
    | none => simp [MRes.bind]
    | some v =>
      cases v <;> simp [MRes.bind, binop, Val.truthy]

end Proofs.Ctl
