import Proofs.Lemmas.HeapWrite
/-!
C06 helper lemmas, part 5: one statement that writes at a root, executed on a heap
state satisfying `NoUnintendedSharing`, keeps the invariant and denotes the spec's step.
-/
namespace Proofs.Heap
open Model.Heap
open Spec.Val (abs eraseVal eraseL Tree Entry)

/-! ### right-hand sides, in the form the step proofs use -/

theorem evalRV_cases (s : St) (r : RV) :
    (evalRV .fixed s r = none ∧ Spec.Val.evalRV (abs s) r = none) ∨
    ∃ v n1, evalRV .fixed s r = some (v, { s with next := n1 }) ∧
      Spec.Val.evalRV (abs s) r = some (eraseVal v) ∧ s.next ≤ n1 ∧
      (∀ i ∈ innerAids v, InnerOf s i ∨ (s.next ≤ i ∧ i < n1)) := by
  cases r with
  | int n => exact Or.inr ⟨_, s.next, rfl, rfl, Nat.le_refl _, by simp [innerAids]⟩
  | null => exact Or.inr ⟨_, s.next, rfl, rfl, Nat.le_refl _, by simp [innerAids]⟩
  | rd p =>
    cases h : readPlace s p with
    | none => exact Or.inl ⟨by simp [evalRV, h], by simp [Spec.Val.evalRV, abs_read, h]⟩
    | some v =>
      exact Or.inr ⟨v, s.next, by simp [evalRV, h], by simp [Spec.Val.evalRV, abs_read, h], Nat.le_refl _,
        fun i hi => Or.inl (read_inner s p v h i hi)⟩
  | call p =>
    cases h : readPlace s p with
    | none => exact Or.inl ⟨by simp [evalRV, h], by simp [Spec.Val.evalRV, abs_read, h]⟩
    | some v =>
      exact Or.inr ⟨v, s.next, by simp [evalRV, h], by simp [Spec.Val.evalRV, abs_read, h], Nat.le_refl _,
        fun i hi => Or.inl (read_inner s p v h i hi)⟩
  | lit l =>
    have := alloc_spec s l s.next
    cases h : Lit.alloc .fixed s l s.next with
    | none => simp only [h] at this; exact Or.inl ⟨by simp [evalRV, h], by simp [Spec.Val.evalRV, this]⟩
    | some vn =>
      obtain ⟨v, n⟩ := vn
      simp only [h] at this
      obtain ⟨e, b, a⟩ := this
      exact Or.inr ⟨v, n, by simp [evalRV, h], by simp [Spec.Val.evalRV, e], b, a⟩

/-- identities of a stored copy: its fresh root and inner identities of the state / fresh ones -/
theorem clone_aids {s : St} (hinv : Inv s) (v : Val) (n1 : Nat) (hle : s.next ≤ n1)
    (hin : ∀ i ∈ innerAids v, InnerOf s i ∨ (s.next ≤ i ∧ i < n1)) :
    (∀ i ∈ (cloneOnStore v n1).1.aids, InnerOf s i ∨ (s.next ≤ i ∧ i < (cloneOnStore v n1).2)) ∧
    (∀ i ∈ (cloneOnStore v n1).1.aids, i < (cloneOnStore v n1).2) ∧
    (∀ a k, (cloneOnStore v n1).1 = .arr a k → s.next ≤ a ∧ ∀ i ∈ aidsL k, i < a) := by
  cases v with
  | sc sc => simp [cloneOnStore, Val.aids]
  | arr a kids =>
    simp only [cloneOnStore, Val.aids, List.mem_cons, innerAids] at *
    have hlt : ∀ i ∈ aidsL kids, i < n1 := by
      intro i hi
      rcases hin i hi with h | h
      · have := InnerOf.lt hinv h; omega
      · exact h.2
    refine ⟨?_, ?_, ?_⟩
    · rintro i (e | e)
      · exact Or.inr ⟨by omega, by omega⟩
      · rcases hin i e with h | h
        · exact Or.inl h
        · exact Or.inr ⟨h.1, by omega⟩
    · rintro i (e | e)
      · omega
      · have := hlt i e; omega
    · intro a' k' e; injection e with e1 e2; subst e1; subst e2; exact ⟨hle, hlt⟩

/-! ### mutation without write-back (`$x->push(…)`) -/

theorem root_mutate {s : St} (hinv : Inv s) (b : Place) (hb : b.isRoot = true) (a : Nat)
    (kids kids' : List Slot) (hr : readPlace s b = some (.arr a kids)) (n1 : Nat) (hn : s.next ≤ n1)
    (hk : KidsOK s n1 kids') (g : List Entry → List Entry) (hg : eraseL kids' = g (eraseL kids)) :
    Inv { (s.updArr a (fun _ => kids')) with next := n1 } ∧
    Spec.Val.onArray (abs s) b g = some (abs { (s.updArr a (fun _ => kids')) with next := n1 }) := by
  obtain ⟨P, hroot, hP⟩ := readPlace_root s b hb _ hr
  have hupd := updArr_eq_setHolder hinv P a kids hP (fun _ => kids')
  have ha : a < s.next := hinv.bound _ _ hP a (by simp [Val.aids])
  rw [hupd]
  refine ⟨?_, ?_⟩
  · apply Inv.overwrite hinv P (.arr a kids) (.arr a kids') n1 hP hn
    · intro a' k' e; injection e with e1 e2; subst e1; exact Or.inl ⟨kids, rfl⟩
    · intro i hi
      rcases hk i (by simpa [innerAids] using hi) with h | h
      · exact Or.inl h
      · exact Or.inr h.1
    · intro i hi
      simp only [Val.aids, List.mem_cons] at hi
      rcases hi with e | e
      · omega
      · rcases hk i e with h | h
        · have := InnerOf.lt hinv h; omega
        · exact h.2
  · cases b with
    | idx b k => simp [Place.isRoot] at hb
    | var x =>
      simp only [rootPos] at hroot
      cases hc : s.names[x]? with
      | none => simp [hc] at hroot
      | some c =>
        simp [hc] at hroot; subst hroot
        show Spec.Val.onArray (abs s) (.var x) g = some (abs (setHolder s (.v c) (.arr a kids')))
        rw [abs_setHolder_v s x c _ hc]
        simp only [holder?] at hP
        simp only [Spec.Val.onArray, Spec.Val.modify, abs_varVal?, St.varVal?, hc, hP, Option.map_some, eraseVal, hg]
    | prop x p =>
      simp only [rootPos] at hroot
      cases hh : s.varObj? x with
      | none => simp [hh] at hroot
      | some h =>
        simp [hh] at hroot; subst hroot
        show Spec.Val.onArray (abs s) (.prop x p) g = some (abs (setHolder s (.p h p) (.arr a kids')))
        rw [abs_setHolder_p]
        simp only [holder?] at hP
        simp only [Spec.Val.onArray, Spec.Val.modify, abs_varObj?, hh, abs_propVal?, hP, Option.map_some, eraseVal, hg]

/-- no array at a root place: the spec does nothing either -/
theorem onArray_none (s : St) (b : Place) (hb : b.isRoot = true) (g : List Entry → List Entry)
    (h : ∀ a kids, readPlace s b ≠ some (.arr a kids)) : Spec.Val.onArray (abs s) b g = none := by
  cases b with
  | idx b k => simp [Place.isRoot] at hb
  | var x =>
    simp only [Spec.Val.onArray, Spec.Val.modify, abs_varVal?]
    simp only [readPlace] at h
    cases hv : s.varVal? x with
    | none => rfl
    | some v =>
      cases v with
      | sc sc => simp [eraseVal]
      | arr a kids => exact (h a kids hv).elim
  | prop x p =>
    simp only [Spec.Val.onArray, Spec.Val.modify, abs_varObj?, abs_propVal?]
    simp only [readPlace] at h
    cases hh : s.varObj? x with
    | none => rfl
    | some hd =>
      simp only [hh] at h
      cases hv : s.propVal? hd p with
      | none => simp [hv]
      | some v =>
        cases v with
        | sc sc => simp [hv, eraseVal]
        | arr a kids => exact (h a kids hv).elim

/-! ### objects -/

/-- `cloneProps`: same values up to identity, fresh distinct roots, same inner lists -/
theorem cloneProps_spec : (ps : List Val) → (n : Nat) →
    ((cloneProps ps n).1.map eraseVal = ps.map eraseVal) ∧ n ≤ (cloneProps ps n).2 ∧
    (∀ (j a : Nat) (k : List Slot), (cloneProps ps n).1[j]? = some (Val.arr a k) →
      n ≤ a ∧ a < (cloneProps ps n).2 ∧ ∃ a0, ps[j]? = some (Val.arr a0 k)) ∧
    (∀ (j1 j2 a : Nat) (k1 k2 : List Slot), (cloneProps ps n).1[j1]? = some (Val.arr a k1) →
      (cloneProps ps n).1[j2]? = some (Val.arr a k2) → j1 = j2)
  | [], n => by simp [cloneProps]
  | v :: r, n => by
      obtain ⟨ce, cn, ci, cr⟩ := cloneOnStore_spec v n
      obtain ⟨e, le, rng, inj⟩ := cloneProps_spec r (cloneOnStore v n).2
      have hrange0 : ∀ a k, (cloneOnStore v n).1 = .arr a k → a = n ∧ (cloneOnStore v n).2 = n + 1 ∧ ∃ a0, v = .arr a0 k := by
        intro a k h
        cases v with
        | sc sc => simp [cloneOnStore] at h
        | arr a0 k0 => simp [cloneOnStore] at h ⊢; obtain ⟨h1, h2⟩ := h; exact ⟨h1.symm, h2⟩
      simp only [cloneProps]
      refine ⟨by simp [ce, e], by omega, ?_, ?_⟩
      · intro j a k h
        cases j with
        | zero =>
          simp at h
          obtain ⟨h1, h2, a0, h3⟩ := hrange0 a k h
          exact ⟨by omega, by omega, a0, by simp [h3]⟩
        | succ j =>
          simp at h
          obtain ⟨h1, h2, h3⟩ := rng j a k h
          exact ⟨by omega, h2, by simpa using h3⟩
      · intro j1 j2 a k1 k2 h1 h2
        cases j1 with
        | zero =>
          cases j2 with
          | zero => rfl
          | succ j2 =>
            simp at h1 h2
            obtain ⟨e1, e2, _⟩ := hrange0 a k1 h1
            obtain ⟨e3, _, _⟩ := rng j2 a k2 h2
            omega
        | succ j1 =>
          cases j2 with
          | zero =>
            simp at h1 h2
            obtain ⟨e1, e2, _⟩ := hrange0 a k2 h2
            obtain ⟨e3, _, _⟩ := rng j1 a k1 h1
            omega
          | succ j2 =>
            simp at h1 h2
            rw [inj j1 j2 a k1 k2 h1 h2]

theorem holder?_appendObj (s : St) (ps' : List Val) (n' : Nat) (Q : Pos) :
    holder? { s with objs := s.objs ++ [ps'], next := n' } Q =
      match Q with
      | .v c => s.vcells[c]?
      | .p h p => if h = s.objs.length then ps'[p]? else s.propVal? h p := by
  cases Q with
  | v c => rfl
  | p h p =>
    simp only [holder?, St.propVal?]
    by_cases hh : h = s.objs.length
    · simp [hh]
    · simp only [hh, if_false]
      by_cases hlt : h < s.objs.length
      · simp [List.getElem?_append_left hlt]
      · have : s.objs.length + 1 ≤ h := by omega
        have h1 : (s.objs ++ [ps'])[h]? = none := by
          apply List.getElem?_eq_none; simp; omega
        have h2 : s.objs[h]? = none := by apply List.getElem?_eq_none; omega
        simp [h1, h2]

theorem propVal?_lt (s : St) (h p : Nat) (w : Val) (hw : s.propVal? h p = some w) : h < s.objs.length := by
  simp only [St.propVal?] at hw
  cases hps : s.objs[h]? with
  | none => simp [hps] at hw
  | some ps => exact (List.getElem?_eq_some_iff.mp hps).1

/-- a new object whose array-valued properties have fresh, pairwise distinct roots and
only inner identities of the old state inside -/
theorem Inv.appendObj {s : St} (hinv : Inv s) (ps' : List Val) (n' : Nat) (hn : s.next ≤ n')
    (hroots : ∀ (j a : Nat) (k : List Slot), ps'[j]? = some (Val.arr a k) →
      s.next ≤ a ∧ a < n' ∧ ∀ i ∈ aidsL k, InnerOf s i)
    (hinj : ∀ (j1 j2 a : Nat) (k1 k2 : List Slot), ps'[j1]? = some (Val.arr a k1) →
      ps'[j2]? = some (Val.arr a k2) → j1 = j2) :
    Inv { s with objs := s.objs ++ [ps'], next := n' } := by
  have hh := holder?_appendObj s ps' n'
  -- every holder of the new state is an old holder or a property of the new object
  have hcase : ∀ Q w, holder? { s with objs := s.objs ++ [ps'], next := n' } Q = some w →
      holder? s Q = some w ∨ (∃ p, Q = .p s.objs.length p ∧ ps'[p]? = some w) := by
    intro Q w hw
    rw [hh] at hw
    cases Q with
    | v c => exact Or.inl hw
    | p h p =>
      simp only at hw
      by_cases e : h = s.objs.length
      · simp [e] at hw; exact Or.inr ⟨p, by rw [e], hw⟩
      · simp [e] at hw; exact Or.inl hw
  have hold_ne : ∀ p w, holder? s (.p s.objs.length p) = some w → False := by
    intro p w hw
    have := propVal?_lt s _ p w hw
    omega
  have hinner : ∀ i, InnerOf { s with objs := s.objs ++ [ps'], next := n' } i → InnerOf s i := by
    rintro i ⟨Q, w, hw, hm⟩
    rcases hcase Q w hw with h | ⟨p, _, hp⟩
    · exact ⟨Q, w, h, hm⟩
    · cases w with
      | sc sc => simp [innerAids] at hm
      | arr a k => exact (hroots p a k hp).2.2 i (by simpa [innerAids] using hm)
  refine ⟨hinv.wf, ?_, ?_, ?_⟩
  · intro Q1 Q2 a k1 k2 h1 h2
    rcases hcase Q1 _ h1 with o1 | ⟨p1, e1, n1⟩ <;> rcases hcase Q2 _ h2 with o2 | ⟨p2, e2, n2⟩
    · exact hinv.uniq Q1 Q2 a k1 k2 o1 o2
    · have := hinv.bound Q1 _ o1 a (by simp [Val.aids]); have := (hroots p2 a k2 n2).1; omega
    · have := hinv.bound Q2 _ o2 a (by simp [Val.aids]); have := (hroots p1 a k1 n1).1; omega
    · rw [e1, e2, hinj p1 p2 a k1 k2 n1 n2]
  · intro Q a k h1 hI
    have hI' := hinner a hI
    rcases hcase Q _ h1 with o | ⟨p, e, np⟩
    · exact hinv.sep Q a k o hI'
    · have := InnerOf.lt hinv hI'; have := (hroots p a k np).1; omega
  · intro Q w hw i hi
    show i < n'
    rcases hcase Q w hw with o | ⟨p, e, np⟩
    · have := hinv.bound Q w o i hi; omega
    · cases w with
      | sc sc => simp [Val.aids] at hi
      | arr a k =>
        simp only [Val.aids, List.mem_cons] at hi
        rcases hi with e | e
        · have := (hroots p a k np).2.1; omega
        · have := InnerOf.lt hinv ((hroots p a k np).2.2 i e); omega

/-- assigning a scalar to a variable -/
theorem Inv.setVarScalar {s : St} (hinv : Inv s) (x : Nat) (sc : Scalar) : Inv (s.setVar x (.sc sc)) := by
  simp only [St.setVar]
  cases hc : s.names[x]? with
  | none => exact hinv
  | some c =>
    have hlt := hinv.wf x c hc
    have hold : holder? s (.v c) = some s.vcells[c] := by simp [holder?, hlt]
    have := Inv.overwrite hinv (.v c) _ (.sc sc) s.next hold (Nat.le_refl _)
      (by intro a k e; cases e) (by simp [innerAids]) (by simp [Val.aids])
    exact this

end Proofs.Heap
