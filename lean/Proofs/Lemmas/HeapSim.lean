import Proofs.Lemmas.HeapWrite
/-!
C06 helper lemmas: the statements that write through a place of any depth —
`place[k] = v` (creating missing keys on the way), `unset(place[k])`, `place->push(…)` —
executed on a state satisfying `NoSharing`, keep the invariant and denote the spec's step.
-/
namespace Proofs.Heap
open Model.Heap
open Spec.Val (abs eraseVal eraseL Tree Entry)

/-- the spec's step for one statement -/
def SimOpt (s : St) (op : Op) : Prop :=
  match stepOpt .fixed s op with
  | some s' => Inv s' ∧ Spec.Val.stepOpt (abs s) op = some (abs s')
  | none => Spec.Val.stepOpt (abs s) op = none

/-! ### what the place holds, on both sides -/

theorem eraseVal_arr_inv (u : Val) (l : List Entry) (h : eraseVal u = .arr l) : ∃ a kids, u = .arr a kids := by
  cases u with
  | sc sc => simp [eraseVal] at h
  | arr a kids => exact ⟨a, kids, rfl⟩

/-- no array at the place in the heap state: none in the denoted state either -/
theorem read_not_arr (s : St) (b : Place) (h : ∀ a kids, readPlace s b ≠ some (.arr a kids)) :
    ∀ l, Spec.Val.read (abs s) b ≠ some (.arr l) := by
  intro l hl
  rw [abs_read] at hl
  cases hr : readPlace s b with
  | none => simp [hr] at hl
  | some u =>
    simp only [hr, Option.map_some, Option.some.injEq] at hl
    obtain ⟨a, kids, e⟩ := eraseVal_arr_inv u l hl
    exact h a kids (by rw [hr, e])

theorem keyExists_next (s : St) (n : Nat) : (b : Place) → (k : IKey) →
    keyExists { s with next := n } b k = keyExists s b k
  | .var x, k => by simp only [keyExists, readPlace_next]
  | .prop x p, k => by simp only [keyExists, readPlace_next]
  | .idx b' k', k => by simp only [keyExists, readPlace_next, keyExists_next s n b' k']

/-- `keyExists` is `existsAt` on the tree of the root name -/
theorem keyExists_path (s : St) : (b : Place) → (k : IKey) →
    keyExists s b k = ((readPlace s b.root).map eraseVal).bind (existsAt (pathOf b ++ [k]))
  | .var x, k => by
      simp only [keyExists, Place.root, pathOf, List.nil_append]
      cases h : readPlace s (.var x) with
      | none => rfl
      | some w =>
        cases w with
        | sc sc => simp [existsAt_single, eraseVal]
        | arr a kids => simp [existsAt_single, eraseVal]
  | .prop x p, k => by
      simp only [keyExists, Place.root, pathOf, List.nil_append]
      cases h : readPlace s (.prop x p) with
      | none => rfl
      | some w =>
        cases w with
        | sc sc => simp [existsAt_single, eraseVal]
        | arr a kids => simp [existsAt_single, eraseVal]
  | .idx b' k', k => by
      have ih := keyExists_path s b' k'
      simp only [keyExists, ih, Place.root, pathOf]
      have hrd : readPlace s (.idx b' k') = (readPlace s b'.root).bind (walk (pathOf b' ++ [k'])) :=
        readPlace_root_path s (.idx b' k')
      rw [hrd]
      cases hw : readPlace s b'.root with
      | none => rfl
      | some w =>
        simp only [Option.map_some, Option.bind_some, existsAt_snoc, walk_erase]
        cases existsAt (pathOf b' ++ [k']) (eraseVal w) with
        | none => rfl
        | some bb =>
          cases bb with
          | false => rfl
          | true =>
            dsimp only
            cases walk (pathOf b' ++ [k']) w with
            | none => rfl
            | some u =>
              cases u with
              | sc sc => simp [eraseVal]
              | arr a kids => simp [eraseVal]

/-! ### `storeAt`: the array case of `IndexExpression.SetValue` with the value prepared -/

theorem storeAt_sim {s : St} (hinv : Inv s) (b : Place) (k : Option IKey) (v : Val)
    (hv : ∀ i, vcnt i v ≤ 1 ∧ (0 < vcnt i v → scnt s i = 0 ∧ i < s.next)) :
    match storeAt .fixed s b k v with
    | some s' => Inv s' ∧ s.next ≤ s'.next ∧ (∀ i, scnt s' i ≤ scnt s i + vcnt i v) ∧
        ∀ c, Spec.Val.onArray (abs s) c b (fun l => Spec.Val.store l k (eraseVal v)) = some (abs s')
    | none => ∀ a kids, readPlace s b ≠ some (.arr a kids) := by
  simp only [storeAt]
  cases hr : readPlace s b with
  | none => simp
  | some u =>
    cases u with
    | sc sc => simp
    | arr a kids =>
      simp only
      obtain ⟨l', hact, herase⟩ := storeAct_fixed kids k s.next v
      rw [hact]
      have key : ∀ s1 : St, s1 = { (s.updArr a (fun _ => l')) with next := s.next + 1 } →
          Inv (writeBack .fixed s1 b) ∧ s.next ≤ (writeBack .fixed s1 b).next ∧
          (∀ i, scnt (writeBack .fixed s1 b) i ≤ scnt s i + vcnt i v) ∧
          ∀ c, Spec.Val.onArray (abs s) c b (fun l => Spec.Val.store l k (eraseVal v)) =
            some (abs (writeBack .fixed s1 b)) := by
        intro s1 hs1
        obtain ⟨i1, i2, i3, i4, _⟩ := inplace hinv b a kids l' hr (s.next + 1) (by omega) (fun i => vcnt i v)
          (fun i => cnt_storeAct i kids l' k s.next v hact)
          (fun i => ⟨(hv i).1, fun h => ⟨((hv i).2 h).1, by have := ((hv i).2 h).2; omega⟩⟩)
        rw [← hs1] at i1 i2 i3 i4
        obtain ⟨w1, w2, w3, w4⟩ := writeBack_ok b i1 a l' i2
        have hnx : s1.next = s.next + 1 := by rw [hs1]
        refine ⟨w1, by omega, ?_, ?_⟩
        · intro i; have := w4 i; have := i3 i; omega
        · intro c; rw [w2]; exact i4 c _ herase
      exact key _ rfl

/-! ### `place[k] = v` -/

/-- the claim for `setIdx` started with the allocator at `n1` -/
def SetIdxGoal (s : St) (b : Place) (k : Option IKey) (v : Val) (n1 : Nat) : Prop :=
  match setIdx .fixed b { s with next := n1 } k v with
  | some s' => Inv s' ∧ n1 ≤ s'.next ∧ (∀ i, i < n1 → scnt s' i ≤ scnt s i) ∧
      Spec.Val.onArray (abs s) true b (fun l => Spec.Val.store l k (eraseVal v)) = some (abs s')
  | none => Spec.Val.onArray (abs s) true b (fun l => Spec.Val.store l k (eraseVal v)) = none

/-- the copy of the stored value, as `storeAt_sim` wants it -/
theorem clone_hv {s : St} (hinv : Inv s) (v : Val) (n1 : Nat) (hn : s.next ≤ n1) (s1 : St)
    (h1 : ∀ i, n1 ≤ i → i < (cloneOnStore .fixed v n1).2 → scnt s1 i = 0)
    (h2 : (cloneOnStore .fixed v n1).2 ≤ s1.next) :
    ∀ i, vcnt i (cloneOnStore .fixed v n1).1 ≤ 1 ∧
      (0 < vcnt i (cloneOnStore .fixed v n1).1 → scnt s1 i = 0 ∧ i < s1.next) := by
  obtain ⟨_, _, cf⟩ := cloneOnStore_spec v n1
  intro i
  obtain ⟨f1, f2⟩ := cf i
  refine ⟨f1, fun hp => ?_⟩
  have := f2 hp
  exact ⟨h1 i this.1 this.2, by omega⟩

theorem setIdx_root (b : Place) (hb : b.isRoot = true) (s : St) (k : Option IKey) (v : Val) :
    setIdx .fixed b s k v =
      storeAt .fixed { s with next := (cloneOnStore .fixed v s.next).2 } b k (cloneOnStore .fixed v s.next).1 := by
  cases b with
  | idx b k' => simp [Place.isRoot] at hb
  | var x => simp [setIdx, Cfg.fixed]
  | prop x p => simp [setIdx, Cfg.fixed]

theorem setIdx_idx (b2 : Place) (k2 : IKey) (s : St) (k : Option IKey) (v : Val) :
    setIdx .fixed (.idx b2 k2) s k v =
      storeAt .fixed
        (match keyExists { s with next := (cloneOnStore .fixed v s.next).2 } b2 k2 with
         | some false =>
           (match setIdx .fixed b2 { s with next := (cloneOnStore .fixed v s.next).2 + 1 } (some k2)
               (.arr (cloneOnStore .fixed v s.next).2 []) with
            | some s' => s'
            | none => { s with next := (cloneOnStore .fixed v s.next).2 })
         | _ => { s with next := (cloneOnStore .fixed v s.next).2 })
        (.idx b2 k2) k (cloneOnStore .fixed v s.next).1 := by
  simp only [setIdx, show Cfg.fixed.cloneOnElemStore = true from rfl, if_true]
  rfl

theorem setIdx_root_sim {s : St} (hinv : Inv s) (b : Place) (hb : b.isRoot = true) (k : Option IKey) (v : Val)
    (n1 : Nat) (hn : s.next ≤ n1) : SetIdxGoal s b k v n1 := by
  unfold SetIdxGoal
  rw [setIdx_root _ hb]
  obtain ⟨ce, cn, cf⟩ := cloneOnStore_spec v n1
  have key : ∀ sA : St, sA = { s with next := (cloneOnStore .fixed v n1).2 } →
      (match storeAt .fixed sA b k (cloneOnStore .fixed v n1).1 with
       | some s' => Inv s' ∧ n1 ≤ s'.next ∧ (∀ i, i < n1 → scnt s' i ≤ scnt s i) ∧
           Spec.Val.onArray (abs s) true b (fun l => Spec.Val.store l k (eraseVal v)) = some (abs s')
       | none => Spec.Val.onArray (abs s) true b (fun l => Spec.Val.store l k (eraseVal v)) = none) := by
    intro sA hsA
    have hnx : sA.next = (cloneOnStore .fixed v n1).2 := by rw [hsA]
    have hsc : ∀ i, scnt sA i = scnt s i := by intro i; rw [hsA]; rfl
    have habs : abs sA = abs s := by rw [hsA]; rfl
    have hinvA : Inv sA := by rw [hsA]; exact Inv.next hinv _ (by omega)
    have hs := storeAt_sim hinvA b k (cloneOnStore .fixed v n1).1
      (clone_hv hinv v n1 hn sA (fun i h1 _ => by rw [hsc]; exact hinv.fresh i (by omega)) (by omega))
    cases hst : storeAt .fixed sA b k (cloneOnStore .fixed v n1).1 with
    | none =>
      rw [hst] at hs
      simp only
      exact onArray_root_none (abs s) true b hb _
        (read_not_arr s _ (fun a kids => by have := hs a kids; rw [hsA, readPlace_next] at this; exact this))
    | some s' =>
      rw [hst] at hs
      obtain ⟨h1, h2, h3, h4⟩ := hs
      simp only
      refine ⟨h1, by omega, ?_, ?_⟩
      · intro i hi
        have := h3 i
        have := hsc i
        obtain ⟨f1, f2⟩ := cf i
        rcases Nat.eq_zero_or_pos (vcnt i (cloneOnStore .fixed v n1).1) with h0 | hp
        · omega
        · have := f2 hp; omega
      · have := h4 true; rwa [ce, habs] at this
  exact key _ rfl

theorem setIdx_sim : (b : Place) → {s : St} → Inv s → (k : Option IKey) → (v : Val) → (n1 : Nat) →
    s.next ≤ n1 → SetIdxGoal s b k v n1
  | .var x, s, hinv, k, v, n1, hn => setIdx_root_sim hinv (.var x) rfl k v n1 hn
  | .prop x p, s, hinv, k, v, n1, hn => setIdx_root_sim hinv (.prop x p) rfl k v n1 hn
  | .idx b2 k2, s, hinv, k, v, n1, hn => by
      unfold SetIdxGoal
      rw [setIdx_idx]
      obtain ⟨ce, cn, cf⟩ := cloneOnStore_spec v n1
      simp only
      -- abbreviations
      generalize hv' : (cloneOnStore .fixed v n1).1 = v' at *
      generalize hn' : (cloneOnStore .fixed v n1).2 = n at *
      have hinvA : Inv ({ s with next := n } : St) := Inv.next hinv _ (by omega)
      have hfreshv : ∀ i, vcnt i v' ≤ 1 ∧ (0 < vcnt i v' → n1 ≤ i ∧ i < n) := cf
      rw [keyExists_next, keyExists_path]
      -- the frame of the final step, common to all cases
      have finish : ∀ (s1 : St), Inv s1 → n ≤ s1.next → (∀ i, i < n + 1 → scnt s1 i ≤ scnt s i) →
          ∀ (tgt : Option Spec.Val.St),
          (∀ s2, Spec.Val.onArray (abs s1) true (.idx b2 k2) (fun l => Spec.Val.store l k (eraseVal v')) = some (abs s2) →
            tgt = some (abs s2)) →
          ((∀ l, Spec.Val.read (abs s1) (.idx b2 k2) ≠ some (.arr l)) → tgt = none) →
          (match storeAt .fixed s1 (.idx b2 k2) k v' with
           | some s' => Inv s' ∧ n1 ≤ s'.next ∧ (∀ i, i < n1 → scnt s' i ≤ scnt s i) ∧ tgt = some (abs s')
           | none => tgt = none) := by
        intro s1 hinv1 hn1 hfr tgt hsome hnone
        have hs := storeAt_sim hinv1 (.idx b2 k2) k v' (by
          intro i
          obtain ⟨f1, f2⟩ := hfreshv i
          refine ⟨f1, fun hp => ?_⟩
          have := f2 hp
          have h0 : scnt s i = 0 := hinv.fresh i (by omega)
          have := hfr i (by omega)
          exact ⟨by omega, by omega⟩)
        cases hst : storeAt .fixed s1 (.idx b2 k2) k v' with
        | none =>
          rw [hst] at hs
          exact hnone (read_not_arr s1 _ hs)
        | some s2 =>
          rw [hst] at hs
          obtain ⟨h1, h2, h3, h4⟩ := hs
          refine ⟨h1, by omega, ?_, hsome s2 (h4 true)⟩
          intro i hi
          have := h3 i
          obtain ⟨f1, f2⟩ := hfreshv i
          have := hfr i (by omega)
          rcases Nat.eq_zero_or_pos (vcnt i v') with h0 | hp
          · omega
          · have := f2 hp; omega
      have hev : eraseVal v' = eraseVal v := ce
      cases hw : readPlace s b2.root with
      | none =>
        -- no root value: nothing exists, nothing is created
        simp only [Option.map_none, Option.bind_none]
        have := finish { s with next := n } hinvA (Nat.le_refl _) (fun i _ => by rw [scnt_next]; omega)
          (Spec.Val.onArray (abs s) true (.idx b2 k2) (fun l => Spec.Val.store l k (eraseVal v)))
          (fun s2 h => by rw [← hev, ← abs_next s n]; exact h)
          (fun h => onArray_create_none (abs s) b2 k2 _
            (fun T0 hT0 => by
              rw [abs_read, hw] at hT0; simp at hT0)
            (by rw [← abs_next s n]; exact h))
        exact this
      | some w0 =>
        simp only [Option.map_some, Option.bind_some]
        have hT0 : Spec.Val.read (abs s) b2.root = some (eraseVal w0) := by rw [abs_read, hw]; rfl
        cases hex : existsAt (pathOf b2 ++ [k2]) (eraseVal w0) with
        | none =>
          simp only
          exact finish { s with next := n } hinvA (Nat.le_refl _) (fun i _ => by rw [scnt_next]; omega)
            (Spec.Val.onArray (abs s) true (.idx b2 k2) (fun l => Spec.Val.store l k (eraseVal v)))
            (fun s2 h => by rw [← hev, ← abs_next s n]; exact h)
            (fun h => onArray_create_none (abs s) b2 k2 _
              (fun T0 hT => by rw [hT0] at hT; injection hT with hT; subst hT; rw [hex]; simp)
              (by rw [← abs_next s n]; exact h))
        | some bb =>
          cases bb with
          | true =>
            simp only
            exact finish { s with next := n } hinvA (Nat.le_refl _) (fun i _ => by rw [scnt_next]; omega)
              (Spec.Val.onArray (abs s) true (.idx b2 k2) (fun l => Spec.Val.store l k (eraseVal v)))
              (fun s2 h => by rw [← hev, ← abs_next s n]; exact h)
              (fun h => onArray_create_none (abs s) b2 k2 _
                (fun T0 hT => by rw [hT0] at hT; injection hT with hT; subst hT; rw [hex]; simp)
                (by rw [← abs_next s n]; exact h))
          | false =>
            simp only
            -- the missing parent key is created first
            have ih := setIdx_sim b2 hinv (some k2) (.arr n []) (n + 1) (by omega)
            unfold SetIdxGoal at ih
            have hviv := onArray_vivify (abs s) b2 k2 (eraseVal w0) hT0 hex
              (fun l => Spec.Val.store l k (eraseVal v))
            have hE : eraseVal (.arr n []) = Tree.arr [] := by simp [eraseVal, eraseL]
            cases hrec : setIdx .fixed b2 { s with next := n + 1 } (some k2) (.arr n []) with
            | none =>
              rw [hrec] at ih
              simp only at ih ⊢
              rw [hE] at ih
              rw [ih] at hviv
              simp only [Option.bind_none] at hviv
              have := finish { s with next := n } hinvA (Nat.le_refl _) (fun i _ => by rw [scnt_next]; omega)
                (Spec.Val.onArray (abs s) true (.idx b2 k2) (fun l => Spec.Val.store l k (eraseVal v)))
                (fun s2 h => by
                  rw [hev, abs_next s n, hviv] at h; cases h)
                (fun _ => hviv)
              exact this
            | some s1 =>
              rw [hrec] at ih
              obtain ⟨j1, j2, j3, j4⟩ := ih
              simp only
              rw [hE] at j4
              rw [j4] at hviv
              simp only [Option.bind_some] at hviv
              have hrd := read_vivify (abs s) (abs s1) b2 k2 (eraseVal w0) hT0 hex j4
              exact finish s1 j1 (by omega) j3
                (Spec.Val.onArray (abs s) true (.idx b2 k2) (fun l => Spec.Val.store l k (eraseVal v)))
                (fun s2 h => by rw [hviv, ← hev]; exact h)
                (fun h => (h [] hrd).elim)

/-! ### `unset(place[k])`, `place->m(…)` -/

theorem sim_unset {s : St} (hinv : Inv s) (b : Place) (k : IKey) : SimOpt s (.unset b k) := by
  unfold SimOpt
  simp only [stepOpt, unsetAt, Spec.Val.stepOpt]
  cases hr : readPlace s b with
  | none => simp only; exact onArray_nocreate_none (abs s) b _ (read_not_arr s b (by simp [hr]))
  | some w =>
    cases w with
    | sc sc => simp only; exact onArray_nocreate_none (abs s) b _ (read_not_arr s b (by simp [hr]))
    | arr a kids =>
      simp only
      obtain ⟨i1, i2, _, i4, _⟩ := inplace hinv b a kids (unsetKey kids k s.next).1 hr
        (s.next + (unsetKey kids k s.next).2) (by omega) (fun _ => 0)
        (fun i => by have := cnt_unsetKey i kids k s.next; omega)
        (fun i => ⟨by omega, fun h => by omega⟩)
      obtain ⟨w1, w2, _, _⟩ := writeBack_ok b i1 a _ i2
      exact ⟨w1, by rw [w2]; exact i4 false (fun l => Spec.Val.unsetK l k) (erase_unsetKey kids k s.next)⟩

theorem sim_meth {s : St} (hinv : Inv s) (b : Place) (m : Meth) : SimOpt s (.meth b m) := by
  unfold SimOpt
  simp only [stepOpt, methAt, Spec.Val.stepOpt]
  cases hr : readPlace s b with
  | none => simp only; exact onArray_nocreate_none (abs s) b _ (read_not_arr s b (by simp [hr]))
  | some w =>
    cases w with
    | sc sc => simp only; exact onArray_nocreate_none (abs s) b _ (read_not_arr s b (by simp [hr]))
    | arr a kids =>
      simp only
      obtain ⟨i1, _, _, i4, _⟩ := inplace hinv b a kids (Model.Heap.applyMeth kids m s.next) hr
        (s.next + 1) (by omega) (fun _ => 0)
        (fun i => by have := cnt_applyMeth i kids m s.next; omega)
        (fun i => ⟨by omega, fun h => by omega⟩)
      exact ⟨i1, i4 false (fun l => Spec.Val.applyMeth l m) (erase_applyMeth kids m s.next)⟩

theorem sim_setIdx {s : St} (hinv : Inv s) (b : Place) (k : Option IKey) (r : RV) : SimOpt s (.setIdx b k r) := by
  unfold SimOpt
  rcases evalRV_cases s r with ⟨h1, h2⟩ | ⟨v, n1, h1, h2, hle⟩
  · simp [stepOpt, h1, Spec.Val.stepOpt, h2]
  · have := setIdx_sim b hinv k v n1 hle
    unfold SetIdxGoal at this
    simp only [stepOpt, h1, Spec.Val.stepOpt, h2]
    cases hs : setIdx .fixed b { s with next := n1 } k v with
    | none => rw [hs] at this; exact this
    | some s' => rw [hs] at this; exact ⟨this.1, this.2.2.2⟩

end Proofs.Heap
