import Model.MwTopo
import Spec.MwTopo
namespace Proofs.MwTopo
open Model.Mw (Entry)
open Model.MwTopo

/-- every server object owns its backing array -/
structure Inv (st : St) (sp : Spec.MwTopo.St) : Prop where
  n_eq : st.n = sp.n
  routes_eq : st.routes = sp.routes
  bound : ∀ i, i < st.n → (st.objs i).arr < st.next
  cap : ∀ i, i < st.n → (st.objs i).len ≤ (st.heap (st.objs i).arr).length
  sep : ∀ i j, i < st.n → j < st.n → i ≠ j → (st.objs i).arr ≠ (st.objs j).arr
  views : ∀ i, i < st.n → view st.heap (st.objs i) = sp.objs i

theorem inv_init : Inv init Spec.MwTopo.init := by
  refine ⟨rfl, rfl, ?_, ?_, ?_, ?_⟩
  · intro i hi; simp [init]
  · intro i hi; simp [init]
  · intro i j hi hj hne; simp [init] at hi hj; omega
  · intro i hi; simp [init, view, Spec.MwTopo.init]

theorem take_set_append (l : List Entry) (k : Nat) (e : Entry) (h : k < l.length) :
    (l.set k e).take (k + 1) = l.take k ++ [e] := by
  induction l generalizing k with
  | nil => simp at h
  | cons x xs ih =>
    cases k with
    | zero => simp
    | succ k =>
      simp only [List.length_cons] at h
      have := ih k (by omega)
      simp [List.set, List.take, this]

theorem take_append_cons (l r : List Entry) (e : Entry) (k : Nat) (h : l.length = k) :
    (l ++ e :: r).take (k + 1) = l ++ [e] := by
  subst h
  induction l with
  | nil => simp
  | cons x xs ih => simpa using ih

theorem view_len (h : Heap) (s : Slice) (hc : s.len ≤ (h s.arr).length) : (view h s).length = s.len := by
  simp [view, List.length_take]; omega

theorem inv_step (st : St) (sp : Spec.MwTopo.St) (op : Op) (h : Inv st sp) :
    Inv (step true st op) (Spec.MwTopo.step sp op) := by
  obtain ⟨hn, hr, hb, hc, hs, hv⟩ := h
  cases op with
  | route o =>
    simp only [step, Spec.MwTopo.step, ← hn]
    by_cases ho : o < st.n
    · simp only [if_pos ho]
      exact ⟨rfl, by simp [hr, hv o ho], hb, hc, hs, hv⟩
    · simp only [if_neg ho]
      exact ⟨hn, hr, hb, hc, hs, hv⟩
  | group p =>
    simp only [step, Spec.MwTopo.step, ← hn]
    by_cases hp : p < st.n
    · simp only [if_pos hp, copyS, if_true]
      refine ⟨by simp [hn], hr, ?_, ?_, ?_, ?_⟩
      · intro i hi
        simp only at hi ⊢
        by_cases hin : i = st.n
        · simp [hin]
        · simp only [if_neg hin]; have := hb i (by omega); omega
      · intro i hi
        simp only at hi ⊢
        by_cases hin : i = st.n
        · simp only [if_pos hin, if_true]
          rw [view_len _ _ (hc p hp)]; exact Nat.le_refl _
        · simp only [if_neg hin]
          have hbi := hb i (by omega)
          have : (st.objs i).arr ≠ st.next := by omega
          simp only [if_neg this]; exact hc i (by omega)
      · intro i j hi hj hne
        simp only at hi hj ⊢
        by_cases hin : i = st.n <;> by_cases hjn : j = st.n
        · omega
        · simp only [if_pos hin, if_neg hjn]; have := hb j (by omega); omega
        · simp only [if_neg hin, if_pos hjn]; have := hb i (by omega); omega
        · simp only [if_neg hin, if_neg hjn]; exact hs i j (by omega) (by omega) hne
      · intro i hi
        simp only at hi ⊢
        by_cases hin : i = st.n
        · simp only [if_pos hin, view, if_true]
          have := hv p hp
          simp only [view] at this
          rw [← this]
          have hl := hc p hp
          simp [List.take_take]
        · simp only [if_neg hin, view]
          have hbi := hb i (by omega)
          have : (st.objs i).arr ≠ st.next := by omega
          simp only [if_neg this]; exact hv i (by omega)
    · simp only [if_neg hp]
      exact ⟨hn, hr, hb, hc, hs, hv⟩
  | mw o e =>
    simp only [step, Spec.MwTopo.step, ← hn]
    by_cases ho : o < st.n
    · simp only [if_pos ho, appendS]
      by_cases hsp : (st.objs o).len < (st.heap (st.objs o).arr).length
      · -- in place
        simp only [if_pos hsp]
        refine ⟨rfl, hr, ?_, ?_, ?_, ?_⟩
        · intro i hi
          simp only at hi ⊢
          by_cases hio : i = o
          · simp only [if_pos hio]; exact hb o ho
          · simp only [if_neg hio]; exact hb i hi
        · intro i hi
          simp only at hi ⊢
          by_cases hio : i = o
          · simp only [if_pos hio, if_true, List.length_set]; omega
          · simp only [if_neg hio]
            have := hs i o hi ho hio
            simp only [if_neg this]; exact hc i hi
        · intro i j hi hj hne
          simp only at hi hj ⊢
          by_cases hio : i = o <;> by_cases hjo : j = o
          · omega
          · simp only [if_pos hio, if_neg hjo]; exact fun h => hs o j ho hj (by omega) h
          · simp only [if_neg hio, if_pos hjo]; exact hs i o hi ho hio
          · simp only [if_neg hio, if_neg hjo]; exact hs i j hi hj hne
        · intro i hi
          simp only at hi ⊢
          by_cases hio : i = o
          · simp only [if_pos hio, view, if_true]
            rw [take_set_append _ _ _ hsp]
            have := hv o ho
            simp only [view] at this
            rw [this]
          · simp only [if_neg hio, view]
            have := hs i o hi ho hio
            simp only [if_neg this]; exact hv i hi
      · -- reallocation
        simp only [if_neg hsp]
        refine ⟨rfl, hr, ?_, ?_, ?_, ?_⟩
        · intro i hi
          simp only at hi ⊢
          by_cases hio : i = o
          · simp [hio]
          · simp only [if_neg hio]; have := hb i hi; omega
        · intro i hi
          simp only at hi ⊢
          by_cases hio : i = o
          · simp only [if_pos hio, if_true, List.length_append, List.length_cons]
            rw [view_len _ _ (hc o ho)]; omega
          · simp only [if_neg hio]
            have hbi := hb i hi
            have : (st.objs i).arr ≠ st.next := by omega
            simp only [if_neg this]; exact hc i hi
        · intro i j hi hj hne
          simp only at hi hj ⊢
          by_cases hio : i = o <;> by_cases hjo : j = o
          · omega
          · simp only [if_pos hio, if_neg hjo]; have := hb j hj; omega
          · simp only [if_neg hio, if_pos hjo]; have := hb i hi; omega
          · simp only [if_neg hio, if_neg hjo]; exact hs i j hi hj hne
        · intro i hi
          simp only at hi ⊢
          by_cases hio : i = o
          · simp only [if_pos hio, if_true]
            have hvl := view_len _ _ (hc o ho)
            have hvo := hv o ho
            simp only [view] at hvl hvo ⊢
            simp only [↓reduceIte]
            rw [take_append_cons _ _ _ _ hvl, hvo]
          · simp only [if_neg hio, view]
            have hbi := hb i hi
            have : (st.objs i).arr ≠ st.next := by omega
            simp only [if_neg this]; exact hv i hi
    · simp only [if_neg ho]
      exact ⟨hn, hr, hb, hc, hs, hv⟩

theorem inv_run_from (ops : List Op) (st : St) (sp : Spec.MwTopo.St) (h : Inv st sp) :
    Inv (ops.foldl (step true) st) (ops.foldl Spec.MwTopo.step sp) := by
  induction ops generalizing st sp with
  | nil => exact h
  | cons op ops ih => exact ih _ _ (inv_step st sp op h)

theorem inv_run (ops : List Op) : Inv (run true ops) (Spec.MwTopo.run ops) :=
  inv_run_from ops _ _ inv_init

end Proofs.MwTopo

namespace Proofs.MwTopo
open Model.Mw (Entry)
open Model.MwTopo

theorem take_set_self (l : List Entry) (k : Nat) (e : Entry) : (l.set k e).take k = l.take k := by
  induction l generalizing k with
  | nil => simp
  | cons x xs ih =>
    cases k with
    | zero => simp
    | succ k => simp [List.set, List.take, ih]

theorem apply_eq_chain (l : List Entry) :
    Model.Mw.apply [.final] l = Model.Mw.chain [.final] (Model.Mw.sortStable l) := by
  unfold Model.Mw.apply
  split
  · rename_i he
    have : l = [] := by simpa using he
    subst this; rfl
  · rfl

theorem run_snoc (c : Bool) (ops : List Op) (op : Op) : run c (ops ++ [op]) = step c (run c ops) op := by
  simp [run, List.foldl_append]

theorem srun_snoc (ops : List Op) (op : Op) :
    Spec.MwTopo.run (ops ++ [op]) = Spec.MwTopo.step (Spec.MwTopo.run ops) op := by
  simp [Spec.MwTopo.run, List.foldl_append]

end Proofs.MwTopo
