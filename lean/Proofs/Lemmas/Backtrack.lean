import Model.Backtrack
/-!
# Lemmas about `Model.Backtrack`: sizes, the linear and the quadratic bound, the doubling
-/
namespace Proofs.Backtrack
open Model.Backtrack

/-! ### sizes -/

theorem size_pos : ∀ t : Tree, 1 ≤ t.size
  | .tok => by simp [Tree.size]
  | .grp _ _ => by simp [Tree.size]; omega

mutual
  theorem depth_lt_size : ∀ t : Tree, t.depth + 1 ≤ t.size
    | .tok => by simp [Tree.size, Tree.depth]
    | .grp _ es => by
      have := depthF_le_size es
      simp [Tree.size, Tree.depth]; omega
  theorem depthF_le_size : ∀ f : Forest, f.depth ≤ f.size
    | .nil => by simp [Forest.size, Forest.depth]
    | .cons t f => by
      have h1 := depth_lt_size t
      have h2 := depthF_le_size f
      simp [Forest.size, Forest.depth]; omega
end

theorem flat_le_size : ∀ f : Forest, f.flat ≤ f.size
  | .nil => by simp [Forest.flat, Forest.size]
  | .cons .tok f => by
    have := flat_le_size f
    simp [Forest.flat, Forest.size, Tree.size]; omega
  | .cons (.grp _ _) f => by
    have := flat_le_size f
    simp [Forest.flat, Forest.size, Tree.size]; omega

/-! ### linear bound: only forward reads and flat retries -/

/-- no scan, no nested retry -/
def Linear (pol : Nat → Policy) : Prop := ∀ k, pol k = .direct ∨ pol k = .retryFlat

theorem extra_linear {pol : Nat → Policy} (h : Linear pol) (k size flat a b : Nat) :
    (pol k).extra size flat a b ≤ 2 + flat := by
  rcases h k with hk | hk <;> rw [hk] <;> simp [Policy.extra]

mutual
  theorem work_le_linear {pol : Nat → Policy} (h : Linear pol) : ∀ t : Tree, work pol t ≤ 2 * t.size
    | .tok => by simp [work, Tree.size]
    | .grp k es => by
      have ih := workF_flat_le_linear h es
      have hx := extra_linear h k es.size es.flat (workHead pol es) (workF pol es)
      simp only [work, Tree.size]
      omega
  theorem workF_flat_le_linear {pol : Nat → Policy} (h : Linear pol) : ∀ f : Forest, workF pol f + f.flat ≤ 2 * f.size
    | .nil => by simp [workF, Forest.flat, Forest.size]
    | .cons .tok f => by
      have ih := workF_flat_le_linear h f
      simp only [workF, work, Forest.flat, Forest.size, Tree.size]
      omega
    | .cons (.grp k es) f => by
      have ih := workF_flat_le_linear h f
      have it := work_le_linear h (.grp k es)
      simp only [workF, Forest.flat, Forest.size] at *
      omega
end

/-! ### quadratic bound: scans allowed, no nested retry -/

/-- no reading re-parses nested groups -/
def NoNestedRetry (pol : Nat → Policy) : Prop := ∀ k, (pol k).nestedRetry = false

/-- what a group pays beyond parsing its elements once, when its policy has no nested retry -/
theorem extra_le {pol : Nat → Policy} (h : NoNestedRetry pol) (k : Nat) (es : Forest) (a b : Nat) :
    (pol k).extra es.size es.flat a b ≤ 2 + es.size := by
  have hk := h k
  have hf := flat_le_size es
  cases hp : pol k <;> simp [hp, Policy.nestedRetry, Policy.extra] at hk ⊢ <;> omega

/-- `2·S·(D+1)` written so that `omega` sees the products as the same atoms on both sides -/
theorem grp_arith (S D W : Nat) (hW : W ≤ 2 * S * (D + 1)) :
    2 + W + (2 + S) ≤ 2 * (2 + S) * (1 + D + 1) := by
  have e : 2 * (2 + S) * (1 + D + 1) = 2 * S * (D + 1) + (4 * (D + 1) + 2 * S + 4) := by
    simp only [Nat.mul_add, Nat.add_mul, Nat.mul_one]
    omega
  omega

theorem cons_arith (s1 d1 s2 d2 w1 w2 : Nat) (h1 : w1 ≤ 2 * s1 * (d1 + 1)) (h2 : w2 ≤ 2 * s2 * (d2 + 1)) :
    w1 + w2 ≤ 2 * (s1 + s2) * (max d1 d2 + 1) := by
  have a1 : 2 * s1 * (d1 + 1) ≤ 2 * s1 * (max d1 d2 + 1) :=
    Nat.mul_le_mul_left _ (by omega)
  have a2 : 2 * s2 * (d2 + 1) ≤ 2 * s2 * (max d1 d2 + 1) :=
    Nat.mul_le_mul_left _ (by omega)
  have e : 2 * (s1 + s2) * (max d1 d2 + 1) = 2 * s1 * (max d1 d2 + 1) + 2 * s2 * (max d1 d2 + 1) := by
    rw [Nat.mul_add 2 s1 s2, Nat.add_mul]
  omega

mutual
  theorem work_le_quadratic {pol : Nat → Policy} (h : NoNestedRetry pol) :
      ∀ t : Tree, work pol t ≤ 2 * t.size * (t.depth + 1)
    | .tok => by simp [work, Tree.size, Tree.depth]
    | .grp k es => by
      have ih := workF_le_quadratic h es
      have hx := extra_le h k es (workHead pol es) (workF pol es)
      have := grp_arith es.size es.depth (workF pol es) ih
      simp only [work, Tree.size, Tree.depth]
      omega
  theorem workF_le_quadratic {pol : Nat → Policy} (h : NoNestedRetry pol) :
      ∀ f : Forest, workF pol f ≤ 2 * f.size * (f.depth + 1)
    | .nil => by simp [workF]
    | .cons t f => by
      have h1 := work_le_quadratic h t
      have h2 := workF_le_quadratic h f
      simp only [workF, Forest.size, Forest.depth]
      exact cons_arith _ _ _ _ _ _ h1 h2
end

/-- in terms of the token count alone -/
theorem work_le_size_sq {pol : Nat → Policy} (h : NoNestedRetry pol) (t : Tree) :
    work pol t ≤ 2 * t.size * t.size :=
  Nat.le_trans (work_le_quadratic h t) (Nat.mul_le_mul_left _ (depth_lt_size t))

/-! ### doubling per level -/

theorem size_nest (k : Nat) : ∀ d, (nest k d).size = 2 * d + 1
  | 0 => by simp [nest, Tree.size]
  | d + 1 => by
    have := size_nest k d
    simp [nest, Tree.size, Forest.size] at *; omega

theorem depth_nest (k : Nat) : ∀ d, (nest k d).depth = d
  | 0 => by simp [nest, Tree.depth]
  | d + 1 => by
    have := depth_nest k d
    simp [nest, Tree.depth, Forest.depth] at *; omega

theorem two_pow_le_work_nest {pol : Nat → Policy} {k : Nat} (hk : (pol k).nestedRetry = true) :
    ∀ d, 2 ^ d ≤ work pol (nest k d)
  | 0 => by simp [nest, work]
  | d + 1 => by
    have ih := two_pow_le_work_nest hk d
    have e : 2 ^ (d + 1) = 2 * 2 ^ d := by rw [Nat.pow_succ, Nat.mul_comm]
    have hx : work pol (nest k d) ≤
        (pol k).extra (Forest.cons (nest k d) .nil).size (Forest.cons (nest k d) .nil).flat
          (work pol (nest k d)) (work pol (nest k d) + 0) := by
      cases hp : pol k <;> simp [hp, Policy.nestedRetry] at hk <;> simp [Policy.extra] <;> omega
    simp only [nest, work, workF, workHead]
    omega

/-! ### hence no quadratic bound (nor any `c · size²`) holds once a nested retry exists -/

theorem sq_le_two_pow : ∀ n, (4 * (11 + n) + 1) * (4 * (11 + n) + 1) ≤ 2 ^ (11 + n)
  | 0 => by decide
  | n + 1 => by
    have ih := sq_le_two_pow n
    have e1 : 2 ^ (11 + (n + 1)) = 2 * 2 ^ (11 + n) := by
      rw [show 11 + (n + 1) = (11 + n) + 1 by omega, Nat.pow_succ, Nat.mul_comm]
    have hx : 45 * (4 * (11 + n) + 1) ≤ (4 * (11 + n) + 1) * (4 * (11 + n) + 1) :=
      Nat.mul_le_mul_right _ (by omega)
    have e2 : (4 * (11 + (n + 1)) + 1) * (4 * (11 + (n + 1)) + 1)
        = (4 * (11 + n) + 1) * (4 * (11 + n) + 1) + 8 * (4 * (11 + n) + 1) + 16 := by
      have : 4 * (11 + (n + 1)) + 1 = (4 * (11 + n) + 1) + 4 := by omega
      rw [this]
      generalize 4 * (11 + n) + 1 = x
      simp only [Nat.mul_add, Nat.add_mul]
      omega
    omega

theorem exists_depth_beyond (c : Nat) : ∃ d, c * ((2 * d + 1) * (2 * d + 1)) < 2 ^ d := by
  refine ⟨2 * (11 + c), ?_⟩
  have h1 := sq_le_two_pow c
  have h2 : c < 2 ^ (11 + c) :=
    Nat.lt_of_lt_of_le (Nat.lt_two_pow_self) (Nat.pow_le_pow_right (by omega) (by omega))
  have hpos : 0 < 2 ^ (11 + c) := Nat.pow_pos (by omega)
  have e : 2 ^ (2 * (11 + c)) = 2 ^ (11 + c) * 2 ^ (11 + c) := by
    rw [show 2 * (11 + c) = (11 + c) + (11 + c) by omega, Nat.pow_add]
  have e2 : 2 * (2 * (11 + c)) + 1 = 4 * (11 + c) + 1 := by omega
  rw [e, e2]
  calc c * ((4 * (11 + c) + 1) * (4 * (11 + c) + 1))
      ≤ c * 2 ^ (11 + c) := Nat.mul_le_mul_left _ h1
    _ < 2 ^ (11 + c) * 2 ^ (11 + c) := Nat.mul_lt_mul_of_pos_right h2 hpos

theorem no_square_bound {pol : Nat → Policy} {k : Nat} (hk : (pol k).nestedRetry = true) :
    ¬ ∃ c, ∀ t : Tree, work pol t ≤ c * (t.size * t.size) := by
  rintro ⟨c, h⟩
  obtain ⟨d, hd⟩ := exists_depth_beyond c
  have h1 := h (nest k d)
  have h2 := two_pow_le_work_nest hk d
  rw [size_nest] at h1
  omega

end Proofs.Backtrack
