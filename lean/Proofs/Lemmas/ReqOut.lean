import Spec.ReqOut
/-!
# Lemmas for Model.ReqOut (C11, round 8)
-/
namespace Proofs.ReqOut
open Model.ReqOut
open Spec.ReqOut (echoes own)

theorem proj_append (r : Nat) (a b : List (Nat × Nat)) : proj r (a ++ b) = proj r a ++ proj r b := by
  simp [proj, List.filter_append]

theorem run_cons (d : Discipline) (s : St) (e : Ev) (t : List Ev) :
    run d s (e :: t) = run d (step d s e) t := rfl

/-- the request path leaves the hook alone: every write reaches stdout tagged with its writer -/
theorem direct_run (t : List Ev) : ∀ (s : St), s.cur = none →
    (run .direct s t).cur = none ∧ (run .direct s t).body = s.body ∧
    ∀ r, proj r (run .direct s t).stdout = proj r s.stdout ++ echoes r t := by
  induction t with
  | nil => intro s h; simp [run, echoes, h]
  | cons e t ih =>
    intro s h
    rw [run_cons]
    cases e with
    | start q =>
      have hs : step .direct s (.start q) = s := rfl
      rw [hs]
      simpa [echoes] using ih s h
    | stop q =>
      have hs : step .direct s (.stop q) = s := rfl
      rw [hs]
      simpa [echoes] using ih s h
    | echo q v =>
      have hs : step .direct s (.echo q v) = { s with stdout := s.stdout ++ [(q, v)] } := by
        simp [step, h]
      rw [hs]
      obtain ⟨h1, h2, h3⟩ := ih { s with stdout := s.stdout ++ [(q, v)] } h
      refine ⟨h1, h2, ?_⟩
      intro r
      rw [h3 r, proj_append]
      by_cases hq : q = r
      · subst hq; simp [echoes, proj]
      · simp [echoes, proj, hq]

theorem echoes_own (r : Nat) (t : List Ev) : echoes r (own r t) = echoes r t := by
  induction t with
  | nil => rfl
  | cons e t ih =>
    cases e with
    | start q => by_cases hq : q = r <;> simp [own, echoes, hq, ih]
    | stop q => by_cases hq : q = r <;> simp [own, echoes, hq, ih]
    | echo q v => by_cases hq : q = r <;> simp [own, echoes, hq, ih]

/-- the saved values of the requests in flight form the stack of hooks: the innermost request is the
current one, and each request saved the one below it -/
def Chain (saved : Nat → Option Nat) : List Nat → Option Nat → Prop
  | [], c => c = none
  | r :: rest, c => c = some r ∧ r ∉ rest ∧ Chain saved rest (saved r)

theorem chain_update (saved : Nat → Option Nat) (r : Nat) (x : Option Nat) :
    ∀ (stk : List Nat) (c : Option Nat), r ∉ stk → Chain saved stk c →
      Chain (fun q => if q = r then x else saved q) stk c := by
  intro stk
  induction stk with
  | nil => intro c _ h; exact h
  | cons a rest ih =>
    intro c hr h
    have h' : c = some a ∧ a ∉ rest ∧ Chain saved rest (saved a) := h
    obtain ⟨h1, h2, h3⟩ := h'
    have har : ¬ a = r := fun e => hr (by simp [e])
    have hrr : r ∉ rest := fun e => hr (by simp [e])
    have h4 := ih (saved a) hrr h3
    show c = some a ∧ a ∉ rest ∧ Chain _ rest ((fun q => if q = r then x else saved q) a)
    refine ⟨h1, h2, ?_⟩
    simpa [har] using h4

/-- save/restore is right as long as requests nest -/
theorem swap_nested (t : List Ev) : ∀ (stk : List Nat) (s : St), Chain s.saved stk s.cur →
    nested stk t = true →
    (run .swap s t).stdout = s.stdout ∧ ∀ r, (run .swap s t).body r = s.body r ++ echoes r t := by
  induction t with
  | nil => intro stk s _ _; simp [run, echoes]
  | cons e t ih =>
    intro stk s hc hn
    rw [run_cons]
    cases e with
    | start q =>
      simp only [nested, Bool.and_eq_true, Bool.not_eq_true'] at hn
      obtain ⟨hq, hn'⟩ := hn
      have hq' : q ∉ stk := by simpa using hq
      have hch : Chain (step .swap s (.start q)).saved (q :: stk) (step .swap s (.start q)).cur := by
        show _ = some q ∧ q ∉ stk ∧ Chain _ stk _
        refine ⟨rfl, hq', ?_⟩
        have h4 := chain_update s.saved q s.cur stk s.cur hq' hc
        simpa [step] using h4
      obtain ⟨h1, h2⟩ := ih (q :: stk) _ hch hn'
      exact ⟨h1, fun r => by simpa [step, echoes] using h2 r⟩
    | echo q v =>
      cases stk with
      | nil => simp [nested] at hn
      | cons top rest =>
        simp only [nested, Bool.and_eq_true, beq_iff_eq] at hn
        obtain ⟨hq, hn'⟩ := hn
        subst hq
        have hc' : s.cur = some q ∧ q ∉ rest ∧ Chain s.saved rest (s.saved q) := hc
        have hs : step .swap s (.echo q v) =
            { s with body := fun p => if p = q then s.body p ++ [v] else s.body p } := by
          simp [step, hc'.1]
        have hch : Chain (step .swap s (.echo q v)).saved (q :: rest) (step .swap s (.echo q v)).cur := by
          rw [hs]; exact hc
        obtain ⟨h1, h2⟩ := ih (q :: rest) _ hch hn'
        rw [hs] at h1 h2 ⊢
        refine ⟨h1, fun r => ?_⟩
        rw [h2 r]
        by_cases hr : r = q
        · subst hr; simp [echoes]
        · have hr' : ¬ q = r := fun e => hr e.symm
          simp [echoes, hr, hr']
    | stop q =>
      cases stk with
      | nil => simp [nested] at hn
      | cons top rest =>
        simp only [nested, Bool.and_eq_true, beq_iff_eq] at hn
        obtain ⟨hq, hn'⟩ := hn
        subst hq
        have hc' : s.cur = some q ∧ q ∉ rest ∧ Chain s.saved rest (s.saved q) := hc
        have hch : Chain (step .swap s (.stop q)).saved rest (step .swap s (.stop q)).cur := hc'.2.2
        obtain ⟨h1, h2⟩ := ih rest _ hch hn'
        exact ⟨h1, fun r => by simpa [step, echoes] using h2 r⟩

end Proofs.ReqOut
