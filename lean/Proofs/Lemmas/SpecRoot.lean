import Proofs.Lemmas.TreePath
/-!
C06 helper lemmas: the reference semantics at a root name (`$x`, `$x->p`) and, built on
`TreePath`, what a store that creates missing keys does on a whole state.
-/
namespace Proofs.Heap
open Model.Heap
open Spec.Val (Tree Entry tkeys store)

theorem root_isRoot (b : Place) : b.root.isRoot = true := by
  induction b with
  | var x => rfl
  | prop x p => rfl
  | idx b k ih => simpa only [Place.root] using ih

theorem root_root (b : Place) : b.root.root = b.root := by
  induction b with
  | var x => rfl
  | prop x p => rfl
  | idx b k ih => simpa only [Place.root] using ih

theorem pathOf_of_isRoot (b : Place) (h : b.isRoot = true) : pathOf b = [] ∧ b.root = b := by
  cases b with
  | var x => exact ⟨rfl, rfl⟩
  | prop x p => exact ⟨rfl, rfl⟩
  | idx b k => simp [Place.isRoot] at h

/-! ### `setVar` / `setProp` read back -/

theorem varVal_setVar (t : Spec.Val.St) (x : Nat) (T0 T1 : Tree) (h0 : t.varVal? x = some T0) :
    (t.setVar x T1).varVal? x = some T1 ∧ ∀ T2, (t.setVar x T1).setVar x T2 = t.setVar x T2 := by
  cases hc : t.names[x]? with
  | none => simp [Spec.Val.St.varVal?, hc] at h0
  | some cidx =>
    simp only [Spec.Val.St.varVal?, hc] at h0
    have hlt : cidx < t.vars.length := (List.getElem?_eq_some_iff.mp h0).1
    simp only [Spec.Val.St.varVal?, Spec.Val.St.setVar, hc]
    constructor
    · simp [hlt]
    · intro T2; simp [List.set_set]

theorem varVal_setProp (t : Spec.Val.St) (h p x : Nat) (T : Tree) :
    (t.setProp h p T).varVal? x = t.varVal? x := by
  simp only [Spec.Val.St.setProp, Spec.Val.St.varVal?]
  cases t.objs[h]? <;> rfl

theorem varObj_setProp (t : Spec.Val.St) (h p x : Nat) (T : Tree) :
    (t.setProp h p T).varObj? x = t.varObj? x := by
  simp only [Spec.Val.St.varObj?, varVal_setProp]

theorem propVal_setProp (t : Spec.Val.St) (h p : Nat) (T0 T1 : Tree)
    (h0 : t.propVal? h p = some T0) :
    (t.setProp h p T1).propVal? h p = some T1 ∧
      ∀ T2, (t.setProp h p T1).setProp h p T2 = t.setProp h p T2 := by
  cases ho : t.objs[h]? with
  | none => simp [Spec.Val.St.propVal?, ho] at h0
  | some ps =>
    simp only [Spec.Val.St.propVal?, ho] at h0
    have hh : h < t.objs.length := (List.getElem?_eq_some_iff.mp ho).1
    have hp : p < ps.length := (List.getElem?_eq_some_iff.mp h0).1
    simp only [Spec.Val.St.propVal?, Spec.Val.St.setProp, ho]
    constructor
    · simp [hh, hp]
    · intro T2; simp [hh, List.set_set]

/-- the form of `modify` at a root name: apply the function to the tree the name holds and
store the result back; the store reads back, and a second store replaces the first -/
theorem modify_root_form (t : Spec.Val.St) (c : Bool) (r : Place) (hr : r.isRoot = true) (T0 : Tree)
    (h0 : Spec.Val.read t r = some T0) :
    ∃ set : Tree → Spec.Val.St,
      (∀ H : Tree → Option Tree, Spec.Val.modify t c r H = (H T0).map set) ∧
      (∀ T1, Spec.Val.read (set T1) r = some T1) ∧
      (∀ T1 (H2 : Tree → Option Tree), Spec.Val.modify (set T1) c r H2 = (H2 T1).map set) := by
  cases r with
  | idx b k => simp [Place.isRoot] at hr
  | var x =>
    simp only [Spec.Val.read] at h0
    refine ⟨t.setVar x, ?_, ?_, ?_⟩
    · intro H; simp only [Spec.Val.modify, h0]
    · intro T1; simp only [Spec.Val.read]; exact (varVal_setVar t x T0 T1 h0).1
    · intro T1 H2
      have := varVal_setVar t x T0 T1 h0
      simp only [Spec.Val.modify, this.1]
      cases H2 T1 with
      | none => rfl
      | some T2 => simp only [Option.map_some, this.2]
  | prop x p =>
    simp only [Spec.Val.read] at h0
    cases hv : t.varObj? x with
    | none => simp [hv] at h0
    | some h =>
      simp only [hv] at h0
      refine ⟨t.setProp h p, ?_, ?_, ?_⟩
      · intro H; simp only [Spec.Val.modify, hv, h0]
      · intro T1
        simp only [Spec.Val.read, varObj_setProp, hv]
        exact (propVal_setProp t h p T0 T1 h0).1
      · intro T1 H2
        have := propVal_setProp t h p T0 T1 h0
        simp only [Spec.Val.modify, varObj_setProp, hv, this.1]
        cases H2 T1 with
        | none => rfl
        | some T2 => simp only [Option.map_some, this.2]

/-- at a root name `modify` applies the function to the tree the name holds -/
theorem modify_root_congr (t : Spec.Val.St) (c : Bool) (r : Place) (hr : r.isRoot = true) (T0 : Tree)
    (h0 : Spec.Val.read t r = some T0) (H H' : Tree → Option Tree) (he : H T0 = H' T0) :
    Spec.Val.modify t c r H = Spec.Val.modify t c r H' := by
  obtain ⟨set, h1, _, _⟩ := modify_root_form t c r hr T0 h0
  rw [h1, h1, he]

theorem modify_root_none (t : Spec.Val.St) (c : Bool) (r : Place) (hr : r.isRoot = true)
    (h0 : Spec.Val.read t r = none) (H : Tree → Option Tree) : Spec.Val.modify t c r H = none := by
  cases r with
  | idx b k => simp [Place.isRoot] at hr
  | var x =>
    simp only [Spec.Val.read] at h0
    simp only [Spec.Val.modify, h0]
  | prop x p =>
    simp only [Spec.Val.read] at h0
    cases hv : t.varObj? x with
    | none => simp only [Spec.Val.modify, hv]
    | some h =>
      simp only [hv] at h0
      simp only [Spec.Val.modify, hv, h0]

/-- a successful `modify` at a root name: the name now holds the new tree, and a second
`modify` at the same name is a `modify` of the original state -/
theorem modify_root_some (t t1 : Spec.Val.St) (c : Bool) (r : Place) (hr : r.isRoot = true) (T0 : Tree)
    (h0 : Spec.Val.read t r = some T0) (H : Tree → Option Tree) (h : Spec.Val.modify t c r H = some t1) :
    ∃ T1, H T0 = some T1 ∧ Spec.Val.read t1 r = some T1 ∧
      ∀ H2 : Tree → Option Tree, Spec.Val.modify t1 c r H2 = Spec.Val.modify t c r (fun _ => H2 T1) := by
  obtain ⟨set, h1, h2, h3⟩ := modify_root_form t c r hr T0 h0
  rw [h1] at h
  cases hH : H T0 with
  | none => simp [hH] at h
  | some T1 =>
    simp only [hH, Option.map_some, Option.some.injEq] at h
    subst h
    exact ⟨T1, rfl, h2 T1, fun H2 => by rw [h3, h1]⟩

/-- `modify` fails at a root name iff the function fails on the tree it holds -/
theorem modify_root_eq_none (t : Spec.Val.St) (c : Bool) (r : Place) (hr : r.isRoot = true) (T0 : Tree)
    (h0 : Spec.Val.read t r = some T0) (H : Tree → Option Tree) (h : H T0 = none) :
    Spec.Val.modify t c r H = none := by
  obtain ⟨set, h1, _, _⟩ := modify_root_form t c r hr T0 h0
  rw [h1, h]; rfl

/-! ### stores that create missing keys, on a state -/

/-- `$x[…][k2][…] = v` with `k2` or a key before it missing: first `…[k2] = []`, then the store -/
theorem onArray_vivify (t : Spec.Val.St) (b2 : Place) (k2 : IKey) (T0 : Tree)
    (h0 : Spec.Val.read t b2.root = some T0) (he : existsAt (pathOf b2 ++ [k2]) T0 = some false)
    (g : List Entry → List Entry) :
    Spec.Val.onArray t true (.idx b2 k2) g =
      (Spec.Val.onArray t true b2 (fun l => store l (some k2) (.arr []))).bind
        (fun t1 => Spec.Val.onArray t1 true (.idx b2 k2) g) := by
  obtain ⟨set, h1, _, h3⟩ := modify_root_form t true b2.root (root_isRoot b2) T0 h0
  have hL : ∀ s : Spec.Val.St, Spec.Val.onArray s true (.idx b2 k2) g =
      Spec.Val.modify s true b2.root (modPath true (pathOf b2 ++ [k2]) (onArr g)) := by
    intro s; rw [onArray_eq, modify_root_path]; rfl
  rw [hL t, onArray_eq t true b2, modify_root_path t true b2, h1, h1,
    modPath_vivify (pathOf b2) k2 (onArr g) T0 he]
  cases hm : modPath true (pathOf b2) (onArr fun l => store l (some k2) (Tree.arr [])) T0 with
  | none => rfl
  | some T1 =>
    simp only [Option.bind_some, Option.map_some]
    rw [hL, h3]

/-- … after which the place holds the empty array -/
theorem read_vivify (t t1 : Spec.Val.St) (b2 : Place) (k2 : IKey) (T0 : Tree)
    (h0 : Spec.Val.read t b2.root = some T0) (he : existsAt (pathOf b2 ++ [k2]) T0 = some false)
    (h1 : Spec.Val.onArray t true b2 (fun l => store l (some k2) (.arr [])) = some t1) :
    Spec.Val.read t1 (.idx b2 k2) = some (.arr []) := by
  rw [onArray_eq, modify_root_path] at h1
  obtain ⟨T1, hT1, hr1, _⟩ := modify_root_some t t1 true b2.root (root_isRoot b2) T0 h0 _ h1
  rw [read_root_path]
  show (Spec.Val.read t1 b2.root).bind (walkT (pathOf b2 ++ [k2])) = _
  rw [hr1, Option.bind_some]
  exact walkT_vivify (pathOf b2) k2 T0 T1 he hT1

/-- a store through `b2[k2]` that holds no array, when no key on the way is missing: no effect -/
theorem onArray_create_none (t : Spec.Val.St) (b2 : Place) (k2 : IKey) (g : List Entry → List Entry)
    (he : ∀ T0, Spec.Val.read t b2.root = some T0 → existsAt (pathOf b2 ++ [k2]) T0 ≠ some false)
    (h : ∀ l, Spec.Val.read t (.idx b2 k2) ≠ some (.arr l)) :
    Spec.Val.onArray t true (.idx b2 k2) g = none := by
  rw [onArray_eq, modify_root_path]
  show Spec.Val.modify t true b2.root (modPath true (pathOf b2 ++ [k2]) (onArr g)) = none
  cases h0 : Spec.Val.read t b2.root with
  | none => exact modify_root_none t true b2.root (root_isRoot b2) h0 _
  | some T0 =>
    have hw : ∀ l, walkT (pathOf b2 ++ [k2]) T0 ≠ some (.arr l) := by
      intro l hl
      apply h l
      rw [read_root_path]
      show (Spec.Val.read t b2.root).bind (walkT (pathOf b2 ++ [k2])) = _
      rw [h0, Option.bind_some]; exact hl
    exact modify_root_eq_none t true b2.root (root_isRoot b2) T0 h0 _
      (modPath_create_none (pathOf b2) k2 g T0 (he T0 h0) hw)

/-- a root name that holds no array -/
theorem onArray_root_none (t : Spec.Val.St) (c : Bool) (b : Place) (hb : b.isRoot = true)
    (g : List Entry → List Entry) (h : ∀ l, Spec.Val.read t b ≠ some (.arr l)) :
    Spec.Val.onArray t c b g = none := by
  rw [onArray_eq]
  cases h0 : Spec.Val.read t b with
  | none => exact modify_root_none t c b hb h0 _
  | some T0 =>
    refine modify_root_eq_none t c b hb T0 h0 _ ?_
    cases T0 with
    | sc s => rfl
    | arr l => exact absurd h0 (h l)

/-- `unset` / an in-place method through a place (any depth) that holds no array: no effect -/
theorem onArray_nocreate_none (t : Spec.Val.St) (b : Place) (g : List Entry → List Entry)
    (h : ∀ l, Spec.Val.read t b ≠ some (.arr l)) : Spec.Val.onArray t false b g = none := by
  rw [onArray_eq, modify_root_path]
  cases h0 : Spec.Val.read t b.root with
  | none => exact modify_root_none t false b.root (root_isRoot b) h0 _
  | some T0 =>
    have hw : ∀ l, walkT (pathOf b) T0 ≠ some (.arr l) := by
      intro l hl
      apply h l
      rw [read_root_path, h0, Option.bind_some]; exact hl
    exact modify_root_eq_none t false b.root (root_isRoot b) T0 h0 _
      (modPath_nocreate_none (pathOf b) g T0 hw)

end Proofs.Heap
