import Proofs.Lemmas.SerGen
import Spec.Ser
/-! `rb v` (what `unserialize (serialize v)` returns) is the same PHP value as `v`. -/
namespace Proofs.Ser
open Model.Ser Spec.Ser

/-- the decimal form of a 64-bit integer is an integer key, and it is that integer -/
theorem intKeyOf_itoa (n : Int) (h1 : -9223372036854775808 ≤ n) (h2 : n ≤ 9223372036854775807) :
    intKeyOf (itoa n) = some n := by
  unfold intKeyOf
  by_cases hneg : n < 0
  · have hk : itoa n = 45 :: dec n.natAbs := by simp [itoa, hneg]
    obtain ⟨d1, d2, d3⟩ := dec_spec n.natAbs (by omega)
    have hN : keyNeg (itoa n) = true := by rw [hk]; rfl
    have hD : keyDigits (itoa n) = dec n.natAbs := by unfold keyDigits; rw [hN, hk]; rfl
    have hv : intVal true (dec n.natAbs) = some n := by
      unfold intVal
      rw [if_neg d3]
      simp only [if_true]
      rw [d1, if_pos (by unfold maxInt; omega)]
      congr 1; omega
    rw [hN, hD, hv]
    simp only
    rw [if_pos ⟨List.all_eq_true.mpr d2, trivial⟩]
  · have hk : itoa n = dec n.toNat := by simp [itoa, hneg]
    obtain ⟨d1, d2, d3⟩ := dec_spec n.toNat (by omega)
    obtain ⟨d, tl, hd, hdig⟩ := dec_head_digit n.toNat (by omega)
    have h45 : d ≠ 45 := by intro h; subst h; simp [isDigit] at hdig
    have hN : keyNeg (itoa n) = false := by rw [hk, hd]; simp [keyNeg, h45]
    have hD : keyDigits (itoa n) = dec n.toNat := by unfold keyDigits; rw [hN, hk]; rfl
    have hv : intVal false (dec n.toNat) = some n := by
      unfold intVal
      rw [if_neg d3]
      simp only [Bool.false_eq_true, if_false]
      rw [d1, if_pos (by unfold maxInt; omega)]
      congr 1; omega
    rw [hN, hD, hv]
    simp only
    rw [if_pos ⟨List.all_eq_true.mpr d2, trivial⟩]

theorem keyOf_itoa (n : Int) (h1 : -9223372036854775808 ≤ n) (h2 : n ≤ 9223372036854775807) :
    keyOf (itoa n) = .int n := by
  simp [keyOf, intKeyOf_itoa n h1 h2]

/-- the PHP entries of a parsed entry list -/
def semEntries : List (PV × PV) → SL
  | [] => .nil
  | e :: rest => .cons (keyOf (keyString e.1)) (sem e.2) (semEntries rest)

def toPL : List (PV × PV) → PL
  | [] => .nil
  | e :: rest => .cons (keyString e.1) e.2 (toPL rest)

theorem keys_toPL : (es : List (PV × PV)) → PL.keys (toPL es) = es.map (fun e => keyString e.1)
  | [] => rfl
  | e :: rest => by simp [toPL, PL.keys, keys_toPL rest]

theorem keys_semEntries : (es : List (PV × PV)) →
    (semEntries es).keys = (es.map (fun e => keyString e.1)).map keyOf
  | [] => rfl
  | e :: rest => by simp [semEntries, SL.keys, keys_semEntries rest]

theorem semProps_toPL : (es : List (PV × PV)) → semProps (toPL es) = semEntries es
  | [] => rfl
  | e :: rest => by simp [toPL, semProps, semEntries, semProps_toPL rest]

theorem foldl_setProp : (es : List (PV × PV)) → ∀ acc : PL,
    (es.map (fun e => keyString e.1)).Nodup → (∀ e ∈ es, keyString e.1 ∉ PL.keys acc) →
    es.foldl (fun acc e => setProp (keyString e.1) e.2 acc) acc = plAppend acc (toPL es)
  | [], acc, _, _ => by simp [toPL, plAppend_nil]
  | e :: rest, acc, hnd, hdis => by
    simp only [List.map_cons, List.nodup_cons] at hnd
    simp only [List.foldl_cons]
    rw [setProp_fresh (keyString e.1) e.2 acc (hdis e (by simp))]
    rw [foldl_setProp rest _ hnd.2 (by
      intro e' he'
      rw [keys_plAppend]
      simp only [PL.keys, List.mem_append, List.mem_cons, List.not_mem_nil, or_false, not_or]
      refine ⟨hdis e' (by simp [he']), fun heq => hnd.1 ?_⟩
      rw [← heq]
      exact List.mem_map.mpr ⟨e', he', rfl⟩)]
    rw [plAppend_assoc]
    rfl

theorem nodup_of_map_keyOf (l : List Bytes) (h : (l.map keyOf).Nodup) : l.Nodup := by
  unfold List.Nodup at h ⊢
  rw [List.pairwise_map] at h
  exact h.imp (fun hne e => hne (congrArg keyOf e))

theorem semItems_values : (es : List (PV × PV)) → ∀ i, isSequential i es = true → i + es.length ≤ maxInt →
    semItems i (valuesPL es) = semEntries es
  | [], _, _, _ => rfl
  | (k, v) :: rest, i, hs, hl => by
    cases k with
    | int n =>
      simp only [isSequential, Bool.and_eq_true, decide_eq_true_eq] at hs
      obtain ⟨hn, hr⟩ := hs
      subst hn
      have ih := semItems_values rest (i + 1) hr (by simp at hl ⊢; omega)
      have hk : keyOf (itoa (i : Int)) = .int i :=
        keyOf_itoa i (by omega) (by simp at hl; unfold maxInt at hl; omega)
      simp [valuesPL, semItems, semEntries, slotSem, keyString, ih, hk]
    | null => simp [isSequential] at hs
    | bool _ => simp [isSequential] at hs
    | str _ => simp [isSequential] at hs
    | float _ => simp [isSequential] at hs
    | arr _ => simp [isSequential] at hs
    | obj _ => simp [isSequential] at hs

/-- what `parsePhpArray` builds from distinct keys is the PHP array of those entries -/
theorem sem_mkArray (es : List (PV × PV)) (hnd : (es.map (fun e => keyString e.1)).Nodup)
    (hlen : es.length ≤ maxInt) : sem (mkArray es) = .array (semEntries es) := by
  unfold mkArray
  split
  · rename_i hs
    simp only [sem]
    rw [semItems_values es 0 hs (by omega)]
  · rw [foldl_setProp es .nil hnd (by intro e _; simp [PL.keys])]
    simp only [plAppend, sem]
    rw [semProps_toPL]

theorem key_slot (idx : Nat) (k : Bytes) (hidx : idx ≤ maxInt) :
    keyOf (keyString (slotKeyPV idx k)) = slotSem idx k := by
  unfold slotKeyPV slotSem
  split
  · exact keyOf_itoa idx (by omega) (by unfold maxInt at hidx; omega)
  · cases hn : intKeyOf k with
    | some n =>
      obtain ⟨hk, _, _⟩ := intKeyOf_spec hn
      simp only [keyString, hk]
    | none => simp only [keyString]

theorem len_rbItems : (l : PL) → ∀ idx, (rbItems idx l).length = l.len
  | .nil, _ => rfl
  | .cons k v rest, idx => by simp [rbItems, PL.len, len_rbItems rest (idx + 1)]

theorem len_rbProps : (l : PL) → (rbProps l).length = l.len
  | .nil => rfl
  | .cons k v rest => by simp [rbProps, PL.len, len_rbProps rest]

mutual
theorem sem_rb : (v : PV) → Sized v → Distinct v → sem (rb v) = sem v
  | .null, _, _ => rfl
  | .bool _, _, _ => rfl
  | .int _, _, _ => rfl
  | .str _, _, _ => rfl
  | .float _, _, _ => rfl
  | .arr items, hs, hd => by
    have hE := semE_items items hs.1 hd.2 0 (by have := hs.2; omega)
    have hnd : ((rbItems 0 items).map (fun e => keyString e.1)).Nodup := by
      apply nodup_of_map_keyOf
      rw [← keys_semEntries, hE]
      exact hd.1
    simp only [rb]
    rw [sem_mkArray _ hnd (by rw [len_rbItems]; exact hs.2), hE]
    rfl
  | .obj props, hs, hd => by
    have hE := semE_props props hs.1 hd.2
    have hnd : ((rbProps props).map (fun e => keyString e.1)).Nodup := by
      apply nodup_of_map_keyOf
      rw [← keys_semEntries, hE]
      exact hd.1
    simp only [rb]
    rw [sem_mkArray _ hnd (by rw [len_rbProps]; exact hs.2), hE]
    rfl
theorem semE_items : (l : PL) → SizedL l → DistinctL l → ∀ idx, idx + l.len ≤ maxInt →
    semEntries (rbItems idx l) = semItems idx l
  | .nil, _, _, _, _ => rfl
  | .cons k v rest, hs, hd, idx, hi => by
    simp only [PL.len] at hi
    have h1 := sem_rb v hs.2.1 hd.1
    have h2 := semE_items rest hs.2.2 hd.2 (idx + 1) (by omega)
    simp only [rbItems, semEntries, semItems, h1, h2, key_slot idx k (by omega)]
theorem semE_props : (l : PL) → SizedL l → DistinctL l → semEntries (rbProps l) = semProps l
  | .nil, _, _ => rfl
  | .cons k v rest, hs, hd => by
    have h1 := sem_rb v hs.2.1 hd.1
    have h2 := semE_props rest hs.2.2 hd.2
    simp only [rbProps, semEntries, semProps, h1, h2, keyString]
end

end Proofs.Ser
