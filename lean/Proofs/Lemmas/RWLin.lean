import Proofs.Lemmas.RW
/-! C10: sections of a disciplined program are atomic — the linearization
invariant of `Model.RW` (witness = the ghost log, i.e. release order). -/
namespace Proofs.RW
open Model.RW
variable {Λ L S : Type}

theorem permits_none (k : Kind) : permits .none k = false := by cases k <;> rfl
theorem permits_R {k : Kind} (h : permits .R k = true) : k = .rd := by cases k <;> simp [permits] at h ⊢

theorem execAccs_rdonly (accs : List (Acc L S)) (h : ∀ a ∈ accs, a.kind = .rd) (l : L) (σ : S) :
    (execAccs accs (l, σ)).2 = σ := by
  induction accs generalizing l with
  | nil => rfl
  | cons a rest ih =>
    have ha := h a (by simp)
    cases a with
    | rd m f => simp only [execAccs, Acc.apply]; exact ih (fun b hb => h b (by simp [hb])) _
    | wr m f => simp [Acc.kind] at ha

theorem ok_none_nil (sec : Sec Λ L S) (h : sec.ok) (hm : sec.mode = .none) : sec.accs = [] := by
  cases hacc : sec.accs with
  | nil => rfl
  | cons a rest =>
    have := h a (by simp [hacc])
    rw [hm, permits_none] at this
    exact absurd this (by simp)

theorem ok_notW_store (sec : Sec Λ L S) (h : sec.ok) (hm : sec.mode ≠ .W) (l : L) (σ : S) :
    (execAccs sec.accs (l, σ)).2 = σ := by
  apply execAccs_rdonly
  intro a ha
  have := h a ha
  cases hmm : sec.mode with
  | none => rw [hmm, permits_none] at this; exact absurd this (by simp)
  | R => rw [hmm] at this; exact permits_R this
  | W => exact absurd hmm hm

theorem mode_none_todo (s : State Λ L S) (hi : Inv s) (x : Tid) (h : (s.thr x).pc.mode = .none) :
    Pc.todo (s.thr x).pc = [] := by
  have hok := hi.pcOk x
  cases hpc : (s.thr x).pc with
  | idle => rfl
  | held sec rest =>
    rw [hpc] at hok h
    simp only [Pc.mode] at h
    simp only [Pc.todo]
    cases rest with
    | nil => rfl
    | cons a r =>
      have := hok a (by simp)
      rw [h, permits_none] at this
      exact absurd this (by simp)
  | inAcc sec a rest =>
    rw [hpc] at hok h
    simp only [Pc.mode] at h
    have := hok.1
    rw [h, permits_none] at this
    exact absurd this (by simp)

theorem mode_of_sec (pc : Pc Λ L S) (sec : Sec Λ L S) (h : sec ∈ pc.sec) : pc.mode = sec.mode := by
  cases pc <;> simp [Pc.sec] at h <;> simp [Pc.mode, h]

/-- while `t` holds the write lock every other thread holds nothing -/
theorem others_none (s : State Λ L S) (hi : Inv s) (t x : Tid) (hw : s.writer = some t) (hx : x ≠ t) :
    (s.thr x).pc.mode = .none := by
  cases hm : (s.thr x).pc.mode with
  | none => rfl
  | R => have := hi.rHolds x hm; rw [hi.wExcl t hw] at this; simp at this
  | W => have := hi.wHolds x hm; rw [hw] at this; exact absurd (Option.some.inj this).symm hx

theorem seqExec_snoc (log : List (Tid × Sec Λ L S)) (e : Tid × Sec Λ L S) (p : S × (Tid → L)) :
    seqExec (log ++ [e]) p = seqStep (seqExec log p) e := by
  simp [seqExec, List.foldl_append]

theorem logOf_snoc_same (log : List (Tid × Sec Λ L S)) (t : Tid) (sec : Sec Λ L S) :
    logOf (log ++ [(t, sec)]) t = logOf log t ++ [sec] := by
  simp [logOf, List.filter_append]

theorem logOf_snoc_other (log : List (Tid × Sec Λ L S)) {t x : Tid} (h : x ≠ t) (sec : Sec Λ L S) :
    logOf (log ++ [(t, sec)]) x = logOf log x := by
  have : (t == x) = false := by simpa using (Ne.symm h)
  simp [logOf, List.filter_append, this]

/-- the linearization invariant relative to the initial store / private states /
programs.  `w` = the sequential execution of the log. -/
structure Lin (σi : S) (li : Tid → L) (prog0 : Tid → List (Sec Λ L S)) (s : State Λ L S) : Prop where
  order : ∀ t, logOf s.log t ++ (s.thr t).pc.sec ++ (s.thr t).prog = prog0 t
  idleLoc : ∀ t, (s.thr t).pc = .idle → (s.thr t).loc = (seqExec s.log (σi, li)).2 t
  store : s.writer = none → s.store = (seqExec s.log (σi, li)).1
  secLoc : ∀ t, ∀ sec ∈ (s.thr t).pc.sec,
    (execAccs (Pc.todo (s.thr t).pc) ((s.thr t).loc, s.store)).1 =
      (execAccs sec.accs ((seqExec s.log (σi, li)).2 t, (seqExec s.log (σi, li)).1)).1
  secStore : ∀ t, ∀ sec ∈ (s.thr t).pc.sec, sec.mode = .W →
    (execAccs (Pc.todo (s.thr t).pc) ((s.thr t).loc, s.store)).2 =
      (execAccs sec.accs ((seqExec s.log (σi, li)).2 t, (seqExec s.log (σi, li)).1)).2

theorem lin_init (σi : S) (li : Tid → L) (prog0 : Tid → List (Sec Λ L S)) :
    Lin σi li prog0 (mkInit σi li prog0) := by
  constructor <;> simp [mkInit, logOf, Pc.sec, seqExec]

/-- a step inside a section: same section, the remaining computation is the same -/
theorem lin_local (σi : S) (li : Tid → L) (prog0 : Tid → List (Sec Λ L S)) (s : State Λ L S) (t : Tid)
    (hi : Inv s) (hl : Lin σi li prog0 s) (pc' : Pc Λ L S) (loc' : L) (store' : S)
    (hsec : pc'.sec = (s.thr t).pc.sec) (hne : (s.thr t).pc.sec ≠ [])
    (hex : execAccs (Pc.todo pc') (loc', store') = execAccs (Pc.todo (s.thr t).pc) ((s.thr t).loc, s.store))
    (hst : store' = s.store ∨ s.writer = some t) :
    Lin σi li prog0 { s with store := store', thr := upd s.thr t { (s.thr t) with pc := pc', loc := loc' } } := by
  have hnotidle : pc' ≠ .idle := by
    intro h; rw [h] at hsec; exact hne hsec.symm
  constructor
  · intro x; by_cases hx : x = t
    · subst hx; simpa [hsec] using hl.order x
    · simpa [upd_other _ hx] using hl.order x
  · intro x; by_cases hx : x = t
    · subst hx; simp [hnotidle]
    · simpa [upd_other _ hx] using hl.idleLoc x
  · intro hw
    simp only [] at hw ⊢
    rcases hst with h | h
    · rw [h]; exact hl.store hw
    · rw [h] at hw; exact absurd hw (by simp)
  · intro x; by_cases hx : x = t
    · subst hx; simp only [upd_same, hsec, hex]; exact hl.secLoc x
    · simp only [upd_other _ hx]
      rcases hst with h | h
      · rw [h]; exact hl.secLoc x
      · have hn := mode_none_todo s hi x (others_none s hi t x h hx)
        intro sec hs
        have := hl.secLoc x sec hs
        rw [hn] at this ⊢
        simpa [execAccs] using this
  · intro x; by_cases hx : x = t
    · subst hx; simp only [upd_same, hsec, hex]; exact hl.secStore x
    · simp only [upd_other _ hx]
      rcases hst with h | h
      · rw [h]; exact hl.secStore x
      · intro sec hs hm
        have := others_none s hi t x h hx
        rw [mode_of_sec _ sec hs, hm] at this
        exact absurd this (by simp)

theorem lin_enter_core (σi : S) (li : Tid → L) (prog0 : Tid → List (Sec Λ L S)) (s : State Λ L S) (t : Tid)
    (sec : Sec Λ L S) (more : List (Sec Λ L S)) (hi : Inv s) (hl : Lin σi li prog0 s)
    (hpc : (s.thr t).pc = .idle) (hprog : (s.thr t).prog = sec :: more)
    (wn : Option Tid) (rn : List Tid)
    (hst : sec.mode = .none ∨ s.writer = none) (hwn : wn = none → s.writer = none) :
    Lin σi li prog0 { s with writer := wn, readers := rn, thr := upd s.thr t { (s.thr t) with pc := .held sec sec.accs, prog := more } } := by
  have hsec : sec.ok := hi.progOk t sec (by simp [hprog])
  have hloc := hl.idleLoc t hpc
  constructor
  · intro x; by_cases hx : x = t
    · subst hx
      have := hl.order x
      rw [hpc, hprog] at this
      simpa [Pc.sec] using this
    · simpa [upd_other _ hx] using hl.order x
  · intro x; by_cases hx : x = t
    · subst hx; simp
    · simpa [upd_other _ hx] using hl.idleLoc x
  · intro h; exact hl.store (hwn h)
  · intro x; by_cases hx : x = t
    · subst hx
      simp only [upd_same, Pc.sec, List.mem_singleton, Pc.todo]
      intro sec' hs; subst hs
      rcases hst with h | h
      · rw [ok_none_nil sec' hsec h]; simpa [execAccs] using hloc
      · rw [hloc, hl.store h]
    · simpa [upd_other _ hx] using hl.secLoc x
  · intro x; by_cases hx : x = t
    · subst hx
      simp only [upd_same, Pc.sec, List.mem_singleton, Pc.todo]
      intro sec' hs hm; subst hs
      rcases hst with h | h
      · rw [h] at hm; exact absurd hm (by simp)
      · rw [hloc, hl.store h]
    · simpa [upd_other _ hx] using hl.secStore x

theorem lin_enter (σi : S) (li : Tid → L) (prog0 : Tid → List (Sec Λ L S)) (s : State Λ L S) (t : Tid)
    (sec : Sec Λ L S) (more : List (Sec Λ L S)) (hi : Inv s) (hl : Lin σi li prog0 s)
    (hpc : (s.thr t).pc = .idle) (hprog : (s.thr t).prog = sec :: more) :
    Lin σi li prog0 (enter s t sec more) := by
  unfold enter
  cases hm : sec.mode with
  | none =>
    exact lin_enter_core σi li prog0 s t sec more hi hl hpc hprog s.writer s.readers (Or.inl hm) id
  | R =>
    simp only []
    split
    · rename_i hw
      exact lin_enter_core σi li prog0 s t sec more hi hl hpc hprog s.writer (t :: s.readers) (Or.inr hw) id
    · exact hl
  | W =>
    simp only []
    split
    · rename_i hw
      exact lin_enter_core σi li prog0 s t sec more hi hl hpc hprog (some t) s.readers (Or.inr hw.1)
        (fun h => absurd h (by simp))
    · exact hl

theorem lin_leave_core (σi : S) (li : Tid → L) (prog0 : Tid → List (Sec Λ L S)) (s : State Λ L S) (t : Tid)
    (sec : Sec Λ L S) (hi : Inv s) (hl : Lin σi li prog0 s) (hpc : (s.thr t).pc = .held sec [])
    (wn : Option Tid) (rn : List Tid) (hwn : wn = none → sec.mode = .W ∨ s.writer = none) :
    Lin σi li prog0 { s with writer := wn, readers := rn, thr := upd s.thr t { (s.thr t) with pc := .idle }, log := s.log ++ [(t, sec)] } := by
  have hsec : sec.ok := hi.curOk t sec (by simp [hpc, Pc.sec])
  have hL := hl.secLoc t sec (by simp [hpc, Pc.sec])
  have hS := hl.secStore t sec (by simp [hpc, Pc.sec])
  simp only [hpc, Pc.todo, execAccs] at hL hS
  have hnotW : sec.mode ≠ .W → ∀ l σ, (execAccs sec.accs (l, σ)).2 = σ :=
    fun h l σ => ok_notW_store sec hsec h l σ
  constructor
  · intro x; by_cases hx : x = t
    · subst hx
      have := hl.order x
      rw [hpc] at this
      simpa [Pc.sec, logOf_snoc_same] using this
    · simpa [upd_other _ hx, logOf_snoc_other _ hx] using hl.order x
  · intro x; by_cases hx : x = t
    · subst hx; simp [seqExec_snoc, seqStep, hL]
    · simp only [upd_other _ hx, seqExec_snoc, seqStep]
      intro h; exact hl.idleLoc x h
  · intro h
    simp only [seqExec_snoc, seqStep]
    by_cases hm : sec.mode = .W
    · exact hS hm
    · rcases hwn h with h' | h'
      · exact absurd h' hm
      · rw [hnotW hm]; exact hl.store h'
  · intro x; by_cases hx : x = t
    · subst hx; simp [Pc.sec]
    · simp only [upd_other _ hx, seqExec_snoc, seqStep]
      intro secx hs
      by_cases hm : sec.mode = .W
      · have hwt : s.writer = some t := hi.wHolds t (by simp [hpc, Pc.mode, hm])
        have hn := others_none s hi t x hwt hx
        have hnil := ok_none_nil secx (hi.curOk x secx hs) (by rw [← mode_of_sec _ secx hs]; exact hn)
        have := hl.secLoc x secx hs
        rw [hnil] at this ⊢
        simpa [execAccs] using this
      · rw [hnotW hm]; exact hl.secLoc x secx hs
  · intro x; by_cases hx : x = t
    · subst hx; simp [Pc.sec]
    · simp only [upd_other _ hx, seqExec_snoc, seqStep]
      intro secx hs hmx
      by_cases hm : sec.mode = .W
      · have hwt : s.writer = some t := hi.wHolds t (by simp [hpc, Pc.mode, hm])
        have hwx : s.writer = some x := hi.wHolds x (by rw [mode_of_sec _ secx hs]; exact hmx)
        rw [hwt] at hwx
        exact absurd (Option.some.inj hwx).symm hx
      · rw [hnotW hm]; exact hl.secStore x secx hs hmx

theorem lin_leave (σi : S) (li : Tid → L) (prog0 : Tid → List (Sec Λ L S)) (s : State Λ L S) (t : Tid)
    (sec : Sec Λ L S) (hi : Inv s) (hl : Lin σi li prog0 s) (hpc : (s.thr t).pc = .held sec []) :
    Lin σi li prog0 (leave s t sec) := by
  unfold leave
  cases hm : sec.mode with
  | none => exact lin_leave_core σi li prog0 s t sec hi hl hpc s.writer s.readers (fun h => Or.inr h)
  | R => exact lin_leave_core σi li prog0 s t sec hi hl hpc s.writer (s.readers.erase t) (fun h => Or.inr h)
  | W => exact lin_leave_core σi li prog0 s t sec hi hl hpc none s.readers (fun _ => Or.inl hm)

theorem lin_step (σi : S) (li : Tid → L) (prog0 : Tid → List (Sec Λ L S)) (s : State Λ L S) (t : Tid)
    (hi : Inv s) (hl : Lin σi li prog0 s) : Lin σi li prog0 (step s t) := by
  unfold step
  simp only []
  cases hpc : (s.thr t).pc with
  | idle =>
    simp only []
    cases hprog : (s.thr t).prog with
    | nil => exact hl
    | cons sec more => exact lin_enter σi li prog0 s t sec more hi hl hpc hprog
  | held sec rest =>
    cases rest with
    | nil => exact lin_leave σi li prog0 s t sec hi hl hpc
    | cons a rest =>
      simp only []
      have := lin_local σi li prog0 s t hi hl (.inAcc sec a rest) (s.thr t).loc s.store
        (by simp [hpc, Pc.sec]) (by simp [hpc, Pc.sec]) (by simp [hpc, Pc.todo]) (Or.inl rfl)
      simpa using this
  | inAcc sec a rest =>
    simp only []
    apply lin_local σi li prog0 s t hi hl (.held sec rest)
    · simp [hpc, Pc.sec]
    · simp [hpc, Pc.sec]
    · simp [hpc, Pc.todo, execAccs]
    · -- the store changes only if the access is a write, and then `t` is the writer
      cases a with
      | rd m f => left; simp [Acc.apply]
      | wr m f =>
        right
        have hok := hi.pcOk t
        rw [hpc] at hok
        have hp := hok.1
        apply hi.wHolds
        cases hm : sec.mode <;> simp [hm, permits, Acc.kind] at hp
        simp [hpc, Pc.mode, hm]

theorem lin_run (σi : S) (li : Tid → L) (prog0 : Tid → List (Sec Λ L S)) (s : State Λ L S) (sched : List Tid)
    (hi : Inv s) (hl : Lin σi li prog0 s) : Lin σi li prog0 (run s sched) := by
  induction sched generalizing s with
  | nil => exact hl
  | cons t rest ih => exact ih (step s t) (inv_step s t hi) (lin_step σi li prog0 s t hi hl)

/-! progress: under the invariant a stuck state is a finished one -/

theorem enabled_of_inv (s : State Λ L S) (hi : Inv s) (t : Tid)
    (hun : (s.thr t).pc ≠ .idle ∨ (s.thr t).prog ≠ []) :
    ∃ u, enabled s u = true := by
  -- if anybody is inside a section, that thread can move
  by_cases hall : ∀ x, (s.thr x).pc = .idle
  · refine ⟨t, ?_⟩
    have hw : s.writer = none := by
      cases h : s.writer with
      | none => rfl
      | some u => have := hi.wIs u h; simp [hall u, Pc.mode] at this
    have hr : s.readers = [] := by
      cases h : s.readers with
      | nil => rfl
      | cons u r => have := hi.rIs u (by simp [h]); simp [hall u, Pc.mode] at this
    have hp : (s.thr t).prog ≠ [] := by
      rcases hun with h | h
      · exact absurd (hall t) h
      · exact h
    unfold enabled
    rw [hall t]
    cases hprog : (s.thr t).prog with
    | nil => exact absurd hprog hp
    | cons sec more => simp only []; cases hm : sec.mode <;> simp [hw, hr]
  · have ⟨x, hx⟩ := Classical.not_forall.mp hall
    refine ⟨x, ?_⟩
    unfold enabled
    cases hpc : (s.thr x).pc with
    | idle => exact absurd hpc hx
    | held _ _ => rfl
    | inAcc _ _ _ => rfl

end Proofs.RW
