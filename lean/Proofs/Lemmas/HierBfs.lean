import Proofs.Lemmas.HierGraph
/-! C08: the queue loop of `interfaceExtends` — soundness, completeness (closedness invariant), and the
counting lemma that makes `bfsFuel` sufficient on **every** graph (cyclic interface graphs included). -/
namespace Proofs.Hier
open Model.Hier Spec.Hier

theorem ireach_step_isucc {G : Graph} {a b t : Name} (hb : b ∈ isucc G a) (hr : IReach G b t) : IReach G a t := by
  unfold isucc at hb
  split at hb
  · rename_i d hd; exact IReach.step hd hb hr
  · simp at hb

/-- soundness: `true` only if some queued name reaches the target -/
theorem bfs_sound (G : Graph) (t : Name) : ∀ f q vis, bfs G t f q vis = some true → ∃ x ∈ q, IReach G x t := by
  intro f
  induction f with
  | zero =>
    intro q vis h
    cases q with
    | nil => simp [bfs] at h
    | cons n q => simp [bfs] at h
  | succ f ih =>
    intro q vis h
    cases q with
    | nil => simp [bfs] at h
    | cons n q =>
      simp only [bfs] at h
      split at h
      · rename_i hn; exact ⟨n, by simp, hn ▸ IReach.refl _⟩
      · split at h
        · obtain ⟨x, hx, hr⟩ := ih _ _ h; exact ⟨x, by simp [hx], hr⟩
        · split at h
          · obtain ⟨x, hx, hr⟩ := ih _ _ h; exact ⟨x, by simp [hx], hr⟩
          · rename_i p hp
            split at h
            · rename_i hpt
              have := getIface_name hp
              exact ⟨n, by simp, by rw [← this, hpt]; exact IReach.refl _⟩
            · obtain ⟨x, hx, hr⟩ := ih _ _ h
              rcases List.mem_append.1 hx with hx | hx
              · exact ⟨x, by simp [hx], hr⟩
              · exact ⟨n, by simp, IReach.step hp hx hr⟩

/-- visited names are not the target and their successors are visited or queued -/
def Closed (G : Graph) (t : Name) (q vis : List Name) : Prop :=
  ∀ v ∈ vis, v ≠ t ∧ ∀ w ∈ isucc G v, w ∈ vis ∨ w ∈ q

theorem closed_final {G : Graph} {t : Name} {vis : List Name} (hc : Closed G t [] vis) :
    ∀ x y, IReach G x y → x ∈ vis → y ∈ vis := by
  intro x y hr
  induction hr with
  | refl a => exact id
  | @step i j k d hd hj _ ih =>
    intro hx
    have hjs : j ∈ isucc G i := by unfold isucc; rw [hd]; exact hj
    rcases (hc _ hx).2 _ hjs with h | h
    · exact ih h
    · simp at h

/-- completeness: `false` means nothing queued or visited reaches the target -/
theorem bfs_complete (G : Graph) (t : Name) : ∀ f q vis, bfs G t f q vis = some false → Closed G t q vis →
    ∀ x, x ∈ q ∨ x ∈ vis → ¬ IReach G x t := by
  intro f
  induction f with
  | zero =>
    intro q vis h hc x hx hr
    cases q with
    | nil =>
      have hxv : x ∈ vis := by simpa using hx
      exact (hc _ (closed_final hc _ _ hr hxv)).1 rfl
    | cons n q => simp [bfs] at h
  | succ f ih =>
    intro q vis h hc x hx hr
    cases q with
    | nil =>
      have hxv : x ∈ vis := by simpa using hx
      exact (hc _ (closed_final hc _ _ hr hxv)).1 rfl
    | cons n q =>
      simp only [bfs] at h
      split at h
      · cases h
      · rename_i hnt
        split at h
        · rename_i hv
          have hc' : Closed G t q vis := by
            intro v hvv
            refine ⟨(hc v hvv).1, fun w hw => ?_⟩
            rcases (hc v hvv).2 w hw with h1 | h1
            · exact Or.inl h1
            · rcases List.mem_cons.1 h1 with rfl | h2
              · exact Or.inl hv
              · exact Or.inr h2
          refine ih _ _ h hc' x ?_ hr
          rcases hx with hx | hx
          · rcases List.mem_cons.1 hx with rfl | hx
            · exact Or.inr hv
            · exact Or.inl hx
          · exact Or.inr hx
        · split at h
          · -- unregistered name: nothing to expand
            rename_i hnone
            have hc' : Closed G t q (n :: vis) := by
              intro v hvv
              rcases List.mem_cons.1 hvv with rfl | hvv
              · refine ⟨hnt, fun w hw => ?_⟩
                unfold isucc at hw; rw [hnone] at hw; simp at hw
              · refine ⟨(hc v hvv).1, fun w hw => ?_⟩
                rcases (hc v hvv).2 w hw with h1 | h1
                · exact Or.inl (List.mem_cons_of_mem _ h1)
                · rcases List.mem_cons.1 h1 with rfl | h2
                  · exact Or.inl (by simp)
                  · exact Or.inr h2
            refine ih _ _ h hc' x ?_ hr
            rcases hx with hx | hx
            · rcases List.mem_cons.1 hx with rfl | hx
              · exact Or.inr (by simp)
              · exact Or.inl hx
            · exact Or.inr (List.mem_cons_of_mem _ hx)
          · rename_i p hp
            split at h
            · cases h
            · have hc' : Closed G t (q ++ p.ext) (n :: vis) := by
                intro v hvv
                rcases List.mem_cons.1 hvv with rfl | hvv
                · refine ⟨hnt, fun w hw => ?_⟩
                  unfold isucc at hw; rw [hp] at hw
                  exact Or.inr (List.mem_append.2 (Or.inr hw))
                · refine ⟨(hc v hvv).1, fun w hw => ?_⟩
                  rcases (hc v hvv).2 w hw with h1 | h1
                  · exact Or.inl (List.mem_cons_of_mem _ h1)
                  · rcases List.mem_cons.1 h1 with rfl | h2
                    · exact Or.inl (by simp)
                    · exact Or.inr (List.mem_append.2 (Or.inl h2))
              refine ih _ _ h hc' x ?_ hr
              rcases hx with hx | hx
              · rcases List.mem_cons.1 hx with rfl | hx
                · exact Or.inr (by simp)
                · exact Or.inl (List.mem_append.2 (Or.inl hx))
              · exact Or.inr (List.mem_cons_of_mem _ hx)

/-! ### fuel: every interface is expanded at most once -/

/-- total length of the extends lists of the interfaces not yet visited -/
def rem (vis : List Name) : List Ifc → Nat
  | [] => 0
  | i :: r => (if i.name ∈ vis then 0 else i.ext.length) + rem vis r

theorem rem_le_total (vis : List Name) : ∀ l : List Ifc, rem vis l ≤ extTotal l := by
  intro l
  induction l with
  | nil => simp [rem, extTotal]
  | cons i r ih =>
    simp only [rem, extTotal]
    split <;> omega

theorem rem_mono (n : Name) (vis : List Name) : ∀ l : List Ifc, rem (n :: vis) l ≤ rem vis l := by
  intro l
  induction l with
  | nil => simp [rem]
  | cons i r ih =>
    simp only [rem]
    by_cases h : i.name ∈ vis
    · have : i.name ∈ n :: vis := List.mem_cons_of_mem _ h
      simp [h, this]; exact ih
    · by_cases h2 : i.name ∈ n :: vis
      · simp [h, h2]; omega
      · simp [h, h2]; exact ih

theorem rem_visit (n : Name) (vis : List Name) (hn : n ∉ vis) : ∀ (l : List Ifc) (p : Ifc),
    p ∈ l → p.name = n → rem (n :: vis) l + p.ext.length ≤ rem vis l := by
  intro l
  induction l with
  | nil => intro p hp; simp at hp
  | cons i r ih =>
    intro p hp hpn
    simp only [rem]
    rcases List.mem_cons.1 hp with rfl | hp
    · have h1 : p.name ∈ n :: vis := by rw [hpn]; simp
      have h2 : p.name ∉ vis := by rw [hpn]; exact hn
      have := rem_mono n vis r
      simp [h1, h2]; omega
    · have := ih p hp hpn
      have hm : (if i.name ∈ n :: vis then 0 else i.ext.length) ≤ (if i.name ∈ vis then 0 else i.ext.length) := by
        by_cases h : i.name ∈ vis
        · have : i.name ∈ n :: vis := List.mem_cons_of_mem _ h
          simp [h, this]
        · by_cases h2 : i.name ∈ n :: vis <;> simp [h, h2]
      omega

/-- the loop never runs out of fuel when `fuel > |queue| + (extends entries of unvisited interfaces)` -/
theorem bfs_fuel (G : Graph) (t : Name) : ∀ f q vis, q.length + rem vis G.ifaces < f → bfs G t f q vis ≠ none := by
  intro f
  induction f with
  | zero => intro q vis h; omega
  | succ f ih =>
    intro q vis h
    cases q with
    | nil => simp [bfs]
    | cons n q =>
      simp only [bfs]
      simp only [List.length_cons] at h
      split
      · simp
      · split
        · exact ih _ _ (by omega)
        · rename_i hv
          split
          · have := rem_mono n vis G.ifaces
            exact ih _ _ (by omega)
          · rename_i p hp
            split
            · simp
            · have := rem_visit n vis hv G.ifaces p (getIface_mem hp) (getIface_name hp)
              exact ih _ _ (by simp only [List.length_append]; omega)

theorem ext_le_total : ∀ (l : List Ifc) (i : Ifc), i ∈ l → i.ext.length ≤ extTotal l := by
  intro l
  induction l with
  | nil => intro i hi; simp at hi
  | cons a r ih =>
    intro i hi
    simp only [extTotal]
    rcases List.mem_cons.1 hi with rfl | hi
    · omega
    · have := ih i hi; omega

/-- `interfaceExtends` always answers, and its answer is reachability in the interface graph — on every graph -/
theorem interfaceExtends_spec (G : Graph) (s t : Name) :
    ∃ b, interfaceExtends G s t = some b ∧ (b = true ↔ IReach G s t) := by
  unfold interfaceExtends
  split
  · rename_i h; exact ⟨true, rfl, by simp [h, IReach.refl]⟩
  · rename_i hst
    split
    · rename_i hnone
      refine ⟨false, rfl, ?_⟩
      simp only [Bool.false_eq_true, false_iff]
      intro hr
      cases hr with
      | refl => exact hst rfl
      | step hd _ _ => rw [hnone] at hd; cases hd
    · rename_i i hi
      split
      · rename_i hit
        have := getIface_name hi
        exact absurd (this.symm.trans hit) hst
      · have hf : bfs G t (bfsFuel G) i.ext [] ≠ none := by
          apply bfs_fuel
          have h1 := ext_le_total G.ifaces i (getIface_mem hi)
          have h2 := rem_le_total [] G.ifaces
          unfold bfsFuel; omega
        cases hb : bfs G t (bfsFuel G) i.ext [] with
        | none => exact absurd hb hf
        | some b =>
          refine ⟨b, rfl, ?_⟩
          cases b with
          | true =>
            simp only [true_iff]
            obtain ⟨x, hx, hr⟩ := bfs_sound G t _ _ _ hb
            exact IReach.step hi hx hr
          | false =>
            simp only [Bool.false_eq_true, false_iff]
            intro hr
            cases hr with
            | refl => exact hst rfl
            | step hd hj hr' =>
              rw [hi] at hd; cases hd
              exact bfs_complete G t _ _ _ hb (by intro v hv; simp at hv) _ (Or.inl hj) hr'

end Proofs.Hier
