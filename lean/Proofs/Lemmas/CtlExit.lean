import Spec.Ctl
import Spec.CtlFrag
set_option linter.unusedSimpArgs false
set_option linter.unusedVariables false
/-! Exit targets in the reference semantics: a `break n` / `continue n` written under `d` enclosing
loops or switches never leaves more than `n` of them, and leaves none when `n ≤ d`. -/
namespace Proofs.Ctl
open Spec.Ctl

def ResLe (k : Nat) (r : Res Out) : Prop := ∀ o s, r = .ok o s → OutLe k o

theorem resLe_bind {α : Type} {k : Nat} (r : Res α) (g : α → St → Res Out) (h : ∀ a s, ResLe k (g a s)) :
    ResLe k (r.bind g) := by
  cases r with
  | ok a s => exact h a s
  | err s => intro o s' e; cases e
  | timeout => intro o s' e; cases e

theorem resLe_timeout (k : Nat) : ResLe k .timeout := by intro o s e; cases e
theorem resLe_err (k : Nat) (s : St) : ResLe k (.err s) := by intro o s' e; cases e
theorem resLe_ok {k : Nat} {o : Out} (s : St) (h : OutLe k o) : ResLe k (.ok o s) := by
  intro o' s' e; cases e; exact h

/-- a loop turns a body outcome that leaves at most `k+1` constructs into one that leaves at most `k` -/
theorem loopStep_le {k : Nat} {o : Out} (h : OutLe (k+1) o) :
    match loopStep o with
    | .next => True
    | .exit o' => OutLe k o'
    | .bad => True := by
  cases o with
  | normal => simp [loopStep]
  | ret v => simp [loopStep, OutLe]
  | brk m =>
    cases m with
    | zero => simp [loopStep]
    | succ m => cases m with
      | zero => simp [loopStep, OutLe]
      | succ m => simp only [loopStep, OutLe] at h ⊢; omega
  | cont m =>
    cases m with
    | zero => simp [loopStep]
    | succ m => cases m with
      | zero => simp [loopStep]
      | succ m => simp only [loopStep, OutLe] at h ⊢; omega

theorem switchStep_le {k : Nat} {o : Out} (h : OutLe (k+1) o) :
    match switchStep o with
    | .next => True
    | .exit o' => OutLe k o'
    | .bad => True := by
  cases o with
  | normal => simp [switchStep]
  | ret v => simp [switchStep, OutLe]
  | brk m =>
    cases m with
    | zero => simp [switchStep]
    | succ m => cases m with
      | zero => simp [switchStep, OutLe]
      | succ m => simp only [switchStep, OutLe] at h ⊢; omega
  | cont m =>
    cases m with
    | zero => simp [switchStep]
    | succ m => cases m with
      | zero => simp [switchStep, OutLe]
      | succ m => simp only [switchStep, OutLe] at h ⊢; omega

structure ExitAt (funs : List FunDecl) (f : Nat) : Prop where
  execS : ∀ k cur st s, closedS k st = true → ResLe k (execS funs f cur st s)
  execB : ∀ k cur b s, closedB k b = true → ResLe k (execB funs f cur b s)
  execElifs : ∀ k cur el els s, closedElifs k el = true → closedB k els = true →
    ResLe k (execElifs funs f cur el els s)
  execWhile : ∀ k cur c b s, closedB (k+1) b = true → ResLe k (execWhile funs f cur c b s)
  execDo : ∀ k cur b c s, closedB (k+1) b = true → ResLe k (execDo funs f cur b c s)
  execFor : ∀ k cur c incs b s, closedB (k+1) b = true → ResLe k (execFor funs f cur c incs b s)
  execForeach : ∀ k cur kv v b l i s, closedB (k+1) b = true → ResLe k (execForeach funs f cur kv v b l i s)
  execSwitch : ∀ k cur v cs d s, closedCases (k+1) cs = true → closedB (k+1) d = true →
    ResLe k (execSwitch funs f cur v cs d s)
  runBodies : ∀ k cur cs d s, closedCases (k+1) cs = true → closedB (k+1) d = true →
    ResLe k (runBodies funs f cur cs d s)

theorem exitAt_zero (funs : List FunDecl) : ExitAt funs 0 := by
  constructor <;> intros <;>
    simp only [Spec.Ctl.execS, Spec.Ctl.execB, Spec.Ctl.execElifs, Spec.Ctl.execWhile, Spec.Ctl.execDo,
      Spec.Ctl.execFor, Spec.Ctl.execForeach, Spec.Ctl.execSwitch, Spec.Ctl.runBodies] <;>
    exact resLe_timeout _

/-- what a loop does after its body: common to the four loops -/
theorem after_loop {k : Nat} {r : Res Out} (hb : ResLe (k+1) r) (again : St → Res Out)
    (hagain : ∀ s, ResLe k (again s)) :
    ResLe k (r.bind fun o s2 =>
      match loopStep o with
      | .next => again s2
      | .exit o' => .ok o' s2
      | .bad => .err s2) := by
  cases r with
  | timeout => exact resLe_timeout _
  | err s => exact resLe_err _ _
  | ok o s =>
    have h := loopStep_le (hb o s rfl)
    simp only [Res.bind]
    cases hs : loopStep o with
    | next => exact hagain s
    | exit o' => rw [hs] at h; exact resLe_ok s h
    | bad => exact resLe_err _ _

theorem exitAt_succ {funs : List FunDecl} {f : Nat} (ih : ExitAt funs f) : ExitAt funs (f+1) where
  execS := by
    intro k cur st s hcl
    cases st with
    | echo es =>
      simp only [Spec.Ctl.execS]
      -- echo never yields brk/cont
      have : ∀ (f : Nat) (es : Args) (s : St), ResLe k (echoArgs funs f cur es s) := by
        intro f
        induction f with
        | zero => intro es s; simp only [echoArgs]; exact resLe_timeout _
        | succ f ihf =>
          intro es s
          cases es with
          | nil => simp only [echoArgs]; exact resLe_ok _ True.intro
          | cons e rest => simp only [echoArgs]; exact resLe_bind _ _ (fun v s1 => ihf rest _)
      exact this f es s
    | expr e => simp only [Spec.Ctl.execS]; exact resLe_bind _ _ (fun _ s1 => resLe_ok _ True.intro)
    | ite c t elifs els =>
      simp only [closedS, Bool.and_eq_true] at hcl
      simp only [Spec.Ctl.execS]
      refine resLe_bind _ _ (fun vc s1 => ?_)
      split
      · exact ih.execB k cur t s1 hcl.1
      · exact ih.execElifs k cur elifs els s1 hcl.2.1 hcl.2.2
    | while_ c b => simp only [closedS] at hcl; simp only [Spec.Ctl.execS]; exact ih.execWhile k cur c b s hcl
    | doWhile b c => simp only [closedS] at hcl; simp only [Spec.Ctl.execS]; exact ih.execDo k cur b c s hcl
    | for_ inits cond incs b =>
      simp only [closedS] at hcl
      simp only [Spec.Ctl.execS]
      exact resLe_bind _ _ (fun _ s1 => ih.execFor k cur cond incs b s1 hcl)
    | foreach e kv v b =>
      simp only [closedS] at hcl
      simp only [Spec.Ctl.execS]
      refine resLe_bind _ _ (fun ve s1 => ?_)
      split
      · exact ih.execForeach k cur kv v b _ 0 s1 hcl
      · exact resLe_ok _ True.intro
      · exact resLe_err _ _
    | switch e cases dflt =>
      simp only [closedS, Bool.and_eq_true] at hcl
      simp only [Spec.Ctl.execS]
      exact resLe_bind _ _ (fun v s1 => ih.execSwitch k cur v cases dflt s1 hcl.1 hcl.2)
    | brk n =>
      simp only [closedS, Bool.and_eq_true, decide_eq_true_eq] at hcl
      simp only [Spec.Ctl.execS]
      split
      · exact resLe_err _ _
      · exact resLe_ok _ hcl
    | cont n =>
      simp only [closedS, Bool.and_eq_true, decide_eq_true_eq] at hcl
      simp only [Spec.Ctl.execS]
      split
      · exact resLe_err _ _
      · exact resLe_ok _ hcl
    | ret e =>
      cases e with
      | none => simp only [Spec.Ctl.execS]; exact resLe_ok _ True.intro
      | some e => simp only [Spec.Ctl.execS]; exact resLe_bind _ _ (fun v s1 => resLe_ok _ True.intro)
  execB := by
    intro k cur b s hcl
    cases b with
    | nil => simp only [Spec.Ctl.execB]; exact resLe_ok _ True.intro
    | cons st rest =>
      simp only [closedB, Bool.and_eq_true] at hcl
      simp only [Spec.Ctl.execB]
      have hst := ih.execS k cur st s hcl.1
      cases hr : Spec.Ctl.execS funs f cur st s with
      | timeout => exact resLe_timeout _
      | err s1 => exact resLe_err _ _
      | ok o s1 =>
        simp only [Res.bind]
        cases o with
        | normal => exact ih.execB k cur rest s1 hcl.2
        | brk m => exact resLe_ok _ (hst _ _ hr)
        | cont m => exact resLe_ok _ (hst _ _ hr)
        | ret v => exact resLe_ok _ True.intro
  execElifs := by
    intro k cur el els s h1 h2
    cases el with
    | nil => simp only [Spec.Ctl.execElifs]; exact ih.execB k cur els s h2
    | cons c b rest =>
      simp only [closedElifs, Bool.and_eq_true] at h1
      simp only [Spec.Ctl.execElifs]
      refine resLe_bind _ _ (fun vc s1 => ?_)
      split
      · exact ih.execB k cur b s1 h1.1
      · exact ih.execElifs k cur rest els s1 h1.2 h2
  execWhile := by
    intro k cur c b s hcl
    simp only [Spec.Ctl.execWhile]
    refine resLe_bind _ _ (fun vc s1 => ?_)
    split
    · exact after_loop (ih.execB (k+1) cur b s1 hcl) _ (fun s2 => ih.execWhile k cur c b s2 hcl)
    · exact resLe_ok _ True.intro
  execDo := by
    intro k cur b c s hcl
    simp only [Spec.Ctl.execDo]
    refine after_loop (ih.execB (k+1) cur b s hcl) _ (fun s1 => ?_)
    refine resLe_bind _ _ (fun vc s2 => ?_)
    split
    · exact ih.execDo k cur b c s2 hcl
    · exact resLe_ok _ True.intro
  execFor := by
    intro k cur c incs b s hcl
    simp only [Spec.Ctl.execFor]
    refine resLe_bind _ _ (fun vc s1 => ?_)
    split
    · exact after_loop (ih.execB (k+1) cur b s1 hcl) _
        (fun s2 => resLe_bind _ _ (fun _ s3 => ih.execFor k cur c incs b s3 hcl))
    · exact resLe_ok _ True.intro
  execForeach := by
    intro k cur kv v b l i s hcl
    cases l with
    | nil => simp only [Spec.Ctl.execForeach]; exact resLe_ok _ True.intro
    | cons x xs =>
      simp only [Spec.Ctl.execForeach]
      exact after_loop (ih.execB (k+1) cur b _ hcl) _ (fun s3 => ih.execForeach k cur kv v b xs (i+1) s3 hcl)
  execSwitch := by
    intro k cur v cs d s h1 h2
    cases cs with
    | nil => simp only [Spec.Ctl.execSwitch]; exact ih.runBodies k cur .nil d s h1 h2
    | cons lbl b rest =>
      have h1' := h1
      simp only [closedCases, Bool.and_eq_true] at h1
      simp only [Spec.Ctl.execSwitch]
      refine resLe_bind _ _ (fun vl s1 => ?_)
      split
      · exact ih.runBodies k cur _ d s1 h1' h2
      · exact ih.execSwitch k cur v rest d s1 h1.2 h2
  runBodies := by
    intro k cur cs d s h1 h2
    have tail : ∀ (r : Res Out) (again : St → Res Out), ResLe (k+1) r → (∀ s, ResLe k (again s)) →
        ResLe k (r.bind fun o s1 =>
          match switchStep o with
          | .next => again s1
          | .exit o' => .ok o' s1
          | .bad => .err s1) := by
      intro r again hb hagain
      cases r with
      | timeout => exact resLe_timeout _
      | err s => exact resLe_err _ _
      | ok o s =>
        have h := switchStep_le (hb o s rfl)
        simp only [Res.bind]
        cases hs : switchStep o with
        | next => exact hagain s
        | exit o' => rw [hs] at h; exact resLe_ok s h
        | bad => exact resLe_err _ _
    cases cs with
    | nil =>
      simp only [Spec.Ctl.runBodies]
      exact tail _ (fun s1 => .ok .normal s1) (ih.execB (k+1) cur d s h2) (fun s1 => resLe_ok _ True.intro)
    | cons lbl b rest =>
      simp only [closedCases, Bool.and_eq_true] at h1
      simp only [Spec.Ctl.runBodies]
      exact tail _ _ (ih.execB (k+1) cur b s h1.1) (fun s1 => ih.runBodies k cur rest d s1 h1.2 h2)

theorem exitAt (funs : List FunDecl) : ∀ f, ExitAt funs f
  | 0 => exitAt_zero funs
  | f+1 => exitAt_succ (exitAt funs f)

end Proofs.Ctl
