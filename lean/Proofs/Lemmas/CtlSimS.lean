import Proofs.Lemmas.CtlSimCall
set_option linter.unusedSimpArgs false
set_option linter.unusedVariables false
/-! Simulation, statement level: blocks, `if`, the four loops, `switch`. -/
namespace Proofs.Ctl
open Spec.Ctl Model.Ctl

variable {funs : List FunDecl}

/-- the six ways a reference outcome and a model result can agree -/
theorem relO_cases {sc cur} {r : Res Out} {mr : MRes Val} (h : RelO funs sc cur r mr) {P : Prop}
    (htime : r = .timeout → P)
    (hnormal : ∀ s v m, r = .ok .normal s → mr = .ok v m → Rel funs sc cur s m → P)
    (hbrk : ∀ s l m, r = .ok (.brk 1) s → mr = .ctl (.brk l) m → Rel funs sc cur s m → P)
    (hcont : ∀ s m, r = .ok (.cont 1) s → mr = .ctl .cont m → Rel funs sc cur s m → P)
    (hret : ∀ s v m, r = .ok (.ret v) s → mr = .ctl (.ret v) m → Rel funs sc cur s m → P)
    (herr : ∀ s m, r = .err s → mr = .ctl .thr m → Rel funs sc cur s m → P) : P := by
  cases r with
  | timeout => exact htime rfl
  | err s =>
    cases mr with
    | ok v m => exact h.elim
    | timeout => exact h.elim
    | ctl c m => cases c <;> first | exact h.elim | exact herr _ _ rfl rfl h
  | ok o s =>
    cases o with
    | normal =>
      cases mr with
      | ok v m => exact hnormal _ _ _ rfl rfl h
      | timeout => exact h.elim
      | ctl c m => exact h.elim
    | ret v =>
      cases mr with
      | ok v m => exact h.elim
      | timeout => exact h.elim
      | ctl c m =>
        cases c <;> first | exact h.elim | (obtain ⟨e, h⟩ := h; subst e; exact hret _ _ _ rfl rfl h)
    | brk n =>
      cases n with
      | zero => cases mr with | ok v m => exact h.elim | timeout => exact h.elim | ctl c m => cases c <;> exact h.elim
      | succ n =>
        cases n with
        | succ n => cases mr with | ok v m => exact h.elim | timeout => exact h.elim | ctl c m => cases c <;> exact h.elim
        | zero =>
          cases mr with
          | ok v m => exact h.elim
          | timeout => exact h.elim
          | ctl c m => cases c <;> first | exact h.elim | exact hbrk _ _ _ rfl rfl h
    | cont n =>
      cases n with
      | zero => cases mr with | ok v m => exact h.elim | timeout => exact h.elim | ctl c m => cases c <;> exact h.elim
      | succ n =>
        cases n with
        | succ n => cases mr with | ok v m => exact h.elim | timeout => exact h.elim | ctl c m => cases c <;> exact h.elim
        | zero =>
          cases mr with
          | ok v m => exact h.elim
          | timeout => exact h.elim
          | ctl c m => cases c <;> first | exact h.elim | exact hcont _ _ rfl rfl h

theorem relO_of_relV {sc cur} {r : Res Val} {mr : MRes Val} (h : RelV funs sc cur r mr) :
    RelO funs sc cur (r.bind fun _ s1 => .ok .normal s1) mr := by
  cases r with
  | timeout => exact relO_timeout _
  | ok a s =>
    cases mr with
    | ok b m => exact h.2
    | ctl c m => exact h.elim
    | timeout => exact h.elim
  | err s =>
    cases mr with
    | ok b m => exact h.elim
    | ctl c m => cases c <;> first | exact h.elim | exact h
    | timeout => exact h.elim

theorem simB_step {f : Nat} (ih : SimAt funs f) (sc : List Var) (cur : Cur) (b : Block) (v0 : Val)
    (s : St) (m : MSt) (hc : CtxOK funs sc cur) (hr : Rel funs sc cur s m)
    (cb : Covers sc (varsB b)) (gb : goodB funs b = true) :
    RelO funs sc cur (execB funs (f+1) cur b s) (execMB (mfuns funs) (f+1) (compB sc b) v0 m) := by
  cases b with
  | nil => simp only [execB, compB, execMB]; exact hr
  | cons st rest =>
    simp only [varsB] at cb
    simp only [goodB, Bool.and_eq_true] at gb
    simp only [execB, compB, execMB]
    apply relO_cases (ih.execS sc cur st s m hc hr cb.left gb.1)
    · intro h; rw [h]; exact relO_timeout _
    · intro s1 v m1 h1 h2 hr1
      rw [h1, h2]
      exact ih.execB sc cur rest v s1 m1 hc hr1 cb.right gb.2
    · intro s1 l m1 h1 h2 hr1; rw [h1, h2]; exact hr1
    · intro s1 m1 h1 h2 hr1; rw [h1, h2]; exact hr1
    · intro s1 v m1 h1 h2 hr1; rw [h1, h2]; exact ⟨rfl, hr1⟩
    · intro s1 m1 h1 h2 hr1; rw [h1, h2]; exact hr1

theorem simElifs_step {f : Nat} (ih : SimAt funs f) (sc : List Var) (cur : Cur) (el : ElseIfs) (els : Block)
    (s : St) (m : MSt) (hc : CtxOK funs sc cur) (hr : Rel funs sc cur s m)
    (ce : Covers sc (varsElifs el)) (cb : Covers sc (varsB els))
    (ge : goodElifs funs el = true) (gb : goodB funs els = true) :
    RelO funs sc cur (execElifs funs (f+1) cur el els s)
      (elifsM (mfuns funs) (f+1) (compElifs sc el) (compB sc els) m) := by
  cases el with
  | nil =>
    simp only [execElifs, compElifs, elifsM]
    exact ih.execB sc cur els .null s m hc hr cb gb
  | cons c b rest =>
    simp only [varsElifs] at ce
    simp only [goodElifs, Bool.and_eq_true] at ge
    simp only [execElifs, compElifs, elifsM]
    refine relRO_bind (ih.evalE sc cur c s m hc hr ce.left ge.1) ?_
    intro v v' s1 m1 e1 h1
    subst e1
    cases v.truthy with
    | true => exact ih.execB sc cur b .null s1 m1 hc h1 ce.right.left ge.2.1
    | false => exact ih.elifs sc cur rest els s1 m1 hc h1 ce.right.right cb ge.2.2 gb

theorem simWhile_step {f : Nat} (ih : SimAt funs f) (sc : List Var) (cur : Cur) (c : Expr) (b : Block) (v0 : Val)
    (s : St) (m : MSt) (hc : CtxOK funs sc cur) (hr : Rel funs sc cur s m)
    (cc : Covers sc (varsE c)) (cb : Covers sc (varsB b)) (gc : goodE funs c = true) (gb : goodB funs b = true) :
    RelO funs sc cur (execWhile funs (f+1) cur c b s)
      (whileM (mfuns funs) (f+1) (compE sc c) (compB sc b) v0 m) := by
  simp only [execWhile, whileM]
  refine relRO_bind (ih.evalE sc cur c s m hc hr cc gc) ?_
  intro v v' s1 m1 e1 h1
  subst e1
  cases v.truthy with
  | false => exact h1
  | true =>
    simp only [if_true]
    apply relO_cases (ih.execB sc cur b v0 s1 m1 hc h1 cb gb)
    · intro h; rw [h]; exact relO_timeout _
    · intro s2 v2 m2 e1 e2 h2
      rw [e1, e2]
      exact ih.while_ sc cur c b v2 s2 m2 hc h2 cc cb gc gb
    · intro s2 l m2 e1 e2 h2; rw [e1, e2]; exact h2
    · intro s2 m2 e1 e2 h2
      rw [e1, e2]
      exact ih.while_ sc cur c b .null s2 m2 hc h2 cc cb gc gb
    · intro s2 v2 m2 e1 e2 h2; rw [e1, e2]; exact ⟨rfl, h2⟩
    · intro s2 m2 e1 e2 h2; rw [e1, e2]; exact h2

theorem simDo_step {f : Nat} (ih : SimAt funs f) (sc : List Var) (cur : Cur) (b : Block) (c : Expr) (v0 : Val)
    (s : St) (m : MSt) (hc : CtxOK funs sc cur) (hr : Rel funs sc cur s m)
    (cc : Covers sc (varsE c)) (cb : Covers sc (varsB b)) (gc : goodE funs c = true) (gb : goodB funs b = true) :
    RelO funs sc cur (execDo funs (f+1) cur b c s)
      (doM (mfuns funs) (f+1) (compB sc b) (compE sc c) v0 m) := by
  simp only [execDo, doM]
  have again : ∀ (v' : Val) (s1 : St) (m1 : MSt), Rel funs sc cur s1 m1 →
      RelO funs sc cur
        ((evalE funs f cur c s1).bind fun vc s2 => if vc.truthy = true then execDo funs f cur b c s2 else .ok .normal s2)
        ((evalM (mfuns funs) f (compE sc c) m1).bind fun vc s2 =>
          if vc.truthy = true then doM (mfuns funs) f (compB sc b) (compE sc c) v' s2 else .ok v' s2) := by
    intro v' s1 m1 h1
    refine relRO_bind (ih.evalE sc cur c s1 m1 hc h1 cc gc) ?_
    intro v v2 s2 m2 e1 h2
    subst e1
    cases v.truthy with
    | false => exact h2
    | true => exact ih.do_ sc cur b c v' s2 m2 hc h2 cc cb gc gb
  apply relO_cases (ih.execB sc cur b v0 s m hc hr cb gb)
  · intro h; rw [h]; exact relO_timeout _
  · intro s1 v1 m1 e1 e2 h1
    rw [e1, e2]
    exact again v1 s1 m1 h1
  · intro s1 l m1 e1 e2 h1; rw [e1, e2]; exact h1
  · intro s1 m1 e1 e2 h1
    rw [e1, e2]
    exact again .null s1 m1 h1
  · intro s1 v1 m1 e1 e2 h1; rw [e1, e2]; exact ⟨rfl, h1⟩
  · intro s1 m1 e1 e2 h1; rw [e1, e2]; exact h1

theorem simFor_step {f : Nat} (ih : SimAt funs f) (sc : List Var) (cur : Cur) (c : Expr) (incs : Args) (b : Block)
    (v0 : Val) (s : St) (m : MSt) (hc : CtxOK funs sc cur) (hr : Rel funs sc cur s m)
    (cc : Covers sc (varsE c)) (ci : Covers sc (varsArgs incs)) (cb : Covers sc (varsB b))
    (gc : goodE funs c = true) (gi : goodArgs funs incs = true) (gb : goodB funs b = true) :
    RelO funs sc cur (execFor funs (f+1) cur c incs b s)
      (forM (mfuns funs) (f+1) (compE sc c) (mapIncs (compArgs sc incs)) (compB sc b) v0 m) := by
  simp only [execFor, Model.Ctl.forM]
  refine relRO_bind (ih.evalE sc cur c s m hc hr cc gc) ?_
  intro v v' s1 m1 e1 h1
  subst e1
  cases v.truthy with
  | false => exact h1
  | true =>
    simp only [if_true]
    have again : ∀ (v' : Val) (s2 : St) (m2 : MSt), Rel funs sc cur s2 m2 →
        RelO funs sc cur
          ((evalDiscard funs f cur incs s2).bind fun _ s3 => execFor funs f cur c incs b s3)
          ((discardM (mfuns funs) f (mapIncs (compArgs sc incs)) m2).bind fun _ s3 =>
            forM (mfuns funs) f (compE sc c) (mapIncs (compArgs sc incs)) (compB sc b) v' s3) := by
      intro v' s2 m2 h2
      refine relRO_bind (ih.discardIncs sc cur incs s2 m2 hc h2 ci gi) ?_
      intro _ _ s3 m3 _ h3
      exact ih.for_ sc cur c incs b v' s3 m3 hc h3 cc ci cb gc gi gb
    apply relO_cases (ih.execB sc cur b v0 s1 m1 hc h1 cb gb)
    · intro h; rw [h]; exact relO_timeout _
    · intro s2 v2 m2 e1 e2 h2
      rw [e1, e2]
      exact again v2 s2 m2 h2
    · intro s2 l m2 e1 e2 h2; rw [e1, e2]; exact h2
    · intro s2 m2 e1 e2 h2
      rw [e1, e2]
      exact again .null s2 m2 h2
    · intro s2 v2 m2 e1 e2 h2; rw [e1, e2]; exact ⟨rfl, h2⟩
    · intro s2 m2 e1 e2 h2; rw [e1, e2]; exact h2

theorem simForeach_step {f : Nat} (ih : SimAt funs f) (sc : List Var) (cur : Cur) (k : Option Var) (v : Var)
    (b : Block) (l : List Int) (i : Nat) (v0 : Val) (s : St) (m : MSt)
    (hc : CtxOK funs sc cur) (hr : Rel funs sc cur s m)
    (hk : ∀ kv, k = some kv → kv ∈ sc) (hv : v ∈ sc) (cb : Covers sc (varsB b)) (gb : goodB funs b = true) :
    RelO funs sc cur (execForeach funs (f+1) cur k v b l i s)
      (foreachM (mfuns funs) (f+1) (k.map (idx sc)) (idx sc v) (compB sc b) l i v0 m) := by
  cases l with
  | nil => simp only [execForeach, foreachM]; exact hr
  | cons x xs =>
    obtain ⟨m1, hm1, h1⟩ := rel_write hr hc hv (.int x)
    have tail : ∀ (s2 : St) (m2 : MSt), Rel funs sc cur s2 m2 →
        RelO funs sc cur
          ((execB funs f cur b s2).bind fun o s3 =>
            match loopStep o with
            | Step.next => execForeach funs f cur k v b xs (i + 1) s3
            | Step.exit o' => Res.ok o' s3
            | Step.bad => Res.err s3)
          (match execMB (mfuns funs) f (compB sc b) v0 m2 with
            | MRes.ok v' s3 => foreachM (mfuns funs) f (Option.map (idx sc) k) (idx sc v) (compB sc b) xs (i + 1) v' s3
            | MRes.ctl (Ctl.brk _) s3 => MRes.ok Val.null s3
            | MRes.ctl Ctl.cont s3 =>
              foreachM (mfuns funs) f (Option.map (idx sc) k) (idx sc v) (compB sc b) xs (i + 1) Val.null s3
            | r => r) := by
      intro s2 m2 h2
      apply relO_cases (ih.execB sc cur b v0 s2 m2 hc h2 cb gb)
      · intro h; rw [h]; exact relO_timeout _
      · intro s3 v3 m3 e1 e2 h3
        rw [e1, e2]
        exact ih.foreach sc cur k v b xs (i+1) v3 s3 m3 hc h3 hk hv cb gb
      · intro s3 l m3 e1 e2 h3; rw [e1, e2]; exact h3
      · intro s3 m3 e1 e2 h3
        rw [e1, e2]
        exact ih.foreach sc cur k v b xs (i+1) .null s3 m3 hc h3 hk hv cb gb
      · intro s3 v3 m3 e1 e2 h3; rw [e1, e2]; exact ⟨rfl, h3⟩
      · intro s3 m3 e1 e2 h3; rw [e1, e2]; exact h3
    cases k with
    | none =>
      simp only [execForeach, foreachM, Option.map, assignTo, hm1, MRes.bind]
      exact tail _ _ h1
    | some kv =>
      obtain ⟨m2, hm2, h2⟩ := rel_write h1 hc (hk kv rfl) (.int i)
      simp only [execForeach, foreachM, Option.map, assignTo, hm1, MRes.bind, hm2, Option.getD]
      exact tail _ _ h2

theorem simRunBodies_step {f : Nat} (ih : SimAt funs f) (sc : List Var) (cur : Cur) (cs : Cases) (d : Block)
    (s : St) (m : MSt) (hc : CtxOK funs sc cur) (hr : Rel funs sc cur s m)
    (cc : Covers sc (varsCases cs)) (cd : Covers sc (varsB d))
    (gc : goodCases funs cs = true) (gd : goodB funs d = true) :
    RelO funs sc cur (runBodies funs (f+1) cur cs d s)
      (runBodiesM (mfuns funs) (f+1) (compCases sc cs) (compB sc d) m) := by
  cases cs with
  | nil =>
    simp only [runBodies, compCases, runBodiesM]
    apply relO_cases (ih.execB sc cur d .null s m hc hr cd gd)
    · intro h; rw [h]; exact relO_timeout _
    · intro s1 v1 m1 e1 e2 h1; rw [e1, e2]; exact h1
    · intro s1 l m1 e1 e2 h1; rw [e1, e2]; exact h1
    · intro s1 m1 e1 e2 h1; rw [e1, e2]; exact h1
    · intro s1 v1 m1 e1 e2 h1; rw [e1, e2]; exact ⟨rfl, h1⟩
    · intro s1 m1 e1 e2 h1; rw [e1, e2]; exact h1
  | cons lbl b rest =>
    simp only [varsCases] at cc
    simp only [goodCases, Bool.and_eq_true] at gc
    simp only [runBodies, compCases, runBodiesM]
    apply relO_cases (ih.execB sc cur b .null s m hc hr cc.right.left gc.2.1)
    · intro h; rw [h]; exact relO_timeout _
    · intro s1 v1 m1 e1 e2 h1
      rw [e1, e2]
      exact ih.runBodies sc cur rest d s1 m1 hc h1 cc.right.right cd gc.2.2 gd
    · intro s1 l m1 e1 e2 h1; rw [e1, e2]; exact h1
    · intro s1 m1 e1 e2 h1; rw [e1, e2]; exact h1
    · intro s1 v1 m1 e1 e2 h1; rw [e1, e2]; exact ⟨rfl, h1⟩
    · intro s1 m1 e1 e2 h1; rw [e1, e2]; exact h1

theorem simSwitch_step {f : Nat} (ih : SimAt funs f) (sc : List Var) (cur : Cur) (v : Val) (cs : Cases) (d : Block)
    (s : St) (m : MSt) (hc : CtxOK funs sc cur) (hr : Rel funs sc cur s m)
    (cc : Covers sc (varsCases cs)) (cd : Covers sc (varsB d))
    (gc : goodCases funs cs = true) (gd : goodB funs d = true) :
    RelO funs sc cur (execSwitch funs (f+1) cur v cs d s)
      (switchM (mfuns funs) (f+1) v (compCases sc cs) (compB sc d) m) := by
  cases cs with
  | nil =>
    simp only [execSwitch, compCases, switchM]
    exact ih.runBodies sc cur .nil d s m hc hr cc cd gc gd
  | cons lbl b rest =>
    have cc' := cc
    have gc' := gc
    simp only [varsCases] at cc
    simp only [goodCases, Bool.and_eq_true] at gc
    simp only [execSwitch, compCases, switchM]
    refine relRO_bind (ih.evalE sc cur lbl s m hc hr cc.left gc.1) ?_
    intro vl vl' s1 m1 e1 h1
    subst e1
    cases looseEq v vl with
    | true =>
      have := ih.runBodies sc cur (.cons lbl b rest) d s1 m1 hc h1 cc' cd gc' gd
      simp only [compCases] at this
      exact this
    | false => exact ih.switch sc cur v rest d s1 m1 hc h1 cc.right.right cd gc.2.2 gd

end Proofs.Ctl
