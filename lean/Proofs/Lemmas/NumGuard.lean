import Model.NumGuard
/-! Lemmas for the float → int step of the number decoders (C14). -/
namespace Model.NumGuard

def lowB : Fl → Prop
  | .int k => minInt ≤ k
  | .frac fl => minInt - 1 ≤ fl
  | .inf neg => neg = false
  | .nan => False

def highB : Fl → Prop
  | .int k => k < maxIntP1
  | .frac fl => fl < maxIntP1
  | .inf neg => neg = true
  | .nan => False

theorem lo_bound {s : Site} (h : s.WF = true) {f : Fl} (hl : s.lo.holds f = true) : lowB f := by
  obtain ⟨_, _, lo, hi, integral⟩ := s
  simp only [Site.WF, Bool.and_eq_true] at h
  have h1 := h.1.1
  cases lo <;> cases f <;> simp_all [Lo.holds, Fl.ge, Fl.gt, lowB] <;> omega

theorem hi_bound {s : Site} (h : s.WF = true) {f : Fl} (hh : s.hi.holds f = true) : highB f := by
  obtain ⟨_, _, lo, hi, integral⟩ := s
  simp only [Site.WF, Bool.and_eq_true] at h
  have h1 := h.1.2
  cases hi <;> cases f <;> simp_all [Hi.holds, Fl.lt, Fl.le, highB] <;> omega

theorem wf_integral {s : Site} (h : s.WF = true) : s.integral ≠ .none := by
  unfold Site.WF at h
  simp at h
  exact h.2

/-- a well-formed guard: an int answer is the float's own value, and that value is an int64 — whatever the machine does
outside the range -/
theorem convert_sound (hw : Hw) {s : Site} (h : s.WF = true) {f : Fl} {n : Int}
    (hc : s.convert hw f = .int n) : f = .int n ∧ InRange n := by
  unfold Site.convert at hc
  split at hc
  next hcond =>
    simp only [Bool.and_eq_true] at hcond
    obtain ⟨⟨hl, hh⟩, hi⟩ := hcond
    have b1 := lo_bound h hl
    have b2 := hi_bound h hh
    have b3 := wf_integral h
    cases f with
    | int k =>
      simp only [lowB, highB] at b1 b2
      have hr : InRange k := ⟨b1, b2⟩
      simp [toInt, hr] at hc
      subst hc
      exact ⟨rfl, hr⟩
    | frac fl =>
      simp only [lowB, highB] at b1 b2
      exfalso
      have hr : InRange (if 0 ≤ fl then fl else fl + 1) := by
        unfold InRange minInt maxIntP1 at *
        split <;> omega
      cases hint : s.integral <;> rw [hint] at hi <;> simp_all [Integral.holds]
    | inf neg =>
      simp only [lowB, highB] at b1 b2
      rw [b1] at b2
      cases b2
    | nan => exact b1.elim
  next => cases hc

/-- a tight guard: every integral float that is an int64 becomes that int -/
theorem convert_complete (hw : Hw) {s : Site} (h : s.Tight = true) {n : Int} (hr : InRange n) :
    s.convert hw (.int n) = .int n := by
  unfold Site.Tight at h
  simp only [Bool.and_eq_true, Bool.or_eq_true, beq_iff_eq, bne_iff_ne] at h
  obtain ⟨⟨hlo, hhi⟩, hin⟩ := h
  have hr' := hr
  unfold InRange at hr
  have h1 : s.lo.holds (.int n) = true := by
    rcases hlo with e | e <;> rw [e] <;> simp [Lo.holds, Fl.ge, Fl.gt] <;> omega
  have h2 : s.hi.holds (.int n) = true := by
    rcases hhi with e | e <;> rw [e] <;> simp [Hi.holds, Fl.lt, Fl.le] <;> omega
  have h3 : s.integral.holds hw (.int n) = true := by
    cases hint : s.integral <;> simp_all [Integral.holds]
  simp [Site.convert, h1, h2, h3, toInt, hr']

theorem pinned_wf : pinned.WF = true := by decide
theorem pinned_tight : pinned.Tight = true := by decide

end Model.NumGuard
