import Spec.Ctl
set_option linter.unusedSimpArgs false
set_option linter.unusedVariables false
/-! Fuel monotonicity of the reference semantics: once a run has an answer, more fuel gives the
same answer (`timeout ≤ r` in the information order). -/
namespace Proofs.Ctl
open Spec.Ctl

/-- information order: `timeout` is below everything -/
def Res.le {α : Type} (r r' : Res α) : Prop := r = .timeout ∨ r = r'

theorem Res.le_refl {α : Type} (r : Res α) : Res.le r r := Or.inr rfl

theorem Res.timeout_le {α : Type} (r : Res α) : Res.le .timeout r := Or.inl rfl

theorem Res.bind_le {α β : Type} {r r' : Res α} {k k' : α → St → Res β} (h : Res.le r r')
    (hk : ∀ a s, Res.le (k a s) (k' a s)) : Res.le (r.bind k) (r'.bind k') := by
  cases h with
  | inl h => subst h; exact Or.inl rfl
  | inr h =>
    subst h
    cases r with
    | ok a s => exact hk a s
    | err s => exact Or.inr rfl
    | timeout => exact Or.inl rfl

theorem callResult_le (env : Env) {r r' : Res Out} (h : Res.le r r') :
    Res.le (callResult env r) (callResult env r') := by
  cases h with
  | inl h => subst h; exact Or.inl rfl
  | inr h => subst h; exact Or.inr rfl

structure MonoAt (funs : List FunDecl) (f : Nat) : Prop where
  evalE : ∀ cur e s, Res.le (evalE funs f cur e s) (evalE funs (f+1) cur e s)
  evalArgs : ∀ cur es s, Res.le (evalArgs funs f cur es s) (evalArgs funs (f+1) cur es s)
  evalArms : ∀ cur v arms d s, Res.le (evalArms funs f cur v arms d s) (evalArms funs (f+1) cur v arms d s)
  echoArgs : ∀ cur es s, Res.le (echoArgs funs f cur es s) (echoArgs funs (f+1) cur es s)
  evalDiscard : ∀ cur es s, Res.le (evalDiscard funs f cur es s) (evalDiscard funs (f+1) cur es s)
  execS : ∀ cur st s, Res.le (execS funs f cur st s) (execS funs (f+1) cur st s)
  execB : ∀ cur b s, Res.le (execB funs f cur b s) (execB funs (f+1) cur b s)
  execElifs : ∀ cur el els s, Res.le (execElifs funs f cur el els s) (execElifs funs (f+1) cur el els s)
  execWhile : ∀ cur c b s, Res.le (execWhile funs f cur c b s) (execWhile funs (f+1) cur c b s)
  execDo : ∀ cur b c s, Res.le (execDo funs f cur b c s) (execDo funs (f+1) cur b c s)
  execFor : ∀ cur c incs b s, Res.le (execFor funs f cur c incs b s) (execFor funs (f+1) cur c incs b s)
  execForeach : ∀ cur k v b l i s,
    Res.le (execForeach funs f cur k v b l i s) (execForeach funs (f+1) cur k v b l i s)
  execSwitch : ∀ cur v cs d s, Res.le (execSwitch funs f cur v cs d s) (execSwitch funs (f+1) cur v cs d s)
  runBodies : ∀ cur cs d s, Res.le (runBodies funs f cur cs d s) (runBodies funs (f+1) cur cs d s)

/-- one compositional step: a leaf handled by the induction hypothesis, reflexivity, or a
constructor of the semantics (`bind`, `if`, `match`) taken apart -/
macro "mono_leaf" ih:ident : tactic => `(tactic| first
  | exact Res.le_refl _
  | exact Res.timeout_le _
  | exact ($ih).evalE _ _ _
  | exact ($ih).evalArgs _ _ _
  | exact ($ih).evalArms _ _ _ _ _
  | exact ($ih).echoArgs _ _ _
  | exact ($ih).evalDiscard _ _ _
  | exact ($ih).execS _ _ _
  | exact ($ih).execB _ _ _
  | exact ($ih).execElifs _ _ _ _
  | exact ($ih).execWhile _ _ _ _
  | exact ($ih).execDo _ _ _ _
  | exact ($ih).execFor _ _ _ _ _
  | exact ($ih).execForeach _ _ _ _ _ _ _
  | exact ($ih).execSwitch _ _ _ _ _
  | exact ($ih).runBodies _ _ _ _)

macro "mono_tac" ih:ident : tactic => `(tactic| repeat (first
  | mono_leaf $ih
  | apply Res.bind_le
  | apply callResult_le
  | intro _ _
  | split))

theorem monoAt_zero (funs : List FunDecl) : MonoAt funs 0 := by
  constructor <;> intros <;> left <;>
    first
    | rfl
    | simp only [evalE, evalArgs, evalArms, echoArgs, evalDiscard, execS, execB, execElifs, execWhile, execDo,
        execFor, execForeach, execSwitch, runBodies]

theorem monoAt_succ {funs : List FunDecl} {f : Nat} (ih : MonoAt funs f) : MonoAt funs (f+1) where
  evalE := by
    intro cur e s
    cases e <;> simp only [evalE] <;> mono_tac ih
  evalArgs := by
    intro cur es s
    cases es <;> simp only [evalArgs] <;> mono_tac ih
  evalArms := by
    intro cur v arms d s
    cases arms <;> simp only [evalArms] <;> mono_tac ih
  echoArgs := by
    intro cur es s
    cases es <;> simp only [echoArgs] <;> mono_tac ih
  evalDiscard := by
    intro cur es s
    cases es <;> simp only [evalDiscard] <;> mono_tac ih
  execS := by
    intro cur st s
    cases st with
    | ret e => cases e <;> simp only [execS] <;> mono_tac ih
    | _ => simp only [execS] <;> mono_tac ih
  execB := by
    intro cur b s
    cases b <;> simp only [execB] <;> mono_tac ih
  execElifs := by
    intro cur el els s
    cases el <;> simp only [execElifs] <;> mono_tac ih
  execWhile := by
    intro cur c b s
    simp only [execWhile]
    mono_tac ih
  execDo := by
    intro cur b c s
    simp only [execDo]
    mono_tac ih
  execFor := by
    intro cur c incs b s
    simp only [execFor]
    mono_tac ih
  execForeach := by
    intro cur k v b l i s
    cases l <;> simp only [execForeach] <;> mono_tac ih
  execSwitch := by
    intro cur v cs d s
    cases cs <;> simp only [execSwitch] <;> mono_tac ih
  runBodies := by
    intro cur cs d s
    cases cs <;> simp only [runBodies] <;> mono_tac ih

theorem monoAt (funs : List FunDecl) : ∀ f, MonoAt funs f
  | 0 => monoAt_zero funs
  | f+1 => monoAt_succ (monoAt funs f)

theorem execB_mono (funs : List FunDecl) (cur : Cur) (b : Block) (s : St) (f k : Nat) :
    Res.le (execB funs f cur b s) (execB funs (f+k) cur b s) := by
  induction k with
  | zero => exact Res.le_refl _
  | succ k ih =>
    cases ih with
    | inl h => exact Or.inl h
    | inr h =>
      rw [h]
      exact (monoAt funs (f+k)).execB cur b s

/-- more fuel never changes an answer -/
theorem run_mono (p : Prog) (f k : Nat) (r : List String × Status) (h : run p f = some r) :
    run p (f+k) = some r := by
  unfold run at h ⊢
  cases execB_mono p.funs none p.main St.init f k with
  | inl ht => rw [ht] at h; cases h
  | inr he => rw [← he]; exact h

end Proofs.Ctl
