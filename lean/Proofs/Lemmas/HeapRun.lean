import Proofs.Lemmas.HeapNames
/-!
C06 helper lemmas: the simulation along a whole program.
-/
namespace Proofs.Heap
open Model.Heap
open Spec.Val (abs)

theorem run_sim (nv : Nat) (ops : List Op) :
    Inv (run .fixed nv ops) ∧ abs (run .fixed nv ops) = Spec.Val.run nv ops := by
  unfold run Spec.Val.run
  suffices h : ∀ (s : St) (t : Spec.Val.St), Inv s → abs s = t →
      Inv (ops.foldl (step .fixed) s) ∧ abs (ops.foldl (step .fixed) s) = ops.foldl Spec.Val.step t from
    h _ _ (inv_init nv) (abs_init nv)
  induction ops with
  | nil => intro s t hi ha; exact ⟨hi, ha⟩
  | cons op rest ih =>
    intro s t hi ha
    obtain ⟨h1, h2⟩ := step_sim hi op
    simp only [List.foldl]
    exact ih _ _ h1 (by rw [h2, ha])

end Proofs.Heap
