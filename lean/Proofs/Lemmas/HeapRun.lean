import Proofs.Lemmas.HeapNames
/-!
C06 helper lemmas, part 8: the simulation along a whole program.
-/
namespace Proofs.Heap
open Model.Heap
open Spec.Val (abs)

theorem run_sim (nv : Nat) (ops : List Op) (hf : FlatWrites ops) :
    Inv (run .fixed nv ops) ∧ abs (run .fixed nv ops) = Spec.Val.run nv ops := by
  unfold run Spec.Val.run
  suffices h : ∀ (s : St) (t : Spec.Val.St), Inv s → abs s = t →
      Inv (ops.foldl (step .fixed) s) ∧ abs (ops.foldl (step .fixed) s) = ops.foldl Spec.Val.step t from
    h _ _ (inv_init nv) (abs_init nv)
  induction ops with
  | nil => intro s t hi ha; exact ⟨hi, ha⟩
  | cons op rest ih =>
    intro s t hi ha
    obtain ⟨h1, h2⟩ := step_sim hi op (hf op (by simp))
    simp only [List.foldl]
    exact ih (fun o ho => hf o (List.mem_cons_of_mem _ ho)) _ _ h1 (by rw [h2, ha])

theorem flat_of_target (w : Op) (b : Place) (hw : w.target = some b) (hb : b.isRoot = true) : w.flat = true := by
  cases w <;> simp [Op.target] at hw <;> subst hw <;> simpa [Op.flat] using hb

theorem flat_append (ops : List Op) (hf : FlatWrites ops) (l : List Op) (hl : ∀ o ∈ l, o.flat = true) :
    FlatWrites (ops ++ l) := by
  intro o ho
  rcases List.mem_append.mp ho with h | h
  · exact hf o h
  · exact hl o h

end Proofs.Heap
