import Model.ReqReg
import Spec.ReqReg
/-! Lemmas for the registry part of C11 (`Model.ReqReg`). -/
namespace Proofs.ReqReg
open Model.ReqReg
open Model.Req (Rid)

theorem localStep_nil {q : ReqSt} {v : View} (h : q.pc = []) : localStep q v = (q, v) := by
  simp [localStep, h]

theorem localStep_cons {q : ReqSt} {v : View} {st : Step} {rest : List Step} (h : q.pc = st :: rest) :
    localStep q v = exec { q with pc := rest } v st := by
  simp [localStep, h]

/-- what request `r` is and what it sees of the registries -/
def proj (w : World) (s : State) (r : Rid) : ReqSt × View := (s.req r, view w s r)

theorem stepReq_self (w : World) (s : State) (r : Rid) :
    proj w (stepReq w s r) r = localStep (s.req r) (view w s r) := by
  unfold proj
  have h1 : (stepReq w s r).req r = (localStep (s.req r) (view w s r)).1 := by simp [stepReq]
  have h2 : view w (stepReq w s r) r = (localStep (s.req r) (view w s r)).2 := by
    funext g; simp [view, stepReq]
  rw [h1, h2]

/-- a step of a request with another key leaves `r` and everything `r` sees untouched -/
theorem stepReq_other (w : World) (s : State) (a r : Rid) (hne : a ≠ r) (hk : w.key a ≠ w.key r) :
    proj w (stepReq w s a) r = proj w s r := by
  unfold proj
  have h1 : (stepReq w s a).req r = s.req r := by simp [stepReq, Ne.symm hne]
  have h2 : view w (stepReq w s a) r = view w s r := by
    funext g; simp [view, stepReq, Ne.symm hk]
  rw [h1, h2]

/-- **Projection**: from two states that agree on request `r` and on the entries under its key, any
schedule whose other requests use other keys leaves `r` (and those entries) where its own turns
alone leave them. -/
theorem sim_run (w : World) (r : Rid) (sched : List Rid) :
    ∀ s s' : State, proj w s r = proj w s' r → (∀ a ∈ sched, a ≠ r → w.key a ≠ w.key r) →
      proj w (run w s sched) r = proj w (run w s' (List.replicate (sched.count r) r)) r := by
  induction sched with
  | nil => intro s s' h _; simpa [run] using h
  | cons a rest ih =>
    intro s s' h hk
    have hk' : ∀ b ∈ rest, b ≠ r → w.key b ≠ w.key r := fun b hb => hk b (List.mem_cons_of_mem _ hb)
    by_cases har : a = r
    · subst har
      have hcount : (a :: rest).count a = rest.count a + 1 := by simp
      rw [hcount, List.replicate_succ]
      show proj w (run w (stepReq w s a) rest) a = proj w (run w (stepReq w s' a) (List.replicate (rest.count a) a)) a
      apply ih _ _ _ hk'
      rw [stepReq_self, stepReq_self]
      have h1 : s.req a = s'.req a := congrArg Prod.fst h
      have h2 : view w s a = view w s' a := congrArg Prod.snd h
      rw [h1, h2]
    · have hcount : (a :: rest).count r = rest.count r := by simp [har]
      rw [hcount]
      show proj w (run w (stepReq w s a) rest) r = _
      apply ih _ _ _ hk'
      rw [stepReq_other w s a r har (hk a (List.mem_cons_self ..) har)]
      exact h

/-- steps of other requests never change a request's own state (whatever the keys) -/
theorem run_req_frame (w : World) (r : Rid) (sched : List Rid) :
    ∀ s : State, r ∉ sched → (run w s sched).req r = s.req r := by
  induction sched with
  | nil => intro s _; rfl
  | cons a rest ih =>
    intro s h
    have har : a ≠ r := fun e => h (e ▸ List.mem_cons_self ..)
    show (run w (stepReq w s a) rest).req r = s.req r
    rw [ih (stepReq w s a) (fun hm => h (List.mem_cons_of_mem _ hm))]
    simp [stepReq, Ne.symm har]

theorem run_append (w : World) (s : State) (a b : List Rid) : run w s (a ++ b) = run w (run w s a) b := by
  simp [run, List.foldl_append]

/-- running a finished request further changes nothing of it nor of what it sees -/
theorem run_self_done (w : World) (r : Rid) (n : Nat) :
    ∀ s : State, (s.req r).pc = [] → proj w (run w s (List.replicate n r)) r = proj w s r := by
  induction n with
  | zero => intro s _; rfl
  | succ n ih =>
    intro s h
    rw [List.replicate_succ]
    show proj w (run w (stepReq w s r) (List.replicate n r)) r = proj w s r
    have hs : proj w (stepReq w s r) r = proj w s r := by
      rw [stepReq_self, localStep_nil h]; rfl
    have hpc : ((stepReq w s r).req r).pc = [] := by
      have := congrArg Prod.fst hs
      simp only [proj] at this
      rw [this]; exact h
    rw [ih (stepReq w s r) hpc, hs]

theorem localStep_pc_length (q : ReqSt) (v : View) : (localStep q v).1.pc.length = q.pc.length - 1 := by
  cases hpc : q.pc with
  | nil => rw [localStep_nil hpc]; simp [hpc]
  | cons st rest =>
    rw [localStep_cons hpc]
    cases st <;> simp [exec]

/-- `n ≥ |pc|` turns of `r` alone finish it: more turns give the same state of `r` -/
theorem run_saturate (w : World) (r : Rid) :
    ∀ (n : Nat) (s : State), (s.req r).pc.length ≤ n →
      proj w (run w s (List.replicate n r)) r = proj w (run w s (List.replicate (s.req r).pc.length r)) r := by
  intro n
  induction n with
  | zero =>
    intro s h
    have : (s.req r).pc.length = 0 := by omega
    rw [this]
  | succ n ih =>
    intro s h
    by_cases hz : (s.req r).pc.length = 0
    · have hnil : (s.req r).pc = [] := List.length_eq_zero_iff.mp hz
      rw [hz, run_self_done w r (n + 1) s hnil]
      rfl
    · have hself := congrArg Prod.fst (stepReq_self w s r)
      simp only [proj] at hself
      have hl' : ((stepReq w s r).req r).pc.length = (s.req r).pc.length - 1 := by
        rw [hself]; exact localStep_pc_length _ _
      obtain ⟨m, hm⟩ : ∃ m, (s.req r).pc.length = m + 1 := ⟨(s.req r).pc.length - 1, by omega⟩
      rw [hm, List.replicate_succ, List.replicate_succ]
      show proj w (run w (stepReq w s r) (List.replicate n r)) r = proj w (run w (stepReq w s r) (List.replicate m r)) r
      have := ih (stepReq w s r) (by omega)
      rw [this, hl', hm]
      rfl

/-! ### The private store of the specification -/

open Spec.ReqReg (find drop)

theorem find_drop (st : Spec.ReqReg.Store) (g g' : Reg) :
    find (drop st g) g' = if g' = g then none else find st g' := by
  induction st with
  | nil => simp [find, drop]
  | cons e rest ih =>
    obtain ⟨k, x⟩ := e
    by_cases hk : k = g
    · subst hk
      simp only [drop, if_true, ih, find]
      by_cases h2 : g' = k
      · simp [h2]
      · have : ¬ k = g' := fun h => h2 h.symm
        simp [h2, this]
    · simp only [drop, hk, if_false, find, ih]
      by_cases h2 : k = g'
      · subst h2; simp [hk]
      · simp [h2]

/-- the view and the store hold the same entries -/
def Same (v : View) (st : Spec.ReqReg.Store) : Prop := ∀ g, v g = find st g

/-- the model run of a request alone and the specification agree, on the body and on what is left
attached (generalised over the state) -/
theorem solo_spec (w : World) (r : Rid) :
    ∀ (prog : List Step) (s : State) (st : Spec.ReqReg.Store), (s.req r).pc = prog → Same (view w s r) st →
      ((run w s (List.replicate prog.length r)).req r).body
          = (Spec.ReqReg.go prog st (s.req r).pending (s.req r).body).1 ∧
      Same (view w (run w s (List.replicate prog.length r)) r)
          (Spec.ReqReg.go prog st (s.req r).pending (s.req r).body).2 := by
  intro prog
  induction prog with
  | nil =>
    intro s st _ hs
    constructor
    · simp [run, Spec.ReqReg.go]
    · simpa [run, Spec.ReqReg.go] using hs
  | cons stp rest ih =>
    intro s st hpc hs
    rw [List.length_cons, List.replicate_succ]
    show ((run w (stepReq w s r) (List.replicate rest.length r)).req r).body = _ ∧
      Same (view w (run w (stepReq w s r) (List.replicate rest.length r)) r) _
    have hself := stepReq_self w s r
    rw [localStep_cons hpc] at hself
    have hreq : (stepReq w s r).req r = (exec { s.req r with pc := rest } (view w s r) stp).1 := congrArg Prod.fst hself
    have hview : view w (stepReq w s r) r = (exec { s.req r with pc := rest } (view w s r) stp).2 := congrArg Prod.snd hself
    cases stp with
    | attach g x =>
      have hq : (stepReq w s r).req r = { s.req r with pc := rest } := by rw [hreq]; rfl
      have hv : Same (view w (stepReq w s r) r) ((g, x) :: drop st g) := by
        intro g'
        rw [hview]
        simp only [exec, find]
        by_cases h : g' = g
        · subst h; simp
        · have : ¬ g = g' := fun e => h e.symm
          simp [h, this, find_drop, hs g']
      have := ih (stepReq w s r) ((g, x) :: drop st g) (by rw [hq]) hv
      rw [hq] at this
      simpa [Spec.ReqReg.go] using this
    | attachNew g x =>
      have hq : (stepReq w s r).req r = { s.req r with pc := rest } := by rw [hreq]; rfl
      cases hf : find st g with
      | some y =>
        have hv : Same (view w (stepReq w s r) r) st := by
          intro g'
          rw [hview]
          simp only [exec]
          by_cases h : g' = g
          · subst h; simp [hs g', hf]
          · simp [h, hs g']
        have := ih (stepReq w s r) st (by rw [hq]) hv
        rw [hq] at this
        simpa [Spec.ReqReg.go, hf] using this
      | none =>
        have hv : Same (view w (stepReq w s r) r) ((g, x) :: drop st g) := by
          intro g'
          rw [hview]
          simp only [exec, find]
          by_cases h : g' = g
          · subst h; simp [hs g', hf]
          · have : ¬ g = g' := fun e => h e.symm
            simp [h, this, find_drop, hs g']
        have := ih (stepReq w s r) ((g, x) :: drop st g) (by rw [hq]) hv
        rw [hq] at this
        simpa [Spec.ReqReg.go, hf] using this
    | lookup g =>
      have hq : (stepReq w s r).req r = { s.req r with pc := rest, pending := (s.req r).pending ++ [find st g] } := by
        rw [hreq]; simp [exec, hs g]
      have hv : Same (view w (stepReq w s r) r) st := by
        intro g'; rw [hview]; exact hs g'
      have := ih (stepReq w s r) st (by rw [hq]) hv
      rw [hq] at this
      simpa [Spec.ReqReg.go] using this
    | detach g =>
      have hq : (stepReq w s r).req r = { s.req r with pc := rest } := by rw [hreq]; rfl
      have hv : Same (view w (stepReq w s r) r) (drop st g) := by
        intro g'
        rw [hview]
        simp only [exec]
        by_cases h : g' = g
        · subst h; simp [find_drop]
        · simp [h, find_drop, hs g']
      have := ih (stepReq w s r) (drop st g) (by rw [hq]) hv
      rw [hq] at this
      simpa [Spec.ReqReg.go] using this
    | gate =>
      have hq : (stepReq w s r).req r = { s.req r with pc := rest } := by rw [hreq]; rfl
      have hv : Same (view w (stepReq w s r) r) st := by
        intro g'; rw [hview]; exact hs g'
      have := ih (stepReq w s r) st (by rw [hq]) hv
      rw [hq] at this
      simpa [Spec.ReqReg.go] using this
    | write =>
      have hq : (stepReq w s r).req r = { s.req r with pc := rest, body := (s.req r).body ++ (s.req r).pending, pending := [] } := by
        rw [hreq]; rfl
      have hv : Same (view w (stepReq w s r) r) st := by
        intro g'; rw [hview]; exact hs g'
      have := ih (stepReq w s r) st (by rw [hq]) hv
      rw [hq] at this
      simpa [Spec.ReqReg.go] using this

end Proofs.ReqReg
