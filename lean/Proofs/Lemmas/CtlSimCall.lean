import Proofs.Lemmas.CtlSimArgs
set_option linter.unusedSimpArgs false
set_option linter.unusedVariables false
/-! Simulation of a call: entering the callee (fresh slot vector, parameters, static cells),
leaving it (the result, the caller's locals untouched). -/
namespace Proofs.Ctl
open Spec.Ctl Model.Ctl

variable {funs : List FunDecl}

/-! ### a body that ends in `return` never completes normally -/

theorem execS_ret_not_normal (f : Nat) (cur : Cur) (e : Option Expr) (s s' : St) :
    execS funs f cur (.ret e) s ≠ .ok .normal s' := by
  cases f with
  | zero => simp [execS]
  | succ f =>
    cases e with
    | none => simp [execS]
    | some e =>
      simp only [execS]
      cases evalE funs f cur e s <;> simp [Res.bind]

theorem endsRet_not_normal : (b : Block) → endsRet b = true → ∀ (f : Nat) (cur : Cur) (s s' : St),
    execB funs f cur b s ≠ .ok .normal s'
  | .nil, h => by simp [endsRet] at h
  | .cons st rest, h => by
    intro f cur s s'
    cases f with
    | zero => simp [execB]
    | succ f =>
      simp only [execB]
      cases hst : execS funs f cur st s with
      | timeout => simp [Res.bind]
      | err s1 => simp [Res.bind]
      | ok o s1 =>
        simp only [Res.bind]
        cases o with
        | normal =>
          simp only []
          have hrest : endsRet rest = true := by
            cases st <;> cases rest <;> simp_all [endsRet]
            exact absurd hst (execS_ret_not_normal f cur _ s s1)
          exact endsRet_not_normal rest hrest f cur s1 s'
        | brk n => simp
        | cont n => simp
        | ret v => simp

/-! ### binding the parameters -/

def mparams (sc : List Var) (ps : List Param) : List MParam := ps.map fun p => ⟨idx sc p.name, p.dflt⟩

/-- slot vector and environment agree on every name of the table -/
def SlotsEnv (sc : List Var) (slots : List Val) (env : Env) : Prop :=
  slots.length = sc.length ∧ ∀ x ∈ sc, slots[idx sc x]? = some ((aget env x).getD .null)

theorem slotsEnv_set {sc slots env} (h : SlotsEnv sc slots env) {x : Var} (hx : x ∈ sc) (v : Val) :
    SlotsEnv sc (slots.set (idx sc x) v) (aset env x v) := by
  refine ⟨by simp [h.1], ?_⟩
  intro y hy
  rw [List.getElem?_set, aget_aset]
  have hlt : idx sc x < slots.length := by rw [h.1]; exact idx_lt hx
  by_cases e : y = x
  · subst e; simp [hlt]
  · have : idx sc x ≠ idx sc y := fun e' => e (idx_inj hy hx e'.symm)
    simp [this, e]
    exact h.2 y hy

theorem fillDefaults_rel (sc : List Var) : (ps : List Param) → (slots : List Val) → (env : Env) →
    (ps.map (·.name)).Nodup → (∀ p ∈ ps, p.name ∈ sc) → (∀ p ∈ ps, aget env p.name = none) →
    SlotsEnv sc slots env →
    ∃ sl, fillDefaults (mparams sc ps) slots = some sl ∧ SlotsEnv sc sl (bindParams ps [] env)
  | [], slots, env, _, _, _, h => ⟨slots, rfl, h⟩
  | p :: ps, slots, env, hnd, hps, hfresh, h => by
    have hp : p.name ∈ sc := hps p List.mem_cons_self
    have hnd' : p.name ∉ ps.map (·.name) ∧ (ps.map (·.name)).Nodup :=
      List.nodup_cons.mp (by rw [List.map_cons] at hnd; exact hnd)
    have hslot : slots[idx sc p.name]? = some .null := by
      rw [h.2 _ hp, hfresh p List.mem_cons_self]; rfl
    have hfresh' : ∀ v, ∀ q ∈ ps, aget (aset env p.name v) q.name = none := by
      intro v q hq
      have hne : q.name ≠ p.name := by
        intro e
        apply hnd'.1
        rw [← e]
        exact List.mem_map.mpr ⟨q, hq, rfl⟩
      rw [aget_aset_ne _ _ _ _ hne]
      exact hfresh q (List.mem_cons_of_mem _ hq)
    simp only [mparams, List.map_cons, fillDefaults, hslot, bindParams]
    cases hd : p.dflt with
    | none =>
      simp only [Option.getD]
      have h' : SlotsEnv sc slots (aset env p.name .null) := by
        have := slotsEnv_set h hp .null
        have hid : slots.set (idx sc p.name) .null = slots := by
          apply List.ext_getElem?
          intro i
          rw [List.getElem?_set]
          by_cases e : idx sc p.name = i
          · subst e
            have hlt : idx sc p.name < slots.length := by rw [h.1]; exact idx_lt hp
            have hs := hslot
            rw [List.getElem?_eq_getElem hlt] at hs
            simp [hlt, hslot, (Option.some.inj hs).symm]
          · simp [e]
        rwa [hid] at this
      exact fillDefaults_rel sc ps slots _ hnd'.2 (fun q hq => hps q (List.mem_cons_of_mem _ hq)) (hfresh' _) h'
    | some d =>
      simp only [Option.getD]
      exact fillDefaults_rel sc ps _ _ hnd'.2 (fun q hq => hps q (List.mem_cons_of_mem _ hq)) (hfresh' _)
        (slotsEnv_set h hp d)

theorem bindPure_rel (sc : List Var) : (ps : List Param) → (vs : List Val) → (slots : List Val) → (env : Env) →
    (ps.map (·.name)).Nodup → (∀ p ∈ ps, p.name ∈ sc) → (∀ p ∈ ps, aget env p.name = none) →
    SlotsEnv sc slots env →
    ∃ sl, bindPure (mparams sc ps) vs slots = some sl ∧ SlotsEnv sc sl (bindParams ps vs env)
  | [], vs, slots, env, _, _, _, h => ⟨slots, by simp [mparams, bindPure], by simpa [bindParams] using h⟩
  | p :: ps, [], slots, env, hnd, hps, hfresh, h => by
    simpa [mparams, bindPure] using fillDefaults_rel sc (p :: ps) slots env hnd hps hfresh h
  | p :: ps, v :: vs, slots, env, hnd, hps, hfresh, h => by
    have hp : p.name ∈ sc := hps p List.mem_cons_self
    have hnd' : p.name ∉ ps.map (·.name) ∧ (ps.map (·.name)).Nodup :=
      List.nodup_cons.mp (by rw [List.map_cons] at hnd; exact hnd)
    have hfresh' : ∀ q ∈ ps, aget (aset env p.name v) q.name = none := by
      intro q hq
      have hne : q.name ≠ p.name := by
        intro e
        apply hnd'.1
        rw [← e]
        exact List.mem_map.mpr ⟨q, hq, rfl⟩
      rw [aget_aset_ne _ _ _ _ hne]
      exact hfresh q (List.mem_cons_of_mem _ hq)
    simp only [mparams, List.map_cons, bindPure, bindParams]
    exact bindPure_rel sc ps vs _ _ hnd'.2 (fun q hq => hps q (List.mem_cons_of_mem _ hq)) hfresh'
      (slotsEnv_set h hp v)

theorem slotsEnv_init (sc : List Var) : SlotsEnv sc (List.replicate sc.length .null) [] := by
  refine ⟨by simp, ?_⟩
  intro x hx
  have := idx_lt hx
  simp [aget, this]

/-! ### binding the static cells -/

theorem bindStatics_rel (g : FName) (d : FunDecl) (hd : lookupFun funs g = some d) :
    (sts : List (Var × Val)) → (m : MSt) → (ss : Statics) →
    (∀ p ∈ sts, p.1 ∈ funScope d) → m.fr.slots.length = (funScope d).length →
    SRel funs ss m.statics →
    let m' := bindStatics g (sts.map fun (x, v) => (idx (funScope d) x, v)) m
    SRel funs (initStatics g sts ss) m'.statics ∧ m'.fr.slots = m.fr.slots ∧ m'.fr.fn = m.fr.fn ∧ m'.out = m.out ∧
      ∀ i, i ∈ m'.fr.bound ↔ i ∈ m.fr.bound ∨ ∃ p ∈ sts, idx (funScope d) p.1 = i
  | [], m, ss, _, _, h => by simp [bindStatics, initStatics, h]
  | (x, v) :: rest, m, ss, hin, hlen, h => by
    have hx : x ∈ funScope d := hin (x, v) List.mem_cons_self
    have hlt : idx (funScope d) x < m.fr.slots.length := by rw [hlen]; exact idx_lt hx
    have key := h g d hd x hx
    simp only [List.map_cons, bindStatics, initStatics]
    -- one step
    have hstep : SRel funs (if (aget ss (g, x)).isNone then aset ss (g, x) v else ss)
        (bindStatic g m (idx (funScope d) x) v).statics := by
      simp only [bindStatic, key]
      cases hn : (aget ss (g, x)).isNone with
      | true => simp only [if_true]; exact srel_aset h hd hx v
      | false => simpa using h
    have hslots : (bindStatic g m (idx (funScope d) x) v).fr.slots = m.fr.slots := by simp [bindStatic]
    have hfn : (bindStatic g m (idx (funScope d) x) v).fr.fn = m.fr.fn := by simp [bindStatic]
    have hout : (bindStatic g m (idx (funScope d) x) v).out = m.out := by simp [bindStatic]
    have hbound : (bindStatic g m (idx (funScope d) x) v).fr.bound = idx (funScope d) x :: m.fr.bound := by
      simp [bindStatic, hlt]
    have ih := bindStatics_rel g d hd rest (bindStatic g m (idx (funScope d) x) v) _
      (fun p hp => hin p (List.mem_cons_of_mem _ hp)) (by rw [hslots]; exact hlen) hstep
    obtain ⟨a, b, c, e, f⟩ := ih
    refine ⟨a, by rw [b, hslots], by rw [c, hfn], by rw [e, hout], ?_⟩
    intro i
    rw [f i, hbound]
    simp only [List.mem_cons]
    constructor
    · rintro (h1 | h1)
      · cases h1 with
        | inl h1 => right; exact ⟨(x, v), Or.inl rfl, h1.symm⟩
        | inr h1 => left; exact h1
      · obtain ⟨p, hp, e⟩ := h1
        right; exact ⟨p, Or.inr hp, e⟩
    · rintro (h1 | ⟨p, hp, e⟩)
      · left; right; exact h1
      · cases hp with
        | inl hp => subst hp; left; left; exact e.symm
        | inr hp => right; exact ⟨p, hp, e⟩

/-! ### entering and leaving the callee -/

theorem mem_funScope_param {d : FunDecl} {p : Param} (h : p ∈ d.params) : p.name ∈ funScope d :=
  mem_mkScope (List.mem_append_left _ (List.mem_map.mpr ⟨p, h, rfl⟩))

theorem mem_funScope_static {d : FunDecl} {p : Var × Val} (h : p ∈ d.statics) : p.1 ∈ funScope d :=
  mem_mkScope (List.mem_append_right _ (List.mem_append_left _ (List.mem_map.mpr ⟨p, h, rfl⟩)))

theorem covers_funScope_body (d : FunDecl) : Covers (funScope d) (varsB d.body) :=
  fun _ h => mem_mkScope (List.mem_append_right _ (List.mem_append_right _ h))

theorem compFun_params (d : FunDecl) : (compFun d).params = mparams (funScope d) d.params := rfl

theorem rel_enter {sc cur} {s1 : St} {m1 : MSt} (hr : Rel funs sc cur s1 m1)
    {g : FName} {d : FunDecl} (hd : lookupFun funs g = some d) (hnd : (d.params.map (·.name)).Nodup)
    (vs : List Val) (slots' : List Val)
    (hb : some slots' = bindPure (compFun d).params vs (List.replicate (compFun d).nvars .null)) :
    Rel funs (funScope d) (some (g, d.svars))
      { env := bindParams d.params vs [], statics := initStatics g d.statics s1.statics, out := s1.out }
      (bindStatics g (compFun d).statics { m1 with fr := { slots := slots', bound := [], fn := some g } }) := by
  obtain ⟨sl, hsl, henv⟩ := bindPure_rel (funScope d) d.params vs (List.replicate (funScope d).length .null) []
    hnd (fun p hp => mem_funScope_param hp) (fun p _ => rfl) (slotsEnv_init _)
  have hsl' : slots' = sl := by
    rw [compFun_params] at hb
    have : (compFun d).nvars = (funScope d).length := rfl
    rw [this, hsl] at hb
    exact Option.some.inj hb
  subst hsl'
  have hst := bindStatics_rel (funs := funs) g d hd d.statics
    { m1 with fr := { slots := slots', bound := [], fn := some g } } s1.statics
    (fun p hp => mem_funScope_static hp) henv.1 hr.statics
  simp only at hst
  obtain ⟨h1, h2, h3, h4, h5⟩ := hst
  have hcs : (compFun d).statics = d.statics.map fun (x, v) => (idx (funScope d) x, v) := rfl
  rw [hcs]
  refine ⟨?_, ?_, ?_, ?_, ?_, h1⟩
  · rw [h4]; exact hr.out
  · rw [h2]; exact henv.1
  · rw [h3]; rfl
  · intro x hx
    rw [h5]
    simp only [List.not_mem_nil, false_or]
    constructor
    · rintro ⟨p, hp, e⟩
      have : p.1 = x := idx_inj (mem_funScope_static hp) hx e
      exact ⟨g, d.svars, rfl, by rw [← this]; exact List.mem_map.mpr ⟨p, hp, rfl⟩⟩
    · rintro ⟨g', sv, e, hm⟩
      cases e
      obtain ⟨p, hp, e⟩ := List.mem_map.mp hm
      exact ⟨p, hp, by rw [e]⟩
  · intro x hx _
    rw [h2]
    exact henv.2 x hx

theorem rel_leave {sc cur} {s1 : St} {m1 : MSt} (hr : Rel funs sc cur s1 m1) {sc' cur'}
    {r : Res Out} {mr : MRes Val} (h : RelO funs sc' cur' r mr) (hnn : ∀ s', r ≠ .ok .normal s') :
    RelV funs sc cur (callResult s1.env r) (callResultM m1.fr mr) := by
  have back : ∀ {s' : St} {m' : MSt}, Rel funs sc' cur' s' m' →
      Rel funs sc cur { s' with env := s1.env } { m' with fr := m1.fr } := by
    intro s' m' h'
    exact ⟨h'.out, hr.len, hr.fn, hr.bound, hr.locals, h'.statics⟩
  cases r with
  | timeout => exact relR_timeout _
  | err s' =>
    cases mr with
    | ok v m' => exact h.elim
    | timeout => exact h.elim
    | ctl c m' =>
      cases c <;> first | exact h.elim | exact back h
  | ok o s' =>
    cases o with
    | normal => exact absurd rfl (hnn s')
    | ret v =>
      cases mr with
      | ok v m' => exact h.elim
      | timeout => exact h.elim
      | ctl c m' =>
        cases c <;> first | exact h.elim | exact ⟨h.1, back h.2⟩
    | brk n =>
      cases mr with
      | ok v m' => cases n with | zero => exact h.elim | succ n => cases n <;> exact h.elim
      | timeout => cases n with | zero => exact h.elim | succ n => cases n <;> exact h.elim
      | ctl c m' =>
        cases n with
        | zero => cases c <;> exact h.elim
        | succ n =>
          cases n with
          | succ n => cases c <;> exact h.elim
          | zero => cases c <;> first | exact h.elim | exact back h
    | cont n =>
      cases mr with
      | ok v m' => cases n with | zero => exact h.elim | succ n => cases n <;> exact h.elim
      | timeout => cases n with | zero => exact h.elim | succ n => cases n <;> exact h.elim
      | ctl c m' =>
        cases n with
        | zero => cases c <;> exact h.elim
        | succ n =>
          cases n with
          | succ n => cases c <;> exact h.elim
          | zero => cases c <;> first | exact h.elim | exact back h

theorem arityOk_spec {g : FName} {d : FunDecl} (hd : lookupFun funs g = some d) {n : Nat}
    (h : arityOk funs g n = true) : required d.params ≤ n ∧ n ≤ d.params.length := by
  simp only [arityOk, hd, Bool.and_eq_true, decide_eq_true_eq] at h
  exact h

theorem simCall_step {f : Nat} (ih : SimAt funs f) (hgood : GoodFuns funs) (sc : List Var) (cur : Cur)
    (g : FName) (args : Args) (s : St) (m : MSt)
    (hc : CtxOK funs sc cur) (hr : Rel funs sc cur s m) (ca : Covers sc (varsArgs args))
    (ge : goodE funs (.call g args) = true) :
    RelV funs sc cur (evalE funs (f+1) cur (.call g args) s)
      (evalM (mfuns funs) (f+1) (compE sc (.call g args)) m) := by
  simp only [goodE, Bool.and_eq_true] at ge
  simp only [evalE, compE, evalM, lookupFun_map]
  cases hd : Spec.Ctl.lookupFun funs g with
  | none => simp only [Option.map]; exact relV_err hr
  | some d =>
    simp only [Option.map]
    have har := arityOk_spec hd ge.1
    have hgd := hgood d (lookupFun_mem hd)
    simp only [goodFun, Bool.and_eq_true, decide_eq_true_eq] at hgd
    have hidx : ∀ p ∈ (compFun d).params, p.idx < (List.replicate (compFun d).nvars Val.null).length := by
      intro p hp
      rw [compFun_params] at hp
      obtain ⟨q, hq, e⟩ := List.mem_map.mp hp
      subst e
      simp only [List.length_replicate]
      exact idx_lt (mem_funScope_param hq)
    have hlen : args.length ≤ (compFun d).params.length := by
      rw [compFun_params]; simp [mparams]; exact har.2
    refine relR_bind (ih.bindArgs sc cur args (compFun d).params s m _ hc hr ca ge.2 hlen hidx) ?_
    intro vs slots' s1 m1 hq h1
    have hnlt : ¬ vs.length < required d.params := by rw [hq.1]; omega
    simp only [hnlt, if_false]
    have henter := rel_enter h1 hd hgd.2.2 vs slots' hq.2
    have hctx : CtxOK funs (funScope d) (some (g, d.svars)) := by
      intro g' sv e; cases e; exact ⟨d, hd, rfl, rfl⟩
    have hbody := ih.execB (funScope d) (some (g, d.svars)) d.body .null _ _ hctx henter
      (covers_funScope_body d) hgd.1
    exact rel_leave h1 hbody (fun s' => endsRet_not_normal d.body hgd.2.1 f _ _ s')

end Proofs.Ctl
