import Proofs.Lemmas.HierWalk
/-! C08: method lookup up the extends chain finds the most-derived / nearest definition; `like`. -/
namespace Proofs.Hier
open Model.Hier Spec.Hier

variable {α : Type}

/-- lookups tag the answer with the class it was found in -/
theorem walkTag_found (G : Graph) (g : Cls → Option α) (f : Nat) (e : Name) (d : Cls) (r : α)
    (h : walkUp G (fun c => some ((g c).map (fun r => (c, r)))) f (some e) = .found (d, r)) :
    ∃ c0, getClass G e = some c0 ∧ MostDerived G g c0 d r := by
  obtain ⟨c0, d', hc0, via, hvia, hd, hnone⟩ := walkUp_found G (fun c => (g c).map (fun r => (c, r))) f e (d, r) h
  refine ⟨c0, hc0, ?_⟩
  dsimp only at hd
  cases hg : g d' with
  | none => rw [hg] at hd; cases hd
  | some r' =>
    rw [hg] at hd
    simp only [Option.map_some, Option.some.injEq, Prod.mk.injEq] at hd
    obtain ⟨rfl, rfl⟩ := hd
    refine ⟨via, hvia, hg, ?_⟩
    intro x hx
    have := hnone x hx
    dsimp only at this
    cases hgx : g x with
    | none => rfl
    | some _ => rw [hgx] at this; cases this

theorem walkTag_complete (G : Graph) (hn : NoCycle (csucc G)) (g : Cls → Option α) (e : Name) (c0 d : Cls) (r : α)
    (hc0 : getClass G e = some c0) (hm : MostDerived G g c0 d r) :
    walkUp G (fun c => some ((g c).map (fun r => (c, r)))) (classFuel G) (some e) = .found (d, r) := by
  obtain ⟨via, hvia, hd, hnone⟩ := hm
  have := walkUp_complete G (fun c => (g c).map (fun r => (c, r))) c0 d (d, r) via hvia (by simp [hd])
    (by intro x hx; simp [hnone x hx]) (classFuel G) e hc0
  rcases this with h | h
  · exact h
  · exact absurd h (walkUp_no_fuel G hn _ (by intro c; simp) (some e))

theorem walkTag_none (G : Graph) (g : Cls → Option α) (f : Nat) (e : Name) (c0 : Cls) (hc0 : getClass G e = some c0)
    (h : walkUp G (fun c => some ((g c).map (fun r => (c, r)))) f (some e) = .absent ∨
         ∃ n, walkUp G (fun c => some ((g c).map (fun r => (c, r)))) f (some e) = .missing n) :
    NoneDeclares G g c0 := by
  have := walkUp_not_found G (fun c => (g c).map (fun r => (c, r))) f e h c0 hc0
  intro via d hvia
  have h2 := this via d hvia
  dsimp only at h2
  cases hg : g d with
  | none => rfl
  | some _ => rw [hg] at h2; cases h2

/-! ### lookupFrom -/

theorem lookupFrom_found (G : Graph) (pick : Cls → List Meth) (c d : Cls) (m : Name) (x : Meth)
    (h : lookupFrom G pick c m = .found (d, x)) : MostDerived G (fun k => findM (pick k) m) c d x := by
  unfold lookupFrom at h
  split at h
  · rename_i y hy
    simp only [Walk.found.injEq, Prod.mk.injEq] at h
    obtain ⟨rfl, rfl⟩ := h
    exact ⟨[], AncVia.self c, hy, by simp⟩
  · rename_i hnone
    cases hext : c.ext with
    | none => rw [hext] at h; simp [walkUp, classFuel] at h
    | some p =>
      rw [hext] at h
      obtain ⟨c0, hc0, via, hvia, hd, hno⟩ := walkTag_found G (fun k => findM (pick k) m) _ p d x h
      refine ⟨c :: via, AncVia.up hext hc0 hvia, hd, ?_⟩
      intro y hy
      rcases List.mem_cons.1 hy with rfl | hy
      · exact hnone
      · exact hno y hy

theorem lookupFrom_no_fuel (G : Graph) (hn : NoCycle (csucc G)) (pick : Cls → List Meth) (c : Cls) (m : Name) :
    lookupFrom G pick c m ≠ .fuel := by
  unfold lookupFrom
  split
  · simp
  · exact walkUp_no_fuel G hn _ (by intro c; simp) c.ext

theorem lookupFrom_complete (G : Graph) (hn : NoCycle (csucc G)) (pick : Cls → List Meth) (c d : Cls) (m : Name)
    (x : Meth) (h : MostDerived G (fun k => findM (pick k) m) c d x) : lookupFrom G pick c m = .found (d, x) := by
  obtain ⟨via, hvia, hd, hnone⟩ := h
  unfold lookupFrom
  cases hvia with
  | self => simp only at hd; rw [hd]
  | @up _ d' _ p via' hp hd' hrest =>
    have hc : findM (pick c) m = none := hnone c (by simp)
    rw [hc, hp]
    exact walkTag_complete G hn (fun k => findM (pick k) m) p d' d x hd'
      ⟨via', hrest, hd, fun e he => hnone e (by simp [he])⟩

theorem lookupFrom_none (G : Graph) (pick : Cls → List Meth) (c : Cls) (m : Name)
    (h : lookupFrom G pick c m = .absent ∨ ∃ n, lookupFrom G pick c m = .missing n) :
    NoneDeclares G (fun k => findM (pick k) m) c := by
  unfold lookupFrom at h
  split at h
  · simp at h
  · rename_i hnone
    intro via d hvia
    cases hvia with
    | self => exact hnone
    | up hp hd' hrest =>
      rw [hp] at h
      exact walkTag_none G (fun k => findM (pick k) m) _ _ _ hd' h _ _ hrest

theorem lookupFrom_no_missing (G : Graph) (hwf : WF G) (pick : Cls → List Meth) (c : Cls) (hc : Declared G c)
    (m : Name) (n : Name) : lookupFrom G pick c m ≠ .missing n := by
  intro h
  unfold lookupFrom at h
  split at h
  · cases h
  · obtain ⟨hnone, hwho⟩ := walkUp_missing G _ _ _ _ h
    rcases hwho with h | ⟨c', hc', hext⟩
    · have := (hwf.1 c (getClass_mem hc)).1 n h
      rw [hnone] at this; cases this
    · have := (hwf.1 c' hc').1 n hext
      rw [hnone] at this; cases this

/-- the lookup is a function of the chain: found, or nobody declares -/
theorem lookupFrom_cases (G : Graph) (hn : NoCycle (csucc G)) (pick : Cls → List Meth) (c : Cls) (m : Name) :
    (∃ d x, lookupFrom G pick c m = .found (d, x) ∧ MostDerived G (fun k => findM (pick k) m) c d x) ∨
    ((lookupFrom G pick c m = .absent ∨ ∃ n, lookupFrom G pick c m = .missing n) ∧
      NoneDeclares G (fun k => findM (pick k) m) c) := by
  cases h : lookupFrom G pick c m with
  | fuel => exact absurd h (lookupFrom_no_fuel G hn pick c m)
  | found r =>
    obtain ⟨d, x⟩ := r
    exact Or.inl ⟨d, x, rfl, lookupFrom_found G pick c d m x h⟩
  | absent => exact Or.inr ⟨Or.inl rfl, lookupFrom_none G pick c m (Or.inl h)⟩
  | missing n => exact Or.inr ⟨Or.inr ⟨n, rfl⟩, lookupFrom_none G pick c m (Or.inr ⟨n, h⟩)⟩

theorem mostDerived_not_none {G : Graph} {g : Cls → Option α} {c d : Cls} {r : α}
    (h : MostDerived G g c d r) (hn : NoneDeclares G g c) : False := by
  obtain ⟨via, hvia, hd, _⟩ := h
  have := hn via d hvia
  rw [this] at hd; cases hd

/-! ### parent:: -/

theorem visitBoth_eq (m : Name) : visitBoth m = fun c => some ((declAny m c).map (fun r => (c, r))) := by
  funext c
  unfold visitBoth declAny
  cases findM c.meths m with
  | some x => rfl
  | none => cases findM c.smeths m <;> rfl

/-! ### like -/

theorem likeMeths_spec (G : Graph) (hn : NoCycle (csucc G)) (c : Cls) : ∀ targets : List Meth,
    ∃ b, likeMeths G c targets = some b ∧ (b = true ↔ LikeSpec G c targets) := by
  intro targets
  induction targets with
  | nil => exact ⟨true, rfl, by simp [LikeSpec]⟩
  | cons tm r ih =>
    obtain ⟨b, hb, hp⟩ := ih
    have hcons : LikeSpec G c (tm :: r) ↔
        (∃ d x, MostDerived G (declInst tm.name) c d x ∧ x.arity = tm.arity) ∧ LikeSpec G c r := by
      unfold LikeSpec
      constructor
      · intro h; exact ⟨h tm (by simp), fun t ht => h t (by simp [ht])⟩
      · rintro ⟨h1, h2⟩ t ht
        rcases List.mem_cons.1 ht with rfl | ht
        · exact h1
        · exact h2 t ht
    simp only [likeMeths]
    rcases lookupFrom_cases G hn (·.meths) c tm.name with ⟨d, x, hl, hm⟩ | ⟨hl, hnd⟩
    · rw [hl]
      simp only
      by_cases har : x.arity = tm.arity
      · rw [if_pos har]
        refine ⟨b, hb, ?_⟩
        rw [hcons, hp]
        constructor
        · intro h; exact ⟨⟨d, x, hm, har⟩, h⟩
        · intro h; exact h.2
      · rw [if_neg har]
        refine ⟨false, rfl, ?_⟩
        simp only [Bool.false_eq_true, false_iff]
        rw [hcons]
        rintro ⟨⟨d', x', hm', har'⟩, _⟩
        have h1 := lookupFrom_complete G hn (·.meths) c d' tm.name x' hm'
        rw [hl] at h1
        simp only [Walk.found.injEq, Prod.mk.injEq] at h1
        exact har (h1.2 ▸ har')
    · have hfalse : ¬ LikeSpec G c (tm :: r) := by
        rw [hcons]
        rintro ⟨⟨d', x', hm', _⟩, _⟩
        exact mostDerived_not_none hm' hnd
      rcases hl with hl | ⟨n, hl⟩
      · rw [hl]; exact ⟨false, rfl, by simp [hfalse]⟩
      · rw [hl]; exact ⟨false, rfl, by simp [hfalse]⟩

end Proofs.Hier
