import Model.ConvBuf
/-! Lemmas for `Model.ConvBuf`: with one argument list per call in flight, the invariant
"the slots a caller has written hold its own values, whatever it has invoked received its own values"
is preserved by every step of every caller. -/
namespace Proofs.ConvBuf
open Model.ConvBuf

def Inv {α : Type} (bufOf : Nat → Nat) (args : Nat → List α) (n : Nat) (s : St α) : Prop :=
  (∀ c i, i < s.pc c → i < n → s.buf (bufOf c) i = (args c)[i]?) ∧
  (∀ c r, s.recv c = some r → r = passed args n c)

theorem inv_init {α : Type} (bufOf : Nat → Nat) (args : Nat → List α) (n : Nat) :
    Inv bufOf args n (St.init : St α) := by
  refine ⟨?_, ?_⟩
  · intro c i h _; simp [St.init] at h
  · intro c r h; simp [St.init] at h

theorem inv_step {α : Type} (bufOf : Nat → Nat) (hinj : ∀ a b, bufOf a = bufOf b → a = b)
    (args : Nat → List α) (n : Nat) (s : St α) (c' : Nat) (h : Inv bufOf args n s) :
    Inv bufOf args n (step bufOf args n s c') := by
  obtain ⟨hb, hr⟩ := h
  unfold step
  by_cases h1 : s.pc c' < n
  · rw [if_pos h1]
    refine ⟨?_, hr⟩
    intro c i hi hn
    simp only [upd] at hi ⊢
    by_cases hc : c = c'
    · subst hc
      simp only [if_true] at hi ⊢
      by_cases hip : i = s.pc c
      · subst hip; simp [upd]
      · simp only [upd]; rw [if_neg hip]; exact hb c i (by omega) hn
    · have hne : bufOf c ≠ bufOf c' := fun e => hc (hinj _ _ e)
      rw [if_neg hc] at hi
      rw [if_neg hne]
      exact hb c i hi hn
  · rw [if_neg h1]
    by_cases h2 : s.pc c' = n
    · rw [if_pos h2]
      refine ⟨?_, ?_⟩
      · intro c i hi hn
        simp only [upd] at hi ⊢
        by_cases hc : c = c'
        · subst hc; exact hb c i (by omega) hn
        · rw [if_neg hc] at hi; exact hb c i hi hn
      · intro c r hrc
        simp only [upd] at hrc
        by_cases hc : c = c'
        · subst hc
          rw [if_pos rfl] at hrc
          injection hrc with hrc
          subst hrc
          unfold passed
          apply List.map_congr_left
          intro i hi
          have : i < n := List.mem_range.mp hi
          exact hb c i (by omega) this
        · rw [if_neg hc] at hrc; exact hr c r hrc
    · rw [if_neg h2]; exact ⟨hb, hr⟩

theorem inv_runFrom {α : Type} (bufOf : Nat → Nat) (hinj : ∀ a b, bufOf a = bufOf b → a = b)
    (args : Nat → List α) (n : Nat) (sched : List Nat) :
    ∀ s : St α, Inv bufOf args n s → Inv bufOf args n (runFrom bufOf args n s sched) := by
  induction sched with
  | nil => intro s h; exact h
  | cons c rest ih =>
    intro s h
    exact ih _ (inv_step bufOf hinj args n s c h)

theorem run_private_exact {α : Type} (bufOf : Nat → Nat) (hinj : ∀ a b, bufOf a = bufOf b → a = b)
    (args : Nat → List α) (n : Nat) (sched : List Nat) (c : Nat) (r : List (Option α))
    (h : (run bufOf args n sched).recv c = some r) : r = passed args n c :=
  (inv_runFrom bufOf hinj args n sched St.init (inv_init bufOf args n)).2 c r h

end Proofs.ConvBuf
