import Proofs.Lemmas.SerTop
/-! What `unserialize` returns for `serialize v`, for **every** value (`rb`): keyed slots of an
`ArrayValue` included. The exact round trip on canonical values (`rtV`) is the special case
`rb v = v`. -/
namespace Proofs.Ser
open Model.Ser

/-- the key `unserialize` reads back for slot `idx` named `k` -/
def slotKeyPV (idx : Nat) (k : Bytes) : PV :=
  if k = [] then .int idx
  else
    match intKeyOf k with
    | some n => .int n
    | none => .str k

mutual
/-- the value `unserialize (serialize v)` is: scalars unchanged; an array is rebuilt by
`parsePhpArray` from the (key, value) entries `serialize` wrote -/
def rb : PV → PV
  | .null => .null
  | .bool b => .bool b
  | .int i => .int i
  | .str s => .str s
  | .float r => .float r
  | .arr items => mkArray (rbItems 0 items)
  | .obj props => mkArray (rbProps props)
def rbItems : Nat → PL → List (PV × PV)
  | _, .nil => []
  | idx, .cons k v rest => (slotKeyPV idx k, rb v) :: rbItems (idx + 1) rest
def rbProps : PL → List (PV × PV)
  | .nil => []
  | .cons k v rest => (.str k, rb v) :: rbProps rest
end

mutual
/-- sizes that fit the 64-bit counters of the code, float texts that are float lexemes -/
def Sized : PV → Prop
  | .null => True
  | .bool _ => True
  | .int i => -9223372036854775808 ≤ i ∧ i ≤ 9223372036854775807
  | .str s => s.length ≤ maxInt
  | .float r => floatLex r = true ∧ 59 ∉ r
  | .arr items => SizedL items ∧ items.len ≤ maxInt
  | .obj props => SizedL props ∧ props.len ≤ maxInt
def SizedL : PL → Prop
  | .nil => True
  | .cons k v rest => k.length ≤ maxInt ∧ Sized v ∧ SizedL rest
end

theorem intVal_range {neg : Bool} {ds : Bytes} {n : Int} (h : intVal neg ds = some n) :
    -9223372036854775808 ≤ n ∧ n ≤ 9223372036854775807 := by
  unfold intVal at h
  split at h
  · simp at h
  · split at h
    · split at h
      · simp only [Option.some.injEq] at h; unfold maxInt at *; omega
      · simp at h
    · split at h
      · simp only [Option.some.injEq] at h; unfold maxInt at *; omega
      · simp at h

theorem intKeyOf_spec {k : Bytes} {n : Int} (h : intKeyOf k = some n) :
    itoa n = k ∧ -9223372036854775808 ≤ n ∧ n ≤ 9223372036854775807 := by
  unfold intKeyOf at h
  split at h
  · rename_i m hm
    split at h
    · rename_i hk
      simp only [Option.some.injEq] at h; subst h
      exact ⟨hk.2, intVal_range hm⟩
    · simp at h
  · simp at h

theorem slotKey_len (idx : Nat) (k : Bytes) : 3 ≤ (slotKey idx k).length := by
  unfold slotKey
  split
  · simp
  · split <;> simp [serStr] <;> omega

theorem keyOk_slotKeyPV (idx : Nat) (k : Bytes) : keyOk (slotKeyPV idx k) = true := by
  unfold slotKeyPV
  split
  · rfl
  · split <;> rfl

/-- the key `serialize` writes for a slot is read back as `slotKeyPV` -/
theorem pValue_slotKey (idx : Nat) (k : Bytes) (hidx : idx ≤ maxInt) (hk : k.length ≤ maxInt)
    (rest : Bytes) (fuel : Nat) :
    pValue (fuel + 1) (slotKey idx k ++ rest) = some (slotKeyPV idx k, rest) := by
  unfold slotKey slotKeyPV
  split
  · have hi : itoa (idx : Int) = dec idx := by simp [itoa]
    have := pValue_int (idx : Int) (by omega) (by unfold maxInt at hidx; omega) rest fuel
    rw [hi] at this
    exact this
  · cases hn : intKeyOf k with
    | some n =>
      obtain ⟨_, h1, h2⟩ := intKeyOf_spec hn
      exact pValue_int n h1 h2 rest fuel
    | none => exact pValue_str k rest hk fuel

mutual
theorem rtG : (v : PV) → Sized v → ∀ bs, ser v = some bs → ∀ fuel rest,
    2 * (bs ++ rest).length < fuel → pValue fuel (bs ++ rest) = some (rb v, rest)
  | .null, _, bs, hs, fuel, rest, hf => by
    simp only [ser, Option.some.injEq] at hs; subst hs
    cases fuel with
    | zero => simp at hf
    | succ f => simp [pValue, pNull, rb]
  | .bool b, _, bs, hs, fuel, rest, hf => by
    simp only [ser, Option.some.injEq] at hs; subst hs
    cases fuel with
    | zero => simp at hf
    | succ f => cases b <;> simp [pValue, pBool, rb]
  | .int i, hc, bs, hs, fuel, rest, hf => by
    simp only [ser, Option.some.injEq] at hs; subst hs
    cases fuel with
    | zero => simp at hf
    | succ f => exact pValue_int i hc.1 hc.2 rest f
  | .str s, hc, bs, hs, fuel, rest, hf => by
    simp only [ser, Option.some.injEq] at hs; subst hs
    cases fuel with
    | zero => simp at hf
    | succ f => exact pValue_str s rest hc f
  | .float r, hc, bs, hs, fuel, rest, hf => by
    simp only [ser, Option.some.injEq] at hs; subst hs
    cases fuel with
    | zero => simp at hf
    | succ f => exact pValue_float r rest hc.1 hc.2 f
  | .arr items, hc, bs, hs, fuel, rest, hf => by
    obtain ⟨hci, hlen⟩ := hc
    simp only [ser] at hs
    obtain ⟨body, hb, hbs⟩ := wrapArr_some hs
    subst hbs
    cases fuel with
    | zero => simp at hf
    | succ f =>
      rw [pValue_arr _ hlen]
      have := rtGItems items hci 0 body (by omega) hb f (125 :: rest) (by
        simp [List.length_append] at hf ⊢; omega)
      rw [this]
      simp [closeArr, rb]
  | .obj props, hc, bs, hs, fuel, rest, hf => by
    obtain ⟨hcp, hlen⟩ := hc
    simp only [ser] at hs
    obtain ⟨body, hb, hbs⟩ := wrapArr_some hs
    subst hbs
    cases fuel with
    | zero => simp at hf
    | succ f =>
      rw [pValue_arr _ hlen]
      have := rtGProps props hcp body hb f (125 :: rest) (by
        simp [List.length_append] at hf ⊢; omega)
      rw [this]
      simp [closeArr, rb]
theorem rtGItems : (l : PL) → SizedL l → ∀ idx bs, idx + l.len ≤ maxInt → serItems idx l = some bs →
    ∀ fuel rest, 2 * (bs ++ rest).length + 1 < fuel →
    pEntries fuel l.len (bs ++ rest) = some (rbItems idx l, rest)
  | .nil, _, idx, bs, _, hs, fuel, rest, _ => by
    simp only [serItems, Option.some.injEq] at hs; subst hs
    simp [PL.len, pEntries, rbItems]
  | .cons k v tl, hc, idx, bs, hidx, hs, fuel, rest, hf => by
    obtain ⟨hk, hcv, hct⟩ := hc
    simp only [serItems] at hs
    obtain ⟨x, y, z, hx, hy, hz, hbs⟩ := cat3_some hs
    simp only [Option.some.injEq] at hx
    subst hx hbs
    simp only [PL.len] at hidx ⊢
    have hx3 := slotKey_len idx k
    cases fuel with
    | zero => simp at hf
    | succ f =>
      rw [pEntries]
      cases f with
      | zero => simp only [List.length_append] at hf; omega
      | succ f' =>
      have h1 : pValue (f' + 1) (slotKey idx k ++ (y ++ z ++ rest)) = some (slotKeyPV idx k, y ++ z ++ rest) :=
        pValue_slotKey idx k (by omega) hk _ f'
      rw [show slotKey idx k ++ y ++ z ++ rest = slotKey idx k ++ (y ++ z ++ rest) by simp [List.append_assoc],
        h1, keyFilter_of_ok (keyOk_slotKeyPV idx k)]
      simp only
      have h2 := rtG v hcv y hy (f' + 1) (z ++ rest) (by simp only [List.length_append] at hf ⊢; omega)
      rw [List.append_assoc y z rest, h2]
      simp only
      have h3 := rtGItems tl hct (idx + 1) z (by omega) hz (f' + 1) rest (by simp only [List.length_append] at hf ⊢; omega)
      rw [h3]
      simp [rbItems]
theorem rtGProps : (l : PL) → SizedL l → ∀ bs, serProps l = some bs →
    ∀ fuel rest, 2 * (bs ++ rest).length + 1 < fuel →
    pEntries fuel l.len (bs ++ rest) = some (rbProps l, rest)
  | .nil, _, bs, hs, fuel, rest, _ => by
    simp only [serProps, Option.some.injEq] at hs; subst hs
    simp [PL.len, pEntries, rbProps]
  | .cons k v tl, hc, bs, hs, fuel, rest, hf => by
    obtain ⟨hk, hcv, hct⟩ := hc
    simp only [serProps] at hs
    obtain ⟨x, y, z, hx, hy, hz, hbs⟩ := cat3_some hs
    simp only [Option.some.injEq] at hx
    subst hx hbs
    simp only [PL.len]
    cases fuel with
    | zero => simp at hf
    | succ f =>
      rw [pEntries]
      cases f with
      | zero => simp [List.length_append, serStr] at hf
      | succ f' =>
        have h1 : pValue (f' + 1) (serStr k ++ (y ++ z ++ rest)) = some (.str k, y ++ z ++ rest) :=
          pValue_str k _ hk f'
        rw [show serStr k ++ y ++ z ++ rest = serStr k ++ (y ++ z ++ rest) by simp [List.append_assoc], h1,
          keyFilter_of_ok (by rfl)]
        simp only
        have h2 := rtG v hcv y hy (f' + 1) (z ++ rest) (by simp only [List.length_append] at hf ⊢; omega)
        rw [List.append_assoc y z rest, h2]
        simp only
        have hk6 : (serStr k).length ≥ 6 := by simp [serStr]; omega
        have h3 := rtGProps tl hct z hz (f' + 1) rest (by simp only [List.length_append] at hf ⊢; omega)
        rw [h3]
        simp [rbProps]
end

/-- `unserialize (serialize v)` is `rb v`, for every sized value -/
theorem unserialize_ser_rb (v : PV) (hc : Sized v) (bs : Bytes) (hs : ser v = some bs) :
    unserializeT bs = .value (rb v) := by
  obtain ⟨hne, hp⟩ := ser_prefix v bs hs
  have h := rtG v hc bs hs (2 * bs.length + 1) [] (by simp)
  simp only [List.append_nil] at h
  simp [unserializeT, hne, hp, parseAll, h]

mutual
/-- `serialize` answers on every value of the model -/
theorem ser_total : (v : PV) → ∃ bs, ser v = some bs
  | .null => ⟨_, rfl⟩
  | .bool _ => ⟨_, rfl⟩
  | .int _ => ⟨_, rfl⟩
  | .str _ => ⟨_, rfl⟩
  | .float _ => ⟨_, rfl⟩
  | .arr items => by
    obtain ⟨body, hb⟩ := serItems_total items 0
    simp only [ser, hb, wrapArr]; exact ⟨_, rfl⟩
  | .obj props => by
    obtain ⟨body, hb⟩ := serProps_total props
    simp only [ser, hb, wrapArr]; exact ⟨_, rfl⟩
theorem serItems_total : (l : PL) → ∀ idx, ∃ bs, serItems idx l = some bs
  | .nil, _ => ⟨_, rfl⟩
  | .cons k v rest, idx => by
    obtain ⟨y, hy⟩ := ser_total v
    obtain ⟨z, hz⟩ := serItems_total rest (idx + 1)
    simp only [serItems, hy, hz, cat3]; exact ⟨_, rfl⟩
theorem serProps_total : (l : PL) → ∃ bs, serProps l = some bs
  | .nil => ⟨_, rfl⟩
  | .cons k v rest => by
    obtain ⟨y, hy⟩ := ser_total v
    obtain ⟨z, hz⟩ := serProps_total rest
    simp only [serProps, hy, hz, cat3]; exact ⟨_, rfl⟩
end

end Proofs.Ser
