import Proofs.Lemmas.HierBfs
/-! C08: `anyM`, the extends-chain walk `walkUp` (fuel sufficiency by counting, characterisation), and the
recursive `checkInterfaceIs` (`dfs`). -/
namespace Proofs.Hier
open Model.Hier Spec.Hier

/-! ### anyM -/

theorem anyM_true {α : Type} (f : α → Option Bool) : ∀ l, anyM f l = some true → ∃ x ∈ l, f x = some true := by
  intro l
  induction l with
  | nil => intro h; simp [anyM] at h
  | cons a r ih =>
    intro h
    simp only [anyM] at h
    split at h
    · cases h
    · rename_i hx; exact ⟨a, by simp, hx⟩
    · obtain ⟨x, hx, hfx⟩ := ih h; exact ⟨x, by simp [hx], hfx⟩

theorem anyM_false {α : Type} (f : α → Option Bool) : ∀ l, anyM f l = some false → ∀ x ∈ l, f x = some false := by
  intro l
  induction l with
  | nil => intro _ x hx; simp at hx
  | cons a r ih =>
    intro h x hx
    simp only [anyM] at h
    split at h
    · cases h
    · cases h
    · rename_i ha
      rcases List.mem_cons.1 hx with rfl | hx
      · exact ha
      · exact ih h x hx

theorem anyM_none {α : Type} (f : α → Option Bool) : ∀ l, anyM f l = none → ∃ x ∈ l, f x = none := by
  intro l
  induction l with
  | nil => intro h; simp [anyM] at h
  | cons a r ih =>
    intro h
    simp only [anyM] at h
    split at h
    · rename_i ha; exact ⟨a, by simp, ha⟩
    · cases h
    · obtain ⟨x, hx, hfx⟩ := ih h; exact ⟨x, by simp [hx], hfx⟩

/-- if every element is decided, so is the list -/
theorem anyM_spec {α : Type} (f : α → Option Bool) (P : α → Prop) (l : List α)
    (h : ∀ x ∈ l, ∃ b, f x = some b ∧ (b = true ↔ P x)) :
    ∃ b, anyM f l = some b ∧ (b = true ↔ ∃ x ∈ l, P x) := by
  cases hr : anyM f l with
  | none =>
    obtain ⟨x, hx, hfx⟩ := anyM_none f l hr
    obtain ⟨b, hb, _⟩ := h x hx
    rw [hfx] at hb; cases hb
  | some b =>
    refine ⟨b, rfl, ?_⟩
    cases b with
    | true =>
      simp only [true_iff]
      obtain ⟨x, hx, hfx⟩ := anyM_true f l hr
      obtain ⟨b, hb, hp⟩ := h x hx
      rw [hfx] at hb; cases hb
      exact ⟨x, hx, hp.1 rfl⟩
    | false =>
      simp only [Bool.false_eq_true, false_iff]
      rintro ⟨x, hx, hpx⟩
      have hfx := anyM_false f l hr x hx
      obtain ⟨b, hb, hp⟩ := h x hx
      rw [hfx] at hb; cases hb
      exact absurd (hp.2 hpx) (by simp)

/-! ### chains are bounded -/

theorem chain_bound {succ : Name → List Name} (hn : NoCycle succ) (dom : List Name) (l : List Name)
    (h : Chain succ l) (hd : ∀ x ∈ l.dropLast, x ∈ dom) : l.length ≤ dom.length + 1 := by
  have hnd := chain_nodup hn l h
  have hnd' : l.dropLast.Nodup := List.Nodup.sublist (List.dropLast_sublist l) hnd
  have := nodup_subset_length l.dropLast dom hnd' hd
  rw [List.length_dropLast] at this
  omega

theorem chain_bound_all {succ : Name → List Name} (hn : NoCycle succ) (dom : List Name) (l : List Name)
    (h : Chain succ l) (hd : ∀ x ∈ l, x ∈ dom) : l.length ≤ dom.length :=
  nodup_subset_length l dom (chain_nodup hn l h) hd

/-! ### walkUp: fuel -/

theorem csucc_of {G : Graph} {e p : Name} {c : Cls} (hc : getClass G e = some c) (hp : c.ext = some p) :
    p ∈ csucc G e := by
  unfold csucc; rw [hc]; simp [hp]

/-- running out of fuel exhibits a chain of `fuel + 1` names, all but the last declared -/
theorem walkUp_fuel_chain {α : Type} (G : Graph) (visit : Cls → Option (Option α)) (hv : ∀ c, visit c ≠ none) :
    ∀ f e, walkUp G visit f (some e) = .fuel →
      ∃ l, l.length = f ∧ Chain (csucc G) (e :: l) ∧ ∀ x ∈ (e :: l).dropLast, x ∈ G.classes.map (·.name) := by
  intro f
  induction f with
  | zero => intro e _; exact ⟨[], rfl, Chain.single e, by simp⟩
  | succ f ih =>
    intro e h
    simp only [walkUp] at h
    split at h
    · cases h
    · rename_i c hc
      split at h
      · rename_i hvc; exact absurd hvc (hv c)
      · cases h
      · cases hext : c.ext with
        | none => rw [hext] at h; simp [walkUp] at h
        | some p =>
          rw [hext] at h
          obtain ⟨l, hl, hch, hdecl⟩ := ih p h
          refine ⟨p :: l, by simp [hl], Chain.cons (csucc_of hc hext) hch, ?_⟩
          intro x hx
          rw [List.dropLast_cons_cons] at hx
          rcases List.mem_cons.1 hx with rfl | hx
          · exact classNames_mem hc
          · exact hdecl x hx

/-- **fuel sufficiency**: without a cycle among the classes, `classFuel` is enough for any walk whose visits answer -/
theorem walkUp_no_fuel {α : Type} (G : Graph) (hn : NoCycle (csucc G)) (visit : Cls → Option (Option α))
    (hv : ∀ c, visit c ≠ none) (ext : Option Name) : walkUp G visit (classFuel G) ext ≠ .fuel := by
  intro h
  cases ext with
  | none => simp [classFuel, walkUp] at h
  | some e =>
    obtain ⟨l, hl, hch, hdecl⟩ := walkUp_fuel_chain G visit hv _ e h
    have := chain_bound hn _ _ hch hdecl
    simp only [List.length_cons, List.length_map, hl, classFuel] at this
    omega

/-- a walk can only miss a name that some class on the way names as its parent -/
theorem walkUp_missing {α : Type} (G : Graph) (visit : Cls → Option (Option α)) :
    ∀ f ext n, walkUp G visit f ext = .missing n →
      getClass G n = none ∧ (ext = some n ∨ ∃ c ∈ G.classes, c.ext = some n) := by
  intro f
  induction f with
  | zero =>
    intro ext n h
    cases ext <;> simp [walkUp] at h
  | succ f ih =>
    intro ext n h
    cases ext with
    | none => simp [walkUp] at h
    | some e =>
      simp only [walkUp] at h
      split at h
      · rename_i hnone
        cases h
        exact ⟨hnone, Or.inl rfl⟩
      · rename_i c hc
        split at h
        · cases h
        · cases h
        · obtain ⟨h1, h2⟩ := ih _ _ h
          refine ⟨h1, Or.inr ?_⟩
          rcases h2 with h2 | h2
          · exact ⟨c, getClass_mem hc, h2⟩
          · exact h2

/-! ### walkUp: meaning for the subtype tests -/

/-- what one class contributes to "is a `t`" -/
def HitSpec (G : Graph) (t : Name) (c : Cls) : Prop := t = c.name ∨ ∃ i ∈ c.impl, IReach G i t

theorem isA_iff (G : Graph) (c : Cls) (t : Name) :
    IsA G c t ↔ HitSpec G t c ∨ ∃ p d, c.ext = some p ∧ getClass G p = some d ∧ IsA G d t := by
  constructor
  · intro h
    cases h with
    | self => exact Or.inl (Or.inl rfl)
    | impl hi hr => exact Or.inl (Or.inr ⟨_, hi, hr⟩)
    | ext hp hd hr => exact Or.inr ⟨_, _, hp, hd, hr⟩
  · rintro (h | ⟨p, d, hp, hd, hr⟩)
    · rcases h with rfl | ⟨i, hi, hr⟩
      · exact IsA.self c
      · exact IsA.impl hi hr
    · exact IsA.ext hp hd hr

/-- the visit answers and its answer is `Hit` -/
def VisitDecides (visit : Cls → Option (Option Unit)) (Hit : Cls → Prop) : Prop :=
  ∀ c, (visit c = some (some ()) ∧ Hit c) ∨ (visit c = some none ∧ ¬ Hit c)

/-- "some class reached from the parent name `ext` is a `t`" -/
def AboveIsA (G : Graph) (t : Name) (ext : Option Name) : Prop :=
  ∃ p d, ext = some p ∧ getClass G p = some d ∧ IsA G d t

theorem walkUp_isA (G : Graph) (t : Name) (visit : Cls → Option (Option Unit))
    (hv : VisitDecides visit (HitSpec G t)) : ∀ f ext,
    (∀ r, walkUp G visit f ext = .found r → AboveIsA G t ext) ∧
    (walkUp G visit f ext = .absent → ¬ AboveIsA G t ext) ∧
    (∀ n, walkUp G visit f ext = .missing n → ¬ AboveIsA G t ext) := by
  intro f
  induction f with
  | zero =>
    intro ext
    cases ext with
    | none =>
      refine ⟨by simp [walkUp], fun _ => ?_, by simp [walkUp]⟩
      rintro ⟨p, d, hp, _⟩; cases hp
    | some e => simp [walkUp]
  | succ f ih =>
    intro ext
    cases ext with
    | none =>
      refine ⟨by simp [walkUp], fun _ => ?_, by simp [walkUp]⟩
      rintro ⟨p, d, hp, _⟩; cases hp
    | some e =>
      simp only [walkUp]
      split
      · rename_i hnone
        refine ⟨by simp, by simp, fun n _ => ?_⟩
        rintro ⟨p, d, hp, hd, _⟩
        cases hp; rw [hnone] at hd; cases hd
      · rename_i c hc
        rcases hv c with ⟨hvis, hhit⟩ | ⟨hvis, hnhit⟩
        · rw [hvis]
          refine ⟨fun _ _ => ⟨e, c, rfl, hc, (isA_iff G c t).2 (Or.inl hhit)⟩, by simp, by simp⟩
        · rw [hvis]
          have key : AboveIsA G t (some e) ↔ AboveIsA G t c.ext := by
            constructor
            · rintro ⟨p, d, hp, hd, hr⟩
              cases hp; rw [hc] at hd; cases hd
              rcases (isA_iff G _ t).1 hr with h | h
              · exact absurd h hnhit
              · exact h
            · intro h
              exact ⟨e, c, rfl, hc, (isA_iff G c t).2 (Or.inr h)⟩
          obtain ⟨i1, i2, i3⟩ := ih c.ext
          exact ⟨fun r h => key.2 (i1 r h), fun h => fun ha => i2 h (key.1 ha), fun n h => fun ha => i3 n h (key.1 ha)⟩

/-! ### walkUp: meaning for lookups (pure visits) -/

/-- a found result is the nearest class on the chain for which `g` answers -/
theorem walkUp_found {α : Type} (G : Graph) (g : Cls → Option α) : ∀ f e r,
    walkUp G (fun c => some (g c)) f (some e) = .found r →
      ∃ c0 d, getClass G e = some c0 ∧ MostDerived G g c0 d r := by
  intro f
  induction f with
  | zero => intro e r h; simp [walkUp] at h
  | succ f ih =>
    intro e r h
    simp only [walkUp] at h
    split at h
    · cases h
    · rename_i c hc
      cases hg : g c with
      | some r' =>
        rw [hg] at h
        simp only [Walk.found.injEq] at h
        subst h
        exact ⟨c, c, hc, [], AncVia.self c, hg, by simp⟩
      | none =>
        rw [hg] at h
        simp only at h
        cases hext : c.ext with
        | none => rw [hext] at h; simp [walkUp] at h
        | some p =>
          rw [hext] at h
          obtain ⟨c1, d, hc1, via, hvia, hd, hnone⟩ := ih p r h
          refine ⟨c, d, hc, c :: via, AncVia.up hext hc1 hvia, hd, ?_⟩
          intro x hx
          rcases List.mem_cons.1 hx with rfl | hx
          · exact hg
          · exact hnone x hx

/-- nothing found (chain ended or broke): no class on the chain answers -/
theorem walkUp_not_found {α : Type} (G : Graph) (g : Cls → Option α) : ∀ f e,
    (walkUp G (fun c => some (g c)) f (some e) = .absent ∨ ∃ n, walkUp G (fun c => some (g c)) f (some e) = .missing n) →
      ∀ c0, getClass G e = some c0 → NoneDeclares G g c0 := by
  intro f
  induction f with
  | zero => intro e h; simp [walkUp] at h
  | succ f ih =>
    intro e h c0 hc0
    simp only [walkUp, hc0] at h
    cases hg : g c0 with
    | some r' => rw [hg] at h; simp at h
    | none =>
      rw [hg] at h
      simp only at h
      intro via d hvia
      cases hvia with
      | self => exact hg
      | up hp hd hrest =>
        rw [hp] at h
        exact ih _ h _ hd _ _ hrest

/-- the nearest answering class is what the walk finds, fuel permitting -/
theorem walkUp_complete {α : Type} (G : Graph) (g : Cls → Option α) (c0 d : Cls) (r : α) (via : List Cls)
    (hvia : AncVia G c0 via d) (hd : g d = some r) (hnone : ∀ e ∈ via, g e = none) :
    ∀ f e, getClass G e = some c0 →
      walkUp G (fun c => some (g c)) f (some e) = .found r ∨ walkUp G (fun c => some (g c)) f (some e) = .fuel := by
  induction hvia with
  | self c =>
    intro f e hc
    cases f with
    | zero => right; simp [walkUp]
    | succ f => left; simp [walkUp, hc, hd]
  | @up c d' a p via' hp hd' _ ih =>
    intro f e hc
    cases f with
    | zero => right; simp [walkUp]
    | succ f =>
      have hgc : g c = none := hnone c (by simp)
      simp only [walkUp, hc, hgc, hp]
      exact ih hd (fun e he => hnone e (by simp [he])) f p hd'

/-! ### checkInterfaceIs (recursive, no visited set) -/

theorem isucc_of {G : Graph} {i : Ifc} {p : Name} (hi : getIface G i.name = some i) (hp : p ∈ i.ext) :
    p ∈ isucc G i.name := by
  unfold isucc; rw [hi]; exact hp

/-- running out of depth exhibits a chain of `fuel + 1` declared interfaces -/
theorem dfs_fuel_chain (G : Graph) (t : Name) : ∀ f (i : Ifc), getIface G i.name = some i → dfs G t f i = none →
    ∃ l, l.length = f ∧ Chain (isucc G) (i.name :: l) ∧ ∀ x ∈ i.name :: l, x ∈ G.ifaces.map (·.name) := by
  intro f
  induction f with
  | zero =>
    intro i hi _
    exact ⟨[], rfl, Chain.single _, by intro x hx; simp at hx; subst hx; exact ifaceNames_mem hi⟩
  | succ f ih =>
    intro i hi h
    simp only [dfs] at h
    split at h
    · cases h
    · obtain ⟨p, hp, hfp⟩ := anyM_none _ _ h
      split at hfp
      · cases hfp
      · rename_i j hj
        obtain ⟨l, hl, hch, hdecl⟩ := ih j (getIface_self hj) hfp
        have hjn := getIface_name hj
        rw [hjn] at hch hdecl
        refine ⟨p :: l, by simp [hl], Chain.cons (isucc_of hi hp) hch, ?_⟩
        intro x hx
        rcases List.mem_cons.1 hx with rfl | hx
        · exact ifaceNames_mem hi
        · exact hdecl x hx

theorem dfs_no_fuel (G : Graph) (hn : NoCycle (isucc G)) (t : Name) (i : Ifc) (hi : getIface G i.name = some i) :
    dfs G t (depthFuel G) i ≠ none := by
  intro h
  obtain ⟨l, hl, hch, hdecl⟩ := dfs_fuel_chain G t _ i hi h
  have := chain_bound_all hn _ _ hch hdecl
  simp only [List.length_cons, List.length_map, hl, depthFuel] at this
  omega

/-- when every parent interface that is named is declared, the recursion decides reachability -/
theorem dfs_spec (G : Graph) (hwf : ∀ d ∈ G.ifaces, ∀ j ∈ d.ext, (getIface G j).isSome) (t : Name) :
    ∀ f (i : Ifc) (b : Bool), getIface G i.name = some i → dfs G t f i = some b → (b = true ↔ IReach G i.name t) := by
  intro f
  induction f with
  | zero => intro i b _ h; simp [dfs] at h
  | succ f ih =>
    intro i b hi h
    simp only [dfs] at h
    split at h
    · rename_i hit
      cases h
      simp [hit, IReach.refl]
    · rename_i hit
      cases b with
      | true =>
        simp only [true_iff]
        obtain ⟨p, hp, hfp⟩ := anyM_true _ _ h
        split at hfp
        · cases hfp
        · rename_i j hj
          have := (ih j true (getIface_self hj) hfp).1 rfl
          rw [getIface_name hj] at this
          exact IReach.step hi hp this
      | false =>
        simp only [Bool.false_eq_true, false_iff]
        intro hr
        cases hr with
        | refl => exact hit rfl
        | step hd hj hr' =>
          rw [hi] at hd; cases hd
          have hfp := anyM_false _ _ h _ hj
          have hdecl := hwf i (getIface_mem hi) _ hj
          split at hfp
          · rename_i hnone; rw [hnone] at hdecl; cases hdecl
          · rename_i j' hj'
            have := (ih j' false (getIface_self hj') hfp)
            rw [getIface_name hj'] at this
            exact absurd (this.2 hr') (by simp)

end Proofs.Hier
