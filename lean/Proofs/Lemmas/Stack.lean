import Model.Stack

/-! Lemmas about `Model.Stack`: the floor of a guarded stack machine. -/

namespace Proofs.Lemmas.Stack
open Model.Stack

theorem run_nil (n : Nat) : run [] n = n := rfl

theorem run_cons (o : Op) (ops : List Op) (n : Nat) : run (o :: ops) n = run ops (o.step n) := rfl

theorem run_append (xs ys : List Op) (n : Nat) : run (xs ++ ys) n = run ys (run xs n) := by
  simp [run, List.foldl_append]

/-- a safe op keeps the length at or above the floor -/
theorem step_preserves {F : Nat} {o : Op} (hs : o.safe F = true) {n : Nat} (hn : F ≤ n) : F ≤ o.step n := by
  unfold Op.step
  by_cases hr : o.runs n = true
  · simp only [hr, if_true]
    cases he : o.eff with
    | push k => simp [Effect.apply]; omega
    | none => simpa [Effect.apply] using hn
    | reset r =>
      simp [Op.safe, he] at hs
      simpa [Effect.apply] using hs
    | unknown =>
      simp [Op.safe, he] at hs
      simp [Effect.apply, hs]
    | pop s =>
      simp only [Op.safe, he, List.all_eq_true, List.mem_range] at hs
      simp only [Effect.apply]
      by_cases hlt : n < F + s
      · have h1 := hs (n - F) (by omega)
        have : F + (n - F) = n := by omega
        rw [this, hr] at h1
        simp at h1
      · omega
  · simp only [hr]
    simpa using hn

theorem run_preserves {F : Nat} : ∀ (ops : List Op), (∀ o ∈ ops, o.safe F = true) → ∀ {n : Nat}, F ≤ n → F ≤ run ops n
  | [], _, _, hn => hn
  | o :: ops, h, n, hn => by
    rw [run_cons]
    exact run_preserves ops (fun o' ho' => h o' (List.mem_cons_of_mem _ ho')) (step_preserves (h o (List.mem_cons_self)) hn)

/-- a pop that is not safe has a length at or above the floor from which one call goes below it -/
theorem unsafe_pop_breaks {F s : Nat} (hF : 0 < F) {o : Op} (he : o.eff = .pop s) (hu : o.safe F = false) :
    ∃ n, F ≤ n ∧ o.step n < F := by
  have : ¬ ((List.range s).all (fun i => !o.runs (F + i)) = true) := by
    simpa [Op.safe, he] using hu
  simp only [List.all_eq_true, List.mem_range] at this
  have ⟨i, hi, hri⟩ : ∃ i, i < s ∧ o.runs (F + i) = true := by
    apply Classical.byContradiction
    intro hne
    apply this
    intro i hi
    cases hr : o.runs (F + i) with
    | false => rfl
    | true => exact absurd ⟨i, hi, hr⟩ hne
  refine ⟨F + i, by omega, ?_⟩
  have hstep : o.step (F + i) = F + i - s := by simp [Op.step, hri, he, Effect.apply]
  rw [hstep]
  omega

/-- the unguarded push -/
def push1 : Op := ⟨[], .push 1⟩

theorem push1_step (n : Nat) : push1.step n = n + 1 := by
  simp [push1, Op.step, Op.runs, Effect.apply]

theorem run_pushes (m n : Nat) : run (List.replicate m push1) n = n + m := by
  induction m generalizing n with
  | zero => simp [run]
  | succ m ih =>
    rw [List.replicate_succ, run_cons, push1_step, ih]
    omega

/-- only pushes, pops and reads -/
def Op.plain (o : Op) : Prop := match o.eff with
  | .push _ | .pop _ | .none => True
  | _ => False

/-- for an alphabet of pushes, pops and reads that contains the unguarded push: every sequence started
at the floor stays at or above it **iff** every op is safe. (`0 < F`: there is a sentinel; with floor 0
the left side is trivially true — the model's subtraction stops at 0 where Go would panic.) -/
theorem floor_iff (F : Nat) (hF : 0 < F) (A : List Op) (hplain : ∀ o ∈ A, Op.plain o) (hpush : push1 ∈ A) :
    (∀ seq : List Op, (∀ o ∈ seq, o ∈ A) → F ≤ run seq F) ↔ (∀ o ∈ A, o.safe F = true) := by
  constructor
  · intro h o ho
    cases hs : o.safe F with
    | true => rfl
    | false =>
      exfalso
      have hp := hplain o ho
      cases he : o.eff with
      | pop s =>
        obtain ⟨n, hn, hlt⟩ := unsafe_pop_breaks hF he hs
        have hseq := h (List.replicate (n - F) push1 ++ [o]) (by
          intro o' ho'
          rcases List.mem_append.mp ho' with h1 | h1
          · rw [(List.mem_replicate.mp h1).2]; exact hpush
          · rw [List.mem_singleton.mp h1]; exact ho)
        rw [run_append, run_pushes] at hseq
        have : F + (n - F) = n := by omega
        rw [this] at hseq
        simp only [run, List.foldl_cons, List.foldl_nil] at hseq
        omega
      | push k => simp [Op.safe, he] at hs
      | none => simp [Op.safe, he] at hs
      | reset r => simp [Op.plain, he] at hp
      | unknown => simp [Op.plain, he] at hp
  · intro h seq hseq
    exact run_preserves seq (fun o ho => h o (hseq o ho)) (Nat.le_refl F)

/-- what the decidable obligation on the regenerated facts gives: every effect of every container is safe
for the container's floor -/
theorem safe_of_unsafeEffects_nil {cs : List Container} (h : unsafeEffects cs = []) {c : Container}
    (hc : c ∈ cs) {o : Op} (ho : o ∈ c.ops) : o.safe c.floor = true := by
  simp only [unsafeEffects, List.flatMap_eq_nil_iff] at h
  have h1 := h c hc
  simp only [Container.belowFloor, List.map_eq_nil_iff, List.filter_eq_nil_iff] at h1
  simp only [Container.ops, List.mem_map] at ho
  obtain ⟨e, he, rfl⟩ := ho
  have := h1 e he
  simpa using this

end Proofs.Lemmas.Stack
