import Proofs.Lemmas.RWLin
import Proofs.Lemmas.Reg
/-! C10: the registry behind the lock — the sequential reading of the log of
`Model.RW` instantiated with `Model.Reg.secOf` is `Model.Reg.step` call by call. -/
namespace Proofs.RegConc
open Model.RW Model.Reg Proofs.RW

/-- every method that writes a map holds `Lock`, every reader holds `RLock` or `Lock` -/
def Disc (lockOf : String → Mode) : Prop :=
  ∀ op : Op, permits (lockOf op.method) (if op.writes then .wr else .rd) = true

/-- the finitely many (method, writes?) pairs behind `Op` -/
def methodTable : List (String × Bool) :=
  [("AddClass", true), ("AddInterface", true), ("AddFunc", true), ("GetClass", false),
   ("GetOrLoadClass", false), ("GetInterface", false), ("GetOrLoadInterface", false), ("LoadPkg", false),
   ("GetFunc", false), ("SetConstant", true), ("GetConstant", false), ("EnsureGlobalZVal", true),
   ("SetPhpFileCache", true), ("GetPhpFileCache", false)]

def discB (lockOf : String → Mode) : Bool :=
  methodTable.all (fun p => permits (lockOf p.1) (if p.2 then .wr else .rd))

theorem disc_of_discB (lockOf : String → Mode) (h : discB lockOf = true) : Disc lockOf := by
  simp only [discB, methodTable, List.all_cons, List.all_nil, Bool.and_true, Bool.and_eq_true] at h
  obtain ⟨h1, h2, h3, h4, h5, h6, h7, h8, h9, h10, h11, h12, h13, h14⟩ := h
  intro op
  cases op <;> simp only [Op.method, Op.writes] <;> assumption

theorem secOf_ok (lockOf : String → Mode) (hd : Disc lockOf) (op : Op) : (secOf lockOf op).ok := by
  intro a ha
  have := hd op
  simp only [secOf] at ha ⊢
  cases hw : op.writes <;> simp [hw] at ha this <;> subst ha <;> simpa [Acc.kind] using this

/-- one call of the sequential witness: the registry steps, the caller receives the result -/
def regStep (p : State × (Tid → List Res)) (e : Tid × Op) : State × (Tid → List Res) :=
  ((step p.1 e.2).1, upd p.2 e.1 (p.2 e.1 ++ [(step p.1 e.2).2]))

def regRun (lin : List (Tid × Op)) (p : State × (Tid → List Res)) : State × (Tid → List Res) :=
  lin.foldl regStep p

theorem regRun_store (lin : List (Tid × Op)) (p : State × (Tid → List Res)) :
    (regRun lin p).1 = runOps p.1 (lin.map (·.2)) := by
  induction lin generalizing p with
  | nil => rfl
  | cons e rest ih => simp only [regRun, List.foldl, List.map, runOps] at ih ⊢; exact ih (regStep p e)

theorem seqStep_secOf (lockOf : String → Mode) (p : State × (Tid → List Res)) (t : Tid) (op : Op) :
    seqStep p (t, secOf lockOf op) = regStep p (t, op) := by
  simp only [seqStep, regStep, secOf]
  cases hw : op.writes
  · simp [execAccs, Acc.apply, Proofs.Reg.step_read p.1 op hw]
  · simp [execAccs, Acc.apply]

theorem seqExec_secOf (lockOf : String → Mode) (log : List (Tid × Sec Op (List Res) State))
    (h : ∀ e ∈ log, e.2 = secOf lockOf e.2.lbl) (p : State × (Tid → List Res)) :
    seqExec log p = regRun (log.map (fun e => (e.1, e.2.lbl))) p := by
  induction log generalizing p with
  | nil => rfl
  | cons e rest ih =>
    have he := h e (by simp)
    have hr := ih (fun x hx => h x (by simp [hx]))
    simp only [seqExec, regRun, List.foldl, List.map] at hr ⊢
    have : seqStep p e = regStep p (e.1, e.2.lbl) := by
      conv => lhs; rw [show e = (e.1, e.2) from rfl, he]
      exact seqStep_secOf lockOf p e.1 e.2.lbl
    rw [this]
    exact hr _

theorem mem_logOf {Λ L S : Type} (log : List (Tid × Sec Λ L S)) (e : Tid × Sec Λ L S) (h : e ∈ log) :
    e.2 ∈ logOf log e.1 := by
  simp only [logOf, List.mem_map, List.mem_filter]
  exact ⟨e, ⟨h, by simp⟩, rfl⟩

theorem logOf_map_lbl {Λ L S : Type} (log : List (Tid × Sec Λ L S)) (t : Tid) :
    (logOf log t).map (·.lbl) =
      ((log.map (fun e => (e.1, e.2.lbl))).filter (fun e => e.1 == t)).map (·.2) := by
  induction log with
  | nil => rfl
  | cons e rest ih =>
    simp only [logOf, List.filter, List.map] at ih ⊢
    cases h : e.1 == t <;> simp [ih]

end Proofs.RegConc
