import Proofs.Lemmas.HeapBasic
/-!
C06 helper lemmas: counting the occurrences of an array identity.

`vcnt a v` = how many times the array object `a` occurs in the (unfolded) value `v`.
The invariant of the simulation says every identity occurs at most once in the whole
state; "who else sees an in-place mutation of `a`" is then arithmetic: the places whose
count is 0 are left alone (`updArr_cnt0`), and of the slots of one array only the one
that accounts for the single occurrence changes (`updArrL_single`).
-/
namespace Proofs.Heap
open Model.Heap

/-- weighted sum over a list -/
def wsum {α : Type} (f : α → Nat) : List α → Nat
  | [] => 0
  | x :: r => f x + wsum f r

theorem wsum_append {α : Type} (f : α → Nat) (l1 l2 : List α) :
    wsum f (l1 ++ l2) = wsum f l1 + wsum f l2 := by
  induction l1 with
  | nil => simp [wsum]
  | cons x r ih => simp [wsum, ih, Nat.add_assoc]

theorem wsum_ge_get {α : Type} (f : α → Nat) (l : List α) (i : Nat) (x : α) (h : l[i]? = some x) :
    f x ≤ wsum f l := by
  induction l generalizing i with
  | nil => simp at h
  | cons y r ih =>
    cases i with
    | zero => simp at h; subst h; simp only [wsum]; omega
    | succ i => simp at h; have := ih i h; simp only [wsum]; omega

theorem wsum_two {α : Type} (f : α → Nat) (l : List α) (i j : Nat) (x y : α) (hij : i ≠ j)
    (hi : l[i]? = some x) (hj : l[j]? = some y) : f x + f y ≤ wsum f l := by
  induction l generalizing i j with
  | nil => simp at hi
  | cons z r ih =>
    cases i with
    | zero =>
      cases j with
      | zero => exact absurd rfl hij
      | succ j =>
        simp at hi hj; subst hi
        have := wsum_ge_get f r j y hj
        simp only [wsum]; omega
    | succ i =>
      cases j with
      | zero =>
        simp at hi hj; subst hj
        have := wsum_ge_get f r i x hi
        simp only [wsum]; omega
      | succ j =>
        simp at hi hj
        have := ih i j (by omega) hi hj
        simp only [wsum]; omega

theorem wsum_set {α : Type} (f : α → Nat) (l : List α) (i : Nat) (old x : α) (h : l[i]? = some old) :
    wsum f (l.set i x) + f old = wsum f l + f x := by
  induction l generalizing i with
  | nil => simp at h
  | cons y r ih =>
    cases i with
    | zero => simp at h; subst h; simp only [List.set_cons_zero, wsum]; omega
    | succ i => simp at h; have := ih i h; simp only [List.set_cons_succ, wsum]; omega

theorem wsum_eraseIdx_le {α : Type} (f : α → Nat) (l : List α) (j : Nat) :
    wsum f (l.eraseIdx j) ≤ wsum f l := by
  induction l generalizing j with
  | nil => simp
  | cons y r ih =>
    cases j with
    | zero => simp only [List.eraseIdx_cons_zero, wsum]; omega
    | succ j => have := ih j; simp only [List.eraseIdx_cons_succ, wsum]; omega

theorem wsum_dropLast_le {α : Type} (f : α → Nat) (l : List α) : wsum f l.dropLast ≤ wsum f l := by
  induction l with
  | nil => simp
  | cons x r ih =>
    cases r with
    | nil => simp [wsum]
    | cons y r' => simp only [List.dropLast_cons_cons, wsum] at ih ⊢; omega

theorem wsum_tail_le {α : Type} (f : α → Nat) (l : List α) : wsum f l.tail ≤ wsum f l := by
  cases l with
  | nil => simp
  | cons x r => simp only [List.tail_cons, wsum]; omega

theorem wsum_eq_zero {α : Type} (f : α → Nat) (l : List α) : wsum f l = 0 ↔ ∀ x ∈ l, f x = 0 := by
  induction l with
  | nil => simp [wsum]
  | cons x r ih => simp [wsum, ih, Nat.add_eq_zero_iff]

theorem wsum_replicate {α : Type} (f : α → Nat) (n : Nat) (x : α) (h : f x = 0) :
    wsum f (List.replicate n x) = 0 := by
  induction n with
  | zero => simp [wsum]
  | succ n ih => simp [List.replicate_succ, wsum, h, ih]

mutual
/-- number of occurrences of array object `a` in a value -/
def vcnt (a : Nat) : Val → Nat
  | .sc _ => 0
  | .arr b kids => (if b = a then 1 else 0) + cntL a kids
def cntL (a : Nat) : List Slot → Nat
  | [] => 0
  | (_, _, v) :: r => vcnt a v + cntL a r
end

theorem cntL_eq_wsum (a : Nat) (l : List Slot) : cntL a l = wsum (fun sl => vcnt a sl.2.2) l := by
  induction l with
  | nil => simp [cntL, wsum]
  | cons h t ih => obtain ⟨c, k, v⟩ := h; simp [cntL, wsum, ih]

theorem cntL_append (a : Nat) (l1 l2 : List Slot) : cntL a (l1 ++ l2) = cntL a l1 + cntL a l2 := by
  simp only [cntL_eq_wsum, wsum_append]

theorem cntL_ge_get (a : Nat) (l : List Slot) (j : Nat) (sl : Slot) (h : l[j]? = some sl) :
    vcnt a sl.2.2 ≤ cntL a l := by
  rw [cntL_eq_wsum]; exact wsum_ge_get (fun sl => vcnt a sl.2.2) l j sl h

theorem cntL_set (a : Nat) (l : List Slot) (j : Nat) (old x : Slot) (h : l[j]? = some old) :
    cntL a (l.set j x) + vcnt a old.2.2 = cntL a l + vcnt a x.2.2 := by
  simp only [cntL_eq_wsum]; exact wsum_set (fun sl => vcnt a sl.2.2) l j old x h

theorem cntL_set_le (a : Nat) (l : List Slot) (j : Nat) (x : Slot) :
    cntL a (l.set j x) ≤ cntL a l + vcnt a x.2.2 := by
  cases h : l[j]? with
  | none =>
    have : l.length ≤ j := by simpa using h
    rw [List.set_eq_of_length_le this]; omega
  | some old => have := cntL_set a l j old x h; omega

theorem cntL_eraseIdx_le (a : Nat) (l : List Slot) (j : Nat) : cntL a (l.eraseIdx j) ≤ cntL a l := by
  simp only [cntL_eq_wsum]; exact wsum_eraseIdx_le _ l j

mutual
theorem vcnt_pos_iff_mem (a : Nat) : (v : Val) → (0 < vcnt a v ↔ a ∈ v.aids)
  | .sc s => by simp [vcnt, Val.aids]
  | .arr b kids => by
      have ih := cntL_pos_iff_mem a kids
      simp only [vcnt, Val.aids, List.mem_cons]
      by_cases hb : b = a
      · simp [hb]; omega
      · have hb' : ¬ a = b := fun e => hb e.symm
        simp [hb, hb', ih]
theorem cntL_pos_iff_mem (a : Nat) : (l : List Slot) → (0 < cntL a l ↔ a ∈ aidsL l)
  | [] => by simp [cntL, aidsL]
  | (c, k, v) :: r => by
      have h1 := vcnt_pos_iff_mem a v
      have h2 := cntL_pos_iff_mem a r
      simp only [cntL, aidsL, List.mem_append, ← h1, ← h2]; omega
end

/-- `cnt` and `aids` agree on "occurs at all" -/
theorem cnt_pos_iff_mem (a : Nat) (v : Val) : 0 < vcnt a v ↔ a ∈ v.aids := vcnt_pos_iff_mem a v

/-! ### `updArr` -/

mutual
theorem Val.updArr_cnt0 (a : Nat) (f : List Slot → List Slot) : (v : Val) → vcnt a v = 0 → v.updArr a f = v
  | .sc s, _ => by simp [Val.updArr]
  | .arr b kids, h => by
      simp only [vcnt] at h
      have hb : ¬ b = a := fun e => by simp [e] at h
      have hk : cntL a kids = 0 := by omega
      simp [Val.updArr, hb, updArrL_cnt0 a f kids hk]
theorem updArrL_cnt0 (a : Nat) (f : List Slot → List Slot) : (l : List Slot) → cntL a l = 0 → updArrL a f l = l
  | [], _ => by simp [updArrL]
  | (c, k, v) :: r, h => by
      simp only [cntL] at h
      have h1 : vcnt a v = 0 := by omega
      have h2 : cntL a r = 0 := by omega
      simp [updArrL, Val.updArr_cnt0 a f v h1, updArrL_cnt0 a f r h2]
end

/-- all occurrences of `a` among the slots of `l` lie in slot `j`: only that slot changes -/
theorem updArrL_single (a : Nat) (f : List Slot → List Slot) (l : List Slot) (j c : Nat) (kk : Key) (child : Val)
    (h : l[j]? = some (c, kk, child)) (hc : cntL a l = vcnt a child) :
    updArrL a f l = l.set j (c, kk, child.updArr a f) := by
  induction l generalizing j with
  | nil => simp at h
  | cons hd r ih =>
    obtain ⟨c', k', v'⟩ := hd
    simp only [cntL] at hc
    cases j with
    | zero =>
      simp at h
      obtain ⟨rfl, rfl, rfl⟩ := h
      have h2 : cntL a r = 0 := by omega
      simp [updArrL, updArrL_cnt0 a f r h2]
    | succ j =>
      simp at h
      have hge := cntL_ge_get a r j _ h
      simp only at hge
      have h1 : vcnt a v' = 0 := by omega
      have h2 : cntL a r = vcnt a child := by omega
      simp [updArrL, Val.updArr_cnt0 a f v' h1, ih j h h2]

/-! ### the list-level operations of one array do not duplicate anything -/

theorem cnt_storeSlot (i : Nat) (l : List Slot) (j c : Nat) (v : Val) :
    cntL i (storeSlot l j c v) ≤ cntL i l + vcnt i v := by
  unfold storeSlot
  split
  · exact cntL_set_le i l j _
  · omega

theorem cntL_snoc (i : Nat) (l : List Slot) (c : Nat) (k : Key) (v : Val) :
    cntL i (l ++ [(c, k, v)]) = cntL i l + vcnt i v := by
  simp [cntL_append, cntL]

/-- a store adds at most the occurrences inside the stored value -/
theorem cnt_storeAct (i : Nat) (l l' : List Slot) (k : Option IKey) (c : Nat) (v : Val)
    (h : storeAct .fixed l k c v = .list l') : cntL i l' ≤ cntL i l + vcnt i v := by
  cases k with
  | none => simp [storeAct] at h; subst h; rw [cntL_snoc]; omega
  | some k =>
    cases k with
    | int n =>
      simp only [storeAct, setIntKey] at h
      split at h
      · simp [hitAct, Cfg.fixed] at h; subst h; exact cnt_storeSlot _ _ _ _ _
      · split at h
        · simp at h; subst h; rw [cntL_snoc]; omega
        · split at h
          · simp at h; subst h; rw [cntL_snoc]; omega
          · simp at h; subst h; exact cntL_set_le i l n _
    | str s =>
      simp only [storeAct, setNamedKey] at h
      split at h
      · simp [hitAct, Cfg.fixed] at h; subst h; exact cnt_storeSlot _ _ _ _ _
      · simp at h; subst h; rw [cntL_snoc]; omega

theorem cnt_normFrom (i j cid0 : Nat) (l : List Slot) : cntL i (normFrom j cid0 l) = cntL i l := by
  induction l generalizing j with
  | nil => rfl
  | cons h t ih =>
    obtain ⟨c, k, v⟩ := h
    by_cases hk : k = .pos <;> simp [normFrom, cntL, hk, ih]

theorem cnt_unsetKey (i : Nat) (l : List Slot) (k : IKey) (cid0 : Nat) :
    cntL i (unsetKey l k cid0).1 ≤ cntL i l := by
  cases k with
  | int n =>
    simp only [unsetKey]
    split
    · have := cntL_eraseIdx_le i (normFrom 0 cid0 l) ‹_›
      rw [cnt_normFrom] at this; exact this
    · rw [cnt_normFrom]; omega
  | str s =>
    simp only [unsetKey]
    split
    · exact cntL_eraseIdx_le i l _
    · omega

theorem cnt_insSlot (i : Nat) (x : Slot) (l : List Slot) : cntL i (insSlot x l) = vcnt i x.2.2 + cntL i l := by
  induction l with
  | nil => obtain ⟨c, k, v⟩ := x; simp [insSlot, cntL]
  | cons y ys ih =>
    obtain ⟨c, k, v⟩ := x
    obtain ⟨c', k', v'⟩ := y
    simp only [insSlot]
    split
    · simp [cntL]
    · simp only [cntL, ih]; omega

theorem cnt_sortSlots (i : Nat) (l : List Slot) : cntL i (sortSlots l) = cntL i l := by
  unfold sortSlots
  suffices h : ∀ acc : List Slot, cntL i (l.foldl (fun acc x => insSlot x acc) acc) = cntL i l + cntL i acc by
    simpa [cntL] using h []
  induction l with
  | nil => intro acc; simp [cntL]
  | cons x t ih =>
    intro acc
    obtain ⟨c, k, v⟩ := x
    simp only [List.foldl, ih, cnt_insSlot, cntL]; omega

theorem cnt_applyMeth (i : Nat) (l : List Slot) (m : Meth) (cid : Nat) :
    cntL i (applyMeth l m cid) ≤ cntL i l := by
  cases m with
  | push n => simp only [applyMeth, cntL_snoc, vcnt]; omega
  | pop => simp only [applyMeth, cntL_eq_wsum]; exact wsum_dropLast_le _ l
  | shift => simp only [applyMeth, cntL_eq_wsum]; exact wsum_tail_le _ l
  | unshift n => simp only [applyMeth, cntL, vcnt]; omega
  | sort => simp only [applyMeth, cnt_sortSlots]; omega

end Proofs.Heap
