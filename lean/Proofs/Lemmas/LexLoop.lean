import Proofs.Lemmas.LexTok
/-! The main loops of `Tokenize` / `TokenizeTemplate`: invariant and resulting raw-token laws. -/
namespace Proofs.Lex
open Model.Lex

/-- what holds of every raw token -/
structure TokOK (cfg : Cfg) (inp : Input) (t : Tok) : Prop where
  nonempty : t.start < t.stop
  bound : t.stop ≤ inp.size
  line : t.line = nlCount inp 0 t.start
  lit_ml : 10 ∈ t.lit → t.ty ∈ ml cfg
  lit_src : t.lit = slice inp t.start t.stop ∨ t.ty = cfg.tUNKNOWN

/-- generic adjacency predicate -/
def Chain {α : Type} (R : α → α → Prop) : List α → Prop
  | a :: b :: rest => R a b ∧ Chain R (b :: rest)
  | _ => True

theorem chain_snoc {α : Type} (R : α → α → Prop) (l : List α) (x : α) (h : Chain R l)
    (hl : ∀ y, l.getLast? = some y → R y x) : Chain R (l ++ [x]) := by
  induction l with
  | nil => simp [Chain]
  | cons a as ih =>
    cases as with
    | nil =>
      simp only [List.cons_append, List.nil_append, Chain, and_true]
      exact hl a (by simp)
    | cons b bs =>
      simp only [Chain, List.cons_append] at h ⊢
      refine ⟨h.1, ?_⟩
      have := ih h.2 (fun y hy => hl y (by simpa using hy))
      simpa using this

theorem chain_reverse {α : Type} (R : α → α → Prop) (l : List α) (h : Chain (fun later earlier => R earlier later) l) :
    Chain R l.reverse := by
  induction l with
  | nil => simp [Chain]
  | cons a as ih =>
    rw [List.reverse_cons]
    cases as with
    | nil => simp [Chain]
    | cons b bs =>
      simp only [Chain] at h
      refine chain_snoc R _ a (ih h.2) ?_
      intro y hy
      have : b = y := by simpa using hy
      subst this; exact h.1

/-- the next token is on the same line unless this one contains a newline (or is an HTML part:
    `lastWasNewline` survives the HTML part of a template, so a newline after `<?php` may be
    swallowed without a NEWLINE token) -/
def AdjR (cfg : Cfg) (a b : Tok) : Prop := b.line = a.line ∨ 10 ∈ a.lit ∨ a.ty = cfg.tHTML

/-- the laws of a raw token list (source order) -/
structure RawOK (cfg : Cfg) (inp : Input) (ts : List Tok) : Prop where
  toks : ∀ t ∈ ts, TokOK cfg inp t
  ordered : ts.Pairwise (fun a b => a.stop ≤ b.start)
  adj : Chain (AdjR cfg) ts

/-- loop invariant; `acc` holds the tokens newest first -/
structure Inv (cfg : Cfg) (inp : Input) (pos line : Nat) (lastNL : Bool) (acc : List Tok) : Prop where
  pos_le : pos ≤ inp.size
  line_eq : line = nlCount inp 0 pos
  toks : ∀ t ∈ acc, TokOK cfg inp t ∧ t.stop ≤ pos
  ordered : acc.Pairwise (fun later earlier => earlier.stop ≤ later.start)
  adj : Chain (fun later earlier => AdjR cfg earlier later) acc
  head : ∀ h rest, acc = h :: rest → line = h.line ∨ 10 ∈ h.lit ∨ h.ty = cfg.tHTML
  lastnl : lastNL = true → ∃ h rest, acc = h :: rest ∧ (10 ∈ h.lit ∨ h.ty = cfg.tHTML)

theorem inv_init (cfg : Cfg) (inp : Input) : Inv cfg inp 0 0 false [] :=
  ⟨Nat.zero_le _, by simp [nlCount_self], by simp, List.Pairwise.nil, by simp [Chain], by simp, by simp⟩

theorem inv_result {cfg : Cfg} {inp : Input} {pos line : Nat} {lastNL : Bool} {acc : List Tok}
    (h : Inv cfg inp pos line lastNL acc) : RawOK cfg inp acc.reverse :=
  ⟨fun t ht => (h.toks t (by simpa using ht)).1,
   by rw [List.pairwise_reverse]; exact h.ordered,
   chain_reverse (AdjR cfg) acc h.adj⟩

/-- skipping `k` bytes that contain no newline -/
theorem inv_skip {cfg : Cfg} {inp : Input} {pos line : Nat} {lastNL : Bool} {acc : List Tok}
    (h : Inv cfg inp pos line lastNL acc) (k : Nat) (hk : pos + k ≤ inp.size) (hno : NoNL inp pos (pos + k)) :
    Inv cfg inp (pos + k) line lastNL acc := by
  refine ⟨hk, ?_, fun t ht => ⟨(h.toks t ht).1, by have := (h.toks t ht).2; omega⟩, h.ordered, h.adj, h.head, h.lastnl⟩
  rw [nlCount_split inp 0 pos (pos + k) (by omega) (by omega), nlCount_zero hk hno, ← h.line_eq]; simp

theorem inv_newline {cfg : Cfg} {inp : Input} {pos line : Nat} {lastNL : Bool} {acc : List Tok}
    (h : Inv cfg inp pos line lastNL acc) (hlt : pos < inp.size) (hb : bAt inp pos = 10) :
    Inv cfg inp (pos + 1) (line + 1) true
      (if lastNL then acc else ⟨cfg.tNEWLINE, pos, pos+1, line, [10]⟩ :: acc) := by
  have hline : line + 1 = nlCount inp 0 (pos + 1) := by
    rw [nlCount_split inp 0 pos (pos + 1) (by omega) (by omega), nlCount_one inp pos hlt, ← h.line_eq]
    simp [hb]
  cases lastNL with
  | true =>
    simp only [if_true]
    obtain ⟨hd, rest, hacc, h10⟩ := h.lastnl rfl
    refine ⟨by omega, hline, fun t ht => ⟨(h.toks t ht).1, by have := (h.toks t ht).2; omega⟩, h.ordered, h.adj, ?_, ?_⟩
    · intro h' rest' he
      rw [hacc] at he; cases he; exact Or.inr h10
    · intro _; exact ⟨hd, rest, hacc, h10⟩
  | false =>
    simp only [Bool.false_eq_true, if_false]
    have hslice : slice inp pos (pos + 1) = [10] := by
      unfold slice
      have : pos + 1 - pos = 1 := by omega
      rw [this, List.drop_eq_getElem_cons (by simpa using hlt)]
      simp
      rw [bAt_lt hlt] at hb
      exact hb
    have tok : TokOK cfg inp ⟨cfg.tNEWLINE, pos, pos+1, line, [10]⟩ :=
      ⟨by simp, by simp; omega, h.line_eq, fun _ => by simp [ml], Or.inl (by simp [hslice])⟩
    refine ⟨by omega, hline, ?_, ?_, ?_, ?_, ?_⟩
    · intro t ht
      rcases List.mem_cons.mp ht with rfl | ht
      · exact ⟨tok, by simp⟩
      · exact ⟨(h.toks t ht).1, by have := (h.toks t ht).2; omega⟩
    · exact List.pairwise_cons.mpr ⟨fun t ht => (h.toks t ht).2, h.ordered⟩
    · cases hacc : acc with
      | nil => simp [Chain]
      | cons a as =>
        simp only [Chain]
        refine ⟨?_, by rw [← hacc]; exact h.adj⟩
        exact h.head a as hacc
    · intro h' rest' he
      cases he; exact Or.inr (Or.inl (by simp))
    · intro _; exact ⟨_, _, rfl, Or.inl (by simp)⟩

theorem inv_tok {cfg : Cfg} {inp : Input} {pos line : Nat} {lastNL : Bool} {acc : List Tok} {s : Scan}
    (h : Inv cfg inp pos line lastNL acc) (hs : StepOK cfg inp pos line s)
    (lastNL' : Bool) (hl : lastNL' = true → s.ty = cfg.tHTML) :
    Inv cfg inp s.newPos s.newLine lastNL' (⟨s.ty, pos, s.newPos, line, s.lit⟩ :: acc) := by
  have tok : TokOK cfg inp ⟨s.ty, pos, s.newPos, line, s.lit⟩ :=
    ⟨hs.progress, hs.bound, h.line_eq, hs.lit_ml, hs.lit_src⟩
  refine ⟨hs.bound, ?_, ?_, ?_, ?_, ?_, ?_⟩
  · rw [hs.lines, h.line_eq, nlCount_split inp 0 pos s.newPos (by omega) (by have := hs.progress; omega)]
  · intro t ht
    rcases List.mem_cons.mp ht with rfl | ht
    · exact ⟨tok, by simp⟩
    · exact ⟨(h.toks t ht).1, by have := (h.toks t ht).2; have := hs.progress; omega⟩
  · exact List.pairwise_cons.mpr ⟨fun t ht => (h.toks t ht).2, h.ordered⟩
  · cases hacc : acc with
    | nil => simp [Chain]
    | cons a as =>
      simp only [Chain]
      refine ⟨?_, by rw [← hacc]; exact h.adj⟩
      exact h.head a as hacc
  · intro h' rest' he
    cases he
    simp only []
    by_cases hz : nlCount inp pos s.newPos = 0
    · left; rw [hs.lines, hz]; simp
    · right; left; exact hs.lit_nl (by omega)
  · intro hl'
    exact ⟨_, _, rfl, Or.inr (hl hl')⟩

/-! ### script mode -/

theorem scriptLoop_ok {cfg : Cfg} (wf : WF cfg) (inp : Input) :
    ∀ f pos line lastNL acc, Inv cfg inp pos line lastNL acc →
      ∃ ts, scriptLoop cfg inp f pos line lastNL acc = .ok ts ∧ RawOK cfg inp ts := by
  intro f
  induction f with
  | zero => intro pos line lastNL acc h; exact ⟨_, rfl, inv_result h⟩
  | succ f ih =>
    intro pos line lastNL acc h
    unfold scriptLoop
    split
    · rename_i hlt
      simp only []
      split
      · rename_i hws
        simp only [Bool.or_eq_true, beq_iff_eq] at hws
        exact ih _ _ _ _ (inv_skip h 1 (by omega) (NoNL.one (by omega)))
      · obtain ⟨b, hb, hfw⟩ := fwAt_ok inp pos (decide (pos + 2 < inp.size)) (by simp)
        rw [hb]
        cases b with
        | true =>
          obtain ⟨f1, f2, f3, f4⟩ := hfw rfl
          refine ih _ _ _ _ (inv_skip h 3 (by omega) ?_)
          intro i i1 i2
          have : i = pos ∨ i = pos + 1 ∨ i = pos + 2 := by omega
          rcases this with rfl | rfl | rfl <;> assumption
        | false =>
          simp only []
          split
          · rename_i h10
            have h10' : bAt inp pos = 10 := by simpa using h10
            exact ih _ _ _ _ (inv_newline h hlt h10')
          · rename_i h10
            have h10' : bAt inp pos ≠ 10 := by simpa using h10
            obtain ⟨s, hs, hok⟩ := scanTok_spec wf inp false pos line hlt h10'
            rw [hs]
            exact ih _ _ _ _ (inv_tok h hok false (by simp))
    · exact ⟨_, rfl, inv_result h⟩

/-! ### template mode -/

theorem findOpenTag_spec {inp : Input} {f pos at_ : Nat} (h : findOpenTag inp f pos = some at_) :
    pos ≤ at_ ∧ at_ + 5 ≤ inp.size ∧ NoNL inp at_ (at_ + 5) := by
  induction f generalizing pos with
  | zero => simp [findOpenTag] at h
  | succ f ih =>
    unfold findOpenTag at h
    split at h
    · rename_i hle
      split at h
      · rename_i hm
        cases h
        obtain ⟨_, m2⟩ := matchesAt_spec (lit := [60, 63, 112, 104, 112]) (by omega) (by decide) hm
        refine ⟨Nat.le_refl _, hle, ?_⟩
        intro i i1 i2
        obtain ⟨k, rfl⟩ : ∃ k, i = at_ + k := ⟨i - at_, by omega⟩
        have hk : k < 5 := by omega
        have := m2 k (by simpa using hk)
        rw [this]
        have : k = 0 ∨ k = 1 ∨ k = 2 ∨ k = 3 ∨ k = 4 := by omega
        rcases this with rfl | rfl | rfl | rfl | rfl <;> simp
      · obtain ⟨x, y, z⟩ := ih h
        exact ⟨by omega, y, z⟩
    · cases h

theorem tmplScript_ok {cfg : Cfg} (wf : WF cfg) (inp : Input) :
    ∀ f pos line lastNL acc, Inv cfg inp pos line lastNL acc →
      ∃ pos' line' lastNL' acc', tmplScript cfg inp f pos line lastNL acc = .ok (pos', line', lastNL', acc') ∧
        Inv cfg inp pos' line' lastNL' acc' := by
  intro f
  induction f with
  | zero => intro pos line lastNL acc h; exact ⟨_, _, _, _, rfl, h⟩
  | succ f ih =>
    intro pos line lastNL acc h
    unfold tmplScript
    split
    · rename_i hlt
      split
      · rename_i hend
        simp only [Bool.and_eq_true, decide_eq_true_eq, beq_iff_eq] at hend
        refine ⟨_, _, _, _, rfl, inv_skip h 2 (by omega) ?_⟩
        intro i i1 i2
        have : i = pos ∨ i = pos + 1 := by omega
        rcases this with rfl | rfl <;> omega
      · simp only []
        split
        · rename_i hws
          simp only [Bool.or_eq_true, beq_iff_eq] at hws
          exact ih _ _ _ _ (inv_skip h 1 (by omega) (NoNL.one (by omega)))
        · obtain ⟨b, hb, hfw⟩ := fwAt_ok inp pos (decide (pos + 3 ≤ inp.size)) (by simp; omega)
          rw [hb]
          cases b with
          | true =>
            obtain ⟨f1, f2, f3, f4⟩ := hfw rfl
            refine ih _ _ _ _ (inv_skip h 3 (by omega) ?_)
            intro i i1 i2
            have : i = pos ∨ i = pos + 1 ∨ i = pos + 2 := by omega
            rcases this with rfl | rfl | rfl <;> assumption
          | false =>
            simp only []
            split
            · rename_i h10
              have h10' : bAt inp pos = 10 := by simpa using h10
              exact ih _ _ _ _ (inv_newline h hlt h10')
            · rename_i h10
              have h10' : bAt inp pos ≠ 10 := by simpa using h10
              obtain ⟨s, hs, hok⟩ := scanTok_spec wf inp true pos line hlt h10'
              rw [hs]
              exact ih _ _ _ _ (inv_tok h hok false (by simp))
    · exact ⟨_, _, _, _, rfl, h⟩

/-- emitting an HTML token `[pos, e)`; `lastWasNewline` is left as it is -/
theorem inv_html {cfg : Cfg} {inp : Input} {pos line e : Nat} {lastNL : Bool} {acc : List Tok}
    (h : Inv cfg inp pos line lastNL acc) (h1 : pos < e) (h2 : e ≤ inp.size) :
    Inv cfg inp e (line + nlCount inp pos e) lastNL (⟨cfg.tHTML, pos, e, line, slice inp pos e⟩ :: acc) := by
  have := inv_tok h (stepOK_ml (cfg := cfg) (line := line) (ty := cfg.tHTML) h1 h2 (by simp [ml])) lastNL (by simp)
  simpa using this

theorem tmplLoop_ok {cfg : Cfg} (wf : WF cfg) (inp : Input) :
    ∀ f pos line lastNL acc, Inv cfg inp pos line lastNL acc →
      ∃ ts, tmplLoop cfg inp f pos line lastNL acc = .ok ts ∧ RawOK cfg inp ts := by
  intro f
  induction f with
  | zero => intro pos line lastNL acc h; exact ⟨_, rfl, inv_result h⟩
  | succ f ih =>
    intro pos line lastNL acc h
    unfold tmplLoop
    split
    · rename_i hlt
      split
      · exact ⟨_, rfl, inv_result (inv_html h hlt (Nat.le_refl _))⟩
      · rename_i at_ hat
        obtain ⟨a1, a2, a3⟩ := findOpenTag_spec hat
        simp only []
        have hmid : Inv cfg inp at_ (if at_ > pos then line + nlCount inp pos at_ else line) lastNL
            (if at_ > pos then ⟨cfg.tHTML, pos, at_, line, slice inp pos at_⟩ :: acc else acc) := by
          by_cases hgt : at_ > pos
          · simp only [hgt, if_true]
            exact inv_html h hgt (by omega)
          · have : at_ = pos := by omega
            subst this
            simp only [hgt, if_false]
            exact h
        obtain ⟨p2, l2, n2, acc2, hs, hi2⟩ := tmplScript_ok wf inp (inp.size + 1) (at_ + 5) _ lastNL _
          (inv_skip hmid 5 a2 a3)
        rw [hs]
        exact ih _ _ _ _ hi2
    · exact ⟨_, rfl, inv_result h⟩

end Proofs.Lex
