import Proofs.Lemmas.CtlSimDefs
set_option linter.unusedSimpArgs false
set_option linter.unusedVariables false
/-! Simulation, expression level: from `SimAt funs f` to the expression clauses of `SimAt funs (f+1)`
(except calls, which need the statement level: `CtlSimCall`). -/
namespace Proofs.Ctl
open Spec.Ctl Model.Ctl

variable {funs : List FunDecl}

theorem relV_ok {sc cur} {v : Val} {s : St} {m : MSt} (h : Rel funs sc cur s m) :
    RelV funs sc cur (.ok v s) (.ok v m) := ⟨rfl, h⟩

theorem relV_err {sc cur} {s : St} {m : MSt} (h : Rel funs sc cur s m) :
    RelV funs sc cur (.err s : Res Val) (.ctl .thr m) := h

/-- the generic binary node -/
theorem sim_bin {f : Nat} (ih : SimAt funs f) {sc cur} (op : BinOp) (a b : Expr) {s m}
    (hc : CtxOK funs sc cur) (hr : Rel funs sc cur s m)
    (ca : Covers sc (varsE a)) (cb : Covers sc (varsE b)) (ga : goodE funs a = true) (gb : goodE funs b = true) :
    RelV funs sc cur (evalE funs (f+1) cur (.bin op a b) s)
      (binM (evalM (mfuns funs) f) op (compE sc a) (compE sc b) m) := by
  simp only [evalE, binM]
  refine relR_bind (ih.evalE sc cur a s m hc hr ca ga) ?_
  intro va vb s1 m1 e h1
  subst e
  refine relR_bind (ih.evalE sc cur b s1 m1 hc h1 cb gb) ?_
  intro vb vb' s2 m2 e h2
  subst e
  cases binop op va vb with
  | none => exact relV_err h2
  | some v => exact relV_ok h2

theorem binop_le_bool {a b v : Val} (h : binop .le a b = some v) : v = .bool v.truthy := by
  cases a <;> cases b <;> simp [binop] at h
  subst h
  rfl

theorem sim_assignTo {sc cur} {s : St} {m : MSt} (hc : CtxOK funs sc cur) (hr : Rel funs sc cur s m)
    {x : Var} (hx : x ∈ sc) (v : Val) :
    RelV funs sc cur (.ok v (s.wr cur x v)) (assignTo m (idx sc x) v) := by
  obtain ⟨m', hm, hrel⟩ := rel_write hr hc hx v
  unfold assignTo
  rw [hm]
  exact relV_ok hrel

/-- an operand a VarFastAssign can read directly evaluates to that integer -/
theorem opnd_eval {sc cur} {s : St} {m : MSt} (hc : CtxOK funs sc cur) (hr : Rel funs sc cur s m)
    (a : Expr) (ca : Covers sc (varsE a)) {n : Int} (h : readOpnd m (preOpnd sc a) = some n) (f : Nat) :
    evalE funs (f+1) cur a s = .ok (.int n) s := by
  cases a with
  | var y =>
    have hy : y ∈ sc := ca y (by simp [varsE])
    simp only [preOpnd, readOpnd, rel_read hr hc hy] at h
    simp only [evalE]
    cases hv : s.rd cur y <;> simp [hv] at h
    subst h
    rfl
  | lit v =>
    cases v <;> simp [preOpnd, readOpnd] at h
    subst h
    simp [evalE]
  | _ => simp [preOpnd, readOpnd] at h

theorem fast_spec {sc cur} {s : St} {m : MSt} (hc : CtxOK funs sc cur) (hr : Rel funs sc cur s m)
    {op l r} {e : Expr} (hok : FastOK sc op l r e) (ce : Covers sc (varsE e)) {n : Int}
    (h : fastValue m op l r = some n) (f : Nat) :
    evalE funs f cur e s = .timeout ∨ evalE funs f cur e s = .ok (.int n) s := by
  cases f with
  | zero => left; simp [evalE]
  | succ f =>
    cases hok with
    | copyVar y r =>
      right
      simp only [fastValue] at h
      exact opnd_eval hc hr (.var y) ce (by simpa [preOpnd] using h) f
    | copyLit k r =>
      right
      simp only [fastValue] at h
      cases h
      simp [evalE]
    | mul a b =>
      cases f with
      | zero => left; simp [evalE, Res.bind]
      | succ f =>
        right
        simp only [fastValue] at h
        cases ha : readOpnd m (preOpnd sc a) with
        | none => simp [ha] at h
        | some x =>
          cases hb : readOpnd m (preOpnd sc b) with
          | none => simp [ha, hb] at h
          | some y =>
            simp [ha, hb] at h
            subst h
            have ca' : Covers sc (varsE a) := by
              simp only [varsE] at ce; exact ce.left
            have cb' : Covers sc (varsE b) := by
              simp only [varsE] at ce; exact ce.right
            simp only [evalE, opnd_eval hc hr a ca' ha f, opnd_eval hc hr b cb' hb f, Res.bind, binop]
    | add a b =>
      cases f with
      | zero => left; simp [evalE, Res.bind]
      | succ f =>
        right
        simp only [fastValue] at h
        cases ha : readOpnd m (preOpnd sc a) with
        | none => simp [ha] at h
        | some x =>
          cases hb : readOpnd m (preOpnd sc b) with
          | none => simp [ha, hb] at h
          | some y =>
            simp [ha, hb] at h
            subst h
            have ca' : Covers sc (varsE a) := by
              simp only [varsE] at ce; exact ce.left
            have cb' : Covers sc (varsE b) := by
              simp only [varsE] at ce; exact ce.right
            simp only [evalE, opnd_eval hc hr a ca' ha f, opnd_eval hc hr b cb' hb f, Res.bind, binop]

theorem sim_assign {f : Nat} (ih : SimAt funs f) {sc cur} (x : Var) (e : Expr) {s m}
    (hc : CtxOK funs sc cur) (hr : Rel funs sc cur s m)
    (hx : x ∈ sc) (ce : Covers sc (varsE e)) (ge : goodE funs e = true) :
    RelV funs sc cur (evalE funs (f+1) cur (.assign x e) s)
      (evalM (mfuns funs) (f+1) (mkAssign sc x e (compE sc e)) m) := by
  have hgen : RelV funs sc cur (evalE funs (f+1) cur (.assign x e) s)
      ((evalM (mfuns funs) f (compE sc e) m).bind fun v m1 => assignTo m1 (idx sc x) v) := by
    simp only [evalE]
    refine relR_bind (ih.evalE sc cur e s m hc hr ce ge) ?_
    intro v v' s1 m1 e1 h1
    subst e1
    exact sim_assignTo hc h1 hx v
  cases mkAssign_cases sc x e (compE sc e) with
  | inl h => rw [h]; simpa only [evalM] using hgen
  | inr h =>
    obtain ⟨op, l, r, h, hok⟩ := h
    rw [h]
    simp only [evalM]
    have hsome : (m.getSlot (idx sc x)).isSome = true := by rw [rel_read hr hc hx]; rfl
    simp only [hsome, if_true]
    cases hv : fastValue m op l r with
    | none => exact hgen
    | some n =>
      simp only []
      obtain ⟨m', hm, hrel⟩ := rel_write hr hc hx (.int n)
      rw [hm]
      simp only []
      cases fast_spec hc hr hok ce hv f with
      | inl ht => simp only [evalE, ht, Res.bind]; exact relR_timeout _
      | inr ho => simp only [evalE, ho, Res.bind]; exact relV_ok hrel

theorem sim_incGeneral {sc cur} {s : St} {m : MSt} (hc : CtxOK funs sc cur) (hr : Rel funs sc cur s m)
    (k : IncKind) {x : Var} (hx : x ∈ sc) (f : Nat) :
    RelV funs sc cur (evalE funs (f+1) cur (.inc k x) s) (incGeneral k m (idx sc x)) := by
  simp only [evalE, incGeneral, rel_read hr hc hx]
  cases incVal k (s.rd cur x) with
  | none => exact relV_err hr
  | some p =>
    obtain ⟨v, new⟩ := p
    simp only []
    obtain ⟨m', hm, hrel⟩ := rel_write hr hc hx new
    simp only [assignTo, hm, MRes.bind]
    exact relV_ok hrel

theorem sim_inc {sc cur} {s : St} {m : MSt} (hc : CtxOK funs sc cur) (hr : Rel funs sc cur s m)
    (k : IncKind) {x : Var} (hx : x ∈ sc) (f : Nat) :
    RelV funs sc cur (evalE funs (f+1) cur (.inc k x) s) (evalM (mfuns funs) (f+1) (mkInc sc k x) m) := by
  cases k <;> simp only [mkInc, evalM, incFused_postInc, incFused_postDec] <;> exact sim_incGeneral hc hr _ hx f

/-- all expression forms except calls -/
theorem simE_step_nocall {f : Nat} (ih : SimAt funs f) (sc : List Var) (cur : Cur) (e : Expr) (s : St) (m : MSt)
    (hc : CtxOK funs sc cur) (hr : Rel funs sc cur s m) (ce : Covers sc (varsE e)) (ge : goodE funs e = true)
    (hcall : ∀ g args, e = .call g args →
      RelV funs sc cur (evalE funs (f+1) cur e s) (evalM (mfuns funs) (f+1) (compE sc e) m)) :
    RelV funs sc cur (evalE funs (f+1) cur e s) (evalM (mfuns funs) (f+1) (compE sc e) m) := by
  cases e with
  | lit v => simp only [evalE, compE, evalM]; exact relV_ok hr
  | var x =>
    have hx : x ∈ sc := ce x (by simp [varsE])
    simp only [evalE, compE, evalM, rel_read hr hc hx]
    exact relV_ok hr
  | bin op a b =>
    simp only [varsE] at ce
    simp only [goodE, Bool.and_eq_true] at ge
    have hgen := sim_bin ih op a b hc hr ce.left ce.right ge.1 ge.2
    simp only [compE]
    cases mkBin_cases sc op a b (compE sc a) (compE sc b) with
    | inl h => rw [h]; simpa only [evalM] using hgen
    | inr h =>
      obtain ⟨x, n, hop, ha, hb, h⟩ := h
      rw [h]
      subst hop ha hb
      have hx : x ∈ sc := ce.left x (by simp [varsE])
      simp only [evalM, rel_read hr hc hx]
      cases hv : s.rd cur x with
      | int v =>
        simp only []
        cases f with
        | zero => simp only [evalE, Res.bind]; exact relR_timeout _
        | succ f =>
          simp only [evalE, Res.bind, hv, binop]
          exact relV_ok hr
      | _ =>
        simp only []
        cases f with
        | zero => simp only [evalE, Res.bind]; exact relR_timeout _
        | succ f =>
          simp only [evalE, Res.bind, hv, binop, compE, binM, evalM, rel_read hr hc hx, MRes.bind]
          exact relV_err hr
  | not a =>
    simp only [varsE] at ce
    simp only [goodE] at ge
    simp only [evalE, compE, evalM]
    refine relR_bind (ih.evalE sc cur a s m hc hr ce ge) ?_
    intro v v' s1 m1 e1 h1
    subst e1
    exact relV_ok h1
  | and a b =>
    simp only [varsE] at ce
    simp only [goodE, Bool.and_eq_true] at ge
    simp only [evalE, compE, evalM]
    refine relR_bind (ih.evalE sc cur a s m hc hr ce.left ge.1) ?_
    intro v v' s1 m1 e1 h1
    subst e1
    cases v.truthy with
    | false => exact relV_ok h1
    | true =>
      simp only [if_true]
      refine relR_bind (ih.evalE sc cur b s1 m1 hc h1 ce.right ge.2) ?_
      intro w w' s2 m2 e2 h2
      subst e2
      exact relV_ok h2
  | or a b =>
    simp only [varsE] at ce
    simp only [goodE, Bool.and_eq_true] at ge
    simp only [evalE, compE, evalM]
    refine relR_bind (ih.evalE sc cur a s m hc hr ce.left ge.1) ?_
    intro v v' s1 m1 e1 h1
    subst e1
    cases v.truthy with
    | true => exact relV_ok h1
    | false =>
      simp only [Bool.false_eq_true, if_false]
      refine relR_bind (ih.evalE sc cur b s1 m1 hc h1 ce.right ge.2) ?_
      intro w w' s2 m2 e2 h2
      subst e2
      exact relV_ok h2
  | assign x e =>
    simp only [varsE] at ce
    simp only [goodE] at ge
    simp only [compE]
    exact sim_assign ih x e hc hr ce.head ce.tail ge
  | inc k x =>
    have hx : x ∈ sc := ce x (by simp [varsE])
    simp only [compE]
    exact sim_inc hc hr k hx f
  | call g args => exact hcall g args rfl
  | matchE subj arms d =>
    simp only [varsE] at ce
    simp only [goodE, Bool.and_eq_true] at ge
    simp only [evalE, compE, evalM]
    refine relR_bind (ih.evalE sc cur subj s m hc hr ce.left ge.1) ?_
    intro v v' s1 m1 e1 h1
    subst e1
    exact ih.evalArms sc cur v arms d s1 m1 hc h1 ce.right.left ce.right.right ge.2.1 ge.2.2

end Proofs.Ctl
