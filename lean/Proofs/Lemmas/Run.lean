import Model.Run
/-!
Lemmas for C20 (iii): a run that reads a possibly-dirty cell only after writing it itself
produces the same result from every two stores that agree on the clean cells.
-/
namespace Proofs.Run
open Model.Run

variable {C V O : Type} [DecidableEq C]

/-- the two stores agree on every cell that is clean (`¬ D c`) or already written by this run -/
def Agree (D : C → Prop) (W : List C) (s₁ s₂ : Store C V) : Prop :=
  ∀ c, (¬ D c ∨ c ∈ W) → s₁ c = s₂ c

theorem agree_put {D : C → Prop} {W : List C} {s₁ s₂ : Store C V} (h : Agree D W s₁ s₂) (c : C) (v : V) :
    Agree D (c :: W) (s₁.put c v) (s₂.put c v) := by
  intro c' hc'
  simp only [Store.put]
  by_cases e : c' = c
  · simp [e]
  · simp only [if_neg e]
    apply h
    rcases hc' with h1 | h2
    · exact .inl h1
    · simp at h2; rcases h2 with h2 | h2
      · exact absurd h2 e
      · exact .inr h2

theorem run_agree (D : C → Prop) (p : Prog C V O) :
    ∀ (W : List C) (s₁ s₂ : Store C V), Disc D W p → Agree D W s₁ s₂ → (run p s₁).1 = (run p s₂).1 := by
  induction p with
  | done o => intro _ _ _ _ _; rfl
  | read c k ih =>
    intro W s₁ s₂ hd ha
    have hc : s₁ c = s₂ c := by
      apply ha
      by_cases h : D c
      · exact .inr (hd.1 h)
      · exact .inl h
    simp only [run]
    rw [← hc]
    exact ih (s₁ c) W s₁ s₂ (hd.2 (s₁ c)) ha
  | write c v k ih =>
    intro W s₁ s₂ hd ha
    simp only [run]
    exact ih (c :: W) _ _ hd (agree_put ha c v)

end Proofs.Run
