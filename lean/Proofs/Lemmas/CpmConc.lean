import Proofs.Lemmas.RegConc
import Model.Cpm
/-! C10: the class-path manager behind its lock — the sequential reading of the log of
`Model.RW` instantiated with `Model.Cpm.secOf` is `Model.Cpm.step` call by call. -/
namespace Proofs.CpmConc
open Model.RW Model.Cpm Proofs.RW

/-- both calls of the manager write the namespace tree, so both must hold `Lock` -/
def Disc (lockOf : String → Mode) : Prop :=
  ∀ op : Op, permits (lockOf op.method) .wr = true

def discB (lockOf : String → Mode) : Bool :=
  permits (lockOf "AddNamespace") .wr && permits (lockOf "FindClassFile") .wr

theorem disc_of_discB (lockOf : String → Mode) (h : discB lockOf = true) : Disc lockOf := by
  simp only [discB, Bool.and_eq_true] at h
  intro op
  cases op <;> simp only [Op.method]
  · exact h.1
  · exact h.2

theorem secOf_ok (d : Disk) (lockOf : String → Mode) (hd : Disc lockOf) (op : Op) : (secOf d lockOf op).ok := by
  intro a ha
  have := hd op
  simp only [secOf, List.mem_singleton] at ha ⊢
  subst ha
  simpa [Acc.kind] using this

/-- one call of the sequential witness: the manager steps, the caller receives the result -/
def cpmStep (d : Disk) (p : Nodes × (Tid → List Res)) (e : Tid × Op) : Nodes × (Tid → List Res) :=
  ((step d p.1 e.2).1, upd p.2 e.1 (p.2 e.1 ++ [(step d p.1 e.2).2]))

def cpmRun (d : Disk) (lin : List (Tid × Op)) (p : Nodes × (Tid → List Res)) : Nodes × (Tid → List Res) :=
  lin.foldl (cpmStep d) p

theorem cpmRun_store (d : Disk) (lin : List (Tid × Op)) (p : Nodes × (Tid → List Res)) :
    (cpmRun d lin p).1 = runOps d p.1 (lin.map (·.2)) := by
  induction lin generalizing p with
  | nil => rfl
  | cons e rest ih => simp only [cpmRun, List.foldl, List.map, runOps] at ih ⊢; exact ih (cpmStep d p e)

theorem seqStep_secOf (d : Disk) (lockOf : String → Mode) (p : Nodes × (Tid → List Res)) (t : Tid) (op : Op) :
    seqStep p (t, secOf d lockOf op) = cpmStep d p (t, op) := by
  simp [seqStep, cpmStep, secOf, execAccs, Acc.apply]

theorem seqExec_secOf (d : Disk) (lockOf : String → Mode) (log : List (Tid × Sec Op (List Res) Nodes))
    (h : ∀ e ∈ log, e.2 = secOf d lockOf e.2.lbl) (p : Nodes × (Tid → List Res)) :
    seqExec log p = cpmRun d (log.map (fun e => (e.1, e.2.lbl))) p := by
  induction log generalizing p with
  | nil => rfl
  | cons e rest ih =>
    have he := h e (by simp)
    have hr := ih (fun x hx => h x (by simp [hx]))
    simp only [seqExec, cpmRun, List.foldl, List.map] at hr ⊢
    have : seqStep p e = cpmStep d p (e.1, e.2.lbl) := by
      conv => lhs; rw [show e = (e.1, e.2) from rfl, he]
      exact seqStep_secOf d lockOf p e.1 e.2.lbl
    rw [this]
    exact hr _

end Proofs.CpmConc
