import Proofs.Lemmas.LexProc
/-! Shebang sources: the rest of the file is tokenized and the tokens are shifted back
(`lexer.ShiftTokens`); the span and line laws carry over to the whole file. -/
namespace Proofs.Lex
open Model.Lex

/-- the input after a prefix of `off` bytes, as a `ByteArray`-like `Input` -/
theorem extract_toList (inp : Input) (off : Nat) :
    (inp.extract off inp.size).toList = inp.toList.drop off := by
  simp only [Array.toList_extract]
  apply List.take_of_length_le
  simp

theorem extract_size (inp : Input) (off : Nat) : (inp.extract off inp.size).size = inp.size - off := by
  simp [Array.size_extract]

theorem nlCount_extract (inp : Input) (off k : Nat) :
    nlCount (inp.extract off inp.size) 0 k = nlCount inp off (off + k) := by
  unfold nlCount
  rw [extract_toList]
  simp

/-- bytes before the first newline hold no newline; the newline itself is one -/
theorem findNL_first {inp : Input} {f pos nl : Nat} (h : findNL inp f pos = some nl) :
    bAt inp nl = 10 ∧ NoNL inp pos nl := by
  induction f generalizing pos with
  | zero => simp [findNL] at h
  | succ f ih =>
    unfold findNL at h
    split at h
    · split at h
      · rename_i hb
        cases h
        exact ⟨by simpa using hb, fun i h1 h2 => by omega⟩
      · rename_i hb
        obtain ⟨h1, h2⟩ := ih h
        refine ⟨h1, fun i hi1 hi2 => ?_⟩
        by_cases hi : i = pos
        · subst hi; simpa using hb
        · exact h2 i (by omega) hi2
    · cases h

theorem nlCount_shebang {inp : Input} {f nl : Nat} (h : findNL inp f 0 = some nl) :
    nlCount inp 0 (nl + 1) = 1 := by
  obtain ⟨hb, hno⟩ := findNL_first h
  have hlt := (findNL_spec h).2
  rw [nlCount_split inp 0 nl (nl + 1) (by omega) (by omega), nlCount_zero (by omega) hno,
    nlCount_one inp nl hlt]
  simp [hb]

/-- shifting a token that obeys the laws on the rest of the file gives a token that obeys them on the file -/
theorem spanOK_shift {inp : Input} {f nl : Nat} (h : findNL inp f 0 = some nl) {t : Tok}
    (ok : SpanOK (inp.extract (nl + 1) inp.size) t) : SpanOK inp (shiftTok (nl + 1) 1 t) := by
  have hlt := (findNL_spec h).2
  have hb := ok.bound
  rw [extract_size] at hb
  refine ⟨by simp [shiftTok]; exact ok.nonempty, by simp [shiftTok]; omega, ?_⟩
  have hl := ok.line
  rw [nlCount_extract] at hl
  simp only [shiftTok]
  rw [hl, Nat.add_comm t.start (nl + 1),
    nlCount_split inp 0 (nl + 1) (nl + 1 + t.start) (by omega) (by omega), nlCount_shebang h]
  omega

theorem finOK_shift {inp : Input} {f nl : Nat} (h : findNL inp f 0 = some nl) {ts : List Tok}
    (ok : FinOK (inp.extract (nl + 1) inp.size) ts) : FinOK inp (ts.map (shiftTok (nl + 1) 1)) := by
  refine ⟨fun t ht => ?_, ?_⟩
  · obtain ⟨u, hu, rfl⟩ := List.mem_map.mp ht
    exact spanOK_shift h (ok.toks u hu)
  · rw [List.pairwise_map]
    exact ok.ordered.imp (fun hab => by simp [shiftTok]; omega)

end Proofs.Lex
