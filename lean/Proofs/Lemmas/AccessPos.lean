import Model.Access
import Model.Types
/-!
# C07 — lemmas about several items in one construct (`bindEach`, `bindLast`, `storeSeq`, `evalArgs`)

The outcome does not depend on WHERE the offending item stands: a call runs iff every slot is fine, and what is
reported is the first slot that is not; a loop that tests the result after its last iteration only (`bindLast`)
depends on nothing but the last slot.
-/
namespace Proofs.AccessPos
open Model.Types
open Model.Access (Name Hier Table Store Step Site Op Res Out exec evalArgs verdict effects)

theorem bindStep_none_iff (isA : Name → Name → Bool) (i : Nat) (s : Slot) :
    bindStep isA i s = none ↔ s.fine isA = true := by
  unfold bindStep Slot.fine
  cases s.a with
  | val v => by_cases h : admits isA s.k s.t v = true <;> simp [h]
  | throws => simp
  | missing => simp

theorem bindStep_some (isA : Name → Name → Bool) (i : Nat) (s : Slot) (o : CallOut)
    (h : bindStep isA i s = some o) :
    s.fine isA = false ∧ ((s.a = .throws ∧ o = .raised i) ∨ (s.a ≠ .throws ∧ o = .rejected i)) := by
  unfold bindStep at h
  unfold Slot.fine
  cases ha : s.a with
  | val v =>
    rw [ha] at h
    by_cases hv : admits isA s.k s.t v = true
    · simp [hv] at h
    · simp only [hv] at h
      have ho : o = .rejected i := by simpa using h.symm
      exact ⟨by simpa using hv, .inr ⟨by simp, ho⟩⟩
  | throws =>
    rw [ha] at h
    have ho : o = .raised i := by simpa using h.symm
    exact ⟨rfl, .inl ⟨rfl, ho⟩⟩
  | missing =>
    rw [ha] at h
    have ho : o = .rejected i := by simpa using h.symm
    exact ⟨rfl, .inr ⟨by simp, ho⟩⟩

/-- the loop with the test inside runs the body iff every slot is fine -/
theorem bindEach_ran_iff (isA : Name → Name → Bool) :
    ∀ (slots : List Slot) (i : Nat), bindEach isA i slots = .ran ↔ ∀ s ∈ slots, s.fine isA = true
  | [], _ => by simp [bindEach]
  | s :: r, i => by
    unfold bindEach
    cases hb : bindStep isA i s with
    | none =>
      have hf := (bindStep_none_iff isA i s).mp hb
      simp only [List.mem_cons, forall_eq_or_imp]
      rw [bindEach_ran_iff isA r (i+1)]
      exact ⟨fun h => ⟨hf, h⟩, fun h => h.2⟩
    | some o =>
      have ho := bindStep_some isA i s o hb
      simp only [List.mem_cons, forall_eq_or_imp]
      constructor
      · intro h
        rcases ho.2 with ⟨_, h2⟩ | ⟨_, h2⟩ <;> (rw [h2] at h; cases h)
      · intro h
        rw [ho.1] at h
        exact absurd h.1 (by simp)

/-- the offender the loop with the test inside reports: at index `i + j` where `j` is the position of the first
slot that is not fine; `raised` exactly when that slot's argument throws -/
theorem bindEach_first (isA : Name → Name → Bool) :
    ∀ (slots : List Slot) (i : Nat) (o : CallOut), bindEach isA i slots = o → o ≠ .ran →
      ∃ j s, slots[j]? = some s ∧ s.fine isA = false ∧ (∀ k, k < j → ∀ u, slots[k]? = some u → u.fine isA = true) ∧
        ((s.a = .throws ∧ o = .raised (i + j)) ∨ (s.a ≠ .throws ∧ o = .rejected (i + j)))
  | [], _, o, h, hne => by
    simp only [bindEach] at h
    exact absurd h.symm hne
  | s :: r, i, o, h, hne => by
    unfold bindEach at h
    cases hb : bindStep isA i s with
    | some o' =>
      rw [hb] at h
      simp only at h
      subst h
      have ho := bindStep_some isA i s o' hb
      refine ⟨0, s, rfl, ho.1, ?_, ?_⟩
      · intro k hk; omega
      · simpa using ho.2
    | none =>
      rw [hb] at h
      simp only at h
      have hf := (bindStep_none_iff isA i s).mp hb
      obtain ⟨j, u, hj, hu, hbefore, hout⟩ := bindEach_first isA r (i+1) o h hne
      refine ⟨j+1, u, by simpa using hj, hu, ?_, ?_⟩
      · intro k hk w hw
        cases k with
        | zero =>
          have : w = s := by simpa using hw.symm
          rw [this]; exact hf
        | succ k => exact hbefore k (by omega) w (by simpa using hw)
      · have e : i + 1 + j = i + (j + 1) := by omega
        rw [e] at hout
        exact hout

/-- the loop that tests after its last iteration only: the outcome is the last slot's, whatever came before -/
theorem bindLast_append (isA : Name → Name → Bool) (s : Slot) :
    ∀ (pre : List Slot) (i : Nat) (acl : Option CallOut),
      bindLast isA i acl (pre ++ [s]) =
        (match bindStep isA (i + pre.length) s with | some o => o | none => .ran)
  | [], i, acl => by
    simp only [List.nil_append, bindLast, List.length_nil, Nat.add_zero]
    cases bindStep isA i s <;> rfl
  | p :: pre, i, acl => by
    simp only [List.cons_append, bindLast, List.length_cons]
    rw [bindLast_append isA s pre (i+1) _]
    have e : i + 1 + pre.length = i + (pre.length + 1) := by omega
    rw [e]

/-- an argument that throws is somewhere in the list when `firstThrow` finds one -/
theorem firstThrow_some (n : Nat) : ∀ (slots : List Slot) (i : Nat), firstThrow i slots = some n →
    ∃ s ∈ slots, s.a = .throws
  | [], _, h => by simp [firstThrow] at h
  | s :: r, i, h => by
    unfold firstThrow at h
    cases ha : s.a with
    | throws => exact ⟨s, by simp, ha⟩
    | val v =>
      rw [ha] at h
      obtain ⟨u, hu, hua⟩ := firstThrow_some n r (i+1) h
      exact ⟨u, by simp [hu], hua⟩
    | missing =>
      rw [ha] at h
      obtain ⟨u, hu, hua⟩ := firstThrow_some n r (i+1) h
      exact ⟨u, by simp [hu], hua⟩

/-- evaluating every argument before the first is bound (methods) does not change whether the body runs -/
theorem bindEvalFirst_ran_iff (isA : Name → Name → Bool) (slots : List Slot) :
    bindEvalFirst .eachChecked isA slots = .ran ↔ bindArgs .eachChecked isA slots = .ran := by
  unfold bindEvalFirst
  cases hf : firstThrow 0 slots with
  | none => simp
  | some n =>
    obtain ⟨s, hs, hsa⟩ := firstThrow_some n slots 0 hf
    have hnf : s.fine isA = false := by simp [Slot.fine, hsa]
    constructor
    · intro h; cases h
    · intro h
      have := (bindEach_ran_iff isA slots 0).mp h s hs
      rw [hnf] at this
      cases this

/-- several stores in a row: nothing is refused iff every value is admitted -/
theorem storeSeq_none_iff (isA : Name → Name → Bool) :
    ∀ (l : List (BKind × Ty × ValKind)) (i : Nat),
      (storeSeq isA i l).1 = none ↔ ∀ x ∈ l, admits isA x.1 x.2.1 x.2.2 = true
  | [], _ => by simp [storeSeq]
  | (k, t, v) :: r, i => by
    unfold storeSeq
    by_cases h : admits isA k t v = true
    · simp only [h, if_true, List.mem_cons, forall_eq_or_imp, true_and]
      exact storeSeq_none_iff isA r (i+1)
    · simp only [h, List.mem_cons, forall_eq_or_imp]
      simp

/-- the slots afterwards: one per store -/
theorem storeSeq_length (isA : Name → Name → Bool) :
    ∀ (l : List (BKind × Ty × ValKind)) (i : Nat), (storeSeq isA i l).2.length = l.length
  | [], _ => by simp [storeSeq]
  | (k, t, v) :: r, i => by
    unfold storeSeq
    by_cases h : admits isA k t v = true
    · simp [h, storeSeq_length isA r (i+1)]
    · simp [h]

/-- whatever a slot holds afterwards was admitted by its boundary (and is the value offered to that slot) -/
theorem storeSeq_holds (isA : Name → Name → Bool) :
    ∀ (l : List (BKind × Ty × ValKind)) (i j : Nat) (w : ValKind),
      (storeSeq isA i l).2[j]? = some (some w) →
      ∃ x, l[j]? = some x ∧ x.2.2 = w ∧ admits isA x.1 x.2.1 w = true
  | [], _, j, w, h => by simp [storeSeq] at h
  | (k, t, v) :: r, i, j, w, h => by
    unfold storeSeq at h
    by_cases ha : admits isA k t v = true
    · simp only [ha, if_true] at h
      cases j with
      | zero =>
        have hw : v = w := by simpa using h
        exact ⟨(k, t, v), rfl, hw, by rw [← hw]; exact ha⟩
      | succ j =>
        have h' : (storeSeq isA (i+1) r).2[j]? = some (some w) := by simp at h; exact h
        obtain ⟨x, hx, hxw, hxa⟩ := storeSeq_holds isA r (i+1) j w h'
        exact ⟨x, by simpa using hx, hxw, hxa⟩
    · simp only [ha] at h
      cases j with
      | zero => simp at h
      | succ j => simp at h

/-- the refused store is the first whose value is not admitted; everything before it is written, nothing from it on -/
theorem storeSeq_first (isA : Name → Name → Bool) :
    ∀ (l : List (BKind × Ty × ValKind)) (i n : Nat), (storeSeq isA i l).1 = some n →
      ∃ j x, n = i + j ∧ l[j]? = some x ∧ admits isA x.1 x.2.1 x.2.2 = false ∧
        (∀ k, k < j → ∀ y, l[k]? = some y → admits isA y.1 y.2.1 y.2.2 = true ∧ (storeSeq isA i l).2[k]? = some (some y.2.2)) ∧
        (∀ k, j ≤ k → k < l.length → (storeSeq isA i l).2[k]? = some none)
  | [], _, n, h => by simp [storeSeq] at h
  | (k, t, v) :: r, i, n, h => by
    unfold storeSeq at h ⊢
    by_cases ha : admits isA k t v = true
    · simp only [ha, if_true] at h ⊢
      obtain ⟨j, x, hn, hx, hxa, hbefore, hafter⟩ := storeSeq_first isA r (i+1) n h
      refine ⟨j+1, x, by omega, by simpa using hx, hxa, ?_, ?_⟩
      · intro q hq y hy
        cases q with
        | zero =>
          have : y = (k, t, v) := by simpa using hy.symm
          subst this
          exact ⟨ha, by simp⟩
        | succ q =>
          have := hbefore q (by omega) y (by simpa using hy)
          exact ⟨this.1, by simpa using this.2⟩
      · intro q hq hlen
        cases q with
        | zero => omega
        | succ q =>
          have := hafter q (by omega) (by simpa using hlen)
          simpa using this
    · simp only [ha] at h ⊢
      have hn : i = n := by simpa using h
      refine ⟨0, (k, t, v), by omega, rfl, by simpa using ha, ?_, ?_⟩
      · intro q hq; omega
      · intro q _ hlen
        cases q with
        | zero => simp
        | succ q =>
          have hq : q < r.length := by simpa using hlen
          simp [List.getElem?_map, List.getElem?_eq_getElem hq]

/-! ### `evalArgs` -/

theorem exec_ok_iff_verdict (T : Table) (H : Hier) (st : Step) (σ : Store) :
    (∃ r, (exec T H st.site σ st.op).1 = .ok r) ↔ verdict T H st = .allowed := by
  unfold verdict
  cases hop : st.op with
  | read k =>
    simp only [exec]
    cases Model.Access.decide T H st.site <;> simp
  | write k v ok =>
    cases ok with
    | false => simp [exec]
    | true =>
      simp only [exec]
      cases Model.Access.decide T H st.site <;> simp
  | call k =>
    simp only [exec]
    cases Model.Access.decide T H st.site <;> simp

theorem exec_ok_store (T : Table) (H : Hier) (st : Step) (σ : Store) (r : Option Model.Access.Val)
    (h : (exec T H st.site σ st.op).1 = .ok r) : (exec T H st.site σ st.op).2 = σ.after st.op := by
  cases hop : st.op with
  | read k =>
    rw [hop] at h
    simp only [exec] at h ⊢
    cases hd : Model.Access.decide T H st.site <;> simp [hd, Store.after] at h ⊢
  | write k v ok =>
    rw [hop] at h
    cases ok with
    | false => simp [exec] at h
    | true =>
      simp only [exec] at h ⊢
      cases hd : Model.Access.decide T H st.site <;> simp [hd, Store.after] at h ⊢
  | call k =>
    rw [hop] at h
    simp only [exec] at h ⊢
    cases hd : Model.Access.decide T H st.site <;> simp [hd, Store.after] at h ⊢

theorem exec_notok_store (T : Table) (H : Hier) (st : Step) (σ : Store)
    (h : ∀ r, (exec T H st.site σ st.op).1 ≠ .ok r) : (exec T H st.site σ st.op).2 = σ := by
  cases hop : st.op with
  | read k =>
    rw [hop] at h
    simp only [exec] at h ⊢
    cases hd : Model.Access.decide T H st.site <;> simp [hd] at h ⊢
  | write k v ok =>
    rw [hop] at h
    cases ok with
    | false => simp [exec]
    | true =>
      simp only [exec] at h ⊢
      cases hd : Model.Access.decide T H st.site <;> simp [hd] at h ⊢
  | call k =>
    rw [hop] at h
    simp only [exec] at h ⊢
    cases hd : Model.Access.decide T H st.site <;> simp [hd] at h ⊢

/-- the expression is evaluated to the end iff every operand's access is allowed -/
theorem evalArgs_none_iff (T : Table) (H : Hier) :
    ∀ (steps : List Step) (i : Nat) (σ : Store),
      (evalArgs T H i σ steps).1 = none ↔ ∀ st ∈ steps, verdict T H st = .allowed
  | [], _, _ => by simp [evalArgs]
  | st :: rest, i, σ => by
    unfold evalArgs
    simp only [List.mem_cons, forall_eq_or_imp]
    have hv := exec_ok_iff_verdict T H st σ
    cases he : exec T H st.site σ st.op with
    | mk res σ' =>
      rw [he] at hv
      cases res with
      | ok r =>
        simp only
        rw [evalArgs_none_iff T H rest (i+1) σ']
        have : verdict T H st = .allowed := hv.mp ⟨r, rfl⟩
        exact ⟨fun h => ⟨this, h⟩, fun h => h.2⟩
      | denied =>
        simp only
        have : verdict T H st ≠ .allowed := fun h => by
          obtain ⟨r, hr⟩ := hv.mpr h
          cases hr
        constructor
        · intro h; cases h
        · intro h; exact absurd h.1 this
      | stuck =>
        simp only
        have : verdict T H st ≠ .allowed := fun h => by
          obtain ⟨r, hr⟩ := hv.mpr h
          cases hr
        constructor
        · intro h; cases h
        · intro h; exact absurd h.1 this

/-- where the evaluation stops and what it leaves: the first operand whose access is not allowed; the store holds
the effects of the operands before it, nothing of it or of those after it -/
theorem evalArgs_first (T : Table) (H : Hier) :
    ∀ (steps : List Step) (i : Nat) (σ : Store) (n : Nat), (evalArgs T H i σ steps).1 = some n →
      ∃ j st, n = i + j ∧ steps[j]? = some st ∧ verdict T H st ≠ .allowed ∧
        (∀ k, k < j → ∀ u, steps[k]? = some u → verdict T H u = .allowed) ∧
        (evalArgs T H i σ steps).2 = (steps.take j).foldl (fun σ u => σ.after u.op) σ
  | [], _, _, n, h => by simp [evalArgs] at h
  | st :: rest, i, σ, n, h => by
    unfold evalArgs at h ⊢
    have hv := exec_ok_iff_verdict T H st σ
    cases he : exec T H st.site σ st.op with
    | mk res σ' =>
      rw [he] at h hv
      cases res with
      | ok r =>
        simp only at h ⊢
        have hσ : σ' = σ.after st.op := by
          have := exec_ok_store T H st σ r (by rw [he])
          rw [he] at this
          exact this
        obtain ⟨j, u, hn, hu, hden, hbefore, hstore⟩ := evalArgs_first T H rest (i+1) σ' n h
        refine ⟨j+1, u, by omega, by simpa using hu, hden, ?_, ?_⟩
        · intro k hk w hw
          cases k with
          | zero =>
            have : w = st := by simpa using hw.symm
            rw [this]; exact hv.mp ⟨r, rfl⟩
          | succ k => exact hbefore k (by omega) w (by simpa using hw)
        · rw [hstore, hσ]; simp [List.take_succ_cons]
      | denied =>
        simp only at h ⊢
        have hn : i = n := by simpa using h
        have hσ : σ' = σ := by
          have := exec_notok_store T H st σ (by rw [he]; intro r hr; cases hr)
          rw [he] at this
          exact this
        refine ⟨0, st, by omega, rfl, ?_, ?_, ?_⟩
        · intro ha
          obtain ⟨r, hr⟩ := hv.mpr ha
          cases hr
        · intro k hk; omega
        · simp [hσ]
      | stuck =>
        simp only at h ⊢
        have hn : i = n := by simpa using h
        have hσ : σ' = σ := by
          have := exec_notok_store T H st σ (by rw [he]; intro r hr; cases hr)
          rw [he] at this
          exact this
        refine ⟨0, st, by omega, rfl, ?_, ?_, ?_⟩
        · intro ha
          obtain ⟨r, hr⟩ := hv.mpr ha
          cases hr
        · intro k hk; omega
        · simp [hσ]

end Proofs.AccessPos
