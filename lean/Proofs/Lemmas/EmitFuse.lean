import Model.EmitFuse
/-! Lemmas for C16, fused comparison nodes: the fused node agrees with the plain one on every operand;
the rewrite `$v < N` → `$v <= N-1` agrees with `<` exactly on part of the operand domain. -/
namespace Proofs.EmitFuse
open Model.EmitFuse

theorem cmpInt_lt_iff (a b : Int) : (cmpInt a b == .lt) = decide (a < b) := by
  unfold cmpInt
  by_cases h : a < b
  · simp [h]
  · by_cases h2 : a = b <;> simp [h, h2]

theorem cmpInt_le_iff (a b : Int) : (cmpInt a b == .lt || cmpInt a b == .eq) = decide (a ≤ b) := by
  unfold cmpInt
  by_cases h : a < b
  · have : a ≤ b := by omega
    simp [h, this]
  · by_cases h2 : a = b
    · simp [h2]
    · have : ¬ a ≤ b := by omega
      simp [h, h2, this]

/-- the fused node and the plain `<=` agree on EVERY operand, whatever `LooseCompare` does on non-ints -/
theorem fused_le_agrees (loose : LooseNonInt) (v : V) (lit : Int) :
    evalVarIntLe loose v lit = evalLe loose v lit := by
  cases v with
  | int i => simp only [evalVarIntLe, evalLe, looseCmp]; exact (cmpInt_le_iff i lit).symm
  | half t => rfl
  | bool b => rfl
  | null => rfl
  | noOrder => rfl

/-- on integers `$v < N` and `$v <= N-1` are the same predicate (unbounded ints; the handler keeps the
plain node when `N-1` would wrap) -/
theorem rewrite_on_ints (loose : LooseNonInt) (i n : Int) :
    evalLtRewritten loose (.int i) n = evalLt loose (.int i) n := by
  simp only [evalLtRewritten, evalVarIntLe, evalLt, looseCmp, cmpInt_lt_iff]
  by_cases h : i < n
  · have : i ≤ n - 1 := by omega
    simp [h, this]
  · have : ¬ i ≤ n - 1 := by omega
    simp [h, this]

theorem evalLe_half (t n : Int) : evalLe looseReal (.half t) n = decide (t ≤ 2 * n) :=
  cmpInt_le_iff t (2 * n)

theorem evalLt_half (t n : Int) : evalLt looseReal (.half t) n = decide (t < 2 * n) :=
  cmpInt_lt_iff t (2 * n)

/-- a float `t/2`: the rewrite agrees with `<` unless the float sits strictly between `N-1` and `N` -/
theorem rewrite_half_iff (t n : Int) :
    evalLtRewritten looseReal (.half t) n = evalLt looseReal (.half t) n ↔ t ≠ 2 * n - 1 := by
  have hr : evalLtRewritten looseReal (.half t) n = evalLe looseReal (.half t) (n - 1) := rfl
  rw [hr, evalLe_half, evalLt_half]
  constructor
  · intro h ht
    subst ht
    have h1 : (2 * n - 1 : Int) < 2 * n := by omega
    have h2 : ¬ (2 * n - 1 : Int) ≤ 2 * (n - 1) := by omega
    rw [decide_eq_true h1, decide_eq_false h2] at h
    cases h
  · intro ht
    by_cases h : t < 2 * n
    · have : t ≤ 2 * (n - 1) := by omega
      rw [decide_eq_true h, decide_eq_true this]
    · have : ¬ t ≤ 2 * (n - 1) := by omega
      rw [decide_eq_false h, decide_eq_false this]

/-- `true`: the rewrite agrees only for N = 1; `false` and `null`: for every N but 0 -/
theorem rewrite_true_iff (n : Int) :
    evalLtRewritten looseReal (.bool true) n = evalLt looseReal (.bool true) n ↔ n = 1 := by
  simp only [evalLtRewritten, evalVarIntLe, evalLe, evalLt, looseCmp, looseReal]
  by_cases h0 : n = 0
  · subst h0; decide
  · by_cases h1 : n = 1
    · subst h1; decide
    · have h2 : ¬ (n - 1 = 0) := by omega
      simp [h0, h1, h2]

theorem rewrite_null_iff (n : Int) :
    evalLtRewritten looseReal .null n = evalLt looseReal .null n ↔ n ≠ 0 := by
  simp only [evalLtRewritten, evalVarIntLe, evalLe, evalLt, looseCmp, looseReal]
  by_cases h0 : n = 0
  · subst h0; decide
  · by_cases h1 : n - 1 = 0
    · simp [h0, h1]
    · simp [h0, h1]

end Proofs.EmitFuse
