import Proofs.Lemmas.WireSound
/-! Soundness of the parser: a successful parse is a derivation in the grammar that covers
the whole input. -/
namespace Proofs.Wire
open Model.Wire Spec.Wire

structure Sound (o : Opts) (rf : Bytes → Nat → Except Err FT)
    (rg : Bytes → Nat → Nat → Except Err (FT × Bytes)) : Prop where
  sF : ∀ p d t, rf p d = .ok t → Encodes o t p
  sG : ∀ p g d t r, rg p g d = .ok (t, r) →
        ∃ kb eb, p = kb ++ eb ++ r ∧ Encodes o t kb ∧ TagRepr g 4 eb

theorem okV_sound {r : Option (Nat × Bytes)} {e : Err} {mk : Nat → Leaf} {v : V} {rest : Bytes}
    (h : okV r e mk = .ok (v, rest)) : ∃ x, r = some (x, rest) ∧ v = .leaf (mk x) := by
  cases r with
  | none => simp [okV] at h
  | some p =>
    obtain ⟨x, r'⟩ := p
    simp only [okV, Except.ok.injEq, Prod.mk.injEq] at h
    exact ⟨x, by rw [h.2], h.1.symm⟩

theorem value_sound (o : Opts) (rf : Bytes → Nat → Except Err FT)
    (rg : Bytes → Nat → Nat → Except Err (FT × Bytes)) (S : Sound o rf rg)
    (num wt : Nat) (data : Bytes) (e : Nat) (v : V) (rest : Bytes)
    (h : valueWith o rf rg num wt data e = .ok (v, rest)) :
    ∃ vb, data = vb ++ rest ∧ ValRepr o num v wt vb := by
  unfold valueWith at h
  split at h
  · rename_i hw; subst hw
    obtain ⟨x, hx, rfl⟩ := okV_sound h
    obtain ⟨pre, hpre, hv⟩ := consumeVarint_sound hx
    exact ⟨pre, hpre, ValRepr.varint hv⟩
  split at h
  · rename_i _ hw; subst hw
    obtain ⟨x, hx, rfl⟩ := okV_sound h
    match data, hx with
    | b0 :: b1 :: b2 :: b3 :: b4 :: b5 :: b6 :: b7 :: r, hx =>
      simp only [consumeFixed64, Option.some.injEq, Prod.mk.injEq] at hx
      obtain ⟨rfl, rfl⟩ := hx
      exact ⟨[b0, b1, b2, b3, b4, b5, b6, b7], rfl, ValRepr.fixed64⟩
  split at h
  · rename_i _ _ hw; subst hw
    cases hb : consumeBytes data with
    | none => simp [hb] at h
    | some p =>
      obtain ⟨payload, rest0⟩ := p
      obtain ⟨lb, hlb, hlen⟩ := consumeBytes_sound hb
      simp only [hb] at h
      split at h
      · rename_i hp
        cases hlk : List.lookup num o.elemType with
        | none => simp [hlk] at h
        | some et =>
          simp only [hlk] at h
          cases hu : unpackPacked et payload with
          | error err => simp [hu, packedOf] at h
          | ok vs =>
            simp only [hu, packedOf, Except.ok.injEq, Prod.mk.injEq] at h
            obtain ⟨rfl, rfl⟩ := h
            exact ⟨lb ++ payload, hlb, ValRepr.packed hlen hp hlk (unpackPacked_sound hu)⟩
      · rename_i hp
        split at h
        · rename_i hm
          split at h
          · simp at h
          · cases hr : rf payload (e + 1) with
            | error err => simp [hr, subOf] at h
            | ok kids =>
              simp only [hr, subOf, Except.ok.injEq, Prod.mk.injEq] at h
              obtain ⟨rfl, rfl⟩ := h
              exact ⟨lb ++ payload, hlb, ValRepr.msg hlen (by simpa using hp) hm (S.sF payload (e + 1) kids hr)⟩
        · rename_i hm
          simp only [Except.ok.injEq, Prod.mk.injEq] at h
          obtain ⟨rfl, rfl⟩ := h
          exact ⟨lb ++ payload, hlb, ValRepr.bytes hlen (by simpa using hp) (by simpa using hm)⟩
  split at h
  · rename_i _ _ _ hw; subst hw
    split at h
    · simp at h
    · cases hr : rg data num e with
      | error err => simp [hr, subOfG] at h
      | ok p =>
        obtain ⟨kids, rest0⟩ := p
        simp only [hr, subOfG, Except.ok.injEq, Prod.mk.injEq] at h
        obtain ⟨rfl, rfl⟩ := h
        obtain ⟨kb, eb, hd, hk, he⟩ := S.sG data num e kids rest0 hr
        exact ⟨kb ++ eb, hd, ValRepr.group hk he⟩
  split at h
  · simp at h
  split at h
  · rename_i _ _ _ _ _ hw; subst hw
    obtain ⟨x, hx, rfl⟩ := okV_sound h
    match data, hx with
    | b0 :: b1 :: b2 :: b3 :: r, hx =>
      simp only [consumeFixed32, Option.some.injEq, Prod.mk.injEq] at hx
      obtain ⟨rfl, rfl⟩ := hx
      exact ⟨[b0, b1, b2, b3], rfl, ValRepr.fixed32⟩
  · simp at h

theorem sound_all (o : Opts) : ∀ f, Sound o (loopF o f) (loopG o f) := by
  intro f
  induction f with
  | zero =>
    exact { sF := by intro p d t h; simp [loopF] at h, sG := by intro p g d t r h; simp [loopG] at h }
  | succ f ih =>
    constructor
    · intro p d t h
      cases p with
      | nil => simp only [loopF, Except.ok.injEq] at h; rw [← h]; exact Encodes.nil
      | cons b tl =>
        simp only [loopF] at h
        cases ht : consumeTag (b :: tl) with
        | none => simp [ht] at h
        | some q =>
          obtain ⟨num, wt, data1⟩ := q
          obtain ⟨tb, htb, htag⟩ := consumeTag_sound ht
          simp only [ht] at h
          split at h
          · simp at h
          · cases hval : valueWith o (loopF o f) (loopG o f) num wt data1 d with
            | error e => simp [hval] at h
            | ok q =>
              obtain ⟨v, rest⟩ := q
              simp only [hval] at h
              obtain ⟨fs, hfs, rfl⟩ := consF_cases.2 t h
              obtain ⟨vb, hvb, hvr⟩ := value_sound o _ _ ih num wt data1 d v rest hval
              rw [htb, hvb, ← List.append_assoc]
              exact Encodes.cons htag hvr (ih.sF rest d fs hfs)
    · intro p g d t r h
      cases p with
      | nil => simp [loopG] at h
      | cons b tl =>
        simp only [loopG] at h
        cases ht : consumeTag (b :: tl) with
        | none => simp [ht] at h
        | some q =>
          obtain ⟨num, wt, data1⟩ := q
          obtain ⟨tb, htb, htag⟩ := consumeTag_sound ht
          simp only [ht] at h
          split at h
          · rename_i hw
            split at h
            · simp at h
            · rename_i hn
              simp only [Except.ok.injEq, Prod.mk.injEq] at h
              obtain ⟨rfl, rfl⟩ := h
              have : num = g := by
                cases Nat.decEq num g with
                | isTrue h => exact h
                | isFalse h => exact absurd h hn
              subst this; subst hw
              exact ⟨[], tb, by simpa using htb, Encodes.nil, htag⟩
          · cases hval : valueWith o (loopF o f) (loopG o f) num wt data1 (d + 1) with
            | error e => simp [hval] at h
            | ok q =>
              obtain ⟨v, rest⟩ := q
              simp only [hval] at h
              obtain ⟨fs, hfs, rfl⟩ := consG_cases.2 t r h
              obtain ⟨vb, hvb, hvr⟩ := value_sound o _ _ ih num wt data1 (d + 1) v rest hval
              obtain ⟨kb, eb, hd, hk, he⟩ := ih.sG rest g d fs r hfs
              refine ⟨tb ++ vb ++ kb, eb, ?_, Encodes.cons htag hvr hk, he⟩
              rw [htb, hvb, hd]; simp [List.append_assoc]

end Proofs.Wire
