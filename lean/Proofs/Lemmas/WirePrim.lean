import Model.Wire
import Spec.Wire
/-! Round trips and length facts of the wire primitives. -/
namespace Proofs.Wire
open Model.Wire Spec.Wire

/-- `2 * 128^f` -/
def lim : Nat → Nat
  | 0 => 2
  | f + 1 => 128 * lim f

theorem lim9 : lim 9 = 2 ^ 64 := by decide

theorem cv_av (f : Nat) : ∀ (v : Nat) (rest : Bytes), v < lim f →
    cvAux (f + 1) (avAux f v ++ rest) = some (v, rest) := by
  induction f with
  | zero =>
    intro v rest hv
    simp only [lim] at hv
    have : v % 128 = v := by omega
    simp only [avAux, this, List.cons_append, List.nil_append, cvAux]
    rw [if_pos (by omega), if_neg (by omega)]
  | succ f ih =>
    intro v rest hv
    simp only [lim] at hv
    simp only [avAux]
    split
    · rename_i h
      simp only [List.cons_append, List.nil_append, cvAux]
      rw [if_pos h, if_neg (by omega)]
    · rename_i h
      simp only [List.cons_append, cvAux]
      rw [if_neg (by omega), ih (v / 128) rest (by omega)]
      simp only [Option.some.injEq, Prod.mk.injEq, and_true]
      omega

theorem varint_roundtrip (v : Nat) (rest : Bytes) (hv : v < 2 ^ 64) :
    consumeVarint (appendVarint v ++ rest) = some (v, rest) := by
  unfold consumeVarint appendVarint
  exact cv_av 9 v rest (by rw [lim9]; exact hv)

theorem av_length_pos (f v : Nat) : 0 < (avAux f v).length := by
  cases f <;> simp [avAux] <;> split <;> simp

theorem tag_roundtrip (num wt : Nat) (rest : Bytes) (hn : validNum num) (hw : wt < 8) :
    consumeTag (appendTag num wt ++ rest) = some (num, wt, rest) := by
  obtain ⟨h1, h2⟩ := hn
  unfold consumeTag appendTag
  rw [varint_roundtrip _ _ (by omega)]
  simp only
  rw [if_neg (by omega), if_neg (by omega)]
  simp only [Option.some.injEq, Prod.mk.injEq, and_true]
  omega

theorem appendTag_cons (num wt : Nat) : ∃ b l, appendTag num wt = b :: l := by
  unfold appendTag appendVarint avAux
  split
  · exact ⟨_, _, rfl⟩
  · exact ⟨_, _, rfl⟩

theorem fixed32_roundtrip (v : Nat) (rest : Bytes) (hv : v < 2 ^ 32) :
    consumeFixed32 (appendFixed32 v ++ rest) = some (v, rest) := by
  simp only [appendFixed32, List.cons_append, List.nil_append, consumeFixed32, Option.some.injEq,
    Prod.mk.injEq, and_true]
  omega

theorem fixed64_roundtrip (v : Nat) (rest : Bytes) (hv : v < 2 ^ 64) :
    consumeFixed64 (appendFixed64 v ++ rest) = some (v, rest) := by
  simp only [appendFixed64, List.cons_append, List.nil_append, consumeFixed64, Option.some.injEq,
    Prod.mk.injEq, and_true]
  omega

theorem bytes_roundtrip (bs rest : Bytes) (hl : bs.length < 2 ^ 64) :
    consumeBytes (appendBytes bs ++ rest) = some (bs, rest) := by
  unfold consumeBytes appendBytes
  rw [List.append_assoc, varint_roundtrip _ _ hl]
  simp

end Proofs.Wire
