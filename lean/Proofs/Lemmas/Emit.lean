import Model.Emit
import Spec.Emit
/-! Lemmas for C16: round trip of the emitted literal, no silent loss, no crash. -/
namespace Proofs.Emit
open Model.Emit Spec.Emit

theorem bind_ok {α β} {o : Out α} {f : α → Out β} {b : β} (h : o.bind f = .ok b) :
    ∃ a, o = .ok a ∧ f a = .ok b := by
  cases o with
  | ok a => exact ⟨a, rfl, h⟩
  | error e => simp [Out.bind] at h
  | crash => simp [Out.bind] at h

/-! ### the object wrapper -/

theorem objWrap_ok {tbl : Tables} {m : Mode} {ty : String} {x : Out Lit} {l : Lit}
    (h : objWrap tbl m ty x = .ok l) :
    ∃ lf, x = .ok lf ∧ rebuild l = .obj ty (if m.isInline then true else rebuiltNode tbl ty false) (rebuild lf)
      ∧ (m.isInline = false → ∀ hn, rebuiltNode tbl ty hn = rebuiltNode tbl ty false) := by
  unfold objWrap at h
  by_cases hi : m.isInline = true
  · rw [if_pos hi] at h
    obtain ⟨lf, hx, hl⟩ := bind_ok h
    cases hl
    exact ⟨lf, hx, by simp [rebuild, hi], by intro h'; rw [hi] at h'; cases h'⟩
  · rw [if_neg hi] at h
    have hi' : m.isInline = false := by simpa using hi
    unfold objOut at h
    split at h
    · next hh hp =>
      obtain ⟨lf, hx, hl⟩ := bind_ok h
      cases hl
      refine ⟨lf, hx, ?_, ?_⟩
      · simp [rebuild, hi', rebuiltNode, hp]
      · intro _ hn; simp [rebuiltNode, hp]
    · next hh hp =>
      obtain ⟨lf, hx, hl⟩ := bind_ok h
      cases hl
      refine ⟨lf, hx, ?_, ?_⟩
      · simp [rebuild, hi', rebuiltNode, hp]
      · intro _ hn; simp [rebuiltNode, hp]
    · next d hp =>
      obtain ⟨lf, hx, hl⟩ := bind_ok h
      cases hl
      refine ⟨lf, hx, ?_, ?_⟩
      · simp [rebuild, hi', rebuiltNode, hp]
      · intro _ hn; simp [rebuiltNode, hp]
    · cases h
    · cases h

/-! ### round trip -/

/-- evaluating the emitted literal gives the tree `erase` describes -/
theorem emit_rebuild (tbl : Tables) : ∀ (v : Val) (m : Mode) (ty : String) (l : Lit),
    emit tbl m ty v = .ok l → rebuild l = erase tbl m ty v := by
  intro v
  induction v with
  | nil => intro m ty l h; simp [emit] at h; cases h; rfl
  | scalar s => intro m ty l h; simp [emit] at h; cases h; rfl
  | blob => intro m ty l h; simp [emit] at h
  | plainPtr => intro m ty l h; simp only [emit] at h; split at h <;> cases h
  | unnamed => intro m ty l h; simp [emit] at h
  | obj oty hn fields ih =>
    intro m ty l h
    simp only [emit] at h
    obtain ⟨lf, hx, hl, hnode⟩ := objWrap_ok h
    have := ih _ _ _ hx
    rw [hl, this]
    simp only [erase]
    by_cases hi : m.isInline = true
    · simp [hi]
    · have hi' : m.isInline = false := by simpa using hi
      simp [hi', hnode hi' hn]
  | list items ih =>
    intro m ty l h
    simp only [emit] at h
    obtain ⟨li, hx, hl⟩ := bind_ok h
    cases hl
    simp [rebuild, erase, ih _ _ _ hx]
  | fnil =>
    intro m ty l h
    simp only [emit, endOut] at h
    split at h
    · cases h
    · cases h
    · cases h; simp [rebuild, erase]
  | fcons name v rest ihv ihr =>
    intro m ty l h
    simp only [emit, consOut] at h
    simp only [erase, keepField]
    split at h
    · cases h
    · cases h
    · next hact => simp [hact]; exact ihr _ _ _ h
    · next hact =>
      obtain ⟨lv, hv, h2⟩ := bind_ok h
      obtain ⟨lr, hr, h3⟩ := bind_ok h2
      cases h3
      simp [hact, rebuild, ihv _ _ _ hv, ihr _ _ _ hr]

/-! ### nothing dropped ⇒ identity up to positions -/

theorem erase_of_no_drop (tbl : Tables) : ∀ (v : Val) (m : Mode) (ty : String),
    dropped tbl m ty v = [] → stripPos (erase tbl m ty v) = stripPos v := by
  intro v
  induction v with
  | nil => intros; rfl
  | scalar s => intros; rfl
  | blob => intros; rfl
  | plainPtr => intros; rfl
  | unnamed => intros; rfl
  | obj oty hn fields ih =>
    intro m ty h
    simp only [dropped, List.append_eq_nil_iff] at h
    simp [erase, stripPos, ih _ _ h.2]
  | list items ih =>
    intro m ty h
    simp only [dropped] at h
    simp [erase, stripPos, ih _ _ h]
  | fnil => intros; rfl
  | fcons name v rest ihv ihr =>
    intro m ty h
    simp only [dropped] at h
    by_cases hk : keepField m name = true
    · rw [if_pos hk, List.append_eq_nil_iff] at h
      simp [erase, hk, stripPos, ihv _ _ h.1, ihr _ _ h.2]
    · rw [if_neg hk] at h; cases h

/-! ### what one level can drop is in the static list -/

theorem mem_chainNames_of_mem_levelDrops {m : Mode} {fields : Val} {n : String}
    (h : n ∈ levelDrops m fields) : n ∈ chainNames fields ∧ keepField m n = false := by
  unfold levelDrops at h
  simp only [List.mem_filter] at h
  exact ⟨h.1, by simpa using h.2⟩

/-- a handler level: every field left out is an unread data field of the struct -/
theorem handler_level_static (tbl : Tables) (h : Handler) (d : StructDesc)
    (hd : findStruct tbl h.ty = some d) (fields : Val)
    (hconf : ∀ n ∈ chainNames fields, ∃ f ∈ d.fields, f.name = n ∧ f.embeddedNode = false)
    (n : String) (hn : n ∈ levelDrops (.readFields h.reads h.inner) fields) :
    (h.ty, n) ∈ handlerDrops tbl h := by
  obtain ⟨hmem, hk⟩ := mem_chainNames_of_mem_levelDrops hn
  obtain ⟨f, hf, hfn, hfe⟩ := hconf n hmem
  unfold handlerDrops
  rw [hd]
  simp only [List.mem_map, List.mem_filter]
  refine ⟨f, ⟨hf, ?_⟩, by rw [hfn]⟩
  simp only [keepField, fieldAct] at hk
  by_cases hc : h.reads.contains n = true
  · rw [if_pos hc] at hk; simp at hk
  · rw [hfn]; simp only [List.contains_eq_mem, decide_eq_true_eq] at hc; simp [hfe, hc]

/-- a reflective level: every field left out is a `pp:"-"` data field of the struct -/
theorem refl_level_static (tbl : Tables) (d : StructDesc) (fields : Val)
    (huniq : ∀ f ∈ d.fields, d.fields.find? (fun g => g.name == f.name) = some f)
    (hexp : firstUnexported d = none)
    (hconf : ∀ n ∈ chainNames fields, ∃ f ∈ d.fields, f.name = n ∧ f.embeddedNode = false)
    (n : String) (hn : n ∈ levelDrops (.reflFields d) fields) :
    (d.name, n) ∈ reflDrops tbl d := by
  obtain ⟨hmem, hk⟩ := mem_chainNames_of_mem_levelDrops hn
  obtain ⟨f, hf, hfn, hfe⟩ := hconf n hmem
  have hfind := huniq f hf
  rw [hfn] at hfind
  have hexp' : f.exported = true := by
    unfold firstUnexported at hexp
    rw [List.find?_eq_none] at hexp
    have := hexp f hf
    simpa [hfe] using this
  simp only [keepField, fieldAct, hfind, hfe] at hk
  unfold reflDrops
  apply List.mem_append_left
  simp only [List.mem_map, List.mem_filter]
  refine ⟨f, ⟨hf, ?_⟩, by rw [hfn]⟩
  by_cases hs : f.ppSkip = true
  · simp [hfe, hs]
  · simp [hs, hexp'] at hk

/-! ### explicit error, never a crash -/

theorem no_crash (tbl : Tables) (hp : tbl.ptrAssertUnchecked = false) :
    ∀ (v : Val) (m : Mode) (ty : String), emit tbl m ty v ≠ .crash := by
  intro v
  induction v with
  | nil => intro m ty h; simp [emit] at h
  | scalar s => intro m ty h; simp [emit] at h
  | blob => intro m ty h; simp [emit] at h
  | plainPtr => intro m ty h; simp [emit, hp] at h
  | unnamed => intro m ty h; simp [emit] at h
  | obj oty hn fields ih =>
    intro m ty h
    simp only [emit, objWrap] at h
    have hf := ih (objMode tbl m oty) (chainTy m oty)
    split at h
    · cases hx : emit tbl (objMode tbl m oty) (chainTy m oty) fields <;> simp_all [Out.bind]
    · unfold objOut at h
      cases hx : emit tbl (objMode tbl m oty) (chainTy m oty) fields <;> split at h <;> simp_all [Out.bind]
  | list items ih =>
    intro m ty h
    simp only [emit] at h
    have := ih .elems ty
    cases hx : emit tbl .elems ty items <;> simp_all [Out.bind]
  | fnil =>
    intro m ty h
    simp only [emit, endOut] at h
    split at h <;> cases h
  | fcons name v rest ihv ihr =>
    intro m ty h
    simp only [emit, consOut] at h
    have hv := ihv (valueMode m ty name) ty
    have hr := ihr m ty
    split at h
    · cases h
    · cases h
    · exact hr h
    · cases hx : emit tbl (valueMode m ty name) ty v <;> cases hy : emit tbl m ty rest <;> simp_all [Out.bind]

/-- the value contains no pointer to a non-node -/
def noPlainPtr : Val → Bool
  | .plainPtr => false
  | .obj _ _ fields => noPlainPtr fields
  | .list items => noPlainPtr items
  | .fcons _ v rest => noPlainPtr v && noPlainPtr rest
  | _ => true

theorem no_crash_of_noPlainPtr (tbl : Tables) :
    ∀ (v : Val) (m : Mode) (ty : String), noPlainPtr v = true → emit tbl m ty v ≠ .crash := by
  intro v
  induction v with
  | nil => intro m ty _ h; simp [emit] at h
  | scalar s => intro m ty _ h; simp [emit] at h
  | blob => intro m ty _ h; simp [emit] at h
  | plainPtr => intro m ty hnp; simp [noPlainPtr] at hnp
  | unnamed => intro m ty _ h; simp [emit] at h
  | obj oty hn fields ih =>
    intro m ty hnp h
    simp only [noPlainPtr] at hnp
    simp only [emit, objWrap] at h
    have hf := ih (objMode tbl m oty) (chainTy m oty) hnp
    split at h
    · cases hx : emit tbl (objMode tbl m oty) (chainTy m oty) fields <;> simp_all [Out.bind]
    · unfold objOut at h
      cases hx : emit tbl (objMode tbl m oty) (chainTy m oty) fields <;> split at h <;> simp_all [Out.bind]
  | list items ih =>
    intro m ty hnp h
    simp only [noPlainPtr] at hnp
    simp only [emit] at h
    have := ih .elems ty hnp
    cases hx : emit tbl .elems ty items <;> simp_all [Out.bind]
  | fnil =>
    intro m ty _ h
    simp only [emit, endOut] at h
    split at h <;> cases h
  | fcons name v rest ihv ihr =>
    intro m ty hnp h
    simp only [noPlainPtr, Bool.and_eq_true] at hnp
    simp only [emit, consOut] at h
    have hv := ihv (valueMode m ty name) ty hnp.1
    have hr := ihr m ty hnp.2
    split at h
    · cases h
    · cases h
    · exact hr h
    · cases hx : emit tbl (valueMode m ty name) ty v <;> cases hy : emit tbl m ty rest <;> simp_all [Out.bind]

/-! ### the runners -/

/-- running a step list with any interpretation of the steps -/
def runSteps {σ : Type} (sem : Step → σ → σ) (steps : List Step) (s : σ) : σ :=
  steps.foldl (fun st step => sem step st) s

theorem runSteps_filter {σ : Type} (sem : Step → σ → σ) (keep : Step → Bool)
    (hid : ∀ st s, keep st = false → sem st s = s) (steps : List Step) (s : σ) :
    runSteps sem steps s = runSteps sem (steps.filter keep) s := by
  induction steps generalizing s with
  | nil => rfl
  | cons a rest ih =>
    by_cases hk : keep a = true
    · simp only [runSteps, List.foldl_cons, List.filter_cons_of_pos hk] at *
      exact ih _
    · have hk' : keep a = false := by simpa using hk
      simp only [runSteps, List.foldl_cons] at *
      rw [List.filter_cons_of_neg hk, hid a s hk']
      exact ih _

end Proofs.Emit
