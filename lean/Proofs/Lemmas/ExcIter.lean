import Model.Exc
/-! C05: nothing survives a statement in `Model.Exc` — every phase is *uniform* in the trace it starts from: the
outcome does not depend on it and the events appended are the same. Hence every iteration of a loop does what the
first one does. -/
namespace Proofs.Exc
open Model.Exc

/-- `f` ends the same way and appends the same events whatever happened before -/
def Uniform (f : List Ev → Res) : Prop := ∃ o ext, ∀ tr, f tr = (o, tr ++ ext)

theorem Uniform.at_nil {f : List Ev → Res} (h : Uniform f) : ∀ tr, f tr = ((f []).1, tr ++ (f []).2) := by
  obtain ⟨o, ext, h⟩ := h
  intro tr
  rw [h tr, h []]
  simp

theorem uni_protect {f : List Ev → Res} (h : Uniform f) : Uniform (fun t => protect (f t)) := by
  obtain ⟨o, ext, h⟩ := h
  cases o <;> exact ⟨_, ext, fun tr => by simp [h, protect] <;> rfl⟩

theorem uni_callResult {f : List Ev → Res} (h : Uniform f) : Uniform (fun t => callResult (f t)) := by
  obtain ⟨o, ext, h⟩ := h
  cases o
  case normal => exact ⟨_, ext ++ [.result none], fun tr => by simp [h, callResult] <;> rfl⟩
  case ret v => exact ⟨_, ext ++ [.result (some v)], fun tr => by simp [h, callResult] <;> rfl⟩
  all_goals exact ⟨_, ext, fun tr => by simp [h, callResult] <;> rfl⟩

/-- a loop over a uniform step is the first iteration repeated -/
theorem loopN_repeat {step : List Ev → Res} {o : Out} {ext : List Ev} (h : ∀ tr, step tr = (o, tr ++ ext)) :
    ∀ k tr, loopN step k tr = repeatIter o ext k tr
  | 0, tr => by simp [loopN, repeatIter]
  | k+1, tr => by
    have ih := loopN_repeat h k
    cases o <;> simp [loopN, repeatIter, h tr, ih]

/-- closed form: the events of the first iteration, as many times as iterations run -/
theorem repeatIter_closed (o : Out) (ext : List Ev) :
    ∀ k tr, repeatIter o ext k tr = (loopOutcome o k, tr ++ (List.replicate (iterCount o k) ext).flatten)
  | 0, tr => by cases o <;> simp [repeatIter, loopOutcome, iterCount]
  | k+1, tr => by
    have ih := repeatIter_closed o ext k
    cases o <;> simp [repeatIter, loopOutcome, iterCount, ih, List.replicate_succ]
    all_goals (cases k <;> simp [loopOutcome])

theorem uni_repeatIter (o : Out) (ext : List Ev) : ∀ k, Uniform (repeatIter o ext k)
  | 0 => ⟨.normal, [], fun tr => by simp [repeatIter] <;> rfl⟩
  | k+1 => by
    obtain ⟨o', e', h'⟩ := uni_repeatIter o ext k
    cases o
    case normal => exact ⟨o', ext ++ e', fun tr => by simp [repeatIter, h'] <;> rfl⟩
    case cont => exact ⟨o', ext ++ e', fun tr => by simp [repeatIter, h'] <;> rfl⟩
    all_goals exact ⟨_, ext, fun tr => by simp [repeatIter] <;> rfl⟩

theorem uni_loopN {step : List Ev → Res} (h : Uniform step) (k : Nat) : Uniform (loopN step k) := by
  obtain ⟨o, ext, h⟩ := h
  obtain ⟨o', e', h'⟩ := uni_repeatIter o ext k
  exact ⟨o', e', fun tr => by rw [loopN_repeat h k tr, h' tr]⟩

theorem uni_protect' {f : List Ev → Res} (h : Uniform f) : ∃ o ext, ∀ tr, protect (f tr) = (o, tr ++ ext) :=
  uni_protect h

theorem uni_tryStmt (a i : Nat) (hasFin : Bool) {rb : List Ev → Res} {cl : Thrown → List Ev → Res} {rf : List Ev → Res}
    (hb : Uniform rb) (hc : ∀ x, Uniform (cl x)) (hf : Uniform rf) : Uniform (tryStmt a i hasFin rb cl rf) := by
  obtain ⟨o1, e1, h1⟩ := uni_protect' hb
  obtain ⟨o3, e3, h3⟩ := uni_protect' hf
  have h2 : ∃ o2 e2, ∀ tr, catchPhase (fun r => protect (tryValue cl r)) (o1, tr) = (o2, tr ++ e2) := by
    cases o1 with
    | normal => exact ⟨.normal, [], fun tr => by simp [catchPhase]⟩
    | thr t =>
      obtain ⟨o2, e2, hh⟩ := uni_protect' (hc t)
      exact ⟨o2, e2, fun tr => by simp only [catchPhase, tryValue, hh]⟩
    | panic => exact ⟨.thr .internal, [], fun tr => by simp [catchPhase, tryValue, protect]⟩
    | brk => exact ⟨.brk, [], fun tr => by simp [catchPhase, tryValue, protect]⟩
    | cont => exact ⟨.cont, [], fun tr => by simp [catchPhase, tryValue, protect]⟩
    | ret v => exact ⟨.ret v, [], fun tr => by simp [catchPhase, tryValue, protect]⟩
  obtain ⟨o2, e2, h2⟩ := h2
  cases hasFin with
  | false => exact ⟨o2, [.enterTry a i] ++ e1 ++ e2, fun tr => by simp [tryStmt, h1, h2, finallyPhase]⟩
  | true =>
    cases o3 with
    | normal =>
      exact ⟨o2, [.enterTry a i] ++ e1 ++ e2 ++ [.enterFinally a i] ++ e3,
        fun tr => by simp [tryStmt, h1, h2, h3, finallyPhase]⟩
    | brk =>
      exact ⟨.brk, [.enterTry a i] ++ e1 ++ e2 ++ [.enterFinally a i] ++ e3,
        fun tr => by simp [tryStmt, h1, h2, h3, finallyPhase]⟩
    | cont =>
      exact ⟨.cont, [.enterTry a i] ++ e1 ++ e2 ++ [.enterFinally a i] ++ e3,
        fun tr => by simp [tryStmt, h1, h2, h3, finallyPhase]⟩
    | ret v =>
      exact ⟨.ret v, [.enterTry a i] ++ e1 ++ e2 ++ [.enterFinally a i] ++ e3,
        fun tr => by simp [tryStmt, h1, h2, h3, finallyPhase]⟩
    | thr t =>
      exact ⟨.thr t, [.enterTry a i] ++ e1 ++ e2 ++ [.enterFinally a i] ++ e3,
        fun tr => by simp [tryStmt, h1, h2, h3, finallyPhase]⟩
    | panic =>
      exact ⟨.panic, [.enterTry a i] ++ e1 ++ e2 ++ [.enterFinally a i] ++ e3,
        fun tr => by simp [tryStmt, h1, h2, h3, finallyPhase]⟩

theorem uni_callNamed (A : Act) (k : Nat) (h : Uniform (A.env k)) : Uniform (callNamed A k) := by
  unfold callNamed
  by_cases h0 : A.lvl = 0
  · exact ⟨.normal, [], fun tr => by simp [h0] <;> rfl⟩
  · obtain ⟨o, e, hh⟩ := uni_callResult h
    exact ⟨o, e, fun tr => by simp [h0, hh] <;> rfl⟩

mutual
theorem exec_uni (G : Model.Hier.Graph) (cfg : Cfg) (hg : cfg.guarded = true) (A : Act) (henv : ∀ k, Uniform (A.env k)) :
    ∀ (s : Stmt) (cur : Option Thrown), Uniform (exec G cfg cur A s)
  | .echo m, cur => ⟨.normal, [.echo A.lvl m], fun tr => by simp [exec] <;> rfl⟩
  | .throw c st, cur => ⟨_, [], fun tr => by simp [exec] <;> rfl⟩
  | .rethrow, cur => ⟨_, [], fun tr => by simp [exec] <;> rfl⟩
  | .gopanic, cur => ⟨_, [], fun tr => by simp [exec] <;> rfl⟩
  | .ret v, cur => ⟨_, [], fun tr => by simp [exec] <;> rfl⟩
  | .brk, cur => ⟨_, [], fun tr => by simp [exec] <;> rfl⟩
  | .cont, cur => ⟨_, [], fun tr => by simp [exec] <;> rfl⟩
  | .loop k b, cur => by
    obtain ⟨o, e, h⟩ := uni_loopN (execB_uni G cfg hg A henv b cur) k
    exact ⟨o, e, fun tr => by simp only [exec]; exact h tr⟩
  | .call b, cur => by
    obtain ⟨o, e, h⟩ := uni_callResult (execB_uni G cfg hg A henv b none)
    exact ⟨o, e, fun tr => by simp only [exec]; exact h tr⟩
  | .callf k, cur => by
    obtain ⟨o, e, h⟩ := uni_callNamed A k (henv k)
    exact ⟨o, e, fun tr => by simp only [exec]; exact h tr⟩
  | .try_ j b cs hasFin fin, cur => by
    obtain ⟨o, e, h⟩ := uni_tryStmt A.lvl j hasFin (execB_uni G cfg hg A henv b cur)
      (fun x => execC_uni G cfg hg A henv cs j 0 x) (execB_uni G cfg hg A henv fin cur)
    exact ⟨o, e, fun tr => by simp only [exec, hg, if_true]; exact h tr⟩
theorem execB_uni (G : Model.Hier.Graph) (cfg : Cfg) (hg : cfg.guarded = true) (A : Act) (henv : ∀ k, Uniform (A.env k)) :
    ∀ (b : Block) (cur : Option Thrown), Uniform (execB G cfg cur A b)
  | .nil, cur => ⟨.normal, [], fun tr => by simp [execB] <;> rfl⟩
  | .cons s rest, cur => by
    obtain ⟨o1, e1, h1⟩ := exec_uni G cfg hg A henv s cur
    obtain ⟨o2, e2, h2⟩ := execB_uni G cfg hg A henv rest cur
    cases o1
    case normal => exact ⟨o2, e1 ++ e2, fun tr => by simp [execB, h1, h2] <;> rfl⟩
    all_goals exact ⟨_, e1, fun tr => by simp [execB, h1] <;> rfl⟩
theorem execC_uni (G : Model.Hier.Graph) (cfg : Cfg) (hg : cfg.guarded = true) (A : Act) (henv : ∀ k, Uniform (A.env k)) :
    ∀ (cs : Catches) (j k : Nat) (x : Thrown), Uniform (execC G cfg A j k x cs)
  | .nil, j, k, x => ⟨_, [], fun tr => by simp [execC] <;> rfl⟩
  | .cons tys b rest, j, k, x => by
    by_cases hm : clauseMatches G tys x = true
    · obtain ⟨o, e, h⟩ := execB_uni G cfg hg A henv b (some x)
      exact ⟨o, [.caught A.lvl j k x] ++ e, fun tr => by simp [execC, hm, h] <;> rfl⟩
    · obtain ⟨o, e, h⟩ := execC_uni G cfg hg A henv rest j (k+1) x
      exact ⟨o, e, fun tr => by simp [execC, hm, h] <;> rfl⟩
end

/-- the callees of every level are uniform: induction on the level on top of the induction on the syntax -/
theorem envAt_uni (G : Model.Hier.Graph) (cfg : Cfg) (hg : cfg.guarded = true) (fns : List Block) :
    ∀ (n k : Nat), Uniform (envAt G cfg fns n k)
  | 0, k => ⟨.normal, [], fun tr => by simp [envAt] <;> rfl⟩
  | n+1, k => by
    cases hb : fns[k]? with
    | none => exact ⟨_, [], fun tr => by simp [envAt, hb] <;> rfl⟩
    | some b =>
      obtain ⟨o, e, h⟩ := execB_uni G cfg hg ⟨n, envAt G cfg fns n⟩ (envAt_uni G cfg hg fns n) b none
      exact ⟨o, e, fun tr => by simp only [envAt, hb]; exact h tr⟩

end Proofs.Exc
