import Model.Access
import Model.Types
/-! C07: how bad an arm / a boundary may be on the pinned tree (mirrors the `known` entries of
`props/C07.json`), and the decidable comparison the regenerated tables are held against. -/
namespace Proofs.AccessKnown
open Model.Access Model.Types

/-- how much an arm lets through, worst last -/
inductive Grade where
  | exact      -- PHP's rule on the lexical class and the declaring class: lets through exactly what is allowed
  | sound      -- never lets a forbidden access through (may refuse more than PHP does)
  | relatives  -- a private member is also usable from code running on a descendant or an ancestor class
  | ctxOpen    -- no modifier test, but only reachable from a class context
  | open_      -- no modifier test at all
  | broken     -- a guard is missing / the translator does not recognise the code
deriving DecidableEq, Repr

def Grade.rank : Grade → Nat
  | .exact => 0 | .sound => 1 | .relatives => 2 | .ctxOpen => 3 | .open_ => 4 | .broken => 5

def gradeOf : Check → Grade
  | .unchecked => .open_
  | .lexical true true _ => .exact
  | .lexical _ _ _ => .broken
  | .hier true true _ => .relatives
  | .hier _ _ _ => .broken
  | .pubOnly => .sound
  | .pubOnlyOwn false => .sound
  | .pubOnlyOwn true => .open_
  | .classCtxOnly => .ctxOpen
  | .privDenied => .sound
  | .shapeChanged => .broken

/-- the worst grade each arm is known to have (`known` findings of props/C07.json). After the second round of
repairs (`fixes/C07-1-*` … `C07-3-*`) what is left is:
* `A::$p` read/write: the modifier of a static property is lost at parse time (`leak:staticProp…`);
* `self::$p` / `static::$p`: for the same reason nothing can be tested (`leak:selfProp…`, `leak:staticKwProp…`);
* `unset($this[...])` is a no-op in the code (no finding, the arm tests nothing);
* `$o['p']`, `$this['p']`, `unset($o['p'])`: public members only (sound, refuses more than PHP);
* `parent::m()`: private refused (sound and, at the sites where it can stand, exact: `C07_parent_exact`).
Every other arm — `$o->p`, `$o->p = v`, `$o->m()`, `$o->$n`, `$o->$n = v`, `$o->$n()`, `unset($o->p)`, on `$this`
as on any other object, `A::m()`, `self::m()`, `static::m()`, `foreach` — must be `exact`. -/
def known : Path → Recv → Grade
  | .propRead, _ | .propWrite, _ | .methCall, _
  | .dynPropRead, _ | .dynPropWrite, _ | .dynMeth, _ => .exact
  | .idxRead, _ | .idxWrite, _ => .sound
  | .staticPropRead, _ | .staticPropWrite, _ => .open_
  | .staticMeth, _ => .exact
  | .selfMeth, _ | .staticKwMeth, _ => .exact
  | .selfProp, _ | .staticKwProp, _ => .ctxOpen
  | .parentMeth, _ => .sound
  | .unsetProp, _ => .exact
  | .unsetIdx, .this => .open_
  | .unsetIdx, .other => .sound
  | .iterate, _ => .exact

/-- what was known before the second round of repairs (the obligation then was `rank ≤` this) -/
def knownBefore : Path → Recv → Grade
  | .propRead, .this | .propWrite, .this | .methCall, .this
  | .dynPropRead, .this | .dynPropWrite, .this | .dynMeth, .this => .open_
  | .propRead, .other | .propWrite, .other | .methCall, .other
  | .dynPropRead, .other | .dynPropWrite, .other | .dynMeth, .other => .relatives
  | .idxRead, .this => .open_
  | .idxRead, .other | .idxWrite, _ => .sound
  | .staticPropRead, _ | .staticPropWrite, _ => .open_
  | .staticMeth, _ => .relatives
  | .selfProp, _ | .selfMeth, _ | .staticKwProp, _ | .staticKwMeth, _ => .ctxOpen
  | .parentMeth, _ => .sound
  | .unsetProp, .this => .open_
  | .unsetProp, .other => .relatives
  | .unsetIdx, .this => .open_
  | .unsetIdx, .other => .sound
  | .iterate, _ => .open_

/-- the regenerated table is nowhere worse than what is known -/
def TableOK (T : Table) : Bool :=
  Path.all.all (fun p => [Recv.this, Recv.other].all (fun r => (gradeOf (T p r)).rank ≤ (known p r).rank))

theorem Path.mem_all (p : Path) : p ∈ Path.all := by cases p <;> decide

/-- the obligation, arm by arm -/
theorem TableOK_arm {T : Table} (h : TableOK T = true) (p : Path) (r : Recv) :
    (gradeOf (T p r)).rank ≤ (known p r).rank := by
  unfold TableOK at h
  have h1 := List.all_eq_true.mp h p (Path.mem_all p)
  have h2 := List.all_eq_true.mp h1 r (by cases r <;> decide)
  exact of_decide_eq_true h2

/-- an arm graded `exact` is the lexical test with both guards -/
theorem gradeOf_exact {c : Check} (h : (gradeOf c).rank = 0) : ∃ nc, c = .lexical true true nc := by
  cases c with
  | lexical a b nc =>
    cases a <;> cases b <;> simp [gradeOf, Grade.rank] at h
    exact ⟨nc, rfl⟩
  | hier a b t => cases a <;> cases b <;> simp [gradeOf, Grade.rank] at h
  | pubOnlyOwn e => cases e <;> simp [gradeOf, Grade.rank] at h
  | _ => simp [gradeOf, Grade.rank] at h

/-- a table within the known findings performs the lexical test on every arm that is known as `exact` -/
theorem TableOK_exact {T : Table} (h : TableOK T = true) {p : Path} {r : Recv} (hk : known p r = .exact) :
    ∃ nc, T p r = .lexical true true nc := by
  have := TableOK_arm h p r
  rw [hk] at this
  exact gradeOf_exact (Nat.le_zero.mp this)

def BKind.rank : BKind → Nat
  | .exact => 0 | .nullAlso => 1 | .unchecked => 2 | .shapeChanged => 3

/-- the worst kind each boundary is known to have (`type:<boundary>:null|nonnull` findings): after
`fixes/C07-4-*` … `C07-6-*` only `A::$p = v` (declared type lost at parse time) and closure / arrow-function
return types (dropped by `LambdaExpression.GetValue`) are left unchecked -/
def knownBoundary : Boundary → BKind
  | .propStore | .dynPropStore | .fnReturn | .idxStore
  | .fnParam | .methParam | .staticParam | .ctorParam | .methReturn | .closureParam | .promotedParam
  | .variadicParam => .exact
  | .staticStore | .closureReturn => .unchecked

/-- what was known before the second round of repairs -/
def knownBoundaryBefore : Boundary → BKind
  | .propStore | .dynPropStore | .fnReturn => .exact
  | .fnParam | .methParam | .staticParam | .ctorParam | .methReturn | .closureParam | .promotedParam => .nullAlso
  | .idxStore | .staticStore | .closureReturn | .variadicParam => .unchecked

def BoundariesOK (B : Boundary → BKind) : Bool :=
  Boundary.all.all (fun b => BKind.rank (B b) ≤ BKind.rank (knownBoundary b))

theorem Boundary.mem_all (b : Boundary) : b ∈ Boundary.all := by cases b <;> decide

/-- a boundary table within the known findings is `exact` wherever `exact` is what is known -/
theorem BoundariesOK_exact {B : Boundary → BKind} (h : BoundariesOK B = true) {b : Boundary}
    (hk : knownBoundary b = .exact) : B b = .exact := by
  unfold BoundariesOK at h
  have h1 := of_decide_eq_true (List.all_eq_true.mp h b (Boundary.mem_all b))
  rw [hk] at h1
  cases hb : B b <;> simp [hb, BKind.rank] at h1 ⊢

end Proofs.AccessKnown
