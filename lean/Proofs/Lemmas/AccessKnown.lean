import Model.Access
import Model.Types
/-! C07: how bad an arm / a boundary may be on the pinned tree (mirrors the `known` entries of
`props/C07.json`), and the decidable comparison the regenerated tables are held against. -/
namespace Proofs.AccessKnown
open Model.Access Model.Types

/-- how much an arm lets through, worst last -/
inductive Grade where
  | sound      -- never lets a forbidden access through (may refuse more than PHP does)
  | relatives  -- a private member is also usable from code running on a descendant or an ancestor class
  | ctxOpen    -- no modifier test, but only reachable from a class context
  | open_      -- no modifier test at all
  | broken     -- a guard is missing / the translator does not recognise the code
deriving DecidableEq, Repr

def Grade.rank : Grade → Nat
  | .sound => 0 | .relatives => 1 | .ctxOpen => 2 | .open_ => 3 | .broken => 4

def gradeOf : Check → Grade
  | .unchecked => .open_
  | .hier true true _ => .relatives
  | .hier _ _ _ => .broken
  | .pubOnly => .sound
  | .pubOnlyOwn false => .sound
  | .pubOnlyOwn true => .open_
  | .classCtxOnly => .ctxOpen
  | .privDenied => .sound
  | .shapeChanged => .broken

/-- the worst grade each arm is known to have (`known` findings of props/C07.json):
* `->`/dynamic paths on another object: private enforced like protected (`leak:<path>:priv:descendant|ancestor`);
* the same paths on `$this`: nothing tested (`leak:<path>/this:priv:…`);
* `$this[...]` read: an inherited property is read from the raw storage (`leak:idxRead/this:priv:…`);
* `A::$p` read/write: modifier lost at parse time (`leak:staticProp…`);
* `self::` / `static::`: nothing tested (`leak:self…`, `leak:staticKw…`);
* `A::m()`, `unset($o->p)`: as the `->` paths after the fixes; `unset($this[...])` is a no-op in the code;
* `foreach` over an object lists every property whatever its modifier (`leak:iterate:…`). -/
def known : Path → Recv → Grade
  | .propRead, .this | .propWrite, .this | .methCall, .this
  | .dynPropRead, .this | .dynPropWrite, .this | .dynMeth, .this => .open_
  | .propRead, .other | .propWrite, .other | .methCall, .other
  | .dynPropRead, .other | .dynPropWrite, .other | .dynMeth, .other => .relatives
  | .idxRead, .this => .open_
  | .idxRead, .other | .idxWrite, _ => .sound
  | .staticPropRead, _ | .staticPropWrite, _ => .open_
  | .staticMeth, _ => .relatives
  | .selfProp, _ | .selfMeth, _ | .staticKwProp, _ | .staticKwMeth, _ => .ctxOpen
  | .parentMeth, _ => .sound
  | .unsetProp, .this => .open_
  | .unsetProp, .other => .relatives
  | .unsetIdx, .this => .open_
  | .unsetIdx, .other => .sound
  | .iterate, _ => .open_

/-- the regenerated table is nowhere worse than what is known -/
def TableOK (T : Table) : Bool :=
  Path.all.all (fun p => [Recv.this, Recv.other].all (fun r => (gradeOf (T p r)).rank ≤ (known p r).rank))

def BKind.rank : BKind → Nat
  | .exact => 0 | .nullAlso => 1 | .unchecked => 2 | .shapeChanged => 3

/-- the worst kind each boundary is known to have (`type:<boundary>:null|nonnull` findings) -/
def knownBoundary : Boundary → BKind
  | .propStore | .dynPropStore | .fnReturn => .exact
  | .fnParam | .methParam | .staticParam | .ctorParam | .methReturn | .closureParam | .promotedParam => .nullAlso
  | .idxStore | .staticStore | .closureReturn => .unchecked

def BoundariesOK (B : Boundary → BKind) : Bool :=
  Boundary.all.all (fun b => BKind.rank (B b) ≤ BKind.rank (knownBoundary b))

end Proofs.AccessKnown
