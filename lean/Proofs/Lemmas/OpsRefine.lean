import Model.Ops
import Spec.Ops
import Proofs.Lemmas.Ops
import Proofs.Lemmas.OpsSpec
import Proofs.Lemmas.OpsCompare
/-! C03: `<=>` coherence and exactness of `Model.Ops` against `Spec.Ops`, operator by operator. -/
namespace Proofs.Ops
open Model.Ops
section
variable {F : Type} (P : Prim F)


theorem m1_ne : BitVec.ofInt 64 (-1) ≠ 1#64 ∧ BitVec.ofInt 64 (-1) ≠ 0#64 ∧ (1#64 : BitVec 64) ≠ 0#64 := by decide

/-- `<=>` is −1 exactly when `<` holds and 1 exactly when `>` holds — on **every** operand pair and
without any hypothesis: the three nodes read the same `data.LooseCompare` result -/
theorem spaceship_agrees {T : TruthTable} (a b : Val F) :
    (eval P T .cmp false a b = .val (.int (BitVec.ofInt 64 (-1))) ↔ eval P T .lt false a b = .val (.bool true)) ∧
    (eval P T .cmp false a b = .val (.int 1#64) ↔ eval P T .gt false a b = .val (.bool true)) := by
  have ⟨h1, h2, h3⟩ := m1_ne
  simp only [eval, cmp, lt, gt, viaCompare]
  cases looseCompare P T a b with
  | none => simp
  | some o => cases o <;> simp [Ord4.toInt, Ord4.isLt, Ord4.isGt, h1, h2, h3, h3.symm]

theorem exact_add {T : TruthTable} (a b : Val F) (r : Res F) (hs : Spec.Ops.eval P .add a b = some r) :
    eval P T .add false a b = r := by
  cases a <;> cases b <;>
    simp [Spec.Ops.eval, Spec.Ops.bothStr, Spec.Ops.arith, Spec.Ops.bothInt, Spec.Ops.toF] at hs <;>
    subst hs <;>
    simp [eval, add, addSwitch, isFloat, addAsFloat, asFloatI, asString, wrap_add]

theorem exact_sub {T : TruthTable} (a b : Val F) (r : Res F) (hs : Spec.Ops.eval P .sub a b = some r) :
    eval P T .sub false a b = r := by
  cases a <;> cases b <;>
    simp [Spec.Ops.eval, Spec.Ops.arith, Spec.Ops.bothInt, Spec.Ops.toF] at hs <;>
    subst hs <;>
    simp [eval, sub, operandAsInt, operandAsFloat, asIntI, asFloatI, Model.Ops.ofExcept, wrap_sub, bind, Except.bind, pure, Except.pure]

theorem exact_mul {T : TruthTable} (a b : Val F) (r : Res F) (hs : Spec.Ops.eval P .mul a b = some r) :
    eval P T .mul false a b = r := by
  cases a <;> cases b <;>
    simp [Spec.Ops.eval, Spec.Ops.arith, Spec.Ops.bothInt, Spec.Ops.toF] at hs <;>
    subst hs <;>
    simp [eval, mul, operandAsInt, operandAsFloat, asIntI, asFloatI, Model.Ops.ofExcept, wrap_mul, bind, Except.bind, pure, Except.pure]

theorem exact_quo {T : TruthTable} (a b : Val F) (r : Res F) (hs : Spec.Ops.eval P .quo a b = some r) :
    eval P T .quo false a b = r := by
  cases a <;> cases b <;>
    simp [Spec.Ops.eval, Spec.Ops.quo, Spec.Ops.toF] at hs <;>
    subst hs <;>
    simp [eval, quo, operandAsFloat, asFloatI]



theorem exact_rem {T : TruthTable} (h_zero_toInt : ∀ z : F, P.eq z P.zero = true → P.toInt z = 0#64)
    (a b : Val F) (r : Res F) (hs : Spec.Ops.eval P .rem a b = some r) :
    eval P T .rem false a b = r := by
  cases a <;> cases b <;>
    simp [Spec.Ops.eval, Spec.Ops.rem] at hs <;>
    subst hs
  · rename_i x y
    simp only [eval, rem, operandAsInt, asIntI]
    by_cases h : y.toInt = 0
    · have := (toInt_eq_zero y).mp h
      simp [h, this]
    · have h' : ¬ (y == 0#64) = true := fun hh => h ((toInt_eq_zero y).mpr hh)
      simp [h, h', wrap_srem]
  · rename_i x y
    simp only [eval, rem, operandAsFloat, asFloatI]
    by_cases h : (P.toInt y).toInt = 0
    · have := (toInt_eq_zero _).mp h
      simp [h, this]
    · have h' : ¬ (P.toInt y == 0#64) = true := fun hh => h ((toInt_eq_zero _).mpr hh)
      have hz : P.eq y P.zero = false := by
        cases hq : P.eq y P.zero
        · rfl
        · have := h_zero_toInt y hq
          rw [this] at h
          simp at h
      simp [h, h', hz, wrap_srem]

theorem exact_pow {T : TruthTable} (a b : Val F) (r : Res F) (hs : Spec.Ops.eval P .pow a b = some r) :
    eval P T .pow false a b = r := by
  cases a <;> cases b <;>
    simp [Spec.Ops.eval, Spec.Ops.pow, Spec.Ops.toF, Spec.Ops.bothInt] at hs <;>
    subst hs <;>
    simp [eval, pow, operandAsFloat, asFloatI, isInt]

theorem exact_bit {T : TruthTable} (a b : Val F) (r : Res F) :
    (Spec.Ops.eval P .band a b = some r → eval P T .band false a b = r) ∧
    (Spec.Ops.eval P .bor a b = some r → eval P T .bor false a b = r) ∧
    (Spec.Ops.eval P .bxor a b = some r → eval P T .bxor false a b = r) := by
  refine ⟨?_, ?_, ?_⟩ <;> intro hs <;> cases a <;> cases b <;>
    simp [Spec.Ops.eval, Spec.Ops.bitop, Spec.Ops.bothInt] at hs <;>
    subst hs <;>
    simp [eval, band, bor, bxor, toIntOrZero]

theorem min64 {n : Nat} (h : n < 64) : min n 64 = n := by omega
theorem min64' {n : Nat} (h : 64 ≤ n) : min n 64 = 64 := by omega

theorem exact_shl {T : TruthTable} (a b : Val F) (r : Res F) (hs : Spec.Ops.eval P .shl a b = some r) :
    eval P T .shl false a b = r := by
  cases a <;> cases b <;>
    simp [Spec.Ops.eval, Spec.Ops.shift, Spec.Ops.bothInt] at hs <;>
    subst hs
  rename_i x n
  simp only [eval, shl, shiftWith, operandAsInt, asIntI, slt_zero]
  by_cases h : n.toInt < 0
  · simp [h]
  · have hn := toNat_of_nonneg n h
    by_cases h2 : 64 ≤ n.toInt
    · have : 64 ≤ n.toNat := by omega
      simp [h, h2, min64' this, Spec.Ops.wrap]
    · have : n.toInt.toNat < 64 := by omega
      simp [h, h2, min64 this, hn, wrap_shl]

theorem sshr64 (x : BitVec 64) : x.sshiftRight 64 = Spec.Ops.wrap (if x.toInt < 0 then -1 else 0) := by
  rw [← wrap_shr]
  have h1 := BitVec.toInt_lt (x := x)
  have h2 := BitVec.le_toInt (x := x)
  congr 1
  simp at h1 h2
  split <;> omega

theorem exact_shr {T : TruthTable} (a b : Val F) (r : Res F) (hs : Spec.Ops.eval P .shr a b = some r) :
    eval P T .shr false a b = r := by
  cases a <;> cases b <;>
    simp [Spec.Ops.eval, Spec.Ops.shift, Spec.Ops.bothInt] at hs <;>
    subst hs
  rename_i x n
  simp only [eval, shr, shiftWith, operandAsInt, asIntI, slt_zero]
  by_cases h : n.toInt < 0
  · simp [h]
  · have hn := toNat_of_nonneg n h
    by_cases h2 : 64 ≤ n.toInt
    · have : 64 ≤ n.toNat := by omega
      simp [h, h2, min64' this, sshr64]
    · have : n.toInt.toNat < 64 := by omega
      simp [h, h2, min64 this, hn, wrap_shr]



/-- what the documentation says about an ordering is what the helper answers -/
theorem order_compare {T : TruthTable} (hT : wf T = true) (hF : FloatOrder P) (a b : Val F) (p : Bool × Bool)
    (h : Spec.Ops.order P a b = some p) :
    ∃ o, looseCompare P T a b = some o ∧ o.isLt = p.1 ∧ o.isLe = p.2 := by
  unfold Spec.Ops.order at h
  split at h
  · rename_i x y hc
    rw [conv_compare P hT hF a b x y hc]
    exact (base_compare P hT hF x y).1 p h
  · cases h

theorem looseEq_compare {T : TruthTable} (hT : wf T = true) (hF : FloatOrder P) (a b : Val F) (e : Bool)
    (h : Spec.Ops.looseEq P a b = some e) :
    ∃ o, looseCompare P T a b = some o ∧ o.isEq = e := by
  unfold Spec.Ops.looseEq at h
  split at h
  · rename_i x y hc
    rw [conv_compare P hT hF a b x y hc]
    exact (base_compare P hT hF x y).2 e h
  · cases h

theorem exact_eqne {T : TruthTable} (hT : wf T = true) (hF : FloatOrder P) (a b : Val F) (r : Res F) :
    (Spec.Ops.eval P .eq a b = some r → eval P T .eq false a b = r) ∧
    (Spec.Ops.eval P .ne a b = some r → eval P T .ne false a b = r) := by
  refine ⟨?_, ?_⟩ <;> intro hs <;>
    simp only [Spec.Ops.eval, Option.map_eq_some_iff] at hs <;>
    obtain ⟨e, he, hr⟩ := hs <;> subst hr <;>
    obtain ⟨o, ho, hoe⟩ := looseEq_compare P hT hF a b e he <;>
    simp [eval, eqv, nev, viaCompare, ho, hoe, Spec.Ops.mkBool]

theorem exact_strict {T : TruthTable} (a b : Val F) (r : Res F) :
    (Spec.Ops.eval P .seq a b = some r → eval P T .seq false a b = r) ∧
    (Spec.Ops.eval P .sne a b = some r → eval P T .sne false a b = r) := by
  refine ⟨?_, ?_⟩ <;> intro hs <;> cases a <;> cases b <;>
    simp [Spec.Ops.eval, Spec.Ops.strictEq, Spec.Ops.isScalar, Spec.Ops.mkBool] at hs <;>
    subst hs <;>
    simp [eval, seq, sne, strictEq]

theorem exact_rel {T : TruthTable} (hT : wf T = true) (hF : FloatOrder P) (a b : Val F) (r : Res F) :
    (Spec.Ops.eval P .lt a b = some r → eval P T .lt false a b = r) ∧
    (Spec.Ops.eval P .le a b = some r → eval P T .le false a b = r) ∧
    (Spec.Ops.eval P .gt a b = some r → eval P T .gt false a b = r) ∧
    (Spec.Ops.eval P .ge a b = some r → eval P T .ge false a b = r) := by
  have hrev := looseCompare_rev (T := T) P hF.eq_symm hF.lt_asymm b a
  refine ⟨?_, ?_, ?_, ?_⟩ <;> intro hs <;>
    simp only [Spec.Ops.eval, Option.map_eq_some_iff] at hs <;>
    obtain ⟨p, hp, hr⟩ := hs <;> subst hr
  · obtain ⟨o, ho, h1, _⟩ := order_compare P hT hF a b p hp
    simp [eval, lt, viaCompare, ho, h1, Spec.Ops.mkBool]
  · obtain ⟨o, ho, _, h2⟩ := order_compare P hT hF a b p hp
    simp [eval, le, viaCompare, ho, h2, Spec.Ops.mkBool]
  · obtain ⟨o, ho, h1, _⟩ := order_compare P hT hF b a p hp
    rw [ho] at hrev
    simp [eval, gt, viaCompare, hrev, (Ord4.rev_tests' o).1, h1, Spec.Ops.mkBool]
  · obtain ⟨o, ho, _, h2⟩ := order_compare P hT hF b a p hp
    rw [ho] at hrev
    simp [eval, ge, viaCompare, hrev, (Ord4.rev_tests' o).2, h2, Spec.Ops.mkBool]

theorem exact_cmp {T : TruthTable} (hT : wf T = true) (hF : FloatOrder P) (a b : Val F) (r : Res F)
    (hs : Spec.Ops.eval P .cmp a b = some r) : eval P T .cmp false a b = r := by
  have hrev := looseCompare_rev (T := T) P hF.eq_symm hF.lt_asymm b a
  simp only [Spec.Ops.eval, Spec.Ops.spaceship] at hs
  split at hs
  · rename_i l _ g _ h1 h2
    obtain ⟨o, ho, hl, _⟩ := order_compare P hT hF a b _ h1
    obtain ⟨o', ho', hg, _⟩ := order_compare P hT hF b a _ h2
    rw [ho'] at hrev
    rw [ho] at hrev
    simp only [Option.map_some, Option.some.injEq] at hrev
    cases hs
    simp only [eval, cmp, ho, Ord4.toInt_tests, hl]
    have : o.isGt = g := by
      rw [hrev, (Ord4.rev_tests' o').1, hg]
    simp [this, Spec.Ops.wrap]
  · cases hs

theorem exact_logic {T : TruthTable} (hT : wf T = true) (a b : Val F) (r : Res F) :
    (Spec.Ops.eval P .land a b = some r → eval P T .land false a b = r) ∧
    (Spec.Ops.eval P .lor a b = some r → eval P T .lor false a b = r) := by
  have hlL := wf_truthyAt P hT (ctx := "landL") (by decide) a
  have hlR := wf_truthyAt P hT (ctx := "landR") (by decide) b
  have hoL := wf_truthyAt P hT (ctx := "lorL") (by decide) a
  have hoR := wf_truthyAt P hT (ctx := "lorR") (by decide) b
  refine ⟨?_, ?_⟩ <;> intro hs <;> simp [Spec.Ops.eval, Spec.Ops.mkBool] at hs <;> subst hs
  · simp only [eval, land, hlL, hlR]; cases Spec.Ops.truthy P a <;> simp
  · simp only [eval, lor, hoL, hoR]; cases Spec.Ops.truthy P a <;> simp

theorem exact_dot {T : TruthTable} (a b : Val F) (r : Res F) (hs : Spec.Ops.eval P .dot a b = some r) :
    eval P T .dot false a b = r := by
  cases a <;> cases b <;>
    simp [Spec.Ops.eval, Spec.Ops.render] at hs <;>
    subst hs <;>
    simp [eval, dot, dotStr]

theorem exact_un {T : TruthTable} (hT : wf T = true) (op : UnOp) (a : Val F) (r : Res F)
    (hs : Spec.Ops.evalUn P op a = some r) : evalUn P T op a = r := by
  have ha := wf_asBool P hT a
  have hn := wf_truthyAt P hT (ctx := "not") (by decide) a
  have hc := wf_truthyAt P hT (ctx := "castb") (by decide) a
  cases op <;> cases a <;>
    simp [Spec.Ops.evalUn, Spec.Ops.mkBool] at hs <;>
    (try subst hs) <;>
    (try (split at hs <;> simp at hs <;> subst hs)) <;>
    simp_all [evalUn, neg, bnot, lnot, castB, castI, castF, asIntI, asFloatI, wrap_neg, boolInt, Spec.Ops.truthy]


/-- exactness of every binary operator on the documented domain -/
theorem exact_bin {T : TruthTable} (hT : wf T = true) (hF : FloatOrder P)
    (h_zero_toInt : ∀ z : F, P.eq z P.zero = true → P.toInt z = 0#64)
    (op : BinOp) (a b : Val F) (r : Res F) (hs : Spec.Ops.eval P op a b = some r) :
    eval P T op false a b = r := by
  cases op
  · exact exact_add P a b r hs
  · exact exact_sub P a b r hs
  · exact exact_mul P a b r hs
  · exact exact_quo P a b r hs
  · exact exact_rem P h_zero_toInt a b r hs
  · exact exact_pow P a b r hs
  · exact (exact_bit P a b r).1 hs
  · exact (exact_bit P a b r).2.1 hs
  · exact (exact_bit P a b r).2.2 hs
  · exact exact_shl P a b r hs
  · exact exact_shr P a b r hs
  · exact (exact_eqne P hT hF a b r).1 hs
  · exact (exact_eqne P hT hF a b r).2 hs
  · exact (exact_strict P a b r).1 hs
  · exact (exact_strict P a b r).2 hs
  · exact (exact_rel P hT hF a b r).1 hs
  · exact (exact_rel P hT hF a b r).2.1 hs
  · exact (exact_rel P hT hF a b r).2.2.1 hs
  · exact (exact_rel P hT hF a b r).2.2.2 hs
  · exact exact_cmp P hT hF a b r hs
  · exact (exact_logic P hT a b r).1 hs
  · exact (exact_logic P hT a b r).2 hs
  · exact exact_dot P a b r hs

end
end Proofs.Ops
