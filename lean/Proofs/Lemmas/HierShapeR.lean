import Proofs.Lemmas.HierBfs
import Proofs.Lemmas.HierWalk
import Model.HierShape
/-! C08: well-shaped recursive walks over the interface graph.

* without a seen set (the pinned `checkInterfaceIs`) the interpreted walk IS `Model.Hier.dfs`;
* with a seen set whose members are skipped it decides reachability on every graph whose parent names are all declared,
  cyclic ones included (closedness of the nodes added by a call that answers `false`; depth bounded by the number of unseen
  interfaces). -/
namespace Proofs.HierShape
open Model.Hier Spec.Hier Model.HierShape Proofs.Hier

structure ROK (S : RecWalk) : Prop where
  selfHit : S.selfHit = true
  over : S.over = .all
  onMissing : S.onMissing = .next
  childTrue : S.childTrue = true
  childFalse : S.childFalse = .next
  dry : S.dry = false

theorem rok_of_okCore {S : RecWalk} (h : S.okCore = true) : ROK S := by
  simp only [RecWalk.okCore, Bool.and_eq_true, beq_iff_eq, Bool.not_eq_true'] at h
  obtain ⟨⟨⟨⟨⟨h1, h2⟩, h3⟩, h4⟩, h5⟩, h6⟩ := h
  exact ⟨h1, h2, h3, h4, h5, h6⟩

theorem rok_of_ok {S : RecWalk} (h : S.ok = true) : ROK S ∧ (S.onSeen = .absent ∨ S.onSeen = .skip) := by
  simp only [RecWalk.ok, Bool.and_eq_true, Bool.or_eq_true, beq_iff_eq] at h
  exact ⟨rok_of_okCore h.1, h.2⟩

/-! ### no seen set: the walk is `dfs` -/

/-- one trip of the loop of a well-shaped walk without seen set -/
def tripA (run : Ifc → List Name → Option (Bool × List Name)) (G : Graph) (p : Name) (s : List Name) :
    Option (Step × List Name) :=
  match getIface G p with
  | none => some (.next, s)
  | some j =>
    match run j s with
    | none => none
    | some (true, s') => some (.hit, s')
    | some (false, s') => some (.next, s')

theorem runR_step_absent {S : RecWalk} (h : ROK S) (ha : S.onSeen = .absent) (G : Graph) (t : Name) (f : Nat) (i : Ifc)
    (seen : List Name) :
    runR S G t (f+1) i seen =
      if i.name = t then some (true, seen) else iter (tripA (runR S G t f) G) false i.ext seen := by
  rw [runR]
  have hk : S.keepsSeen = false := by simp [RecWalk.keepsSeen, ha]
  simp only [h.selfHit, h.over, h.onMissing, h.childTrue, h.childFalse, h.dry, hk, Bool.true_and, beq_iff_eq,
    Bool.false_and, Sel.of, Next.step]
  by_cases hn : i.name = t
  · simp [hn]
  · simp only [hn, if_false]
    congr 1

theorem iter_anyM (F : Name → List Name → Option (Step × List Name)) (g : Name → Option Bool)
    (hF : ∀ p s, F p s = (g p).map (fun b => (if b then Step.hit else Step.next, s))) :
    ∀ l s, iter F false l s = (anyM g l).map (fun b => (b, s)) := by
  intro l
  induction l with
  | nil => intro s; simp [iter, anyM]
  | cons x r ih =>
    intro s
    rw [iter, anyM, hF]
    cases g x with
    | none => simp
    | some b => cases b <;> simp [ih]

/-- **a well-shaped recursive walk without seen set IS `Model.Hier.dfs`** (the seen set it is handed comes back untouched) -/
theorem runR_eq_dfs {S : RecWalk} (h : ROK S) (ha : S.onSeen = .absent) (G : Graph) (t : Name) :
    ∀ f i seen, runR S G t f i seen = (dfs G t f i).map (fun b => (b, seen)) := by
  intro f
  induction f with
  | zero => intro i seen; simp [runR, dfs]
  | succ f ih =>
    intro i seen
    rw [runR_step_absent h ha, dfs]
    by_cases hn : i.name = t
    · simp [hn]
    · simp only [hn, if_false]
      apply iter_anyM
      intro p s
      unfold tripA
      cases getIface G p with
      | none => simp
      | some j =>
        simp only [ih]
        cases dfs G t f j with
        | none => simp
        | some b => cases b <;> simp

/-! ### a seen set whose members are skipped -/

def tripS (run : Ifc → List Name → Option (Bool × List Name)) (G : Graph) (p : Name) (s : List Name) :
    Option (Step × List Name) :=
  if p ∈ s then some (.next, s)
  else
    match getIface G p with
    | none => some (.next, s)
    | some j =>
      match run j s with
      | none => none
      | some (true, s') => some (.hit, s')
      | some (false, s') => some (.next, s')

theorem runR_step_skip {S : RecWalk} (h : ROK S) (hs : S.onSeen = .skip) (G : Graph) (t : Name) (f : Nat) (i : Ifc)
    (seen : List Name) :
    runR S G t (f+1) i seen =
      if i.name = t then some (true, seen) else iter (tripS (runR S G t f) G) false i.ext (i.name :: seen) := by
  rw [runR]
  have hk : S.keepsSeen = true := by simp [RecWalk.keepsSeen, hs]
  simp only [h.selfHit, h.over, h.onMissing, h.childTrue, h.childFalse, h.dry, hk, hs, Bool.true_and, beq_iff_eq,
    Sel.of, Next.step, if_true]
  by_cases hn : i.name = t
  · simp [hn]
  · simp only [hn, if_false]
    congr 1
    all_goals
      funext p s
      unfold tripS
      by_cases hp : p ∈ s
      · simp [hp]
      · simp only [List.contains_eq_mem, hp, decide_false, Bool.false_eq_true, if_false]
        cases getIface G p with
        | none => rfl
        | some j =>
          simp only
          cases runR S G t f j s with
          | none => rfl
          | some r => obtain ⟨b, s'⟩ := r; cases b <;> rfl

/-- the names a call added are not the target and all their parents are in the set -/
def NewClosed (G : Graph) (t : Name) (s s' : List Name) : Prop :=
  ∀ v ∈ s', v ∉ s → v ≠ t ∧ ∀ w ∈ isucc G v, w ∈ s'

theorem newClosed_trans {G : Graph} {t : Name} {a b c : List Name} (_hab : ∀ x ∈ a, x ∈ b) (hbc : ∀ x ∈ b, x ∈ c)
    (h1 : NewClosed G t a b) (h2 : NewClosed G t b c) : NewClosed G t a c := by
  intro v hv hna
  by_cases hb : v ∈ b
  · obtain ⟨x, y⟩ := h1 v hb hna
    exact ⟨x, fun w hw => hbc _ (y w hw)⟩
  · exact h2 v hv hb

/-- what one trip guarantees -/
def TripSpec (G : Graph) (t : Name) (p : Name) (s : List Name) (r : Step × List Name) : Prop :=
  r.1 ≠ .halt ∧ (r.1 = .hit → IReach G p t) ∧
  (r.1 = .next → (∀ x ∈ s, x ∈ r.2) ∧ p ∈ r.2 ∧ NewClosed G t s r.2)

theorem iter_spec (G : Graph) (t : Name) (F : Name → List Name → Option (Step × List Name)) :
    ∀ (l : List Name), (∀ p ∈ l, ∀ s r, F p s = some r → TripSpec G t p s r) →
    ∀ s b s', iter F false l s = some (b, s') →
      (b = true → ∃ p ∈ l, IReach G p t) ∧
      (b = false → (∀ x ∈ s, x ∈ s') ∧ (∀ p ∈ l, p ∈ s') ∧ NewClosed G t s s') := by
  intro l
  induction l with
  | nil =>
    intro _ s b s' hr
    simp only [iter, Option.some.injEq, Prod.mk.injEq] at hr
    obtain ⟨rfl, rfl⟩ := hr
    refine ⟨by simp, fun _ => ⟨fun _ hx => hx, by simp, fun v hv hn => absurd hv hn⟩⟩
  | cons x r ih =>
    intro hF s b s' hr
    rw [iter] at hr
    cases hfx : F x s with
    | none => rw [hfx] at hr; cases hr
    | some res =>
      obtain ⟨st, s1⟩ := res
      have sp := hF x (by simp) s _ hfx
      rw [hfx] at hr
      cases st with
      | halt => exact absurd rfl sp.1
      | hit =>
        simp only [Option.some.injEq, Prod.mk.injEq] at hr
        obtain ⟨rfl, rfl⟩ := hr
        exact ⟨fun _ => ⟨x, by simp, sp.2.1 rfl⟩, by simp⟩
      | next =>
        simp only at hr
        obtain ⟨hsub, hx, hcl⟩ := sp.2.2 rfl
        obtain ⟨i1, i2⟩ := ih (fun p hp => hF p (List.mem_cons_of_mem _ hp)) s1 b s' hr
        refine ⟨fun hb => ?_, fun hb => ?_⟩
        · obtain ⟨p, hp, hpr⟩ := i1 hb; exact ⟨p, List.mem_cons_of_mem _ hp, hpr⟩
        · obtain ⟨j1, j2, j3⟩ := i2 hb
          refine ⟨fun y hy => j1 _ (hsub _ hy), ?_, newClosed_trans hsub j1 hcl j3⟩
          intro p hp
          rcases List.mem_cons.1 hp with rfl | hp
          · exact j1 _ hx
          · exact j2 p hp

/-- partial correctness of a call -/
theorem runR_skip_spec {S : RecWalk} (h : ROK S) (hs : S.onSeen = .skip) (G : Graph)
    (hwf : ∀ d ∈ G.ifaces, ∀ j ∈ d.ext, (getIface G j).isSome) (t : Name) :
    ∀ f i seen b seen', getIface G i.name = some i → runR S G t f i seen = some (b, seen') →
      (b = true → IReach G i.name t) ∧
      (b = false → (∀ x ∈ seen, x ∈ seen') ∧ i.name ∈ seen' ∧ NewClosed G t seen seen') := by
  intro f
  induction f with
  | zero => intro i seen b seen' _ hr; simp [runR] at hr
  | succ f ih =>
    intro i seen b seen' hi hr
    rw [runR_step_skip h hs] at hr
    split at hr
    · rename_i hn
      simp only [Option.some.injEq, Prod.mk.injEq] at hr
      obtain ⟨rfl, rfl⟩ := hr
      exact ⟨fun _ => hn ▸ IReach.refl _, by simp⟩
    · rename_i hn
      have trip : ∀ p ∈ i.ext, ∀ s r, tripS (runR S G t f) G p s = some r → TripSpec G t p s r := by
        intro p hp s r hr
        unfold tripS at hr
        split at hr
        · rename_i hps
          simp only [Option.some.injEq] at hr; subst hr
          exact ⟨by simp, by simp, fun _ => ⟨fun _ hx => hx, hps, fun v hv hn => absurd hv hn⟩⟩
        · split at hr
          · rename_i hnone
            have := hwf i (getIface_mem hi) p hp
            rw [hnone] at this; cases this
          · rename_i j hj
            have hjs : getIface G j.name = some j := getIface_self hj
            have hjn : j.name = p := getIface_name hj
            cases hc : runR S G t f j s with
            | none => rw [hc] at hr; cases hr
            | some res =>
              obtain ⟨b', s1⟩ := res
              rw [hc] at hr
              obtain ⟨k1, k2⟩ := ih j s b' s1 hjs hc
              cases b' with
              | true =>
                simp only [Option.some.injEq] at hr; subst hr
                exact ⟨by simp, fun _ => hjn ▸ k1 rfl, by simp⟩
              | false =>
                simp only [Option.some.injEq] at hr; subst hr
                obtain ⟨m1, m2, m3⟩ := k2 rfl
                exact ⟨by simp, by simp, fun _ => ⟨m1, hjn ▸ m2, m3⟩⟩
      obtain ⟨i1, i2⟩ := iter_spec G t _ i.ext trip _ b seen' hr
      refine ⟨fun hb => ?_, fun hb => ?_⟩
      · obtain ⟨p, hp, hpr⟩ := i1 hb
        exact IReach.step hi hp hpr
      · obtain ⟨j1, j2, j3⟩ := i2 hb
        refine ⟨fun x hx => j1 _ (List.mem_cons_of_mem _ hx), j1 _ (by simp), ?_⟩
        intro v hv hnv
        by_cases hvi : v = i.name
        · subst hvi
          refine ⟨hn, fun w hw => ?_⟩
          unfold isucc at hw; rw [hi] at hw
          exact j2 w hw
        · exact j3 v hv (by simp [hvi, hnv])

/-- the set only grows -/
theorem runR_skip_mono {S : RecWalk} (h : ROK S) (hs : S.onSeen = .skip) (G : Graph) (t : Name) :
    ∀ f i seen b seen', runR S G t f i seen = some (b, seen') → ∀ x ∈ seen, x ∈ seen' := by
  intro f
  induction f with
  | zero => intro i seen b seen' hr; simp [runR] at hr
  | succ f ih =>
    intro i seen b seen' hr
    rw [runR_step_skip h hs] at hr
    split at hr
    · simp only [Option.some.injEq, Prod.mk.injEq] at hr
      obtain ⟨_, rfl⟩ := hr
      exact fun _ hx => hx
    · have key : ∀ (l : List Name) s b s', iter (tripS (runR S G t f) G) false l s = some (b, s') → ∀ x ∈ s, x ∈ s' := by
        intro l
        induction l with
        | nil =>
          intro s b s' hr
          simp only [iter, Option.some.injEq, Prod.mk.injEq] at hr
          obtain ⟨_, rfl⟩ := hr
          exact fun _ hx => hx
        | cons y r ihl =>
          intro s b s' hr
          rw [iter] at hr
          have step : ∀ st s1, tripS (runR S G t f) G y s = some (st, s1) → ∀ x ∈ s, x ∈ s1 := by
            intro st s1 hst
            unfold tripS at hst
            split at hst
            · simp only [Option.some.injEq, Prod.mk.injEq] at hst
              obtain ⟨_, rfl⟩ := hst
              exact fun _ hx => hx
            · split at hst
              · simp only [Option.some.injEq, Prod.mk.injEq] at hst
                obtain ⟨_, rfl⟩ := hst
                exact fun _ hx => hx
              · rename_i j _
                cases hc : runR S G t f j s with
                | none => rw [hc] at hst; cases hst
                | some res =>
                  obtain ⟨b', s2⟩ := res
                  rw [hc] at hst
                  have := ih j s b' s2 hc
                  cases b' <;>
                  · simp only [Option.some.injEq, Prod.mk.injEq] at hst
                    obtain ⟨_, rfl⟩ := hst
                    exact this
          cases hfx : tripS (runR S G t f) G y s with
          | none => rw [hfx] at hr; cases hr
          | some res =>
            obtain ⟨st, s1⟩ := res
            rw [hfx] at hr
            have m := step st s1 hfx
            cases st with
            | hit =>
              simp only [Option.some.injEq, Prod.mk.injEq] at hr
              obtain ⟨_, rfl⟩ := hr; exact m
            | halt =>
              simp only [Option.some.injEq, Prod.mk.injEq] at hr
              obtain ⟨_, rfl⟩ := hr; exact m
            | next =>
              simp only at hr
              exact fun x hx => ihl s1 b s' hr x (m x hx)
      exact fun x hx => key _ _ _ _ hr x (List.mem_cons_of_mem _ hx)

/-! ### depth: every nested call marks an interface that was not marked -/

/-- the number of declared interfaces not in the set -/
def unseenL (s : List Name) : List Ifc → Nat
  | [] => 0
  | d :: r => (if d.name ∈ s then 0 else 1) + unseenL s r

def unseen (G : Graph) (s : List Name) : Nat := unseenL s G.ifaces

theorem unseenL_mono {s s' : List Name} (h : ∀ x ∈ s, x ∈ s') : ∀ l : List Ifc, unseenL s' l ≤ unseenL s l := by
  intro l
  induction l with
  | nil => simp [unseenL]
  | cons d r ih =>
    simp only [unseenL]
    by_cases h1 : d.name ∈ s
    · have h2 : d.name ∈ s' := h _ h1
      simp [h1, h2]; exact ih
    · by_cases h2 : d.name ∈ s'
      · simp [h1, h2]; omega
      · simp [h1, h2]; exact ih

theorem unseen_mono (G : Graph) {s s' : List Name} (h : ∀ x ∈ s, x ∈ s') : unseen G s' ≤ unseen G s :=
  unseenL_mono h G.ifaces

theorem unseenL_mark (s : List Name) (i : Ifc) (hn : i.name ∉ s) : ∀ l : List Ifc, i ∈ l →
    unseenL (i.name :: s) l < unseenL s l := by
  intro l
  induction l with
  | nil => intro hi; simp at hi
  | cons d r ih =>
    intro hi
    simp only [unseenL]
    have hm := unseenL_mono (s := s) (s' := i.name :: s) (fun x hx => List.mem_cons_of_mem _ hx) r
    rcases List.mem_cons.1 hi with rfl | hi
    · simp [hn]; omega
    · have := ih hi
      by_cases h1 : d.name ∈ s
      · have h2 : d.name ∈ i.name :: s := List.mem_cons_of_mem _ h1
        simp only [h1, h2, if_true]; omega
      · by_cases h2 : d.name ∈ i.name :: s
        · simp only [h1, h2, if_true, if_false]; omega
        · simp only [h1, h2, if_false]; omega

theorem unseen_mark (G : Graph) (s : List Name) (i : Ifc) (hi : i ∈ G.ifaces) (hn : i.name ∉ s) :
    unseen G (i.name :: s) < unseen G s := unseenL_mark s i hn G.ifaces hi

/-- a call on an unmarked declared interface answers when the fuel exceeds the number of unmarked interfaces -/
theorem runR_skip_fuel {S : RecWalk} (h : ROK S) (hs : S.onSeen = .skip) (G : Graph) (t : Name) :
    ∀ f i seen, getIface G i.name = some i → i.name ∉ seen → unseen G seen ≤ f → runR S G t f i seen ≠ none := by
  intro f
  induction f with
  | zero =>
    intro i seen hi hn hle
    have := unseen_mark G seen i (getIface_mem hi) hn
    omega
  | succ f ih =>
    intro i seen hi hn hle
    rw [runR_step_skip h hs]
    split
    · simp
    · have hlt := unseen_mark G seen i (getIface_mem hi) hn
      have key : ∀ (l : List Name) s, unseen G s ≤ f → iter (tripS (runR S G t f) G) false l s ≠ none := by
        intro l
        induction l with
        | nil => intro s _; simp [iter]
        | cons y r ihl =>
          intro s hsle
          rw [iter]
          cases hfx : tripS (runR S G t f) G y s with
          | none =>
            exfalso
            unfold tripS at hfx
            split at hfx
            · cases hfx
            · rename_i hys
              split at hfx
              · cases hfx
              · rename_i j hj
                have hjn : j.name = y := getIface_name hj
                have := ih j s (getIface_self hj) (by rw [hjn]; exact hys) hsle
                cases hc : runR S G t f j s with
                | none => exact this hc
                | some res => obtain ⟨b', s2⟩ := res; rw [hc] at hfx; cases b' <;> cases hfx
          | some res =>
            obtain ⟨st, s1⟩ := res
            cases st with
            | hit => simp
            | halt => simp
            | next =>
              simp only
              apply ihl
              have hm : ∀ x ∈ s, x ∈ s1 := by
                unfold tripS at hfx
                split at hfx
                · simp only [Option.some.injEq, Prod.mk.injEq] at hfx
                  obtain ⟨_, rfl⟩ := hfx; exact fun _ hx => hx
                · split at hfx
                  · simp only [Option.some.injEq, Prod.mk.injEq] at hfx
                    obtain ⟨_, rfl⟩ := hfx; exact fun _ hx => hx
                  · rename_i j _
                    cases hc : runR S G t f j s with
                    | none => rw [hc] at hfx; cases hfx
                    | some res =>
                      obtain ⟨b', s2⟩ := res
                      rw [hc] at hfx
                      have := runR_skip_mono h hs G t f j s b' s2 hc
                      cases b' <;>
                      · simp only [Option.some.injEq, Prod.mk.injEq] at hfx
                        obtain ⟨_, rfl⟩ := hfx
                        exact this
              have := unseen_mono G hm
              omega
      exact key _ _ (by omega)

theorem unseen_nil_le (G : Graph) : unseen G [] ≤ G.ifaces.length := by
  unfold unseen
  generalize G.ifaces = l
  induction l with
  | nil => simp [unseenL]
  | cons d r ih => simp [unseenL]; omega

/-- **a well-shaped recursive walk that skips the interfaces it has seen answers on every graph whose parent names are
declared — cyclic ones included — and its answer is reachability** -/
theorem runR_skip_decides {S : RecWalk} (h : ROK S) (hs : S.onSeen = .skip) (G : Graph)
    (hwf : ∀ d ∈ G.ifaces, ∀ j ∈ d.ext, (getIface G j).isSome) (t : Name) (i : Ifc) (hi : getIface G i.name = some i) :
    ∃ b s, runR S G t (depthFuel G) i [] = some (b, s) ∧ (b = true ↔ IReach G i.name t) := by
  have hf := runR_skip_fuel h hs G t (depthFuel G) i [] hi (by simp)
    (by have := unseen_nil_le G; unfold depthFuel; omega)
  cases hr : runR S G t (depthFuel G) i [] with
  | none => exact absurd hr hf
  | some res =>
    obtain ⟨b, s⟩ := res
    refine ⟨b, s, rfl, ?_⟩
    obtain ⟨k1, k2⟩ := runR_skip_spec h hs G hwf t _ i [] b s hi hr
    cases b with
    | true => simp [k1 rfl]
    | false =>
      simp only [Bool.false_eq_true, false_iff]
      obtain ⟨_, m2, m3⟩ := k2 rfl
      intro hreach
      have hc : Closed G t [] s := by
        intro v hv
        obtain ⟨a, b⟩ := m3 v hv (by simp)
        exact ⟨a, fun w hw => Or.inl (b w hw)⟩
      exact (hc _ (closed_final hc _ _ hreach m2)).1 rfl

end Proofs.HierShape
