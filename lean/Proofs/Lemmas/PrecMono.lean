import Model.Prec
/-! Fuel monotonicity of the table-driven parser (information order `oof ≤ anything`). -/
namespace Proofs.Prec
open Model.Prec

def Res.le (a b : Res) : Prop := a = .oof ∨ a = b

theorem Res.le_refl (a : Res) : Res.le a a := Or.inr rfl

theorem Res.bind_mono {a b : Res} {k k' : Expr → List Tok → Res}
    (h : Res.le a b) (hk : ∀ e r, Res.le (k e r) (k' e r)) : Res.le (a.bind k) (b.bind k') := by
  rcases h with h | h
  · left; simp [h, Res.bind]
  · subst h; cases a <;> simp [Res.bind, Res.le] <;> exact hk _ _

theorem primary_mono {r r' : List Tok → Res} (h : ∀ ts, Res.le (r ts) (r' ts)) (ts : List Tok) :
    Res.le (primary r ts) (primary r' ts) := by
  unfold primary
  split
  · exact Res.le_refl _
  · exact Res.bind_mono (h _) (fun _ _ => Res.le_refl _)
  · exact Res.le_refl _

theorem ternRest_mono {sep q : Nat} {c t : Expr} {r r' : List Tok → Res}
    (h : ∀ ts, Res.le (r ts) (r' ts)) (ts : List Tok) :
    Res.le (ternRest sep r q c t ts) (ternRest sep r' q c t ts) := by
  unfold ternRest
  split
  · split
    · exact Res.bind_mono (h _) (fun _ _ => Res.le_refl _)
    · exact Res.le_refl _
  · exact Res.le_refl _

theorem mono_step (T : Table) : ∀ f,
    (∀ k ts, Res.le (parse T f k ts) (parse T (f+1) k ts)) ∧
    (∀ k ops l ts, Res.le (loopL T f k ops l ts) (loopL T (f+1) k ops l ts)) := by
  intro f
  induction f with
  | zero => constructor <;> intros <;> left <;> simp [parse, loopL]
  | succ f ih =>
    obtain ⟨ihp, ihl⟩ := ih
    constructor
    · intro k ts
      rw [parse, parse]
      split
      · exact primary_mono (fun ts' => ihp 0 ts') ts
      · rename_i L _
        split
        · exact Res.bind_mono (ihp _ _) (fun _ _ => ihl _ _ _ _)
        · apply Res.bind_mono (ihp _ _)
          intro l rest
          split
          · exact Res.bind_mono (ihp _ _) (fun _ _ => Res.le_refl _)
          · exact Res.le_refl _
        · split
          · exact Res.bind_mono (ihp _ _) (fun _ _ => Res.le_refl _)
          · apply Res.bind_mono (ihp _ _)
            intro e rest
            split
            · exact Res.bind_mono (ihp _ _) (fun _ _ => Res.le_refl _)
            · exact Res.le_refl _
        · apply Res.bind_mono (ihp _ _)
          intro c rest
          split
          · exact Res.bind_mono (ihp _ _) (fun _ _ => ternRest_mono (fun ts' => ihp k ts') _)
          · exact Res.le_refl _
    · intro k ops l ts
      rw [loopL, loopL]
      split
      · exact Res.bind_mono (ihp _ _) (fun _ _ => ihl _ _ _ _)
      · exact Res.le_refl _

theorem parse_mono (T : Table) {f k ts e r} (h : parse T f k ts = .ok e r) :
    ∀ n, parse T (f+n) k ts = .ok e r := by
  intro n
  induction n with
  | zero => simpa using h
  | succ n ih =>
    rcases (mono_step T (f+n)).1 k ts with h' | h'
    · rw [ih] at h'; cases h'
    · rw [← Nat.add_assoc, ← h', ih]

theorem loopL_mono (T : Table) {f k ops l ts e r} (h : loopL T f k ops l ts = .ok e r) :
    ∀ n, loopL T (f+n) k ops l ts = .ok e r := by
  intro n
  induction n with
  | zero => simpa using h
  | succ n ih =>
    rcases (mono_step T (f+n)).2 k ops l ts with h' | h'
    · rw [ih] at h'; cases h'
    · rw [← Nat.add_assoc, ← h', ih]

theorem parse_mono_le (T : Table) {f f' k ts e r} (h : parse T f k ts = .ok e r) (hle : f ≤ f') :
    parse T f' k ts = .ok e r := by
  have := parse_mono T h (f' - f); rwa [Nat.add_sub_cancel' hle] at this

theorem loopL_mono_le (T : Table) {f f' k ops l ts e r} (h : loopL T f k ops l ts = .ok e r) (hle : f ≤ f') :
    loopL T f' k ops l ts = .ok e r := by
  have := loopL_mono T h (f' - f); rwa [Nat.add_sub_cancel' hle] at this

end Proofs.Prec
