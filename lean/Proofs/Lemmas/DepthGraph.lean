import Model.DepthGraph
import Spec.Wire
/-!
# Lemmas about `Model.DepthGraph` (C14): a well-formed depth graph bounds every call stack; the wire
graph of the model is `Spec.Wire.Fits`; a graph with a flat cycle admits stacks of any length.
-/
namespace Proofs.DepthGraph
open Model.DepthGraph

theorem le_maxOf {l : List Nat} {x : Nat} (h : x ∈ l) : x ≤ maxOf l := by
  induction l with
  | nil => cases h
  | cons y ys ih =>
    simp only [maxOf]
    cases h with
    | head => exact Nat.le_max_left _ _
    | tail _ h' => exact Nat.le_trans (ih h') (Nat.le_max_right _ _)

theorem maxOf_le {l : List Nat} {b : Nat} (h : ∀ x ∈ l, x ≤ b) : maxOf l ≤ b := by
  induction l with
  | nil => simp [maxOf]
  | cons y ys ih =>
    simp only [maxOf]
    exact Nat.max_le.mpr ⟨h y (List.mem_cons_self ..), ih (fun x hx => h x (List.mem_cons_of_mem _ hx))⟩

theorem rank_le (g : Graph) : ∀ fuel f, g.rank fuel f ≤ fuel := by
  intro fuel
  induction fuel with
  | zero => intro f; simp [Graph.rank]
  | succ n ih =>
    intro f
    unfold Graph.rank
    apply maxOf_le
    intro x hx
    simp only [List.mem_map] at hx
    obtain ⟨e, _, rfl⟩ := hx
    have := ih e.dst
    omega

theorem rankOf_le (g : Graph) (f : Nat) : g.rankOf f ≤ g.fns.length := rank_le g _ f

theorem strict_admits {c : Option Cmp} {lim d : Nat} (hs : strict c = true) (ha : admitsOpt c lim d = true) :
    d ≤ lim := by
  cases c with
  | none => simp [strict] at hs
  | some c =>
    cases c with
    | ge => simp [admitsOpt, Cmp.admits] at ha; omega
    | gt => simp [admitsOpt, Cmp.admits] at ha; omega
    | other => simp [strict] at hs

theorem tested_enter {g : Graph} {e : Edge} {lim d : Nat} (ht : g.tested e = true)
    (he : g.enter lim e.site e.dst d = true) : d ≤ lim := by
  simp only [Graph.tested, Bool.or_eq_true] at ht
  simp only [Graph.enter, Bool.and_eq_true] at he
  cases ht with
  | inl h => exact strict_admits h he.1
  | inr h => exact strict_admits h he.2

/-- every call into `f` is tested -/
def inTested (g : Graph) (f : Nat) : Bool := g.edges.all (fun e' => e'.dst != f || g.tested e')

theorem isPlus_eq {a : Arg} (h : a.isPlus = true) : ∃ k, a = .plus k := by
  cases a with
  | plus k => exact ⟨k, rfl⟩
  | const k => simp [Arg.isPlus] at h
  | unknown => simp [Arg.isPlus] at h

theorem isConst_eq {a : Arg} (h : a.isConst = true) : ∃ k, a = .const k := by
  cases a with
  | plus k => simp [Arg.isConst] at h
  | const k => exact ⟨k, rfl⟩
  | unknown => simp [Arg.isConst] at h

theorem succ_mul_step (d k R : Nat) (hk : 0 < k) : (d + 1) * (R + 1) + (R + 1) ≤ (d + k + 1) * (R + 1) := by
  have h1 : (d + 1 + 1) * (R + 1) = (d + 1) * (R + 1) + (R + 1) := Nat.succ_mul (d + 1) (R + 1)
  have h2 : (d + 1 + 1) * (R + 1) ≤ (d + k + 1) * (R + 1) := Nat.mul_le_mul_right _ (by omega)
  omega

/-- **The invariant of a well-formed graph.** The innermost frame of every stack has a depth bounded by the
limit (and the largest start depth) plus one increment, and the length of the stack is bounded through that depth:
the counter really counts the nesting. -/
theorem stack_inv (g : Graph) (hwf : g.WF = true) (lim : Nat) (st : List Frame) (hs : Stack g lim st) :
    ∃ f d rest, st = ⟨f, d⟩ :: rest ∧ d ≤ max lim g.maxStart + g.maxInc ∧
      (inTested g f = true → d ≤ max lim g.maxStart) ∧
      st.length + g.rankOf f ≤ (d + 1) * (g.fns.length + 1) := by
  simp only [Graph.WF, Bool.and_eq_true] at hwf
  obtain ⟨⟨⟨⟨h1, h2⟩, h3⟩, h4⟩, _⟩ := hwf
  simp only [Graph.argsRead, List.all_eq_true] at h1
  simp only [Graph.noFlatCycle, List.all_eq_true, Bool.or_eq_true, decide_eq_true_eq] at h2
  simp only [Graph.cyclesTested, List.all_eq_true, Bool.or_eq_true] at h3
  simp only [Graph.entriesRead, Bool.and_eq_true, List.all_eq_true] at h4
  induction hs with
  | entry en d hen hr he =>
    obtain ⟨k, hk⟩ := isConst_eq (h4.2 en hen)
    rw [hk] at hr
    simp only [Arg.reaches] at hr
    have hkm : k ≤ g.maxStart := by
      apply le_maxOf
      simp only [List.mem_map]
      exact ⟨en, hen, by rw [hk]; rfl⟩
    have hB : d ≤ max lim g.maxStart := by omega
    refine ⟨en.dst, d, [], rfl, by omega, fun _ => hB, ?_⟩
    have hr := rankOf_le g en.dst
    have : 1 * (g.fns.length + 1) ≤ (d + 1) * (g.fns.length + 1) := Nat.mul_le_mul_right _ (by omega)
    simp only [List.length_cons, List.length_nil]
    omega
  | call e f d d' rest _ hem hsrc hreach henter ih =>
    obtain ⟨f0, d0, rest0, heq, hd0, hin0, hlen0⟩ := ih
    have hf : f0 = f := by injection heq with h _; injection h with h _; exact h.symm
    have hd : d0 = d := by injection heq with h _; injection h with _ h; exact h.symm
    subst hf; subst hd
    obtain ⟨k, hk⟩ := isPlus_eq (h1 e hem)
    rw [hk] at hreach
    simp only [Arg.reaches] at hreach
    have hkI : k ≤ g.maxInc := by
      apply le_maxOf
      simp only [List.mem_map]
      exact ⟨e, hem, by rw [hk]; rfl⟩
    -- depth bound
    have hdepth : d' ≤ max lim g.maxStart + g.maxInc ∧ (inTested g e.dst = true → d' ≤ max lim g.maxStart) := by
      cases ht : g.tested e with
      | true =>
        have := tested_enter ht henter
        exact ⟨by omega, fun _ => by omega⟩
      | false =>
        have h3e := h3 e hem
        rw [ht] at h3e
        have hin : inTested g f0 = true := by
          cases h3e with
          | inl h => cases h
          | inr h =>
            simp only [inTested, List.all_eq_true, Bool.or_eq_true]
            intro e' he'
            have := h e' he'
            rw [hsrc] at this
            exact this
        have := hin0 hin
        refine ⟨by omega, fun hdst => ?_⟩
        simp only [inTested, List.all_eq_true, Bool.or_eq_true] at hdst
        cases hdst e hem with
        | inl h => simp at h
        | inr h => rw [ht] at h; cases h
    refine ⟨e.dst, d', ⟨f0, d0⟩ :: rest, rfl, hdepth.1, hdepth.2, ?_⟩
    -- length bound
    simp only [List.length_cons] at hlen0 ⊢
    have hrd := rankOf_le g e.dst
    by_cases hk0 : k = 0
    · subst hk0
      have hlt : g.rankOf e.dst < g.rankOf e.src := by
        cases h2 e hem with
        | inl h => rw [hk] at h; simp at h
        | inr h => exact h
      rw [hsrc] at hlt
      have : d' = d0 := by omega
      rw [this]
      omega
    · have := succ_mul_step d0 k g.fns.length (by omega)
      rw [hreach]
      omega

/-- **A well-formed depth graph bounds the recursion.** Whatever the input makes the decoder do, its call stack
never holds more than `bound lim` frames of the group. -/
theorem stack_bounded (g : Graph) (hwf : g.WF = true) (lim : Nat) (st : List Frame) (hs : Stack g lim st) :
    st.length ≤ g.bound lim := by
  obtain ⟨f, d, rest, _, hd, _, hlen⟩ := stack_inv g hwf lim st hs
  have : (d + 1) * (g.fns.length + 1) ≤ (max lim g.maxStart + g.maxInc + 1) * (g.fns.length + 1) :=
    Nat.mul_le_mul_right _ (by omega)
  unfold Graph.bound
  omega

/-! ## the wire graph and `Fits` -/

open Model.Wire Spec.Wire

theorem descend_wire_msg (lim d : Nat) :
    wireGraph.descend lim 0 d = if d + 1 < lim then some (d + 1) else none := by
  simp [Graph.descend, Graph.hop, wireGraph, Graph.enter, Graph.guardOf, admitsOpt, Cmp.admits]

theorem descend_wire_grp (lim d : Nat) :
    wireGraph.descend lim 2 d = if d < lim then some (d + 1) else none := by
  simp [Graph.descend, Graph.hop, wireGraph, Graph.enter, Graph.guardOf, admitsOpt, Cmp.admits]

/-- the depth budget the model's graph induces on field trees is `Spec.Wire.Fits` -/
theorem fitsVia_wire (lim : Nat) : ∀ (t : FT) (d : Nat), FitsVia wireGraph lim t d ↔ Fits lim t d
  | .nil, _ => by simp [FitsVia, Fits]
  | .leaf _ _ rest, d => by simp only [FitsVia, Fits]; exact fitsVia_wire lim rest d
  | .sub _ false kids rest, d => by
      simp only [FitsVia, Fits, viaOf, Bool.false_eq_true, if_false, descend_wire_msg]
      by_cases h : d + 1 < lim
      · rw [if_pos h]
        simp only [h, true_and]
        rw [fitsVia_wire lim kids (d + 1), fitsVia_wire lim rest d]
      · rw [if_neg h]
        simp [h]
  | .sub _ true kids rest, d => by
      simp only [FitsVia, Fits, viaOf, if_true, descend_wire_grp]
      by_cases h : d < lim
      · rw [if_pos h]
        simp only [h, true_and]
        rw [fitsVia_wire lim kids (d + 1), fitsVia_wire lim rest d]
      · rw [if_neg h]
        simp [h]

/-! ## any three-function graph: what its budget allows -/

theorem hop_mem {g : Graph} {s t k : Nat} {c : Option Cmp} (h : g.hop s t = some (k, c)) :
    ∃ e ∈ g.edges, e.src = s ∧ e.dst = t ∧ e.arg = .plus k ∧ e.site = c := by
  unfold Graph.hop at h
  split at h
  · rename_i e hf
    have hm := List.mem_of_find?_eq_some hf
    have hp := List.find?_some hf
    simp only [Bool.and_eq_true, beq_iff_eq] at hp
    cases ha : e.arg with
    | plus k' =>
      rw [ha] at h
      simp only [Option.some.injEq, Prod.mk.injEq] at h
      exact ⟨e, hm, hp.1, hp.2, by rw [ha, h.1], h.2⟩
    | const k' => rw [ha] at h; cases h
    | unknown => rw [ha] at h; cases h
  · cases h

/-- one descent under a well-formed graph: strictly deeper, and some depth on the way was held against the limit -/
theorem descend_step (g : Graph) (hwf : g.WF = true) (lim via d d' : Nat) (h : g.descend lim via d = some d') :
    d < d' ∧ d ≤ lim := by
  simp only [Graph.WF, Bool.and_eq_true] at hwf
  obtain ⟨⟨⟨⟨_, h2⟩, h3⟩, _⟩, _⟩ := hwf
  simp only [Graph.noFlatCycle, List.all_eq_true, Bool.or_eq_true, decide_eq_true_eq] at h2
  simp only [Graph.cyclesTested, List.all_eq_true, Bool.or_eq_true] at h3
  unfold Graph.descend at h
  split at h
  · rename_i a s b s' h10 h01
    obtain ⟨e1, hm1, hs1, hd1, ha1, hsite1⟩ := hop_mem h10
    obtain ⟨e2, hm2, hs2, hd2, ha2, hsite2⟩ := hop_mem h01
    split at h
    · rename_i hent
      simp only [Bool.and_eq_true] at hent
      injection h with h
      subst h
      constructor
      · -- a + b ≥ 1: otherwise both calls keep the depth and go down in rank, in a circle
        by_cases hab : a + b = 0
        · have ha : a = 0 := by omega
          have hb : b = 0 := by omega
          subst ha; subst hb
          have r1 := h2 e1 hm1
          have r2 := h2 e2 hm2
          rw [ha1] at r1; rw [ha2] at r2
          simp only [bne_self_eq_false, Bool.false_eq_true, false_or] at r1 r2
          rw [hs1, hd1] at r1; rw [hs2, hd2] at r2
          omega
        · omega
      · -- one of the two calls is tested
        have hent1 : g.enter lim e1.site e1.dst (d + a) = true := by rw [hsite1, hd1]; exact hent.1
        have hent2 : g.enter lim e2.site e2.dst (d + a + b) = true := by rw [hsite2, hd2]; exact hent.2
        cases ht : g.tested e1 with
        | true => have := tested_enter ht hent1; omega
        | false =>
          have h3e := h3 e1 hm1
          rw [ht] at h3e
          cases h3e with
          | inl h => cases h
          | inr h =>
            have := h e2 hm2
            rw [hd2, hs1] at this
            simp only [bne_self_eq_false, Bool.false_eq_true, false_or] at this
            have := tested_enter this hent2
            omega
    · cases h
  · cases h

/-- **What a well-formed three-function graph allows.** A tree let through from depth `d` has no nesting, or its
nesting plus `d` stays within the limit plus one (the `gt` comparison lets one more level through than `ge`). -/
theorem fitsVia_nest (g : Graph) (hwf : g.WF = true) (lim : Nat) :
    ∀ (t : FT) (d : Nat), FitsVia g lim t d → nest t = 0 ∨ nest t + d ≤ lim + 1
  | .nil, _, _ => Or.inl rfl
  | .leaf _ _ rest, d, h => by
      simp only [FitsVia] at h
      simpa [nest] using fitsVia_nest g hwf lim rest d h
  | .sub _ grp kids rest, d, h => by
      simp only [FitsVia] at h
      obtain ⟨hk, hr⟩ := h
      have ihr := fitsVia_nest g hwf lim rest d hr
      split at hk
      · rename_i d' hdesc
        obtain ⟨hlt, hle⟩ := descend_step g hwf lim (viaOf grp) d d' hdesc
        have ihk := fitsVia_nest g hwf lim kids d' hk
        right
        simp only [nest]
        have hmax : max (1 + nest kids) (nest rest) + d ≤ lim + 1 := by
          cases ihk <;> cases ihr <;> omega
        exact hmax
      · exact hk.elim

/-! ## negation witness: a group whose members are consumed at the group's own depth -/

/-- the graph of the wire parser with `consumeGroup` handing `depth` (not `depth+1`) to `consumeFieldValue` -/
def flatGroupGraph : Graph :=
  { wireGraph with edges := [⟨0, 1, .plus 0, none⟩, ⟨1, 0, .plus 1, none⟩, ⟨1, 2, .plus 0, none⟩, ⟨2, 1, .plus 0, none⟩] }

/-- `n` groups, one inside the other -/
def groups : Nat → FT
  | 0 => .nil
  | n + 1 => .sub 1 true (groups n) .nil

theorem nest_groups : ∀ n, nest (groups n) = n
  | 0 => rfl
  | n + 1 => by simp [groups, nest, nest_groups n]; omega

theorem descend_flat_grp (lim d : Nat) :
    flatGroupGraph.descend lim 2 d = if d < lim then some d else none := by
  simp [Graph.descend, Graph.hop, flatGroupGraph, wireGraph, Graph.enter, Graph.guardOf, admitsOpt, Cmp.admits]

theorem flat_fits_all : ∀ n, FitsVia flatGroupGraph 1 (groups n) 0
  | 0 => by simp [groups, FitsVia]
  | n + 1 => by
      simp only [groups, FitsVia, viaOf, if_true, descend_flat_grp]
      exact ⟨flat_fits_all n, trivial⟩

theorem flat_stack_grows : ∀ n, ∃ rest, Stack flatGroupGraph 1 (⟨1, 0⟩ :: rest) ∧ n ≤ rest.length
  | 0 => by
      refine ⟨[⟨0, 0⟩], ?_, by simp⟩
      have h0 : Stack flatGroupGraph 1 [⟨0, 0⟩] :=
        Stack.entry ⟨"ParseRawFields", 0, .const 0⟩ 0 (by simp [flatGroupGraph, wireGraph]) rfl (by decide)
      exact Stack.call ⟨0, 1, .plus 0, none⟩ 0 0 0 [] h0 (by simp [flatGroupGraph]) rfl rfl (by decide)
  | n + 1 => by
      obtain ⟨rest, hs, hn⟩ := flat_stack_grows n
      refine ⟨⟨2, 0⟩ :: ⟨1, 0⟩ :: rest, ?_, by simp; omega⟩
      have h2 : Stack flatGroupGraph 1 (⟨2, 0⟩ :: ⟨1, 0⟩ :: rest) :=
        Stack.call ⟨1, 2, .plus 0, none⟩ 1 0 0 rest hs (by simp [flatGroupGraph]) rfl rfl (by decide)
      exact Stack.call ⟨2, 1, .plus 0, none⟩ 2 0 0 (⟨1, 0⟩ :: rest) h2 (by simp [flatGroupGraph]) rfl rfl (by decide)

end Proofs.DepthGraph
