import Model.Lex
/-! Basic facts about `bAt`, `nlCount`, `decodeRune`, `skipWhile` used by the lexer proofs. -/
namespace Proofs.Lex
open Model.Lex

theorem bAt_lt {inp : Input} {i : Nat} (h : i < inp.size) : bAt inp i = inp[i].toNat := by
  simp [bAt, h]

theorem bAt_ge {inp : Input} {i : Nat} (h : inp.size ≤ i) : bAt inp i = 256 := by
  have : ¬ i < inp.size := by omega
  simp [bAt, this]

theorem bAt_lt_256_iff {inp : Input} {i : Nat} : bAt inp i < 256 ↔ i < inp.size := by
  constructor
  · intro h
    by_cases hi : i < inp.size
    · exact hi
    · rw [bAt_ge (by omega)] at h; omega
  · intro h; rw [bAt_lt h]; exact UInt8.toNat_lt _

/-- a guarded comparison against a real byte value implies the index is in range -/
theorem lt_of_bAt_eq {inp : Input} {i b : Nat} (hb : b < 256) (h : bAt inp i = b) : i < inp.size :=
  bAt_lt_256_iff.mp (by omega)

theorem rd_ok {inp : Input} {i : Nat} (h : i < inp.size) : rd inp i = .ok (bAt inp i) := by
  simp [rd, bAt, h]

/-! ### newline counting -/

theorem nlCount_self (inp : Input) (a : Nat) : nlCount inp a a = 0 := by simp [nlCount]

theorem nlCount_split (inp : Input) (a b c : Nat) (hab : a ≤ b) (hbc : b ≤ c) :
    nlCount inp a c = nlCount inp a b + nlCount inp b c := by
  unfold nlCount
  have : (inp.toList.drop a).take (c - a) =
      (inp.toList.drop a).take (b - a) ++ (inp.toList.drop b).take (c - b) := by
    have e : c - a = (b - a) + (c - b) := by omega
    have hb : a + (b - a) = b := by omega
    have hb' : (b - a) + a = b := by omega
    rw [e, List.take_add, List.drop_drop]
    simp [hb, hb']
  rw [this, List.count_append]

theorem nlCount_one (inp : Input) (pos : Nat) (h : pos < inp.size) :
    nlCount inp pos (pos+1) = if bAt inp pos = 10 then 1 else 0 := by
  unfold nlCount
  have : (inp.toList.drop pos).take (pos + 1 - pos) = [inp[pos]] := by
    have : pos + 1 - pos = 1 := by omega
    rw [this, List.drop_eq_getElem_cons (by simpa using h)]
    simp
  rw [this, bAt_lt h]
  by_cases h10 : inp[pos] = 10
  · simp [h10]
  · have : inp[pos].toNat ≠ 10 := by
      intro hc; apply h10; exact UInt8.toNat_inj.mp (by simpa using hc)
    simp [h10, this]

/-- no `\n` byte in `[a, b)` -/
def NoNL (inp : Input) (a b : Nat) : Prop := ∀ i, a ≤ i → i < b → bAt inp i ≠ 10

theorem nlCount_zero {inp : Input} {a b : Nat} (hb : b ≤ inp.size) (h : NoNL inp a b) :
    nlCount inp a b = 0 := by
  by_cases hab : a ≤ b
  · obtain ⟨d, rfl⟩ : ∃ d, b = a + d := ⟨b - a, by omega⟩
    induction d with
    | zero => exact nlCount_self inp a
    | succ d ih =>
      rw [nlCount_split inp a (a + d) (a + (d+1)) (by omega) (by omega)]
      have h1 := ih (by omega) (fun i hi1 hi2 => h i hi1 (by omega)) (by omega)
      have h2 : nlCount inp (a + d) (a + (d + 1)) = 0 := by
        have := nlCount_one inp (a + d) (by omega)
        rw [show a + (d+1) = a + d + 1 by omega, this]
        simp [h (a + d) (by omega) (by omega)]
      omega
  · have : b - a = 0 := by omega
    simp [nlCount, this]

theorem NoNL.append {inp : Input} {a b c : Nat} (h1 : NoNL inp a b) (h2 : NoNL inp b c) : NoNL inp a c := by
  intro i hi1 hi2
  by_cases h : i < b
  · exact h1 i hi1 h
  · exact h2 i (by omega) hi2

theorem NoNL.one {inp : Input} {a : Nat} (h : bAt inp a ≠ 10) : NoNL inp a (a+1) := by
  intro i hi1 hi2
  have : i = a := by omega
  subst this; exact h

theorem NoNL.empty (inp : Input) (a : Nat) : NoNL inp a a := by
  intro i h1 h2; omega

/-! ### slices -/

theorem mem_slice {inp : Input} {a b x : Nat} (h : x ∈ slice inp a b) :
    ∃ i, a ≤ i ∧ i < b ∧ i < inp.size ∧ bAt inp i = x := by
  unfold slice at h
  rw [List.mem_map] at h
  obtain ⟨u, hu, rfl⟩ := h
  obtain ⟨k, hk, hget⟩ := List.getElem_of_mem hu
  simp only [List.length_take, List.length_drop, Array.length_toList] at hk
  refine ⟨a + k, by omega, by omega, by omega, ?_⟩
  rw [bAt_lt (by omega)]
  simp only [List.getElem_take, List.getElem_drop, Array.getElem_toList] at hget
  rw [hget]

theorem nl_mem_slice {inp : Input} {a b : Nat} (h : 0 < nlCount inp a b) : 10 ∈ slice inp a b := by
  unfold nlCount at h
  unfold slice
  rw [List.count_pos_iff] at h
  exact List.mem_map.mpr ⟨10, h, rfl⟩

theorem not_mem_slice_of_noNL {inp : Input} {a b : Nat} (h : NoNL inp a b) : 10 ∉ slice inp a b := by
  intro hc
  obtain ⟨i, h1, h2, _, h4⟩ := mem_slice hc
  exact h i h1 h2 h4

/-! ### decodeRune -/

theorem cont_range {b : Nat} (h : cont b = true) : 0x80 ≤ b ∧ b < 256 := by
  simp [cont] at h; omega

theorem second3_range {b0 b1 : Nat} (h : second3 b0 b1 = true) :
    0x80 ≤ b1 ∧ b1 ≤ 0xBF ∧ (b0 = 0xE0 → 0xA0 ≤ b1) := by
  simp only [second3, Bool.and_eq_true, decide_eq_true_eq] at h
  obtain ⟨h1, h2⟩ := h
  split at h1 <;> split at h2 <;> omega

theorem second4_range {b0 b1 : Nat} (h : second4 b0 b1 = true) :
    0x80 ≤ b1 ∧ b1 ≤ 0xBF ∧ (b0 = 0xF0 → 0x90 ≤ b1) := by
  simp only [second4, Bool.and_eq_true, decide_eq_true_eq] at h
  obtain ⟨h1, h2⟩ := h
  split at h1 <;> split at h2 <;> omega

/-- everything the lexer proofs need to know about one decoding step -/
theorem decode_spec {inp : Input} {pos : Nat} (h : pos < inp.size) :
    1 ≤ (decodeRune inp pos).2 ∧ pos + (decodeRune inp pos).2 ≤ inp.size ∧
    (∀ i, pos < i → i < pos + (decodeRune inp pos).2 → 0x80 ≤ bAt inp i) ∧
    ((decodeRune inp pos).1 = 10 ↔ bAt inp pos = 10) := by
  have hb := (bAt_lt_256_iff (inp := inp) (i := pos)).mpr h
  -- the one-byte outcomes
  have one_err : decodeRune inp pos = (runeError, 1) → 0x80 ≤ bAt inp pos →
      1 ≤ (decodeRune inp pos).2 ∧ pos + (decodeRune inp pos).2 ≤ inp.size ∧
      (∀ i, pos < i → i < pos + (decodeRune inp pos).2 → 0x80 ≤ bAt inp i) ∧
      ((decodeRune inp pos).1 = 10 ↔ bAt inp pos = 10) := by
    intro e hge
    rw [e]
    refine ⟨by simp, by simp; omega, fun i h1 h2 => by simp at h2; omega, ?_⟩
    simp [runeError]; omega
  by_cases c1 : bAt inp pos < 0x80
  · have e : decodeRune inp pos = (bAt inp pos, 1) := by simp [decodeRune, h, c1]
    rw [e]
    exact ⟨by simp, by simp; omega, fun i h1 h2 => by simp at h2; omega, by simp⟩
  by_cases c2 : bAt inp pos < 0xC2
  · exact one_err (by simp [decodeRune, h, c1, c2]) (by omega)
  by_cases c3 : bAt inp pos < 0xE0
  · by_cases d : cont (bAt inp (pos+1)) = true
    · have e : decodeRune inp pos = ((bAt inp pos % 32) * 64 + (bAt inp (pos+1) % 64), 2) := by
        simp [decodeRune, h, c1, c2, c3, d]
      have r1 := cont_range d
      have l1 := (bAt_lt_256_iff (inp := inp) (i := pos+1)).mp r1.2
      rw [e]
      refine ⟨by simp, by simp; omega, ?_, by simp; omega⟩
      intro i h1 h2
      simp at h2
      have : i = pos + 1 := by omega
      subst this; exact r1.1
    · exact one_err (by simp [decodeRune, h, c1, c2, c3, d]) (by omega)
  by_cases c4 : bAt inp pos < 0xF0
  · by_cases d : (second3 (bAt inp pos) (bAt inp (pos+1)) && cont (bAt inp (pos+2))) = true
    · have e : decodeRune inp pos = ((bAt inp pos % 16) * 4096 + (bAt inp (pos+1) % 64) * 64 + (bAt inp (pos+2) % 64), 3) := by
        simp only [Bool.and_eq_true] at d
        simp [decodeRune, h, c1, c2, c3, c4, d.1, d.2]
      simp only [Bool.and_eq_true] at d
      have r1 := second3_range d.1
      have r2 := cont_range d.2
      have l2 := (bAt_lt_256_iff (inp := inp) (i := pos+2)).mp r2.2
      rw [e]
      have hne : (bAt inp pos % 16) * 4096 + (bAt inp (pos+1) % 64) * 64 + (bAt inp (pos+2) % 64) ≠ 10 := by
        by_cases he : bAt inp pos = 0xE0
        · have := r1.2.2 he; omega
        · omega
      refine ⟨by simp, by simp; omega, ?_, ⟨fun hc => absurd hc hne, fun hc => by omega⟩⟩
      intro i h1 h2
      simp at h2
      have : i = pos + 1 ∨ i = pos + 2 := by omega
      rcases this with rfl | rfl
      · exact r1.1
      · exact r2.1
    · refine one_err ?_ (by omega)
      by_cases d1 : second3 (bAt inp pos) (bAt inp (pos+1)) = true
      · have d2 : ¬ cont (bAt inp (pos+2)) = true := fun hc => d (by simp [d1, hc])
        simp [decodeRune, h, c1, c2, c3, c4, d1, d2]
      · simp [decodeRune, h, c1, c2, c3, c4, d1]
  by_cases c5 : bAt inp pos < 0xF5
  · by_cases d : (second4 (bAt inp pos) (bAt inp (pos+1)) && cont (bAt inp (pos+2)) && cont (bAt inp (pos+3))) = true
    · simp only [Bool.and_eq_true] at d
      have e : decodeRune inp pos = ((bAt inp pos % 8) * 262144 + (bAt inp (pos+1) % 64) * 4096 + (bAt inp (pos+2) % 64) * 64 + (bAt inp (pos+3) % 64), 4) := by
        simp [decodeRune, h, c1, c2, c3, c4, c5, d.1.1, d.1.2, d.2]
      have r1 := second4_range d.1.1
      have r2 := cont_range d.1.2
      have r3 := cont_range d.2
      have l3 := (bAt_lt_256_iff (inp := inp) (i := pos+3)).mp r3.2
      rw [e]
      have hne : (bAt inp pos % 8) * 262144 + (bAt inp (pos+1) % 64) * 4096 + (bAt inp (pos+2) % 64) * 64 + (bAt inp (pos+3) % 64) ≠ 10 := by
        by_cases he : bAt inp pos = 0xF0
        · have := r1.2.2 he; omega
        · omega
      refine ⟨by simp, by simp; omega, ?_, ⟨fun hc => absurd hc hne, fun hc => by omega⟩⟩
      intro i h1 h2
      simp at h2
      have : i = pos + 1 ∨ i = pos + 2 ∨ i = pos + 3 := by omega
      rcases this with rfl | rfl | rfl
      · exact r1.1
      · exact r2.1
      · exact r3.1
    · refine one_err ?_ (by omega)
      by_cases d1 : second4 (bAt inp pos) (bAt inp (pos+1)) = true
      · by_cases d2 : cont (bAt inp (pos+2)) = true
        · have d3 : ¬ cont (bAt inp (pos+3)) = true := fun hc => d (by simp [d1, d2, hc])
          simp [decodeRune, h, c1, c2, c3, c4, c5, d1, d2, d3]
        · simp [decodeRune, h, c1, c2, c3, c4, c5, d1, d2]
      · simp [decodeRune, h, c1, c2, c3, c4, c5, d1]
  · exact one_err (by simp [decodeRune, h, c1, c2, c3, c4, c5]) (by omega)

theorem decode_size_pos {inp : Input} {pos : Nat} (h : pos < inp.size) :
    1 ≤ (decodeRune inp pos).2 ∧ pos + (decodeRune inp pos).2 ≤ inp.size :=
  ⟨(decode_spec h).1, (decode_spec h).2.1⟩

/-- the bytes of a decoded rune other than `\n` contain no `\n` -/
theorem decode_noNL {inp : Input} {pos : Nat} (h : pos < inp.size) (hr : (decodeRune inp pos).1 ≠ 10) :
    NoNL inp pos (pos + (decodeRune inp pos).2) := by
  obtain ⟨_, _, h3, h4⟩ := decode_spec h
  intro i hi1 hi2
  by_cases hi : i = pos
  · subst hi; intro hc; exact hr (h4.mpr hc)
  · have := h3 i (by omega) hi2; omega

theorem decode_first_byte {inp : Input} {pos : Nat} (h : pos < inp.size) (hb : bAt inp pos ≠ 10) :
    (decodeRune inp pos).1 ≠ 10 := fun hc => hb ((decode_spec h).2.2.2.mp hc)

/-! ### skipWhile -/

theorem skipWhile_ge (inp : Input) (p : Nat → Bool) (f pos : Nat) : pos ≤ skipWhile inp p f pos := by
  induction f generalizing pos with
  | zero => simp [skipWhile]
  | succ f ih =>
    unfold skipWhile; split
    · have := ih (pos+1); omega
    · omega

theorem skipWhile_le (inp : Input) (p : Nat → Bool) (f pos : Nat) (h : pos ≤ inp.size) :
    skipWhile inp p f pos ≤ inp.size := by
  induction f generalizing pos with
  | zero => simpa [skipWhile]
  | succ f ih =>
    unfold skipWhile; split
    · rename_i hc
      simp at hc
      exact ih (pos+1) (by omega)
    · exact h

end Proofs.Lex
