import Model.ConvReg
/-!
Lemmas for the registry level of C17 (`Model.ConvReg`): a call that walks the callee's own
parameter list is `callVia`; `runPlain` distributes over `++`; a memo whose key determines the
memoised parameter list never changes an answer.
-/
namespace Proofs.ConvReg
open Model.Conv

theorem callWith_own (pr : Prim) (tin : List InArm) (tout : List OutArm) (sig : Sig)
    (body : List GoVal → List GoVal) (args : List SVal) :
    callWith pr tin tout sig sig.params body args = call pr tin tout sig body args := by
  unfold callWith call
  rfl

theorem callViaWith_own (path : Path) (pr : Prim) (tin : List InArm) (tout : List OutArm) (sig : Sig)
    (body : List GoVal → List GoVal) (args : List SVal) :
    callViaWith path pr tin tout sig sig.params body args = callVia path pr tin tout sig body args := by
  unfold callViaWith callVia
  rw [callWith_own]

theorem planned_own (cfg : Cfg) (e : Entry) (env : Nat) (args : List SVal) :
    cfg.planned e e.sig.params env args = cfg.own e env args := by
  unfold Cfg.planned Cfg.own
  cases e.path <;> simp only [callViaWith_own]

theorem runPlain_append (cfg : Cfg) (U : Universe) (h₁ h₂ : List Op) (reg : List Nat) :
    runPlain cfg U reg (h₁ ++ h₂) = runPlain cfg U reg h₁ ++ runPlain cfg U (regAfter reg h₁) h₂ := by
  induction h₁ generalizing reg with
  | nil => simp [runPlain, regAfter]
  | cons op ops ih =>
    cases op with
    | register o => simp [runPlain, regAfter, ih]
    | call c env args => simp [runPlain, regAfter, ih]

theorem runPlain_length (cfg : Cfg) (U : Universe) (h : List Op) (reg : List Nat) :
    (runPlain cfg U reg h).length = h.length := by
  induction h generalizing reg with
  | nil => simp [runPlain]
  | cons op ops ih => cases op <;> simp [runPlain, ih]

/-- every stored plan is the own parameter list of every callee that maps to its key -/
def MemoInv {κ : Type} [DecidableEq κ] (U : Universe) (keyOf : Callee → κ) (st : List (κ × List GoType)) : Prop :=
  ∀ k p, assoc k st = some p → ∀ c, keyOf c = k → p = (U c).sig.params

theorem memoInv_nil {κ : Type} [DecidableEq κ] (U : Universe) (keyOf : Callee → κ) : MemoInv U keyOf [] := by
  intro k p h
  simp [assoc] at h

theorem memoInv_store {κ : Type} [DecidableEq κ] (U : Universe) (keyOf : Callee → κ)
    (hk : ∀ c c', keyOf c = keyOf c' → (U c).sig.params = (U c').sig.params)
    (st : List (κ × List GoType)) (hinv : MemoInv U keyOf st) (c : Callee) :
    MemoInv U keyOf ((keyOf c, (U c).sig.params) :: st) := by
  intro k p h c' hc'
  unfold assoc at h
  by_cases hkk : keyOf c = k
  · rw [if_pos hkk] at h
    cases h
    exact hk c c' (by rw [hkk, hc'])
  · rw [if_neg hkk] at h
    exact hinv k p h c' hc'

theorem runMemo_eq_runPlain {κ : Type} [DecidableEq κ] (cfg : Cfg) (U : Universe) (keyOf : Callee → κ)
    (hk : ∀ c c', keyOf c = keyOf c' → (U c).sig.params = (U c').sig.params)
    (ops : List Op) (reg : List Nat) (st : List (κ × List GoType)) (hinv : MemoInv U keyOf st) :
    runMemo cfg U keyOf reg st ops = runPlain cfg U reg ops := by
  induction ops generalizing reg st with
  | nil => simp [runMemo, runPlain]
  | cons op ops ih =>
    cases op with
    | register o => simp [runMemo, runPlain, ih _ _ hinv]
    | call c env args =>
      unfold runMemo runPlain
      by_cases hr : reg.contains c.owner = true
      · rw [if_pos hr, if_pos hr]
        cases hm : assoc (keyOf c) st with
        | some plan =>
          have hp : plan = (U c).sig.params := hinv _ _ hm c rfl
          simp only [hp, planned_own, ih _ _ hinv]
        | none =>
          simp only [planned_own, ih _ _ (memoInv_store U keyOf hk st hinv c)]
      · rw [if_neg hr, if_neg hr, ih _ _ hinv]

end Proofs.ConvReg
