import Proofs.Lemmas.ChanStep
/-! The data invariant of `Model.Chan`: one equation per sender ties what was received and what is
buffered to the log of successful sends; the logs are tied to the observable per-thread histories. -/
namespace Proofs.Chan
open Model.Chan

/-- messages received so far, in global receive order -/
def msgs (s : St) : List Msg := s.recvd.map (·.2)

theorem okSends_append (a b : List (Op × Res)) : okSends (a ++ b) = okSends a ++ okSends b := by
  induction a with
  | nil => rfl
  | cons x a ih =>
    obtain ⟨op, r⟩ := x
    cases op <;> cases r <;> simp [okSends, ih]
    rename_i b; cases b <;> simp [okSends, ih]

theorem gots_append (a b : List (Op × Res)) : gots (a ++ b) = gots a ++ gots b := by
  induction a with
  | nil => rfl
  | cons x a ih =>
    obtain ⟨op, r⟩ := x
    cases r <;> simp [gots, ih]

structure Data (s : St) : Prop where
  data : ∀ t, (msgs s ++ s.buf).filter (fun m => m.tid == t) = s.sentLog t
  ids : ∀ t, (s.sentLog t).map (·.seq) = List.range (s.sentLog t).length
  okS : ∀ t, (s.sentLog t).map (·.val) = okSends (s.hist t)
  got : ∀ r, (s.recvd.filter (fun p => p.1 == r)).map (·.2) = gots (s.hist r)
  room : s.buf.length ≤ s.cap

theorem data_init (cap : Nat) (prog : Nat → List Op) : Data (init cap prog) := by
  constructor <;> simp [init, msgs, okSends, gots]

macro "data_tac" t:term : tactic =>
  `(tactic| (constructor <;> (try intro x) <;> (try by_cases hx : x = $t) <;>
      simp_all [St.finish, msgs, upd, okSends_append, gots_append, okSends, gots, St.newMsg,
        List.filter_cons, List.range_succ] <;> (try omega) <;> (try grind)))

theorem data_step (s s' : St) (h : Data s) (hp : Prim s s') : Data s' := by
  obtain ⟨h1, h2, h3, h4, h5⟩ := h
  cases hp with
  | sendCheck t v hpc =>
    unfold stepSendCheck
    split
    · data_tac t
    · data_tac t
  | sendDo t v s' hpc hs =>
    unfold stepSendDo at hs
    split at hs
    · cases hs; data_tac t
    · split at hs
      · cases hs; data_tac t
      · cases hs
  | abort t v s' hpc hs =>
    unfold stepAbort at hs
    split at hs
    · cases hs; data_tac t
    · cases hs
  | recv r s' hpc hs =>
    unfold stepRecv at hs
    split at hs
    · cases hs; data_tac r
    · split at hs
      · cases hs; data_tac r
      · cases hs
  | closeCas t hpc =>
    unfold stepCloseCas
    split
    · data_tac t
    · data_tac t
  | closeSignal t hpc =>
    unfold stepCloseSignal
    split
    · data_tac t
    · data_tac t
  | closeFinal t s' hpc hs =>
    unfold stepCloseFinal at hs
    split at hs
    · cases hs
    · split at hs
      · cases hs; data_tac t
      · cases hs; data_tac t
  | isClosed t hpc =>
    unfold stepIsClosed
    data_tac t
  | hand t r v hpt hpr hc hcap hb =>
    have htr : t ≠ r := by intro e; subst e; simp_all
    have hrt : r ≠ t := fun e => htr e.symm
    unfold handSt
    constructor <;> (try intro x) <;> (try by_cases hx : x = t) <;> (try by_cases hy : x = r) <;>
      simp_all [St.finish, msgs, upd, okSends_append, gots_append, okSends, gots, St.newMsg,
        List.filter_cons, List.range_succ] <;> (try omega) <;> (try grind)

end Proofs.Chan
