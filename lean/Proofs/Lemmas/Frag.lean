import Spec.Frag
/-! Lemmas for the fragment-line theorem of C18. -/
namespace Proofs.Frag
open Model.Frag

/-- a UTF-8 sequence contains the byte `\n` only as the encoding of the rune `\n` -/
theorem count_nl_encodeRune (r : Nat) : (encodeRune r).count 10 = if r = 10 then 1 else 0 := by
  unfold encodeRune
  split
  · by_cases h : r = 10 <;> simp [h]
  · have h10 : r ≠ 10 := by omega
    simp only [h10, if_false]
    split
    · simp [List.count_cons]; omega
    · split
      · simp [List.count_cons]
      · split
        · simp [List.count_cons]; omega
        · simp [List.count_cons]; omega

theorem encode_take_succ (r : Nat) (rs : List Nat) (k : Nat) :
    encode ((r :: rs).take (k + 1)) = encodeRune r ++ encode (rs.take k) := by
  simp [List.take, encode]

theorem take_encode_cons (r : Nat) (rs : List Nat) (m : Nat) :
    (encode (r :: rs)).take ((encodeRune r).length + m) = encodeRune r ++ (encode rs).take m := by
  simp only [encode]
  rw [List.take_append]
  have h1 : List.take ((encodeRune r).length + m) (encodeRune r) = encodeRune r :=
    List.take_of_length_le (by omega)
  simp [h1]

end Proofs.Frag
